(* Two general facts about [exec], for code that (with everything it can call) uses only the primitives fread / fseek / fwrite / strlen
   and no new[] of objects:
   - [exec_grow]: a run never removes a pointer-table key and never lowers the heap counter;
   - [exec_more]: a run that ends without "alloc:" entries is reproduced verbatim on a state that holds MORE objects and MORE
     pointer-table entries (those of Jm / Jp, OVERLAID by the small state), provided Jm contains no member name of a future heap
     object and no "sizeof:" name, and Jp no "alloc:" key.  What the smaller run has, the bigger run has with the same value; what
     the smaller run does not have keeps its value of Jm / Jp. *)
From Coq Require Import ZArith NArith List String Bool Lia Ascii Arith.
From Wencry Require Import MiniC MiniCLemmas RefineE2ENames RefineE2ERel RefineE2EEval RefineE2EFrame.
Import ListNotations.
Local Open Scope list_scope.
Local Open Scope string_scope.

Section Mono.
Variable prog : program.
Variable vt : list (string * string).
Variable FL : list string.
Variable SZ : list string.     (* "sizeof:" names the bigger state may hold: no class created by the code may look one of them up *)

Fixpoint mok (st : stmt) : bool :=
  match st with
  | SSeq a b => mok a && mok b
  | SIf _ a b => mok a && mok b
  | SLoop _ a b => mok a && mok b
  | SDoWhile a _ => mok a
  | SCall _ g _ _ => inb g FL
  | SCallVirt _ m _ _ => fvirt prog FL m
  | SNewObj _ cls objs ctor _ => match ctor with Some g => inb g FL | None => true end &&
                                 forallb (fun x : string * ity * Z => negb (inb ("sizeof:" ++ cls ++ "." ++ fst (fst x)) SZ)) objs
  | SPrim _ name _ => inb name ["fread"; "fseek"; "fwrite"; "strlen"]
  | SNewObjArr _ _ _ _ => false
  | _ => true
  end.
Hypothesis HFL : forall g fn, In g FL -> lget prog g = Some fn -> mok (f_body fn) = true.

Lemma fvirt_in : forall m cls fn, fvirt prog FL m = true -> lget prog (cls ++ "::" ++ m) = Some fn -> In (cls ++ "::" ++ m) FL.
Proof.
  intros m cls fn K L. unfold fvirt in K. rewrite forallb_forall in K. specialize (K _ (lget_In _ _ _ _ L)). cbn [fst] in K.
  rewrite (has_suffix_app cls ("::" ++ m)) in K. apply inb_In, K.
Qed.

(* ---------------- the four primitives ---------------- *)
Lemma prim_cases : forall name, inb name ["fread"; "fseek"; "fwrite"; "strlen"] = true ->
  name = "fread" \/ name = "fseek" \/ name = "fwrite" \/ name = "strlen".
Proof.
  intros name K. unfold inb in K. cbn [existsb] in K. rewrite orb_false_r in K.
  repeat (apply orb_prop in K; destruct K as [K|K]); try (apply String.eqb_eq in K; auto).
Qed.

Lemma lset_keys : forall A (l : list (string * A)) k v v', lget l k = Some v -> map fst (lset l k v') = map fst l.
Proof.
  induction l as [|[k0 v0] l IH]; intros k v v' H; cbn [lget lset] in *; [discriminate|].
  destruct (String.eqb_spec k k0) as [->|N]; cbn [map fst]; [reflexivity|]. f_equal. eapply IH, H.
Qed.

Lemma prim_ptrs : forall s name vs v s', inb name ["fread"; "fseek"; "fwrite"; "strlen"] = true -> do_prim s name vs = Ok (v, s') ->
  ptrs s' = ptrs s /\ fresh s' = fresh s /\ loc s' = loc s /\ pre s' = pre s /\ map fst (files s') = map fst (files s).
Proof.
  intros s name vs v s' K H. destruct (prim_cases name K) as [-> |[-> |[-> | ->]]]; unfold do_prim in H; cbn [String.eqb Ascii.eqb Bool.eqb andb] in H.
  - destruct vs as [|[z|od offd|] vs]; try discriminate H.
    destruct vs as [|[z1|?|] vs]; try discriminate H. destruct z1 as [|[p|p|]|]; try discriminate H.
    destruct vs as [|[n|?|] vs]; try discriminate H. destruct vs as [|fp vs]; try discriminate H. destruct vs; try discriminate H.
    bo H as fname E0.
    destruct (lget (files s) fname) as [f|] eqn:Ef; [|discriminate]. destruct (mget (mem s) od) as [bd|]; [|discriminate].
    destruct (negb (ity_bytes (o_ty bd) =? 1)%Z);
      repeat match type of H with (if ?c then _ else _) = _ => destruct c; [discriminate|] end; injection H as _ <-;
      (repeat split; try reflexivity); cbn [with_files with_mem files]; eapply lset_keys; exact Ef.
  - destruct vs as [|fp vs]; try discriminate H. destruct vs as [|[off|?|] vs]; try discriminate H.
    destruct vs as [|[z|?|] vs]; try discriminate H. destruct z; try discriminate H. destruct vs; try discriminate H.
    bo H as fname E0.
    destruct (lget (files s) fname) as [f|] eqn:Ef; [|discriminate].
    match type of H with (if ?c then _ else _) = _ => destruct c; [discriminate|] end. injection H as _ <-.
    (repeat split; try reflexivity); cbn [with_files with_mem files]; eapply lset_keys; exact Ef.
  - destruct vs as [|[z|os offs|] vs]; try discriminate H.
    destruct vs as [|[z1|?|] vs]; try discriminate H. destruct z1 as [|[p|p|]|]; try discriminate H.
    destruct vs as [|[n|?|] vs]; try discriminate H. destruct vs as [|fp vs]; try discriminate H. destruct vs; try discriminate H.
    bo H as fname E0.
    destruct (lget (files s) fname) as [f|] eqn:Ef; [|discriminate]. destruct (mget (mem s) os) as [bs|]; [|discriminate].
    repeat match type of H with (if ?c then _ else _) = _ => destruct c; [discriminate|] end. injection H as _ <-.
    (repeat split; try reflexivity); cbn [with_files with_mem files]; eapply lset_keys; exact Ef.
  - destruct vs as [|[z|o off|] vs]; try discriminate H. destruct vs; try discriminate H.
    destruct (mget (mem s) o) as [ob|]; [|discriminate].
    match type of H with (if ?c then _ else _) = _ => destruct c; [discriminate|] end.
    destruct (strlen_from _ _); [|discriminate]. injection H as _ <-. repeat split; reflexivity.
Qed.

(* ---------------- keys and the heap counter only grow; the set of streams stays ---------------- *)
Definition grow (s s' : state) : Prop :=
  (fresh s <= fresh s')%nat /\ (forall k, lget (ptrs s) k <> None -> lget (ptrs s') k <> None) /\ map fst (files s') = map fst (files s).
Lemma grow_refl : forall s, grow s s.
Proof. intro s. repeat split; auto. Qed.
Lemma grow_trans : forall a b c, grow a b -> grow b c -> grow a c.
Proof. intros a b c (A1 & A2 & A3) (B1 & B2 & B3). split; [lia|]. split; [auto|congruence]. Qed.
Lemma grow_same : forall s s', ptrs s' = ptrs s -> fresh s' = fresh s -> map fst (files s') = map fst (files s) -> grow s s'.
Proof. intros s s' Hp Hf Hk. unfold grow. rewrite Hp, Hf. repeat split; auto. Qed.
Lemma lset_keeps : forall A (l : list (string * A)) k v k', lget l k' <> None -> lget (lset l k v) k' <> None.
Proof.
  intros A l k v k' H. destruct (String.eqb_spec k k') as [->|N]; [rewrite lget_lset_same; discriminate|].
  rewrite lget_lset_other by exact N. exact H.
Qed.
Lemma memcpy_same : forall s d sr n s', do_memcpy s d sr n = Ok s' -> ptrs s' = ptrs s /\ fresh s' = fresh s /\ files s' = files s.
Proof.
  intros s d sr n s' H. unfold do_memcpy in H. destruct d as [|od offd|]; try discriminate. destruct sr as [|os offs|]; try discriminate.
  destruct (mget (mem s) od); [|discriminate]. destruct (mget (mem s) os); [|discriminate].
  repeat match type of H with (if ?c then _ else _) = _ => destruct c; [discriminate|] end. injection H as <-. auto.
Qed.
Lemma memset_same : forall s d v n s', do_memset s d v n = Ok s' -> ptrs s' = ptrs s /\ fresh s' = fresh s /\ files s' = files s.
Proof.
  intros s d v n s' H. unfold do_memset in H. destruct d as [|od offd|]; try discriminate.
  destruct (mget (mem s) od); [|discriminate].
  repeat match type of H with (if ?c then _ else _) = _ => destruct c; [discriminate|] end. injection H as <-. auto.
Qed.
Lemma set_ret_same : forall s ret v s2, set_ret s ret v = Ok s2 -> ptrs s2 = ptrs s /\ fresh s2 = fresh s /\ mem s2 = mem s /\ files s2 = files s /\ pre s2 = pre s.
Proof. intros s ret v s2 H. unfold set_ret in H. destruct ret; [destruct v; [|discriminate]|]; injection H as <-; repeat split. Qed.

Theorem exec_grow : forall fuel st s o s', mok st = true -> exec prog vt fuel st s = Ok (o, s') -> grow s s'.
Proof.
  induction fuel as [|fuel IH]; intros st s o s' K H; [discriminate H|].
  assert (CALL : forall ret g pfx vs o0 s0, In g FL ->
    match lget prog g with
    | None => UB ("no function " ++ g)%string
    | Some f => do l <- bind_params (f_params f) vs;
                do r1 <- exec prog vt fuel (f_body f) {| mem := mem s; loc := l; pre := pfx; files := files s; ptrs := ptrs s; fresh := fresh s |};
                let '(o, s1) := r1 in
                do s2 <- set_ret {| mem := mem s1; loc := loc s; pre := pre s; files := files s1; ptrs := ptrs s1; fresh := fresh s1 |} ret
                                 (match o with Returned v => v | _ => None end);
                Ok (Normal, s2)
    end = Ok (o0, s0) -> grow s s0).
  { intros ret g pfx vs o0 s0 Hg Hc. destruct (lget prog g) as [fn|] eqn:L; [|discriminate Hc].
    bo Hc as l El. bo Hc as r1 E1. destruct r1 as [o1 s1]. bo Hc as s2 E2. injection Hc as _ <-.
    pose proof (IH _ _ _ _ (HFL g fn Hg L) E1) as (F1 & F2 & F3). destruct (set_ret_same _ _ _ _ E2) as (A & B & _ & D & _). cbn [ptrs fresh files] in A, B, D, F1, F2, F3.
    unfold grow. rewrite A, B, D. repeat split; assumption. }
  destruct st; cbn [mok] in K; try discriminate K; cbn [exec] in H.
  - injection H as _ <-. apply grow_refl.
  - apply andb_prop in K. destruct K as [K1 K2]. bo H as r1 E1. destruct r1 as [o1 s1]. pose proof (IH _ _ _ _ K1 E1) as F1.
    destruct o1; [eapply grow_trans; [exact F1|eapply IH; eassumption]|injection H as _ <-; exact F1|injection H as _ <-; exact F1].
  - bo H as v Ev. injection H as _ <-. apply grow_same; reflexivity.
  - bo H as pv Ep. bo H as ev Ee. bo H as z Ez. destruct pv as [|ob off|]; try discriminate H. destruct (mget (mem s) ob); [|discriminate H].
    bo H as ob' Es. injection H as _ <-. apply grow_same; reflexivity.
  - apply andb_prop in K. destruct K as [K1 K2]. bo H as cv Ec. bo H as x Ex. destruct (x =? 0)%Z; [eapply IH; [exact K2|exact H]|eapply IH; [exact K1|exact H]].
  - pose proof K as K0. apply andb_prop in K. destruct K as [K1 K2]. bo H as cv Ec. bo H as x Ex.
    destruct (x =? 0)%Z; [injection H as _ <-; apply grow_refl|].
    bo H as r1 E1. destruct r1 as [o1 s1]. pose proof (IH _ _ _ _ K1 E1) as F1.
    destruct o1; [|injection H as _ <-; exact F1|injection H as _ <-; exact F1].
    bo H as r2 E2. destruct r2 as [o2 s2]. pose proof (IH _ _ _ _ K2 E2) as F2. destruct o2; try discriminate H.
    eapply grow_trans; [exact F1|]. eapply grow_trans; [exact F2|]. eapply (IH (SLoop c st1 st2)); [exact K0|exact H].
  - bo H as r1 E1. destruct r1 as [o1 s1]. pose proof (IH _ _ _ _ K E1) as F1.
    destruct o1; [|injection H as _ <-; exact F1|injection H as _ <-; exact F1].
    bo H as cv Ec. bo H as x Ex. destruct (x =? 0)%Z; [injection H as _ <-; exact F1|].
    eapply grow_trans; [exact F1|]. eapply (IH (SDoWhile st c)); [exact K|exact H].
  - injection H as _ <-. apply grow_refl.
  - destruct e; [bo H as v Ev|]; injection H as _ <-; apply grow_refl.
  - bo H as vs Evs. bo H as pfx Epf. eapply CALL; [apply inb_In, K|exact H].
  - bo H as vs Evs. bo H as pfx Epf.
    destruct (lget vt pfx) as [cls|].
    + destruct (lget prog (cls ++ "::" ++ m)) as [fn|] eqn:L; [|discriminate H]. eapply (CALL ret (cls ++ "::" ++ m)); [eapply fvirt_in; eassumption|rewrite L; exact H].
    + destruct (lget (ptrs s) (class_key pfx)) as [[z|cls off|]|]; try discriminate H.
      destruct (lget prog (cls ++ "::" ++ m)) as [fn|] eqn:L; [|discriminate H]. eapply (CALL ret (cls ++ "::" ++ m)); [eapply fvirt_in; eassumption|rewrite L; exact H].
  - bo H as dv Ed. bo H as sv Es. bo H as nv En. bo H as k Ek. bo H as s1 Em. injection H as _ <-.
    destruct (memcpy_same _ _ _ _ _ Em) as (A & B & D). apply grow_same; congruence.
  - bo H as dv Ed. bo H as vv Ev. bo H as x Ex. bo H as nv En. bo H as k Ek. bo H as s1 Em. injection H as _ <-.
    destruct (memset_same _ _ _ _ _ Em) as (A & B & D). apply grow_same; congruence.
  - injection H as _ <-. apply grow_same; reflexivity.
  - bo H as nv En. bo H as k Ek. destruct (k <? 0)%Z; [discriminate H|]. injection H as _ <-.
    split; [cbn [fresh]; lia|]. split; [cbn [ptrs]; auto|reflexivity].
  - bo H as pv Ep. injection H as _ <-. apply grow_refl.
  - bo H as vs Evs. bo H as r Er. destruct r as [v s1]. bo H as s2 E2. injection H as _ <-.
    destruct (prim_ptrs _ _ _ _ _ K Er) as (A & B & _ & _ & D). destruct (set_ret_same _ _ _ _ E2) as (A2 & B2 & _ & D2 & _).
    apply grow_same; congruence.
  - bo H as pv Ep. bo H as ev Ee. destruct pv as [|ob off|]; try discriminate H. injection H as _ <-.
    split; [cbn [with_ptrs fresh]; lia|]. split; [|reflexivity]. cbn [with_ptrs ptrs]. intros k Hk. apply lset_keeps, Hk.
  - bo H as vs Evs. apply andb_prop in K. destruct K as [K _].
    match type of H with (if negb ?b then _ else _) = _ => destruct (negb b); [discriminate H|] end.
    destruct ctor as [g|].
    + destruct (lget prog g) as [fn|] eqn:L; [|discriminate H]. bo H as l El. bo H as r1 E1. destruct r1 as [o1 s1]. injection H as _ <-.
      pose proof (IH _ _ _ _ (HFL g fn (proj1 (inb_In _ _) K) L) E1) as (F1 & F2 & F3). cbn [fresh ptrs files] in F1, F2, F3 |- *.
      split; [cbn [fresh]; lia|]. split; [|exact F3]. cbn [ptrs]. intros k Hk. apply F2. apply lset_keeps, Hk.
    + injection H as _ <-. split; [cbn [fresh]; lia|]. split; [|reflexivity]. cbn [ptrs]. intros k Hk. apply lset_keeps, Hk.
  - bo H as pv Ep. bo H as ev Ee. destruct pv as [|ob off|]; try discriminate H. injection H as _ <-.
    split; [cbn [with_ptrs fresh]; lia|]. split; [|reflexivity]. cbn [with_ptrs ptrs]. intros k Hk. apply lset_keeps, Hk.
Qed.

Lemma call_grow : forall fuel g pfx vs s v s', In g FL -> call prog vt fuel g pfx vs s = Ok (v, s') -> grow s s'.
Proof.
  intros fuel g pfx vs s v s' Hg H. unfold call in H. destruct (lget prog g) as [fn|] eqn:L; [|discriminate H].
  bo H as l El. bo H as r1 E1. destruct r1 as [o1 s1]. injection H as _ <-.
  pose proof (exec_grow _ _ _ _ _ (HFL g fn Hg L) E1) as (F1 & F2 & F3). cbn [fresh ptrs files] in F1, F2, F3.
  repeat split; cbn [fresh ptrs files]; assumption.
Qed.

(* ---------------- the bigger state ---------------- *)
Variable Jm : memory.
Variable Jp : list (string * value).
Variable f0 : nat.
Hypothesis HXf : forall n y, (f0 <= n)%nat -> mget Jm (hobj n ++ y) = None.
Hypothesis HXs : forall r, ~ In ("sizeof:" ++ r) SZ -> mget Jm ("sizeof:" ++ r) = None.
Hypothesis HYa : forall c, lget Jp ("alloc:" ++ c) = None.

Definition MRm (m M : memory) : Prop := forall k, mget M k = match mget m k with Some o => Some o | None => mget Jm k end.
Definition MRp (p P : list (string * value)) : Prop := forall k, lget P k = match lget p k with Some v => Some v | None => lget Jp k end.
Lemma mrm_some : forall m M k o, MRm m M -> mget m k = Some o -> mget M k = Some o.
Proof. intros m M k o R H. rewrite (R k), H. reflexivity. Qed.
Lemma mrm_none : forall m M k, MRm m M -> mget m k = None -> mget M k = mget Jm k.
Proof. intros m M k R H. rewrite (R k), H. reflexivity. Qed.
Lemma mrp_some : forall p P k v, MRp p P -> lget p k = Some v -> lget P k = Some v.
Proof. intros p P k v R H. rewrite (R k), H. reflexivity. Qed.
Lemma mrp_none : forall p P k, MRp p P -> lget p k = None -> lget P k = lget Jp k.
Proof. intros p P k R H. rewrite (R k), H. reflexivity. Qed.
Record MR (s S : state) : Prop := {
  mr_loc : loc S = loc s; mr_pre : pre S = pre s; mr_files : files S = files s; mr_fresh : fresh S = fresh s;
  mr_f0 : (f0 <= fresh s)%nat;
  mr_m : MRm (mem s) (mem S);
  mr_p : MRp (ptrs s) (ptrs S) }.
Definition NA (s : state) : Prop := forall c, lget (ptrs s) ("alloc:" ++ c) = None.

Lemma NA_grow : forall s s', grow s s' -> NA s' -> NA s.
Proof.
  intros s s' (_ & G & _) N c. destruct (lget (ptrs s) ("alloc:" ++ c)) as [v|] eqn:E; [|reflexivity].
  exfalso. apply (G ("alloc:" ++ c)); [rewrite E; discriminate|apply N].
Qed.

Lemma mrm_mset : forall m M k ob, MRm m M -> MRm (mset m k ob) (mset M k ob).
Proof.
  intros m M k ob R k'. destruct (String.eqb_spec k k') as [<-|N].
  - rewrite !mget_mset_same. reflexivity.
  - rewrite !mget_mset_other by exact N. apply R.
Qed.
Lemma mrp_lset : forall p P k v, MRp p P -> MRp (lset p k v) (lset P k v).
Proof.
  intros p P k v R k'. destruct (String.eqb_spec k k') as [<-|N].
  - rewrite !lget_lset_same. reflexivity.
  - rewrite !lget_lset_other by exact N. apply R.
Qed.
Lemma mrm_sizeof : forall m M r, ~ In ("sizeof:" ++ r) SZ -> MRm m M -> mget M ("sizeof:" ++ r) = mget m ("sizeof:" ++ r).
Proof.
  intros m M r Hr R. rewrite (R ("sizeof:" ++ r)). destruct (mget m ("sizeof:" ++ r)); [reflexivity|apply HXs, Hr].
Qed.
Lemma mrm_alloc : forall cls pfx objs m M,
  forallb (fun x : string * ity * Z => negb (inb ("sizeof:" ++ cls ++ "." ++ fst (fst x)) SZ)) objs = true ->
  MRm m M -> MRm (alloc_objs cls pfx objs m) (alloc_objs cls pfx objs M).
Proof.
  intros cls pfx objs. induction objs as [|[[name t] n] r IH]; intros m M Hz R; cbn [alloc_objs]; [exact R|].
  cbn [forallb fst] in Hz. apply andb_prop in Hz. destruct Hz as [Hz1 Hz2].
  change ("sizeof:" ++ cls ++ "." ++ name) with ("sizeof:" ++ (cls ++ "." ++ name)) in *.
  rewrite (mrm_sizeof m M _ (fun Hin => eq_true_false_abs _ (proj2 (inb_In _ _) Hin) (proj1 (negb_true_iff _) Hz1)) R).
  apply IH; [exact Hz2|]. apply mrm_mset, R.
Qed.

(* MR for the usual updates *)
Lemma mr_mk : forall s S m M p P l pf fs fr, MR s S -> MRm m M -> MRp p P -> (f0 <= fr)%nat ->
  MR {| mem := m; loc := l; pre := pf; files := fs; ptrs := p; fresh := fr |} {| mem := M; loc := l; pre := pf; files := fs; ptrs := P; fresh := fr |}.
Proof. intros. constructor; cbn [mem loc pre files ptrs fresh]; auto. Qed.

Lemma eval_more : forall s S e v, MR s S -> eval s e = Ok v -> eval S e = Ok v.
Proof.
  intros s S e v R. revert v. induction e; intros v H; cbn [eval] in H |- *;
    try (rewrite (mr_loc _ _ R)); try (rewrite (mr_pre _ _ R)); try exact H.
  - bo H as pv Ep. rewrite (IHe _ Ep). cbn [bind]. destruct pv as [z|o off|]; try discriminate H.
    destruct (mget (mem s) o) as [ob|] eqn:Eo; [|discriminate H]. rewrite (mrm_some _ _ _ _ (mr_m _ _ R) Eo). exact H.
  - bo H as pv Ep. rewrite (IHe1 _ Ep). cbn [bind]. bo H as iv Ei. rewrite (IHe2 _ Ei). cbn [bind]. exact H.
  - bo H as av Ea. rewrite (IHe _ Ea). cbn [bind]. exact H.
  - bo H as av Ea. rewrite (IHe1 _ Ea). cbn [bind]. bo H as x Ex. rewrite Ex. cbn [bind]. bo H as bv Eb. rewrite (IHe2 _ Eb). cbn [bind]. exact H.
  - bo H as av Ea. rewrite (IHe _ Ea). cbn [bind]. exact H.
  - bo H as cv Ec. rewrite (IHe1 _ Ec). cbn [bind]. bo H as x Ex. rewrite Ex. cbn [bind]. destruct (x =? 0)%Z; auto.
  - bo H as av Ea. rewrite (IHe1 _ Ea). cbn [bind]. bo H as x Ex. rewrite Ex. cbn [bind]. destruct (x =? 0)%Z; [exact H|].
    bo H as bv Eb. rewrite (IHe2 _ Eb). cbn [bind]. exact H.
  - bo H as av Ea. rewrite (IHe1 _ Ea). cbn [bind]. bo H as x Ex. rewrite Ex. cbn [bind]. destruct (x =? 0)%Z; [|exact H].
    bo H as bv Eb. rewrite (IHe2 _ Eb). cbn [bind]. exact H.
  - bo H as pv Ep. rewrite (IHe _ Ep). cbn [bind]. exact H.
  - bo H as pv Ep. rewrite (IHe _ Ep). cbn [bind]. destruct pv as [z|o off|]; try discriminate H.
    destruct (lget (ptrs s) o) as [w|] eqn:Eo; [|discriminate H]. rewrite (mrp_some _ _ _ _ (mr_p _ _ R) Eo). exact H.
  - bo H as av Ea. rewrite (IHe1 _ Ea). cbn [bind]. bo H as bv Eb. rewrite (IHe2 _ Eb). cbn [bind]. exact H.
  - bo H as pv Ep. rewrite (IHe _ Ep). cbn [bind]. destruct pv as [z|o off|]; try discriminate H.
    destruct (lget (ptrs s) (ptr_key o off)) as [w|] eqn:Eo; [|discriminate H]. rewrite (mrp_some _ _ _ _ (mr_p _ _ R) Eo). exact H.
  - bo H as pv Ep. rewrite (IHe1 _ Ep). cbn [bind]. bo H as iv Ei. rewrite (IHe2 _ Ei). cbn [bind]. exact H.
Qed.
Lemma eval_list_more : forall s S es vs, MR s S -> eval_list s es = Ok vs -> eval_list S es = Ok vs.
Proof.
  intros s S es. induction es as [|e es IH]; intros vs R H; cbn [eval_list] in H |- *; [exact H|].
  bo H as v Ev. rewrite (eval_more _ _ _ _ R Ev). cbn [bind]. bo H as vs' Evs. rewrite (IH _ R Evs). exact H.
Qed.
Lemma this_prefix_more : forall s S this pfx, MR s S -> this_prefix s this = Ok pfx -> this_prefix S this = Ok pfx.
Proof.
  intros s S this pfx R H. unfold this_prefix in *. destruct this as [e|]; [|rewrite (mr_pre _ _ R); exact H].
  bo H as v Ev. rewrite (eval_more _ _ _ _ R Ev). exact H.
Qed.

Lemma set_ret_more : forall s S ret v s2, MR s S -> set_ret s ret v = Ok s2 -> exists S2, set_ret S ret v = Ok S2 /\ MR s2 S2.
Proof.
  intros s S ret v s2 R H. unfold set_ret in *. destruct ret as [x|]; [destruct v as [w|]; [|discriminate H]|]; injection H as <-.
  - eexists. split; [reflexivity|]. destruct R. constructor; cbn [with_loc mem loc pre files ptrs fresh]; auto. now rewrite mr_loc0.
  - eexists. split; [reflexivity|exact R].
Qed.

Lemma memcpy_more : forall s S d sr n s', MR s S -> do_memcpy s d sr n = Ok s' -> exists S', do_memcpy S d sr n = Ok S' /\ MR s' S'.
Proof.
  intros s S d sr n s' R H. unfold do_memcpy in *. destruct d as [|od offd|]; try discriminate. destruct sr as [|os offs|]; try discriminate.
  destruct (mget (mem s) od) as [bd|] eqn:E1; [|discriminate]. destruct (mget (mem s) os) as [bs|] eqn:E2; [|discriminate].
  rewrite (mrm_some _ _ _ _ (mr_m _ _ R) E1), (mrm_some _ _ _ _ (mr_m _ _ R) E2).
  repeat match type of H with (if ?c then _ else _) = _ => destruct c; [discriminate|] end. injection H as <-.
  eexists. split; [reflexivity|]. destruct R. constructor; cbn [with_mem mem loc pre files ptrs fresh]; auto. apply mrm_mset; assumption.
Qed.
Lemma memset_more : forall s S d v n s', MR s S -> do_memset s d v n = Ok s' -> exists S', do_memset S d v n = Ok S' /\ MR s' S'.
Proof.
  intros s S d v n s' R H. unfold do_memset in *. destruct d as [|od offd|]; try discriminate.
  destruct (mget (mem s) od) as [bd|] eqn:E1; [|discriminate]. rewrite (mrm_some _ _ _ _ (mr_m _ _ R) E1).
  repeat match type of H with (if ?c then _ else _) = _ => destruct c; [discriminate|] end. injection H as <-.
  eexists. split; [reflexivity|]. destruct R. constructor; cbn [with_mem mem loc pre files ptrs fresh]; auto. apply mrm_mset; assumption.
Qed.

Lemma prim_more : forall s S name vs v s', inb name ["fread"; "fseek"; "fwrite"; "strlen"] = true -> MR s S ->
  do_prim s name vs = Ok (v, s') -> exists S', do_prim S name vs = Ok (v, S') /\ MR s' S'.
Proof.
  intros s S name vs v s' K R H. destruct (prim_cases name K) as [-> |[-> |[-> | ->]]]; unfold do_prim in H |- *; cbn [String.eqb Ascii.eqb Bool.eqb andb] in H |- *.
  - destruct vs as [|[z|od offd|] vs]; try discriminate H.
    destruct vs as [|[z1|?|] vs]; try discriminate H. destruct z1 as [|[p|p|]|]; try discriminate H.
    destruct vs as [|[n|?|] vs]; try discriminate H. destruct vs as [|fp vs]; try discriminate H. destruct vs; try discriminate H.
    bo H as fname E0. rewrite E0. cbn [bind]. rewrite (mr_files _ _ R).
    destruct (lget (files s) fname) as [f|] eqn:Ef; [|discriminate]. destruct (mget (mem s) od) as [bd|] eqn:Eo; [|discriminate].
    rewrite (mrm_some _ _ _ _ (mr_m _ _ R) Eo).
    destruct (negb (ity_bytes (o_ty bd) =? 1)%Z);
      repeat match type of H with (if ?c then _ else _) = _ => destruct c; [discriminate|] end; injection H as <- <-;
      (eexists; split; [reflexivity|]); destruct R; constructor; cbn [with_mem with_files mem loc pre files ptrs fresh]; auto; apply mrm_mset; assumption.
  - destruct vs as [|fp vs]; try discriminate H. destruct vs as [|[off|?|] vs]; try discriminate H.
    destruct vs as [|[z|?|] vs]; try discriminate H. destruct z; try discriminate H. destruct vs; try discriminate H.
    bo H as fname E0. rewrite E0. cbn [bind]. rewrite (mr_files _ _ R).
    destruct (lget (files s) fname) as [f|] eqn:Ef; [|discriminate].
    match type of H with (if ?c then _ else _) = _ => destruct c; [discriminate|] end. injection H as <- <-.
    eexists. split; [reflexivity|]. destruct R; constructor; cbn [with_files mem loc pre files ptrs fresh]; auto.
  - destruct vs as [|[z|os offs|] vs]; try discriminate H.
    destruct vs as [|[z1|?|] vs]; try discriminate H. destruct z1 as [|[p|p|]|]; try discriminate H.
    destruct vs as [|[n|?|] vs]; try discriminate H. destruct vs as [|fp vs]; try discriminate H. destruct vs; try discriminate H.
    bo H as fname E0. rewrite E0. cbn [bind]. rewrite (mr_files _ _ R).
    destruct (lget (files s) fname) as [f|] eqn:Ef; [|discriminate]. destruct (mget (mem s) os) as [bs|] eqn:Eo; [|discriminate].
    rewrite (mrm_some _ _ _ _ (mr_m _ _ R) Eo).
    repeat match type of H with (if ?c then _ else _) = _ => destruct c; [discriminate|] end. injection H as <- <-.
    eexists. split; [reflexivity|]. destruct R; constructor; cbn [with_files mem loc pre files ptrs fresh]; auto.
  - destruct vs as [|[z|o off|] vs]; try discriminate H. destruct vs; try discriminate H.
    destruct (mget (mem s) o) as [ob|] eqn:Eo; [|discriminate]. rewrite (mrm_some _ _ _ _ (mr_m _ _ R) Eo).
    match type of H with (if ?c then _ else _) = _ => destruct c; [discriminate|] end.
    destruct (strlen_from _ _); [|discriminate]. injection H as <- <-. eexists. split; [reflexivity|exact R].
Qed.

Theorem exec_more : forall fuel st s S o s', mok st = true -> exec prog vt fuel st s = Ok (o, s') -> NA s' -> MR s S ->
  exists S', exec prog vt fuel st S = Ok (o, S') /\ MR s' S'.
Proof.
  induction fuel as [|fuel IH]; intros st s S o s' K H N R; [discriminate H|].
  pose proof (NA_grow _ _ (exec_grow _ _ _ _ _ K H) N) as N0.
  assert (CALL : forall ret g pfx vs o0 s0, In g FL -> NA s0 ->
    match lget prog g with
    | None => UB ("no function " ++ g)%string
    | Some f => do l <- bind_params (f_params f) vs;
                do r1 <- exec prog vt fuel (f_body f) {| mem := mem s; loc := l; pre := pfx; files := files s; ptrs := ptrs s; fresh := fresh s |};
                let '(o, s1) := r1 in
                do s2 <- set_ret {| mem := mem s1; loc := loc s; pre := pre s; files := files s1; ptrs := ptrs s1; fresh := fresh s1 |} ret
                                 (match o with Returned v => v | _ => None end);
                Ok (Normal, s2)
    end = Ok (o0, s0) ->
    exists S0,
    match lget prog g with
    | None => UB ("no function " ++ g)%string
    | Some f => do l <- bind_params (f_params f) vs;
                do r1 <- exec prog vt fuel (f_body f) {| mem := mem S; loc := l; pre := pfx; files := files S; ptrs := ptrs S; fresh := fresh S |};
                let '(o, s1) := r1 in
                do s2 <- set_ret {| mem := mem s1; loc := loc S; pre := pre S; files := files s1; ptrs := ptrs s1; fresh := fresh s1 |} ret
                                 (match o with Returned v => v | _ => None end);
                Ok (Normal, s2)
    end = Ok (o0, S0) /\ MR s0 S0).
  { intros ret g pfx vs o0 s0 Hg Ns0 Hc. destruct (lget prog g) as [fn|] eqn:L; [|discriminate Hc].
    bo Hc as l El. rewrite El. cbn [bind]. bo Hc as r1 E1. destruct r1 as [o1 s1]. bo Hc as s2 E2. injection Hc as <- <-.
    destruct (set_ret_same _ _ _ _ E2) as (A & _). cbn [ptrs] in A.
    assert (N1 : NA s1) by (intro c; rewrite <- A; apply Ns0).
    assert (Rc : MR {| mem := mem s; loc := l; pre := pfx; files := files s; ptrs := ptrs s; fresh := fresh s |}
                    {| mem := mem S; loc := l; pre := pfx; files := files S; ptrs := ptrs S; fresh := fresh S |}).
    { rewrite (mr_files _ _ R), (mr_fresh _ _ R). apply (mr_mk s S); [exact R|apply (mr_m _ _ R)|apply (mr_p _ _ R)|apply (mr_f0 _ _ R)]. }
    destruct (IH _ _ _ _ _ (HFL g fn Hg L) E1 N1 Rc) as (S1 & Ex1 & R1). rewrite Ex1. cbn [bind].
    assert (Rb : MR {| mem := mem s1; loc := loc s; pre := pre s; files := files s1; ptrs := ptrs s1; fresh := fresh s1 |}
                    {| mem := mem S1; loc := loc S; pre := pre S; files := files S1; ptrs := ptrs S1; fresh := fresh S1 |}).
    { rewrite (mr_loc _ _ R), (mr_pre _ _ R), (mr_files _ _ R1), (mr_fresh _ _ R1).
      apply (mr_mk s1 S1); [exact R1|apply (mr_m _ _ R1)|apply (mr_p _ _ R1)|apply (mr_f0 _ _ R1)]. }
    destruct (set_ret_more _ _ _ _ _ Rb E2) as (S2 & E2' & R2). rewrite E2'. cbn [bind]. exists S2. split; [reflexivity|exact R2]. }
  destruct st; cbn [mok] in K; try discriminate K; cbn [exec] in H |- *.
  - (* SSkip *) injection H as <- <-. exists S. split; [reflexivity|exact R].
  - (* SSeq *)
    apply andb_prop in K. destruct K as [K1 K2]. bo H as r1 E1. destruct r1 as [o1 s1].
    destruct o1.
    + pose proof (NA_grow _ _ (exec_grow _ _ _ _ _ K2 H) N) as N1.
      destruct (IH _ _ _ _ _ K1 E1 N1 R) as (S1 & Ex1 & R1). rewrite Ex1. cbn [bind]. apply (IH _ _ _ _ _ K2 H N R1).
    + injection H as <- <-. destruct (IH _ _ _ _ _ K1 E1 N R) as (S1 & Ex1 & R1). rewrite Ex1. cbn [bind]. exists S1. split; [reflexivity|exact R1].
    + injection H as <- <-. destruct (IH _ _ _ _ _ K1 E1 N R) as (S1 & Ex1 & R1). rewrite Ex1. cbn [bind]. exists S1. split; [reflexivity|exact R1].
  - (* SSet *)
    bo H as v Ev. injection H as <- <-. rewrite (eval_more _ _ _ _ R Ev). cbn [bind]. eexists. split; [reflexivity|].
    destruct R. constructor; cbn [with_loc mem loc pre files ptrs fresh]; auto. now rewrite mr_loc0.
  - (* SStore *)
    bo H as pv Ep. bo H as ev Ee. bo H as z Ez. rewrite (eval_more _ _ _ _ R Ep). cbn [bind]. rewrite (eval_more _ _ _ _ R Ee). cbn [bind]. rewrite Ez. cbn [bind].
    destruct pv as [|ob off|]; try discriminate H. destruct (mget (mem s) ob) as [obj|] eqn:Eo; [|discriminate H].
    rewrite (mrm_some _ _ _ _ (mr_m _ _ R) Eo). bo H as ob' Es. rewrite Es. cbn [bind]. injection H as <- <-.
    eexists. split; [reflexivity|]. destruct R. constructor; cbn [with_mem mem loc pre files ptrs fresh]; auto. apply mrm_mset; assumption.
  - (* SIf *)
    apply andb_prop in K. destruct K as [K1 K2]. bo H as cv Ec. bo H as x Ex. rewrite (eval_more _ _ _ _ R Ec). cbn [bind]. rewrite Ex. cbn [bind].
    destruct (x =? 0)%Z; [apply (IH _ _ _ _ _ K2 H N R)|apply (IH _ _ _ _ _ K1 H N R)].
  - (* SLoop *)
    pose proof K as K0. apply andb_prop in K. destruct K as [K1 K2]. bo H as cv Ec. bo H as x Ex.
    rewrite (eval_more _ _ _ _ R Ec). cbn [bind]. rewrite Ex. cbn [bind].
    destruct (x =? 0)%Z; [injection H as <- <-; exists S; split; [reflexivity|exact R]|].
    bo H as r1 E1. destruct r1 as [o1 s1].
    destruct o1.
    + bo H as r2 E2. destruct r2 as [o2 s2]. destruct o2; try discriminate H.
      pose proof (NA_grow _ _ (exec_grow _ (SLoop c st1 st2) _ _ _ K0 H) N) as N2.
      pose proof (NA_grow _ _ (exec_grow _ _ _ _ _ K2 E2) N2) as N1.
      destruct (IH _ _ _ _ _ K1 E1 N1 R) as (S1 & Ex1 & R1). rewrite Ex1. cbn [bind].
      destruct (IH _ _ _ _ _ K2 E2 N2 R1) as (S2 & Ex2 & R2). rewrite Ex2. cbn [bind].
      apply (IH (SLoop c st1 st2) _ _ _ _ K0 H N R2).
    + injection H as <- <-. destruct (IH _ _ _ _ _ K1 E1 N R) as (S1 & Ex1 & R1). rewrite Ex1. cbn [bind]. exists S1. split; [reflexivity|exact R1].
    + injection H as <- <-. destruct (IH _ _ _ _ _ K1 E1 N R) as (S1 & Ex1 & R1). rewrite Ex1. cbn [bind]. exists S1. split; [reflexivity|exact R1].
  - (* SDoWhile *)
    bo H as r1 E1. destruct r1 as [o1 s1]. destruct o1.
    + bo H as cv Ec. bo H as x Ex. destruct (x =? 0)%Z eqn:Ex0.
      * injection H as <- <-. destruct (IH _ _ _ _ _ K E1 N R) as (S1 & Ex1 & R1). rewrite Ex1. cbn [bind].
        rewrite (eval_more _ _ _ _ R1 Ec). cbn [bind]. rewrite Ex. cbn [bind]. rewrite Ex0. exists S1. split; [reflexivity|exact R1].
      * pose proof (NA_grow _ _ (exec_grow _ (SDoWhile st c) _ _ _ K H) N) as N1.
        destruct (IH _ _ _ _ _ K E1 N1 R) as (S1 & Ex1 & R1). rewrite Ex1. cbn [bind].
        rewrite (eval_more _ _ _ _ R1 Ec). cbn [bind]. rewrite Ex. cbn [bind]. rewrite Ex0.
        apply (IH (SDoWhile st c) _ _ _ _ K H N R1).
    + injection H as <- <-. destruct (IH _ _ _ _ _ K E1 N R) as (S1 & Ex1 & R1). rewrite Ex1. cbn [bind]. exists S1. split; [reflexivity|exact R1].
    + injection H as <- <-. destruct (IH _ _ _ _ _ K E1 N R) as (S1 & Ex1 & R1). rewrite Ex1. cbn [bind]. exists S1. split; [reflexivity|exact R1].
  - (* SBreak *) injection H as <- <-. exists S. split; [reflexivity|exact R].
  - (* SReturn *)
    destruct e as [e|].
    + bo H as v Ev. injection H as <- <-. rewrite (eval_more _ _ _ _ R Ev). cbn [bind]. exists S. split; [reflexivity|exact R].
    + injection H as <- <-. exists S. split; [reflexivity|exact R].
  - (* SCall *)
    bo H as vs Evs. bo H as pfx Epf. rewrite (eval_list_more _ _ _ _ R Evs). cbn [bind]. rewrite (this_prefix_more _ _ _ _ R Epf). cbn [bind].
    apply (CALL ret f pfx vs o s' (proj1 (inb_In _ _) K) N H).
  - (* SCallVirt *)
    bo H as vs Evs. bo H as pfx Epf. rewrite (eval_list_more _ _ _ _ R Evs). cbn [bind]. rewrite (this_prefix_more _ _ _ _ R Epf). cbn [bind].
    destruct (lget vt pfx) as [cls|].
    + destruct (lget prog (cls ++ "::" ++ m)) as [fn|] eqn:L; [|discriminate H].
      pose proof (CALL ret (cls ++ "::" ++ m) pfx vs o s' (fvirt_in _ _ _ K L) N) as C. rewrite L in C. apply C, H.
    + destruct (lget (ptrs s) (class_key pfx)) as [[z|cls off|]|] eqn:Ep; try discriminate H.
      rewrite (mrp_some _ _ _ _ (mr_p _ _ R) Ep).
      destruct (lget prog (cls ++ "::" ++ m)) as [fn|] eqn:L; [|discriminate H].
      pose proof (CALL ret (cls ++ "::" ++ m) pfx vs o s' (fvirt_in _ _ _ K L) N) as C. rewrite L in C. apply C, H.
  - (* SMemcpy *)
    bo H as dv Ed. bo H as sv Es. bo H as nv En. bo H as k Ek. bo H as s1 Em. injection H as <- <-.
    rewrite (eval_more _ _ _ _ R Ed). cbn [bind]. rewrite (eval_more _ _ _ _ R Es). cbn [bind]. rewrite (eval_more _ _ _ _ R En). cbn [bind]. rewrite Ek. cbn [bind].
    destruct (memcpy_more _ _ _ _ _ _ R Em) as (S1 & Em' & R1). rewrite Em'. cbn [bind]. exists S1. split; [reflexivity|exact R1].
  - (* SMemset *)
    bo H as dv Ed. bo H as vv Ev. bo H as x Ex. bo H as nv En. bo H as k Ek. bo H as s1 Em. injection H as <- <-.
    rewrite (eval_more _ _ _ _ R Ed). cbn [bind]. rewrite (eval_more _ _ _ _ R Ev). cbn [bind]. rewrite Ex. cbn [bind].
    rewrite (eval_more _ _ _ _ R En). cbn [bind]. rewrite Ek. cbn [bind].
    destruct (memset_more _ _ _ _ _ _ R Em) as (S1 & Em' & R1). rewrite Em'. cbn [bind]. exists S1. split; [reflexivity|exact R1].
  - (* SLocalArr *)
    injection H as <- <-. eexists. split; [reflexivity|]. destruct R. constructor; cbn [with_mem mem loc pre files ptrs fresh]; auto. apply mrm_mset; assumption.
  - (* SNew *)
    bo H as nv En. bo H as k Ek. rewrite (eval_more _ _ _ _ R En). cbn [bind]. rewrite Ek. cbn [bind].
    destruct (k <? 0)%Z; [discriminate H|]. injection H as <- <-. eexists. split; [reflexivity|].
    destruct R. rewrite mr_fresh0, mr_loc0, mr_pre0, mr_files0. constructor; cbn [mem loc pre files ptrs fresh]; auto. apply mrm_mset; assumption.
  - (* SDelete *)
    bo H as pv Ep. injection H as <- <-. rewrite (eval_more _ _ _ _ R Ep). cbn [bind]. exists S. split; [reflexivity|exact R].
  - (* SPrim *)
    bo H as vs Evs. bo H as r Er. destruct r as [v s1]. bo H as s2 E2. injection H as <- <-.
    rewrite (eval_list_more _ _ _ _ R Evs). cbn [bind].
    destruct (prim_more _ _ _ _ _ _ K R Er) as (S1 & Er' & R1). rewrite Er'. cbn [bind].
    destruct (set_ret_more _ _ _ _ _ R1 E2) as (S2 & E2' & R2). rewrite E2'. cbn [bind]. exists S2. split; [reflexivity|exact R2].
  - (* SSetPtr *)
    bo H as pv Ep. bo H as ev Ee. rewrite (eval_more _ _ _ _ R Ep). cbn [bind]. rewrite (eval_more _ _ _ _ R Ee). cbn [bind].
    destruct pv as [|ob off|]; try discriminate H. injection H as <- <-. eexists. split; [reflexivity|].
    destruct R. constructor; cbn [with_ptrs mem loc pre files ptrs fresh]; auto. apply mrp_lset; assumption.
  - (* SNewObj *)
    apply andb_prop in K. destruct K as [K Kz].
    bo H as vs Evs. rewrite (eval_list_more _ _ _ _ R Evs). cbn [bind].
    rewrite (N0 cls) in H.
    assert (Ea : lget (ptrs S) ("alloc:" ++ cls) = None).
    { rewrite (mrp_none _ _ _ (mr_p _ _ R) (N0 cls)). apply HYa. }
    rewrite Ea. rewrite (mr_fresh _ _ R).
    set (name := ("#" ++ nat_string (fresh s) ++ ".")%string) in *.
    match type of H with context [forallb ?f objs] => destruct (forallb f objs) eqn:Hfree end; [|discriminate H]. cbn [negb] in H.
    assert (HfreeS : forallb (fun x : string * ity * Z => match mget (mem S) (name ++ fst (fst x)) with None => true | Some _ => false end) objs = true).
    { rewrite forallb_forall in *. intros x0 Hx. specialize (Hfree x0 Hx). cbv beta in Hfree.
      destruct (mget (mem s) (name ++ fst (fst x0))) as [?|] eqn:E1; [discriminate Hfree|].
      rewrite (mrm_none _ _ _ (mr_m _ _ R) E1). change name with (hobj (fresh s)). rewrite (HXf (fresh s) (fst (fst x0)) (mr_f0 _ _ R)). reflexivity. }
    rewrite HfreeS. cbn [negb].
    assert (R0 : MR {| mem := alloc_objs cls name objs (mem s); loc := lset (loc s) x (VPtr name 0); pre := pre s; files := files s;
                       ptrs := lset (ptrs s) (class_key name) (VPtr cls 0); fresh := Datatypes.S (fresh s) |}
                    {| mem := alloc_objs cls name objs (mem S); loc := lset (loc S) x (VPtr name 0); pre := pre S; files := files S;
                       ptrs := lset (ptrs S) (class_key name) (VPtr cls 0); fresh := Datatypes.S (fresh s) |}).
    { rewrite (mr_loc _ _ R), (mr_pre _ _ R), (mr_files _ _ R).
      apply (mr_mk s S); [exact R|apply mrm_alloc; [exact Kz|apply (mr_m _ _ R)]|apply mrp_lset, (mr_p _ _ R)|pose proof (mr_f0 _ _ R); lia]. }
    destruct ctor as [g|].
    + destruct (lget prog g) as [fn|] eqn:L; [|discriminate H]. bo H as l El. rewrite El. cbn [bind].
      bo H as r1 E1. destruct r1 as [o1 s1]. injection H as <- <-. cbn [mem loc pre files ptrs fresh] in E1 |- *.
      assert (N1 : NA s1) by (intro c0; apply (N c0)).
      assert (Rc : MR {| mem := alloc_objs cls name objs (mem s); loc := l; pre := name; files := files s;
                         ptrs := lset (ptrs s) (class_key name) (VPtr cls 0); fresh := Datatypes.S (fresh s) |}
                      {| mem := alloc_objs cls name objs (mem S); loc := l; pre := name; files := files S;
                         ptrs := lset (ptrs S) (class_key name) (VPtr cls 0); fresh := Datatypes.S (fresh s) |}).
      { rewrite (mr_files _ _ R). apply (mr_mk s S); [exact R|apply (mr_m _ _ R0)|apply (mr_p _ _ R0)|apply (mr_f0 _ _ R0)]. }
      destruct (IH _ _ _ _ _ (HFL g fn (proj1 (inb_In _ _) K) L) E1 N1 Rc) as (S1 & Ex1 & R1). rewrite Ex1. cbn [bind].
      eexists. split; [reflexivity|].
      rewrite (mr_loc _ _ R), (mr_pre _ _ R), (mr_files _ _ R1), (mr_fresh _ _ R1).
      apply (mr_mk s1 S1); [exact R1|apply (mr_m _ _ R1)|apply (mr_p _ _ R1)|apply (mr_f0 _ _ R1)].
    + injection H as <- <-. eexists. split; [reflexivity|exact R0].
  - (* SSetPtrCell *)
    bo H as pv Ep. bo H as ev Ee. rewrite (eval_more _ _ _ _ R Ep). cbn [bind]. rewrite (eval_more _ _ _ _ R Ee). cbn [bind].
    destruct pv as [|ob off|]; try discriminate H. injection H as <- <-. eexists. split; [reflexivity|].
    destruct R. constructor; cbn [with_ptrs mem loc pre files ptrs fresh]; auto. apply mrp_lset; assumption.
Qed.

Lemma call_more : forall fuel g pfx vs s S v s', In g FL -> call prog vt fuel g pfx vs s = Ok (v, s') -> NA s' -> MR s S ->
  exists S', call prog vt fuel g pfx vs S = Ok (v, S') /\ MR s' S'.
Proof.
  intros fuel g pfx vs s S v s' Hg H N R. unfold call in *. destruct (lget prog g) as [fn|] eqn:L; [|discriminate H].
  bo H as l El. rewrite El. cbn [bind]. bo H as r1 E1. destruct r1 as [o1 s1]. injection H as <- <-.
  assert (N1 : NA s1) by (intro c0; apply (N c0)).
  assert (Rc : MR {| mem := mem s; loc := l; pre := pfx; files := files s; ptrs := ptrs s; fresh := fresh s |}
                  {| mem := mem S; loc := l; pre := pfx; files := files S; ptrs := ptrs S; fresh := fresh S |}).
  { rewrite (mr_files _ _ R), (mr_fresh _ _ R). apply (mr_mk s S); [exact R|apply (mr_m _ _ R)|apply (mr_p _ _ R)|apply (mr_f0 _ _ R)]. }
  destruct (exec_more _ _ _ _ _ _ (HFL g fn Hg L) E1 N1 Rc) as (S1 & Ex1 & R1). rewrite Ex1. cbn [bind].
  eexists. split; [reflexivity|].
  rewrite (mr_loc _ _ R), (mr_pre _ _ R), (mr_files _ _ R1), (mr_fresh _ _ R1).
  apply (mr_mk s1 S1); [exact R1|apply (mr_m _ _ R1)|apply (mr_p _ _ R1)|apply (mr_f0 _ _ R1)].
Qed.
End Mono.
