(* MiniC with threads: an interleaving semantics for the translated buffer hand-over protocol
   (kernel/multi_aes/multi_buffergroup.cpp, multicry.cpp as translated by tools/cgen.py into Gen/Src_conc.v, with the
   verification hooks ON so that the guarded WENCRY_VERIF_YIELD / WENCRY_VERIF_EV macros appear as calls).

   A thread is a statement under a continuation (a small-step, CEK-style reading of the same statements [MiniC.exec]
   interprets in big steps; atomic statements are executed by [exec] itself with fuel 1, so the two semantics share the
   meaning of every expression, store, memcpy, primitive ...).  Threads share memory, files, ptrs and the heap counter;
   locals and the object prefix are per thread.

   Scheduling points are those of the scheduler shim the implementation runs under (harness/shim.h):
     - mutex lock (std::unique_lock constructor, std::lock_guard): the thread stops BEFORE acquiring; when scheduled next it
       acquires (blocks while the mutex is held);
     - condition_variable::wait: releases the mutex and sleeps (event 11); a notify_all makes it Awake; when scheduled it logs
       event 12, re-acquires the mutex and continues after the wait; a spurious wake-up does the same without a notify;
     - the guarded yield hook before every unsynchronised shared access: the thread stops before it;
     - thread exit (event 14) and join.
   One step of a thread = the code from where it stopped to the next scheduling point: the granularity of PipeConc.step. *)
From Coq Require Import ZArith NArith List String Bool.
From Wencry Require Import MiniC.
Import ListNotations.
Local Open Scope Z_scope.
Local Open Scope string_scope.

Inductive kont :=
| KStop
| KSeq (s : stmt) (k : kont)
| KLoopBody (c : expr) (body step : stmt) (k : kont)     (* the body of a loop is running *)
| KLoopStep (c : expr) (body step : stmt) (k : kont)     (* the step statement is running *)
| KDoBody (body : stmt) (c : expr) (k : kont)
| KCall (ret : option string) (saved_loc : list (string * value)) (saved_pre : string) (k : kont).

Inductive tstatus :=
| TRun                                  (* can run: at a scheduling point or freshly created *)
| TSleep (cv m : string)                (* in cv.wait *)
| TAwake (m : string)                   (* woken: has to log 12, re-acquire m, continue *)
| TJoin (target : nat)
| TDone.

Record cthread := { ct_cur : stmt; ct_k : kont; ct_loc : list (string * value); ct_pre : string; ct_st : tstatus }.

Definition event := (Z * Z * Z)%type.

Record cstate := {
  cs_sh : state;                        (* shared part: mem, files, ptrs, fresh (loc and pre unused) *)
  cs_thr : list cthread;
  cs_mx : list (string * nat) }.        (* held mutexes: name -> owner thread *)

Definition sync_name (v : value) : res string := match v with VPtr o _ => Ok o | _ => UB "synchronisation object expected" end.

(* statements that are scheduling points: a running thread stops in front of them *)
Definition is_sched_point (st : stmt) : bool :=
  match st with
  | SPrim _ name _ => String.eqb name "lock" || String.eqb name "wv_yield"
  | _ => false
  end.

Definition thread_state (sh : state) (t : cthread) : state :=
  {| mem := mem sh; loc := ct_loc t; pre := ct_pre t; files := files sh; ptrs := ptrs sh; fresh := fresh sh |}.
Definition shared_of (s : state) : state :=
  {| mem := mem s; loc := []; pre := ""; files := files s; ptrs := ptrs s; fresh := fresh s |}.

Fixpoint set_nth_t (n : nat) (x : cthread) (l : list cthread) : list cthread :=
  match n, l with
  | O, _ :: r => x :: r
  | S n', h :: r => h :: set_nth_t n' x r
  | _, [] => []
  end.

Definition mx_free (mx : list (string * nat)) (m : string) : bool := match lget mx m with Some _ => false | None => true end.
Fixpoint mx_release (mx : list (string * nat)) (m : string) : list (string * nat) :=
  match mx with
  | [] => []
  | (k, o) :: r => if String.eqb k m then r else (k, o) :: mx_release r m
  end.

(* what a statement executed by a thread asks the scheduler to do *)
Inductive request :=
| RNone                                   (* continue *)
| RStop                                   (* the thread reached a scheduling point *)
| RLock (m : string) | RUnlock (m : string)
| RWait (cv m : string) | RNotify (cv : string)
| RSpawn (f : string) (args : list value) (cell : string)
| RJoin (target : nat)
| REvent (e : event).

Section Machine.
Variable prog : program.
Variable vtab : list (string * string).

(* continue with the continuation after the current statement finished normally *)
Definition next_of (k : kont) (loc0 : list (string * value)) (pre0 : string) : option (stmt * kont * list (string * value) * string) :=
  match k with
  | KStop => None
  | KSeq s k' => Some (s, k', loc0, pre0)
  | KLoopBody c body step k' => Some (step, KLoopStep c body step k', loc0, pre0)
  | KLoopStep c body step k' => Some (SLoop c body step, k', loc0, pre0)
  | KDoBody body c k' => Some (SIf c (SDoWhile body c) SSkip, k', loc0, pre0)
  | KCall ret sl sp k' => Some (SSkip, k', sl, sp)                      (* a function body ran off its end: void return *)
  end.

(* break: drop continuations up to and including the innermost loop *)
Fixpoint unwind_break (k : kont) : option kont :=
  match k with
  | KStop => None
  | KSeq _ k' => unwind_break k'
  | KLoopBody _ _ _ k' => Some k'
  | KLoopStep _ _ _ k' => None
  | KDoBody _ _ k' => Some k'
  | KCall _ _ _ _ => None
  end.
(* return: drop continuations up to the innermost call frame *)
Fixpoint unwind_return (k : kont) : option (option string * list (string * value) * string * kont) :=
  match k with
  | KStop => None
  | KSeq _ k' | KLoopBody _ _ _ k' | KLoopStep _ _ _ k' | KDoBody _ _ k' => unwind_return k'
  | KCall ret sl sp k' => Some (ret, sl, sp, k')
  end.

Definition is_atomic (st : stmt) : bool :=
  match st with
  | SSet _ _ | SStore _ _ _ | SMemcpy _ _ _ | SMemset _ _ _ | SLocalArr _ _ _ | SNew _ _ _ | SDelete _ | SSetPtr _ _ | SSetPtrCell _ _
  | SNewObjArr _ _ _ _ => true
  | _ => false
  end.

Definition is_sync_prim (name : string) : bool :=
  existsb (String.eqb name) ["lock"; "unlock"; "cv_wait"; "notify_all"; "join"; "wv_yield"; "wv_ev"]%list
  || String.prefix "spawn:" name.

(* one statement of thread t: the new thread record, the new shared state and a request for the scheduler *)
Definition micro (t : cthread) (sh : state) : res (cthread * state * request) :=
  let s := thread_state sh t in
  let st := ct_cur t in
  let k := ct_k t in
  let continue_with (sh' : state) (loc' : list (string * value)) (req : request) : res (cthread * state * request) :=
    match next_of k loc' (ct_pre t) with
    | Some (st', k', l', p') => Ok ({| ct_cur := st'; ct_k := k'; ct_loc := l'; ct_pre := p'; ct_st := ct_st t |}, sh', req)
    | None => Ok ({| ct_cur := SSkip; ct_k := KStop; ct_loc := loc'; ct_pre := ct_pre t; ct_st := TDone |}, sh', req)
    end in
  let enter (f : func) (ret : option string) (pfx : string) (vs : list value) (sh' : state) (loc_caller : list (string * value)) :=
    do l <- bind_params (f_params f) vs;
    Ok ({| ct_cur := f_body f; ct_k := KCall ret loc_caller (ct_pre t) k; ct_loc := l; ct_pre := pfx; ct_st := ct_st t |}, sh', RNone) in
  match st with
  | SSkip => continue_with sh (ct_loc t) RNone
  | SSeq a b => Ok ({| ct_cur := a; ct_k := KSeq b k; ct_loc := ct_loc t; ct_pre := ct_pre t; ct_st := ct_st t |}, sh, RNone)
  | SIf c a b =>
      do cv <- eval s c; do x <- as_int cv;
      Ok ({| ct_cur := if Z.eqb x 0 then b else a; ct_k := k; ct_loc := ct_loc t; ct_pre := ct_pre t; ct_st := ct_st t |}, sh, RNone)
  | SLoop c body step =>
      do cv <- eval s c; do x <- as_int cv;
      if Z.eqb x 0 then continue_with sh (ct_loc t) RNone
      else Ok ({| ct_cur := body; ct_k := KLoopBody c body step k; ct_loc := ct_loc t; ct_pre := ct_pre t; ct_st := ct_st t |}, sh, RNone)
  | SDoWhile body c =>
      Ok ({| ct_cur := body; ct_k := KDoBody body c k; ct_loc := ct_loc t; ct_pre := ct_pre t; ct_st := ct_st t |}, sh, RNone)
  | SBreak =>
      match unwind_break k with
      | Some k' => Ok ({| ct_cur := SSkip; ct_k := k'; ct_loc := ct_loc t; ct_pre := ct_pre t; ct_st := ct_st t |}, sh, RNone)
      | None => UB "break outside a loop"
      end
  | SReturn e =>
      do v <- match e with None => Ok None | Some e' => do v' <- eval s e'; Ok (Some v') end;
      match unwind_return k with
      | Some (ret, sl, sp, k') =>
          do back <- set_ret {| mem := mem sh; loc := sl; pre := sp; files := files sh; ptrs := ptrs sh; fresh := fresh sh |} ret v;
          Ok ({| ct_cur := SSkip; ct_k := k'; ct_loc := loc back; ct_pre := sp; ct_st := ct_st t |}, sh, RNone)
      | None =>   (* return from the thread function *)
          Ok ({| ct_cur := SSkip; ct_k := KStop; ct_loc := ct_loc t; ct_pre := ct_pre t; ct_st := TDone |}, sh, RNone)
      end
  | SCall ret fname this args =>
      do vs <- eval_list s args; do pfx <- this_prefix s this;
      match lget prog fname with
      | Some f => enter f ret pfx vs sh (ct_loc t)
      | None => UB ("no function " ++ fname)
      end
  | SCallVirt ret m this args =>
      do vs <- eval_list s args; do pfx <- this_prefix s this;
      let cls := match lget vtab pfx with
                 | Some c => Some c
                 | None => match lget (ptrs s) (class_key pfx) with Some (VPtr c _) => Some c | _ => None end
                 end in
      match cls with
      | Some c => match lget prog (c ++ "::" ++ m) with
                  | Some f => enter f ret pfx vs sh (ct_loc t)
                  | None => UB ("no function " ++ c ++ "::" ++ m)
                  end
      | None => UB ("no dynamic class for " ++ pfx)
      end
  | SNewObj x cls objs ctor args =>
      (* allocation by the sequential semantics without the constructor, then the constructor as a call *)
      do r <- exec prog vtab 1 (SNewObj x cls objs None args) s;
      let '(_, s1) := r in
      match ctor with
      | None => continue_with (shared_of s1) (loc s1) RNone
      | Some fname =>
          do vs <- eval_list s args;
          match lget prog fname, lget (loc s1) x with
          | Some f, Some (VPtr name _) => enter f None name vs (shared_of s1) (loc s1)
          | _, _ => UB ("no constructor " ++ fname)
          end
      end
  | SPrim ret name args =>
      if is_sync_prim name then
        do vs <- eval_list s args;
        if String.eqb name "lock" then
          match vs with [v] => do m <- sync_name v; continue_with sh (ct_loc t) (RLock m) | _ => UB "lock: arguments" end
        else if String.eqb name "unlock" then
          match vs with [v] => do m <- sync_name v; continue_with sh (ct_loc t) (RUnlock m) | _ => UB "unlock: arguments" end
        else if String.eqb name "cv_wait" then
          match vs with [c; v] => do cvn <- sync_name c; do m <- sync_name v; continue_with sh (ct_loc t) (RWait cvn m) | _ => UB "cv_wait: arguments" end
        else if String.eqb name "notify_all" then
          match vs with [c] => do cvn <- sync_name c; continue_with sh (ct_loc t) (RNotify cvn) | _ => UB "notify_all: arguments" end
        else if String.eqb name "join" then
          match vs with [VInt tid] => continue_with sh (ct_loc t) (RJoin (Z.to_nat tid)) | _ => UB "join: arguments" end
        else if String.eqb name "wv_yield" then continue_with sh (ct_loc t) RNone
        else if String.eqb name "wv_ev" then
          match vs with [VInt a; VInt b; VInt c] => continue_with sh (ct_loc t) (REvent (a, b, c)) | _ => UB "wv_ev: arguments" end
        else (* spawn:<function>: arguments = the cell that receives the thread handle, then the function's arguments *)
          match vs with
          | VPtr cell off :: fargs => continue_with sh (ct_loc t) (RSpawn (substring 6 (String.length name) name) fargs (ptr_key cell off))
          | _ => UB "spawn: arguments"
          end
      else
        do r <- exec prog vtab 1 st s;
        let '(_, s1) := r in continue_with (shared_of s1) (loc s1) RNone
  | _ =>
      if is_atomic st then
        do r <- exec prog vtab 1 st s;
        let '(_, s1) := r in continue_with (shared_of s1) (loc s1) RNone
      else UB "statement not supported by the thread semantics"
  end.
End Machine.

(* ---------------- the scheduler ---------------- *)
Local Open Scope list_scope.
Section Sched.
Variable prog : program.
Variable vtab : list (string * string).

Definition nth_thread (cs : cstate) (tid : nat) : option cthread := nth_error (cs_thr cs) tid.
Definition thread_done (cs : cstate) (tid : nat) : bool :=
  match nth_thread cs tid with Some t => match ct_st t with TDone => true | _ => false end | None => false end.

Definition first_is_lock (t : cthread) (sh : state) : option string :=
  match ct_cur t with
  | SPrim _ name [a] =>
      if String.eqb name "lock" then
        match eval (thread_state sh t) a with Ok (VPtr o _) => Some o | _ => None end
      else None
  | _ => None
  end.

Definition enabled (cs : cstate) (tid : nat) : bool :=
  match nth_thread cs tid with
  | None => false
  | Some t =>
      match ct_st t with
      | TDone | TSleep _ _ => false
      | TJoin target => thread_done cs target
      | TAwake m => mx_free (cs_mx cs) m
      | TRun => match first_is_lock t (cs_sh cs) with Some m => mx_free (cs_mx cs) m | None => true end
      end
  end.
Definition enabled_count (cs : cstate) : nat := List.length (filter (enabled cs) (seq 0 (List.length (cs_thr cs)))).

Definition wake_all (cv : string) (l : list cthread) : list cthread :=
  map (fun t => match ct_st t with
                | TSleep c m => if String.eqb c cv then {| ct_cur := ct_cur t; ct_k := ct_k t; ct_loc := ct_loc t; ct_pre := ct_pre t; ct_st := TAwake m |} else t
                | _ => t
                end) l.
Definition with_status (t : cthread) (st : tstatus) : cthread :=
  {| ct_cur := ct_cur t; ct_k := ct_k t; ct_loc := ct_loc t; ct_pre := ct_pre t; ct_st := st |}.

(* run thread tid from its current statement until the next scheduling point; `first` = no statement executed yet in this step *)
Fixpoint run_thread (fuel : nat) (tid : nat) (first : bool) (t : cthread) (cs : cstate) (evs : list event) : res (cstate * list event) :=
  match fuel with
  | O => NoFuel
  | S fuel' =>
      let put (t' : cthread) (cs' : cstate) : cstate :=
        {| cs_sh := cs_sh cs'; cs_thr := set_nth_t tid t' (cs_thr cs'); cs_mx := cs_mx cs' |} in
      match ct_st t with
      | TDone => Ok (put t cs, evs ++ [(14, 0, 0)])
      | _ =>
      if negb first && is_sched_point (ct_cur t) then Ok (put t cs, evs)
      else
        do r <- micro prog vtab t (cs_sh cs);
        let '(t1, sh1, req) := r in
        let cs1 := {| cs_sh := sh1; cs_thr := cs_thr cs; cs_mx := cs_mx cs |} in
        match req with
        | RNone => run_thread fuel' tid false t1 cs1 evs
        | RStop => Ok (put t1 cs1, evs)
        | REvent e => run_thread fuel' tid false t1 cs1 (evs ++ [e])
        | RLock m =>
            if mx_free (cs_mx cs1) m
            then run_thread fuel' tid false t1 {| cs_sh := sh1; cs_thr := cs_thr cs; cs_mx := (m, tid) :: cs_mx cs |} evs
            else UB "lock of a held mutex at a scheduling point"
        | RUnlock m => run_thread fuel' tid false t1 {| cs_sh := sh1; cs_thr := cs_thr cs; cs_mx := mx_release (cs_mx cs) m |} evs
        | RWait cv m =>
            Ok (put (with_status t1 (TSleep cv m)) {| cs_sh := sh1; cs_thr := cs_thr cs; cs_mx := mx_release (cs_mx cs) m |}, evs ++ [(11, 0, 0)])
        | RNotify cv => run_thread fuel' tid false t1 {| cs_sh := sh1; cs_thr := wake_all cv (cs_thr cs); cs_mx := cs_mx cs |} evs
        | RSpawn f args cell =>
            match lget prog f with
            | Some fn =>
                do l <- bind_params (f_params fn) args;
                let newt := {| ct_cur := f_body fn; ct_k := KStop; ct_loc := l; ct_pre := ""; ct_st := TRun |} in
                let tid' := List.length (cs_thr cs) in
                let sh2 := with_ptrs sh1 (lset (ptrs sh1) cell (VInt (Z.of_nat tid'))) in
                run_thread fuel' tid false t1 {| cs_sh := sh2; cs_thr := cs_thr cs ++ [newt]; cs_mx := cs_mx cs |} evs
            | None => UB ("spawn: no function " ++ f)%string
            end
        | RJoin target =>
            if thread_done cs1 target then run_thread fuel' tid false t1 cs1 evs
            else Ok (put (with_status t1 (TJoin target)) cs1, evs)
        end
      end
  end.

(* one scheduling decision: thread tid (real threads 0..n-1; n + j = spurious wake-up of thread j) *)
Definition cstep (fuel : nat) (cs : cstate) (tid : nat) : res (cstate * list event) :=
  let n := List.length (cs_thr cs) in
  if Nat.ltb tid n then
    if negb (enabled cs tid) then UB "thread not enabled" else
    match nth_thread cs tid with
    | None => UB "no such thread"
    | Some t =>
        match ct_st t with
        | TAwake m =>
            run_thread fuel tid false (with_status t TRun)
                       {| cs_sh := cs_sh cs; cs_thr := cs_thr cs; cs_mx := (m, tid) :: cs_mx cs |} [(12, 0, 0)]
        | TJoin _ => run_thread fuel tid false (with_status t TRun) cs []
        | _ => run_thread fuel tid true t cs []
        end
    end
  else
    let j := (tid - n)%nat in
    match nth_thread cs j with
    | Some t => match ct_st t with
                | TSleep cv m => Ok ({| cs_sh := cs_sh cs; cs_thr := set_nth_t j (with_status t (TAwake m)) (cs_thr cs); cs_mx := cs_mx cs |}, [])
                | _ => UB "spurious wake-up of a thread that is not asleep"
                end
    | None => UB "no such thread"
    end.

Fixpoint crun (fuel : nat) (cs : cstate) (sched : list nat) : res (cstate * list (nat * nat * list event)) :=
  match sched with
  | [] => Ok (cs, [])
  | tid :: r =>
      let ne := enabled_count cs in
      do x <- cstep fuel cs tid;
      let '(cs1, evs) := x in
      do y <- crun fuel cs1 r;
      let '(cs2, l) := y in Ok (cs2, (tid, ne, evs) :: l)
  end.
End Sched.
