(* The second-tier refinement theorems composed with the model = standard theorems: statements about the TRANSLATED source and the
   standards / the documented format only (the hand models disappear from the statement). *)
From Coq Require Import ZArith NArith List String Bool Lia.
From Wencry Require Import Bytes HashSpec HashModel FileModel MiniC MiniCRun SrcRun SrcRun2 Properties_Src2 Properties_C08.
Import ListNotations.
Local Open Scope N_scope.

(* what clang reads in hmac::gethmac (and everything it calls: getres, the hash factory, the file buffer, the hash classes) computes
   RFC 2104 HMAC over the bytes from the current position to the end of the stream *)
Theorem SRC_hmac_is_rfc2104 : forall hbuf hm key data pos,
  hm <= 2 -> (1 <= hbuf)%nat -> N.of_nat (64 * hbuf) < 2 ^ 32 ->
  block16 key -> bytesb data = true -> (pos <= length data)%nat -> N.of_nat (length data) < 2 ^ 56 ->
  src_hmac hbuf hm key data pos = SOk (hmac_spec (hash_spec hm) key (skipn pos data)).
Proof.
  intros hbuf hm key data pos Hhm Hb Hb32 Hk Hd Hpos Hlen.
  assert (Ha : exists a, get_hasher hm = Some a).
  { destruct hm as [|p]; [eexists; reflexivity|].
    destruct p as [p|p|]; try (destruct p; try lia; eexists; reflexivity); eexists; reflexivity. }
  destruct Ha as [a Ha].
  destruct (SRC_hmac hbuf hm a key data pos Ha Hb Hb32 Hk Hd Hpos Hlen) as [tag [Hm Hs]].
  rewrite Hs. f_equal.
  assert (Hsk : bytesb (skipn pos data) = true).
  { unfold bytesb in *. rewrite forallb_forall in *. intros x Hx. apply Hd.
    rewrite <- (firstn_skipn pos data). apply in_or_app. right. exact Hx. }
  assert (Hl : 8 * N.of_nat (128 + length (skipn pos data)) < 2 ^ 64).
  { rewrite skipn_length. assert (N.of_nat (length data) < 72057594037927936) by (exact Hlen). 
    assert (N.of_nat (128 + (length data - pos)) <= 128 + N.of_nat (length data)) by lia.
    change (2 ^ 64) with 18446744073709551616. lia. }
  pose proof (C08_tag_is_rfc2104_hmac hbuf hm key (skipn pos data) Hb Hhm Hk Hsk Hl) as Hspec.
  rewrite Hspec in Hm. injection Hm as Hm. symmetry. exact Hm.
Qed.
Print Assumptions SRC_hmac_is_rfc2104.

(* ... and hmac::cmphmac accepts exactly when every byte of that HMAC equals the stored field's prefix *)
Theorem SRC_cmphmac_accepts_iff_tag_matches : forall hbuf hm key data pos stored,
  hm <= 2 -> (1 <= hbuf)%nat -> N.of_nat (64 * hbuf) < 2 ^ 32 ->
  block16 key -> bytesb data = true -> (pos <= length data)%nat -> N.of_nat (length data) < 2 ^ 56 ->
  length stored = 64%nat -> bytesb stored = true ->
  exists b, src_cmphmac hbuf hm key data pos stored = SOk b /\
            (b = true <-> firstn (length (hmac_spec (hash_spec hm) key (skipn pos data))) stored = hmac_spec (hash_spec hm) key (skipn pos data)).
Proof.
  intros hbuf hm key data pos stored Hhm Hb Hb32 Hk Hd Hpos Hlen Hsl Hsb.
  assert (Ha : exists a, get_hasher hm = Some a).
  { destruct hm as [|p]; [eexists; reflexivity|].
    destruct p as [p|p|]; try (destruct p; try lia; eexists; reflexivity); eexists; reflexivity. }
  destruct Ha as [a Ha].
  destruct (SRC_cmphmac hbuf hm a key data pos stored Ha Hb Hb32 Hk Hd Hpos Hlen Hsl Hsb) as [tag [Hm Hs]].
  exists (cmphmac tag stored). split; [exact Hs|].
  assert (Hsk : bytesb (skipn pos data) = true).
  { unfold bytesb in *. rewrite forallb_forall in *. intros x Hx. apply Hd.
    rewrite <- (firstn_skipn pos data). apply in_or_app. right. exact Hx. }
  assert (Hl : 8 * N.of_nat (128 + length (skipn pos data)) < 2 ^ 64).
  { rewrite skipn_length. assert (N.of_nat (length data) < 72057594037927936) by (exact Hlen).
    assert (N.of_nat (128 + (length data - pos)) <= 128 + N.of_nat (length data)) by lia.
    change (2 ^ 64) with 18446744073709551616. lia. }
  pose proof (C08_tag_is_rfc2104_hmac hbuf hm key (skipn pos data) Hb Hhm Hk Hsk Hl) as Hspec.
  rewrite Hspec in Hm. injection Hm as Hm. subst tag.
  apply C08_compare_all_bytes.
Qed.
Print Assumptions SRC_cmphmac_accepts_iff_tag_matches.
