(* C11 -- any byte string as input file is handled cleanly: failure, no crash, no output.
   The model's Crash / Hang results stand for the undefined behaviours of the C++ (NULL mode or
   hash object, out-of-bounds pad read, size underflow, zero-block READY buffer); the theorems
   say they do not occur on the property's domain.  Memory safety of the C++ itself is not a
   Coq statement: the correspondence run executes the malformed stream under ASan/UBSan. *)
From Wencry Require Import Bytes FileModel FileSpec FileProps FileProofsSec.
Local Open Scope N_scope.

(* verification of ANY byte string under any key terminates with a result code 0..4 *)
Theorem C11_verify_total : forall hbuf F key,
  (1 <= hbuf)%nat -> N.of_nat (length F) < 2 ^ 56 ->
  exists code, verify hbuf F key = Ok code /\ code <= 4.
Proof. exact C11_verify_total_proof. Qed.
Print Assumptions C11_verify_total.

(* any byte string without a valid tag: both operations fail cleanly, nothing is written *)
Theorem C11_unauthentic_input_fails_cleanly : forall c hbuf T F key,
  (1 <= hbuf)%nat -> N.of_nat (length F) < 2 ^ 56 ->
  verify hbuf F key <> Ok 0 ->
  exists code, 1 <= code <= 4 /\ dec c hbuf T F key = Fail code /\ ver hbuf F key = Ok false.
Proof. exact C11_unauthentic_input_fails_cleanly_proof. Qed.
Print Assumptions C11_unauthentic_input_fails_cleanly.

(* structural rejections, independent of the key: short files, wrong magic, out-of-range mode numbers *)
Theorem C11_structural_rejections : forall hbuf F key,
  ((length F < 8)%nat -> verify hbuf F key = Ok 4) /\
  ((8 <= length F < 74)%nat -> verify hbuf F key = Ok 4 \/ verify hbuf F key = Ok 1) /\
  ((74 <= length F)%nat -> firstn 8 F = magic_bytes -> (4 < nth 8 F 0 \/ 2 < nth 9 F 0) -> verify hbuf F key = Ok 3).
Proof. exact C11_structural_rejections_proof. Qed.
Print Assumptions C11_structural_rejections.

(* a successful decryption never writes more bytes than the ciphertext body holds *)
Theorem C11_output_bounded_by_body : forall c hbuf T F key out,
  (1 <= c)%nat -> (1 <= T)%nat ->
  dec c hbuf T F key = Ok out -> (length out <= length F - text_mark T)%nat.
Proof. exact C11_output_bounded_by_body_proof. Qed.
Print Assumptions C11_output_bounded_by_body.
