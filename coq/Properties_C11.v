(* C11 -- any byte string as input file is handled cleanly: failure, no crash, no output.
   The model's Crash / Hang results stand for the undefined behaviours of the C++ (NULL mode or
   hash object, a READY buffer without blocks; before the repair of iobuffer::export_buffer also
   the out-of-bounds pad read and the size underflow); the theorems say they do not occur -- since
   the repairs of export_buffer and load_buffer on EVERY byte string and key (C11_decrypt_total),
   not only on the property's domain.  Memory safety of the C++ itself is not a Coq statement: the correspondence run
   executes the malformed stream under ASan/UBSan. *)
From Wencry Require Import Bytes FileModel FileSpec FileProps FileProofsSec FileProofsTotal.
Local Open Scope N_scope.

(* verification of ANY byte string under any key terminates with a result code 0..4 *)
Theorem C11_verify_total : forall hbuf F key,
  (1 <= hbuf)%nat -> N.of_nat (length F) < 2 ^ 56 ->
  exists code, verify hbuf F key = Ok code /\ code <= 4.
Proof. exact C11_verify_total_proof. Qed.
Print Assumptions C11_verify_total.

(* any byte string without a valid tag: both operations fail cleanly, nothing is written *)
Theorem C11_unauthentic_input_fails_cleanly : forall c hbuf T F key,
  (1 <= hbuf)%nat -> N.of_nat (length F) < 2 ^ 56 ->
  verify hbuf F key <> Ok 0 ->
  exists code, 1 <= code <= 4 /\ dec c hbuf T F key = Fail code /\ ver hbuf F key = Ok false.
Proof. exact C11_unauthentic_input_fails_cleanly_proof. Qed.
Print Assumptions C11_unauthentic_input_fails_cleanly.

(* structural rejections, independent of the key: short files, wrong magic, out-of-range mode numbers *)
Theorem C11_structural_rejections : forall hbuf F key,
  ((length F < 8)%nat -> verify hbuf F key = Ok 4) /\
  ((8 <= length F < 74)%nat -> verify hbuf F key = Ok 4 \/ verify hbuf F key = Ok 1) /\
  ((74 <= length F)%nat -> firstn 8 F = magic_bytes -> (4 < nth 8 F 0 \/ 2 < nth 9 F 0) -> verify hbuf F key = Ok 3).
Proof. exact C11_structural_rejections_proof. Qed.
Print Assumptions C11_structural_rejections.

(* a successful decryption never writes more bytes than the ciphertext body holds *)
Theorem C11_output_bounded_by_body : forall c hbuf T F key out,
  (1 <= c)%nat -> (1 <= T)%nat ->
  dec c hbuf T F key = Ok out -> (length out <= length F - text_mark T)%nat.
Proof. exact C11_output_bounded_by_body_proof. Qed.
Print Assumptions C11_output_bounded_by_body.

(* decryption of ANY byte string under ANY key, chunk size and thread count ends in success (output
   bounded by the body) or in a clean failure with verify's code: never Crash, never Hang *)
Theorem C11_decrypt_total : forall c hbuf T F key,
  (1 <= c)%nat -> (1 <= hbuf)%nat -> (1 <= T)%nat -> N.of_nat (length F) < 2 ^ 56 ->
  (exists out, dec c hbuf T F key = Ok out /\ (length out <= length F - text_mark T)%nat) \/
  (exists code, 1 <= code <= 4 /\ dec c hbuf T F key = Fail code).
Proof. exact C11_decrypt_total_proof. Qed.
Print Assumptions C11_decrypt_total.

(* the new generality is inhabited: authentic files (tag computed by the model's own hmac_model) that no
   encryption produces -- 74 bytes, shorter than text_mark 2 = 88; a body of 6 bytes -- are accepted and
   decrypt to the empty output; a ragged body (one chunk of 4 blocks and 5 more bytes) decrypts to the chunk *)
Example C11_decrypt_total_beyond_enc :
  (length tot_F_short < text_mark 2)%nat /\
  ver 4 tot_F_short tot_key = Ok true /\ dec 4 4 2 tot_F_short tot_key = Ok nil /\
  (~ exists P seed cm hm, enc_params 4 4 2 P tot_key seed cm hm /\ enc 4 4 2 P tot_key cm hm seed = Ok tot_F_short) /\
  ver 4 tot_F_empty tot_key = Ok true /\ dec 4 4 1 tot_F_empty tot_key = Ok nil /\
  (~ exists P seed cm hm, enc_params 4 4 1 P tot_key seed cm hm /\ enc 4 4 1 P tot_key cm hm seed = Ok tot_F_empty) /\
  ver 4 tot_F_ragged tot_key = Ok true /\ dec 4 4 1 tot_F_ragged tot_key = Ok tot_chunk /\
  (~ exists P seed cm hm, enc_params 4 4 1 P tot_key seed cm hm /\ enc 4 4 1 P tot_key cm hm seed = Ok tot_F_ragged).
Proof. exact (proj2 (proj2 (proj2 (proj2 C11_decrypt_total_nonvacuous)))). Qed.
