(* COPY of RefineE2ESim.v over RefineE2EfXNames (finer ordinary names); the check [oks] also accepts the primitives strlen, fwrite and fseek.
   Simulation: a run of translated code under the allocation plan / virtual table of SrcRun2 (hasher at "", filebuffer64 at "buf.")
   is reproduced, statement by statement, by the run without plan and with an empty virtual table (objects at "#<n>.", classes
   recorded in the state), for code that passes the syntactic check [oks]. *)
From Coq Require Import ZArith NArith List String Bool Lia Ascii Arith.
From Wencry Require Import MiniC MiniCLemmas RefineE2EfXNames RefineE2EfXRel RefineE2EfXEval RefineE2EfXAlloc.
Import ListNotations.
Local Open Scope list_scope.
Local Open Scope string_scope.

Section Sim.
Variable prog prog' : program.
Variable cls0 : string.
Variable E : list string.
Variable OKL UL : list string.
Hypothesis HE : forall e, In e E -> exists r, e = "sizeof:" ++ r.
Hypothesis Hcls0 : In cls0 hashcls.
Notation Rel := (Rel cls0 E).
Notation vt0 := (vt0 cls0).

(* a virtual call of method m: every class that can be registered has its m among the checked functions *)
Definition vok (m : string) : bool :=
  forallb (fun c => match lget prog (c ++ "::" ++ m) with
                    | Some _ => inb (c ++ "::" ++ m) OKL && (if inb c hashcls then inb (c ++ "::" ++ m) UL else true)
                    | None => true end) regcls.
(* a function whose body starts with a virtual call on its own object *)
Definition virthead (g : string) : bool :=
  match lget prog g with
  | Some fn => match f_body fn with SSeq (SCallVirt _ _ None _) _ => true | _ => false end
  | None => false
  end.

Fixpoint oks (u : bool) (st : stmt) : bool :=
  match st with
  | SSkip | SBreak | SReturn None => true
  | SReturn (Some e) => oke u e
  | SSeq a b => oks u a && oks u b
  | SSet _ e => oke u e
  | SStore _ p e => oke u p && oke u e
  | SIf c a b => oke u c && oks u a && oks u b
  | SLoop c a b => oke u c && oks u a && oks u b
  | SCall _ g None args => inb g OKL && (if u then inb g UL else true) && forallb (oke u) args
  | SCall _ g (Some (EField h)) args => negb u && inb g OKL && forallb (oke u) args
  | SCall _ g (Some e) args => oke u e && inb g UL && inb g OKL && virthead g && forallb (oke u) args
  | SCallVirt _ m None args => vok m && forallb (oke u) args
  | SCallVirt _ m (Some e) args => oke u e && vok m && forallb (oke u) args
  | SMemcpy d s n => oke u d && oke u s && oke u n
  | SMemset d v n => oke u d && oke u v && oke u n
  | SLocalArr _ _ _ => true
  | SNew _ _ n => oke u n
  | SDelete p => oke u p
  | SPrim _ name args => inb name ["fread"; "strlen"; "fwrite"; "fseek"] && forallb (oke u) args
  | SSetPtr p e => oke u p && oke u e
  | SNewObj _ cls objs (Some ctor) args =>
      inb cls regcls && inb ctor OKL &&
      (if inb cls hashcls then inb ctor UL && forallb (fun x : string * ity * Z => inb (fst (fst x)) five) objs && inb "hashblock" (onames objs) else true) &&
      (if String.eqb cls "filebuffer64" then inb "b" (onames objs) else true) &&
      forallb (fun x : string * ity * Z => negb (inb ("sizeof:" ++ cls ++ "." ++ fst (fst x)) E)) objs && forallb (oke u) args
  | _ => false
  end.

Hypothesis HOK : forall g, In g OKL -> exists fn, lget prog g = Some fn /\ lget prog' g = Some fn /\ oks (inb g UL) (f_body fn) = true.

(* ---------------- prefixes ---------------- *)
Lemma nm_empty : forall W, nm W "" -> wa W <> None.
Proof.
  intros W [H|[[r Er]|[[n En]|[(n & x & En & _)|[[Ha _]|[_ [x Ex]]]]]]]; try discriminate; try exact Ha.
  all: try (rewrite hobj_app in En; discriminate En).
Qed.
Lemma nm_bufdot : forall W, nm W "buf." -> wb W <> None.
Proof.
  intros W [H|[[r Er]|[[n En]|[(n & x & En & _)|[[_ H]|[Hb _]]]]]]; try discriminate; try exact Hb.
  all: try (rewrite hobj_app in En; discriminate En).
  all: try (destruct H as [H|H]; [discriminate|]; cbn in H; intuition discriminate).
Qed.
Lemma clsp_preok : forall W r, clsp W r -> preok W r.
Proof.
  intros W r [[H ->]|[[H ->]|(n & -> & H)]].
  - right. right. left. auto.
  - right. right. right. split; [exact H|exists ""; reflexivity].
  - right. left. exists n, "". split; [now rewrite append_nil_r|exact H].
Qed.

(* the class the first run dispatches on, and what the second run finds *)
Lemma dispatch : forall W s S pfx c, Rel W s S -> nm W pfx ->
  (lget vt0 pfx = Some c \/ (lget vt0 pfx = None /\ exists off, lget (ptrs s) (class_key pfx) = Some (VPtr c off))) ->
  preok W pfx /\ (exists off, lget (ptrs S) (class_key (tau W pfx)) = Some (VPtr c off)) /\ In c regcls /\ (pfx = "" -> c = cls0).
Proof.
  intros W s S pfx c R Hn H. unfold RefineE2EfXRel.vt0 in H. cbn [lget] in H.
  destruct (String.eqb_spec pfx "") as [->|N1].
  - destruct H as [H|[H _]]; [|discriminate]. injection H as <-.
    pose proof (nm_empty W Hn) as Ha. destruct (r_regH _ _ _ _ _ R Ha) as [A _].
    assert (C : clsp W "") by (left; auto).
    split; [apply clsp_preok, C|]. split; [exists 0%Z; unfold class_key; rewrite (r_ptrsc _ _ _ _ _ R "" C); exact A|].
    split; [|reflexivity]. unfold regcls. apply in_or_app. left. exact Hcls0.
  - destruct (String.eqb_spec pfx "buf.") as [->|N2].
    + destruct H as [H|[H _]]; [|discriminate]. injection H as <-.
      pose proof (nm_bufdot W Hn) as Hb. destruct (r_regB _ _ _ _ _ R Hb) as [A _].
      assert (C : clsp W "buf.") by (right; left; auto).
      split; [apply clsp_preok, C|]. split; [exists 0%Z; unfold class_key; rewrite (r_ptrsc _ _ _ _ _ R "buf." C); exact A|].
      split; [|discriminate]. unfold regcls. apply in_or_app. right. left. reflexivity.
    + destruct H as [H|[_ [off H]]]; [discriminate|]. unfold class_key in H.
      destruct (r_ptrsnm _ _ _ _ _ R _ _ H) as [[G _]|[(r & c' & Ek & C & Ev & Hc)|[[Ek _]|[Ek _]]]]; try discriminate Ek.
      * exfalso. eapply nm_not_class; [exact G|reflexivity].
      * apply append_inj_l in Ek. subst r. injection Ev as -> ->.
        split; [apply clsp_preok, C|]. split; [exists 0%Z; unfold class_key; rewrite (r_ptrsc _ _ _ _ _ R pfx C); exact H|].
        split; [exact Hc|]. intro E0. congruence.
Qed.

Lemma this_prefix_sim : forall W s S u this pfx, Rel W s S -> (pre s = "" -> u = true) ->
  match this with Some e => oke u e | None => true end = true ->
  this_prefix s this = Ok pfx -> this_prefix S this = Ok (tau W pfx) /\ nm W pfx.
Proof.
  intros W s S u this pfx R Hu K H. unfold this_prefix in *. destruct this as [e|].
  - bo H as v Ev. destruct (eval_sim cls0 E W s S R u Hu e v K Ev) as [A G]. rewrite A. cbn [bind].
    destruct v as [z|o off|]; try discriminate H. injection H as <-. cbn [rv]. split; [reflexivity|exact G].
  - injection H as <-. rewrite (r_pre _ _ _ _ _ R). split; [reflexivity|apply preok_nm, (r_preok _ _ _ _ _ R)].
Qed.

(* a function that starts with a virtual call on its own object runs on a registered prefix *)
Lemma virthead_reg : forall g fn fuel s r, virthead g = true -> lget prog g = Some fn -> exec prog vt0 fuel (f_body fn) s = Ok r ->
  exists c, lget vt0 (pre s) = Some c \/ (lget vt0 (pre s) = None /\ exists off, lget (ptrs s) (class_key (pre s)) = Some (VPtr c off)).
Proof.
  intros g fn fuel s r V L H. unfold virthead in V. rewrite L in V.
  destruct (f_body fn) as [| a b | | | | | | | | | | | | | | | | | | | ]; try discriminate V.
  destruct a as [| | | | | | | | | | ret m this args | | | | | | | | | | ]; try discriminate V. destruct this; [discriminate V|].
  destruct fuel as [|fuel]; [discriminate H|]. cbn [exec] in H. bo H as r1 E1.
  destruct fuel as [|fuel]; [discriminate E1|]. cbn [exec] in E1. bo E1 as vs Evs. cbn [this_prefix bind] in E1.
  destruct (lget vt0 (pre s)) as [c|] eqn:Ev.
  - exists c. left. reflexivity.
  - destruct (lget (ptrs s) (class_key (pre s))) as [[z|c off|]|] eqn:Ep; try discriminate E1. exists c. right. split; [reflexivity|eauto].
Qed.

Lemma reg_preok : forall W s S p c, Rel W s S -> nm W p ->
  (lget vt0 p = Some c \/ (lget vt0 p = None /\ exists off, lget (ptrs s) (class_key p) = Some (VPtr c off))) -> preok W p.
Proof. intros W s S p c R Hn H. apply (dispatch W s S p c R Hn H). Qed.


Lemma oks_call : forall u r g this args, oks u (SCall r g this args) = true ->
  forallb (oke u) args = true /\ In g OKL /\ match this with Some e => oke u e | None => true end = true /\
  match this with
  | None => u = true -> inb g UL = true
  | Some (EField h) => u = false
  | Some _ => inb g UL = true /\ virthead g = true
  end.
Proof.
  intros u r g this args K. destruct this as [e|].
  - destruct e; cbn [oks] in K;
    try (apply andb_prop in K; destruct K as [K K5]; apply andb_prop in K; destruct K as [K K4]; apply andb_prop in K; destruct K as [K K3];
         apply andb_prop in K; destruct K as [K1 K2]; split; [exact K5|]; split; [apply inb_In, K3|]; split; [exact K1|]; split; assumption).
    apply andb_prop in K. destruct K as [K K3]. apply andb_prop in K. destruct K as [K1 K2].
    destruct u; [discriminate K1|]. split; [exact K3|]. split; [apply inb_In, K2|]. split; reflexivity.
  - cbn [oks] in K. apply andb_prop in K. destruct K as [K K3]. apply andb_prop in K. destruct K as [K1 K2].
    split; [exact K3|]. split; [apply inb_In, K1|]. split; [reflexivity|]. intros ->. exact K2.
Qed.

Lemma Forall_gv_mono : forall W W' vs, ext W W' -> Forall (gv W) vs -> Forall (gv W') vs /\ map (rv W') vs = map (rv W) vs.
Proof.
  intros W W' vs X H. induction H as [|v vs Hv Hvs [IH1 IH2]]; [split; [constructor|reflexivity]|].
  destruct (gv_mono W W' v X Hv) as [A B]. split; [constructor; assumption|]. cbn [map]. now rewrite B, IH2.
Qed.

Definition simres (W : world) (s : state) (fuel : nat) (st : stmt) (S : state) (o : outcome) (s' : state) : Prop :=
  exists W' S', ext W W' /\ exec prog' [] fuel st S = Ok (ro W' o, S') /\ Rel W' s' S' /\ go W' o /\ pre s' = pre s.

Lemma heap_not_E : forall n, ~ In (heap_name n) E.
Proof. intros n H. destruct (HE _ H) as [r Er]. discriminate Er. Qed.
Lemma larr_not_E : forall x, ~ In ("%" ++ x) E.
Proof. intros x H. destruct (HE _ H) as [r Er]. discriminate Er. Qed.

Theorem exec_sim : forall fuel st u s S W o s',
  oks u st = true -> (pre s = "" -> u = true) -> Rel W s S ->
  exec prog vt0 fuel st s = Ok (o, s') -> simres W s fuel st S o s'.
Proof.
  induction fuel as [|fuel IH]; intros st u s S W o s' K Hu R H; [discriminate H|].
  (* a call of a checked function *)
  assert (CALL : forall ret g pfx vs o0 s0, In g OKL -> preok W pfx -> (pfx = "" -> inb g UL = true) -> Forall (gv W) vs ->
    match lget prog g with
    | None => UB ("no function " ++ g)%string
    | Some f => do l <- bind_params (f_params f) vs;
                do r1 <- exec prog vt0 fuel (f_body f) {| mem := mem s; loc := l; pre := pfx; files := files s; ptrs := ptrs s; fresh := fresh s |};
                let '(o, s1) := r1 in
                do s2 <- set_ret {| mem := mem s1; loc := loc s; pre := pre s; files := files s1; ptrs := ptrs s1; fresh := fresh s1 |} ret
                                 (match o with Returned v => v | _ => None end);
                Ok (Normal, s2)
    end = Ok (o0, s0) ->
    exists W' S', ext W W' /\
    match lget prog' g with
    | None => UB ("no function " ++ g)%string
    | Some f => do l <- bind_params (f_params f) (map (rv W) vs);
                do r1 <- exec prog' [] fuel (f_body f) {| mem := mem S; loc := l; pre := tau W pfx; files := files S; ptrs := ptrs S; fresh := fresh S |};
                let '(o, s1) := r1 in
                do s2 <- set_ret {| mem := mem s1; loc := loc S; pre := pre S; files := files s1; ptrs := ptrs s1; fresh := fresh s1 |} ret
                                 (match o with Returned v => v | _ => None end);
                Ok (Normal, s2)
    end = Ok (ro W' o0, S') /\ Rel W' s0 S' /\ go W' o0 /\ pre s0 = pre s).
  { intros ret g pfx vs o0 s0 Hg Hp Hpu Gvs Hc.
    destruct (HOK g Hg) as (fn & L1 & L2 & Kf). rewrite L1 in Hc. rewrite L2.
    bo Hc as l El. destruct (bind_params_sim W _ _ _ El Gvs) as [El' Gl]. rewrite El'. cbn [bind].
    bo Hc as r1 E1. destruct r1 as [o1 s1].
    destruct (IH (f_body fn) (inb g UL) {| mem := mem s; loc := l; pre := pfx; files := files s; ptrs := ptrs s; fresh := fresh s |}
                 {| mem := mem S; loc := lmap W l; pre := tau W pfx; files := files S; ptrs := ptrs S; fresh := fresh S |}
                 W o1 s1 Kf Hpu (rel_enter cls0 E W s S pfx l R Hp Gl) E1) as (W1 & S1 & X1 & Ex1 & R1 & G1 & P1).
    rewrite Ex1. cbn [bind].
    bo Hc as s2 E2. injection Hc as <- <-.
    pose proof (rel_back cls0 E W W1 s S s1 S1 R X1 R1) as Rb.
    destruct (set_ret_sim cls0 E W1 _ _ ret _ s2 Rb E2) as (S2 & E2' & R2 & P2).
    { intros w Hw. destruct o1 as [| |[v|]]; try discriminate Hw. injection Hw as <-. exact G1. }
    exists W1, S2. split; [exact X1|]. split; [|split; [exact R2|split; [exact I|exact P2]]].
    replace (match ro W1 o1 with Returned v => v | _ => None end) with (option_map (rv W1) (match o1 with Returned v => v | _ => None end))
      by (destruct o1 as [| |[v|]]; reflexivity).
    rewrite E2'. reflexivity. }
  destruct st; cbn [oks] in K; try discriminate K.
  - (* SSkip *) cbn [exec] in H. injection H as <- <-. exists W, S. split; [apply ext_refl|]. split; [reflexivity|]. split; [exact R|]. split; [exact I|reflexivity].
  - (* SSeq *)
    apply andb_prop in K. destruct K as [K1 K2]. cbn [exec] in H. bo H as r1 E1. destruct r1 as [o1 s1].
    destruct (IH st1 u s S W o1 s1 K1 Hu R E1) as (W1 & S1 & X1 & Ex1 & R1 & G1 & P1).
    destruct o1 as [| |v].
    + assert (Hu1 : pre s1 = "" -> u = true) by (rewrite P1; exact Hu).
      destruct (IH st2 u s1 S1 W1 o s' K2 Hu1 R1 H) as (W2 & S2 & X2 & Ex2 & R2 & G2 & P2).
      exists W2, S2. split; [eapply ext_trans; eassumption|]. split; [|split; [exact R2|split; [exact G2|congruence]]].
      cbn [exec]. rewrite Ex1. cbn [bind ro]. exact Ex2.
    + injection H as <- <-. exists W1, S1. split; [exact X1|]. split; [|split; [exact R1|split; [exact I|exact P1]]].
      cbn [exec]. rewrite Ex1. reflexivity.
    + injection H as <- <-. exists W1, S1. split; [exact X1|]. split; [|split; [exact R1|split; [exact G1|exact P1]]].
      cbn [exec]. rewrite Ex1. cbn [bind]. destruct v; reflexivity.
  - (* SSet *)
    cbn [exec] in H. bo H as v Ev. injection H as <- <-. destruct (eval_sim cls0 E W s S R u Hu e v K Ev) as [A G].
    exists W, (with_loc S (lset (loc S) x (rv W v))). split; [apply ext_refl|]. split; [cbn [exec]; rewrite A; reflexivity|].
    split; [|split; [exact I|reflexivity]].
    rewrite (r_loc _ _ _ _ _ R), <- lset_lmap. apply rel_loc; [exact R|]. apply gl_lset; [apply (r_gl _ _ _ _ _ R)|exact G].
  - (* SStore *)
    apply andb_prop in K. destruct K as [K1 K2]. cbn [exec] in H. bo H as pv Ep. bo H as ev Ee. bo H as z Ez.
    destruct (eval_sim cls0 E W s S R u Hu p pv K1 Ep) as [A1 G1]. destruct (eval_sim cls0 E W s S R u Hu e ev K2 Ee) as [A2 G2].
    destruct pv as [z0|ob off|]; try discriminate H. destruct (mget (mem s) ob) as [obj|] eqn:Eo; [|discriminate H].
    bo H as obj' Es. injection H as <- <-.
    destruct (store_sim cls0 E W s S ob obj obj' R Eo) as [Eo' R'].
    exists W, (with_mem S (mset (mem S) (tau W ob) obj')). split; [apply ext_refl|]. split; [|split; [exact R'|split; [exact I|reflexivity]]].
    cbn [exec]. rewrite A1. cbn [bind]. rewrite A2. cbn [bind]. rewrite as_int_rv, Ez. cbn [bind rv]. rewrite Eo', Es. reflexivity.
  - (* SIf *)
    apply andb_prop in K. destruct K as [K K3]. apply andb_prop in K. destruct K as [K1 K2].
    cbn [exec] in H. bo H as cv Ec. bo H as x Ex. destruct (eval_sim cls0 E W s S R u Hu c cv K1 Ec) as [A1 G1].
    assert (Hb : exists stb, stb = (if (x =? 0)%Z then st2 else st1) /\ oks u stb = true /\ exec prog vt0 fuel stb s = Ok (o, s')).
    { destruct (x =? 0)%Z; eexists; split; try reflexivity; split; assumption. }
    destruct Hb as (stb & Eb & Kb & Hb). destruct (IH stb u s S W o s' Kb Hu R Hb) as (W1 & S1 & X1 & Ex1 & R1 & G1' & P1).
    exists W1, S1. split; [exact X1|]. split; [|split; [exact R1|split; [exact G1'|exact P1]]].
    cbn [exec]. rewrite A1. cbn [bind]. rewrite as_int_rv, Ex. cbn [bind]. subst stb. destruct (x =? 0)%Z; exact Ex1.
  - (* SLoop *)
    pose proof K as K0. apply andb_prop in K. destruct K as [K K3]. apply andb_prop in K. destruct K as [K1 K2].
    cbn [exec] in H. bo H as cv Ec. bo H as x Ex. destruct (eval_sim cls0 E W s S R u Hu c cv K1 Ec) as [A1 G1].
    destruct (x =? 0)%Z eqn:Ex0.
    + injection H as <- <-. exists W, S. split; [apply ext_refl|]. split; [|split; [exact R|split; [exact I|reflexivity]]].
      cbn [exec]. rewrite A1. cbn [bind]. rewrite as_int_rv, Ex. cbn [bind]. rewrite Ex0. reflexivity.
    + bo H as r1 E1. destruct r1 as [o1 s1].
      destruct (IH st1 u s S W o1 s1 K2 Hu R E1) as (W1 & S1 & X1 & Ex1 & R1 & G1' & P1).
      assert (Hd : exec prog' [] (Datatypes.S fuel) (SLoop c st1 st2) S =
                   (let '(o, s1) := (ro W1 o1, S1) in
                    match o with
                    | Normal => do r2 <- exec prog' [] fuel st2 s1;
                                let '(o2, s2) := r2 in
                                match o2 with Normal => exec prog' [] fuel (SLoop c st1 st2) s2 | _ => UB "control flow out of a loop step" end
                    | Broke => Ok (Normal, s1)
                    | Returned v => Ok (Returned v, s1)
                    end)).
      { cbn [exec]. rewrite A1. cbn [bind]. rewrite as_int_rv, Ex. cbn [bind]. rewrite Ex0. rewrite Ex1. reflexivity. }
      destruct o1 as [| |v].
      * assert (Hu1 : pre s1 = "" -> u = true) by (rewrite P1; exact Hu).
        bo H as r2 E2. destruct r2 as [o2 s2].
        destruct (IH st2 u s1 S1 W1 o2 s2 K3 Hu1 R1 E2) as (W2 & S2 & X2 & Ex2 & R2 & G2 & P2).
        destruct o2; try discriminate H.
        assert (Hu2 : pre s2 = "" -> u = true) by (rewrite P2; exact Hu1).
        destruct (IH (SLoop c st1 st2) u s2 S2 W2 o s' K0 Hu2 R2 H) as (W3 & S3 & X3 & Ex3 & R3 & G3 & P3).
        exists W3, S3. split; [eapply ext_trans; [exact X1|eapply ext_trans; eassumption]|]. split; [|split; [exact R3|split; [exact G3|congruence]]].
        rewrite Hd. cbn [ro]. rewrite Ex2. cbn [bind ro]. exact Ex3.
      * injection H as <- <-. exists W1, S1. split; [exact X1|]. split; [|split; [exact R1|split; [exact I|exact P1]]].
        rewrite Hd. reflexivity.
      * injection H as <- <-. exists W1, S1. split; [exact X1|]. split; [|split; [exact R1|split; [exact G1'|exact P1]]].
        rewrite Hd. destruct v; reflexivity.
  - (* SBreak *) cbn [exec] in H. injection H as <- <-. exists W, S. split; [apply ext_refl|]. split; [reflexivity|]. split; [exact R|]. split; [exact I|reflexivity].
  - (* SReturn *)
    destruct e as [e|].
    + cbn [exec] in H. bo H as v Ev. injection H as <- <-. destruct (eval_sim cls0 E W s S R u Hu e v K Ev) as [A G].
      exists W, S. split; [apply ext_refl|]. split; [cbn [exec]; rewrite A; reflexivity|]. split; [exact R|]. split; [exact G|reflexivity].
    + cbn [exec] in H. injection H as <- <-. exists W, S. split; [apply ext_refl|]. split; [reflexivity|]. split; [exact R|]. split; [exact I|reflexivity].
  - (* SCall *)
    cbn [exec] in H. bo H as vs Evs. bo H as pfx Epf.
    destruct (oks_call u ret f this args K) as (Ka & Kg & Kt & Kx).
    destruct (eval_list_sim cls0 E W s S R u Hu args vs Ka Evs) as [Avs Gvs].
    destruct (this_prefix_sim W s S u this pfx R Hu Kt Epf) as [Apf Npf].
    assert (Hpre : preok W pfx /\ (pfx = "" -> inb f UL = true)).
    { destruct this as [e|].
      - assert (Hcase : (exists h, e = EField h /\ u = false) \/ (inb f UL = true /\ virthead f = true)).
        { destruct e; try (right; exact Kx). left. eauto. }
        destruct Hcase as [(h & -> & ->)|[Hul Hvh]].
        + cbn [this_prefix eval bind] in Epf. injection Epf as <-.
          assert (Hne : pre s <> "") by (intro E0; specialize (Hu E0); discriminate).
          destruct (preok_app W (pre s) h (r_preok _ _ _ _ _ R) Hne) as [A B]. split; [exact A|]. intro E0. congruence.
        + split; [|intros _; exact Hul].
          pose proof H as H0. destruct (HOK f Kg) as (fn & L1 & _ & _). rewrite L1 in H0. bo H0 as l El. bo H0 as r1 E1.
          destruct (virthead_reg f fn fuel _ r1 Hvh L1 E1) as [c Hreg]. cbn [pre ptrs] in Hreg.
          eapply (reg_preok W s S pfx c R Npf). exact Hreg.
      - cbn [this_prefix] in Epf. injection Epf as <-. split; [apply (r_preok _ _ _ _ _ R)|].
        intro E0. apply Kx, Hu, E0. }
    destruct Hpre as [Hp Hpu].
    destruct (CALL ret f pfx vs o s' Kg Hp Hpu Gvs H) as (W1 & S1 & X1 & Ex1 & R1 & G1 & P1).
    exists W1, S1. split; [exact X1|]. split; [|split; [exact R1|split; [exact G1|exact P1]]].
    cbn [exec]. rewrite Avs. cbn [bind]. rewrite Apf. cbn [bind]. exact Ex1.
  - (* SCallVirt *)
    cbn [exec] in H. bo H as vs Evs. bo H as pfx Epf.
    assert (Kd : forallb (oke u) args = true /\ vok m = true /\ match this with Some e => oke u e | None => true end = true).
    { destruct this as [e|].
      - apply andb_prop in K. destruct K as [K K3]. apply andb_prop in K. destruct K as [K1 K2]. auto.
      - apply andb_prop in K. destruct K as [K1 K2]. auto. }
    destruct Kd as (Ka & Kv & Kt).
    destruct (eval_list_sim cls0 E W s S R u Hu args vs Ka Evs) as [Avs Gvs].
    destruct (this_prefix_sim W s S u this pfx R Hu Kt Epf) as [Apf Npf].
    assert (Hd : exists c, (lget vt0 pfx = Some c \/ (lget vt0 pfx = None /\ exists off, lget (ptrs s) (class_key pfx) = Some (VPtr c off))) /\
                 match lget prog (c ++ "::" ++ m) with
                 | None => UB ("no function " ++ (c ++ "::" ++ m))%string
                 | Some f => do l <- bind_params (f_params f) vs;
                             do r1 <- exec prog vt0 fuel (f_body f) {| mem := mem s; loc := l; pre := pfx; files := files s; ptrs := ptrs s; fresh := fresh s |};
                             let '(o, s1) := r1 in
                             do s2 <- set_ret {| mem := mem s1; loc := loc s; pre := pre s; files := files s1; ptrs := ptrs s1; fresh := fresh s1 |} ret
                                              (match o with Returned v => v | _ => None end);
                             Ok (Normal, s2)
                 end = Ok (o, s')).
    { destruct (lget vt0 pfx) as [c|] eqn:Ev.
      - exists c. split; [left; reflexivity|exact H].
      - destruct (lget (ptrs s) (class_key pfx)) as [[z|c off|]|] eqn:Ep; try discriminate H. exists c. split; [right; split; [reflexivity|eauto]|exact H]. }
    destruct Hd as (c & Hdisp & Hc).
    destruct (dispatch W s S pfx c R Npf Hdisp) as (Hp & [off' Ecls] & Hreg & Hc0).
    assert (Hg : In (c ++ "::" ++ m) OKL /\ (pfx = "" -> inb (c ++ "::" ++ m) UL = true)).
    { unfold vok in Kv. rewrite forallb_forall in Kv. specialize (Kv c Hreg).
      destruct (lget prog (c ++ "::" ++ m)) as [fn|]; [|discriminate Hc].
      apply andb_prop in Kv. destruct Kv as [Kv1 Kv2]. split; [apply inb_In, Kv1|].
      intro E0. rewrite (Hc0 E0) in Kv2 |- *. rewrite (proj2 (inb_In cls0 hashcls) Hcls0) in Kv2. exact Kv2. }
    destruct Hg as [Hg Hgu].
    destruct (CALL ret (c ++ "::" ++ m) pfx vs o s' Hg Hp Hgu Gvs Hc) as (W1 & S1 & X1 & Ex1 & R1 & G1 & P1).
    exists W1, S1. split; [exact X1|]. split; [|split; [exact R1|split; [exact G1|exact P1]]].
    cbn [exec]. rewrite Avs. cbn [bind]. rewrite Apf. cbn [bind lget]. rewrite Ecls. exact Ex1.
  - (* SMemcpy *)
    apply andb_prop in K. destruct K as [K K3]. apply andb_prop in K. destruct K as [K1 K2].
    cbn [exec] in H. bo H as dv Ed. bo H as sv Es. bo H as nv En. bo H as k Ek. bo H as s1 Em. injection H as <- <-.
    destruct (eval_sim cls0 E W s S R u Hu d dv K1 Ed) as [A1 G1]. destruct (eval_sim cls0 E W s S R u Hu s0 sv K2 Es) as [A2 G2].
    destruct (eval_sim cls0 E W s S R u Hu n nv K3 En) as [A3 G3].
    destruct (memcpy_sim cls0 E W s S dv sv k s1 R G1 G2 Em) as (S1 & Em' & R1 & P1).
    exists W, S1. split; [apply ext_refl|]. split; [|split; [exact R1|split; [exact I|exact P1]]].
    cbn [exec]. rewrite A1. cbn [bind]. rewrite A2. cbn [bind]. rewrite A3. cbn [bind]. rewrite as_int_rv, Ek. cbn [bind]. rewrite Em'. reflexivity.
  - (* SMemset *)
    apply andb_prop in K. destruct K as [K K3]. apply andb_prop in K. destruct K as [K1 K2].
    cbn [exec] in H. bo H as dv Ed. bo H as vv Ev. bo H as x Ex. bo H as nv En. bo H as k Ek. bo H as s1 Em. injection H as <- <-.
    destruct (eval_sim cls0 E W s S R u Hu d dv K1 Ed) as [A1 G1]. destruct (eval_sim cls0 E W s S R u Hu v vv K2 Ev) as [A2 G2].
    destruct (eval_sim cls0 E W s S R u Hu n nv K3 En) as [A3 G3].
    destruct (memset_sim cls0 E W s S dv x k s1 R G1 Em) as (S1 & Em' & R1 & P1).
    exists W, S1. split; [apply ext_refl|]. split; [|split; [exact R1|split; [exact I|exact P1]]].
    cbn [exec]. rewrite A1. cbn [bind]. rewrite A2. cbn [bind]. rewrite as_int_rv, Ex. cbn [bind]. rewrite A3. cbn [bind]. rewrite as_int_rv, Ek. cbn [bind].
    rewrite Em'. reflexivity.
  - (* SLocalArr *)
    cbn [exec] in H. injection H as <- <-.
    assert (Hn : nm W ("%" ++ x)) by (left; reflexivity).
    pose proof (rel_mset_new cls0 E W s S ("%" ++ x) {| o_ty := t; o_cells := repeat 0%Z (Z.to_nat n) |} R Hn (larr_not_E x)) as R1.
    rewrite (tau_ord W ("%" ++ x)) in R1 by reflexivity.
    eexists W, _. split; [apply ext_refl|]. split; [cbn [exec]; reflexivity|]. split; [exact R1|]. split; [exact I|reflexivity].
  - (* SNew *)
    cbn [exec] in H. bo H as nv En. bo H as k Ek. destruct (eval_sim cls0 E W s S R u Hu n nv K En) as [A1 G1].
    destruct (k <? 0)%Z eqn:Ek0; [discriminate H|]. injection H as <- <-.
    assert (Hn : nm W (heap_name (wf W))) by (right; right; left; eauto).
    pose proof (rel_mset_new cls0 E W s S (heap_name (wf W)) {| o_ty := t; o_cells := repeat 0%Z (Z.to_nat k) |} R Hn (heap_not_E _)) as R1.
    rewrite tau_heap in R1.
    assert (G : gl W (lset (loc s) x (VPtr (heap_name (wf W)) 0))) by (apply gl_lset; [apply (r_gl _ _ _ _ _ R)|exact Hn]).
    pose proof (rel_Wn cls0 E HE W _ _ (rel_loc cls0 E W _ _ _ R1 G)) as R2.
    cbn [with_loc with_mem mem loc pre files ptrs fresh] in R2.
    rewrite lset_lmap in R2. cbn [rv] in R2. rewrite tau_heap in R2. rewrite <- (r_loc _ _ _ _ _ R) in R2.
    eexists (Wn W), _. split; [apply ext_Wn|]. split; [|split; [|split; [exact I|reflexivity]]].
    + cbn [exec]. rewrite A1. cbn [bind]. rewrite as_int_rv, Ek. cbn [bind]. rewrite Ek0. reflexivity.
    + rewrite (r_fresh _ _ _ _ _ R), (r_freshS _ _ _ _ _ R). rewrite (r_fresh _ _ _ _ _ R), (r_freshS _ _ _ _ _ R) in R2. exact R2.
  - (* SDelete *)
    cbn [exec] in H. bo H as pv Ep. injection H as <- <-. destruct (eval_sim cls0 E W s S R u Hu p pv K Ep) as [A1 G1].
    exists W, S. split; [apply ext_refl|]. split; [cbn [exec]; rewrite A1; reflexivity|]. split; [exact R|]. split; [exact I|reflexivity].
  - (* SPrim *)
    apply andb_prop in K. destruct K as [K1 K2].
    cbn [exec] in H. bo H as vs Evs. bo H as r Er. destruct r as [v s1]. bo H as s2 E2. injection H as <- <-.
    destruct (eval_list_sim cls0 E W s S R u Hu args vs K2 Evs) as [Avs Gvs].
    assert (PS : exists S1, do_prim S name (map (rv W) vs) = Ok (v, S1) /\ Rel W s1 S1 /\ pre s1 = pre s /\ (forall w, v = Some w -> gv W w) /\ option_map (rv W) v = v).
    { unfold inb in K1. cbn [existsb] in K1. rewrite orb_false_r in K1.
      apply orb_prop in K1. destruct K1 as [K1|K1]; [|apply orb_prop in K1; destruct K1 as [K1|K1]; [|apply orb_prop in K1; destruct K1 as [K1|K1]]];
        apply String.eqb_eq in K1; subst name.
      - apply (fread_sim cls0 E W s S vs v s1 R Gvs Er).
      - apply (strlen_sim cls0 E W s S vs v s1 R Gvs Er).
      - apply (fwrite_sim cls0 E W s S vs v s1 R Gvs Er).
      - apply (fseek_sim cls0 E W s S vs v s1 R Gvs Er). }
    destruct PS as (S1 & Er' & R1 & P1 & Gv & Ev).
    destruct (set_ret_sim cls0 E W s1 S1 ret v s2 R1 E2 Gv) as (S2 & E2' & R2 & P2).
    exists W, S2. split; [apply ext_refl|]. split; [|split; [exact R2|split; [exact I|congruence]]].
    cbn [exec]. rewrite Avs. cbn [bind]. rewrite Er'. cbn [bind]. rewrite Ev in E2'. rewrite E2'. reflexivity.
  - (* SSetPtr *)
    apply andb_prop in K. destruct K as [K1 K2].
    cbn [exec] in H. bo H as pv Ep. bo H as ev Ee.
    destruct (eval_sim cls0 E W s S R u Hu p pv K1 Ep) as [A1 G1]. destruct (eval_sim cls0 E W s S R u Hu e ev K2 Ee) as [A2 G2].
    destruct pv as [z|ob off|]; try discriminate H. injection H as <- <-. cbn [gv] in G1.
    eexists W, _. split; [apply ext_refl|]. split; [cbn [exec]; rewrite A1; cbn [bind]; rewrite A2; cbn [bind rv]; reflexivity|].
    split; [apply rel_lset_ptrs; assumption|]. split; [exact I|reflexivity].
  - (* SNewObj *)
    destruct ctor as [fname|]; [|discriminate K].
    apply andb_prop in K. destruct K as [K K6]. apply andb_prop in K. destruct K as [K K5]. apply andb_prop in K. destruct K as [K K4].
    apply andb_prop in K. destruct K as [K K3]. apply andb_prop in K. destruct K as [K1 K2].
    cbn [exec] in H. bo H as vs Evs.
    destruct (eval_list_sim cls0 E W s S R u Hu args vs K6 Evs) as [Avs Gvs].
    set (name := match lget (ptrs s) ("alloc:" ++ cls) with Some (VPtr p _) => p | _ => ("#" ++ nat_string (fresh s) ++ ".")%string end) in *.
    match type of H with context [forallb ?f objs] => destruct (forallb f objs) eqn:Hfree end; [|discriminate H]. cbn [negb] in H.
    assert (Hcls : In cls regcls) by (apply inb_In, K1).
    assert (Hh : In cls hashcls -> (forall x0, In x0 objs -> In (fst (fst x0)) five) /\ In "hashblock" (onames objs)).
    { intro Hin. rewrite (proj2 (inb_In cls hashcls) Hin) in K3. apply andb_prop in K3. destruct K3 as [K3 K3c]. apply andb_prop in K3. destruct K3 as [K3a K3b].
      split; [|apply inb_In, K3c]. intros x0 Hx0. rewrite forallb_forall in K3b. apply inb_In, K3b, Hx0. }
    assert (Hhu : In cls hashcls -> inb fname UL = true).
    { intro Hin. rewrite (proj2 (inb_In cls hashcls) Hin) in K3. apply andb_prop in K3. destruct K3 as [K3 K3c]. apply andb_prop in K3. apply K3. }
    assert (Hb : cls = "filebuffer64" -> In "b" (onames objs)).
    { intros ->. cbn [String.eqb Ascii.eqb Bool.eqb andb] in K4. apply inb_In, K4. }
    assert (HsE : forall x0, In x0 objs -> ~ In ("sizeof:" ++ cls ++ "." ++ fst (fst x0)) E).
    { intros x0 Hx0 HinE. rewrite forallb_forall in K5. specialize (K5 x0 Hx0). apply negb_true_iff in K5. apply inb_In in HinE. congruence. }
    destruct (rel_alloc cls0 E HE Hcls0 W s S cls objs R Hcls Hh Hb HsE name eq_refl Hfree) as (W1 & X1 & Et & Hp1 & Hn1 & Hname & Enoalloc & HfreeS & R1).
    destruct (HOK fname (proj1 (inb_In _ _) K2)) as (fn & L1 & L2 & Kf). rewrite L1 in H.
    bo H as l El. bo H as r1 E1. destruct r1 as [o1 s1]. injection H as <- <-.
    destruct (Forall_gv_mono W W1 vs X1 Gvs) as [Gvs1 Evs1].
    destruct (bind_params_sim W1 _ _ _ El Gvs1) as [El' Gl]. rewrite Evs1 in El'.
    destruct (gl_mono W W1 _ X1 (r_gl _ _ _ _ _ R)) as [Gloc Eloc].
    assert (Glx : gl W1 (lset (loc s) x (VPtr name 0))) by (apply gl_lset; [exact Gloc|exact Hn1]).
    pose proof (rel_loc cls0 E W1 _ _ _ R1 Glx) as RX.
    pose proof (rel_enter cls0 E W1 _ _ name l R1 Hp1 Gl) as Rc.
    cbn [mem loc pre files ptrs fresh] in Rc.
    assert (Hpu : name = "" -> inb fname UL = true) by (intro E0; apply Hhu, Hname, E0).
    match type of Rc with RefineE2EfXRel.Rel _ _ _ ?sc ?Sc =>
      destruct (IH (f_body fn) (inb fname UL) sc Sc W1 o1 s1 Kf Hpu Rc E1) as (W2 & S2 & X2 & Ex2 & R2 & G2 & P2) end.
    pose proof (rel_back cls0 E W1 W2 _ _ s1 S2 RX X2 R2) as Rb.
    cbn [with_loc mem loc pre files ptrs fresh] in Rb.
    eexists W2, _. split; [eapply ext_trans; eassumption|]. split; [|split; [exact Rb|split; [exact I|reflexivity]]].
    cbn [exec]. rewrite Avs. cbn [bind]. rewrite Enoalloc. rewrite (r_freshS _ _ _ _ _ R). rewrite hobj_newobj_name.
    rewrite HfreeS. cbn [negb]. rewrite L2. rewrite El'. cbn [bind mem loc pre files ptrs fresh].
    rewrite Et in Ex2. rewrite (r_freshS _ _ _ _ _ R) in Ex2. rewrite Ex2. cbn [bind].
    rewrite lset_lmap. cbn [rv]. rewrite Et. rewrite Eloc. rewrite <- (r_loc _ _ _ _ _ R). reflexivity.
Qed.

Lemma call_sim : forall fuel g pfx vs s S W v s',
  In g OKL -> preok W pfx -> (pfx = "" -> inb g UL = true) -> Forall (gv W) vs -> Rel W s S ->
  call prog vt0 fuel g pfx vs s = Ok (v, s') ->
  exists W' S', ext W W' /\ call prog' [] fuel g (tau W pfx) (map (rv W) vs) S = Ok (option_map (rv W') v, S').
Proof.
  intros fuel g pfx vs s S W v s' Hg Hp Hpu Gvs R H. unfold call in *.
  destruct (HOK g Hg) as (fn & L1 & L2 & Kf). rewrite L1 in H. rewrite L2.
  bo H as l El. destruct (bind_params_sim W _ _ _ El Gvs) as [El' Gl]. rewrite El'. cbn [bind].
  bo H as r1 E1. destruct r1 as [o1 s1]. injection H as <- <-.
  destruct (exec_sim fuel (f_body fn) (inb g UL) {| mem := mem s; loc := l; pre := pfx; files := files s; ptrs := ptrs s; fresh := fresh s |}
              {| mem := mem S; loc := lmap W l; pre := tau W pfx; files := files S; ptrs := ptrs S; fresh := fresh S |}
              W o1 s1 Kf Hpu (rel_enter cls0 E W s S pfx l R Hp Gl) E1) as (W1 & S1 & X1 & Ex1 & R1 & G1 & P1).
  exists W1. eexists. split; [exact X1|]. rewrite Ex1. cbn [bind]. destruct o1 as [| |[w|]]; reflexivity.
Qed.
End Sim.
