(* Proofs for C02 and the file part of C08: the model of execute_encrypt (FileModel.enc) produces,
   byte for byte, the documented format (FileSpec.wenc_spec).

   Layout:
   0. list helpers (chunks, concat, firstn/skipn, set_nth);
   1. the IV chain: model SHA-1 chain = specification chain, length, byte range;
   2. the loads of the encryptor = the chunks of the PKCS#7-padded plaintext ([mkloads]);
   3. [run] keeps blocks well formed; export never fails with padding; the pipeline over
      [mkloads chs] is the plain recursive function [pc];
   4. striping: [pc] equals the round-robin / continuous-stream description of the specification;
   5. header, tag, patch arithmetic, length;
   6. the four required lemmas and non-vacuity examples. *)
From Coq Require Import NArith List Bool Arith Lia PeanoNat.
From Wencry Require Import Bytes AesSpec AesModel ModesSpec ModesModel HashSpec HashModel.
From Wencry Require Import AesProofs ModesProofs HashProofs HmacProofs.
From Wencry Require Import FileModel FileSpec FileProps.
Import ListNotations.
Local Open Scope nat_scope.

(* ------------------------------------------------------------------------------------------ *)
(* 0. helpers                                                                                  *)
(* ------------------------------------------------------------------------------------------ *)

Lemma chunks_fuel_nil {A} f n : @chunks_fuel A f n [] = [].
Proof. destruct f; reflexivity. Qed.

Lemma chunks_small {A} n (l : list A) : l <> [] -> length l <= n -> chunks n l = [l].
Proof.
  intros Hne Hl. unfold chunks. destruct l as [|x l]; [congruence|].
  change (length (x :: l)) with (S (length l)) at 1.
  rewrite chunks_fuel_S by discriminate.
  rewrite firstn_all2 by exact Hl. rewrite skipn_all2 by exact Hl.
  rewrite chunks_fuel_nil. reflexivity.
Qed.

Lemma concat_chunks_fuel {A} n : 1 <= n -> forall f (l : list A),
  length l <= f -> concat (chunks_fuel f n l) = l.
Proof.
  intros Hn. induction f as [|f IH]; intros l Hl.
  - destruct l; [reflexivity | cbn [length] in Hl; lia].
  - destruct l as [|x l]; [reflexivity|].
    rewrite chunks_fuel_S by discriminate. cbn [concat].
    rewrite IH; [apply firstn_skipn|].
    rewrite skipn_length. cbn [length] in *. lia.
Qed.

Lemma concat_chunks {A} n (l : list A) : 1 <= n -> concat (chunks n l) = l.
Proof. intro Hn. apply concat_chunks_fuel; [exact Hn | apply le_n]. Qed.

Lemma bytes_app a b : bytes (a ++ b) <-> bytes a /\ bytes b.
Proof. unfold bytes. apply Forall_app. Qed.

Lemma bytes_repeat x n : (x < 256)%N -> bytes (repeat x n).
Proof. intro Hx. unfold bytes. induction n; cbn [repeat]; constructor; assumption. Qed.

Lemma bytes_firstn n l : bytes l -> bytes (firstn n l).
Proof.
  unfold bytes. revert l. induction n as [|n IH]; intros l H; [constructor|].
  destruct l as [|x l]; [constructor|]. inversion H; subst. cbn [firstn]. constructor; auto.
Qed.

Lemma bytes_skipn n l : bytes l -> bytes (skipn n l).
Proof.
  unfold bytes. revert l. induction n as [|n IH]; intros l H; [exact H|].
  destruct l as [|x l]; [constructor|]. inversion H; subst. cbn [skipn]. auto.
Qed.

Lemma bytes_concat ls : Forall bytes ls -> bytes (concat ls).
Proof.
  induction 1 as [|x r Hx Hr IH]; cbn [concat]; [constructor|].
  apply bytes_app. split; assumption.
Qed.

(* chunks 16 of an aligned byte string are well-formed blocks *)
Lemma blocks16_chunks_fuel : forall f l, length l <= f -> length l mod 16 = 0 -> bytes l ->
  blocks16 (chunks_fuel f 16 l).
Proof.
  induction f as [|f IH]; intros l Hf Hal Hb; [constructor|].
  destruct l as [|x l]; [constructor|].
  rewrite chunks_fuel_S by discriminate.
  assert (H16 : 16 <= length (x :: l)).
  { destruct (Nat.le_gt_cases 16 (length (x :: l))) as [H|H]; [exact H|].
    rewrite Nat.mod_small in Hal by exact H. cbn [length] in Hal. discriminate. }
  constructor.
  - apply block16_iff. split; [apply firstn_length_le; exact H16 | apply bytes_firstn; exact Hb].
  - apply IH.
    + rewrite skipn_length. cbn [length] in *. lia.
    + rewrite skipn_length.
      replace (length (x :: l)) with ((length (x :: l) - 16) + 1 * 16) in Hal by lia.
      rewrite Nat.mod_add in Hal by discriminate. exact Hal.
    + apply bytes_skipn. exact Hb.
Qed.

Lemma blocks16_chunks l : length l mod 16 = 0 -> bytes l -> blocks16 (chunks 16 l).
Proof. intros. apply blocks16_chunks_fuel; [apply le_n | assumption | assumption]. Qed.

(* chunks 16 of a concatenation whose first part is aligned *)
Lemma chunks16_app : forall (a b : list N), length a mod 16 = 0 ->
  chunks 16 (a ++ b) = chunks 16 a ++ chunks 16 b.
Proof.
  intros a. remember (length a) as n eqn:Hn. revert a Hn.
  induction n as [n IH] using lt_wf_ind. intros a Hn b Hal.
  destruct a as [|x a'] eqn:Ea; [reflexivity|]. rewrite <- Ea in *.
  assert (H16 : 16 <= length a).
  { destruct (Nat.le_gt_cases 16 (length a)) as [H|H]; [exact H|].
    rewrite <- Hn in H. rewrite Nat.mod_small in Hal by exact H. subst n a. discriminate. }
  assert (H1 : length (firstn 16 a) = 16) by (apply firstn_length_le; exact H16).
  assert (H2 : length (skipn 16 a) = n - 16) by (rewrite skipn_length; lia).
  rewrite <- (firstn_skipn 16 a).
  generalize dependent (firstn 16 a). generalize dependent (skipn 16 a). clear Ea.
  intros a2 H2 a1 H1.
  rewrite <- app_assoc.
  rewrite (chunks_app_exact 16 a1 (a2 ++ b)) by (try exact H1; lia).
  rewrite (chunks_app_exact 16 a1 a2) by (try exact H1; lia).
  cbn [app]. f_equal.
  apply (IH (n - 16)).
  - lia.
  - symmetry. exact H2.
  - replace n with ((n - 16) + 1 * 16) in Hal by lia.
    rewrite Nat.mod_add in Hal by discriminate. exact Hal.
Qed.

Lemma length_concat_blocks16 : forall bs, blocks16 bs -> length (concat bs) = 16 * length bs.
Proof.
  induction 1 as [|b r Hb Hr IH]; [reflexivity|].
  cbn [concat length]. rewrite app_length, IH. destruct Hb as [Hb _]. lia.
Qed.

Lemma bytes_concat_blocks16 : forall bs, blocks16 bs -> bytes (concat bs).
Proof.
  intros bs H. apply bytes_concat. unfold blocks16 in H.
  eapply Forall_impl; [|exact H]. intros b Hb. apply block16_iff in Hb. tauto.
Qed.

Lemma length_chunks16 l : length l mod 16 = 0 -> bytes l -> 16 * length (chunks 16 l) = length l.
Proof.
  intros Hal Hb. rewrite <- length_concat_blocks16 by (apply blocks16_chunks; assumption).
  rewrite concat_chunks by lia. reflexivity.
Qed.

(* set_nth / nth *)
Lemma set_nth_length {A} n (x : A) : forall l, length (FileModel.set_nth n x l) = length l.
Proof.
  induction n as [|n IH]; intros [|h t]; cbn [FileModel.set_nth length]; try reflexivity.
  rewrite IH. reflexivity.
Qed.

Lemma nth_set_nth_eq {A} (d x : A) : forall n l, n < length l -> nth n (FileModel.set_nth n x l) d = x.
Proof.
  induction n as [|n IH]; intros [|h t] H; cbn [length] in H; try lia; cbn [FileModel.set_nth nth].
  - reflexivity.
  - apply IH. lia.
Qed.

Lemma nth_set_nth_neq {A} (d x : A) : forall n m l, n <> m ->
  nth m (FileModel.set_nth n x l) d = nth m l d.
Proof.
  induction n as [|n IH]; intros m [|h t] H; cbn [FileModel.set_nth]; try reflexivity.
  - destruct m; [congruence | reflexivity].
  - destruct m; [reflexivity|]. cbn [nth]. apply IH. congruence.
Qed.

Lemma Forall_set_nth {A} (Q : A -> Prop) x : Q x -> forall n l, Forall Q l ->
  Forall Q (FileModel.set_nth n x l).
Proof.
  intros Hx. induction n as [|n IH]; intros [|h t] H; cbn [FileModel.set_nth]; try constructor;
    inversion H; subst; auto.
Qed.

(* ------------------------------------------------------------------------------------------ *)
(* 1. the IV chain                                                                             *)
(* ------------------------------------------------------------------------------------------ *)

Lemma bytes_be32_bytes w : bytes (be32_bytes w).
Proof.
  unfold be32_bytes, bytes.
  repeat (apply Forall_cons; [apply N.mod_lt; discriminate|]). apply Forall_nil.
Qed.

Lemma sha1m_bytes s : bytes (getStringHash alg_sha1 s).
Proof.
  unfold getStringHash. change (ha_out alg_sha1) with (flat_map be32_bytes).
  generalize (hs_h (string_loop alg_sha1 (S (length s / 64)) (reset alg_sha1) s)) as l.
  induction l as [|w l IH]; cbn [flat_map]; [constructor|].
  apply bytes_app. split; [apply bytes_be32_bytes | exact IH].
Qed.

Lemma sha1m_length s : length (getStringHash alg_sha1 s) = 20.
Proof. exact (proj1 (getStringHash_length 0%N alg_sha1 s eq_refl)). Qed.

Lemma sha1m_spec s : (8 * N.of_nat (length s) < 2 ^ 64)%N -> getStringHash alg_sha1 s = sha1 s.
Proof. intro H. exact (string_std 0%N alg_sha1 s eq_refl H). Qed.

Lemma iv_chain_from_spec : forall n prev, (8 * N.of_nat (length prev) < 2 ^ 64)%N ->
  iv_chain_from prev n = spec_iv_chain_from prev n.
Proof.
  induction n as [|n IH]; intros prev H; [reflexivity|].
  cbn [iv_chain_from spec_iv_chain_from]. cbv zeta.
  rewrite <- (sha1m_spec prev H). f_equal. apply IH.
  rewrite sha1m_length. rewrite pow64. reflexivity.
Qed.

Lemma iv_chain_from_length : forall n prev, length (iv_chain_from prev n) = 20 * n.
Proof.
  induction n as [|n IH]; intros prev; [reflexivity|].
  cbn [iv_chain_from]. cbv zeta. rewrite app_length, sha1m_length, IH. lia.
Qed.

Lemma iv_chain_from_bytes : forall n prev, bytes (iv_chain_from prev n).
Proof.
  induction n as [|n IH]; intros prev; [constructor|].
  cbn [iv_chain_from]. cbv zeta. apply bytes_app. split; [apply sha1m_bytes | apply IH].
Qed.

Lemma iv_chain_S seed n : iv_chain seed (S n) = iv_chain_from seed (S n).
Proof. reflexivity. Qed.

Lemma iv_chain_spec seed T : 1 <= T -> (N.of_nat (length seed) < 2 ^ 56)%N ->
  iv_chain seed T = spec_ivs seed T.
Proof.
  intros HT Hs. destruct T as [|n]; [lia|]. rewrite iv_chain_S. unfold spec_ivs.
  apply iv_chain_from_spec. rewrite pow64.
  change (2 ^ 56)%N with 72057594037927936%N in Hs. lia.
Qed.

Lemma iv_chain_length seed T : 1 <= T -> length (iv_chain seed T) = 20 * T.
Proof. intros HT. destruct T as [|n]; [lia|]. rewrite iv_chain_S. apply iv_chain_from_length. Qed.

Lemma iv_chain_bytes seed T : 1 <= T -> bytes (iv_chain seed T).
Proof. intros HT. destruct T as [|n]; [lia|]. rewrite iv_chain_S. apply iv_chain_from_bytes. Qed.

Lemma iv16_block seed T : 1 <= T -> block16 (firstn 16 (iv_chain seed T)).
Proof.
  intro HT. apply block16_iff. split.
  - apply firstn_length_le. rewrite iv_chain_length by exact HT. lia.
  - apply bytes_firstn, iv_chain_bytes, HT.
Qed.

(* ------------------------------------------------------------------------------------------ *)
(* 2. the loads of the encryptor                                                               *)
(* ------------------------------------------------------------------------------------------ *)

(* the loads as a function of the chunks of the padded plaintext *)
Fixpoint mkloads (c : nat) (chs : list (list N)) : list load :=
  match chs with
  | [] => []
  | x :: r => match r with
              | [] => [{| ld_data := x; ld_total := length x / 16; ld_final := true |}]
              | _ :: _ => {| ld_data := x; ld_total := c; ld_final := false |} :: mkloads c r
              end
  end.

(* shape of the chunk list: full chunks, then one last non-empty aligned chunk *)
Inductive good_chs (c : nat) : list (list N) -> Prop :=
| good_last x : 16 <= length x -> length x mod 16 = 0 -> length x <= 16 * c -> bytes x ->
                good_chs c [x]
| good_cons x r : length x = 16 * c -> bytes x -> good_chs c r -> good_chs c (x :: r).

Lemma pkcs7_length P : length (pkcs7 P) = 16 * (length P / 16 + 1).
Proof.
  unfold pkcs7. cbv zeta. rewrite app_length, repeat_length.
  pose proof (Nat.div_mod (length P) 16 ltac:(discriminate)) as H.
  pose proof (Nat.mod_upper_bound (length P) 16 ltac:(discriminate)) as H'. lia.
Qed.

Lemma pkcs7_bytes P : bytes P -> bytes (pkcs7 P).
Proof.
  intro H. unfold pkcs7. cbv zeta. apply bytes_app. split; [exact H|].
  apply bytes_repeat.
  pose proof (Nat.mod_upper_bound (length P) 16 ltac:(discriminate)) as H'.
  change 256%N with (N.of_nat 256). lia.
Qed.

Lemma pkcs7_split n P : n mod 16 = 0 -> n <= length P ->
  pkcs7 P = firstn n P ++ pkcs7 (skipn n P).
Proof.
  intros Hn Hle. unfold pkcs7. cbv zeta. rewrite skipn_length.
  assert (Hm : (length P - n) mod 16 = length P mod 16).
  { apply Nat.div_exact in Hn; [|discriminate].
    replace (length P) with ((length P - n) + (n / 16) * 16) at 2 by lia.
    rewrite Nat.mod_add by discriminate. reflexivity. }
  rewrite Hm. rewrite app_assoc. rewrite firstn_skipn. reflexivity.
Qed.

Section Loads.
Variable c : nat.
Hypothesis Hc : 1 <= c.

Lemma load_enc_full rest : 16 * c <= length rest ->
  load_enc c rest = ({| ld_data := firstn (16 * c) rest; ld_total := c; ld_final := false |},
                     skipn (16 * c) rest).
Proof.
  intro H. unfold load_enc, sum. cbv zeta.
  rewrite firstn_length_le by exact H. rewrite Nat.eqb_refl. reflexivity.
Qed.

Lemma load_enc_last rest : length rest < 16 * c ->
  load_enc c rest =
  ({| ld_data := rest ++ repeat (N.of_nat (16 - length rest mod 16)) (16 - length rest mod 16);
      ld_total := S (length rest / 16); ld_final := true |}, []).
Proof.
  intro H. unfold load_enc, sum. cbv zeta.
  rewrite firstn_all2 by lia.
  destruct (Nat.eqb_spec (length rest) (16 * c)) as [Heq|_]; [lia|]. reflexivity.
Qed.

Lemma loads_enc_chunks : forall fuel P, length P / (16 * c) < fuel -> bytes P ->
  loads (load_enc c) fuel P = mkloads c (chunks (16 * c) (pkcs7 P)) /\
  good_chs c (chunks (16 * c) (pkcs7 P)).
Proof.
  induction fuel as [|fuel IH]; intros P Hf HP; [lia|].
  cbn [loads].
  destruct (Nat.le_gt_cases (16 * c) (length P)) as [Hge|Hlt].
  - (* a full load *)
    rewrite load_enc_full by exact Hge. cbn [ld_final].
    assert (Hdiv : length (skipn (16 * c) P) / (16 * c) < fuel).
    { rewrite skipn_length.
      replace (length P) with ((length P - 16 * c) + 1 * (16 * c)) in Hf by lia.
      rewrite Nat.div_add in Hf by lia. lia. }
    destruct (IH (skipn (16 * c) P) Hdiv (bytes_skipn _ _ HP)) as [IH1 IH2].
    rewrite (pkcs7_split (16 * c) P) by
      (try exact Hge; rewrite Nat.mul_comm; apply Nat.mod_mul; discriminate).
    rewrite chunks_app_exact by (try (apply firstn_length_le; exact Hge); lia).
    split.
    + rewrite IH1. cbn [mkloads].
      destruct (chunks (16 * c) (pkcs7 (skipn (16 * c) P))) as [|y r] eqn:E; [inversion IH2|].
      reflexivity.
    + apply good_cons; [apply firstn_length_le; exact Hge | apply bytes_firstn; exact HP | exact IH2].
  - (* the last, short load *)
    rewrite load_enc_last by exact Hlt. cbn [ld_final].
    assert (Hlen : length (pkcs7 P) = 16 * (length P / 16 + 1)) by apply pkcs7_length.
    assert (Hq : length P / 16 < c) by (apply Nat.div_lt_upper_bound; lia).
    rewrite chunks_small; [| | lia].
    2:{ intro E. rewrite E in Hlen. cbn [length] in Hlen. lia. }
    split.
    + cbn [mkloads]. f_equal. rewrite Hlen.
      rewrite (Nat.mul_comm 16), Nat.div_mul by discriminate.
      rewrite Nat.add_1_r. reflexivity.
    + apply good_last; try lia.
      * rewrite Hlen, Nat.mul_comm. apply Nat.mod_mul. discriminate.
      * apply pkcs7_bytes. exact HP.
Qed.

Lemma loads_of_enc P : bytes P ->
  loads_of c true P = mkloads c (chunks (16 * c) (pkcs7 P)) /\
  good_chs c (chunks (16 * c) (pkcs7 P)).
Proof. intro HP. unfold loads_of, sum. apply loads_enc_chunks; [lia | exact HP]. Qed.
End Loads.

(* ------------------------------------------------------------------------------------------ *)
(* 3. the pipeline over the loads                                                              *)
(* ------------------------------------------------------------------------------------------ *)

Definition okb (x : list N) : Prop := length x mod 16 = 0 /\ bytes x.

Lemma okb_nil : okb [].
Proof. split; [reflexivity | constructor]. Qed.

Lemma okb_app a b : okb a -> okb b -> okb (a ++ b).
Proof.
  intros [Ha1 Ha2] [Hb1 Hb2]. split; [|apply bytes_app; split; assumption].
  rewrite app_length, Nat.add_mod, Ha1, Hb1 by discriminate. reflexivity.
Qed.

Lemma good_chs_okb c chs : good_chs c chs -> Forall okb chs.
Proof.
  induction 1 as [x H1 H2 H3 H4 | x r H1 H2 H3 IH].
  - constructor; [split; assumption | constructor].
  - constructor; [|exact IH]. split; [|exact H2].
    rewrite H1, Nat.mul_comm. apply Nat.mod_mul. discriminate.
Qed.

Lemma good_chs_prefix c : forall pre x r, good_chs c (pre ++ x :: r) ->
  r <> [] -> Forall (fun y => length y = 16 * c) (pre ++ [x]).
Proof.
  induction pre as [|p pre IH]; intros x r H Hr; cbn [app] in *.
  - inversion H; subst; [congruence|]. constructor; [assumption | constructor].
  - inversion H as [y A1 A2 A3 A4 E | y r' A1 A2 A3 E]; subst.
    + destruct pre; discriminate.
    + constructor; [exact A1|]. apply (IH x r A3 Hr).
Qed.

Lemma good_chs_pre c : forall pre x r, good_chs c (pre ++ x :: r) ->
  Forall (fun y => length y = 16 * c) pre.
Proof.
  induction pre as [|p pre IH]; intros x r H; cbn [app] in *; [constructor|].
  inversion H as [y A1 A2 A3 A4 E | y r' A1 A2 A3 E]; subst.
  - destruct pre; discriminate.
  - constructor; [exact A1|]. apply (IH x r A3).
Qed.

Lemma mkloads_cons c x r : r <> [] ->
  mkloads c (x :: r) = {| ld_data := x; ld_total := c; ld_final := false |} :: mkloads c r.
Proof. destruct r; [congruence | reflexivity]. Qed.

Lemma snd_run_app E D k iv a b :
  snd (run E D k iv (a ++ b)) = snd (run E D k iv a) ++ snd (run E D k (fst (run E D k iv a)) b).
Proof. rewrite C10_stream_is_continuous_proof. reflexivity. Qed.

Lemma fst_run_app E D k iv a b :
  fst (run E D k iv (a ++ b)) = fst (run E D k (fst (run E D k iv a)) b).
Proof. rewrite C10_stream_is_continuous_proof. reflexivity. Qed.

Lemma succ_divmod T n : 0 < T ->
  (S (n mod T) < T /\ S n mod T = S (n mod T) /\ S n / T = n / T) \/
  (S (n mod T) = T /\ S n mod T = 0 /\ S n / T = S (n / T)).
Proof.
  intros HT.
  pose proof (Nat.div_mod n T ltac:(lia)) as H.
  pose proof (Nat.mod_upper_bound n T ltac:(lia)) as H'.
  destruct (Nat.lt_ge_cases (S (n mod T)) T) as [Hlt|Hge].
  - left. split; [exact Hlt|].
    assert (H1 : S n = T * (n / T) + S (n mod T)) by lia.
    split; [symmetry; apply Nat.mod_unique with (q := n / T); assumption
           | symmetry; apply Nat.div_unique with (r := S (n mod T)); assumption].
  - right. assert (H0 : S (n mod T) = T) by lia. split; [exact H0|].
    assert (H1 : S n = T * S (n / T) + 0) by lia.
    split; [symmetry; apply Nat.mod_unique with (q := S (n / T)); [lia | exact H1]
           | symmetry; apply Nat.div_unique with (r := 0); [lia | exact H1]].
Qed.

Lemma nth_repeat_lt {A} (a d : A) : forall n i, i < n -> nth i (repeat a n) d = a.
Proof.
  induction n as [|n IH]; intros i H; [lia|]. destruct i; cbn [repeat nth]; [reflexivity|].
  apply IH. lia.
Qed.

Lemma nth_map_seq {A} (f : nat -> A) d : forall n i, i < n -> nth i (map f (seq 0 n)) d = f i.
Proof.
  intros n i H. rewrite (nth_indep _ d (f 0)) by (rewrite map_length, seq_length; exact H).
  rewrite map_nth, seq_nth by exact H. reflexivity.
Qed.

Section StreamInput.
Variable T : nat.

Lemma stream_input_nil i : stream_input T [] i = [].
Proof. reflexivity. Qed.

Lemma stream_input_snoc pre x i :
  stream_input T (pre ++ [x]) i =
  stream_input T pre i ++ (if length pre mod T =? i then x else []).
Proof.
  unfold stream_input. rewrite app_length. cbn [length]. rewrite Nat.add_1_r, seq_S, map_app, concat_app.
  cbn [map concat plus]. rewrite app_nil_r. f_equal.
  - f_equal. apply map_ext_in. intros j Hj. apply in_seq in Hj.
    rewrite app_nth1 by lia. reflexivity.
  - rewrite nth_middle. reflexivity.
Qed.

Lemma stream_input_app_ex i : forall rest pre, Forall okb rest ->
  exists Z, stream_input T (pre ++ rest) i = stream_input T pre i ++ Z /\ okb Z.
Proof.
  induction rest as [|y rest IH] using rev_ind; intros pre H.
  - exists []. rewrite !app_nil_r. split; [reflexivity | apply okb_nil].
  - apply Forall_app in H. destruct H as [Hr Hy]. inversion Hy as [|? ? Hy' _]; subst.
    destruct (IH pre Hr) as [Z [EZ HZ]].
    rewrite app_assoc, stream_input_snoc, EZ, <- app_assoc.
    eexists. split; [reflexivity|].
    apply okb_app; [exact HZ|]. destruct (_ =? _); [exact Hy' | apply okb_nil].
Qed.

Lemma stream_input_okb i chs : Forall okb chs -> okb (stream_input T chs i).
Proof.
  intro H. destruct (stream_input_app_ex i chs [] H) as [Z [EZ HZ]].
  cbn [app] in EZ. rewrite EZ, stream_input_nil. exact HZ.
Qed.

Lemma stream_input_length L i : 1 <= T -> i < T -> forall pre, Forall (fun y => length y = L) pre ->
  length (stream_input T pre i) =
  L * (length pre / T + (if i <? length pre mod T then 1 else 0)).
Proof.
  intros HT Hi. induction pre as [|x pre IH] using rev_ind; intros H.
  - rewrite stream_input_nil. cbn [length]. rewrite Nat.div_0_l, Nat.mod_0_l by lia.
    cbn [Nat.ltb Nat.leb]. lia.
  - apply Forall_app in H. destruct H as [Hp Hx]. inversion Hx as [|? ? Hx' _]; subst.
    rewrite stream_input_snoc, !app_length, (IH Hp). cbn [length]. rewrite Nat.add_1_r.
    set (n := length pre).
    destruct (succ_divmod T n ltac:(lia)) as [[S1 [S2 S3]] | [S1 [S2 S3]]]; rewrite S2, S3.
    + destruct (Nat.eqb_spec (n mod T) i) as [Ei|Ei].
      * destruct (Nat.ltb_spec i (n mod T)); [lia|].
        destruct (Nat.ltb_spec i (S (n mod T))); [|lia]. lia.
      * cbn [length].
        destruct (Nat.ltb_spec i (n mod T)); destruct (Nat.ltb_spec i (S (n mod T))); lia.
    + destruct (Nat.eqb_spec (n mod T) i) as [Ei|Ei].
      * destruct (Nat.ltb_spec i (n mod T)); [lia|]. cbn [Nat.ltb Nat.leb]. lia.
      * cbn [length]. destruct (Nat.ltb_spec i (n mod T)); [|lia]. cbn [Nat.ltb Nat.leb]. lia.
Qed.

End StreamInput.

Section Pipe.
Variables E D : list N -> list N.
Hypothesis E_block : forall b, block16 b -> block16 (E b).
Hypothesis D_block : forall b, block16 b -> block16 (D b).
Variable kind : mkind.
Variables T c : nat.
Hypothesis HT : 1 <= T.
Hypothesis Hc : 1 <= c.

Lemma runcry_block16 iv b : block16 iv -> block16 b ->
  block16 (fst (runcry E D kind iv b)) /\ block16 (snd (runcry E D kind iv b)).
Proof.
  intros Hiv Hb. destruct kind; cbn [runcry fst snd]; split;
    auto using block16_xorl, block16_ctrInc.
Qed.

Lemma run_block16 : forall bs iv, block16 iv -> blocks16 bs ->
  block16 (fst (run E D kind iv bs)) /\ blocks16 (snd (run E D kind iv bs)) /\
  length (snd (run E D kind iv bs)) = length bs.
Proof.
  induction bs as [|b r IH]; intros iv Hiv Hbs.
  - cbn [run fst snd]. split; [exact Hiv | split; [constructor | reflexivity]].
  - apply blocks16_cons in Hbs. destruct Hbs as [Hb Hr].
    destruct (runcry_block16 iv b Hiv Hb) as [H1 H2].
    destruct (IH _ H1 Hr) as [I1 [I2 I3]].
    rewrite fst_run_cons, snd_run_cons. split; [|split].
    + exact I1.
    + constructor; assumption.
    + cbn [length]. rewrite I3. reflexivity.
Qed.

(* output of one chunk: as long as the input *)
Lemma run_chunk iv x : block16 iv -> okb x ->
  block16 (fst (run E D kind iv (chunks 16 x))) /\
  length (concat (snd (run E D kind iv (chunks 16 x)))) = length x /\
  bytes (concat (snd (run E D kind iv (chunks 16 x)))).
Proof.
  intros Hiv [Hx1 Hx2].
  destruct (run_block16 (chunks 16 x) iv Hiv (blocks16_chunks x Hx1 Hx2)) as [H1 [H2 H3]].
  split; [exact H1|]. split.
  - rewrite length_concat_blocks16 by exact H2. rewrite H3. apply length_chunks16; assumption.
  - apply bytes_concat_blocks16. exact H2.
Qed.

(* the pipeline as a plain function of the chunk list *)
Fixpoint pc (ivs : list (list N)) (j : nat) (chs : list (list N)) : list N :=
  match chs with
  | [] => []
  | x :: r =>
      let ro := run E D kind (nth (j mod T) ivs []) (chunks 16 x) in
      concat (snd ro) ++ pc (FileModel.set_nth (j mod T) (fst ro) ivs) (S j) r
  end.

Lemma pipe_chunks_cons ivs j l r :
  pipe_chunks E D kind T c true ivs j (l :: r) =
  if ld_final l && (ld_total l =? 0) then Hang
  else let ro := run E D kind (nth (j mod T) ivs []) (blocks16_of (ld_data l)) in
       match export c true l (concat (snd ro)) with
       | Ok bytes => match pipe_chunks E D kind T c true (FileModel.set_nth (j mod T) (fst ro) ivs) (S j) r with
                     | Ok rest => Ok (bytes ++ rest)
                     | e => e
                     end
       | e => e
       end.
Proof.
  cbn [pipe_chunks]. cbv zeta.
  destruct (run E D kind (nth (j mod T) ivs []) (blocks16_of (ld_data l))) as [iv' out].
  reflexivity.
Qed.

Lemma nth_block16 ivs i : Forall block16 ivs -> i < length ivs -> block16 (nth i ivs []).
Proof. intros H Hi. rewrite Forall_forall in H. apply H, nth_In, Hi. Qed.

Lemma pipe_mkloads : forall chs, good_chs c chs -> forall ivs j,
  length ivs = T -> Forall block16 ivs ->
  pipe_chunks E D kind T c true ivs j (mkloads c chs) = Ok (pc ivs j chs) /\
  length (pc ivs j chs) = length (concat chs) /\ bytes (pc ivs j chs).
Proof.
  induction 1 as [x H1 H2 H3 H4 | x r H1 H2 H3 IH]; intros ivs j Hl Hivs.
  - (* the last chunk *)
    assert (Hi : j mod T < length ivs) by (rewrite Hl; apply Nat.mod_upper_bound; lia).
    destruct (run_chunk (nth (j mod T) ivs []) x (nth_block16 _ _ Hivs Hi) (conj H2 H4))
      as [R1 [R2 R3]].
    cbn [mkloads pc concat]. rewrite pipe_chunks_cons. cbn [ld_final ld_total ld_data].
    assert (Hq : length x = 16 * (length x / 16)).
    { apply Nat.div_exact in H2; [exact H2 | discriminate]. }
    destruct (Nat.eqb_spec (length x / 16) 0) as [E0|_]; [lia|].
    cbn [andb]. cbv zeta. unfold export, blocks16_of. cbn [ld_final ld_total].
    rewrite <- Hq. rewrite firstn_all2 by lia.
    cbn [pipe_chunks]. rewrite !app_nil_r. split; [reflexivity | split; assumption].
  - (* a full chunk followed by more *)
    assert (Hi : j mod T < length ivs) by (rewrite Hl; apply Nat.mod_upper_bound; lia).
    assert (Hx : okb x).
    { split; [|exact H2]. rewrite H1, Nat.mul_comm. apply Nat.mod_mul. discriminate. }
    destruct (run_chunk (nth (j mod T) ivs []) x (nth_block16 _ _ Hivs Hi) Hx) as [R1 [R2 R3]].
    rewrite mkloads_cons by (inversion H3; discriminate).
    rewrite pipe_chunks_cons. cbn [ld_final ld_total ld_data andb]. cbv zeta.
    unfold export, blocks16_of, sum. cbn [ld_final].
    rewrite firstn_all2 by lia.
    destruct (IH (FileModel.set_nth (j mod T) (fst (run E D kind (nth (j mod T) ivs []) (chunks 16 x))) ivs)
                 (S j)) as [I1 [I2 I3]].
    { rewrite set_nth_length. exact Hl. }
    { apply Forall_set_nth; assumption. }
    rewrite I1. cbn [pc concat]. cbv zeta. split; [reflexivity | split].
    + rewrite !app_length, R2, I2. reflexivity.
    + apply bytes_app. split; assumption.
Qed.

(* ------------------------------------------------------------------------------------------ *)
(* 4. striping                                                                                 *)
(* ------------------------------------------------------------------------------------------ *)

Section Stripe.
Variable iv16 : list N.
Hypothesis Hiv16 : block16 iv16.

Definition sout (chs : list (list N)) (i : nat) : list N :=
  concat (snd (run E D kind iv16 (chunks 16 (stream_input T chs i)))).
Definition reg (pre : list (list N)) (i : nat) : list N :=
  fst (run E D kind iv16 (chunks 16 (stream_input T pre i))).

Lemma reg_block16 pre i : Forall okb pre -> block16 (reg pre i).
Proof.
  intro H. destruct (stream_input_okb T i pre H) as [H1 H2].
  unfold reg. apply run_block16; [exact Hiv16 | apply blocks16_chunks; assumption].
Qed.

Lemma stripe_gen chs : good_chs c chs -> forall rest pre ivs,
  chs = pre ++ rest -> length ivs = T ->
  (forall i, i < T -> nth i ivs [] = reg pre i) ->
  pc ivs (length pre) rest =
  concat (map (fun j => firstn (length (nth j chs []))
                               (skipn (16 * c * (j / T)) (sout chs (j mod T))))
              (seq (length pre) (length rest))).
Proof.
  intros Hgood. pose proof (good_chs_okb c chs Hgood) as Hok.
  induction rest as [|x r IH]; intros pre ivs Hchs Hl Hivs; [reflexivity|].
  set (j := length pre). set (i := j mod T).
  assert (Hi : i < T) by (apply Nat.mod_upper_bound; lia).
  assert (Hok' : Forall okb pre /\ okb x /\ Forall okb r).
  { rewrite Hchs in Hok. apply Forall_app in Hok. destruct Hok as [A B].
    inversion B; subst. auto. }
  destruct Hok' as [Hokp [Hokx Hokr]].
  assert (Hpre : Forall (fun y => length y = 16 * c) pre).
  { rewrite Hchs in Hgood. exact (good_chs_pre c pre x r Hgood). }
  pose proof (stream_input_okb T i pre Hokp) as [HA1 HA2].
  pose proof (reg_block16 pre i Hokp) as Hreg.
  destruct (run_chunk (reg pre i) x Hreg Hokx) as [R1 [R2 R3]].
  cbn [pc length seq map concat]. cbv zeta. fold j. fold i. rewrite (Hivs i Hi). f_equal.
  - (* the piece of chunk j *)
    assert (Enth : nth j chs [] = x) by (rewrite Hchs; apply nth_middle).
    rewrite Enth.
    assert (Hchs' : chs = (pre ++ [x]) ++ r) by (rewrite <- app_assoc; exact Hchs).
    destruct (stream_input_app_ex T i r (pre ++ [x]) Hokr) as [Z [EZ [HZ1 HZ2]]].
    unfold sout. rewrite Hchs', EZ, stream_input_snoc. fold j. fold i. rewrite Nat.eqb_refl.
    destruct Hokx as [Hx1 Hx2].
    rewrite chunks16_app by (apply okb_app; split; assumption).
    rewrite chunks16_app by exact HA1.
    rewrite snd_run_app, snd_run_app. fold (reg pre i).
    rewrite !concat_app, <- app_assoc.
    rewrite skipn_app_exact.
    + rewrite firstn_app_exact by exact R2. reflexivity.
    + destruct (run_block16 (chunks 16 (stream_input T pre i)) iv16 Hiv16
                  (blocks16_chunks _ HA1 HA2)) as [_ [B2 B3]].
      rewrite length_concat_blocks16 by exact B2. rewrite B3.
      rewrite length_chunks16 by assumption.
      rewrite (stream_input_length T (16 * c) i HT Hi pre Hpre). fold j. fold i.
      rewrite Nat.ltb_irrefl. rewrite Nat.add_0_r. reflexivity.
  - (* the remaining chunks *)
    specialize (IH (pre ++ [x])
                   (FileModel.set_nth i (fst (run E D kind (reg pre i) (chunks 16 x))) ivs)).
    rewrite app_length in IH. cbn [length] in IH. rewrite Nat.add_1_r in IH. fold j in IH.
    apply IH.
    + rewrite <- app_assoc. exact Hchs.
    + rewrite set_nth_length. exact Hl.
    + intros i' Hi'. unfold reg at 2. rewrite stream_input_snoc. fold j. fold i.
      destruct (Nat.eqb_spec i i') as [<-|Hne].
      * rewrite nth_set_nth_eq by (rewrite Hl; exact Hi).
        rewrite chunks16_app by exact HA1. rewrite fst_run_app. reflexivity.
      * rewrite nth_set_nth_neq by exact Hne. rewrite app_nil_r. apply Hivs. exact Hi'.
Qed.

Lemma stripe chs : good_chs c chs ->
  pc (repeat iv16 T) 0 chs =
  concat (map (fun j => firstn (length (nth j chs []))
                               (skipn (16 * c * (j / T)) (sout chs (j mod T))))
              (seq 0 (length chs))).
Proof.
  intro H. apply (stripe_gen chs H chs [] (repeat iv16 T)).
  - reflexivity.
  - apply repeat_length.
  - intros i Hi. rewrite nth_repeat_lt by exact Hi. reflexivity.
Qed.
End Stripe.
End Pipe.

(* ------------------------------------------------------------------------------------------ *)
(* 5. specification side, header, tag, layout                                                  *)
(* ------------------------------------------------------------------------------------------ *)

Lemma aes_enc_block k b : block16 k -> block16 b -> block16 (aes_enc k b).
Proof. intros Hk Hb. exact (proj1 (C09_outputs_are_blocks_proof k b Hk Hb)). Qed.
Lemma aes_dec_block k b : block16 k -> block16 b -> block16 (aes_dec k b).
Proof. intros Hk Hb. exact (proj2 (C09_outputs_are_blocks_proof k b Hk Hb)). Qed.

Lemma stream_output_run T key cm iv16 kind chs i :
  (cm <= 4)%N -> block16 key -> block16 iv16 -> create true cm = Some kind -> Forall okb chs ->
  stream_output T key cm iv16 chs i = Some (sout (aes_enc key) (aes_dec key) kind T iv16 chs i).
Proof.
  intros Hcm Hk Hiv Hkind Hok.
  destruct (stream_input_okb T i chs Hok) as [H1 H2].
  destruct (C10_encryptors_are_sp80038a_proof cm key iv16 (chunks 16 (stream_input T chs i))
              Hcm Hk Hiv (blocks16_chunks _ H1 H2)) as [kind' [Hk' Hrun]].
  rewrite Hkind in Hk'. injection Hk' as <-.
  unfold stream_output, sout. rewrite <- Hrun. reflexivity.
Qed.

Lemma spec_body_pc c T key cm iv16 kind padded :
  1 <= T -> 1 <= c -> (cm <= 4)%N -> block16 key -> block16 iv16 -> create true cm = Some kind ->
  good_chs c (chunks (16 * c) padded) ->
  spec_body c T key cm iv16 padded =
  Some (pc (aes_enc key) (aes_dec key) kind T (repeat iv16 T) 0 (chunks (16 * c) padded)).
Proof.
  intros HT Hc Hcm Hk Hiv Hkind Hgood. unfold spec_body. cbv zeta.
  set (chs := chunks (16 * c) padded) in *.
  assert (Hok : Forall okb chs) by (apply (good_chs_okb c); exact Hgood).
  rewrite (map_ext (stream_output T key cm iv16 chs)
                   (fun i => Some (sout (aes_enc key) (aes_dec key) kind T iv16 chs i)))
    by (intro i; apply stream_output_run; assumption).
  set (outs := map _ (seq 0 T)).
  assert (Hall : forallb (fun o : option (list N) => match o with Some _ => true | None => false end) outs = true).
  { apply forallb_forall. intros o Ho. unfold outs in Ho. apply in_map_iff in Ho.
    destruct Ho as [i [<- _]]. reflexivity. }
  rewrite Hall. f_equal.
  rewrite (stripe (aes_enc key) (aes_dec key) (fun b => aes_enc_block key b Hk)
             (fun b => aes_dec_block key b Hk) kind T c HT Hc iv16 Hiv chs Hgood).
  f_equal. apply map_ext. intro j. unfold outs.
  rewrite nth_map_seq by (apply Nat.mod_upper_bound; lia). reflexivity.
Qed.

Lemma magic_eq : magic_bytes = spec_magic.
Proof. vm_compute. reflexivity. Qed.

Lemma zeros_split a b : a <= b -> zeros b = zeros a ++ zeros (b - a).
Proof. intro H. unfold zeros. rewrite <- repeat_app. f_equal. lia. Qed.

Lemma hlen_le hm : hlen hm <= 38.
Proof. unfold hlen. destruct hm as [|[p|p|]]; lia. Qed.

Lemma patch_nil_0 w : patch [] 0 w = w.
Proof.
  unfold patch. cbn [length Nat.sub zeros repeat app firstn Nat.add].
  rewrite skipn_nil, app_nil_r. reflexivity.
Qed.

Lemma patch_mid a old rest w off : off = length a -> length old = length w ->
  patch (a ++ old ++ rest) off w = a ++ w ++ rest.
Proof.
  intros -> Hl. unfold patch.
  replace (length a - length (a ++ old ++ rest)) with 0 by (rewrite app_length; lia).
  cbn [zeros repeat]. rewrite app_nil_r.
  rewrite firstn_app_exact by reflexivity.
  rewrite (app_assoc a old rest).
  rewrite skipn_app_exact by (rewrite app_length; lia). reflexivity.
Qed.

(* arithmetic of the final layout, on abstract pieces *)
Section Layout.
Variables A tag Zr ivs body : list N.
Variable h : nat.
Hypothesis HA : length A = 10.
Hypothesis Htag : length tag = h.
Hypothesis HZr : length Zr = 38 - h.
Hypothesis Hh : h <= 38.
Let F := A ++ tag ++ Zr ++ ivs ++ body.

Lemma layout_tag : firstn h (skipn 10 F) = tag.
Proof. unfold F. rewrite skipn_app_exact by exact HA. apply firstn_app_exact. exact Htag. Qed.

Lemma layout_auth : skipn 48 F = ivs ++ body.
Proof.
  unfold F. rewrite (app_assoc tag), (app_assoc A).
  apply skipn_app_exact. rewrite !app_length. lia.
Qed.

Lemma layout_zero : skipn (10 + h) (firstn 48 F) = Zr.
Proof.
  unfold F. rewrite (app_assoc tag), (app_assoc A).
  rewrite firstn_app_exact by (rewrite !app_length; lia).
  rewrite (app_assoc A). apply skipn_app_exact. rewrite app_length. lia.
Qed.

Lemma layout_length : length F = 48 + length ivs + length body.
Proof. unfold F. rewrite !app_length. lia. Qed.
End Layout.

(* the explicit description of everything encryption computes *)
Lemma enc_explicit : forall c hbuf T P key seed cm hm,
  enc_params c hbuf T P key seed cm hm ->
  exists ivs body tag,
    ivs = spec_ivs seed T /\ length ivs = 20 * T /\
    spec_body c T key cm (firstn 16 ivs) (pkcs7 P) = Some body /\
    length body = 16 * (length P / 16 + 1) /\
    tag = hmac_spec (hash_spec hm) key (ivs ++ body) /\ length tag = hlen hm /\
    enc_writes c hbuf T P key cm hm seed =
      Ok [(0, (spec_magic ++ [cm; hm]) ++ zeros (hlen hm) ++ zeros (38 - hlen hm) ++ ivs ++ body);
          (10, tag)].
Proof.
  intros c hbuf T P key seed cm hm [Hc Hhbuf HT HP Hkey Hseed Hcm Hhm HsP HsT HsS].
  apply bytesb_bytes in HP.
  set (ivs := iv_chain seed T).
  assert (Eivs : ivs = spec_ivs seed T) by (apply iv_chain_spec; assumption).
  assert (Livs : length ivs = 20 * T) by (apply iv_chain_length; exact HT).
  assert (Bivs : bytes ivs) by (apply iv_chain_bytes; exact HT).
  assert (Hiv16 : block16 (firstn 16 ivs)) by (apply iv16_block; exact HT).
  destruct (C10_encryptors_are_sp80038a_proof cm key (firstn 16 ivs) [] Hcm Hkey Hiv16
              (Forall_nil _)) as [kind [Hkind _]].
  destruct (loads_of_enc c Hc P HP) as [L1 L2].
  set (chs := chunks (16 * c) (pkcs7 P)) in *.
  assert (Hregs : Forall block16 (repeat (firstn 16 ivs) T)).
  { apply Forall_forall. intros x Hx. apply repeat_spec in Hx. rewrite Hx. exact Hiv16. }
  destruct (pipe_mkloads (aes_enc key) (aes_dec key) (fun b => aes_enc_block key b Hkey)
              (fun b => aes_dec_block key b Hkey) kind T c HT Hc chs L2
              (repeat (firstn 16 ivs) T) 0 (repeat_length _ _) Hregs)
    as [Q1 [Q2 Q3]].
  set (body := pc (aes_enc key) (aes_dec key) kind T (repeat (firstn 16 ivs) T) 0 chs) in *.
  assert (Lbody : length body = 16 * (length P / 16 + 1)).
  { rewrite Q2. unfold chs. rewrite concat_chunks by lia. apply pkcs7_length. }
  assert (Hmsg : bytesb (ivs ++ body) = true).
  { apply bytesb_bytes, bytes_app. split; assumption. }
  assert (Hsz : (8 * N.of_nat (128 + length (ivs ++ body)) < 2 ^ 64)%N).
  { rewrite app_length, Livs, Lbody, pow64.
    change (2 ^ 56)%N with 72057594037927936%N in HsP.
    pose proof (Nat.mul_div_le (length P) 16 ltac:(discriminate)) as Hd. lia. }
  pose proof (C08_tag_is_rfc2104_hmac_proof hbuf hm key (ivs ++ body) Hhbuf Hhm Hkey Hmsg Hsz) as Htag.
  exists ivs, body, (hmac_spec (hash_spec hm) key (ivs ++ body)).
  split; [exact Eivs|]. split; [exact Livs|].
  split; [apply spec_body_pc; assumption|].
  split; [exact Lbody|]. split; [reflexivity|].
  split; [exact (C08_tag_length_proof hbuf hm key (ivs ++ body) _ Htag)|].
  unfold enc_writes. cbv zeta. fold ivs. rewrite Hkind.
  unfold pipe_seq. rewrite L1.
  change (aes_enc_with (genall key)) with (aes_enc key).
  change (aes_dec_with (genall key)) with (aes_dec key).
  rewrite Q1.
  assert (Ehdr : file_header cm hm ivs T ++ body =
                 (spec_magic ++ [cm; hm] ++ zeros 38) ++ ivs ++ body).
  { unfold file_header. rewrite magic_eq. change (N.to_nat Layout.PADDING) with 38.
    rewrite firstn_all2 by lia. rewrite <- !app_assoc. reflexivity. }
  rewrite Ehdr. change iv_mark with 48. change hmac_mark with 10.
  rewrite (skipn_app_exact (spec_magic ++ [cm; hm] ++ zeros 38)) by reflexivity.
  rewrite Htag.
  rewrite (zeros_split (hlen hm) 38 (hlen_le hm)).
  rewrite <- !app_assoc. reflexivity.
Qed.

(* ------------------------------------------------------------------------------------------ *)
(* 6. the required lemmas                                                                      *)
(* ------------------------------------------------------------------------------------------ *)

Lemma Ok_inj {A} (a b : A) : Ok a = Ok b -> a = b.
Proof. intro H. injection H as H. exact H. Qed.

Lemma enc_file_explicit : forall c hbuf T P key seed cm hm,
  enc_params c hbuf T P key seed cm hm ->
  exists ivs body tag,
    ivs = spec_ivs seed T /\ length ivs = 20 * T /\
    spec_body c T key cm (firstn 16 ivs) (pkcs7 P) = Some body /\
    length body = 16 * (length P / 16 + 1) /\
    tag = hmac_spec (hash_spec hm) key (ivs ++ body) /\ length tag = hlen hm /\
    enc c hbuf T P key cm hm seed =
      Ok ((spec_magic ++ [cm; hm]) ++ tag ++ zeros (38 - hlen hm) ++ ivs ++ body).
Proof.
  intros c hbuf T P key seed cm hm Hp.
  destruct (enc_explicit c hbuf T P key seed cm hm Hp)
    as [ivs [body [tag [H1 [H2 [H3 [H4 [H5 [H6 H7]]]]]]]]].
  exists ivs, body, tag. repeat (split; [assumption|]).
  unfold enc. rewrite H7. unfold apply_writes. cbn [fold_left fst snd].
  rewrite patch_nil_0.
  rewrite patch_mid; [reflexivity | reflexivity |].
  rewrite H6. apply zeros_length.
Qed.

Lemma C02_encrypted_file_is_documented_format_proof : forall c hbuf T P key seed cm hm,
  enc_params c hbuf T P key seed cm hm ->
  exists F, enc c hbuf T P key cm hm seed = Ok F /\
            wenc_spec c T P key cm hm seed = Some F /\
            length F = wenc_length T (length P).
Proof.
  intros c hbuf T P key seed cm hm Hp.
  destruct (enc_file_explicit c hbuf T P key seed cm hm Hp)
    as [ivs [body [tag [H1 [H2 [H3 [H4 [H5 [H6 H7]]]]]]]]].
  eexists. split; [exact H7|]. split.
  - unfold wenc_spec. cbv zeta. rewrite <- H1, H3, <- H5.
    rewrite <- !app_assoc. reflexivity.
  - rewrite (layout_length _ _ _ _ _ (hlen hm)); try assumption;
      [| reflexivity | apply zeros_length | apply hlen_le].
    unfold wenc_length. lia.
Qed.

Lemma C02_write_sequence_proof : forall c hbuf T P key seed cm hm,
  enc_params c hbuf T P key seed cm hm ->
  exists stream tag, enc_writes c hbuf T P key cm hm seed = Ok [(0%nat, stream); (10%nat, tag)] /\
    length tag = hlen hm /\ length stream = wenc_length T (length P) /\
    firstn (hlen hm) (skipn 10 stream) = zeros (hlen hm).
Proof.
  intros c hbuf T P key seed cm hm Hp.
  destruct (enc_explicit c hbuf T P key seed cm hm Hp)
    as [ivs [body [tag [H1 [H2 [H3 [H4 [H5 [H6 H7]]]]]]]]].
  do 2 eexists. split; [exact H7|]. split; [exact H6|].
  pose proof (hlen_le hm) as Hh. split.
  - rewrite (layout_length _ _ _ _ _ (hlen hm)); try assumption;
      [| reflexivity | apply zeros_length | apply zeros_length].
    unfold wenc_length. lia.
  - apply (layout_tag _ _ _ _ _ (hlen hm)); [reflexivity | apply zeros_length].
Qed.

Lemma C08_file_tag_is_hmac_of_body_proof : forall c hbuf T P key seed cm hm F,
  enc_params c hbuf T P key seed cm hm ->
  enc c hbuf T P key cm hm seed = Ok F ->
  firstn (hlen hm) (skipn 10 F) = hmac_spec (hash_spec hm) key (skipn 48 F).
Proof.
  intros c hbuf T P key seed cm hm F Hp HF.
  destruct (enc_file_explicit c hbuf T P key seed cm hm Hp)
    as [ivs [body [tag [H1 [H2 [H3 [H4 [H5 [H6 H7]]]]]]]]].
  rewrite H7 in HF. apply Ok_inj in HF. subst F.
  pose proof (hlen_le hm) as Hh.
  rewrite (layout_tag _ _ _ _ _ (hlen hm)) by (try assumption; reflexivity).
  rewrite (layout_auth _ _ _ _ _ (hlen hm)) by
    (try assumption; try reflexivity; apply zeros_length).
  exact H5.
Qed.

Lemma C08_tag_field_zero_filled_proof : forall c hbuf T P key seed cm hm F,
  enc_params c hbuf T P key seed cm hm ->
  enc c hbuf T P key cm hm seed = Ok F ->
  skipn (10 + hlen hm) (firstn 48 F) = zeros (38 - hlen hm).
Proof.
  intros c hbuf T P key seed cm hm F Hp HF.
  destruct (enc_file_explicit c hbuf T P key seed cm hm Hp)
    as [ivs [body [tag [H1 [H2 [H3 [H4 [H5 [H6 H7]]]]]]]]].
  rewrite H7 in HF. apply Ok_inj in HF. subst F.
  pose proof (hlen_le hm) as Hh.
  apply (layout_zero _ _ _ _ _ (hlen hm)); try assumption; try reflexivity. apply zeros_length.
Qed.

(* non-vacuity: the hypotheses hold on a concrete non-trivial instance (40-byte plaintext,
   two-block chunks, three workers, CBC, SHA-256), on which the conclusions are also computed *)
Definition ex_P : list N := map N.of_nat (seq 1 40).
Definition ex_key16 : list N := map N.of_nat (seq 7 16).
Definition ex_seed : list N := [1; 2; 3]%N.

Example enc_params_nonvacuous : enc_params 2 1 3 ex_P ex_key16 ex_seed 1%N 2%N.
Proof.
  constructor; try (vm_compute; reflexivity); try (vm_compute; discriminate);
    try (repeat constructor).
Qed.

Example C02_nonvacuous :
  exists F, enc 2 1 3 ex_P ex_key16 1%N 2%N ex_seed = Ok F /\
            wenc_spec 2 3 ex_P ex_key16 1%N 2%N ex_seed = Some F /\
            length F = wenc_length 3 (length ex_P) /\
            firstn (hlen 2%N) (skipn 10 F) = hmac_spec (hash_spec 2%N) ex_key16 (skipn 48 F) /\
            skipn (10 + hlen 2%N) (firstn 48 F) = zeros (38 - hlen 2%N).
Proof.
  destruct (C02_encrypted_file_is_documented_format_proof _ _ _ _ _ _ _ _ enc_params_nonvacuous)
    as [F [H1 [H2 H3]]].
  exists F. split; [exact H1|]. split; [exact H2|]. split; [exact H3|]. split.
  - exact (C08_file_tag_is_hmac_of_body_proof _ _ _ _ _ _ _ _ F enc_params_nonvacuous H1).
  - exact (C08_tag_field_zero_filled_proof _ _ _ _ _ _ _ _ F enc_params_nonvacuous H1).
Qed.
