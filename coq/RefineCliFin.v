(* get_v_opt after the loop: the whole tail against CliModel.post_checks *)
From Coq Require Import ZArith NArith List String Bool Lia.
From Wencry Require Import Bytes Base64Spec CliModel MiniC MiniCRun MiniCLemmas SrcRun SrcRun3 CliConc RefineB64Lib RefineCliSim RefineCliLib RefineCliTac RefineCliKey RefineCliTok RefineCliTokK RefineCliLoop RefineCliPost.
From Wencry.Gen Require Src_cli Src_base64.
Import ListNotations.
Local Open Scope string_scope.
Local Open Scope list_scope.
Local Open Scope Z_scope.
Local Arguments heap_name : simpl never.

Ltac xs H := eapply x_seq; [eapply exec_mono; [exact H|lia]|].
Ltac xr H := eapply x_seq_ret; eapply exec_mono; [exact H|lia].

Lemma enc_ok : forall p lng dl m fpv outv keyv fr extra D gp fdone oa pe,
  Inv p lng dl m fpv outv keyv fr -> mode p = 101 ->
  let s := mk m (gl extra) (gfiles D gp (fdone ++ [b2z dl]) (List.length fdone)) (pps oa fpv outv keyv pe) fr in
  match post_checks p with
  | None => exists s', exec cli_prog [] 295 enc_blk s = Ok (Returned (Some VNull), s')
  | Some p' => exists m' fpv' outv' keyv' fr' extra' fs',
      exec cli_prog [] 295 enc_blk s = Ok (Normal, mk m' (gl extra') fs' (pps oa fpv' outv' keyv' pe) fr') /\
      Inv p' lng dl m' fpv' outv' keyv' fr'
  end.
Proof.
  intros p lng dl m fpv outv keyv fr extra D gp fdone oa pe I Hmode. cbv zeta.
  set (fs := gfiles D gp (fdone ++ [b2z dl]) (List.length fdone)).
  unfold post_checks. rewrite Hmode. cbn [Z.eqb Pos.eqb].
  change (if ctype p =? -1 then Some 0 else if (0 <=? ctype p) && (ctype p <? 5) then Some (ctype p) else None) with (ct_opt (ctype p) 5).
  change (if htype p =? -1 then Some 0 else if (0 <=? htype p) && (htype p <? 3) then Some (htype p) else None) with (ct_opt (htype p) 3).
  assert (Hshape : enc_blk = SSeq (enc_b 0) (SSeq (enc_b 1) (SSeq (enc_b 2) (SSeq (enc_b 3) (SSeq (enc_b 4) enc_last))))) by reflexivity.
  rewrite Hshape.
  pose proof (b1_inv p lng dl m fpv outv keyv fr extra fs oa pe I) as B1.
  destruct (ct_opt (ctype p) 5) as [c'|].
  2:{ destruct B1 as (s' & B1). exists s'. xr B1. }
  destruct B1 as (m1 & extra1 & B1 & I1).
  pose proof (b2_inv _ lng dl m1 fpv outv keyv fr extra1 fs oa pe I1) as B2. cbn [set_ct htype] in B2.
  destruct (ct_opt (htype p) 3) as [h'|].
  2:{ destruct B2 as (s' & B2). exists s'. xs B1. xr B2. }
  destruct B2 as (m2 & extra2 & B2 & I2).
  destruct (b3_inv _ lng dl m2 fpv outv keyv fr extra2 fs oa pe I2) as (m3 & keyv3 & fr3 & extra3 & B3 & I3).
  cbn [set_ht set_ct key] in I3.
  pose proof (b4_inv _ lng dl m3 fpv outv keyv3 fr3 extra3 fs oa pe I3) as B4. cbn [set_key set_ht set_ct fp] in B4.
  destruct (fp p) as [f|] eqn:EF; cbn [is_some] in B4.
  2:{ eexists. xs B1. xs B2. xs B3. xr B4. }
  pose proof (b5_inv _ lng dl m3 fpv outv keyv3 fr3 extra3 D gp fdone oa pe I3) as B5. cbv zeta in B5. cbn [set_key set_ht set_ct out dflt_ok] in B5. fold fs in B5.
  destruct (out p || dflt_ok p).
  2:{ destruct B5 as (s' & B5). exists s'. xs B1. xs B2. xs B3. xs B4. xr B5. }
  destruct B5 as (outv5 & fs5 & extra5 & B5 & I5).
  destruct (last_inv _ lng dl m3 fpv outv5 keyv3 fr3 extra5 fs5 oa pe I5) as (m6 & B6 & I6).
  exists m6, fpv, outv5, keyv3, fr3, extra5, fs5. split.
  - xs B1. xs B2. xs B3. xs B4. xs B5. eapply exec_mono; [exact B6|lia].
  - unfold set_out, set_key, set_ht, set_ct in I6. cbn [mode ctype htype fp out key no_echo dflt_ok] in I6.
    rewrite Hmode, EF in I6. exact I6.
Qed.

Lemma dv_ok : forall p lng dl m fpv outv keyv fr extra fs oa pe,
  Inv p lng dl m fpv outv keyv fr -> mode p = 100 \/ mode p = 118 ->
  let s := mk m (gl extra) fs (pps oa fpv outv keyv pe) fr in
  match post_checks p with
  | None => exists s', exec cli_prog [] 60 dv_blk s = Ok (Returned (Some VNull), s')
  | Some p' => exec cli_prog [] 60 dv_blk s = Ok (Normal, s) /\ p' = p
  end.
Proof.
  intros p lng dl m fpv outv keyv fr extra fs oa pe I Hmode. cbv zeta.
  pose proof (i_res _ _ _ _ _ _ _ _ I) as Hres.
  pose proof (i_fp _ _ _ _ _ _ _ _ I) as HF. pose proof (i_out _ _ _ _ _ _ _ _ I) as HO. pose proof (i_key _ _ _ _ _ _ _ _ I) as HK.
  pose proof HF as HF0. pose proof HO as HO0.
  unfold vrel, krel in HF, HO, HK.
  unfold dv_blk, post_if, gv_post. cbn [seq_head seq_drop gv_body f_body Src_cli.f_get_v_opt_2].
  unfold post_checks.
  destruct Hmode as [Hm|Hm]; rewrite Hm in *; cbn [Z.eqb Pos.eqb orb andb].
  - destruct (fp p) as [f|]; cbn [is_some] in HF; [destruct HF as (nf & ->)|subst fpv].
    2:{ eexists. unfold mk, gl. xrun fail. { apply closeFiles_call; [reflexivity | lia | first [exact Logic.I | exact (vrel_pv _ _ HF0) ] | first [exact Logic.I | exact (vrel_pv _ _ HO0)]]. } all: xrun fail. all: xrun fail. }
    destruct (key p) as [k|]; [destruct HK as (j & -> & _)|subst keyv].
    2:{ eexists. unfold mk, gl. xrun fail. { apply closeFiles_call; [reflexivity | lia | first [exact Logic.I | exact (vrel_pv _ _ HF0) ] | first [exact Logic.I | exact (vrel_pv _ _ HO0)]]. } all: xrun fail. all: xrun fail. }
    destruct (out p); cbn [negb]; [destruct HO as (no & ->)|subst outv].
    + split; [|reflexivity]. unfold mk, gl, pps. xrun ltac:(first [rewrite Hres | rewrite res_load_mode]).
    + eexists. unfold mk, gl. xrun ltac:(first [rewrite Hres | rewrite res_load_mode]). { apply closeFiles_call; [reflexivity | lia | first [exact Logic.I | exact (vrel_pv _ _ HF0) ] | first [exact Logic.I | exact (vrel_pv _ _ HO0)]]. } all: xrun fail. all: xrun fail.
  - destruct (fp p) as [f|]; cbn [is_some] in HF; [destruct HF as (nf & ->)|subst fpv].
    2:{ eexists. unfold mk, gl. xrun fail. { apply closeFiles_call; [reflexivity | lia | first [exact Logic.I | exact (vrel_pv _ _ HF0) ] | first [exact Logic.I | exact (vrel_pv _ _ HO0)]]. } all: xrun fail. all: xrun fail. }
    destruct (key p) as [k|]; [destruct HK as (j & -> & _)|subst keyv].
    2:{ eexists. unfold mk, gl. xrun fail. { apply closeFiles_call; [reflexivity | lia | first [exact Logic.I | exact (vrel_pv _ _ HF0) ] | first [exact Logic.I | exact (vrel_pv _ _ HO0)]]. } all: xrun fail. all: xrun fail. }
    split; [|reflexivity]. unfold mk, gl, pps. xrun ltac:(first [rewrite Hres | rewrite res_load_mode]).
Qed.

Lemma post_ok : forall p lng dl m fpv outv keyv fr extra D gp fdone oa pe,
  Inv p lng dl m fpv outv keyv fr ->
  let s := mk m (gl extra) (gfiles D gp (fdone ++ [b2z dl]) (List.length fdone)) (pps oa fpv outv keyv pe) fr in
  match post_checks p with
  | None => exists s', exec cli_prog [] 300 gv_post s = Ok (Returned (Some VNull), s')
  | Some p' => exists m' fpv' outv' keyv' fr' l' fs',
      exec cli_prog [] 300 gv_post s = Ok (Returned (Some (VPtr "#0" 0)), mk m' l' fs' (pps oa fpv' outv' keyv' pe) fr') /\
      Inv p' lng dl m' fpv' outv' keyv' fr'
  end.
Proof.
  intros p lng dl m fpv outv keyv fr extra D gp fdone oa pe I. cbv zeta.
  set (fs := gfiles D gp (fdone ++ [b2z dl]) (List.length fdone)).
  pose proof (i_res _ _ _ _ _ _ _ _ I) as Hres. pose proof (i_mode _ _ _ _ _ _ _ _ I) as Hmd.
  pose proof (wrap_I8_small (mode p) ltac:(lia)) as W8. pose proof (wrap_I32_small (mode p) ltac:(lia)) as W32.
  assert (Hshape : gv_post = SSeq post_if (SReturn (Some (EVar "res")))) by reflexivity.
  assert (Hpi : exists c1 a1 c2 c3, post_if = SIf c1 a1 (SIf c2 enc_blk (SIf c3 dv_blk SSkip)) /\
            (forall s0 : state, mget (mem s0) "#0" = Some (res_obj (mode p) (ctype p mod 256) (htype p mod 256) (b2z (no_echo p))) ->
               lget (loc s0) "res" = Some (VPtr "#0" 0) ->
               eval s0 c1 = Ok (VInt (if mode p =? 117 then 1 else 0)) /\
               eval s0 c2 = Ok (VInt (if mode p =? 101 then 1 else 0)) /\
               eval s0 c3 = Ok (VInt (if (mode p =? 100) || (mode p =? 118) then 1 else 0))) /\
            a1 = SSeq (SCall None "closeFiles/1" None [EVar "res"]) (SSeq (SDelete (EVar "res")) (SReturn (Some ENull)))).
  { do 4 eexists. split; [reflexivity|]. split; [|reflexivity].
    intros s0 Hm0 Hl0. repeat split.
    - cbn [eval]. rewrite Hl0. cbn [bind as_int]. rewrite Hm0. cbn [bind]. change (0 + 288 * 1) with 288. rewrite res_load_mode.
      cbn [bind as_int eval_bin]. rewrite W8, W32. reflexivity.
    - cbn [eval]. rewrite Hl0. cbn [bind as_int]. rewrite Hm0. cbn [bind]. change (0 + 288 * 1) with 288. rewrite res_load_mode.
      cbn [bind as_int eval_bin]. rewrite W8, W32. reflexivity.
    - cbn [eval]. rewrite Hl0. cbn [bind as_int]. rewrite Hm0. cbn [bind]. change (0 + 288 * 1) with 288. rewrite res_load_mode.
      cbn [bind as_int eval_bin]. rewrite W8, W32. change (wrap I32 100) with 100. change (wrap I32 118) with 118.
      destruct (mode p =? 100); cbn [Z.eqb bind as_int orb]; [reflexivity|].
      destruct (mode p =? 118); reflexivity. }
  destruct Hpi as (c1 & a1 & c2 & c3 & Hpi & Hev & Ha1).
  rewrite Hshape, Hpi.
  assert (Hev0 := Hev (mk m (gl extra) fs (pps oa fpv outv keyv pe) fr) Hres eq_refl). destruct Hev0 as (E1 & E2 & E3).
  unfold post_checks.
  destruct (mode p =? 117) eqn:M117.
  { eexists. eapply x_seq_ret. eapply x_if_true; [exact E1|discriminate|]. subst a1. unfold mk, gl. xrun fail.
    { apply closeFiles_call; [reflexivity | lia | exact (vrel_pv _ _ (i_fp _ _ _ _ _ _ _ _ I)) | exact (vrel_pv _ _ (i_out _ _ _ _ _ _ _ _ I))]. }
    all: xrun fail. all: xrun fail. }
  destruct (mode p =? 101) eqn:M101.
  { pose proof M101 as M101'. apply Z.eqb_eq in M101'.
    pose proof (enc_ok p lng dl m fpv outv keyv fr extra D gp fdone oa pe I M101') as HE. cbv zeta in HE. fold fs in HE.
    unfold post_checks in HE. rewrite M117, M101 in HE.
    match type of HE with match ?X with _ => _ end => destruct X as [p'|] end.
    - destruct HE as (m' & fpv' & outv' & keyv' & fr' & extra' & fs' & HE & I').
      exists m', fpv', outv', keyv', fr'. do 2 eexists. split; [|exact I'].
      eapply x_seq.
      { eapply x_if_false; [exact E1|]. eapply x_if_true; [exact E2|discriminate|]. eapply exec_mono; [exact HE|lia]. }
      unfold mk, gl. xrun fail.
    - destruct HE as (s' & HE). exists s'. eapply x_seq_ret.
      eapply x_if_false; [exact E1|]. eapply x_if_true; [exact E2|discriminate|]. eapply exec_mono; [exact HE|lia]. }
  destruct ((mode p =? 100) || (mode p =? 118)) eqn:MDV.
  { assert (Hm : mode p = 100 \/ mode p = 118) by (apply orb_true_iff in MDV; destruct MDV as [H|H]; apply Z.eqb_eq in H; auto).
    pose proof (dv_ok p lng dl m fpv outv keyv fr extra fs oa pe I Hm) as HD. cbv zeta in HD.
    unfold post_checks in HD. rewrite M117, M101, MDV in HD.
    match type of HD with match ?X with _ => _ end => destruct X as [p'|] end.
    - destruct HD as (HD & ->). exists m, fpv, outv, keyv, fr. do 2 eexists. split; [|exact I].
      eapply x_seq.
      { eapply x_if_false; [exact E1|]. eapply x_if_false; [exact E2|]. eapply x_if_true; [exact E3|discriminate|]. eapply exec_mono; [exact HD|lia]. }
      unfold mk, gl. xrun fail.
    - destruct HD as (s' & HD). exists s'. eapply x_seq_ret.
      eapply x_if_false; [exact E1|]. eapply x_if_false; [exact E2|]. eapply x_if_true; [exact E3|discriminate|]. eapply exec_mono; [exact HD|lia]. }
  exists m, fpv, outv, keyv, fr. do 2 eexists. split; [|exact I].
  eapply x_seq.
  { eapply x_if_false; [exact E1|]. eapply x_if_false; [exact E2|]. eapply x_if_false; [exact E3|]. reflexivity. }
  unfold mk, gl. xrun fail.
Qed.
