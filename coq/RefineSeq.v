(* The two semantics of MiniC agree on code that does not synchronise: whatever [MiniC.exec] computes for a statement, the thread
   machine of MiniCConc computes too, running that statement as one thread without ever stopping at a scheduling point.

   Main lemma [sim] (arbitrary continuation, arbitrary thread status, all three outcomes); corollaries
   [seq_machine_agrees_gen] (any thread id, any other threads, any held mutexes, any event prefix),
   [seq_machine_agrees_proof] (the statement of Properties_SrcSeq) and, in RefineSeqVerify.v, the instance for verification.

   Two findings recorded here:
   - the hypothesis "no synchronisation primitive" is implied by the success of [exec] ([RefineSeqA.sync_prim_no_exec]:
     [do_prim] has no rule for lock, unlock, cv_wait, notify_all, join, wv_yield, wv_ev, spawn:<f>); [sim] therefore only asks
     for [wf_ok], the other half of [seq_ok];
   - the two semantics DISAGREE on a [break] that is not inside a loop of its function body ([stray_break_exec] /
     [stray_break_machine] below): exec treats it as a void return, the machine reports undefined behaviour.  No C++ function
     has such a body (the translated program satisfies [brk_ok] everywhere, see [whole_prog_brk_ok] in RefineSeqVerify.v);
     [seq_ok] / [wf_ok] check it for the functions reachable from the statement. *)
From Coq Require Import ZArith NArith List String Bool Lia.
From Wencry Require Import MiniC MiniCLemmas MiniCConc RefineSeqDefs RefineSeqA RefineSeqB.
Import ListNotations.
Local Open Scope Z_scope.

(* ---------------- the call-graph check, unfolded ---------------- *)
Section WF.
Variable sync : bool.
Variable prog : program.

Definition fn_ok (sf : nat) (fn : func) : bool := brk_ok false (f_body fn) && reach_ok sync prog sf (f_body fn).

Lemma reach_ok_S : forall sf st,
  reach_ok sync prog (S sf) st =
  calls_ok sync
    (fun fname => match lget prog fname with Some fn => fn_ok sf fn | None => true end)
    (fun m => forallb (fun nf : string * func => if has_suffix ("::" ++ m) (fst nf) then fn_ok sf (snd nf) else true) prog)
    st.
Proof. reflexivity. Qed.

Lemma reach_seq : forall sf a b, reach_ok sync prog sf (SSeq a b) = true -> reach_ok sync prog sf a = true /\ reach_ok sync prog sf b = true.
Proof. intros [|sf] a b H; [discriminate H|]. rewrite reach_ok_S in *. cbn [calls_ok] in H. now apply andb_prop in H. Qed.
Lemma reach_if : forall sf c a b, reach_ok sync prog sf (SIf c a b) = true -> reach_ok sync prog sf a = true /\ reach_ok sync prog sf b = true.
Proof. intros [|sf] c a b H; [discriminate H|]. rewrite reach_ok_S in *. cbn [calls_ok] in H. now apply andb_prop in H. Qed.
Lemma reach_loop : forall sf c a b, reach_ok sync prog sf (SLoop c a b) = true -> reach_ok sync prog sf a = true /\ reach_ok sync prog sf b = true.
Proof. intros [|sf] c a b H; [discriminate H|]. rewrite reach_ok_S in *. cbn [calls_ok] in H. now apply andb_prop in H. Qed.
Lemma reach_dowhile : forall sf a c, reach_ok sync prog sf (SDoWhile a c) = true -> reach_ok sync prog sf a = true.
Proof. intros [|sf] a c H; [discriminate H|]. rewrite reach_ok_S in *. exact H. Qed.

Lemma reach_call : forall sf ret f this args fn, reach_ok sync prog sf (SCall ret f this args) = true -> lget prog f = Some fn ->
  exists sf', brk_ok false (f_body fn) = true /\ reach_ok sync prog sf' (f_body fn) = true.
Proof.
  intros [|sf] ret f this args fn H L; [discriminate H|]. rewrite reach_ok_S in H. cbn [calls_ok] in H. rewrite L in H.
  apply andb_prop in H. exists sf. exact H.
Qed.
Lemma reach_ctor : forall sf x cls objs f args fn, reach_ok sync prog sf (SNewObj x cls objs (Some f) args) = true -> lget prog f = Some fn ->
  exists sf', brk_ok false (f_body fn) = true /\ reach_ok sync prog sf' (f_body fn) = true.
Proof.
  intros [|sf] x cls objs f args fn H L; [discriminate H|]. rewrite reach_ok_S in H. cbn [calls_ok] in H. rewrite L in H.
  apply andb_prop in H. exists sf. exact H.
Qed.

Lemma has_suffix_app : forall sfx a, has_suffix sfx (a ++ sfx) = true.
Proof.
  intros sfx a. induction a as [|c a IH].
  - cbn [append]. destruct sfx; cbn [has_suffix]; rewrite String.eqb_refl; reflexivity.
  - cbn [append has_suffix]. rewrite IH. apply orb_true_r.
Qed.
Lemma lget_In : forall A (l : list (string * A)) k v, lget l k = Some v -> In (k, v) l.
Proof.
  induction l as [|[k' v'] l IH]; intros k v H; [discriminate H|]. cbn [lget] in H.
  destruct (String.eqb k k') eqn:E.
  - apply String.eqb_eq in E. inversion H; subst. now left.
  - right. now apply IH.
Qed.
Lemma reach_callvirt : forall sf ret m this args cls fn, reach_ok sync prog sf (SCallVirt ret m this args) = true ->
  lget prog (cls ++ "::" ++ m)%string = Some fn ->
  exists sf', brk_ok false (f_body fn) = true /\ reach_ok sync prog sf' (f_body fn) = true.
Proof.
  intros [|sf] ret m this args cls fn H L; [discriminate H|]. rewrite reach_ok_S in H. cbn [calls_ok] in H.
  rewrite forallb_forall in H. apply lget_In in L. specialize (H _ L). cbn [fst snd] in H.
  rewrite has_suffix_app in H. apply andb_prop in H. exists sf. exact H.
Qed.
End WF.

(* seq_ok is wf_ok plus the condition on primitives *)
Lemma calls_ok_weaken : forall (chk chk' vchk vchk' : string -> bool) st,
  (forall f, chk f = true -> chk' f = true) -> (forall m, vchk m = true -> vchk' m = true) ->
  calls_ok true chk vchk st = true -> calls_ok false chk' vchk' st = true.
Proof.
  intros chk chk' vchk vchk' st Hc Hv. induction st; cbn [calls_ok]; intro H; auto;
  try (apply andb_prop in H; destruct H as [H1 H2]; apply andb_true_intro; split; auto).
  destruct ctor; auto.
Qed.
Lemma seq_ok_wf : forall prog sf st, seq_ok prog sf st = true -> wf_ok prog sf st = true.
Proof.
  unfold seq_ok, wf_ok. intros prog. induction sf as [|sf IH]; intros st H; [discriminate H|].
  rewrite reach_ok_S in *. revert H. apply calls_ok_weaken.
  - intros f. destruct (lget prog f) as [fn|]; [|auto]. unfold fn_ok. intro H. apply andb_prop in H. destruct H as [H1 H2].
    rewrite H1, (IH _ H2). reflexivity.
  - intros m H. rewrite forallb_forall in *. intros nf Hin. specialize (H nf Hin).
    destruct (has_suffix ("::" ++ m) (fst nf)); [|reflexivity]. unfold fn_ok in *. apply andb_prop in H. destruct H as [H1 H2].
    rewrite H1, (IH _ H2). reflexivity.
Qed.

Section Sim.
Variable prog : program.
Variable vt : list (string * string).

(* a statement all of whose breaks are inside its own loops never ends with outcome Broke *)
Lemma no_broke : forall fuel st s o s', brk_ok false st = true -> exec prog vt fuel st s = Ok (o, s') -> o <> Broke.
Proof.
  induction fuel as [|fuel IH]; intros st s o s' B H; [discriminate H|].
  destruct (is_atomic st) eqn:A.
  { rewrite atomic_fuel in H by exact A. apply atomic_normal_pre in H; [|exact A]. destruct H as [-> _]. discriminate. }
  destruct st; try discriminate A; cbn [brk_ok] in B; try discriminate B.
  - cbn [exec] in H. inversion H; subst. discriminate.
  - cbn [exec] in H. apply andb_prop in B. destruct B as [B1 B2]. bo H. destruct a as [o1 s1].
    destruct o1; [eapply IH; [|exact H]; assumption| exfalso; eapply IH; [exact B1|exact E|reflexivity] | inversion H; subst; discriminate].
  - cbn [exec] in H. apply andb_prop in B. destruct B as [B1 B2]. bo H. bo H. destruct (a0 =? 0); (eapply IH; [|exact H]; assumption).
  - cbn [exec] in H. bo H. bo H. destruct (a0 =? 0); [inversion H; subst; discriminate|].
    bo H. destruct a1 as [o1 s1]. destruct o1; [| inversion H; subst; discriminate | inversion H; subst; discriminate].
    bo H. destruct a1 as [o2 s2]. destruct o2; try discriminate H. eapply IH; [|exact H]. exact B.
  - cbn [exec] in H. bo H. destruct a as [o1 s1]. destruct o1; [| inversion H; subst; discriminate | inversion H; subst; discriminate].
    bo H. bo H. destruct (a0 =? 0); [inversion H; subst; discriminate|]. eapply IH; [|exact H]. exact B.
  - cbn [exec] in H. destruct e; [bo H|]; inversion H; subst; discriminate.
  - cbn [exec] in H. bo H. bo H. destruct (lget prog f); [|discriminate H]. bo H. bo H. destruct a2. bo H. inversion H; subst; discriminate.
  - cbn [exec] in H. bo H. bo H.
    assert (CALL : forall fname, match lget prog fname with
      | None => UB ("no function " ++ fname)%string
      | Some f => do l <- bind_params (f_params f) a;
                  do r1 <- exec prog vt fuel (f_body f) {| mem := mem s; loc := l; pre := a0; files := files s; ptrs := ptrs s; fresh := fresh s |};
                  let '(o, s1) := r1 in
                  do s2 <- set_ret {| mem := mem s1; loc := loc s; pre := pre s; files := files s1; ptrs := ptrs s1; fresh := fresh s1 |} ret
                                   (match o with Returned v => v | _ => None end);
                  Ok (Normal, s2)
      end = Ok (o, s') -> o <> Broke).
    { intros fname Hc. destruct (lget prog fname); [|discriminate Hc]. bo Hc. bo Hc. destruct a2. bo Hc. inversion Hc; subst; discriminate. }
    destruct (lget vt a0); [eapply CALL; exact H|].
    destruct (lget (ptrs s) (class_key a0)) as [[z|cls off|]|]; try discriminate H. eapply CALL; exact H.
  - rewrite prim_fuel in H. apply prim_normal_pre in H. destruct H as [-> _]. discriminate.
  - cbn [exec] in H. bo H.
    match type of H with (if negb ?b then _ else _) = _ => destruct (negb b); [discriminate H|] end.
    destruct ctor as [fname|]; [|inversion H; subst; discriminate].
    destruct (lget prog fname) as [f|]; [|discriminate H].
    bo H. bo H. destruct a1 as [o1 s1]. inversion H; subst; discriminate.
Qed.

(* what the machine reaches when exec ends with outcome out in state s' *)
Definition sim_goal (st : stmt) (k : kont) (stt : tstatus) (s : state) (out : outcome) (s' : state) : Prop :=
  match out with
  | Normal => reaches prog vt (mk st k (loc s) (pre s) stt) (shared_of s) (cont_conf k (loc s') (pre s) stt) (shared_of s')
  | Broke => forall k', unwind_break k = Some k' ->
             reaches prog vt (mk st k (loc s) (pre s) stt) (shared_of s) (cont_conf k' (loc s') (pre s) stt) (shared_of s')
  | Returned v => forall ret sl sp k' back, unwind_return k = Some (ret, sl, sp, k') ->
             set_ret {| mem := mem s'; loc := sl; pre := sp; files := files s'; ptrs := ptrs s'; fresh := fresh s' |} ret v = Ok back ->
             reaches prog vt (mk st k (loc s) (pre s) stt) (shared_of s) (cont_conf k' (loc back) sp stt) (shared_of s')
  end.

Lemma atomic_not_sched : forall st, is_atomic st = true -> is_sched_point st = false.
Proof. intros st A. destruct st; try discriminate A; reflexivity. Qed.

Lemma sim_goal_prefix : forall st st2 k stt s s2 out s',
  reaches prog vt (mk st k (loc s) (pre s) stt) (shared_of s) (mk st2 k (loc s2) (pre s) stt) (shared_of s2) ->
  pre s2 = pre s -> sim_goal st2 k stt s2 out s' -> sim_goal st k stt s out s'.
Proof.
  intros st st2 k stt s s2 out s' R P G. destruct out; cbn [sim_goal] in *; rewrite P in G.
  - eapply reaches_trans; eauto.
  - intros k' U. eapply reaches_trans; eauto.
  - intros ret sl sp k' back U SR. eapply reaches_trans; eauto.
Qed.

Lemma sim_goal_abrupt : forall st st1 k k1 stt s out s',
  out <> Normal ->
  reaches prog vt (mk st k (loc s) (pre s) stt) (shared_of s) (mk st1 k1 (loc s) (pre s) stt) (shared_of s) ->
  unwind_break k1 = unwind_break k -> unwind_return k1 = unwind_return k ->
  sim_goal st1 k1 stt s out s' -> sim_goal st k stt s out s'.
Proof.
  intros st st1 k k1 stt s out s' NN R UBK URK G. destruct out; cbn [sim_goal] in *.
  - now elim NN.
  - intros k' U. eapply reaches_trans; [exact R|]. apply G. rewrite UBK. exact U.
  - intros ret sl sp k' back U SR. eapply reaches_trans; [exact R|]. eapply G; [rewrite URK; exact U|exact SR].
Qed.

Lemma sim : forall fuel sf st s out s', wf_ok prog sf st = true -> exec prog vt fuel st s = Ok (out, s') ->
  forall k stt, stt <> TDone -> sim_goal st k stt s out s'.
Proof.
  induction fuel as [|fuel IH]; intros sf st s out s' W H k stt ND; [discriminate H|].
  (* the callee's body, entered under KCall, up to the caller's continuation *)
  assert (CALLRET : forall sfb (f : func) ret cl cp k s0 o1 s1 s2,
    brk_ok false (f_body f) = true -> wf_ok prog sfb (f_body f) = true ->
    exec prog vt fuel (f_body f) s0 = Ok (o1, s1) ->
    set_ret {| mem := mem s1; loc := cl; pre := cp; files := files s1; ptrs := ptrs s1; fresh := fresh s1 |} ret
            (match o1 with Returned v => v | _ => None end) = Ok s2 ->
    reaches prog vt (mk (f_body f) (KCall ret cl cp k) (loc s0) (pre s0) stt) (shared_of s0) (cont_conf k (loc s2) cp stt) (shared_of s2)).
  { intros sfb f ret cl cp k0 s0 o1 s1 s2 B Wf Ex SR.
    pose proof (IH _ _ _ _ _ Wf Ex (KCall ret cl cp k0) stt ND) as R.
    destruct o1; cbn [sim_goal] in R.
    - destruct ret as [x|]; [discriminate SR|]. cbn [set_ret] in SR. inversion SR; subst s2. clear SR.
      eapply reaches_trans; [exact R|]. apply reaches_one; [exact ND|reflexivity|].
      unfold cont_conf at 1. cbn [next_of]. apply micro_skip.
    - exfalso. eapply no_broke; [exact B|exact Ex|reflexivity].
    - rewrite (set_ret_shared _ _ _ _ SR). apply (R ret cl cp k0 s2); [reflexivity|exact SR]. }
  destruct (is_atomic st) eqn:A.
  { rewrite atomic_fuel in H by exact A. destruct (atomic_normal_pre _ _ _ _ _ _ A H) as [-> P]. cbn [sim_goal].
    apply reaches_one; [exact ND|apply atomic_not_sched; exact A|]. eapply micro_atomic; eassumption. }
  destruct st as [ | sa sb | x e | t p e | c sa sb | c body step | body c | | e | ret f this args | ret m this args | d sr n | d v n
                   | x t n | x t n | p | ret name args | p e | x cls objs ctor args | p e | x cls objs n ]; try discriminate A.
  - (* SSkip *) cbn [exec] in H. inversion H; subst. cbn [sim_goal]. apply reaches_one; [exact ND|reflexivity|apply micro_skip].
  - (* SSeq *)
    cbn [exec] in H. bo H. destruct a as [o1 s1]. apply reach_seq in W. destruct W as [W1 W2].
    pose proof (exec_pre _ _ _ _ _ _ _ E) as P1.
    pose proof (IH _ _ _ _ _ W1 E (KSeq sb k) stt ND) as R1.
    assert (ST : reaches prog vt (mk (SSeq sa sb) k (loc s) (pre s) stt) (shared_of s) (mk sa (KSeq sb k) (loc s) (pre s) stt) (shared_of s)).
    { apply reaches_one; [exact ND|reflexivity|apply micro_seq]. }
    destruct o1.
    + cbn [sim_goal] in R1. eapply sim_goal_prefix; [eapply reaches_trans; [exact ST|exact R1] | exact P1 | eapply IH; eassumption].
    + inversion H; subst. eapply sim_goal_abrupt; [discriminate|exact ST|reflexivity|reflexivity|exact R1].
    + inversion H; subst. eapply sim_goal_abrupt; [discriminate|exact ST|reflexivity|reflexivity|exact R1].
  - (* SIf *)
    cbn [exec] in H. bo H. bo H. apply reach_if in W. destruct W as [W1 W2].
    eapply sim_goal_prefix with (s2 := s); [apply reaches_one; [exact ND|reflexivity|eapply micro_if; eassumption] | reflexivity |].
    destruct (a0 =? 0); eapply IH; eassumption.
  - (* SLoop *)
    cbn [exec] in H. bo H. bo H. destruct (a0 =? 0) eqn:Z0.
    { inversion H; subst. apply Z.eqb_eq in Z0. subst a0. cbn [sim_goal].
      apply reaches_one; [exact ND|reflexivity|eapply micro_loop_exit; eassumption]. }
    bo H. destruct a1 as [o1 s1]. pose proof W as W0. apply reach_loop in W. destruct W as [Wb Ws].
    pose proof (exec_pre _ _ _ _ _ _ _ E1) as P1.
    pose proof (IH _ _ _ _ _ Wb E1 (KLoopBody c body step k) stt ND) as R1.
    assert (ST : reaches prog vt (mk (SLoop c body step) k (loc s) (pre s) stt) (shared_of s)
                                 (mk body (KLoopBody c body step k) (loc s) (pre s) stt) (shared_of s)).
    { apply reaches_one; [exact ND|reflexivity|eapply micro_loop_enter; eassumption]. }
    destruct o1.
    + bo H. destruct a1 as [o2 s2]. destruct o2; try discriminate H.
      pose proof (exec_pre _ _ _ _ _ _ _ E2) as P2.
      pose proof (IH _ _ _ _ _ Ws E2 (KLoopStep c body step k) stt ND) as R2.
      cbn [sim_goal] in R1, R2. rewrite P1 in R2.
      eapply sim_goal_prefix with (s2 := s2);
        [eapply reaches_trans; [exact ST|]; eapply reaches_trans; [exact R1|]; exact R2 | congruence | eapply IH; eassumption].
    + inversion H; subst. cbn [sim_goal] in *. eapply reaches_trans; [exact ST|]. apply R1. reflexivity.
    + inversion H; subst. cbn [sim_goal] in *. intros ret sl sp k' back U SR. eapply reaches_trans; [exact ST|]. eapply R1; [exact U|exact SR].
  - (* SDoWhile *)
    cbn [exec] in H. bo H. destruct a as [o1 s1]. pose proof W as W0. apply reach_dowhile in W.
    pose proof (exec_pre _ _ _ _ _ _ _ E) as P1.
    pose proof (IH _ _ _ _ _ W E (KDoBody body c k) stt ND) as R1.
    assert (ST : reaches prog vt (mk (SDoWhile body c) k (loc s) (pre s) stt) (shared_of s)
                                 (mk body (KDoBody body c k) (loc s) (pre s) stt) (shared_of s)).
    { apply reaches_one; [exact ND|reflexivity|apply micro_dowhile]. }
    destruct o1.
    + bo H. bo H. cbn [sim_goal] in R1.
      assert (ST2 : reaches prog vt (mk (SDoWhile body c) k (loc s) (pre s) stt) (shared_of s)
                                    (mk (if a0 =? 0 then SSkip else SDoWhile body c) k (loc s1) (pre s) stt) (shared_of s1)).
      { eapply reaches_trans; [exact ST|]. eapply reaches_trans; [exact R1|]. rewrite <- P1.
        apply reaches_one; [exact ND|reflexivity|]. unfold cont_conf. cbn [next_of]. eapply micro_if; eassumption. }
      destruct (a0 =? 0).
      * inversion H; subst. cbn [sim_goal]. eapply reaches_trans; [exact ST2|].
        apply reaches_one; [exact ND|reflexivity|apply micro_skip].
      * eapply sim_goal_prefix; [exact ST2|exact P1|eapply IH; eassumption].
    + inversion H; subst. cbn [sim_goal] in *. eapply reaches_trans; [exact ST|]. apply R1. reflexivity.
    + inversion H; subst. cbn [sim_goal] in *. intros ret sl sp k' back U SR. eapply reaches_trans; [exact ST|]. eapply R1; [exact U|exact SR].
  - (* SBreak *)
    cbn [exec] in H. inversion H; subst. cbn [sim_goal]. intros k' U.
    eapply reaches_step; [exact ND|reflexivity|apply micro_break; exact U|].
    apply reaches_one; [exact ND|reflexivity|apply micro_skip].
  - (* SReturn *)
    cbn [sim_goal exec] in *.
    assert (exists v, out = Returned v /\ s' = s /\ match e with None => Ok None | Some e' => do v' <- eval s e'; Ok (Some v') end = Ok v) as (v & -> & -> & EV).
    { destruct e as [e|]; [bo H; rewrite E|]; inversion H; subst; eexists; repeat split; reflexivity. }
    intros ret sl sp k' back U SR.
    eapply reaches_step; [exact ND|reflexivity|eapply micro_return; eassumption|].
    apply reaches_one; [exact ND|reflexivity|apply micro_skip].
  - (* SCall *)
    cbn [exec] in H. bo H. bo H. destruct (lget prog f) as [fn|] eqn:L; [|discriminate H].
    bo H. bo H. destruct a2 as [o1 s1]. bo H. inversion H; subst. clear H.
    destruct (reach_call _ _ _ _ _ _ _ _ W L) as (sfb & B & Wf). cbn [sim_goal].
    eapply reaches_step; [exact ND|reflexivity|eapply micro_call; eassumption|].
    exact (CALLRET sfb fn ret (loc s) (pre s) k _ _ _ _ B Wf E2 E3).
  - (* SCallVirt *)
    cbn [exec] in H. bo H. bo H.
    assert (RES : exists cls,
      match lget vt a0 with
      | Some c => Some c
      | None => match lget (ptrs s) (class_key a0) with Some (VPtr c _) => Some c | _ => None end
      end = Some cls /\ 
      match lget prog (cls ++ "::" ++ m)%string with
      | None => UB ("no function " ++ (cls ++ "::" ++ m))%string
      | Some f => do l <- bind_params (f_params f) a;
                  do r1 <- exec prog vt fuel (f_body f) {| mem := mem s; loc := l; pre := a0; files := files s; ptrs := ptrs s; fresh := fresh s |};
                  let '(o, s1) := r1 in
                  do s2 <- set_ret {| mem := mem s1; loc := loc s; pre := pre s; files := files s1; ptrs := ptrs s1; fresh := fresh s1 |} ret
                                   (match o with Returned v => v | _ => None end);
                  Ok (Normal, s2)
      end = Ok (out, s')).
    { destruct (lget vt a0) as [cls|]; [exists cls; split; [reflexivity|exact H]|].
      destruct (lget (ptrs s) (class_key a0)) as [[z|cls off|]|]; try discriminate H. exists cls; split; [reflexivity|exact H]. }
    clear H. destruct RES as (cls & RC & H).
    destruct (lget prog (cls ++ "::" ++ m)%string) as [fn|] eqn:L; [|discriminate H].
    bo H. bo H. destruct a2 as [o1 s1]. bo H. inversion H; subst. clear H.
    destruct (reach_callvirt _ _ _ _ _ _ _ _ _ W L) as (sfb & B & Wf). cbn [sim_goal].
    eapply reaches_step; [exact ND|reflexivity|eapply micro_callvirt; eassumption|].
    exact (CALLRET sfb fn ret (loc s) (pre s) k _ _ _ _ B Wf E2 E3).
  - (* SPrim *)
    pose proof (exec_prim_not_sync _ _ _ _ _ _ _ _ H) as SY. rewrite prim_fuel in H.
    destruct (prim_normal_pre _ _ _ _ _ _ _ _ H) as [-> P]. cbn [sim_goal].
    apply reaches_one; [exact ND|apply not_sync_not_sched; exact SY|]. eapply micro_prim; eassumption.
  - (* SNewObj *)
    destruct ctor as [fname|].
    + cbn [exec] in H. bo H.
      match type of H with (if negb ?b then _ else _) = _ => destruct (negb b) eqn:NB; [discriminate H|] end.
      destruct (lget prog fname) as [fn|] eqn:L; [|discriminate H].
      bo H. bo H. destruct a1 as [o1 s1]. inversion H; subst. clear H.
      destruct (reach_ctor _ _ _ _ _ _ _ _ _ W L) as (sfb & B & Wf). cbn [sim_goal].
      match type of E1 with exec _ _ _ _ {| mem := ?m0; loc := _; pre := ?nm; files := _; ptrs := ?p0; fresh := ?f0 |} = _ =>
        set (s0 := {| mem := m0; loc := lset (loc s) x (VPtr nm 0); pre := pre s; files := files s; ptrs := p0; fresh := f0 |}) in *;
        assert (X1 : exec prog vt 1 (SNewObj x cls objs None args) s = Ok (Normal, s0))
          by (cbn [exec]; rewrite E; cbn [bind]; rewrite NB; reflexivity);
        assert (X2 : lget (loc s0) x = Some (VPtr nm 0)) by (apply lget_lset_same)
      end.
      eapply reaches_step; [exact ND|reflexivity|eapply micro_newobj_ctor; eassumption|].
      exact (CALLRET sfb fn None (loc s0) (pre s) k _ _ _ _ B Wf E1 eq_refl).
    + assert (X1 : exec prog vt 1 (SNewObj x cls objs None args) s = Ok (out, s')) by exact H.
      assert (ON : out = Normal).
      { cbn [exec] in H. bo H. match type of H with (if negb ?b then _ else _) = _ => destruct (negb b); [discriminate H|] end.
        inversion H; reflexivity. }
      subst out. cbn [sim_goal].
      pose proof (exec_pre _ _ _ _ _ _ _ X1) as P.
      apply reaches_one; [exact ND|reflexivity|]. eapply micro_newobj_none; eassumption.
Qed.
End Sim.

(* ---------------- corollaries for run_thread ---------------- *)
Section Top.
Variable prog : program.
Variable vt : list (string * string).

(* any continuation: after n steps of fuel the thread stands at the continuation, in the state exec computed *)
Theorem seq_machine_agrees_kont : forall fuel sf st s s', wf_ok prog sf st = true -> exec prog vt fuel st s = Ok (Normal, s') ->
  forall k stt, stt <> TDone ->
  exists n, forall big tid first thr mx evs,
    run_thread prog vt (n + big) tid first (mk st k (loc s) (pre s) stt) {| cs_sh := shared_of s; cs_thr := thr; cs_mx := mx |} evs =
    run_thread prog vt big tid (match n with O => first | _ => false end) (cont_conf k (loc s') (pre s) stt)
               {| cs_sh := shared_of s'; cs_thr := thr; cs_mx := mx |} evs.
Proof.
  intros fuel sf st s s' W H k stt ND. destruct (sim prog vt _ _ _ _ _ _ W H k stt ND) as [n MS]. exists n.
  intros big tid first thr mx evs. rewrite (run_thread_mstar _ _ _ _ _ _ _ MS).
  destruct big as [|big].
  - rewrite Nat.add_0_r, Nat.leb_refl. reflexivity.
  - replace (n + S big <=? n)%nat with false by (symmetry; apply Nat.leb_gt; lia).
    replace (n + S big - n)%nat with (S big) by lia. reflexivity.
Qed.

(* the statement as a whole thread (continuation KStop): any thread id, other threads, held mutexes, event prefix; the result
   for EVERY fuel of run_thread: NoFuel up to n, the finished thread above *)
Theorem seq_machine_agrees_gen : forall fuel sf st s out s', wf_ok prog sf st = true -> exec prog vt fuel st s = Ok (out, s') ->
  normal_outcome out = true ->
  forall stt, stt <> TDone ->
  exists n, forall big tid first thr mx evs,
    run_thread prog vt big tid first (mk st KStop (loc s) (pre s) stt) {| cs_sh := shared_of s; cs_thr := thr; cs_mx := mx |} evs =
    if (big <=? n)%nat then NoFuel
    else Ok ({| cs_sh := shared_of s'; cs_thr := set_nth_t tid (mk SSkip KStop (loc s') (pre s) TDone) thr; cs_mx := mx |}, evs ++ [(14, 0, 0)]).
Proof.
  intros fuel sf st s out s' W H NO stt ND. destruct out; try discriminate NO.
  destruct (sim prog vt _ _ _ _ _ _ W H KStop stt ND) as [n MS]. exists n.
  intros big tid first thr mx evs. exact (run_thread_done _ _ _ _ _ _ _ MS eq_refl big tid first thr mx evs).
Qed.

(* the form of Properties_SrcSeq *)
Lemma seq_machine_agrees_proof : forall fuel st s out s',
  seq_ok prog fuel st = true ->
  exec prog vt fuel st s = Ok (out, s') ->
  normal_outcome out = true ->
  exists n,
    forall big, (n <= big)%nat ->
    run_thread prog vt big 0 true
      {| ct_cur := st; ct_k := KStop; ct_loc := loc s; ct_pre := pre s; ct_st := TRun |}
      {| cs_sh := shared_of s;
         cs_thr := [{| ct_cur := st; ct_k := KStop; ct_loc := loc s; ct_pre := pre s; ct_st := TRun |}]; cs_mx := [] |} []
    = Ok ({| cs_sh := shared_of s';
             cs_thr := [{| ct_cur := SSkip; ct_k := KStop; ct_loc := loc s'; ct_pre := pre s; ct_st := TDone |}]; cs_mx := [] |}, [(14, 0, 0)]).
Proof.
  intros fuel st s out s' SO H NO. apply seq_ok_wf in SO.
  destruct (seq_machine_agrees_gen _ _ _ _ _ _ SO H NO TRun ltac:(discriminate)) as [n R]. exists (S n).
  intros big L. rewrite R. replace (big <=? n)%nat with false by (symmetry; apply Nat.leb_gt; lia). reflexivity.
Qed.
End Top.

(* ---------------- the disagreement on a stray break ---------------- *)
Local Open Scope string_scope.
Definition stray_prog : program := [("f"%string, {| f_params := []; f_body := SBreak |})].
Definition stray_main : stmt := SCall None "f" None [].
Definition stray_state : state := {| mem := []; loc := []; pre := ""; files := []; ptrs := []; fresh := 0 |}.
Example stray_break_exec : exec stray_prog [] 2 stray_main stray_state = Ok (Normal, stray_state).
Proof. vm_compute. reflexivity. Qed.
Example stray_break_machine : forall big,
  run_thread stray_prog [] (3 + big) 0 true (mk stray_main KStop [] ""%string TRun)
    {| cs_sh := stray_state; cs_thr := [mk stray_main KStop [] ""%string TRun]; cs_mx := [] |} [] = UB "break outside a loop".
Proof. intro big. reflexivity. Qed.
Example stray_break_not_seq_ok : forall fuel, seq_ok stray_prog fuel stray_main = false.
Proof. intros [|fuel]; reflexivity. Qed.

(* non-vacuity of seq_machine_agrees_proof: a loop with a call, a return out of the loop inside the callee, a break *)
Definition nv_prog : program :=
  [("g"%string, {| f_params := ["n"%string];
                   f_body := SSeq (SSet "i" (EConst 0))
                            (SSeq (SLoop (EConst 1)
                                     (SSeq (SIf (EBin I32 Eq (EVar "i") (EVar "n")) (SReturn (Some (EBin I32 Mul (EVar "i") (EConst 2)))) SSkip)
                                           (SIf (EBin I32 Gt (EVar "i") (EConst 100)) SBreak SSkip))
                                     (SSet "i" (EBin I32 Add (EVar "i") (EConst 1))))
                                  (SReturn (Some (EConst (-1))))) |})].
Definition nv_main : stmt :=
  SSeq (SSet "acc" (EConst 0))
       (SDoWhile (SSeq (SCall (Some "r") "g" None [EVar "acc"]) (SSeq (SSet "acc" (EBin I32 Add (EVar "acc") (EConst 1))) (SIf (EBin I32 Gt (EVar "acc") (EConst 3)) SBreak SSkip)))
                 (EConst 1)).
Example nv_seq_ok : seq_ok nv_prog 20 nv_main = true.
Proof. vm_compute. reflexivity. Qed.
Example nv_exec : exists s', exec nv_prog [] 20 nv_main stray_state = Ok (Normal, s') /\ loc s' = [("acc"%string, VInt 4); ("r"%string, VInt 6)].
Proof. eexists. split; vm_compute; reflexivity. Qed.
(* the machine on the same example, by evaluation (an instance of seq_machine_agrees_proof) *)
Example nv_machine :
  run_thread nv_prog [] 1000 0 true (mk nv_main KStop [] "" TRun) {| cs_sh := stray_state; cs_thr := [mk nv_main KStop [] "" TRun]; cs_mx := [] |} []
  = Ok ({| cs_sh := stray_state; cs_thr := [mk SSkip KStop [("acc", VInt 4); ("r", VInt 6)] "" TDone]; cs_mx := [] |}, [(14, 0, 0)]).
Proof. vm_compute. reflexivity. Qed.
