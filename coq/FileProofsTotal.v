(* Totality of decryption after the repairs of iobuffer::export_buffer (total for now = 0 and for a
   pad byte larger than the buffer) and iobuffer::load_buffer (fewer than 16 bytes left = NODATA, no
   READY buffer without blocks) -- C11, C12 without a domain restriction: decrypting ANY byte string
   under ANY key ends in Ok or Fail, never in Crash / Hang, and verify accepts exactly what decrypt
   accepts.
   Statements: Properties_C11.C11_decrypt_total, Properties_C12.C12_verdicts_coincide.
   The examples exhibit authentic files (tag computed with the model's own hmac_model) that no
   encryption produces -- empty body, file shorter than text_mark, ragged body, last byte not a pad
   length -- and on which [dec] returns Ok. *)
From Wencry Require Import FileProofsDec.
From Coq Require Import NArith List Bool Arith Lia PeanoNat.
From Wencry Require Import Bytes AesSpec AesModel ModesSpec ModesModel HashSpec HashModel HashProofs HmacProofs
  ModesProofs AesProofs FileModel FileSpec FileProps FileProofsSec.
From Wencry.Gen Require Layout.
Import ListNotations.
Local Open Scope N_scope.

(* ------------------------------------------------------------------------------------ *)
(** * 1. export is total; loads_of never yields a zero-block FINAL load; the sequential      *)
(**      pipeline is total on such load lists                                               *)
(* ------------------------------------------------------------------------------------ *)

(* the condition under which pipe_chunks does not hang on a load *)
Definition no_hang (l : load) : Prop := ld_final l && (ld_total l =? 0)%nat = false.

Lemma loads_no_hang ld : forall fuel rest, Forall no_hang (loads ld fuel rest).
Proof.
  induction fuel as [|f IH]; intro rest; [constructor|].
  cbn [loads]. destruct (ld rest) as [l rest'].
  destruct (ld_final l) eqn:Ef.
  - destruct (ld_total l =? 0)%nat eqn:Et; [constructor|].
    constructor; [unfold no_hang; rewrite Ef, Et; reflexivity|constructor].
  - constructor; [unfold no_hang; rewrite Ef; reflexivity|apply IH].
Qed.

Lemma loads_of_no_hang c isp rest : Forall no_hang (loads_of c isp rest).
Proof. unfold loads_of. apply loads_no_hang. Qed.

(* decryption: every load carries at least one block, a non-final load carries a whole chunk *)
Lemma loads_dec_total_ge1 c : (1 <= c)%nat -> forall fuel rest,
  Forall (fun l => (1 <= ld_total l)%nat) (loads (load_dec c) fuel rest).
Proof.
  intro Hc. induction fuel as [|f IH]; intro rest; [constructor|].
  cbn [loads]. unfold load_dec at 1. cbv zeta. cbn [ld_final ld_total].
  set (n := length (firstn (sum c) rest)).
  destruct ((n <? sum c)%nat || match skipn (sum c) rest with [] => true | _ => false end) eqn:Hro.
  - destruct (Nat.eqb_spec (n / 16) 0) as [E0|N0]; [constructor|].
    constructor; [cbn [ld_total]; lia|constructor].
  - constructor; [|apply IH]. cbn [ld_total].
    apply orb_false_iff in Hro. destruct Hro as [Hlt _]. apply Nat.ltb_ge in Hlt.
    assert (Hn : n = sum c).
    { unfold n in *. rewrite firstn_length in *. lia. }
    rewrite Hn, sum_eq. rewrite (Nat.mul_comm 16 c), Nat.div_mul by discriminate. exact Hc.
Qed.

Lemma loads_of_dec_total_ge1 c rest : (1 <= c)%nat ->
  Forall (fun l => (1 <= ld_total l)%nat) (loads_of c false rest).
Proof. intro Hc. unfold loads_of. apply loads_dec_total_ge1, Hc. Qed.

Lemma export_total c isp l data : exists b, export c isp l data = Ok b.
Proof. unfold export. destruct (ld_final l); [destruct isp|]; eexists; reflexivity. Qed.

Lemma pipe_chunks_total E D kind T c isp : forall ls, Forall no_hang ls -> forall ivs j,
  exists out, pipe_chunks E D kind T c isp ivs j ls = Ok out.
Proof.
  induction 1 as [|l r Hl Hr IH]; intros ivs j; [exists []; reflexivity|].
  cbn [pipe_chunks]. unfold no_hang in Hl. rewrite Hl.
  destruct (run E D kind (nth (j mod T) ivs []) (blocks16_of (ld_data l))) as [iv' o].
  destruct (export_total c isp l (concat o)) as [b ->].
  destruct (IH (set_nth (j mod T) iv' ivs) (S j)) as [rest ->].
  eexists. reflexivity.
Qed.

Lemma pipe_seq_total E D kind T c isp iv16 rest :
  exists out, pipe_seq E D kind T c isp iv16 rest = Ok out.
Proof. unfold pipe_seq. apply pipe_chunks_total, loads_of_no_hang. Qed.

Lemma create_false_total ctype : ctype <= 4 -> exists k, create false ctype = Some k.
Proof.
  intro H.
  assert (E : ctype = 0 \/ ctype = 1 \/ ctype = 2 \/ ctype = 3 \/ ctype = 4) by lia.
  destruct E as [->|[->|[->|[->| ->]]]]; eexists; reflexivity.
Qed.

(* ------------------------------------------------------------------------------------ *)
(** * 2. C11: decryption of any byte string never ends in Crash or Hang                    *)
(* ------------------------------------------------------------------------------------ *)

Lemma dec_accepted c hbuf T F key :
  verify hbuf F key = Ok 0 -> exists out, dec c hbuf T F key = Ok out.
Proof.
  intro Hv. destruct (proj1 (verify_ok0 _ _ _) Hv) as [_ [_ [Hcm _]]].
  destruct (create_false_total _ Hcm) as [k Hk].
  unfold dec. rewrite Hv, Hk. apply pipe_seq_total.
Qed.

Lemma C11_decrypt_total_proof : forall c hbuf T F key,
  (1 <= c)%nat -> (1 <= hbuf)%nat -> (1 <= T)%nat -> N.of_nat (length F) < 2 ^ 56 ->
  (exists out, dec c hbuf T F key = Ok out /\ (length out <= length F - text_mark T)%nat) \/
  (exists code, 1 <= code <= 4 /\ dec c hbuf T F key = Fail code).
Proof.
  intros c hbuf T F key Hc Hh HT _.
  destruct (verify_total_gen hbuf F key Hh) as [code [Hv Hcode]].
  destruct (N.eq_dec code 0) as [E0|Hne].
  - left. subst code. destruct (dec_accepted c hbuf T F key Hv) as [out Ho].
    exists out. split; [exact Ho|].
    exact (C11_output_bounded_by_body_proof c hbuf T F key out Hc HT Ho).
  - right. exists code. split; [lia|].
    exact (proj1 (C06_rejected_means_no_output_proof c hbuf T F key code Hv Hne)).
Qed.
Print Assumptions C11_decrypt_total_proof.

(* ------------------------------------------------------------------------------------ *)
(** * 3. C12: the two verdicts coincide on every file and key                              *)
(* ------------------------------------------------------------------------------------ *)

Lemma C12_verdicts_coincide_proof : forall c hbuf T F key,
  (1 <= c)%nat -> (1 <= hbuf)%nat -> (1 <= T)%nat -> N.of_nat (length F) < 2 ^ 56 ->
  (ver hbuf F key = Ok true <-> exists out, dec c hbuf T F key = Ok out) /\
  (ver hbuf F key = Ok true \/ ver hbuf F key = Ok false).
Proof.
  intros c hbuf T F key _ Hh _ _. split.
  - split.
    + intro H. apply ver_true_iff in H. exact (dec_accepted c hbuf T F key H).
    + intros [out H].
      exact (proj1 (C12_decrypt_accepts_only_what_verify_accepts_proof c hbuf T F key) out H).
  - destruct (verify_total_gen hbuf F key Hh) as [code [Hv _]].
    unfold ver. rewrite Hv. destruct code as [|p]; [left|right]; reflexivity.
Qed.
Print Assumptions C12_verdicts_coincide_proof.

(* ------------------------------------------------------------------------------------ *)
(** * 4. what every file produced by encryption satisfies (to show that the witnesses       *)
(**      below are outside the range of [enc])                                              *)
(* ------------------------------------------------------------------------------------ *)

Lemma patch_length_inside (l w : list N) off :
  (off + length w <= length l)%nat -> length (patch l off w) = length l.
Proof. exact (patch_length_in l w off). Qed.

Lemma file_header_length cm hm ivs T :
  length ivs = (20 * T)%nat -> length (file_header cm hm ivs T) = text_mark T.
Proof.
  intro H. unfold file_header. change (N.to_nat Layout.PADDING) with 38%nat.
  rewrite !app_length, magic_length, zeros_length, firstn_length, H, text_mark_eq.
  cbn [length]. lia.
Qed.

(* the length of an encrypted file: header, then the padded plaintext *)
Lemma enc_length c hbuf T P key seed cm hm F :
  enc_params c hbuf T P key seed cm hm -> enc c hbuf T P key cm hm seed = Ok F ->
  length F = (text_mark T + 16 * (length P / 16 + 1))%nat.
Proof.
  intros [Hc Hh HT HP Hkey Hseed Hcm Hhm HsP HsT HsS] HF.
  destruct (create_kpair cm Hcm) as [ke [kd [Hke [Hkd Hk]]]].
  destruct (iv_chain_props seed T HT) as [Hivl Hivb].
  assert (Hiv16 : block16 (firstn 16 (iv_chain seed T))).
  { apply block16_iff. split; [rewrite firstn_length; lia|apply bytes_firstn_skipn; exact Hivb]. }
  apply bytesb_bytes in HP.
  assert (Hfuel : (length P < sum c * S (length P))%nat) by (rewrite sum_eq; nia).
  destruct (pipe_roundtrip (aes_enc key) (aes_dec key)
              (fun b Hb => C09_decrypt_inverts_encrypt_proof key b Hkey Hb)
              (fun b Hb => proj1 (C09_outputs_are_blocks_proof key b Hkey Hb))
              ke kd T c Hk HT Hc (length P) P Hfuel HP 0%nat
              (repeat (firstn 16 (iv_chain seed T)) T) (repeat_length _ _)
              (Forall_repeat _ _ _ _ Hiv16)) as [body [B1 [_ [B3 _]]]].
  unfold enc, enc_writes in HF. cbv zeta in HF. rewrite Hke in HF.
  unfold pipe_seq in HF.
  change (aes_enc_with (genall key)) with (aes_enc key) in HF.
  change (aes_dec_with (genall key)) with (aes_dec key) in HF.
  rewrite B1 in HF.
  destruct (hmac_model hbuf hm key _) as [tag|] eqn:Hmac; [|discriminate HF].
  apply Ok_inj in HF. subst F.
  pose proof (hlen_le _ _ _ _ _ Hmac) as Htl.
  unfold apply_writes. cbn [fold_left fst snd]. rewrite patch_nil_0.
  pose proof (file_header_length cm hm (iv_chain seed T) T Hivl) as Hhl.
  rewrite patch_length_inside.
  - rewrite app_length, Hhl, B3. reflexivity.
  - rewrite app_length, Hhl, text_mark_eq. change hmac_mark with 10%nat. lia.
Qed.

(* a file produced by encryption has a body of at least one and of whole blocks and decrypts to fewer
   bytes than its body holds, and to at most 16 fewer *)
Lemma enc_output_window c hbuf T P key seed cm hm F out :
  enc_params c hbuf T P key seed cm hm -> enc c hbuf T P key cm hm seed = Ok F ->
  dec c hbuf T F key = Ok out ->
  (length F - text_mark T - 16 <= length out < length F - text_mark T)%nat /\
  (16 <= length F - text_mark T)%nat /\ ((length F - text_mark T) mod 16 = 0)%nat.
Proof.
  intros EP HF Hd.
  destruct (enc_functional _ _ _ _ _ _ _ _ _ EP HF) as [HdP _].
  assert (out = P) by congruence. subst out.
  rewrite (enc_length _ _ _ _ _ _ _ _ _ EP HF).
  replace (text_mark T + 16 * (length P / 16 + 1) - text_mark T)%nat
    with ((length P / 16 + 1) * 16)%nat by lia.
  rewrite Nat.mod_mul by discriminate.
  pose proof (Nat.div_mod_eq (length P) 16). pose proof (Nat.mod_upper_bound (length P) 16). lia.
Qed.

(* ------------------------------------------------------------------------------------ *)
(** * 5. witnesses: authentic files outside the range of [enc]                             *)
(* ------------------------------------------------------------------------------------ *)

(* an authentic file with mode byte cm, hash byte hm, the given IV area and body: the tag is the
   model's own HMAC over everything from offset 48 *)
Definition forge (hbuf : nat) (cm hm : N) (key ivarea body : list N) : list N :=
  match hmac_model hbuf hm key (ivarea ++ body) with
  | Some tag => magic_bytes ++ [cm; hm] ++ tag ++ zeros (38 - length tag) ++ ivarea ++ body
  | None => []
  end.

Definition tot_key : list N := map N.of_nat (seq 1 16).
Definition tot_iv20 : list N := map N.of_nat (seq 100 20).

(* (a) no body at all, and even shorter than the two IV slots T = 2 announces: 74 bytes < text_mark 2 = 88
       (before the repairs: uninitialised IV bytes, then the out-of-bounds pad read or the hang) *)
Definition tot_F_short : list N := forge 4 0 1 tot_key (map N.of_nat (seq 100 26)) [].
(* (b) T = 1, six trailing bytes after the IV slot: the first load has no block (now NODATA) *)
Definition tot_F_empty : list N := forge 4 0 1 tot_key tot_iv20 [1; 2; 3; 4; 5; 6].
(* (c) ECB, two body blocks whose plaintext ends in the byte 200 > 32 (before the repair: the write
       length wrapped) *)
Definition tot_F_badpad : list N :=
  forge 4 0 1 tot_key tot_iv20 (aes_enc tot_key (repeat 7 16) ++ aes_enc tot_key (repeat 200 16)).
(* (d) as (c) with last byte 20: 16 < 20 <= 32, the write stops inside the first block *)
Definition tot_F_pad20 : list N :=
  forge 4 0 1 tot_key tot_iv20 (aes_enc tot_key (repeat 7 16) ++ aes_enc tot_key (repeat 20 16)).

(* (e) a ragged body: one whole chunk (c = 4: 64 bytes) followed by 5 bytes.  Before the repair of
       load_buffer the 5 bytes became a READY buffer without blocks and decryption hung; now the second
       load is NODATA and the chunk is written as it is (it was loaded as a non-final one) *)
Definition tot_chunk : list N := repeat 1 16 ++ repeat 2 16 ++ repeat 3 16 ++ repeat 4 16.
Definition tot_F_ragged : list N :=
  forge 4 0 1 tot_key tot_iv20
    (aes_enc tot_key (repeat 1 16) ++ aes_enc tot_key (repeat 2 16) ++ aes_enc tot_key (repeat 3 16) ++
     aes_enc tot_key (repeat 4 16) ++ [9; 9; 9; 9; 9]).

Lemma tot_run_ragged :
  length tot_F_ragged = 137%nat /\ ver 4 tot_F_ragged tot_key = Ok true /\
  dec 4 4 1 tot_F_ragged tot_key = Ok tot_chunk /\
  map ld_total (loads_of 4 false (skipn (text_mark 1) tot_F_ragged)) = [4%nat] /\
  map ld_final (loads_of 4 false (skipn (text_mark 1) tot_F_ragged)) = [false] /\
  loads_of 4 false (skipn (text_mark 1) tot_F_empty) = [].
Proof. vm_compute. repeat split. Qed.

Lemma tot_runs :
  (length tot_F_short = 74%nat /\ ver 4 tot_F_short tot_key = Ok true /\ dec 4 4 2 tot_F_short tot_key = Ok []) /\
  (length tot_F_empty = 74%nat /\ ver 4 tot_F_empty tot_key = Ok true /\ dec 4 4 1 tot_F_empty tot_key = Ok []) /\
  (length tot_F_badpad = 100%nat /\ ver 4 tot_F_badpad tot_key = Ok true /\ dec 4 4 1 tot_F_badpad tot_key = Ok []) /\
  (length tot_F_pad20 = 100%nat /\ ver 4 tot_F_pad20 tot_key = Ok true /\
   dec 4 4 1 tot_F_pad20 tot_key = Ok (repeat 7 12)).
Proof. vm_compute. repeat split. Qed.

Lemma not_encrypted c hbuf T F key out :
  dec c hbuf T F key = Ok out ->
  (length out < length F - text_mark T - 16 \/ length F - text_mark T <= length out \/
   length F - text_mark T < 16 \/ (length F - text_mark T) mod 16 <> 0)%nat ->
  ~ exists P seed cm hm, enc_params c hbuf T P key seed cm hm /\ enc c hbuf T P key cm hm seed = Ok F.
Proof.
  intros Hd Hl [P [seed [cm [hm [EP HF]]]]].
  pose proof (enc_output_window _ _ _ _ _ _ _ _ _ _ EP HF Hd). lia.
Qed.

(* C11_decrypt_total beyond the earlier domain: accepted, decrypted without crash, never produced by encryption *)
Example C11_decrypt_total_nonvacuous :
  (1 <= 4)%nat /\ (1 <= 4)%nat /\ (1 <= 2)%nat /\ N.of_nat (length tot_F_short) < 2 ^ 56 /\
  (length tot_F_short < text_mark 2)%nat /\
  ver 4 tot_F_short tot_key = Ok true /\ dec 4 4 2 tot_F_short tot_key = Ok [] /\
  (~ exists P seed cm hm, enc_params 4 4 2 P tot_key seed cm hm /\ enc 4 4 2 P tot_key cm hm seed = Ok tot_F_short) /\
  ver 4 tot_F_empty tot_key = Ok true /\ dec 4 4 1 tot_F_empty tot_key = Ok [] /\
  (~ exists P seed cm hm, enc_params 4 4 1 P tot_key seed cm hm /\ enc 4 4 1 P tot_key cm hm seed = Ok tot_F_empty) /\
  ver 4 tot_F_ragged tot_key = Ok true /\ dec 4 4 1 tot_F_ragged tot_key = Ok tot_chunk /\
  (~ exists P seed cm hm, enc_params 4 4 1 P tot_key seed cm hm /\ enc 4 4 1 P tot_key cm hm seed = Ok tot_F_ragged).
Proof.
  destruct tot_runs as [[L1 [V1 D1]] [[L2 [V2 D2]] _]].
  destruct tot_run_ragged as [L5 [V5 [D5 _]]].
  do 3 (split; [lia|]). split; [rewrite L1; vm_compute; reflexivity|].
  split; [rewrite L1; vm_compute; lia|].
  split; [exact V1|]. split; [exact D1|].
  split; [apply (not_encrypted _ _ _ _ _ _ D1); right; left; rewrite L1; vm_compute; lia|].
  split; [exact V2|]. split; [exact D2|].
  split; [apply (not_encrypted _ _ _ _ _ _ D2); right; right; left; rewrite L2; vm_compute; lia|].
  split; [exact V5|]. split; [exact D5|].
  apply (not_encrypted _ _ _ _ _ _ D5). right. right. right. rewrite L5. vm_compute. discriminate.
Qed.

(* C12_verdicts_coincide beyond the earlier domain: the last plaintext byte is not a pad length *)
Example C12_verdicts_coincide_nonvacuous :
  (1 <= 4)%nat /\ (1 <= 4)%nat /\ (1 <= 1)%nat /\ N.of_nat (length tot_F_badpad) < 2 ^ 56 /\
  verify 4 tot_F_badpad tot_key = Ok 0 /\
  ver 4 tot_F_badpad tot_key = Ok true /\ dec 4 4 1 tot_F_badpad tot_key = Ok [] /\
  (~ exists P seed cm hm, enc_params 4 4 1 P tot_key seed cm hm /\ enc 4 4 1 P tot_key cm hm seed = Ok tot_F_badpad) /\
  ver 4 tot_F_pad20 tot_key = Ok true /\ dec 4 4 1 tot_F_pad20 tot_key = Ok (repeat 7 12) /\
  (~ exists P seed cm hm, enc_params 4 4 1 P tot_key seed cm hm /\ enc 4 4 1 P tot_key cm hm seed = Ok tot_F_pad20).
Proof.
  destruct tot_runs as [_ [_ [[L3 [V3 D3]] [L4 [V4 D4]]]]].
  do 3 (split; [lia|]). split; [rewrite L3; vm_compute; reflexivity|].
  split; [apply ver_true_iff; exact V3|].
  split; [exact V3|]. split; [exact D3|].
  split; [apply (not_encrypted _ _ _ _ _ _ D3); left; rewrite L3; vm_compute; lia|].
  split; [exact V4|]. split; [exact D4|].
  apply (not_encrypted _ _ _ _ _ _ D4). left. rewrite L4. vm_compute. lia.
Qed.
