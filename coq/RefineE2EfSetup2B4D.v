(* PARALLEL4 (H1), decrypt copy of the loop lemma of RefineE2EfSetup2B4: cmode = 0, create false. *)
From Coq Require Import ZArith NArith List String Bool Lia PeanoNat Ascii.
From Wencry Require Import Bytes AesModel ModesModel MiniC MiniCRun MiniCLemmas SrcRun SrcRun2 SrcRun5
     RefineAesLib RefineAesOps RefineAes RefineModes RefineE2ENames RefineE2EfWNames RefineE2EfSetup2B3 RefineE2EfSetup2B3D RefineE2EfSetup2B4.
From Wencry Require RefineFileBase RefineConcMem.
Import ListNotations.
Local Open Scope list_scope.
Local Open Scope string_scope.
Local Open Scope Z_scope.

Section LoopD.
Variables (T : nat) (key : list N) (cm : N) (ke : mkind) (oiv : string) (ivc : list Z) (m : nat) (fs : list (string * cfile)).
Hypothesis HT : (T <= 255)%nat.
Hypothesis Hc : create false cm = Some ke.
Hypothesis Bk : block16 key.
Hypothesis Hl : (16 <= List.length ivc)%nat.
Notation ma := (heap_name m).
Notation SMf := (SMf key ivc).
Notation PPf := (PPf ke m).
Notation LInv := (LInv T key oiv ivc m).
Notation LInv_next := (LInv_next T key ke oiv ivc m HT Hl).
Notation SMf_S := (SMf_S key ivc).
Notation PPf_S := (PPf_S ke m).

Lemma cry_loop_wd : forall d i M Pt f l, (i + d = T)%nat -> LInv M Pt f i ->
  lget l "i" = Some (VInt (Z.of_nat i)) -> lget l "mode" = Some (VPtr ma 0) -> lget l "cmode" = Some (VInt 0) -> lget l "ctype" = Some (VInt (Z.of_N cm)) ->
  exists l', exec whole_prog [] (210 + d) cry_loop {| mem := M; loc := l; pre := "rc."; files := fs; ptrs := Pt; fresh := f |} =
    Ok (Normal, {| mem := (M ++ SMf f d)%list; loc := l'; pre := "rc."; files := fs; ptrs := (Pt ++ PPf f i d)%list; fresh := (f + d)%nat |}) /\
    lget l' "mode" = Some (VPtr ma 0).
Proof.
  induction d as [|d IH]; intros i M Pt f l Hd I Li Lm Lc Lt.
  - exists l. split; [|exact Lm]. unfold SMf, PPf. cbn [seq map concat flat_map]. rewrite !app_nil_r, (Nat.add_0_r f).
    change (210 + 0)%nat with (S 209). unfold cry_loop. rewrite exec_loop. unfold cry_cond. cbn [eval bind as_int loc pre mem append].
    rewrite Li, (li_thr _ _ _ _ _ _ _ _ _ I). cbn [bind as_int]. rewrite load_u8cell. cbn [bind as_int eval_bin]. rewrite (wrap_U8_small (Z.of_nat T)) by lia. rewrite (wrap_I32_small (Z.of_nat T)) by lia.
    destruct (Z.ltb_spec (Z.of_nat i) (Z.of_nat T)); [lia|]. cbn [bind as_int]. change (0 =? 0) with true. cbv iota. reflexivity.
  - assert (Hi : (i < T)%nat) by lia.
    pose proof (createCryMaster_wd 208 M Pt f (lset l "$t2" (VInt 0)) "rc." fs key cm ke oiv ivc ltac:(lia) Hc Bk (li_tabs _ _ _ _ _ _ _ _ _ I) (li_key _ _ _ _ _ _ _ _ _ I) (li_iv _ _ _ _ _ _ _ _ _ I) Hl
                  (fun y => li_free _ _ _ _ _ _ _ _ _ I f y (le_n _)) (li_sz _ _ _ _ _ _ _ _ _ I) (li_al _ _ _ _ _ _ _ _ _ I) (li_cls _ _ _ _ _ _ _ _ _ I f (le_n _)) (li_pk _ _ _ _ _ _ _ _ _ I) (li_pi _ _ _ _ _ _ _ _ _ I)) as CC.
    clear CC.
    pose proof (createCryMaster_wd (208 + d) M Pt f l "rc." fs key cm ke oiv ivc ltac:(lia) Hc Bk (li_tabs _ _ _ _ _ _ _ _ _ I) (li_key _ _ _ _ _ _ _ _ _ I) (li_iv _ _ _ _ _ _ _ _ _ I) Hl
                  (fun y => li_free _ _ _ _ _ _ _ _ _ I f y (le_n _)) (li_sz _ _ _ _ _ _ _ _ _ I) (li_al _ _ _ _ _ _ _ _ _ I) (li_cls _ _ _ _ _ _ _ _ _ I f (le_n _)) (li_pk _ _ _ _ _ _ _ _ _ I) (li_pi _ _ _ _ _ _ _ _ _ I)) as CC.
    set (l1 := lset l "$t2" (VPtr (hobj f) 0)).
    set (l2 := lset l1 "i" (VInt (Z.of_nat (S i)))).
    destruct (IH (S i) (M ++ smf (hobj f) key ivc)%list (Pt ++ [(class_key (hobj f), VPtr (cls_of ke) 0); (ptr_key ma (8 * Z.of_nat i), VPtr (hobj f) 0)])%list (S f) l2
                ltac:(lia) (LInv_next _ _ _ _ I)) as (l' & EL & Lm').
    { unfold l2. apply lget_lset_same. }
    { unfold l2, l1. rewrite !lget_lset_other by discriminate. exact Lm. }
    { unfold l2, l1. rewrite !lget_lset_other by discriminate. exact Lc. }
    { unfold l2, l1. rewrite !lget_lset_other by discriminate. exact Lt. }
    exists l'. split; [|exact Lm'].
    replace (210 + S d)%nat with (S (210 + d)) by lia. unfold cry_loop. rewrite exec_loop. unfold cry_cond at 1. cbn [eval bind as_int loc pre mem append].
    rewrite Li, (li_thr _ _ _ _ _ _ _ _ _ I). cbn [bind as_int]. rewrite load_u8cell. cbn [bind as_int eval_bin]. rewrite (wrap_U8_small (Z.of_nat T)) by lia. rewrite (wrap_I32_small (Z.of_nat T)) by lia.
    destruct (Z.ltb_spec (Z.of_nat i) (Z.of_nat T)); [|lia]. cbn [bind as_int]. change (1 =? 0) with false. cbv iota.
    (* the body *)
    replace (210 + d)%nat with (S (S (208 + d))) by lia. unfold cry_body at 1. rewrite exec_seq.
    rewrite (RefineFileBase.x_scall whole_prog [] (208 + d) (Some "$t2") "AesFactory::createCryMaster/2" (Some (EField "aesfactory.")) [EVar "cmode"; EVar "ctype"]
               {| mem := M; loc := l; pre := "rc."; files := fs; ptrs := Pt; fresh := f |} [VInt 0; VInt (Z.of_N cm)] "rc.aesfactory." _ _ _
               ltac:(cbn [eval_list eval bind loc]; rewrite Lc, Lt; reflexivity) eq_refl CC eq_refl).
    cbn [bind]. unfold with_loc. cbn [mem loc pre files ptrs fresh]. fold l1.
    rewrite x_setptrcell. cbn [eval bind as_int loc]. unfold l1 at 1 2 3. rewrite lget_lset_same. rewrite !lget_lset_other by discriminate. rewrite Lm, Li. cbn [bind as_int].
    unfold with_ptrs. cbn [mem loc pre files ptrs fresh].
    replace (0 + Z.of_nat i * 8) with (8 * Z.of_nat i) by lia.
    rewrite (lset_new _ (Pt ++ [(class_key (hobj f), VPtr (cls_of ke) 0)])%list (ptr_key ma (8 * Z.of_nat i)) (VPtr (hobj f) 0)).
    2:{ rewrite RefineConcMem.lget_app, (li_cell _ _ _ _ _ _ _ _ _ I i (le_n _)). cbn [lget]. destruct (ptr_key_hash m (8 * Z.of_nat i)) as [rk ->]. reflexivity. }
    rewrite <- app_assoc. cbn [app].
    (* the step *)
    unfold cry_step at 1. rewrite exec_set. cbn [eval bind as_int loc]. unfold l1 at 1. rewrite lget_lset_other by discriminate. rewrite Li. cbn [bind as_int eval_bin].
    rewrite arith_I32_small by lia. cbn [bind]. unfold with_loc. cbn [mem loc pre files ptrs fresh].
    replace (Z.of_nat i + 1) with (Z.of_nat (S i)) by lia. fold l2.
    (* the rest of the loop *)
    fold cry_loop. replace (S (S (208 + d))) with (210 + d)%nat by lia.
    rewrite (exec_mono _ _ _ _ _ _ EL) by lia.
    rewrite SMf_S, PPf_S, <- !app_assoc. cbn [app]. replace (f + S d)%nat with (S f + d)%nat by lia. reflexivity.
Qed.
End LoopD.
Print Assumptions cry_loop_wd.
