(* C03 -- output is independent of thread scheduling; each block transformed exactly once.
   For every schedule that runs the system to its final state, the exported bytes are those of
   the sequential reference (chunk j transformed block by block by stream j mod T, exported in
   load order) -- for any cipher stream object, any T >= 1, any input. *)
From Wencry Require Import Bytes FileModel PipeConc PipeProps PipeProofs.
From Wencry Require PipeSync.
From Wencry.Gen Require Sync.
Local Open Scope nat_scope.

Section C03.
Variable S : Type.
Variable tr : S -> list N -> S * list N.
Variable tr_event : nat -> S -> list event.
Variable c : nat.
Variable ispadding : bool.

Theorem C03_output_is_schedule_independent : forall T sigma0 ls sched s,
  1 <= T -> length sigma0 = T -> wf_loads ls ->
  all_ok (snd (seq_chunks S tr c ispadding T sigma0 0 ls)) ->
  run S tr tr_event c ispadding (init S T sigma0 ls) sched = Some s -> terminal S s = true ->
  output S s = ok_bytes (snd (seq_chunks S tr c ispadding T sigma0 0 ls)) /\
  wsts S s = fst (seq_chunks S tr c ispadding T sigma0 0 ls) /\
  crashed S s = None.
Proof. exact (C03_output_is_schedule_independent_proof S tr tr_event c ispadding). Qed.
End C03.
Print Assumptions C03_output_is_schedule_independent.

(* instance: history-recording identity streams.  Every block of the input is handed to exactly
   one stream -- the one that owns its chunk -- exactly once and in file order, under every schedule *)
Theorem C03_each_block_exactly_once_by_its_owner : forall c ispadding T ls sched s i,
  1 <= T -> wf_loads ls ->
  all_ok (snd (seq_chunks (list (list N)) hist_tr c ispadding T (repeat [] T) 0 ls)) ->
  run (list (list N)) hist_tr (fun _ _ => []) c ispadding (init (list (list N)) T (repeat [] T) ls) sched = Some s ->
  terminal (list (list N)) s = true -> i < T ->
  nth i (wsts (list (list N)) s) [] = owned_blocks T i ls.
Proof. exact C03_each_block_exactly_once_by_its_owner_proof. Qed.
Print Assumptions C03_each_block_exactly_once_by_its_owner.

(* the functions of the hand-over protocol, as clang reads the CURRENT sources, are textually the ones the transition system
   was written from (regenerated on every run; see PipeSync.v) *)
Theorem C03_protocol_text_is_the_modelled_one : Sync.sync_skeleton = PipeSync.expected_skeleton.
Proof. exact PipeSync.skeleton_unchanged. Qed.
Print Assumptions C03_protocol_text_is_the_modelled_one.
