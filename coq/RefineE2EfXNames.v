(* COPY of RefineE2ENames.v with a finer class of ordinary names: a name that starts with "s" is ordinary too unless its second
   character is "i" ("sizeof:...") or it is "s" itself (a member of the hasher) -- so "seed", "st.ctype", "s_box", "sum" are names.
   Names of MiniC objects in two runs of the same translated code: the run the refinement lemmas of RefineFile*.v talk about
   (the hasher created by HashFactory at the root prefix "", the filebuffer64 at "buf.", as the allocation plan of SrcRun2 says)
   and the run of the whole-file entry points of SrcRun5 (no plan: a new object gets the prefix "#<fresh>.").
   [tau W] maps a name of the first run to the name of the second; W records which of the two planned objects exist already
   and under which heap index the second run created them. *)
From Coq Require Import ZArith NArith List String Bool Lia Ascii Arith.
From Wencry Require Import MiniC MiniCLemmas RefineCliLib.
Import ListNotations.
Local Open Scope list_scope.
Local Open Scope string_scope.

(* ---------------- strings ---------------- *)
Fixpoint strip (p k : string) : option string :=
  match p with
  | EmptyString => Some k
  | String c p' => match k with String d k' => if Ascii.eqb c d then strip p' k' else None | EmptyString => None end
  end.
Lemma strip_app : forall p r, strip p (p ++ r) = Some r.
Proof. induction p as [|c p IH]; intro r; cbn; [reflexivity|]. rewrite Ascii.eqb_refl. apply IH. Qed.
Lemma strip_Some : forall p k r, strip p k = Some r -> k = p ++ r.
Proof.
  induction p as [|c p IH]; intros k r H; cbn in H; [injection H as <-; reflexivity|].
  destruct k as [|d k]; [discriminate|]. destruct (Ascii.eqb_spec c d) as [<-|]; [|discriminate]. cbn. f_equal. apply IH, H.
Qed.
Lemma append_nil_r : forall s : string, s ++ "" = s.
Proof. induction s as [|c s IH]; cbn; [reflexivity|]. now rewrite IH. Qed.
Lemma append_inj_l' : forall p a b : string, p ++ a = p ++ b -> a = b.
Proof. exact append_inj_l. Qed.

(* decimal digits *)
Definition isd (c : ascii) : bool := (48 <=? nat_of_ascii c)%nat && (nat_of_ascii c <=? 57)%nat.
Fixpoint digs (s : string) : bool := match s with EmptyString => true | String c r => isd c && digs r end.
Lemma digs_app : forall a b, digs (a ++ b) = digs a && digs b.
Proof. induction a as [|c a IH]; intro b; cbn; [reflexivity|]. rewrite IH. now rewrite andb_assoc. Qed.
Lemma digs_dig : forall d, (d < 10)%nat -> digs (dig d) = true.
Proof.
  intros d H. unfold dig. cbn [digs]. rewrite andb_true_r. unfold isd. rewrite nat_ascii_embedding by lia.
  apply andb_true_iff. split; apply Nat.leb_le; lia.
Qed.
Lemma digs_nat_string : forall n, digs (nat_string n) = true.
Proof.
  induction n as [n IH] using lt_wf_ind. destruct (Nat.lt_ge_cases n 10) as [H|H].
  - rewrite ns_small by exact H. apply digs_dig, H.
  - rewrite ns_big by exact H. rewrite digs_app. rewrite IH by (apply Nat.div_lt; lia).
    rewrite digs_dig by (apply Nat.mod_upper_bound; lia). reflexivity.
Qed.
Lemma digs_split : forall d1 d2 x y, digs d1 = true -> digs d2 = true -> d1 ++ "." ++ x = d2 ++ "." ++ y -> d1 = d2 /\ x = y.
Proof.
  induction d1 as [|c d1 IH]; intros d2 x y H1 H2 E.
  - destruct d2 as [|c2 d2]; cbn in E.
    + injection E as E. auto.
    + injection E as Ec E. subst c2. cbn in H2. discriminate.
  - destruct d2 as [|c2 d2]; cbn in E.
    + injection E as Ec E. subst c. cbn in H1. discriminate.
    + injection E as Ec E. subst c2. cbn in H1, H2. apply andb_true_iff in H1. apply andb_true_iff in H2.
      destruct (IH d2 x y (proj2 H1) (proj2 H2) E) as [-> ->]. auto.
Qed.
Lemma digs_nodot : forall d1 d2 y, digs d1 = true -> digs d2 = true -> d1 <> d2 ++ "." ++ y.
Proof.
  induction d1 as [|c d1 IH]; intros d2 y H1 H2 E.
  - destruct d2; discriminate.
  - destruct d2 as [|c2 d2]; cbn in E.
    + injection E as Ec E. subst c. cbn in H1. discriminate.
    + injection E as Ec E. cbn in H1, H2. apply andb_true_iff in H1. apply andb_true_iff in H2. eapply IH; [apply H1|apply H2|exact E].
Qed.

(* the prefix of the object created when the heap counter was n *)
Definition hobj (n : nat) : string := heap_name n ++ ".".
Lemma hobj_app : forall n x, hobj n ++ x = String "#" (nat_string n ++ "." ++ x).
Proof. intros n x. unfold hobj, heap_name. cbn [append]. f_equal. apply append_assoc_s. Qed.
Lemma hobj_inj : forall n m x y, hobj n ++ x = hobj m ++ y -> n = m /\ x = y.
Proof.
  intros n m x y E. rewrite !hobj_app in E. injection E as E.
  apply digs_split in E; try apply digs_nat_string. destruct E as [E ->]. split; [apply nat_string_inj, E|reflexivity].
Qed.
Lemma heap_not_hobj : forall n m y, heap_name n <> hobj m ++ y.
Proof. intros n m y E. rewrite hobj_app in E. unfold heap_name in E. injection E as E. eapply digs_nodot; [| |exact E]; apply digs_nat_string. Qed.
Lemma hobj_newobj_name : forall n, ("#" ++ nat_string n ++ ".")%string = hobj n.
Proof. reflexivity. Qed.

(* ---------------- the classes of names ---------------- *)
Definition okc (c : ascii) : bool := negb (existsb (Ascii.eqb c) ["#"; "b"; "h"; "t"; "w"; "s"; "c"; "a"]%char).
Definition oks2 (r : string) : bool := match r with String d _ => negb (Ascii.eqb d "i") | EmptyString => false end.
Definition ordb (k : string) : bool :=
  match k with String c r => okc c || (Ascii.eqb c "s" && oks2 r) | EmptyString => false end.
Definition five : list string := ["hashblock"; "totalsize"; "h"; "w"; "s"].
Definition inb (k : string) (l : list string) : bool := existsb (String.eqb k) l.
Lemma inb_In : forall k l, inb k l = true <-> In k l.
Proof.
  intros k l. unfold inb. rewrite existsb_exists. split.
  - intros [x [Hx E]]. apply String.eqb_eq in E. subst x. exact Hx.
  - intro H. exists k. split; [exact H|apply String.eqb_refl].
Qed.

Record world := { wa : option nat; wb : option nat; wf : nat }.
Definition hp (W : world) : string := match wa W with Some n => hobj n | None => "" end.
Definition bp (W : world) : string := match wb W with Some n => hobj n | None => "buf." end.
Definition t1 (W : world) (r : string) : string := if String.eqb r "" then hp W else if String.eqb r "buf." then bp W else r.
Definition tau (W : world) (k : string) : string :=
  match k with
  | EmptyString => hp W
  | _ => if inb k five then hp W ++ k else
         match strip "buf." k with
         | Some r => bp W ++ r
         | None => match strip "class:" k with Some r => "class:" ++ t1 W r | None => k end
         end
  end.

Definition wfW (W : world) : Prop :=
  (forall a, wa W = Some a -> (a < wf W)%nat) /\ (forall b, wb W = Some b -> (b < wf W)%nat) /\
  (forall a b, wa W = Some a -> wb W = Some b -> a <> b).
Definition natidx (W : world) (n : nat) : Prop := (n < wf W)%nat /\ wa W <> Some n /\ wb W <> Some n.

(* object names of the first run *)
Definition nm (W : world) (k : string) : Prop :=
  ordb k = true \/ (exists r, k = "sizeof:" ++ r) \/ (exists n, k = heap_name n) \/ (exists n x, k = hobj n ++ x /\ natidx W n) \/
  (wa W <> None /\ (k = "" \/ In k five)) \/ (wb W <> None /\ exists x, k = "buf." ++ x).
(* keys of the table of pointer members: object names and "class:<prefix>" *)
Definition clsp (W : world) (r : string) : Prop :=
  (wa W <> None /\ r = "") \/ (wb W <> None /\ r = "buf.") \/ (exists n, r = hobj n /\ natidx W n).
Definition nmp (W : world) (k : string) : Prop := nm W k \/ exists r, k = "class:" ++ r /\ clsp W r.
(* prefixes a method may run on *)
Definition preok (W : world) (p : string) : Prop :=
  ordb p = true \/ (exists n g, p = hobj n ++ g /\ natidx W n) \/ (wa W <> None /\ p = "") \/ (wb W <> None /\ exists g, p = "buf." ++ g).

(* ---------------- tau on each class ---------------- *)
Lemma okc_cases : forall c, okc c = true ->
  Ascii.eqb c "#" = false /\ Ascii.eqb c "b" = false /\ Ascii.eqb c "h" = false /\ Ascii.eqb c "t" = false /\
  Ascii.eqb c "w" = false /\ Ascii.eqb c "s" = false /\ Ascii.eqb c "c" = false /\ Ascii.eqb c "a" = false.
Proof.
  intros c H. unfold okc in H. cbn [existsb] in H. apply negb_true_iff in H.
  repeat (apply orb_false_iff in H; destruct H as [? H]). repeat split; assumption.
Qed.
Lemma eqb_sym_a : forall a b, Ascii.eqb a b = Ascii.eqb b a.
Proof. intros a b. destruct (Ascii.eqb_spec a b), (Ascii.eqb_spec b a); congruence. Qed.

Lemma tau_first : forall W c r, Ascii.eqb c "b" = false -> Ascii.eqb c "h" = false -> Ascii.eqb c "t" = false ->
  Ascii.eqb c "w" = false -> Ascii.eqb c "s" = false -> Ascii.eqb c "c" = false -> tau W (String c r) = String c r.
Proof.
  intros W c r Hb Hh Ht Hw Hs Hc. unfold tau, inb, five. cbn [existsb String.eqb strip].
  rewrite Hh, Ht, Hw, Hs. cbn [andb orb]. rewrite (eqb_sym_a "b" c), Hb. rewrite (eqb_sym_a "c" c), Hc. reflexivity.
Qed.
Lemma ordb_cases : forall k, ordb k = true ->
  (exists c r, k = String c r /\ okc c = true) \/ (exists d r, k = String "s" (String d r) /\ Ascii.eqb d "i" = false).
Proof.
  intros [|c r] H; [discriminate|]. cbn [ordb] in H. apply orb_prop in H. destruct H as [H|H]; [left; eauto|].
  apply andb_prop in H. destruct H as [H1 H2]. apply Ascii.eqb_eq in H1. subst c. destruct r as [|d r]; [discriminate H2|].
  cbn [oks2] in H2. apply negb_true_iff in H2. right. eauto.
Qed.
Lemma tau_ord : forall W k, ordb k = true -> tau W k = k.
Proof.
  intros W k H. destruct (ordb_cases k H) as [(c & r & -> & Oc)|(d & r & -> & Hd)].
  - apply okc_cases in Oc. destruct Oc as (_ & Hb & Hh & Ht & Hw & Hs & Hc & _). apply tau_first; assumption.
  - unfold tau, inb, five. cbn [existsb String.eqb Ascii.eqb Bool.eqb strip andb orb]. reflexivity.
Qed.
Lemma tau_hashc : forall W r, tau W (String "#" r) = String "#" r.
Proof. intros. apply tau_first; reflexivity. Qed.
Lemma tau_heap : forall W n, tau W (heap_name n) = heap_name n.
Proof. intros. apply tau_hashc. Qed.
Lemma tau_hobj : forall W n x, tau W (hobj n ++ x) = hobj n ++ x.
Proof. intros. rewrite hobj_app. apply tau_hashc. Qed.
Lemma tau_sz : forall W r, tau W ("sizeof:" ++ r) = "sizeof:" ++ r.
Proof. intros. reflexivity. Qed.
Lemma tau_empty : forall W, tau W "" = hp W.
Proof. reflexivity. Qed.
Lemma tau_five : forall W k, In k five -> tau W k = hp W ++ k.
Proof. intros W k H. cbn [In five] in H. repeat (destruct H as [<-|H]; [reflexivity|]). destruct H. Qed.
Lemma tau_buf : forall W x, tau W ("buf." ++ x) = bp W ++ x.
Proof. intros. reflexivity. Qed.
Lemma tau_class : forall W r, tau W ("class:" ++ r) = "class:" ++ t1 W r.
Proof. intros. reflexivity. Qed.
Lemma t1_clsp : forall W r, clsp W r -> t1 W r = tau W r.
Proof.
  intros W r [[_ ->]|[[_ ->]|(n & -> & _)]].
  - reflexivity.
  - unfold t1. cbn [String.eqb Ascii.eqb Bool.eqb andb]. change "buf." with ("buf." ++ ""). rewrite tau_buf. now rewrite append_nil_r.
  - unfold t1, hobj, heap_name. cbn [append]. rewrite tau_hashc. cbn [String.eqb Ascii.eqb Bool.eqb andb]. reflexivity.
Qed.

(* the first character of the image *)
Definition hd_is (c : ascii) (k : string) : Prop := exists r, k = String c r.
Lemma hp_some : forall W, wa W <> None -> exists a, wa W = Some a /\ hp W = hobj a.
Proof. intros W H. unfold hp. destruct (wa W) as [a|]; [eauto|congruence]. Qed.
Lemma bp_some : forall W, wb W <> None -> exists b, wb W = Some b /\ bp W = hobj b.
Proof. intros W H. unfold bp. destruct (wb W) as [b|]; [eauto|congruence]. Qed.

(* the image of a name of the first run: what it looks like *)
Inductive shape : string -> Prop :=
| sh_ord : forall k, ordb k = true -> shape k
| sh_sz : forall r, shape ("sizeof:" ++ r)
| sh_heap : forall n, shape (heap_name n)
| sh_obj : forall n x, shape (hobj n ++ x).
Lemma tau_nm : forall W k, nm W k ->
  (ordb k = true /\ tau W k = k) \/ (exists r, k = "sizeof:" ++ r /\ tau W k = k) \/ (exists n, k = heap_name n /\ tau W k = k) \/
  (exists n x, k = hobj n ++ x /\ natidx W n /\ tau W k = k) \/
  (exists a, wa W = Some a /\ (k = "" \/ In k five) /\ tau W k = hobj a ++ k) \/
  (exists b x, wb W = Some b /\ k = "buf." ++ x /\ tau W k = hobj b ++ x).
Proof.
  intros W k [H|[[r ->]|[[n ->]|[(n & x & -> & Hn)|[[Ha H]|[Hb [x ->]]]]]]].
  - left. split; [exact H|apply tau_ord, H].
  - right. left. eauto.
  - right. right. left. exists n. split; [reflexivity|apply tau_heap].
  - right. right. right. left. exists n, x. split; [reflexivity|]. split; [exact Hn|apply tau_hobj].
  - right. right. right. right. left. destruct (hp_some W Ha) as (a & Ea & Eh). exists a. split; [exact Ea|]. split; [exact H|].
    destruct H as [->|H]; [rewrite tau_empty, Eh, append_nil_r; reflexivity|rewrite tau_five, Eh by exact H; reflexivity].
  - right. right. right. right. right. destruct (bp_some W Hb) as (b & Eb & Eh). exists b, x. split; [exact Eb|]. split; [reflexivity|]. rewrite tau_buf, Eh. reflexivity.
Qed.

Definition okc' (c : ascii) : bool := negb (existsb (Ascii.eqb c) ["#"; "b"; "h"; "t"; "w"; "c"; "a"]%char).
Lemma okc'_cases : forall c, okc' c = true ->
  Ascii.eqb c "#" = false /\ Ascii.eqb c "b" = false /\ Ascii.eqb c "h" = false /\ Ascii.eqb c "t" = false /\
  Ascii.eqb c "w" = false /\ Ascii.eqb c "c" = false /\ Ascii.eqb c "a" = false.
Proof.
  intros c H. unfold okc' in H. cbn [existsb] in H. apply negb_true_iff in H.
  repeat (apply orb_false_iff in H; destruct H as [? H]). repeat split; assumption.
Qed.
(* the first character of an ordinary name; if it is "s", the second one is not "i" *)
Lemma ordb_hd : forall k, ordb k = true -> exists c r, k = String c r /\ okc' c = true /\ (c = "s"%char -> exists d r', r = String d r' /\ Ascii.eqb d "i" = false).
Proof.
  intros k H. destruct (ordb_cases k H) as [(c & r & -> & Oc)|(d & r & -> & Hd)].
  - exists c, r. split; [reflexivity|]. apply okc_cases in Oc. destruct Oc as (X1 & X2 & X3 & X4 & X5 & X6 & X7 & X8).
    split; [unfold okc'; cbn [existsb]; rewrite X1, X2, X3, X4, X5, X7, X8; reflexivity|].
    intros ->. discriminate X6.
  - exists "s"%char, (String d r). split; [reflexivity|]. split; [reflexivity|]. intros _. eauto.
Qed.

Lemma five_ne : forall k, In k five -> k <> "".
Proof. intros k H E. subst k. cbn in H. intuition discriminate. Qed.

(* injectivity on the names of one world *)
Ltac ord_contra O E :=
  let c := fresh "c" in let r := fresh "r" in let Oc := fresh "Oc" in let Os := fresh "Os" in
  apply ordb_hd in O; destruct O as (c & r & -> & Oc & Os); apply okc'_cases in Oc;
  rewrite ?hobj_app in E; unfold heap_name in E; cbn [append] in E;
  let Ec := fresh "Ec" in let Er := fresh "Er" in injection E as Ec Er; subst c;
  first [ destruct Oc as (X & _); discriminate X
        | let d := fresh "d" in let r' := fresh "r'" in let Ed := fresh "Ed" in let Hd := fresh "Hd" in
          destruct (Os eq_refl) as (d & r' & Ed & Hd); subst r; injection Er as Ed' _; subst d; discriminate Hd
        | destruct Oc as (X1 & X2 & X3 & X4 & X5 & X6 & X7); discriminate ].

Lemma tau_inj_nm : forall W k1 k2, wfW W -> nm W k1 -> nm W k2 -> tau W k1 = tau W k2 -> k1 = k2.
Proof.
  intros W k1 k2 (Wa & Wb & Wab) H1 H2 E.
  apply tau_nm in H1. apply tau_nm in H2.
  destruct H1 as [[O1 T1]|[(r1 & -> & T1)|[(n1 & -> & T1)|[(n1 & x1 & -> & I1 & T1)|[(a1 & A1 & K1 & T1)|(b1 & x1 & B1 & -> & T1)]]]]];
  destruct H2 as [[O2 T2]|[(r2 & -> & T2)|[(n2 & -> & T2)|[(n2 & x2 & -> & I2 & T2)|[(a2 & A2 & K2 & T2)|(b2 & x2 & B2 & -> & T2)]]]]];
  rewrite T1, T2 in E; clear T1 T2; try exact E;
  try (exfalso; ord_contra O1 E);
  try (exfalso; symmetry in E; ord_contra O2 E);
  try (exfalso; rewrite ?hobj_app in E; discriminate E);
  try (exfalso; first [eapply heap_not_hobj; exact E | eapply heap_not_hobj; symmetry; exact E]).
  - (* nat / H *) apply hobj_inj in E. destruct E as [-> _]. destruct I1 as (_ & X & _). congruence.
  - apply hobj_inj in E. destruct E as [-> _]. destruct I1 as (_ & _ & X). congruence.
  - apply hobj_inj in E. destruct E as [<- _]. destruct I2 as (_ & X & _). congruence.
  - apply hobj_inj in E. apply E.
  - apply hobj_inj in E. destruct E as [E _]. exfalso. subst. eapply Wab; eauto.
  - apply hobj_inj in E. destruct E as [<- _]. destruct I2 as (_ & _ & X). congruence.
  - apply hobj_inj in E. destruct E as [E _]. exfalso. subst. eapply Wab; eauto.
  - apply hobj_inj in E. destruct E as [_ ->]. reflexivity.
Qed.

Lemma clsp_nm : forall W r, clsp W r -> nm W r.
Proof.
  intros W r [[H ->]|[[H ->]|(n & -> & H)]].
  - right. right. right. right. left. auto.
  - right. right. right. right. right. split; [exact H|]. exists "". reflexivity.
  - right. right. right. left. exists n, "". split; [now rewrite append_nil_r|exact H].
Qed.
Lemma tau_nm_not_class : forall W k r, nm W k -> tau W k <> "class:" ++ r.
Proof.
  intros W k r H E. apply tau_nm in H.
  destruct H as [[O T]|[(r1 & -> & T)|[(n1 & -> & T)|[(n1 & x1 & -> & I1 & T)|[(a1 & A1 & K1 & T)|(b1 & x1 & B1 & -> & T)]]]]]; rewrite T in E; clear T;
  rewrite ?hobj_app in E; try discriminate E.
  apply ordb_hd in O. destruct O as (c & r0 & -> & Oc & _). apply okc'_cases in Oc. injection E as Ec _. subst c.
  destruct Oc as (X1 & X2 & X3 & X4 & X5 & X6 & X7). discriminate.
Qed.
Lemma tau_inj : forall W k1 k2, wfW W -> nmp W k1 -> nmp W k2 -> tau W k1 = tau W k2 -> k1 = k2.
Proof.
  intros W k1 k2 HW [H1|(r1 & -> & C1)] [H2|(r2 & -> & C2)] E.
  - eapply tau_inj_nm; eassumption.
  - exfalso. rewrite (tau_class W r2) in E. eapply tau_nm_not_class; eassumption.
  - exfalso. rewrite (tau_class W r1) in E. symmetry in E. eapply tau_nm_not_class; eassumption.
  - rewrite !tau_class in E. apply append_inj_l in E. rewrite !t1_clsp in E by assumption.
    f_equal. eapply tau_inj_nm; try eassumption; apply clsp_nm; assumption.
Qed.

(* ---------------- members of an object: prefix ++ field ---------------- *)
Lemma ordb_app : forall p f, ordb p = true -> ordb (p ++ f) = true.
Proof.
  intros p f H. destruct (ordb_cases p H) as [(c & r & -> & Oc)|(d & r & -> & Hd)]; cbn [append ordb oks2].
  - rewrite Oc. reflexivity.
  - rewrite Hd. reflexivity.
Qed.
Lemma coh : forall W p f, preok W p -> (p = "" -> In f five) -> tau W (p ++ f) = tau W p ++ f /\ nm W (p ++ f).
Proof.
  intros W p f [H|[(n & g & -> & H)|[[H ->]|[H (g & ->)]]]] H0.
  - rewrite !tau_ord by (try apply ordb_app; exact H). split; [reflexivity|]. left. apply ordb_app, H.
  - rewrite (tau_hobj W n g). rewrite append_assoc_s. rewrite tau_hobj. split; [reflexivity|]. right. right. right. left. eauto.
  - specialize (H0 eq_refl). cbn [append]. rewrite tau_five, tau_empty by exact H0. split; [reflexivity|].
    right. right. right. right. left. auto.
  - change (("buf." ++ g) ++ f) with ("buf." ++ (g ++ f)). rewrite !tau_buf. rewrite append_assoc_s. split; [reflexivity|].
    right. right. right. right. right. split; [exact H|eauto].
Qed.
Lemma preok_app : forall W p h, preok W p -> p <> "" -> preok W (p ++ h) /\ p ++ h <> "".
Proof.
  intros W p h [H|[(n & g & -> & H)|[[H ->]|[H (g & ->)]]]] Hne.
  - split; [left; apply ordb_app, H|]. destruct p; [discriminate|discriminate].
  - split; [right; left; exists n, (g ++ h); split; [apply append_assoc_s|exact H]|]. rewrite hobj_app. discriminate.
  - congruence.
  - split; [right; right; right; split; [exact H|exists (g ++ h); reflexivity]|discriminate].
Qed.
Lemma preok_nm : forall W p, preok W p -> nm W p.
Proof.
  intros W p [H|[(n & g & -> & H)|[[H ->]|[H (g & ->)]]]].
  - left. exact H.
  - right. right. right. left. eauto.
  - right. right. right. right. left. auto.
  - right. right. right. right. right. eauto.
Qed.

(* ---------------- worlds grow ---------------- *)
Definition ext (W W' : world) : Prop :=
  (wf W <= wf W')%nat /\
  (forall a, wa W = Some a -> wa W' = Some a) /\ (forall a, wa W = None -> wa W' = Some a -> (wf W <= a)%nat) /\
  (forall b, wb W = Some b -> wb W' = Some b) /\ (forall b, wb W = None -> wb W' = Some b -> (wf W <= b)%nat).
Lemma ext_refl : forall W, ext W W.
Proof. intro W. unfold ext. repeat split; auto; intros; congruence. Qed.
Lemma ext_trans : forall W1 W2 W3, ext W1 W2 -> ext W2 W3 -> ext W1 W3.
Proof.
  intros W1 W2 W3 (F1 & A1 & A1' & B1 & B1') (F2 & A2 & A2' & B2 & B2'). unfold ext. repeat split.
  - lia.
  - auto.
  - intros a H1 H3. destruct (wa W2) as [a2|] eqn:E2.
    + rewrite (A2 a2 eq_refl) in H3. injection H3 as <-. apply A1'; auto.
    + specialize (A2' a eq_refl H3). lia.
  - auto.
  - intros b H1 H3. destruct (wb W2) as [b2|] eqn:E2.
    + rewrite (B2 b2 eq_refl) in H3. injection H3 as <-. apply B1'; auto.
    + specialize (B2' b eq_refl H3). lia.
Qed.
Lemma natidx_mono : forall W W' n, ext W W' -> natidx W n -> natidx W' n.
Proof.
  intros W W' n (F & A & A' & B & B') (Hn & Ha & Hb). unfold natidx. repeat split.
  - lia.
  - intro E. destruct (wa W) as [a|] eqn:Ea; [rewrite (A a eq_refl) in E; congruence|]. specialize (A' n eq_refl E). lia.
  - intro E. destruct (wb W) as [b|] eqn:Eb; [rewrite (B b eq_refl) in E; congruence|]. specialize (B' n eq_refl E). lia.
Qed.
Lemma hp_mono : forall W W', ext W W' -> wa W <> None -> hp W' = hp W /\ wa W' <> None.
Proof.
  intros W W' (_ & A & _) H. unfold hp. destruct (wa W) as [a|]; [|congruence]. rewrite (A a eq_refl). split; [reflexivity|discriminate].
Qed.
Lemma bp_mono : forall W W', ext W W' -> wb W <> None -> bp W' = bp W /\ wb W' <> None.
Proof.
  intros W W' (_ & _ & _ & B & _) H. unfold bp. destruct (wb W) as [b|]; [|congruence]. rewrite (B b eq_refl). split; [reflexivity|discriminate].
Qed.
Lemma nm_mono : forall W W' k, ext W W' -> nm W k -> nm W' k /\ tau W' k = tau W k.
Proof.
  intros W W' k X [H|[[r ->]|[[n ->]|[(n & x & -> & Hn)|[[Ha H]|[Hb [x ->]]]]]]].
  - split; [left; exact H|]. now rewrite !tau_ord.
  - split; [right; left; eauto|reflexivity].
  - split; [right; right; left; eauto|]. now rewrite !tau_heap.
  - split; [right; right; right; left; exists n, x; split; [reflexivity|eapply natidx_mono; eassumption]|]. now rewrite !tau_hobj.
  - destruct (hp_mono W W' X Ha) as [Eh Ha']. split; [right; right; right; right; left; auto|].
    destruct H as [->|H]; [rewrite !tau_empty; exact Eh|rewrite !tau_five by exact H; now rewrite Eh].
  - destruct (bp_mono W W' X Hb) as [Eh Hb']. split; [right; right; right; right; right; eauto|]. rewrite !tau_buf. now rewrite Eh.
Qed.
Lemma clsp_mono : forall W W' r, ext W W' -> clsp W r -> clsp W' r.
Proof.
  intros W W' r X [[H ->]|[[H ->]|(n & -> & H)]].
  - left. split; [apply (hp_mono W W' X H)|reflexivity].
  - right. left. split; [apply (bp_mono W W' X H)|reflexivity].
  - right. right. exists n. split; [reflexivity|eapply natidx_mono; eassumption].
Qed.
Lemma nmp_mono : forall W W' k, ext W W' -> nmp W k -> nmp W' k /\ tau W' k = tau W k.
Proof.
  intros W W' k X [H|(r & -> & C)].
  - destruct (nm_mono W W' k X H). split; [left|]; assumption.
  - split; [right; exists r; split; [reflexivity|eapply clsp_mono; eassumption]|].
    rewrite !tau_class. rewrite (t1_clsp W' r) by (eapply clsp_mono; eassumption). rewrite (t1_clsp W r C). f_equal.
    apply nm_mono; [exact X|apply clsp_nm, C].
Qed.
Lemma preok_mono : forall W W' p, ext W W' -> preok W p -> preok W' p.
Proof.
  intros W W' p X [H|[(n & g & -> & H)|[[H ->]|[H (g & ->)]]]].
  - left. exact H.
  - right. left. exists n, g. split; [reflexivity|eapply natidx_mono; eassumption].
  - right. right. left. split; [apply (hp_mono W W' X H)|reflexivity].
  - right. right. right. split; [apply (bp_mono W W' X H)|eauto].
Qed.

(* the three ways a world grows *)
Definition Wn (W : world) : world := {| wa := wa W; wb := wb W; wf := S (wf W) |}.
Definition Wa (W : world) : world := {| wa := Some (wf W); wb := wb W; wf := S (wf W) |}.
Definition Wb (W : world) : world := {| wa := wa W; wb := Some (wf W); wf := S (wf W) |}.
Lemma ext_Wn : forall W, ext W (Wn W).
Proof. intro W. unfold ext, Wn. cbn. repeat split; auto; intros; congruence. Qed.
Lemma wf_Wn : forall W, wfW W -> wfW (Wn W).
Proof.
  intros W (A & B & C). unfold wfW, Wn. cbn. split; [|split].
  - intros a H. apply A in H. lia.
  - intros b H. apply B in H. lia.
  - exact C.
Qed.
Lemma ext_Wa : forall W, wa W = None -> ext W (Wa W).
Proof. intros W H. unfold ext, Wa. cbn. repeat split; auto; intros; try congruence. injection H1 as <-. lia. Qed.
Lemma wf_Wa : forall W, wfW W -> wfW (Wa W).
Proof.
  intros W (A & B & C). unfold wfW, Wa. cbn. split; [|split].
  - intros a H. injection H as <-. lia.
  - intros b H. apply B in H. lia.
  - intros a b H H0. injection H as <-. apply B in H0. lia.
Qed.
Lemma ext_Wb : forall W, wb W = None -> ext W (Wb W).
Proof. intros W H. unfold ext, Wb. cbn. repeat split; auto; intros; try congruence. injection H1 as <-. lia. Qed.
Lemma wf_Wb : forall W, wfW W -> wfW (Wb W).
Proof.
  intros W (A & B & C). unfold wfW, Wb. cbn. split; [|split].
  - intros a H. apply A in H. lia.
  - intros b H. injection H as <-. lia.
  - intros a b H H0. injection H0 as <-. apply A in H. lia.
Qed.
Lemma natidx_new : forall W, wfW W -> natidx (Wn W) (wf W).
Proof.
  intros W (A & B & _). unfold natidx, Wn. cbn. repeat split; [lia| |]; intro E; [apply A in E|apply B in E]; lia.
Qed.
