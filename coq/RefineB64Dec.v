(* base64_to_hex (translated) = Base64Model.base64_to_hex *)
From Coq Require Import ZArith NArith List String Bool Lia.
From Wencry Require Import Bytes Base64Model Base64Proofs MiniC MiniCRun MiniCLemmas SrcRun RefineB64Lib.
From Wencry.Gen Require Import B64Tab.
From Wencry.Gen Require Src_base64.
Import ListNotations.
Local Open Scope Z_scope.
Local Open Scope string_scope.
Local Open Scope list_scope.
Local Ltac Zify.zify_post_hook ::= Z.to_euclidean_division_equations.

Definition dec_st (text : list N) (n i tail j idx h : Z) (cells : list Z) (extra : list (string * value)) : state :=
  {| mem := [("b64_tab", Src_base64.g_b64_tab); ("hex_tab", Src_base64.g_hex_tab);
             ("in", bytes_object text); ("out", {| o_ty := U8; o_cells := cells |})];
     loc := [("base64_in", VPtr "in" 0); ("len", VInt n); ("hex_out", VPtr "out" 0);
             ("tail", VInt tail); ("j", VInt j); ("idx", VInt idx); ("h_in", VInt h); ("i", VInt i)] ++ extra;
     pre := ""; files := []; ptrs := []; fresh := 0 |}.
Definition dextra_ok (extra : list (string * value)) : Prop :=
  extra = [] \/ exists a b, extra = [("j'1", VInt a); ("$t1", VInt b)].

Definition dec_loop : stmt :=
  match f_body Src_base64.f_base64_to_hex_3 with
  | SSeq _ (SSeq _ (SSeq _ (SSeq _ (SSeq _ (SSeq l _))))) => l
  | _ => SSkip
  end.
Definition dec_body : stmt := match dec_loop with SLoop _ b _ => b | _ => SSkip end.
Definition dec_rest : stmt :=
  match f_body Src_base64.f_base64_to_hex_3 with
  | SSeq _ (SSeq _ (SSeq _ (SSeq _ (SSeq _ (SSeq _ r))))) => r
  | _ => SSkip
  end.

Definition lt128 (l : list N) : bool := forallb (fun c => (c <? 128)%N) l.
Lemma lt128_bytesb : forall l, lt128 l = true -> bytesb l = true.
Proof.
  unfold lt128, bytesb. intros l H. rewrite forallb_forall in *. intros x Hx. specialize (H x Hx).
  unfold byte_ok. apply N.ltb_lt in H. apply N.ltb_lt. lia.
Qed.
Lemma lt128_mid : forall done x rest, lt128 (done ++ x :: rest) = true -> (x < 128)%N.
Proof.
  intros done x rest H. unfold lt128 in H. rewrite forallb_app in H. apply andb_true_iff in H. destruct H as [_ H].
  cbn [forallb] in H. apply andb_true_iff in H. destruct H as [H _]. apply N.ltb_lt, H.
Qed.
Lemma lt128_Forall : forall l, lt128 l = true -> Forall (fun c => (c < 128)%N) l.
Proof.
  intros l H. unfold lt128 in H. rewrite forallb_forall in H. apply Forall_forall. intros x Hx. apply N.ltb_lt, H, Hx.
Qed.

Lemma hex_lt256 : forall c, (nthN hex_tab c 0%N < 256)%N.
Proof.
  intros c. unfold nthN.
  destruct (nth_in_or_default (N.to_nat c) hex_tab 0%N) as [H|H]; [|rewrite H; reflexivity].
  assert (F : forallb (fun v => (v <? 256)%N) hex_tab = true) by (vm_compute; reflexivity).
  rewrite forallb_forall in F. apply N.ltb_lt, F, H.
Qed.
Lemma load_hex : forall c, (c < 128)%N -> load_obj Src_base64.g_hex_tab U8 (Z.of_N c) = Ok (Z.of_N (nthN hex_tab c 0%N)).
Proof.
  intros c Hc. rewrite hex_tab_obj. rewrite <- (N2Nat.id c) at 1. rewrite nat_N_Z.
  rewrite load_bytes; [reflexivity|vm_compute; reflexivity|].
  change (List.length hex_tab) with 128%nat. lia.
Qed.

Local Open Scope N_scope.
Lemma shl_byte_lt26 x s : x < 256 -> s <= 18 -> N.shiftl x s < 2 ^ 26.
Proof.
  intros Hx Hs. rewrite N.shiftl_mul_pow2.
  assert (2 ^ s <= 2 ^ 18) by (apply N.pow_le_mono_r; lia).
  change (2 ^ 18) with 262144 in H. change (2 ^ 26) with 67108864. nia.
Qed.
Lemma byte_lt hh s : N.land (N.shiftr hh s) 255 < 256.
Proof. change 255 with (N.ones 8). rewrite N.land_ones. apply N.mod_lt. discriminate. Qed.
Local Open Scope Z_scope.

Lemma z_pack26 hN xN s sz : (hN < 2 ^ 26)%N -> (xN < 256)%N -> (s <= 18)%N -> sz = Z.of_N s ->
  wrap U32 (Z.lor (Z.of_N hN) (Z.shiftl (wrap U32 (Z.of_N xN)) sz mod 2 ^ 32)) = Z.of_N (N.lor hN (N.shiftl xN s)).
Proof.
  intros Hh Hx Hs ->. pose proof (shl_byte_lt26 xN s Hx Hs) as B.
  pose proof (N_lor_lt _ _ _ Hh B) as B2.
  change (2 ^ 26)%N with 67108864%N in *.
  rewrite (wrap_U32_small (Z.of_N xN)) by lia.
  rewrite <- of_N_shiftl. rewrite Z.mod_small by lia. rewrite <- of_N_lor.
  apply wrap_U32_small. lia.
Qed.
Lemma z_byte hh s sz : sz = Z.of_N s -> Z.land (Z.shiftr (Z.of_N hh) sz) 255 = Z.of_N (N.land (N.shiftr hh s) 255).
Proof. intros ->. rewrite of_N_land, of_N_shiftr. reflexivity. Qed.

(* '=' : tail++ *)
Lemma dec_body_pad : forall text n done rest tail j idx h cells extra,
  text = done ++ 61%N :: rest -> lt128 text = true -> 0 <= tail < 2 ^ 30 ->
  exec b64_prog [] 40 dec_body (dec_st text n (Z.of_nat (List.length done)) tail j idx h cells extra)
  = Ok (Normal, dec_st text n (Z.of_nat (List.length done)) (tail + 1) j idx h cells extra).
Proof.
  intros text n done rest tail j idx h cells extra Hd Hb Ht.
  pose proof (load_mid done 61%N rest) as Hl. rewrite <- Hd in Hl. specialize (Hl (lt128_bytesb _ Hb)).
  change (Z.of_N 61) with 61 in Hl.
  unfold dec_body, dec_loop. cbn [f_body Src_base64.f_base64_to_hex_3]. unfold dec_st.
  eapply x_if_true; [evr ltac:(rewrite Hl); reflexivity|discriminate|].
  eapply x_set; [evr fail; reflexivity|stnorm].
Qed.

(* symbol number 0, 1, 2 of a group: accumulate *)
Lemma dec_body_acc : forall text n done c rest tail j idx h cells extra,
  text = done ++ c :: rest -> lt128 text = true -> c <> 61%N -> (j < 3)%N -> (h < 2 ^ 26)%N ->
  exec b64_prog [] 40 dec_body (dec_st text n (Z.of_nat (List.length done)) tail (Z.of_N j) idx (Z.of_N h) cells extra)
  = Ok (Normal, dec_st text n (Z.of_nat (List.length done)) tail (Z.of_N (j + 1)) idx
          (Z.of_N (N.lor h (N.shiftl (nthN hex_tab c 0%N) (6 * (3 - j))))) cells extra).
Proof.
  intros text n done c rest tail j idx h cells extra Hd Hb Hne Hj Hh.
  assert (Hc : (c < 128)%N) by (subst text; eapply lt128_mid; eauto).
  assert (Hc61 : (Z.of_N c =? 61)%Z = false) by (apply Z.eqb_neq; lia).
  assert (Hc255 : (Z.of_N c =? 255)%Z = false) by (apply Z.eqb_neq; lia).
  pose proof (load_mid done c rest) as Hl. rewrite <- Hd in Hl. specialize (Hl (lt128_bytesb _ Hb)).
  pose proof (hex_lt256 c) as Hv.
  unfold dec_body, dec_loop. cbn [f_body Src_base64.f_base64_to_hex_3]. unfold dec_st.
  assert (Hj3 : j = 0%N \/ j = 1%N \/ j = 2%N) by lia.
  destruct Hj3 as [-> | [-> | ->]].
  all: (eapply x_if_false; [evr ltac:(first [rewrite Hl | rewrite Hc61]); reflexivity|]).
  all: (eapply x_seq; [eapply x_if_false; [evr ltac:(first [rewrite Hl | rewrite Hc255]); reflexivity|reflexivity]|]).
  all: (eapply x_seq;
    [ eapply x_set; [|stnorm];
      evr ltac:(first [rewrite Hl | rewrite (load_hex c Hc)]);
      first [ rewrite (z_pack26 h (nthN hex_tab c 0%N) 18%N) by (assumption || lia || reflexivity)
            | rewrite (z_pack26 h (nthN hex_tab c 0%N) 12%N) by (assumption || lia || reflexivity)
            | rewrite (z_pack26 h (nthN hex_tab c 0%N) 6%N) by (assumption || lia || reflexivity) ];
      reflexivity |]).
  all: (eapply x_seq; [set_step|]).
  all: (eapply x_if_false; [evr fail; reflexivity|]).
  all: reflexivity.
Qed.

Ltac byte_store hh pfx s :=
  pose proof (byte_lt hh s);
  eapply x_store;
  [ evr fail; reflexivity
  | evr ltac:(first [ rewrite (z_byte hh s) by reflexivity
                    | rewrite (wrap_U32_small 255) by lia
                    | rewrite (wrap_U32_small (Z.of_N (N.land (N.shiftr hh s) 255))) by lia
                    | rewrite (wrap_U8_small (Z.of_N (N.land (N.shiftr hh s) 255))) by lia ]); reflexivity
  | reflexivity
  | eapply (store_u8 _ pfx);
    [ rewrite <- ?app_assoc; reflexivity
    | rewrite ?app_length, map_length; cbn [List.length]; lia
    | lia ]
  | stnorm ].
Ltac byte_iter hh pfx s :=
  eapply x_loop_iter;
  [ evr fail; reflexivity | discriminate
  | eapply x_seq; [set_step|]; eapply x_seq; [set_step|]; byte_store hh pfx s
  | set_step
  | ].

(* symbol number 3: the group is complete, three bytes are written *)
Lemma dec_body_grp : forall text n done c rest tail h out a b c0 tl extra,
  text = done ++ c :: rest -> lt128 text = true -> c <> 61%N -> (h < 2 ^ 26)%N ->
  Z.of_nat (List.length out) < 2 ^ 30 -> dextra_ok extra ->
  let hh := N.lor h (N.shiftl (nthN hex_tab c 0%N) 0) in
  exists extra', dextra_ok extra' /\
  exec b64_prog [] 40 dec_body
    (dec_st text n (Z.of_nat (List.length done)) tail 3 (Z.of_nat (List.length out)) (Z.of_N h)
            (map Z.of_N out ++ a :: b :: c0 :: tl) extra)
  = Ok (Normal, dec_st text n (Z.of_nat (List.length done)) tail 0 (Z.of_nat (List.length out) + 1 + 1 + 1) 0
          (map Z.of_N (out ++ [N.land (N.shiftr hh 16) 255; N.land (N.shiftr hh 8) 255; N.land (N.shiftr hh 0) 255]) ++ tl) extra').
Proof.
  intros text n done c rest tail h out a b c0 tl extra Hd Hb Hne Hh Hidx Hex hh.
  assert (Hc : (c < 128)%N) by (subst text; eapply lt128_mid; eauto).
  assert (Hc61 : (Z.of_N c =? 61)%Z = false) by (apply Z.eqb_neq; lia).
  assert (Hc255 : (Z.of_N c =? 255)%Z = false) by (apply Z.eqb_neq; lia).
  pose proof (load_mid done c rest) as Hl. rewrite <- Hd in Hl. specialize (Hl (lt128_bytesb _ Hb)).
  pose proof (hex_lt256 c) as Hv.
  exists [("j'1", VInt 3); ("$t1", VInt (Z.of_nat (List.length out) + 1 + 1))].
  split; [right; eauto|].
  unfold dec_body, dec_loop. cbn [f_body Src_base64.f_base64_to_hex_3]. unfold dec_st.
  destruct Hex as [-> | (ea & eb & ->)].
  all: (eapply x_if_false; [evr ltac:(first [rewrite Hl | rewrite Hc61]); reflexivity|]).
  all: (eapply x_seq; [eapply x_if_false; [evr ltac:(first [rewrite Hl | rewrite Hc255]); reflexivity|reflexivity]|]).
  all: (eapply x_seq;
    [ eapply x_set; [|stnorm];
      evr ltac:(first [rewrite Hl | rewrite (load_hex c Hc)]);
      rewrite (z_pack26 h (nthN hex_tab c 0%N) 0%N) by (assumption || lia || reflexivity);
      reflexivity |]).
  all: fold hh.
  all: (eapply x_seq; [set_step|]).
  all: (eapply x_if_true; [evr fail; reflexivity|discriminate|]).
  all: (eapply x_seq; [set_step|]).
  all: (eapply x_seq;
    [ byte_iter hh (map Z.of_N out) 16%N;
      byte_iter hh (map Z.of_N out ++ [Z.of_N (N.land (N.shiftr hh 16) 255)]) 8%N;
      byte_iter hh ((map Z.of_N out ++ [Z.of_N (N.land (N.shiftr hh 16) 255)]) ++ [Z.of_N (N.land (N.shiftr hh 8) 255)]) 0%N;
      eapply x_loop_end; evr fail; reflexivity
    | ]).
  all: (eapply x_set; [evr fail; reflexivity|]).
  all: unfold with_loc; cbn [lset mset loc mem pre files ptrs fresh String.eqb Ascii.eqb Bool.eqb andb app].
  all: rewrite map_app; cbn [map]; rewrite <- !app_assoc; cbn [app]; reflexivity.
Qed.

Lemma some_inj {A} (a b : A) : Some a = Some b -> a = b.
Proof. congruence. Qed.

Lemma dec_fold_none : forall l, fold_left dec_step l None = None.
Proof. induction l as [|c l IH]; [reflexivity|exact IH]. Qed.

Lemma dec_step_eq : forall t j h out, dec_step (Some (t, j, h, out)) 61%N = Some ((t + 1)%N, j, h, out).
Proof. reflexivity. Qed.
Lemma dec_step_ne : forall t j h out c, c <> 61%N ->
  dec_step (Some (t, j, h, out)) c =
  (let h' := N.lor h (N.shiftl (nthN hex_tab c 0%N) (6 * (3 - j))) in
   if ((j + 1) mod 4 =? 0)%N
   then Some (t, (j + 1) mod 4, 0, out ++ map (fun q => N.land (N.shiftr h' (8 * (2 - q))) 255) [0; 1; 2])%N
   else Some (t, (j + 1) mod 4, h', out))%N.
Proof. intros t j h out c Hne. unfold dec_step. apply N.eqb_neq in Hne. rewrite Hne. reflexivity. Qed.

Lemma dec_step_len : forall t j h out c t1 j1 h1 out1,
  dec_step (Some (t, j, h, out)) c = Some (t1, j1, h1, out1) -> (List.length out <= List.length out1)%nat.
Proof.
  intros t j h out c t1 j1 h1 out1 H. unfold dec_step in H.
  destruct (c =? 61)%N; [inversion H; subst; lia|].
  destruct ((j + 1) mod 4 =? 0)%N; inversion H; subst; [rewrite app_length|]; lia.
Qed.
Lemma dec_fold_len : forall l t j h out t1 j1 h1 out1,
  fold_left dec_step l (Some (t, j, h, out)) = Some (t1, j1, h1, out1) -> (List.length out <= List.length out1)%nat.
Proof.
  induction l as [|c l IH]; intros t j h out t1 j1 h1 out1 H.
  - cbn in H. inversion H; subst; lia.
  - cbn [fold_left] in H. destruct (dec_step (Some (t, j, h, out)) c) as [[[[t2 j2] h2] out2]|] eqn:E.
    + apply dec_step_len in E. apply IH in H. lia.
    + rewrite dec_fold_none in H. discriminate.
Qed.

Section Decode.
Variable text : list N.
Variable n : Z.
Variable cap : nat.
Variable fz : Z.
Hypothesis Hb : lt128 text = true.
Hypothesis Hn : n = Z.of_nat (List.length text).
Hypothesis Hlen : n < 2 ^ 28.

Definition dcells (out : list N) : list Z := map Z.of_N out ++ repeat fz (cap - List.length out).

Definition dec_inv (done : nat) (t j h : N) (out : list N) (extra : list (string * value)) : Prop :=
  (j < 4)%N /\ (h < 2 ^ 26)%N /\ Z.of_N t <= Z.of_nat done /\
  (4 * List.length out + 3 * N.to_nat j <= 3 * done)%nat /\ dextra_ok extra.

Lemma dec_step_inv : forall done c rest t j h out extra t1 j1 h1 out1,
  text = done ++ c :: rest -> dec_inv (List.length done) t j h out extra ->
  dec_step (Some (t, j, h, out)) c = Some (t1, j1, h1, out1) -> (List.length out1 <= cap)%nat ->
  exists extra1, dec_inv (S (List.length done)) t1 j1 h1 out1 extra1 /\
    exec b64_prog [] 40 dec_body
      (dec_st text n (Z.of_nat (List.length done)) (Z.of_N t) (Z.of_N j) (Z.of_nat (List.length out)) (Z.of_N h) (dcells out) extra)
    = Ok (Normal, dec_st text n (Z.of_nat (List.length done)) (Z.of_N t1) (Z.of_N j1) (Z.of_nat (List.length out1)) (Z.of_N h1) (dcells out1) extra1).
Proof.
  intros done c rest t j h out extra t1 j1 h1 out1 Hd (Hj & Hh & Ht & Hcnt & Hex) Hs Hcap.
  assert (Hdl : List.length text = (List.length done + S (List.length rest))%nat) by (rewrite Hd, app_length; reflexivity).
  pose proof (hex_lt256 c) as Hv.
  destruct (N.eq_dec c 61) as [->|Hne].
  - rewrite dec_step_eq in Hs. inversion Hs; subst t1 j1 h1 out1; clear Hs.
    exists extra. split; [unfold dec_inv; repeat split; try assumption; lia|].
    replace (Z.of_N (t + 1)) with (Z.of_N t + 1) by lia.
    eapply dec_body_pad; eauto. lia.
  - rewrite (dec_step_ne _ _ _ _ _ Hne) in Hs. cbv zeta in Hs.
    assert (Hj4 : j = 0%N \/ j = 1%N \/ j = 2%N \/ j = 3%N) by lia.
    destruct Hj4 as [-> | [-> | [-> | ->]]].
    1-3: (cbn [N.add N.modulo N.eqb] in Hs;
          apply some_inj in Hs;
          apply pair_equal_spec in Hs; destruct Hs as [Hs <-]; apply pair_equal_spec in Hs; destruct Hs as [Hs <-];
          apply pair_equal_spec in Hs; destruct Hs as [<- <-];
          exists extra; split;
          [ unfold dec_inv; repeat split; try assumption; try lia;
            apply N_lor_lt; [assumption|apply shl_byte_lt26; [assumption|lia]]
          | eapply dec_body_acc; eauto; lia ]).
    change ((3 + 1) mod 4 =? 0)%N with true in Hs. cbv iota in Hs. change ((3 + 1) mod 4)%N with 0%N in Hs.
    apply some_inj in Hs.
    apply pair_equal_spec in Hs; destruct Hs as [Hs <-]; apply pair_equal_spec in Hs; destruct Hs as [Hs <-];
    apply pair_equal_spec in Hs; destruct Hs as [<- <-].
    cbn [map] in *. rewrite app_length in Hcap. cbn [List.length] in Hcap.
    change (N.to_nat 3) with 3%nat in Hcnt.
    unfold dcells at 1.
    replace (cap - List.length out)%nat with (S (S (S (cap - List.length out - 3)))) by lia. cbn [repeat].
    destruct (dec_body_grp text n done c rest (Z.of_N t) h out fz fz fz (repeat fz (cap - List.length out - 3)) extra
                Hd Hb Hne Hh ltac:(lia) Hex) as (extra' & Hex' & E).
    exists extra'. split.
    + unfold dec_inv. rewrite app_length. cbn [List.length]. repeat split; try assumption; try lia.
    + refine (eq_trans E _). unfold dec_st, dcells. rewrite !app_length. cbn [List.length].
      replace (cap - (List.length out + 3))%nat with (cap - List.length out - 3)%nat by lia.
      replace (Z.of_nat (List.length out + 3)) with (Z.of_nat (List.length out) + 1 + 1 + 1) by lia.
      reflexivity.
Qed.
Lemma dec_loop_ok : forall rest done t j h out extra fuel t' j' h' out',
  text = done ++ rest -> dec_inv (List.length done) t j h out extra -> (40 + List.length rest <= fuel)%nat ->
  fold_left dec_step rest (Some (t, j, h, out)) = Some (t', j', h', out') -> (List.length out' <= cap)%nat ->
  exists extra', dec_inv (List.length text) t' j' h' out' extra' /\
    exec b64_prog [] (S fuel) dec_loop
      (dec_st text n (Z.of_nat (List.length done)) (Z.of_N t) (Z.of_N j) (Z.of_nat (List.length out)) (Z.of_N h) (dcells out) extra)
    = Ok (Normal, dec_st text n n (Z.of_N t') (Z.of_N j') (Z.of_nat (List.length out')) (Z.of_N h') (dcells out') extra').
Proof.
  induction rest as [|c rest IH]; intros done t j h out extra fuel t' j' h' out' Hd Hinv Hf Hfold Hcap.
  - cbn [fold_left] in Hfold. apply some_inj in Hfold.
    apply pair_equal_spec in Hfold; destruct Hfold as [Hfold <-]; apply pair_equal_spec in Hfold; destruct Hfold as [Hfold <-];
    apply pair_equal_spec in Hfold; destruct Hfold as [<- <-].
    rewrite app_nil_r in Hd. subst done.
    exists extra. split; [exact Hinv|].
    rewrite <- Hn. unfold dec_loop. cbn [f_body Src_base64.f_base64_to_hex_3].
    eapply x_loop_end. unfold dec_st. evr fail. rewrite Z.ltb_irrefl. reflexivity.
  - cbn [fold_left] in Hfold.
    destruct (dec_step (Some (t, j, h, out)) c) as [[[[t1 j1] h1] out1]|] eqn:Hs; [|rewrite dec_fold_none in Hfold; discriminate].
    pose proof (dec_fold_len _ _ _ _ _ _ _ _ _ Hfold) as Hmono.
    destruct (dec_step_inv done c rest t j h out extra t1 j1 h1 out1 Hd Hinv Hs ltac:(lia)) as (extra1 & Hinv1 & Hbody).
    assert (Hd1 : text = (done ++ [c]) ++ rest) by (rewrite <- app_assoc; exact Hd).
    assert (Hl1 : List.length (done ++ [c]) = S (List.length done)) by (rewrite app_length; cbn; lia).
    rewrite <- Hl1 in Hinv1.
    destruct fuel as [|fuel]; [cbn in Hf; lia|].
    destruct (IH (done ++ [c]) t1 j1 h1 out1 extra1 fuel t' j' h' out' Hd1 Hinv1 ltac:(cbn [List.length] in Hf; lia) Hfold Hcap)
      as (extra' & Hinv' & Hloop).
    exists extra'. split; [exact Hinv'|].
    assert (Hdl : List.length text = (List.length done + S (List.length rest))%nat) by (rewrite Hd, app_length; reflexivity).
    unfold dec_loop in *. cbn [f_body Src_base64.f_base64_to_hex_3] in *.
    eapply x_loop_iter.
    + unfold dec_st. evr fail. reflexivity.
    + destruct (Z.of_nat (List.length done) <? n)%Z eqn:E; [discriminate|]. apply Z.ltb_ge in E. lia.
    + eapply exec_mono; [exact Hbody|cbn [List.length] in Hf; lia].
    + unfold dec_st. eapply x_set; [evr fail; reflexivity|stnorm].
    + rewrite <- Hloop. unfold dec_st. rewrite Hl1.
      replace (Z.of_nat (S (List.length done))) with (Z.of_nat (List.length done) + 1) by lia. reflexivity.
Qed.

Ltac fin_store hh pfx s :=
  eapply x_seq; [set_step|]; eapply x_seq; [set_step|]; byte_store hh pfx s.

Lemma dcells_room : forall out k, (List.length out + S k <= cap)%nat ->
  dcells out = map Z.of_N out ++ fz :: repeat fz (cap - List.length out - 1).
Proof.
  intros out k H. unfold dcells. f_equal. destruct (cap - List.length out)%nat as [|m] eqn:E; [lia|]. cbn [repeat]. f_equal. f_equal. lia.
Qed.

Lemma dec_rest_ok : forall t' j' h' out' extra' outF,
  dec_inv (List.length text) t' j' h' out' extra' ->
  dec_fin (Some (t', j', h', out')) = DecOk outF -> (List.length outF <= cap)%nat ->
  exists s', exec b64_prog [] 60 dec_rest
      (dec_st text n n (Z.of_N t') (Z.of_N j') (Z.of_nat (List.length out')) (Z.of_N h') (dcells out') extra')
    = Ok (Returned (Some (VInt 1)), s') /\
    mget (mem s') "out" = Some {| o_ty := U8; o_cells := dcells outF |}.
Proof.
  intros t' j' h' out' extra' outF (Hj & Hh & Ht & Hcnt & Hex) Hfin Hcap.
  assert (Hidx : Z.of_nat (List.length out') < 2 ^ 30) by lia.
  unfold dec_rest. cbn [f_body Src_base64.f_base64_to_hex_3].
  destruct (N.eq_dec t' 2) as [->|H2].
  - rewrite dec_fin_2 in Hfin. inversion Hfin; subst outF; clear Hfin.
    rewrite app_length in Hcap. cbn [List.length] in Hcap.
    rewrite (dcells_room out' 0) by lia. unfold dec_st.
    clear Hcnt Ht.
    destruct Hex as [-> | (ea & eb & ->)].
    all: eexists; split;
      [ eapply x_seq;
        [ eapply x_if_true; [evr fail; reflexivity|discriminate|]; fin_store h' (map Z.of_N out') 16%N
        | eapply x_return; evr fail; reflexivity ]
      | cbn [mget mem String.eqb Ascii.eqb Bool.eqb andb]; unfold dcells; rewrite map_app, app_length; cbn [map List.length];
        rewrite <- app_assoc; cbn [app];
        replace (cap - (List.length out' + 1))%nat with (cap - List.length out' - 1)%nat by lia; reflexivity ].
  - destruct (N.eq_dec t' 1) as [->|H1].
    + rewrite dec_fin_1 in Hfin. inversion Hfin; subst outF; clear Hfin.
      rewrite app_length in Hcap. cbn [List.length] in Hcap.
      rewrite (dcells_room out' 1) by lia.
      replace (cap - List.length out' - 1)%nat with (S (cap - List.length out' - 2)) by lia. cbn [repeat].
      unfold dec_st. clear Hcnt Ht.
      destruct Hex as [-> | (ea & eb & ->)].
      all: eexists; split;
        [ eapply x_seq;
          [ eapply x_if_false; [evr fail; reflexivity|];
            eapply x_if_true; [evr fail; reflexivity|discriminate|];
            eapply x_seq; [set_step|]; eapply x_seq; [set_step|];
            eapply x_seq; [byte_store h' (map Z.of_N out') 16%N|];
            fin_store h' (map Z.of_N out' ++ [Z.of_N (N.land (N.shiftr h' 16) 255)]) 8%N
          | eapply x_return; evr fail; reflexivity ]
        | cbn [mget mem String.eqb Ascii.eqb Bool.eqb andb]; unfold dcells; rewrite map_app, app_length; cbn [map List.length];
          rewrite <- !app_assoc; cbn [app];
          replace (cap - (List.length out' + 2))%nat with (cap - List.length out' - 2)%nat by lia; reflexivity ].
    + assert (E : dec_fin (Some (t', j', h', out')) = DecOk out').
      { unfold dec_fin. apply N.eqb_neq in H2. apply N.eqb_neq in H1. rewrite H2, H1. reflexivity. }
      rewrite E in Hfin. inversion Hfin; subst outF; clear Hfin.
      assert (E2 : (Z.of_N t' =? 2)%Z = false) by (apply Z.eqb_neq; lia).
      assert (E1 : (Z.of_N t' =? 1)%Z = false) by (apply Z.eqb_neq; lia).
      unfold dec_st. eexists. split.
      * eapply x_seq.
        { eapply x_if_false; [evr ltac:(rewrite E2); reflexivity|].
          eapply x_if_false; [evr ltac:(rewrite E1); reflexivity|]. reflexivity. }
        eapply x_return. evr fail. reflexivity.
      * reflexivity.
Qed.
End Decode.

Lemma map_repeat' : forall A B (f : A -> B) a k, map f (repeat a k) = repeat (f a) k.
Proof. induction k as [|k IH]; cbn [repeat map]; [reflexivity|now rewrite IH]. Qed.

Lemma dec_fin_len : forall t j h o outF, dec_fin (Some (t, j, h, o)) = DecOk outF -> (List.length o <= List.length outF)%nat.
Proof.
  intros t j h o outF H. unfold dec_fin in H.
  destruct (t =? 2)%N; [|destruct (t =? 1)%N]; inversion H; subst; rewrite ?app_length; lia.
Qed.

Lemma SRC_b64_decode_proof : forall cap fill text out,
  forallb (fun c => (c <? 128)%N) text = true -> (N.of_nat (List.length text) < 2 ^ 28)%N -> (fill < 256)%N ->
  base64_to_hex text = DecOk out -> (List.length out <= cap)%nat ->
  src_b64_decode cap fill text = SOk (true, out ++ repeat fill (cap - List.length out)).
Proof.
  intros cap fill text out Hb Hlen0 Hfill Hdec Hcap. unfold src_b64_decode.
  change (forallb (fun c => (c <? 128)%N) text) with (lt128 text) in Hb.
  set (n := zlen text).
  assert (Hn : n = Z.of_nat (List.length text)) by reflexivity.
  assert (Hlen : n < 2 ^ 28) by (change (2 ^ 28)%N with 268435456%N in Hlen0; lia).
  rewrite base64_to_hex_fin, (no_255 _ (lt128_Forall _ Hb)), (no_oob _ (lt128_Forall _ Hb)) in Hdec.
  destruct (fold_left dec_step text (Some (0, 0, 0, [])%N)) as [[[[t' j'] h'] out']|] eqn:Hfold; [|discriminate Hdec].
  pose proof (dec_fin_len _ _ _ _ _ Hdec) as Hlo.
  set (fz := Z.of_N fill).
  assert (Hinv0 : dec_inv 0 0 0 0 [] []).
  { unfold dec_inv. repeat split; try reflexivity; try lia. left; reflexivity. }
  destruct (dec_loop_ok text n cap fz Hb Hn Hlen text [] 0 0 0 [] [] (List.length text + 93)%nat t' j' h' out'
              eq_refl Hinv0 ltac:(lia) Hfold ltac:(lia)) as (extra' & Hinv' & Hloop).
  destruct (dec_rest_ok text n cap fz Hn Hlen t' j' h' out' extra' out Hinv' Hdec Hcap) as (s' & Hrest & Hout).
  assert (E : exec b64_prog [] (S (S (S (S (S (S (S (List.length text + 93))))))))
                (f_body Src_base64.f_base64_to_hex_3)
                {| mem := Src_base64.globals ++ [("in", bytes_object text); ("out", {| o_ty := U8; o_cells := dcells cap fz [] |})];
                   loc := [("base64_in", VPtr "in" 0); ("len", VInt n); ("hex_out", VPtr "out" 0)];
                   pre := ""; files := []; ptrs := []; fresh := 0 |} = Ok (Returned (Some (VInt 1)), s')).
  { cbn [f_body Src_base64.f_base64_to_hex_3].
    eapply x_seq; [set_step|]. eapply x_seq; [set_step|]. eapply x_seq; [set_step|]. eapply x_seq; [set_step|].
    eapply x_seq; [set_step|].
    eapply x_seq; [exact Hloop|].
    eapply exec_mono; [exact Hrest|lia]. }
  unfold call. change (lget b64_prog "base64_to_hex/3") with (Some Src_base64.f_base64_to_hex_3).
  cbn [bind bind_params f_params Src_base64.f_base64_to_hex_3 init_state mem loc pre files ptrs fresh].
  replace (List.length text + 100)%nat with (S (S (S (S (S (S (S (List.length text + 93)))))))) by lia.
  replace (bytes_object (repeat fill cap)) with {| o_ty := U8; o_cells := dcells cap fz [] |}.
  2:{ unfold bytes_object, dcells. cbn [map app List.length]. rewrite map_repeat', Nat.sub_0_r. reflexivity. }
  rewrite E. cbn [bind of_res fst snd]. unfold get_bytes. cbn [mem]. rewrite Hout.
  unfold object_bytes, dcells. cbn [o_cells]. rewrite map_app, map_to_of_N, map_repeat'. unfold fz. rewrite N2Z.id.
  reflexivity.
Qed.
Print Assumptions SRC_b64_decode_proof.
