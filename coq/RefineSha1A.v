From Coq Require Import ZArith NArith List String Bool Lia.
From Wencry Require Import Bytes HashModel MiniC MiniCLemmas MiniCRun SrcRun RefineHashDefs RefineSha1Lib.
From Wencry.Gen Require Import HashConst.
From Wencry.Gen Require Src_sha1.
Import ListNotations.
Local Open Scope string_scope.
Local Open Scope list_scope.
Local Open Scope Z_scope.

Lemma lk_getwdata : lget hash_prog "sha1hash::getwdata/0" = Some Src_sha1.f_sha1hash_getwdata_0. Proof. reflexivity. Qed.
Lemma lk_getHash1 : lget hash_prog "sha1hash::getHash/1" = Some Src_sha1.f_sha1hash_getHash_1. Proof. reflexivity. Qed.
Lemma lk_getHash2 : lget hash_prog "sha1hash::getHash/2" = Some Src_sha1.f_sha1hash_getHash_2. Proof. reflexivity. Qed.
Lemma lk_getres : lget hash_prog "sha1hash::getres/1" = Some Src_sha1.f_sha1hash_getres_1. Proof. reflexivity. Qed.
Lemma lk_reset : lget hash_prog "sha1hash::reset/0" = Some Src_sha1.f_sha1hash_reset_0. Proof. reflexivity. Qed.
Lemma lk_getblen : lget hash_prog "sha1hash::getblen/0" = Some Src_sha1.f_sha1hash_getblen_0. Proof. reflexivity. Qed.
Lemma lk_addtotal : lget hash_prog "Hashmaster::addtotal/1" = Some Src_sha1.f_Hashmaster_addtotal_1. Proof. reflexivity. Qed.

Lemma mset_mset_same : forall m k a b, mset (mset m k a) k b = mset m k b.
Proof.
  induction m as [|[k' o'] r IH]; intros k a b; cbn.
  - now rewrite String.eqb_refl.
  - destruct (String.eqb k k') eqn:E; cbn; rewrite ?String.eqb_refl; auto. rewrite E, IH. reflexivity.
Qed.
Lemma mset_same : forall m k o, mget m k = Some o -> mset m k o = m.
Proof.
  induction m as [|[k' o'] r IH]; intros k o H; cbn in *; [discriminate|].
  destruct (String.eqb k k') eqn:E.
  - apply String.eqb_eq in E. subst. congruence.
  - rewrite IH; auto.
Qed.

(* ---- addtotal ---- *)
Definition tot_add (T n : N) : N := ((T + (n * 8) mod w32) mod 2 ^ 64)%N.
Lemma addtotal_tot : forall st n, hs_total (addtotal st n) = tot_add (hs_total st) n.
Proof. reflexivity. Qed.
Lemma tot_add_lt : forall T n, (tot_add T n < 2 ^ 64)%N.
Proof. intros. apply N.mod_lt. discriminate. Qed.

Lemma load_u64 : forall T, (T < 2 ^ 64)%N -> load_obj (u64_cell T) U64 0 = Ok (Z.of_N T).
Proof.
  intros T H. unfold load_obj, u64_cell. cbn [o_ty o_cells]. change (ity_bytes U64) with 8.
  cbn -[wrap Z.of_N].
  f_equal. rewrite wrapU64. apply Z.mod_small. change (2 ^ 64)%N with 18446744073709551616%N in H. lia.
Qed.
Lemma store_u64 : forall T z x, wrap U64 z = Z.of_N x -> store_obj (u64_cell T) U64 0 z = Ok (u64_cell x).
Proof.
  intros T z x H. unfold store_obj, u64_cell. cbn [o_ty o_cells]. change (ity_bytes U64) with 8.
  cbn -[wrap Z.of_N].
  rewrite H. reflexivity.
Qed.

Lemma tot_add_Z : forall T n, u32 n ->
  wrap U64 (Z.of_N T + wrap U64 (wrap U32 (Z.shiftl (Z.of_N n) 3))) = Z.of_N (tot_add T n).
Proof.
  intros T n Hn. unfold tot_add. rewrite !wrapU64, wrapU32.
  rewrite Z.shiftl_mul_pow2 by lia. change (2 ^ 3) with 8.
  change (2 ^ 64)%N with 18446744073709551616%N. unfold w32.
  rewrite N2Z.inj_mod, N2Z.inj_add, N2Z.inj_mod, N2Z.inj_mul.
  change (Z.of_N 18446744073709551616) with 18446744073709551616. change (Z.of_N 4294967296) with 4294967296. change (Z.of_N 8) with 8.
  rewrite (Z.mod_small ((Z.of_N n * 8) mod 4294967296) 18446744073709551616); [reflexivity|].
  pose proof (Z.mod_pos_bound (Z.of_N n * 8) 4294967296 ltac:(lia)). lia.
Qed.

Section WithVt.
Variable vt : list (string * string).
Notation exec := (MiniC.exec hash_prog vt).

Lemma addtotal_stmt : forall f e m l fs ps fr n T, (2 <= f)%nat ->
  eval (ST m l fs ps fr) e = Ok (VInt (Z.of_N n)) -> u32 n ->
  mget m "totalsize" = Some (u64_cell T) -> (T < 2 ^ 64)%N ->
  exec f (SCall None "Hashmaster::addtotal/1" None [e]) (ST m l fs ps fr) =
  Ok (Normal, ST (mset m "totalsize" (u64_cell (tot_add T n))) l fs ps fr).
Proof.
  intros f e m l fs ps fr n T Hf He Hn Hm HT.
  eapply call_ok with (f1 := 1%nat).
  - cbn [eval_list]. rewrite He. reflexivity.
  - reflexivity.
  - apply lk_addtotal.
  - reflexivity.
  - cbn [Src_sha1.f_Hashmaster_addtotal_1 f_body]. nrm.
    eapply store_ok.
    + ev.
    + ev. apply load_u64. exact HT.
    + mg.
    + apply store_u64. rewrite tot_add_Z by exact Hn. rewrite wrapU64. apply Z.mod_small.
      pose proof (tot_add_lt T n) as B. change (2 ^ 64)%N with 18446744073709551616%N in B. lia.
    + lia.
  - reflexivity.
  - lia.
Qed.
End WithVt.
