(* C05 -- a modified encrypted file never decrypts successfully to different plaintext.
   What is a theorem: acceptance implies a valid tag, and a valid tag over unmodified
   authenticated content (hash number + bytes from offset 48) with an unmodified cipher-mode
   byte yields exactly the original plaintext.  "No other content validates" is HMAC
   unforgeability, a computational assumption: it appears as the explicit event [Forgery].
   The cipher-mode byte (offset 8) is NOT covered by the tag: C05_mode_byte_refuted is the
   computed counterexample to the property as stated (known finding K1). *)
From Wencry Require Import Bytes FileModel FileSpec FileProps FileProofsSec.
Local Open Scope N_scope.

Theorem C05_tampering_reduces_to_forgery : forall c hbuf T P key seed cm hm F F' P',
  enc_params c hbuf T P key seed cm hm ->
  enc c hbuf T P key cm hm seed = Ok F ->
  dec c hbuf T F' key = Ok P' -> P' <> P ->
  Forgery key F F' \/ nth 8 F' 0 <> nth 8 F 0.
Proof. exact C05_tampering_reduces_to_forgery_proof. Qed.
Print Assumptions C05_tampering_reduces_to_forgery.

(* bytes that carry no information: everything before offset 48 except the magic, the two
   mode bytes and the tag itself.  Altering them changes nothing. *)
Theorem C05_padding_bytes_carry_no_information : forall c hbuf T P key seed cm hm F F',
  enc_params c hbuf T P key seed cm hm ->
  enc c hbuf T P key cm hm seed = Ok F ->
  same_outside (10 + hlen hm) 48 F F' ->
  dec c hbuf T F' key = Ok P /\ ver hbuf F' key = Ok true.
Proof. exact C05_padding_bytes_carry_no_information_proof. Qed.
Print Assumptions C05_padding_bytes_carry_no_information.

(* a decryption that reports failure delivers nothing, one that reports success was accepted by verify *)
Theorem C05_success_requires_valid_tag : forall c hbuf T F' key out,
  dec c hbuf T F' key = Ok out -> verify hbuf F' key = Ok 0.
Proof. exact C05_success_requires_valid_tag_proof. Qed.
Print Assumptions C05_success_requires_valid_tag.

(* the property as stated is false of the faithful model: changing only byte 8 (CBC -> ECB)
   of an encrypted file is accepted and delivers different plaintext *)
Theorem C05_mode_byte_refuted : exists c hbuf T P key seed cm hm F F' P',
  enc_params c hbuf T P key seed cm hm /\
  enc c hbuf T P key cm hm seed = Ok F /\
  same_outside 8 9 F F' /\ F' <> F /\
  dec c hbuf T F' key = Ok P' /\ P' <> P.
Proof. exact C05_mode_byte_refuted_proof. Qed.
Print Assumptions C05_mode_byte_refuted.
