(* hmac::gethmac / hmac::cmphmac on top of getres_refines (RefineFileHmac.v) *)
From Coq Require Import ZArith NArith List String Bool Lia PeanoNat.
From Wencry Require Import Bytes HashModel HashProofs HmacProofs ModesProofs MiniC MiniCRun MiniCLemmas SrcRun SrcRun2 RefineHashDefs RefineHashDriver RefineFileBase RefineFileHmac.
From Wencry.Gen Require Layout Src_sha256 Src_sha1 Src_md5 Src_hashmaster Src_hashbuffer Src_hashfactory Src_fheader Src_cry.
Import ListNotations.
Local Open Scope list_scope.
Local Open Scope string_scope.
Local Open Scope Z_scope.

(* ------------------------------------------------------------------------------------ *)
(** * 1. The comparison loop of cmphmac                                                  *)
(* ------------------------------------------------------------------------------------ *)
Lemma skipn_nth_cons : forall (l : list N) k, (k < List.length l)%nat -> skipn k l = nth k l 0%N :: skipn (S k) l.
Proof.
  induction l as [|x l IH]; intros k Hk; cbn [List.length] in Hk; [lia|].
  destruct k as [|k]; [reflexivity|]. cbn [skipn nth]. apply IH. lia.
Qed.

Section CmpLoop.
Variable prog : program.
Variable vt : list (string * string).
Variable M : memory.
Variable L : list (string * value).
Variable pfx : string.
Variable fs : list (string * cfile).
Variable ps : list (string * value).
Variable fr : nat.
Variables so nres : string.
Variables tag stored : list N.
Variable rc : list Z.
Variable hlen : nat.
Hypothesis Hlo : lget L "hmac_out" = Some (VPtr so 0).
Hypothesis Hpr : lget ps (pfx ++ "hmac_res") = Some (VPtr nres 0).
Hypothesis Hml : mget M (pfx ++ "length") = Some (cell1 U8 (Z.of_nat hlen)).
Hypothesis Hms : mget M so = Some (bytes_object stored).
Hypothesis Hmr : mget M nres = Some {| o_ty := U8; o_cells := rc |}.
Hypothesis Hrc : firstn hlen rc = map Z.of_N tag.
Hypothesis Htl : List.length tag = hlen.
Hypothesis Hrl : (hlen <= List.length rc)%nat.
Hypothesis Hsl : (hlen <= List.length stored)%nat.
Hypothesis Htb : bytesb tag = true.
Hypothesis Hsb : bytesb stored = true.
Hypothesis Hh : (hlen <= 64)%nat.

Definition ccond : expr := EBin TBool Lt (EVar "i") (ECast I32 (ELoad U8 (EField "length"))).
Definition cbody : stmt :=
  SIf (EBin TBool Ne (ECast I32 (ELoad U8 (EPtrAdd (EVar "hmac_out") 1 (EVar "i"))))
                     (ECast I32 (ELoad U8 (EPtrAdd (EPtrVar (EField "hmac_res")) 1 (EVar "i")))))
      (SSeq (SDelete (EPtrVar (EField "hmac_res"))) (SReturn (Some (EConst 0)))) SSkip.
Definition cstep : stmt := SSet "i" (EBin I32 Add (EVar "i") (EConst 1)).

Fixpoint cmp_res (d k : nat) : outcome * nat :=
  match d with
  | O => (Normal, k)
  | S d' => if (nth k tag 0 =? nth k stored 0)%N then cmp_res d' (S k) else (Returned (Some (VInt 0)), k)
  end.

Lemma cmp_res_spec : forall d k, (k + d = hlen)%nat ->
  (firstn d (skipn k tag) = firstn d (skipn k stored) /\ fst (cmp_res d k) = Normal) \/
  (firstn d (skipn k tag) <> firstn d (skipn k stored) /\ fst (cmp_res d k) = Returned (Some (VInt 0))).
Proof.
  induction d as [|d IH]; intros k Hk; cbn [cmp_res firstn].
  - left. auto.
  - rewrite (skipn_nth_cons tag k) by lia. rewrite (skipn_nth_cons stored k) by lia. cbn [firstn].
    destruct (N.eqb_spec (nth k tag 0%N) (nth k stored 0%N)) as [E|E].
    + rewrite E. destruct (IH (S k) ltac:(lia)) as [[A B]|[A B]]; [left|right]; (split; [|exact B]); congruence.
    + right. split; [congruence|reflexivity].
Qed.

Lemma nth_rc : forall k, (k < hlen)%nat -> nth k rc 0 = Z.of_N (nth k tag 0%N).
Proof.
  intros k Hk. rewrite <- (firstn_skipn hlen rc). rewrite app_nth1 by (rewrite firstn_length; lia). rewrite Hrc.
  change 0 with (Z.of_N 0%N). apply map_nth.
Qed.

Local Notation Sk k := (St M (lset L "i" (VInt (Z.of_nat k))) pfx fs ps fr).

Lemma cmp_loop : forall d k fuel, (k + d = hlen)%nat -> (d + 5 <= fuel)%nat ->
  exec prog vt fuel (SLoop ccond cbody cstep) (Sk k) = Ok (fst (cmp_res d k), Sk (snd (cmp_res d k))).
Proof.
  induction d as [|d IH]; intros k fuel Hk Hfuel; (destruct fuel as [|fuel]; [lia|]); rewrite exec_loop;
    unfold ccond at 1; cbn [eval bind as_int loc pre mem]; rewrite lget_lset_same; cbn [bind as_int]; rewrite Hml; unfold cell1;
    rewrite load_u8 by (cbn; lia); cbn [bind as_int nth Z.to_nat eval_bin]; rewrite (wrap_U8_small (Z.of_nat hlen)) by lia;
    rewrite (wrap_I32_small (Z.of_nat hlen)) by lia.
  - destruct (Z.ltb_spec (Z.of_nat k) (Z.of_nat hlen)); [lia|]. cbn [bind as_int cmp_res fst snd]. reflexivity.
  - destruct (Z.ltb_spec (Z.of_nat k) (Z.of_nat hlen)); [|lia]. cbn [bind as_int]. change (1 =? 0) with false. cbv iota.
    destruct fuel as [|fuel]; [lia|]. unfold cbody at 1. rewrite exec_if.
    cbn [eval bind as_int loc pre mem ptrs]. rewrite lget_lset_same, lget_lset_other, Hlo, Hpr by discriminate. cbn [bind as_int].
    rewrite Hms, Hmr. unfold bytes_object.
    rewrite load_u8 by (rewrite map_length; lia). rewrite load_u8 by lia. cbn [bind as_int eval_bin].
    replace (Z.to_nat (0 + Z.of_nat k * 1)) with k by lia.
    rewrite (nth_rc k) by lia. change 0 with (Z.of_N 0%N) at 1. rewrite map_nth.
    pose proof (bytesb_nth tag k Htb) as B1. pose proof (bytesb_nth stored k Hsb) as B2.
    rewrite !wrap_U8_small by lia. rewrite !wrap_I32_small by lia.
    cbn [cmp_res]. destruct (N.eqb_spec (nth k tag 0%N) (nth k stored 0%N)) as [E|E].
    + rewrite E, Z.eqb_refl. cbn [bind as_int]. change (0 =? 0) with true. cbv iota.
      destruct fuel as [|fuel]; [lia|]. rewrite exec_skip. cbn [bind].
      unfold cstep at 1. rewrite exec_set. cbn [eval bind as_int loc]. rewrite lget_lset_same. cbn [bind as_int eval_bin].
      rewrite arith_I32_small by lia. cbn [bind]. unfold with_loc. cbn [mem loc pre files ptrs fresh]. rewrite lset_lset.
      replace (Z.of_nat k + 1) with (Z.of_nat (S k)) by lia. apply IH; lia.
    + destruct (Z.eqb_spec (Z.of_N (nth k stored 0%N)) (Z.of_N (nth k tag 0%N))) as [E2|E2]; [apply N2Z.inj in E2; congruence|].
      cbn [bind as_int]. change (1 =? 0) with false. cbv iota.
      destruct fuel as [|fuel]; [lia|]. rewrite exec_seq.
      destruct fuel as [|fuel]; [lia|]. rewrite x_delete. cbn [eval bind loc pre ptrs]. rewrite Hpr. cbn [bind].
      rewrite x_return. cbn [eval bind fst snd]. reflexivity.
Qed.
End CmpLoop.

(* ------------------------------------------------------------------------------------ *)
(** * 2. The state hmac::getres starts from                                              *)
(* ------------------------------------------------------------------------------------ *)
Record gpre (cls : string) (objs : list (string * ity * Z)) (globs : memory) (hbuf : nat) (pfx fpn : string)
            (m : memory) (ps : list (string * value)) (fs : list (string * cfile)) (keyo : string) (key : list N)
            (f : cfile) (stream : list N) : Prop := {
  gp_al1 : lget ps ("alloc:" ++ cls) = Some (VPtr "" 0);
  gp_al2 : lget ps "alloc:filebuffer64" = Some (VPtr "buf." 0);
  gp_sz : no_sizeof m;
  gp_szb : mget m "sizeof:filebuffer64.b" = Some (cell1 U32 (64 * Z.of_nat hbuf));
  gp_hb : mget m "HBUF_SZ" = Some (cell1 U32 (Z.of_nat hbuf));
  gp_ip : mget m "ipad" = Some (cell1 U8 54);
  gp_op : mget m "opad" = Some (cell1 U8 92);
  gp_gl : globals_ok globs m;
  gp_abs1 : forall name t n, In (name, t, n) objs -> mget m name = None;
  gp_abs2 : forall k, is_prefix "buf." k = true -> mget m k = None;
  gp_len : exists x, mget m (pfx ++ "length") = Some (cell1 U8 x);
  gp_key : mget m keyo = Some (bytes_object key);
  gp_kl : (16 <= List.length key)%nat;
  gp_kb : bytesb key = true;
  gp_ko : file_owned keyo = false;
  gp_kne : keyo <> pfx ++ "length";
  gp_f : lget fs fpn = Some f;
  gp_rest : skipn (cf_pos f) (cf_data f) = map Z.of_N stream;
  gp_sb : bytesb stream = true }.

Definition tag_of (a : halg) (key : list N) (st' : hstate) : list N :=
  getStringHash a (map (fun x => N.lxor x 92) (key1_of key) ++ ha_out a (hs_h st'))%list.

Section Hmac.
Variable cls : string.
Variable a : halg.
Variable objs : list (string * ity * Z).
Variable globs : memory.
Variable vt : list (string * string).
Variable F : nat.
Variable hmz : Z.
Variable hbuf : nat.
Variable pfx : string.
Hypothesis C : hctx cls a objs globs vt F hmz hbuf pfx.
Variable fpn : string.
Let lenk := pfx ++ "length".
Let hl := Z.of_nat (ha_hlen a).

Lemma getres_g : forall fuel m l0 p0 fs ps fr0 keyo key fz f stream n st',
  (F + n + 120 <= fuel)%nat -> gpre cls objs globs hbuf pfx fpn m ps fs keyo key f stream ->
  file_loop hbuf a n (reset a) (fb_new hbuf (Some (map (fun x => N.lxor x 54) (key1_of key))) stream) = Some st' ->
  exists s' nres,
    call file_prog vt fuel "hmac::getres/4" pfx [VInt hmz; VPtr keyo 0; VPtr fpn 0; VInt fz] (St m l0 p0 fs ps fr0) = Ok (None, s') /\
    loc s' = l0 /\ pre s' = p0 /\
    lget (ptrs s') (pfx ++ "hmac_res") = Some (VPtr nres 0) /\ is_prefix "#" nres = true /\
    bytes_at (mem s') nres 0 (tag_of a key st') /\ List.length (tag_of a key st') = ha_hlen a /\
    mget (mem s') lenk = Some (cell1 U8 hl) /\
    (forall k, file_owned k = false -> k <> lenk -> mget (mem s') k = mget m k) /\
    (forall k, k <> fpn -> lget (files s') k = lget fs k).
Proof.
  intros fuel m l0 p0 fs ps fr0 keyo key fz f stream n st' Hfuel G Hfl. destruct G.
  eapply (getres_ctx cls a objs globs vt F hmz hbuf pfx C fpn); eassumption.
Qed.

(* hmac::gethmac: the tag is copied to the first ha_hlen bytes of the output object *)
Lemma gethmac_refines : forall fuel m l0 p0 fs ps fr0 keyo key fz f stream n st' outo oc,
  (F + n + 125 <= fuel)%nat -> gpre cls objs globs hbuf pfx fpn m ps fs keyo key f stream ->
  file_loop hbuf a n (reset a) (fb_new hbuf (Some (map (fun x => N.lxor x 54) (key1_of key))) stream) = Some st' ->
  mget m outo = Some {| o_ty := U8; o_cells := oc |} -> (ha_hlen a <= List.length oc)%nat -> file_owned outo = false -> outo <> lenk ->
  exists s',
    call file_prog vt fuel "hmac::gethmac/5" pfx [VInt hmz; VPtr keyo 0; VPtr fpn 0; VPtr outo 0; VInt fz] (St m l0 p0 fs ps fr0) = Ok (None, s') /\
    mget (mem s') outo = Some {| o_ty := U8; o_cells := (map Z.of_N (tag_of a key st') ++ skipn (ha_hlen a) oc)%list |} /\
    mget (mem s') lenk = Some (cell1 U8 hl) /\ List.length (tag_of a key st') = ha_hlen a.
Proof.
  intros fuel m l0 p0 fs ps fr0 keyo key fz f stream n st' outo oc Hfuel G Hfl Hout Hol Hoo Hone.
  unfold call. change (lget file_prog "hmac::gethmac/5") with (Some Src_fheader.f_hmac_gethmac_5).
  cbn [f_params f_body Src_fheader.f_hmac_gethmac_5 bind_params bind mem loc pre files ptrs fresh].
  set (Lg := [("hashtype", VInt hmz); ("key", VPtr keyo 0); ("fp", VPtr fpn 0); ("hmac_out", VPtr outo 0); ("fsize", VInt fz)]).
  destruct fuel as [|fuel]; [lia|]. rewrite exec_seq. destruct fuel as [|fuel]; [lia|].
  destruct (getres_g fuel m Lg pfx fs ps fr0 keyo key fz f stream n st' ltac:(lia) G Hfl)
    as (s1 & nres & Ec & Hloc & Hpre & Hptr & Hnh & Hby & Htl & Hlen & Hoth & _).
  rewrite (x_scall file_prog vt fuel None "hmac::getres/4" None [EVar "hashtype"; EVar "key"; EVar "fp"; EVar "fsize"] (St m Lg pfx fs ps fr0)
             [VInt hmz; VPtr keyo 0; VPtr fpn 0; VInt fz] pfx None s1 s1 eq_refl eq_refl Ec eq_refl).
  cbn [bind].
  rewrite exec_seq. destruct fuel as [|fuel]; [lia|]. rewrite x_memcpy.
  cbn [eval bind as_int]. rewrite Hloc, Hpre. cbn [lget Lg String.eqb Ascii.eqb Bool.eqb bind]. rewrite Hptr. cbn [bind]. fold lenk. rewrite Hlen.
  unfold cell1. rewrite load_u8 by (cbn; lia). cbn [bind as_int nth Z.to_nat].
  assert (Hhl : 0 <= hl <= 64) by (unfold hl; pose proof (hc_hlen _ _ _ _ _ _ _ _ _ C); lia).
  rewrite (wrap_U8_small hl), (wrap_U64_small hl) by lia.
  destruct Hby as (rob & Hgr & Htyr & _ & Hcr & Hlr). destruct rob as [tyr rc]. cbn [o_ty o_cells] in Htyr, Hcr, Hlr. subst tyr.
  change (Z.to_nat 0) with 0%nat in Hcr, Hlr. change (skipn 0 rc) with rc in Hcr. rewrite Htl in Hcr, Hlr.
  assert (Hout1 : mget (mem s1) outo = Some {| o_ty := U8; o_cells := oc |}) by (rewrite Hoth by assumption; exact Hout).
  rewrite (memcpy_u8 s1 outo 0 nres 0 hl _ _ Hout1 Hgr eq_refl eq_refl ltac:(lia) ltac:(lia) ltac:(lia)
             ltac:(cbn [o_cells]; unfold hl; lia) ltac:(cbn [o_cells]; unfold hl; lia)).
  cbn [bind o_cells]. change (Z.to_nat 0) with 0%nat. change (skipn 0 rc) with rc. unfold hl at 1. rewrite Nat2Z.id, Hcr.
  rewrite x_delete. unfold with_mem. cbn [eval bind pre ptrs mem loc files fresh]. rewrite Hpre, Hptr. cbn [bind].
  eexists. split; [reflexivity|]. cbn [mem].
  split; [|split; [|exact Htl]].
  - rewrite mget_mset_same. do 2 f_equal.
    rewrite upd_range_split by (rewrite map_length, Htl; lia). rewrite map_length, Htl. reflexivity.
  - rewrite mget_mset_other by exact Hone. exact Hlen.
Qed.

(* hmac::cmphmac: true iff the first ha_hlen stored bytes equal the tag *)
Lemma cmphmac_refines : forall fuel m l0 p0 fs ps fr0 keyo key fz f stream n st' so stored,
  (F + n + 200 <= fuel)%nat -> gpre cls objs globs hbuf pfx fpn m ps fs keyo key f stream ->
  file_loop hbuf a n (reset a) (fb_new hbuf (Some (map (fun x => N.lxor x 54) (key1_of key))) stream) = Some st' ->
  mget m so = Some (bytes_object stored) -> (ha_hlen a <= List.length stored)%nat -> bytesb stored = true ->
  file_owned so = false -> so <> lenk ->
  exists s',
    call file_prog vt fuel "hmac::cmphmac/5" pfx [VInt hmz; VPtr keyo 0; VPtr fpn 0; VPtr so 0; VInt fz] (St m l0 p0 fs ps fr0)
      = Ok (Some (VInt (if cmphmac (tag_of a key st') stored then 1 else 0)), s') /\
    loc s' = l0 /\ pre s' = p0.
Proof.
  intros fuel m l0 p0 fs ps fr0 keyo key fz f stream n st' so stored Hfuel G Hfl Hso Hsl Hsb Hsoo Hsone.
  unfold call. change (lget file_prog "hmac::cmphmac/5") with (Some Src_fheader.f_hmac_cmphmac_5).
  cbn [f_params f_body Src_fheader.f_hmac_cmphmac_5 bind_params bind mem loc pre files ptrs fresh].
  set (Lg := [("hashtype", VInt hmz); ("key", VPtr keyo 0); ("fp", VPtr fpn 0); ("hmac_out", VPtr so 0); ("fsize", VInt fz)]).
  destruct fuel as [|fuel]; [lia|]. rewrite exec_seq. destruct fuel as [|fuel]; [lia|].
  destruct (getres_g fuel m Lg pfx fs ps fr0 keyo key fz f stream n st' ltac:(lia) G Hfl)
    as (s1 & nres & Ec & Hloc & Hpre & Hptr & Hnh & Hby & Htl & Hlen & Hoth & _).
  rewrite (x_scall file_prog vt fuel None "hmac::getres/4" None [EVar "hashtype"; EVar "key"; EVar "fp"; EVar "fsize"] (St m Lg pfx fs ps fr0)
             [VInt hmz; VPtr keyo 0; VPtr fpn 0; VInt fz] pfx None s1 s1 eq_refl eq_refl Ec eq_refl).
  cbn [bind]. clear Ec.
  destruct s1 as [M1 L1 P1 FS1 PS1 FR1]. cbn [mem loc pre files ptrs fresh] in Hloc, Hpre, Hptr, Hby, Hlen, Hoth. subst L1 P1.
  set (tag := tag_of a key st') in *.
  assert (Htb : bytesb tag = true) by (unfold tag, tag_of, getStringHash; apply (hc_out_bytes _ _ _ _ _ _ _ _ _ C)).
  pose proof (hc_hlen _ _ _ _ _ _ _ _ _ C) as Hh64.
  destruct Hby as (rob & Hgr & Htyr & _ & Hcr & Hlr). destruct rob as [tyr rc]. cbn [o_ty o_cells] in Htyr, Hcr, Hlr. subst tyr.
  change (Z.to_nat 0) with 0%nat in Hcr, Hlr. change (skipn 0 rc) with rc in Hcr. rewrite Htl in Hcr, Hlr.
  assert (Hso1 : mget M1 so = Some (bytes_object stored)) by (rewrite Hoth by assumption; exact Hso).
  (* i = 0 *)
  rewrite exec_seq. destruct fuel as [|fuel]; [lia|]. rewrite exec_set. cbn [eval bind]. unfold with_loc. cbn [mem loc pre files ptrs fresh].
  (* the loop *)
  rewrite exec_seq.
  pose proof (cmp_loop file_prog vt M1 Lg pfx FS1 PS1 FR1 so nres tag stored rc (ha_hlen a) eq_refl Hptr Hlen Hso1 Hgr Hcr Htl
                ltac:(lia) Hsl Htb Hsb Hh64 (ha_hlen a) 0%nat fuel eq_refl ltac:(lia)) as EL.
  unfold ccond, cbody, cstep in EL. change (Z.of_nat 0) with 0 in EL. rewrite EL. clear EL. cbn [bind].
  assert (Hcm : cmphmac tag stored = match fst (cmp_res tag stored (ha_hlen a) 0) with Normal => true | _ => false end).
  { unfold cmphmac. rewrite Htl.
    destruct (cmp_res_spec tag stored rc (ha_hlen a) Htl ltac:(lia) Hsl Hh64 (ha_hlen a) 0%nat eq_refl) as [[A B]|[A B]]; rewrite B.
    - apply list_eqb_eq. change (skipn 0 tag) with tag in A. change (skipn 0 stored) with stored in A.
      rewrite <- A. rewrite <- Htl. symmetry. apply firstn_all.
    - destruct (list_eqb tag (firstn (ha_hlen a) stored)) eqn:E; [|reflexivity]. apply list_eqb_eq in E. exfalso. apply A.
      change (skipn 0 tag) with tag. change (skipn 0 stored) with stored. rewrite <- E. rewrite <- Htl. apply firstn_all. }
  rewrite Hcm.
  destruct (cmp_res_spec tag stored rc (ha_hlen a) Htl ltac:(lia) Hsl Hh64 (ha_hlen a) 0%nat eq_refl) as [[A B]|[A B]]; rewrite B.
  - destruct fuel as [|fuel]; [lia|]. rewrite exec_seq. destruct fuel as [|fuel]; [lia|].
    rewrite x_delete. cbn [eval bind loc pre ptrs]. rewrite Hptr. cbn [bind]. rewrite x_return. cbn [eval bind].
    eexists. split; [reflexivity|]. split; reflexivity.
  - eexists. split; [reflexivity|]. split; reflexivity.
Qed.
End Hmac.
