(* Tactics and closing lemmas for the machine-level step lemmas (layer M): a step of the machine on a canonical state
   [cstate_md] yields a canonical state. *)
From Coq Require Import ZArith NArith List String Bool Lia Arith.
From Wencry Require Import Bytes FileModel PipeConc PipeLemmas MiniC MiniCLemmas MiniCConc SrcRun RefineSeqDefs RefineSeqA RefineSeqB.
From Wencry Require Import RefineE2EfLay RefineE2EfMach RefineE2EfMem.
From Wencry.Gen Require Src_conc.
Import ListNotations.
Local Open Scope string_scope.
Local Open Scope list_scope.

Lemma load_cell : forall t v, load_obj (cell t v) t 0 = Ok (wrap t v).
Proof. intros t v. destruct t; reflexivity. Qed.
Lemma store_cell : forall t v z, store_obj (cell t v) t 0 z = Ok (cell t (wrap t z)).
Proof. intros t v z. destruct t; reflexivity. Qed.

Local Open Scope Z_scope.
Lemma wrap_I64_small : forall z, - 2 ^ 63 <= z < 2 ^ 63 -> wrap I64 z = z.
Proof.
  intros z H. unfold wrap; cbn [ity_bits ity_signed].
  change (2 ^ 64 / 2) with (2 ^ 63). rewrite Z.mod_small; lia.
Qed.
Lemma wrap_I64_nat : forall z, 0 <= z < 2 ^ 32 -> wrap I64 z = z.
Proof. intros. apply wrap_I64_small. lia. Qed.
Lemma wrap_TBool_b2z : forall b, wrap TBool (b2z b) = b2z b.
Proof. intros []; reflexivity. Qed.
Local Close Scope Z_scope.

Section TacDefs.
Context {LY : Layout} {LO : LayoutOk}.
(* ranges of the machine data: what makes the conversions of the code the identity *)
Definition bwf (c : nat) (b : mbuf) : Prop :=
  (mb_st b < 4)%nat /\ (0 <= mb_tot b <= Z.of_nat c)%Z /\ (0 <= mb_now b < 2 ^ 32)%Z /\ List.length (mb_cells b) = (16 * c)%nat /\
  Forall (fun z => 0 <= z < 256)%Z (mb_cells b).
Definition dwf (c T : nat) (d : mdata) : Prop :=
  List.length (d_bufs d) = T /\ True /\ (d_turn d < T)%nat /\ (d_live d <= 255)%nat /\ (1 <= T <= 255)%nat /\
  (1 <= c)%nat /\ (16 * Z.of_nat c < 2 ^ 32)%Z /\
  (forall i, (i < T)%nat -> bwf c (nth i (d_bufs d) mb0)) /\
  (forall i, (i < T)%nat -> exists x, srep T i x (d_sm d)).

(* replacing buffer i *)
Lemma set_nth_set_nth : forall A (x y : A) i l, set_nth i y (set_nth i x l) = set_nth i y l.
Proof. induction i as [|i IH]; intros [|h l]; cbn [set_nth]; try reflexivity. now rewrite IH. Qed.
Lemma dset_dset : forall d i B B', dset (dset d i B) i B' = dset d i B'.
Proof. intros. unfold dset. cbn [with_bufs d_bufs d_turn d_over d_live d_sm d_pos d_eof d_out]. now rewrite set_nth_set_nth. Qed.
Lemma nth_dset : forall d i B, (i < List.length (d_bufs d))%nat -> nth i (d_bufs (dset d i B)) mb0 = B.
Proof. intros. unfold dset. cbn [with_bufs d_bufs]. apply nth_set_nth_eq. exact H. Qed.
Lemma dset_upd : forall d i f, with_bufs d (upd_buf i f (d_bufs d)) = dset d i (f (nth i (d_bufs d) mb0)).
Proof. reflexivity. Qed.
Lemma dset_length : forall d i B, List.length (d_bufs (dset d i B)) = List.length (d_bufs d).
Proof. intros. unfold dset. cbn [with_bufs d_bufs]. apply set_nth_length. Qed.

Lemma sh_of_shared : forall c T pad input0 d, shared_of (sh_of c T pad input0 d) = sh_of c T pad input0 d.
Proof. reflexivity. Qed.

Lemma sho_mset : forall c T pad input0 d d' o ob,
  mset (mem_of c T pad d) o ob = mem_of c T pad d' -> files_of input0 d' = files_of input0 d ->
  {| mem := mset (mem (sh_of c T pad input0 d)) o ob; loc := []; pre := ""; files := files (sh_of c T pad input0 d);
     ptrs := ptrs (sh_of c T pad input0 d); fresh := fresh (sh_of c T pad input0 d) |} = sh_of c T pad input0 d'.
Proof. intros c T pad input0 d d' o ob H F. unfold sh_of. cbn [mem files ptrs fresh]. rewrite H, F. reflexivity. Qed.

(* ---- closing a step of worker i / of the I/O thread ---- *)
Lemma fin_worker : forall c T pad input0 p ws d g i t w' wl' (evs : list event) (R : cstate * list event) turn0,
  t = worker_thread i w' wl' -> (i < T)%nat -> List.length ws = T -> List.length (g_wl g) = T -> turn0 = d_turn d ->
  R = (cstate_md c T pad input0 p (set_nth i w' ws) d (with_wl g i wl'), evs) ->
  (put (S i) t (C (sh_of c T pad input0 d) (threads_of T pad p ws turn0 g) []), evs) = R.
Proof.
  intros c T pad input0 p ws d g i t w' wl' evs R turn0 -> Hi Lw Lg -> ->. unfold put, C, cstate_md. cbn [cs_sh cs_thr cs_mx].
  rewrite put_worker by assumption. reflexivity.
Qed.
Lemma fin_io : forall c T pad input0 p ws d g t p' g' (evs : list event) (R : cstate * list event) turn0,
  t = io_thread T pad p' (d_turn d) g' -> g_wl g' = g_wl g ->
  R = (cstate_md c T pad input0 p' ws d g', evs) ->
  (put 0 t (C (sh_of c T pad input0 d) (threads_of T pad p ws turn0 g) []), evs) = R.
Proof.
  intros c T pad input0 p ws d g t p' g' evs R turn0 -> Hg ->. unfold put, C, cstate_md. cbn [cs_sh cs_thr cs_mx].
  rewrite put_io by assumption. reflexivity.
Qed.

End TacDefs.

(* ---- symbolic evaluation ---- *)
Ltac is_lit a := lazymatch a with Z0 => idtac | Zpos _ => idtac | Zneg _ => idtac end.
Ltac is_nlit a := lazymatch a with O => idtac | S ?b => is_nlit b end.
Ltac zeval1 := match goal with
  | |- context [Z.eqb ?a ?b] => is_lit a; is_lit b; let v := eval vm_compute in (Z.eqb a b) in change (Z.eqb a b) with v
  | |- context [Z.ltb ?a ?b] => is_lit a; is_lit b; let v := eval vm_compute in (Z.ltb a b) in change (Z.ltb a b) with v
  | |- context [Z.leb ?a ?b] => is_lit a; is_lit b; let v := eval vm_compute in (Z.leb a b) in change (Z.leb a b) with v
  | |- context [wrap ?t ?a] => is_lit a; let v := eval vm_compute in (wrap t a) in change (wrap t a) with v
  | |- context [arith ?t ?a] => is_lit a; let v := eval vm_compute in (arith t a) in change (arith t a) with v
  | |- context [Z.opp ?a] => is_lit a; let v := eval vm_compute in (Z.opp a) in change (Z.opp a) with v
  | |- context [Z.add ?a ?b] => is_lit a; is_lit b; let v := eval vm_compute in (Z.add a b) in change (Z.add a b) with v
  | |- context [Z.sub ?a ?b] => is_lit a; is_lit b; let v := eval vm_compute in (Z.sub a b) in change (Z.sub a b) with v
  | |- context [Z.of_nat ?a] => is_nlit a; let v := eval vm_compute in (Z.of_nat a) in change (Z.of_nat a) with v
  end.
Ltac ev0 := cbn [eval eval_list tst thread_state mem loc pre files ptrs fresh sh_of bind as_int lget lset String.eqb Ascii.eqb Bool.eqb eval_bin eval_un ity_bits ity_signed orb andb negb
                 this_prefix ct_loc ct_pre ct_cur ct_k ct_st set_ret with_loc bind_params f_params unwind_return unwind_break].
Ltac evs := ev0; repeat (zeval1; ev0).
Ltac fo := first [left; reflexivity | right; reflexivity].

Ltac unf := cbv [worker_thread io_thread mk2 RefineE2EfLay.mk fst snd seq_at if_then loop_step kloopstep kdobody do_body
  B_mf B_wr B_wu B_sr B_su B_rbe B_bu B_rb B_ti B_rm B_di f_body
  Src_conc.f_multiruncrypt_file_2 Src_conc.f_bufferctrl_wait_ready_0 Src_conc.f_bufferctrl_wait_update_0 Src_conc.f_bufferctrl_set_ready_1
  Src_conc.f_bufferctrl_set_update_0 Src_conc.f_buffergroup_require_buffer_entry_1 Src_conc.f_buffergroup_buffer_update_1
  Src_conc.f_buffergroup_run_buffer_1 Src_conc.f_buffergroup_turn_iter_0 Src_conc.f_multicry_master_run_multicry_2
  Src_conc.f_buffergroup_del_instance_0
  rbe_kA rbe_A wr_frame wr_sleep_k wr_loop mf_loop wu_loop bu_if join_loop rb_body F_wu F_bu K_do].

(* the functions of the program, by name *)
Ltac fn_body := cbv [f_body f_params
  Src_conc.f_bufferctrl_cmpstate_1 Src_conc.f_bufferctrl_haslive_0 Src_conc.f_bufferctrl_wait_ready_0 Src_conc.f_bufferctrl_wait_update_0
  Src_conc.f_bufferctrl_set_ready_1 Src_conc.f_bufferctrl_set_update_0 Src_conc.f_iobuffer_get_entry_0 Src_conc.f_buffergroup_turn_iter_0
  Src_conc.f_buffergroup_require_buffer_entry_1 Src_conc.f_buffergroup_wait_buffer_ready_1 Src_conc.f_buffergroup_buffer_update_1
  Src_conc.f_buffergroup_run_buffer_1 Src_conc.f_multiruncrypt_file_2 Src_conc.f_multicry_master_run_multicry_2
  Src_conc.f_buffergroup_get_instance_0 Src_conc.f_buffergroup_del_instance_0 Src_conc.f_iobuffer_load_buffer_2 Src_conc.f_iobuffer_export_buffer_2].

(* ---- compositional evaluation: leaves (loads) are supplied as hypotheses of the form  forall l, eval (tst sh l p) e = Ok v ---- *)
Lemma ev_cast : forall s t a x, eval s a = Ok (VInt x) -> eval s (ECast t a) = Ok (VInt (wrap t x)).
Proof. intros s t a x H. cbn [eval]. rewrite H. reflexivity. Qed.
Lemma ev_bin : forall s t op a b x y z, eval s a = Ok (VInt x) -> eval s b = Ok (VInt y) -> eval_bin t op x y = Ok z ->
  eval s (EBin t op a b) = Ok (VInt z).
Proof. intros s t op a b x y z H1 H2 H3. cbn [eval]. rewrite H1. cbn [bind as_int]. rewrite H2. cbn [bind as_int]. rewrite H3. reflexivity. Qed.
Lemma ev_un : forall s t op a x z, eval s a = Ok (VInt x) -> eval_un t op x = Ok z -> eval s (EUn t op a) = Ok (VInt z).
Proof. intros s t op a x z H1 H2. cbn [eval]. rewrite H1. cbn [bind as_int]. rewrite H2. reflexivity. Qed.
Lemma ev_and_false : forall s a b, eval s a = Ok (VInt 0) -> eval s (EAnd a b) = Ok (VInt 0).
Proof. intros s a b H. cbn [eval]. rewrite H. reflexivity. Qed.
Lemma ev_and_true : forall s a b x y, eval s a = Ok (VInt x) -> Z.eqb x 0 = false -> eval s b = Ok (VInt y) ->
  eval s (EAnd a b) = Ok (VInt (if Z.eqb y 0 then 0 else 1)).
Proof. intros s a b x y H1 N H2. cbn [eval]. rewrite H1. cbn [bind as_int]. rewrite N, H2. reflexivity. Qed.
Lemma ev_and_gen : forall s a b x y, eval s a = Ok (VInt x) -> eval s (if Z.eqb x 0 then EConst 0 else b) = Ok (VInt y) ->
  eval s (EAnd a b) = Ok (VInt (if Z.eqb x 0 then 0 else if Z.eqb y 0 then 0 else 1)).
Proof. intros s a b x y H1 H2. cbn [eval]. rewrite H1. cbn [bind as_int]. destruct (Z.eqb x 0); [reflexivity|]. rewrite H2. reflexivity. Qed.
Lemma ev_or_gen : forall s a b x y, eval s a = Ok (VInt x) -> eval s (if Z.eqb x 0 then b else EConst 1) = Ok (VInt y) ->
  eval s (EOr a b) = Ok (VInt (if Z.eqb x 0 then (if Z.eqb y 0 then 0 else 1) else 1)).
Proof. intros s a b x y H1 H2. cbn [eval]. rewrite H1. cbn [bind as_int]. destruct (Z.eqb x 0); [|reflexivity]. rewrite H2. reflexivity. Qed.
Lemma ev_or_true : forall s a b x, eval s a = Ok (VInt x) -> Z.eqb x 0 = false -> eval s (EOr a b) = Ok (VInt 1).
Proof. intros s a b x H N. cbn [eval]. rewrite H. cbn [bind as_int]. rewrite N. reflexivity. Qed.
Lemma ev_or_false : forall s a b y, eval s a = Ok (VInt 0) -> eval s b = Ok (VInt y) ->
  eval s (EOr a b) = Ok (VInt (if Z.eqb y 0 then 0 else 1)).
Proof. intros s a b y H1 H2. cbn [eval]. rewrite H1. cbn [bind as_int Z.eqb]. rewrite H2. reflexivity. Qed.
Lemma ev_cond : forall s c a b x v, eval s c = Ok (VInt x) -> eval s (if Z.eqb x 0 then b else a) = Ok v -> eval s (ECond c a b) = Ok v.
Proof. intros s c a b x v H1 H2. cbn [eval]. rewrite H1. cbn [bind as_int]. destruct (Z.eqb x 0); exact H2. Qed.
Lemma ev_isnull_ptr : forall s a o off, eval s a = Ok (VPtr o off) -> eval s (EIsNull a) = Ok (VInt 0).
Proof. intros s a o off H. cbn [eval]. rewrite H. reflexivity. Qed.
Lemma ev_isnull_null : forall s a, eval s a = Ok VNull -> eval s (EIsNull a) = Ok (VInt 1).
Proof. intros s a H. cbn [eval]. rewrite H. reflexivity. Qed.
Lemma ev_ptradd : forall s a sc i o off n, eval s a = Ok (VPtr o off) -> eval s i = Ok (VInt n) ->
  eval s (EPtrAdd a sc i) = Ok (VPtr o (off + n * sc)).
Proof. intros s a sc i o off n H1 H2. cbn [eval]. rewrite H1. cbn [bind]. rewrite H2. reflexivity. Qed.
Lemma ev_elem : forall s a i o off n, eval s a = Ok (VPtr o off) -> eval s i = Ok (VInt (Z.of_nat n)) ->
  eval s (EElem a i) = Ok (VPtr (elem_pfx o n) 0).
Proof. intros s a i o off n H1 H2. cbn [eval]. rewrite H1. cbn [bind]. rewrite H2. reflexivity. Qed.
Lemma ev_ptrvar : forall s a o off v, eval s a = Ok (VPtr o off) -> lget (ptrs s) o = Some v -> eval s (EPtrVar a) = Ok v.
Proof. intros s a o off v H1 H2. cbn [eval]. rewrite H1. cbn [bind]. rewrite H2. reflexivity. Qed.
Lemma ev_ptrcell : forall s a o off v, eval s a = Ok (VPtr o off) -> lget (ptrs s) (ptr_key o off) = Some v -> eval s (EPtrCell a) = Ok v.
Proof. intros s a o off v H1 H2. cbn [eval]. rewrite H1. cbn [bind]. rewrite H2. reflexivity. Qed.
Lemma ev_load : forall s t a o off ob z, eval s a = Ok (VPtr o off) -> mget (mem s) o = Some ob -> load_obj ob t off = Ok z ->
  eval s (ELoad t a) = Ok (VInt z).
Proof. intros s t a o off ob z H1 H2 H3. cbn [eval]. rewrite H1. cbn [bind]. rewrite H2, H3. reflexivity. Qed.
Lemma ev_list_nil : forall s, eval_list s [] = Ok [].
Proof. reflexivity. Qed.
Lemma ev_list_cons : forall s e r v vs, eval s e = Ok v -> eval_list s r = Ok vs -> eval_list s (e :: r) = Ok (v :: vs).
Proof. intros s e r v vs H1 H2. cbn [eval_list]. rewrite H1. cbn [bind]. rewrite H2. reflexivity. Qed.
Lemma this_some : forall s e o off, eval s e = Ok (VPtr o off) -> this_prefix s (Some e) = Ok o.
Proof. intros s e o off H. unfold this_prefix. rewrite H. reflexivity. Qed.

(* comparisons of symbolic values are decided by equations  (a =? b) = _ / (a <? b) = _  of the context *)
Ltac rw_cmp := repeat match goal with
  | H : Z.eqb ?a ?b = _ |- context [Z.eqb ?a ?b] => rewrite H
  | H : Z.ltb ?a ?b = _ |- context [Z.ltb ?a ?b] => rewrite H
  end.
Ltac ar := first [(rw_cmp; reflexivity) | apply arith_I32_small; lia
  | (rewrite !wrap_I32_small by (change (2 ^ 31)%Z with 2147483648%Z; lia); apply arith_I32_small; lia) | apply arith_U32 ].
Ltac leaf_hyp := match goal with
  | H : forall l, eval (tst _ l _) ?e = _ |- eval (tst _ _ _) ?e = _ => apply H
  | H : eval ?s ?e = _ |- eval ?s ?e = _ => apply H
  end.
(* [ld] closes the lookups ( mget (mem ..) k = Some ?ob,  lget (ptrs ..) k = Some ?v ) *)
Ltac ev_with ld :=
  lazymatch goal with
  | |- eval _ ?e = _ =>
      first [ leaf_hyp |
      lazymatch e with
      | EConst _ => reflexivity
      | ENull => reflexivity
      | EVar _ => evs; first [reflexivity | (match goal with H : lget ?L ?x = _ |- context [lget ?L ?x] => rewrite H end; reflexivity)]
      | EGlobal _ => reflexivity
      | EField _ => evs; reflexivity
      | ECast _ _ => eapply ev_cast; ev_with ld
      | EBin _ _ _ _ => eapply ev_bin; [ev_with ld | ev_with ld | evs; ar]
      | EUn _ _ _ => eapply ev_un; [ev_with ld | evs; ar]
      | EAnd _ _ => eapply ev_and_gen; [ev_with ld | lazy beta iota; repeat (zeval1; lazy beta iota); ev_with ld]
      | EOr _ _ => eapply ev_or_gen; [ev_with ld | lazy beta iota; repeat (zeval1; lazy beta iota); ev_with ld]
      | ECond _ _ _ => eapply ev_cond; [ev_with ld | lazy beta iota; repeat (zeval1; lazy beta iota); ev_with ld]
      | EIsNull _ => first [eapply ev_isnull_ptr; ev_with ld | eapply ev_isnull_null; ev_with ld]
      | EPtrAdd _ _ _ => eapply ev_ptradd; ev_with ld
      | EElem _ _ => eapply ev_elem; ev_with ld
      | EPtrVar _ => eapply ev_ptrvar; [ev_with ld | evs; ld]
      | EPtrCell _ => eapply ev_ptrcell; [ev_with ld | evs; ld]
      | ELoad _ _ => eapply ev_load; [ev_with ld | evs; ld | ld]
      end ]
  | |- eval_list _ [] = _ => reflexivity
  | |- eval_list _ (_ :: _) = _ => eapply ev_list_cons; ev_with ld
  | |- this_prefix _ None = _ => reflexivity
  | |- this_prefix _ (Some _) = _ => eapply this_some; ev_with ld
  end.

(* one micro step; [ev] solves / simplifies the evaluation side conditions and is supplied by the caller *)
Ltac mstep_with ev :=
  lazymatch goal with
  | |- exr _ _ ?first (Build_cthread ?st _ _ _ _) _ _ _ =>
      lazymatch st with
      | SSkip => eapply r_none; [discriminate | fo | apply m_skip | cbn [cont_conf next_of]]
      | SSeq _ _ => eapply r_none; [discriminate | fo | apply m_seq | ]
      | SLoop _ _ _ => eapply r_none; [discriminate | fo | eapply m_loop; ev | evs; cbn [cont_conf next_of]]
      | SDoWhile _ _ => eapply r_none; [discriminate | fo | apply m_dowhile | ]
      | SIf _ _ _ => eapply r_none; [discriminate | fo | eapply m_if; ev | evs]
      | SSet _ _ => eapply r_none; [discriminate | fo | eapply m_set; [apply sh_of_shared | ev] | cbn [cont_conf next_of]; evs]
      | SStore _ _ _ => eapply r_none; [discriminate | fo | eapply m_store; [ev | ev | evs | ] | cbn [cont_conf next_of]]
      | SCall _ _ _ _ => eapply r_none; [discriminate | fo | eapply m_call; [ev | ev | apply prog_conc; reflexivity | reflexivity] | fn_body; evs]
      | SReturn (Some _) => eapply r_none; [discriminate | fo | eapply m_return; [ev | reflexivity | reflexivity] | evs]
      | SPrim None "lock" _ => lazymatch first with true => idtac end; eapply r_lock; [discriminate | fo | eapply m_lock; ev | reflexivity | cbn [cont_conf next_of]]
      | SPrim None "unlock" _ => eapply r_unlock; [discriminate | fo | eapply m_unlock; ev | cbn [cont_conf next_of mx_release]; rewrite ?String.eqb_refl]
      | SPrim None "notify_all" _ => eapply r_notify; [discriminate | fo | eapply m_notify; ev | cbn [cont_conf next_of]]
      | SPrim None "wv_ev" _ => eapply r_event; [discriminate | fo | eapply m_ev; ev | cbn [cont_conf next_of app]; evs]
      | SPrim None "wv_yield" _ => lazymatch first with true => idtac end; eapply r_none; [discriminate | fo | eapply m_yield; ev | cbn [cont_conf next_of]]
      end
  end.
Ltac no_ld := fail.
Ltac ldp := first [apply lget_ctrl | apply lget_buflst | apply lget_fin | apply lget_fout | apply lget_instance].
Ltac ev := ev_with ldp.
Ltac mstep := mstep_with ltac:(idtac; ev_with ldp).
Ltac mstep_ns := lazymatch goal with
  | |- exr _ _ _ (Build_cthread (SStore _ _ _) _ _ _ _) _ _ _ => fail
  | |- _ => mstep end.
Ltac mstep_nl := lazymatch goal with
  | |- exr _ _ _ (Build_cthread (SLoop _ _ _) _ _ _ _) _ _ _ => fail
  | |- _ => mstep_ns end.
(* up to and including the next return statement *)
Ltac msteps_ret := repeat (lazymatch goal with |- exr _ _ _ (Build_cthread (SReturn _) _ _ _ _) _ _ _ => fail | |- _ => mstep_nl end); mstep.
(* all steps but stores; all steps but stores and loop heads *)
Ltac mstepsL := repeat mstep_ns.
Ltac msteps := repeat mstep_nl.
Ltac sleep_worker w wl := eapply r_wait; [discriminate | fo | eapply m_wait; ev |
  cbn [cont_conf next_of with_status mx_release ct_cur ct_k ct_loc ct_pre ct_st app]; rewrite ?String.eqb_refl;
  eapply (fin_worker _ _ _ _ _ _ _ _ _ _ w wl); [unf; try reflexivity | assumption | assumption | assumption | reflexivity | ]].
Ltac stop_worker w wl := eapply r_stop; [discriminate | reflexivity | eapply (fin_worker _ _ _ _ _ _ _ _ _ _ w wl); [unf; try reflexivity | assumption | assumption | assumption | reflexivity | ]].

