(* C08 (primitive part) -- the tag is RFC 2104 HMAC over the bytes from the current file
   position to end of file; comparison accepts iff every tag byte matches.
   Only statements; every proof is one [exact] of a lemma of HmacProofs. *)
From Wencry Require Import Bytes HashSpec HashModel HmacProofs.
Local Open Scope N_scope.

Theorem C08_tag_is_rfc2104_hmac : forall hbuf hm key msg,
  (1 <= hbuf)%nat -> hm <= 2 -> block16 key -> bytesb msg = true ->
  8 * N.of_nat (128 + length msg) < 2 ^ 64 ->
  hmac_model hbuf hm key msg = Some (hmac_spec (hash_spec hm) key msg).
Proof. exact C08_tag_is_rfc2104_hmac_proof. Qed.
Print Assumptions C08_tag_is_rfc2104_hmac.

Theorem C08_tag_length : forall hbuf hm key msg t,
  hmac_model hbuf hm key msg = Some t ->
  length t = match hm with 0 => 20%nat | 1 => 16%nat | _ => 32%nat end.
Proof. exact C08_tag_length_proof. Qed.
Print Assumptions C08_tag_length.

(* comparison covers every byte of the computed tag *)
Theorem C08_compare_all_bytes : forall computed stored,
  cmphmac computed stored = true <-> firstn (length computed) stored = computed.
Proof. exact C08_compare_all_bytes_proof. Qed.
Print Assumptions C08_compare_all_bytes.

(* an unknown hash number has no hasher (NULL in the C++): the model has no result *)
Theorem C08_unknown_hash_has_no_tag : forall hbuf hm key msg,
  2 < hm -> hmac_model hbuf hm key msg = None.
Proof. exact C08_unknown_hash_has_no_tag_proof. Qed.
Print Assumptions C08_unknown_hash_has_no_tag.
