(* Entry points that run the TRANSLATED SOURCE (coq/Gen/Src_*.v, regenerated from /repo on every
   run by tools/cgen.py) under the MiniC semantics, with the same interfaces as the
   hand-written models.  They are extracted (Extract.v) and run by the correspondence check
   beside the implementation ("src" mode of harness/mdrv.ml), and they are the left-hand sides
   of the refinement theorems (Refine*.v). *)
From Coq Require Import ZArith NArith List String Bool.
From Wencry Require Import Bytes FileModel MiniC MiniCRun.
From Wencry.Gen Require Src_sha256 Src_sha1 Src_md5 Src_hashmaster Src_aes Src_aesmode Src_base64 Src_iobuffer Src_hashbuffer.
Import ListNotations.
Local Open Scope Z_scope.
Local Open Scope string_scope.
Local Open Scope list_scope.

Definition zlen {A} (l : list A) : Z := Z.of_nat (List.length l).

Inductive sres (A : Type) := SOk (a : A) | SErr (why : string).
Arguments SOk {A} a. Arguments SErr {A} why.
Definition of_res {A B} (r : res A) (f : A -> sres B) : sres B :=
  match r with Ok a => f a | UB w => SErr ("UB: " ++ w) | NoFuel => SErr "out of fuel" end.
Definition out_bytes (s : state) (name : string) : sres (list N) :=
  match get_bytes s name with Some b => SOk b | None => SErr ("no object " ++ name) end.

(* ---------------- hashes ---------------- *)
Definition hash_prog : program :=
  Src_sha1.functions ++ Src_md5.functions ++ Src_sha256.functions ++ Src_hashmaster.functions ++ Src_hashbuffer.functions.
Definition hash_class (alg : N) : option (string * list (string * ity * Z) * memory * Z) :=
  match alg with
  | 0%N => Some ("sha1hash", Src_sha1.objects_sha1hash, Src_sha1.globals, 20)
  | 1%N => Some ("md5hash", Src_md5.objects_md5hash, Src_md5.globals, 16)
  | 2%N => Some ("sha256hash", Src_sha256.objects_sha256hash, Src_sha256.globals, 32)
  | _ => None
  end.

(* Hashmaster::getStringHash(msg, |msg|, out) on a fresh hasher object *)
Definition src_hash_string (alg : N) (msg : list N) : sres (list N) :=
  match hash_class alg with
  | None => SErr "no such hash"
  | Some (cls, objs, globs, hlen) =>
      let m := globs ++ mk_objects "" objs ++ [("msg", bytes_object msg); ("out", mk_object U8 hlen)] in
      of_res (call hash_prog [("", cls)] (List.length msg / 64 + 2000) "Hashmaster::getStringHash/3" ""
                   [VPtr "msg" 0; VInt (zlen msg); VPtr "out" 0] (init_state m))
             (fun r => out_bytes (snd r) "out")
  end.

(* filebuffer64 bf(fp, printload, block); hasher.getFileHash(&bf, out) -- hbuf = HBUF_SZ *)
Definition fb_objects (hbuf : nat) : list (string * ity * Z) :=
  map (fun x => match x with (n, t, k) => if String.eqb n "b" then (n, t, 64 * Z.of_nat hbuf) else x end) Src_hashbuffer.objects_filebuffer64.
Definition src_hash_file (hbuf : nat) (alg : N) (block : option (list N)) (stream : list N) : sres (list N) :=
  match hash_class alg with
  | None => SErr "no such hash"
  | Some (cls, objs, globs, hlen) =>
      let m := globs ++ [("HBUF_SZ", {| o_ty := U32; o_cells := [Z.of_nat hbuf] |})]
               ++ mk_objects "" objs ++ mk_objects "buf." (fb_objects hbuf)
               ++ [("out", mk_object U8 hlen)] ++ match block with Some b => [("blk", bytes_object b)] | None => [] end in
      let st := {| mem := m; loc := []; pre := ""; files := [("fp", {| cf_data := map Z.of_N stream; cf_pos := 0; cf_eof := false |})]; ptrs := []; fresh := 0 |} in
      let vt := [("", cls); ("buf.", "filebuffer64")] in
      let fuel := (List.length stream / 64 + 2000)%nat in
      of_res (call hash_prog vt fuel "filebuffer64::filebuffer64/3" "buf."
                   [VPtr "fp" 0; match block with Some _ => VPtr "blk" 0 | None => VNull end] st)
        (fun r1 => of_res (call hash_prog vt fuel "Hashmaster::getFileHash/3" "" [VPtr "buf." 0; VPtr "out" 0] (snd r1))
        (fun r2 => out_bytes (snd r2) "out"))
  end.

(* ---------------- AES single block ---------------- *)
Definition aes_prog : program := Src_aes.functions ++ Src_aesmode.functions.
Definition src_aes (enc : bool) (key blk : list N) : sres (list N) :=
  let objs := if enc then Src_aes.objects_encryaes else Src_aes.objects_decryaes in
  let m := Src_aes.globals ++ mk_objects "" objs ++ [("k", bytes_object key); ("blk", bytes_object blk)] in
  of_res (call aes_prog [] 200 "keyhandle::keyhandle/1" "key." [VPtr "k" 0] (init_state m))
    (fun r1 => of_res (call aes_prog [] 200 (if enc then "encryaes::runaes_128bit/1" else "decryaes::runaes_128bit/1") "" [VPtr "blk" 0] (snd r1))
    (fun r2 => out_bytes (snd r2) "blk")).

(* ---------------- mode stream objects ---------------- *)
Definition mode_class (isenc : bool) (type : N) : option (string * list (string * ity * Z)) :=
  match type, isenc with
  | 0%N, true => Some ("AesECB_Enc", Src_aesmode.objects_AesECB_Enc)
  | 0%N, false => Some ("AesECB_Dec", Src_aesmode.objects_AesECB_Dec)
  | 1%N, true => Some ("AesCBC_Enc", Src_aesmode.objects_AesCBC_Enc)
  | 1%N, false => Some ("AesCBC_Dec", Src_aesmode.objects_AesCBC_Dec)
  | 2%N, _ => Some ("AesCTR", Src_aesmode.objects_AesCTR)
  | 3%N, true => Some ("AesCFB_Enc", Src_aesmode.objects_AesCFB_Enc)
  | 3%N, false => Some ("AesCFB_Dec", Src_aesmode.objects_AesCFB_Dec)
  | 4%N, _ => Some ("AesOFB", Src_aesmode.objects_AesOFB)
  | _, _ => None
  end.

Fixpoint run_blocks (cls : string) (blks : list (list N)) (s : state) (acc : list (list N)) : sres (list (list N) * state) :=
  match blks with
  | [] => SOk (rev acc, s)
  | b :: r =>
      let s1 := with_mem s (mset (mem s) "blk" (bytes_object b)) in
      of_res (call aes_prog [] 300 (cls ++ "::runcry/1") "" [VPtr "blk" 0] s1)
        (fun r1 => match get_bytes (snd r1) "blk" with
                   | Some ob => run_blocks cls r (snd r1) (ob :: acc)
                   | None => SErr "no block"
                   end)
  end.

(* construct the stream object (Aesmode(iv), keyhandle(key)) and feed it the blocks in order *)
Definition src_mode (isenc : bool) (type : N) (key iv : list N) (blks : list (list N)) : sres (list (list N)) :=
  match mode_class isenc type with
  | None => SErr "NULL"
  | Some (cls, objs) =>
      let m := Src_aes.globals ++ mk_objects "" objs ++ [("k", bytes_object key); ("iv0", bytes_object iv); ("blk", mk_object U8 16)] in
      of_res (call aes_prog [] 200 "Aesmode::Aesmode/1" "" [VPtr "iv0" 0] (init_state m))
        (fun r1 => of_res (call aes_prog [] 200 "keyhandle::keyhandle/1" "crypt.key." [VPtr "k" 0] (snd r1))
        (fun r2 => match run_blocks cls blks (snd r2) [] with
                   | SOk (o, _) => SOk o
                   | SErr w => SErr w
                   end))
  end.

(* ---------------- base64 ---------------- *)
Definition b64_prog : program := Src_base64.functions.
Definition src_b64_encode (data : list N) : sres (list N) :=
  let n := zlen data in
  let m := Src_base64.globals ++ [("in", bytes_object data); ("out", mk_object U8 (4 * ((n + 2) / 3) + 1))] in
  of_res (call b64_prog [] (List.length data + 100) "hex_to_base64/3" "" [VPtr "in" 0; VInt n; VPtr "out" 0] (init_state m))
    (fun r => out_bytes (snd r) "out").

(* decode into a buffer of cap bytes: result flag and buffer contents, or the error (e.g. out of bounds) *)
Definition src_b64_decode (cap : nat) (fill : N) (text : list N) : sres (bool * list N) :=
  let m := Src_base64.globals ++ [("in", bytes_object text); ("out", bytes_object (repeat fill cap))] in
  of_res (call b64_prog [] (List.length text + 100) "base64_to_hex/3" "" [VPtr "in" 0; VInt (zlen text); VPtr "out" 0] (init_state m))
    (fun r => match fst r, get_bytes (snd r) "out" with
              | Some (VInt z), Some o => SOk (negb (Z.eqb z 0), o)
              | _, _ => SErr "no result"
              end).

Definition src_b64_valid (text : list N) : sres bool :=
  let m := Src_base64.globals ++ [("in", bytes_object text)] in
  of_res (call b64_prog [] (List.length text + 100) "is_valid_b64/2" "" [VPtr "in" 0; VInt (zlen text)] (init_state m))
    (fun r => match fst r with Some (VInt z) => SOk (negb (Z.eqb z 0)) | _ => SErr "no result" end).

(* ---------------- chunk buffer: the successive load_buffer calls over an input, each followed by export_buffer ---------------- *)
(* one iobuffer of c blocks; returns per load (loadstate, total, now-after-consumption is the caller's business) *)
Definition iob_objects (c : nat) : list (string * ity * Z) :=
  map (fun x => match x with (n, t, k) => if String.eqb n "b" then (n, t, 16 * Z.of_nat c) else x end) Src_iobuffer.objects_iobuffer.
Definition iob_state (c : nat) (input : list N) : state :=
  {| mem := [("sum", {| o_ty := U32; o_cells := [16 * Z.of_nat c] |})] ++ mk_objects "" (iob_objects c);
     loc := []; pre := ""; fresh := 0; ptrs := [];
     files := [("fin", {| cf_data := map Z.of_N input; cf_pos := 0; cf_eof := false |}); ("fout", {| cf_data := []; cf_pos := 0; cf_eof := false |})] |}.
Definition cell0 (s : state) (name : string) : Z :=
  match mget (mem s) name with Some o => nth 0 (o_cells o) 0 | None => -1 end.
(* load_buffer(fin, ispadding): (loadstate, total, tail, isfinal, buffer bytes (16*total), state) *)
Definition src_load (ispadding : bool) (s : state) : sres (Z * Z * Z * Z * list N * state) :=
  of_res (call Src_iobuffer.functions [] 100 "iobuffer::load_buffer/2" "" [VPtr "fin" 0; VInt (if ispadding then 1 else 0)] s)
    (fun r => match fst r, get_bytes (snd r) "b" with
              | Some (VInt ls), Some b =>
                  let s' := snd r in
                  SOk (ls, cell0 s' "total", cell0 s' "tail", cell0 s' "isfinal", firstn (Z.to_nat (16 * cell0 s' "total")) b, s')
              | _, _ => SErr "no result"
              end).
(* export_buffer(fout, ispadding) after the worker consumed `now` blocks: the bytes written *)
Definition src_export (ispadding : bool) (now : Z) (s : state) : sres (list N) :=
  match mget (mem s) "now" with
  | None => SErr "no now"
  | Some o =>
      let s1 := with_mem (with_files s (lset (files s) "fout" {| cf_data := []; cf_pos := 0; cf_eof := false |}))
                         (mset (mem s) "now" {| o_ty := o_ty o; o_cells := [now] |}) in
      of_res (call Src_iobuffer.functions [] 100 "iobuffer::export_buffer/2" "" [VPtr "fout" 0; VInt (if ispadding then 1 else 0)] s1)
        (fun r => match lget (files (snd r)) "fout" with
                  | Some f => SOk (map Z.to_N (cf_data f))
                  | None => SErr "no stream"
                  end)
  end.

(* the whole sequence of load_buffer calls the pipeline makes over an input (until the first non-FULL result), as the
   model's load records *)
Fixpoint src_loads_from (fuel : nat) (ispadding : bool) (s : state) : sres (list load) :=
  match fuel with
  | O => SErr "out of fuel"
  | S f =>
      match src_load ispadding s with
      | SErr w => SErr w
      | SOk (ls, total, _, _, data, s') =>
          if Z.eqb ls 2 then SOk []
          else let l := {| ld_data := data; ld_total := Z.to_nat total; ld_final := Z.eqb ls 1 |} in
               if Z.eqb ls 1 then SOk [l]
               else match src_loads_from f ispadding s' with SOk r => SOk (l :: r) | SErr w => SErr w end
      end
  end.
Definition src_loads (c : nat) (ispadding : bool) (input : list N) : sres (list load) :=
  src_loads_from (S (List.length input / (16 * c))) ispadding (iob_state c input).

(* export_buffer on a buffer holding `data` of which the worker consumed `now` blocks, with the given isfinal flag *)
Definition src_export_on (c : nat) (ispadding : bool) (now : nat) (isfinal : bool) (data : list N) : sres (list N) :=
  let s := iob_state c [] in
  let m := mset (mset (mem s) "b" (bytes_object data)) "isfinal" {| o_ty := TBool; o_cells := [if isfinal then 1 else 0] |} in
  src_export ispadding (Z.of_nat now) (with_mem s m).
