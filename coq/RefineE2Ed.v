(* End to end, rejecting path of decryption: the translated runcrypt::execute_decrypt run by the thread machine of SrcRun5 on a file
   FileModel.verify rejects returns false, writes nothing and leaves its input alone.
   Composition of: the constructors (RefineE2EWhole.construct_run), runcrypt::verify in the whole-file run (RefineE2E.verify_whole),
   what it leaves alone (RefineE2E.call_frame), the rest of execute_decrypt when verify returned a code <> 0 (no worker thread is
   started), and the agreement of the thread machine with the sequential semantics on a run that terminates normally
   (RefineSeq.seq_machine_agrees_gen, which needs only wf_ok: breaks inside loops). *)
From Coq Require Import ZArith NArith List String Bool Lia PeanoNat.
From Wencry Require Import Bytes HashModel HashProofs HmacProofs FileModel MiniC MiniCRun MiniCConc MiniCLemmas SrcRun SrcRun2 SrcRun5
     RefineHashDefs RefineHashDriver RefineFileBase RefineFileHmac RefineFileHmac2 RefineFileHmac3 RefineFileVerify
     RefineSeqDefs RefineSeqA RefineSeqB RefineSeq RefineSeqVerify
     RefineE2ENames RefineE2ERel RefineE2EEval RefineE2EAlloc RefineE2ESim RefineE2EFrame RefineE2EWhole RefineE2EBridge RefineE2E.
From Wencry.Gen Require Src_whole.
Import ListNotations.
Local Open Scope list_scope.
Local Open Scope string_scope.
Local Open Scope Z_scope.

(* ---------------- the call graph of decryption: every break is inside a loop ---------------- *)
Lemma decrypt_wf_ok : forall T cm hm ne fsize, wf_ok whole_prog 40 (whole_main WDec T cm hm ne fsize) = true.
Proof. intros. vm_compute. reflexivity. Qed.

(* ---------------- runcrypt::execute_decrypt when verify rejects ---------------- *)
Lemma lget_execute_decrypt : lget whole_prog "runcrypt::execute_decrypt/1" = Some Src_whole.f_runcrypt_execute_decrypt_1.
Proof. vm_compute. reflexivity. Qed.

Lemma execute_decrypt_call_rejects : forall c hbuf T F key code,
  (1 <= hbuf)%nat -> Z.of_nat (64 * hbuf) < 2 ^ 32 -> block16 key -> bytesb F = true ->
  verify hbuf F key = FileModel.Ok code -> code <> 0%N ->
  forall fuel, (2910 + List.length F / 64 <= fuel)%nat ->
  exists s2,
    call whole_prog [] fuel "runcrypt::execute_decrypt/1" "rc." [VInt (Z.of_nat (List.length F))] (S1 c hbuf T F key)
    = Ok (Some (VInt 0), s2) /\ fdata s2 "fout" = Some [] /\ fdata s2 "fin" = Some (map Z.of_N F).
Proof.
  intros c hbuf T F key code Hh1 Hh2 Hk HFb Hm Hne fuel Hfuel.
  set (fsize := Z.of_nat (List.length F)).
  assert (Ef : exists f, fuel = (6 + f)%nat /\ (2900 + List.length F / 64 <= f)%nat) by (exists (fuel - 6)%nat; lia).
  destruct Ef as (f & -> & Hf).
  destruct (verify_whole c hbuf T F key fsize Hh1 Hh2 Hk HFb f Hf) as (code' & sv & Hm' & Ev).
  rewrite Hm in Hm'. injection Hm' as <-.
  pose proof (verify_code _ _ _ _ Hm) as Hc4.
  assert (Hin : In "runcrypt::verify/1" FL0) by (unfold FL0; apply in_or_app; right; left; reflexivity).
  destruct (call_frame _ _ _ _ _ _ _ Hin Ev) as [FA FB]. cbn [ptrs] in FB.
  pose proof (call_any_caller whole_prog [] f "runcrypt::verify/1" "rc." [VInt fsize] _ [("fsize", VInt fsize)] "rc." _ _ _ _ _ Ev) as Ev'.
  eexists. split.
  - unfold call. rewrite lget_execute_decrypt.
    cbn [f_params f_body Src_whole.f_runcrypt_execute_decrypt_1 bind_params bind S1 mem loc pre files ptrs fresh].
    change (6 + f)%nat with (S (S (S (S (S (S f)))))).
    rewrite exec_seq. rewrite exec_if. cbn [eval bind as_int pre ptrs append].
    change (lget PS1 "rc.fin") with (Some (VPtr "fin" 0)). cbn [bind as_int]. change (0 =? 0) with true. cbv iota.
    rewrite exec_skip. cbn [bind].
    rewrite exec_seq.
    rewrite (x_scall whole_prog [] _ (Some "$t2") "runcrypt::verify/1" None [EVar "fsize"]
               (St (M1 c hbuf T key) [("fsize", VInt fsize)] "rc." (FS0 F) PS1 1%nat) [VInt fsize] "rc." _ _ _ eq_refl eq_refl
               (call_mono whole_prog [] f _ _ _ _ _ Ev' (S (S (S f))) ltac:(lia)) eq_refl).
    cbn [bind]. unfold with_loc. cbn [mem loc pre files ptrs fresh lset String.eqb Ascii.eqb Bool.eqb].
    rewrite exec_seq. rewrite exec_set. cbn [eval bind as_int loc lget String.eqb Ascii.eqb Bool.eqb].
    rewrite wrap_I32_small by lia. unfold with_loc. cbn [bind mem loc pre files ptrs fresh lset String.eqb Ascii.eqb Bool.eqb].
    rewrite exec_seq. rewrite exec_if. cbn [eval bind as_int loc lget String.eqb Ascii.eqb Bool.eqb eval_bin].
    assert (Eb : (Z.of_N code =? 0) = false) by (apply Z.eqb_neq; lia).
    rewrite Eb. cbn [bind as_int]. change (0 =? 0) with true. cbv iota. rewrite exec_skip. cbn [bind].
    rewrite exec_seq.
    match goal with |- context [exec whole_prog [] (S ?f0) (SCall None "runcrypt::over/0" None []) (St ?m ?l ?p ?fs ?ps ?fr)] =>
      rewrite (x_scall whole_prog [] f0 None "runcrypt::over/0" None [] (St m l p fs ps fr) [] "rc." None (St m l p fs ps fr) (St m l p fs ps fr) eq_refl eq_refl
                 (over_call f0 m l p fs ps fr "fin" 0 "fout" 0 ltac:(lia) (eq_trans (FB "rc.fin" (or_introl eq_refl)) eq_refl)
                            (eq_trans (FB "rc.out" (or_intror (or_introl eq_refl))) eq_refl)) eq_refl)
    end.
    cbn [bind]. rewrite x_return. cbn [eval bind as_int loc lget String.eqb Ascii.eqb Bool.eqb eval_bin].
    rewrite Eb. cbn [bind]. reflexivity.
  - unfold fdata in *. cbn [files]. rewrite !FA. split; reflexivity.
Qed.

(* ---------------- the whole run in the sequential semantics ---------------- *)
Lemma whole_decrypt_rejects_exec : forall c hbuf T F key code,
  (1 <= hbuf)%nat -> Z.of_nat (64 * hbuf) < 2 ^ 32 -> block16 key -> bytesb F = true ->
  verify hbuf F key = FileModel.Ok code -> code <> 0%N ->
  exists fuel s',
    exec whole_prog [] fuel (whole_main WDec T (-1) (-1) true (Z.of_nat (List.length F))) (whole_state c hbuf T (-1) (-1) true F key []) = Ok (Normal, s') /\
    lget (loc s') "result" = Some (VInt 0) /\
    fdata s' "fout" = Some [] /\ fdata s' "fin" = Some (map Z.of_N F).
Proof.
  intros c hbuf T F key code Hh1 Hh2 Hk HFb Hm Hne.
  set (f := (2910 + List.length F / 64)%nat).
  destruct (execute_decrypt_call_rejects c hbuf T F key code Hh1 Hh2 Hk HFb Hm Hne f (le_n _)) as (s2 & Ec & Hfo & Hfi).
  exists (S (S f)). eexists.
  unfold whole_main. rewrite exec_seq.
  rewrite (exec_mono whole_prog [] 30 _ _ _ (construct_run c hbuf T F key) (S f)) by (unfold f; lia).
  cbn [bind].
  rewrite (x_scall whole_prog [] f (Some "result") "runcrypt::execute_decrypt/1" (Some (EField "rc.")) [EConst (Z.of_nat (List.length F))]
             (S1 c hbuf T F key) [VInt (Z.of_nat (List.length F))] "rc." _ _ _ eq_refl eq_refl Ec eq_refl).
  split; [reflexivity|]. unfold with_loc. cbn [loc]. split; [apply lget_lset_same|].
  unfold fdata in *. cbn [files]. split; assumption.
Qed.

(* ---------------- from the sequential semantics to the thread machine (RefineSeqVerify.verify_file_run, for any operation whose
   sequential run ends normally: only wf_ok is needed) ---------------- *)
Lemma whole_file_run : forall op c hbuf T F key fuel s' z,
  wf_ok whole_prog 40 (whole_main op T (-1) (-1) true (Z.of_nat (List.length F))) = true ->
  exec whole_prog [] fuel (whole_main op T (-1) (-1) true (Z.of_nat (List.length F))) (whole_state c hbuf T (-1) (-1) true F key []) = Ok (Normal, s') ->
  lget (loc s') "result" = Some (VInt z) ->
  exists n : nat,
    forall rnd, src_whole op c hbuf T (-1) (-1) F key [] rnd =
                if (run_fuel c T (List.length F) <=? n)%nat then SErr "out of fuel"
                else SOk (negb (z =? 0), stream_bytes s' "fout", stream_bytes s' "fin", 1%nat).
Proof.
  intros op c hbuf T F key fuel s' z W H RB.
  destruct (seq_machine_agrees_gen whole_prog [] _ _ _ _ _ _ W H eq_refl TRun ltac:(discriminate)) as [n R].
  exists n. intro rnd.
  unfold src_whole, run_from. fold (run_fuel c T (List.length F)).
  set (mfuel := run_fuel c T (List.length F)).
  match goal with |- context [auto_run ?st _ _ _ _] =>
    assert (ES : exists m, st = S (S m)) by (eexists; reflexivity); destruct ES as [m ES]; rewrite ES; clear ES end.
  unfold auto_run, whole_init_from.
  rewrite auto_run_single by reflexivity.
  set (t0 := {| ct_cur := whole_main op T (-1) (-1) true (Z.of_nat (List.length F)); ct_k := KStop; ct_loc := []; ct_pre := ""; ct_st := TRun |}).
  assert (RT : run_thread whole_prog [] mfuel 0 true t0
                 {| cs_sh := op_layer (process_init c hbuf) F key []; cs_thr := [t0]; cs_mx := [] |} [] =
               if (mfuel <=? n)%nat then NoFuel
               else Ok ({| cs_sh := shared_of s'; cs_thr := [mk SSkip KStop (loc s') ""%string TDone]; cs_mx := [] |}, ([] ++ [(14, 0, 0)])%list)).
  { exact (R mfuel 0%nat true [t0] [] []). }
  rewrite RT. clear RT. destruct (mfuel <=? n)%nat; [reflexivity|].
  cbn [enabled_list cs_thr List.length seq filter enabled nth_thread nth_error ct_st forallb andb].
  unfold main_result. cbn [cs_thr nth_error ct_loc]. rewrite RB.
  unfold out_bytes, in_bytes, stream_bytes. cbn [cs_sh shared_of files]. reflexivity.
Qed.

(* ---------------- the theorem ---------------- *)
Lemma SRC_execute_decrypt_rejects_proof : forall c hbuf T F key rnd code,
  (1 <= c)%nat -> (1 <= hbuf)%nat -> (N.of_nat (64 * hbuf) < 2 ^ 32)%N -> (1 <= T < 256)%nat ->
  block16 key -> bytesb F = true -> (N.of_nat (List.length F) < 2 ^ 56)%N ->
  verify hbuf F key = FileModel.Ok code -> code <> 0%N ->
  match src_decrypt_file c hbuf T F key rnd with
  | SOk (b, o, i, _) => b = false /\ o = [] /\ i = F
  | SErr w => w = "out of fuel"%string
  end.
Proof.
  intros c hbuf T F key rnd code _ Hh1 Hh2 _ Hk HFb _ Hm Hne.
  assert (Hh2' : Z.of_nat (64 * hbuf) < 2 ^ 32) by lia.
  destruct (whole_decrypt_rejects_exec c hbuf T F key code Hh1 Hh2' Hk HFb Hm Hne) as (fuel & s' & Hex & Hres & Hfo & Hfi).
  destruct (whole_file_run WDec c hbuf T F key fuel s' 0 (decrypt_wf_ok _ _ _ _ _) Hex Hres) as [n R].
  unfold src_decrypt_file. rewrite R. destruct (run_fuel c T (List.length F) <=? n)%nat; [reflexivity|].
  unfold fdata in Hfo, Hfi. unfold stream_bytes. split; [reflexivity|]. split.
  - destruct (lget (files s') "fout") as [fo|]; [|reflexivity]. cbn [option_map] in Hfo. injection Hfo as ->. reflexivity.
  - destruct (lget (files s') "fin") as [fi|]; [|discriminate Hfi]. cbn [option_map] in Hfi. injection Hfi as ->. apply map_to_of_N'.
Qed.
Print Assumptions SRC_execute_decrypt_rejects_proof.

(* non-vacuity: the hypotheses hold for a genuine encrypted file (RefineSeqVerify.nv_enc) presented with another key (tag mismatch,
   code 2), for a truncated one (code 1), for one with a mode byte out of range (code 3) and for a file that is not a wencry file
   (code 4); the machine rejects each, writes nothing and leaves the input as it was *)
Definition nv_wrong_key : list N := map N.of_nat (seq 2 16).
Example e2ed_nonvacuous :
  ((1 <= 1)%nat /\ (1 <= 1)%nat /\ (N.of_nat (64 * 1) < 2 ^ 32)%N /\ (1 <= 2 < 256)%nat /\ block16 nv_wrong_key /\ bytesb nv_enc = true /\
   (N.of_nat (List.length nv_enc) < 2 ^ 56)%N) /\
  verify 1 nv_enc nv_wrong_key = FileModel.Ok 2%N /\ 2%N <> 0%N /\
  src_decrypt_file 1 1 2 nv_enc nv_wrong_key 777 = SOk (false, [], nv_enc, 1%nat).
Proof. repeat split; try (vm_compute; reflexivity); try lia; discriminate. Qed.
Definition nv_short : list N := firstn 50 nv_enc.
Definition nv_badmode : list N := (firstn 8 nv_enc ++ [7%N] ++ skipn 9 nv_enc)%list.
Example e2ed_nonvacuous_other_codes :
  (verify 1 nv_short nv_key = FileModel.Ok 1%N /\ src_decrypt_file 1 1 2 nv_short nv_key 5 = SOk (false, [], nv_short, 1%nat)) /\
  (verify 1 nv_badmode nv_key = FileModel.Ok 3%N /\ src_decrypt_file 1 1 2 nv_badmode nv_key 5 = SOk (false, [], nv_badmode, 1%nat)) /\
  (verify 1 nv_file nv_key = FileModel.Ok 4%N /\ src_decrypt_file 1 1 2 nv_file nv_key 5 = SOk (false, [], nv_file, 1%nat)).
Proof. repeat split; vm_compute; reflexivity. Qed.
(* ... while the same file with its own key is accepted and decrypted (the theorem says nothing about it: code = 0) *)
Example e2ed_accepting_path_differs :
  verify 1 nv_enc nv_key = FileModel.Ok 0%N /\
  src_decrypt_file 1 1 1 nv_enc nv_key 5 = SOk (true, map N.of_nat (seq 30 20), nv_enc, 36%nat).
Proof. split; vm_compute; reflexivity. Qed.
