(* PARALLEL4 (H2), D1, step 3: hmac::cmphmac of runcrypt::verify on the FULL state (memory Mem4, pointer table PS1), with its final state:
   RefineE2EfDecD1b.cmp_small --RefineE2EfHashMono.call_more--> the full state; the names by RefineE2EfHashPK.call_pk. *)
From Coq Require Import ZArith NArith List String Bool Lia PeanoNat Ascii.
From Wencry Require Import Bytes HashModel HashProofs HmacProofs FileModel MiniC MiniCRun MiniCLemmas SrcRun SrcRun2 SrcRun5
     RefineHashDefs RefineHashDriver RefineFileBase RefineFileHmac RefineFileHmac2 RefineFileHmac3 RefineFileVerify
     RefineE2ENames RefineE2ERel RefineE2EEval RefineE2EAlloc RefineE2ESim RefineE2EFrame RefineE2EWhole RefineE2EBridge RefineE2E.
From Wencry Require Import RefineE2EfWNames RefineE2EfHashMono RefineE2EfHashB1 RefineE2EfHashKeys RefineE2EfHashPK RefineE2EfDecD1a RefineE2EfDecD1b.
From Wencry.Gen Require Layout Src_sha256 Src_sha1 Src_md5 Src_hashmaster Src_hashbuffer Src_hashfactory Src_fheader Src_cry.
Import ListNotations.
Local Open Scope list_scope.
Local Open Scope string_scope.
Local Open Scope Z_scope.

Lemma mget_filter' : forall (f : string -> bool) (m : memory) k, mget (filter (fun kv : string * object => f (fst kv)) m) k = if f k then mget m k else None.
Proof.
  intros f. induction m as [|[k' o] r IH]; intro k; cbn [filter fst mget]; [destruct (f k); reflexivity|].
  destruct (f k') eqn:Ek'.
  - cbn [mget]. destruct (String.eqb_spec k k') as [->|Hne]; [rewrite Ek'; reflexivity|apply IH].
  - rewrite IH. destruct (String.eqb_spec k k') as [->|Hne]; [rewrite Ek'; reflexivity|reflexivity].
Qed.
Lemma mget_notin' : forall (m : memory) k, ~ In k (map fst m) -> mget m k = None.
Proof.
  induction m as [|[k0 o0] m IH]; intros k H; cbn [mget]; [reflexivity|]. cbn [map fst In] in H.
  destruct (String.eqb_spec k k0) as [->|N]; [exfalso; apply H; left; reflexivity|apply IH; intro Hi; apply H; right; exact Hi].
Qed.
Lemma in_mget' : forall (m : memory) k, In k (map fst m) -> mget m k <> None.
Proof.
  induction m as [|[k0 o0] m IH]; intros k H; cbn [mget]; [destruct H|]. cbn [map fst In] in H.
  destruct (String.eqb_spec k k0) as [->|N]; [discriminate|]. apply IH. destruct H as [H|H]; [congruence|exact H].
Qed.

(* ---------------- the checked function lists ---------------- *)
Definition SZV : list string := ["sizeof:iobuffer.b"].
Lemma HFL0mV : forall g fn, In g FL0 -> lget whole_prog g = Some fn -> mok whole_prog FL0 SZV (f_body fn) = true.
Proof.
  assert (C : forallb (fun g => match lget whole_prog g with Some fn => mok whole_prog FL0 SZV (f_body fn) | None => true end) FL0 = true)
    by (vm_compute; reflexivity).
  intros g fn Hg L. rewrite forallb_forall in C. specialize (C g Hg). rewrite L in C. exact C.
Qed.
(* for the call of cmphmac: the hash code only *)
Definition FLg2 : list string := OKL0.
Definition FLu2 : list string := filter (fun g => negb (inb g ["hmac::getres/4"; "hmac::cmphmac/5"; "filebuffer64::filebuffer64/3"])) OKL0.
Definition LN2 : list string := ["temph"; "padding"].
Lemma HFLc2 : forall cx g fn, In g (FLc FLg2 [] FLu2 cx) -> lget whole_prog g = Some fn -> pk whole_prog FLg2 [] FLu2 LN2 cx (f_body fn) = true.
Proof.
  assert (C : forall cx, forallb (fun g => match lget whole_prog g with Some fn => pk whole_prog FLg2 [] FLu2 LN2 cx (f_body fn) | None => true end) (FLc FLg2 [] FLu2 cx) = true)
    by (intros [| |]; vm_compute; reflexivity).
  intros cx g fn Hg L. specialize (C cx). rewrite forallb_forall in C. specialize (C g Hg). rewrite L in C. exact C.
Qed.
(* for the call of verify *)
Definition FLgV : list string := filter (fun g => negb (inb g ["runcrypt::verify/1"; "runcrypt::execute_verify/1"; "runcrypt::over/0"])) FL0.
Definition FLrV : list string := ["runcrypt::verify/1"].
Definition FLuV : list string :=
  filter (fun g => negb (inb g ["hmac::getres/4"; "hmac::cmphmac/5"; "filebuffer64::filebuffer64/3"; "runcrypt::verify/1"; "runcrypt::execute_verify/1"; "runcrypt::over/0"])) FL0.
Definition LNV : list string := ["temph"; "padding"; "mn"].
Lemma HFLcV : forall cx g fn, In g (FLc FLgV FLrV FLuV cx) -> lget whole_prog g = Some fn -> pk whole_prog FLgV FLrV FLuV LNV cx (f_body fn) = true.
Proof.
  assert (C : forall cx, forallb (fun g => match lget whole_prog g with Some fn => pk whole_prog FLgV FLrV FLuV LNV cx (f_body fn) | None => true end) (FLc FLgV FLrV FLuV cx) = true)
    by (intros [| |]; vm_compute; reflexivity).
  intros cx g fn Hg L. specialize (C cx). rewrite forallb_forall in C. specialize (C g Hg). rewrite L in C. exact C.
Qed.

Lemma gl2_nil : forall c hbuf T Fl key mn, globals_ok (@nil (string * object)) (msrc2 (Mem4 c hbuf T Fl key mn)).
Proof. intros c hbuf T Fl key mn k o H. discriminate H. Qed.
Lemma gl2_sha256 : forall c hbuf T Fl key mn, globals_ok Src_sha256.globals (msrc2 (Mem4 c hbuf T Fl key mn)).
Proof.
  intros c hbuf T Fl key mn k o H. unfold Src_sha256.globals in H. cbn [mget] in H.
  destruct (String.eqb_spec k "k") as [->|_]; [|discriminate H]. injection H as <-. rewrite mget_msrc2. reflexivity.
Qed.

(* what is known about the state after cmphmac *)
Definition Q6 (c hbuf T : nat) (Fl key : list N) (fo : cfile) (hl : nat) (mn : object) (s6 : state) : Prop :=
  NA s6 /\
  mget (mem s6) "rc.hmachandle.length" = Some (cell1 U8 (Z.of_nat hl)) /\
  (forall k o, mget (Mem4 c hbuf T Fl key mn) k = Some o -> k <> "rc.hmachandle.length" -> mget (mem s6) k = Some o) /\
  lget (files s6) "fout" = Some fo.

Section AnyClassF.
Variable cls : string.
Variable a : halg.
Variable objs : list (string * ity * Z).
Variable globs : memory.
Variable F : nat.
Variable hm : N.
Variable hbuf : nat.
Hypothesis C : hctx cls a objs globs (file_vt hm) F (Z.of_N hm) hbuf "rc.hmachandle.".
Hypothesis Hgh : get_hasher hm = Some a.
Hypothesis HF : (F + 26 <= 2000)%nat.
Hypothesis Hfive : forall name t n, In (name, t, n) objs -> In name RefineFileHmac3.five.
Hypothesis Hcls : In cls hashcls.
Hypothesis Hvt : file_vt hm = vt0 cls.
Hypothesis Hgl : forall c T Fl key mn, globals_ok globs (msrc (Mem4 c hbuf T Fl key mn)).
Hypothesis Hgl2 : forall c T Fl key mn, globals_ok globs (msrc2 (Mem4 c hbuf T Fl key mn)).

Lemma cmp_full : forall c T Fl key fsize fo, block16 key -> bytesb Fl = true -> (74 <= List.length Fl)%nat -> nth 9 Fl 0%N = hm ->
  forall fuel mn l0, (2800 + List.length Fl / 64 <= fuel)%nat ->
  exists tag s', hmac_model hbuf hm key (skipn 48 Fl) = Some tag /\
    call whole_prog [] fuel "hmac::cmphmac/5" "rc.hmachandle." [VInt (Z.of_N hm); VPtr "key" 0; VPtr "fin" 0; VPtr "rc.header.hash" 0; VInt fsize]
      (St (Mem4 c hbuf T Fl key mn) l0 "rc." (FS (map Z.of_N Fl) 48%nat false fo) PS1 1%nat) =
    Ok (Some (VInt (if cmphmac tag (firstn 64 (skipn 10 Fl)) then 1 else 0)), s') /\
    Q6 c hbuf T Fl key fo (ha_hlen a) mn s'.
Proof.
  intros c T Fl key fsize fo Hk HFb H74 Hhm fuel mn l0 Hfuel.
  destruct (cmp_small cls a objs globs F hm hbuf C Hgh HF Hfive Hcls Hvt Hgl Hgl2 c T Fl key fsize fo Hk HFb H74 Hhm fuel mn Hfuel)
    as (tag & S' & Hmodel & EcS & HNA & Hlen & Hoth & Hfo).
  exists tag.
  set (M4 := Mem4 c hbuf T Fl key mn) in *.
  set (Jm := filter (fun kv : string * object => negb (keep2 (fst kv))) M4).
  assert (EJ : forall k, mget Jm k = if keep2 k then None else mget M4 k).
  { intro k. unfold Jm. rewrite (mget_filter' (fun k => negb (keep2 k))). destruct (keep2 k); reflexivity. }
  assert (HXf : forall n y, (1 <= n)%nat -> mget Jm (hobj n ++ y) = None).
  { intros n y Hn. rewrite EJ. destruct (keep2 (hobj n ++ y)); [reflexivity|].
    destruct (mget M4 (hobj n ++ y)) as [o|] eqn:Eo; [|reflexivity]. exfalso. rewrite hobj_app in Eo.
    apply (keys4_hash c hbuf T Fl key mn) in Eo. apply (heap_not_hobj 0 n y). rewrite hobj_app. unfold heap_name. f_equal. symmetry. exact Eo. }
  assert (HXs : forall r, ~ In ("sizeof:" ++ r) SZV -> mget Jm ("sizeof:" ++ r) = None).
  { intros r Hr. rewrite EJ. destruct (keep2 ("sizeof:" ++ r)) eqn:Ek; [reflexivity|].
    destruct (mget M4 ("sizeof:" ++ r)) as [o|] eqn:Eo; [|reflexivity]. exfalso.
    pose proof (keys4_all c hbuf T Fl key mn (fun k => keep2 k || negb (is_prefix "sizeof:" k) || String.eqb k "sizeof:iobuffer.b") _ _ eq_refl Eo) as X.
    cbn beta in X. rewrite Ek, sizeof_prefix in X. cbn [negb orb] in X. apply String.eqb_eq in X. apply Hr. rewrite X. left. reflexivity. }
  assert (HYa : forall c0, lget (@nil (string * value)) ("alloc:" ++ c0) = None) by reflexivity.
  assert (R : MR Jm [] 1 (St (msrc2 M4) [] "rc." (FS (map Z.of_N Fl) 48%nat false fo) PS1 1%nat) (St M4 [] "rc." (FS (map Z.of_N Fl) 48%nat false fo) PS1 1%nat)).
  { constructor; cbn [mem loc pre files ptrs fresh]; try reflexivity; try lia.
    - intro k. rewrite mget_msrc2, EJ. destruct (keep2 k); [destruct (mget M4 k); reflexivity|reflexivity].
    - intro k. destruct (lget PS1 k); reflexivity. }
  assert (Hg0 : In "hmac::cmphmac/5" FL0).
  { unfold FL0. apply in_or_app. left. unfold OKL0. apply in_or_app. right. apply in_or_app. right. apply in_or_app. right. right. left. reflexivity. }
  destruct (call_more whole_prog [] FL0 SZV HFL0mV Jm [] 1%nat HXf HXs HYa fuel "hmac::cmphmac/5" "rc.hmachandle." _ _ _ _ _ Hg0 EcS HNA R) as (Sb & EcB & Rb).
  assert (NAb : NA Sb).
  { intro c0. rewrite (mrp_none _ _ _ _ (mr_p _ _ _ _ _ Rb) (HNA c0)). reflexivity. }
  (* the names of the small final state *)
  assert (Hg2 : In "hmac::cmphmac/5" (FLc FLg2 [] FLu2 CG)).
  { cbn [FLc]. unfold FLg2, OKL0. apply in_or_app. right. apply in_or_app. right. apply in_or_app. right. right. left. reflexivity. }
  destruct (call_pk whole_prog [] FLg2 [] FLu2 LN2 HFLc2 fuel CG "hmac::cmphmac/5" "rc.hmachandle." _ _ _ _ Hg2 (or_introl eq_refl) EcS HNA)
    as (Hfr & (ks & Ek & Fk) & _). cbn [mem fresh] in Hfr, Ek, Fk.
  exists {| mem := mem Sb; loc := l0; pre := "rc."; files := files Sb; ptrs := ptrs Sb; fresh := fresh Sb |}.
  split; [exact Hmodel|]. split.
  { apply (call_caller_indep whole_prog [] fuel "hmac::cmphmac/5" "rc.hmachandle." _ _ l0 "rc." _ _ EcB). }
  unfold Q6. cbn [mem files ptrs].
  split; [exact NAb|].
  split; [apply (mrm_some _ _ _ _ _ (mr_m _ _ _ _ _ Rb)), Hlen|].
  split; [|rewrite (mr_files _ _ _ _ _ Rb); exact Hfo].
  intros k o Hk4 Hne. destruct (keep2 k) eqn:Ek2.
  - apply (mrm_some _ _ _ _ _ (mr_m _ _ _ _ _ Rb)). apply Hoth; [|exact Hne]. rewrite mget_msrc2, Ek2. exact Hk4.
  - rewrite (mr_m _ _ _ _ _ Rb k).
    assert (En : mget (mem S') k = None).
    { apply mget_notin'. rewrite Ek. intro Hi. apply in_app_or in Hi. destruct Hi as [Hi|Hi].
      - apply in_mget' in Hi. rewrite mget_msrc2, Ek2 in Hi. apply Hi. reflexivity.
      - pose proof (proj1 (Forall_forall _ _) Fk k Hi) as Nk.
        pose proof (keys4_all c hbuf T Fl key mn (fun k => keep2 k || (negb (inb k ["%temph"; "%padding"]) && match hnum k with Some n => (n <? 1)%nat | None => true end)) _ _ eq_refl Hk4) as X.
        cbn beta in X. rewrite Ek2 in X. cbn [orb] in X. apply andb_prop in X. destruct X as [X1 X2].
        destruct Nk as [(x & -> & Hx)|(n & En & Hn)].
        + cbn [LN2 In] in Hx. destruct Hx as [<-|[<-|[]]]; discriminate X1.
        + rewrite En in X2. apply Nat.ltb_lt in X2. destruct Hn as [Hn1 _]. exact (Nat.lt_irrefl n (Nat.lt_le_trans n 1 n X2 Hn1)). }
    rewrite En, EJ, Ek2. exact Hk4.
Qed.
End AnyClassF.
Print Assumptions cmp_full.
