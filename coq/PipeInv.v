(* The inductive invariant of the buffer pipeline PipeConc (control + data).
   Spurious wake-ups are transitions of the system (PipeConc.spurious): the invariant claims nothing about
   the predicate of an Awake thread.  A worker that is W_Awake is either on a READY / INV buffer (it was
   notified, or the buffer was handed over while it was spuriously awake) or, woken spuriously, on an EMPTY /
   UPDATING buffer exactly where a W_Asleep worker may be (w_fresh / w_upd); the I/O thread at I_Awake is
   on a buffer of any idle state (pre_ok). *)
From Wencry Require Import Bytes FileModel PipeConc PipeProps PipeLemmas.
From Coq Require Import ZifyNat.
Local Open Scope nat_scope.

Section Inv.
Variable S : Type.
Variable tr : S -> list N -> S * list N.
Variable tr_event : nat -> S -> list event.
Variable c : nat.
Variable ispadding : bool.
Variable T : nat.
Variable sigma0 : list S.
Variable ls : list load.
Variable dS : S.

Notation state := (state S).
Notation tr_blocks := (tr_blocks S tr).
Notation seq_chunks := (seq_chunks S tr c ispadding).
Notation getb := (getb S).
Notation getw := (getw S).

(* ---- the sequential reference, chunk by chunk ---- *)
Definition dl : load := {| ld_data := []; ld_total := 0; ld_final := false |}.
Definition m : nat := length ls.
Definition chunk (j : nat) : load := nth j ls dl.
Definition blk (j : nat) : list (list N) := blocks16_of (ld_data (chunk j)).
(* stream states / export results after the first j chunks *)
Definition G (j : nat) : list S := fst (seq_chunks T sigma0 0 (firstn j ls)).
Definition outs (j : nat) : list (result (list N)) := snd (seq_chunks T sigma0 0 (firstn j ls)).
(* reference processing of chunk j by stream i *)
Definition R (i j : nat) : S * list (list N) := tr_blocks (nth i (G j) dS) (blk j).

(* ---- per buffer ---- *)
(* W_Awake on a buffer that is not READY / INV: the worker was woken spuriously (it will re-test its
   predicate, find it false and go back to sleep) *)
Definition w_fresh (w : wpc) : Prop := match w with W_New | W_Start | W_Asleep true | W_Awake true => True | _ => False end.
Definition w_upd (w : wpc) : Prop := match w with W_WaitReady | W_Asleep false | W_Awake false => True | _ => False end.
Definition w_alive (w : wpc) : Prop := match w with W_Asleep _ => False | _ => True end.

(* buffer b holds chunk j (of stream i), processed up to the cursor, x = current stream state *)
Definition holds (i j : nat) (b : buf) (x : S) : Prop :=
  b_total b = ld_total (chunk j) /\ b_final b = ld_final (chunk j) /\ length (b_data b) = b_total b /\
  b_now b <= b_total b /\
  fst (tr_blocks x (skipn (b_now b) (b_data b))) = fst (R i j) /\
  firstn (b_now b) (b_data b) ++ snd (tr_blocks x (skipn (b_now b) (b_data b))) = snd (R i j).

Definition hold_ctl (b : buf) (w : wpc) : Prop :=
  match b_st b with
  | READY => match w with
             | W_New | W_Start | W_Awake _ | W_WaitReady | W_Cmp => b_now b = 0
             | W_Get => True
             | W_SetUpdate => b_now b = b_total b
             | W_Asleep _ | W_Done => False
             end
  | UPDATING => w_upd w /\ b_now b = b_total b
  | _ => False
  end.

Definition Fresh (i : nat) (b : buf) (w : wpc) (x : S) : Prop :=
  b_st b = EMPTY /\ b_now b = 0 /\ b_total b = 0 /\ b_final b = false /\ w_fresh w /\ x = nth i sigma0 dS.
Definition Hold (i j : nat) (b : buf) (w : wpc) (x : S) : Prop := holds i j b x /\ hold_ctl b w.
Definition Dead (i : nat) (b : buf) (w : wpc) (x : S) : Prop :=
  b_st b = INV /\ b_now b = b_total b /\ w_alive w /\ x = nth i (G m) dS.

(* n = number of completed visits of the I/O thread on this buffer; the I/O thread is not in its
   flush/refill window on it *)
Definition IdleInv (n i : nat) (b : buf) (w : wpc) (x : S) : Prop :=
  match n with
  | O => Fresh i b w x
  | Datatypes.S n' => if n' * T + i <? m then Hold i (n' * T + i) b w x else Dead i b w x
  end.

Definition own_ctl (n : nat) (b : buf) (w : wpc) : Prop :=
  match n with
  | O => b_st b = EMPTY /\ w_fresh w
  | Datatypes.S _ => b_st b = UPDATING /\ w_upd w
  end.
Definition own_old (n i : nat) (b : buf) : Prop :=
  match n with
  | O => True
  | Datatypes.S n' => b_total b = ld_total (chunk (n' * T + i)) /\ b_final b = ld_final (chunk (n' * T + i)) /\
                      b_data b = snd (R i (n' * T + i))
  end.
(* the I/O thread is in its window (I_Cmp .. I_SetReady) of visit number n*T+i on buffer i *)
Definition OwnInv (n i : nat) (p : ipc) (b : buf) (w : wpc) (x : S) : Prop :=
  x = nth i (G (n * T + i)) dS /\ own_ctl n b w /\
  match p with
  | I_SetReady _ =>
      if n * T + i <? m
      then b_now b = 0 /\ b_total b = ld_total (chunk (n * T + i)) /\ b_final b = ld_final (chunk (n * T + i)) /\
           b_data b = blk (n * T + i)
      else b_now b = b_total b
  | I_Load => b_now b = b_total b /\ (n * T + i < m -> b_final b = false)
  | I_Export => 1 <= n /\ b_now b = b_total b /\ (n * T + i < m -> b_final b = false) /\ own_old n i b
  | _ => b_now b = b_total b /\ (n * T + i < m -> b_final b = false) /\ own_old n i b
  end.

Definition pre_ok (o : option ipc) (st : bst) : Prop :=
  match o with
  | Some I_Asleep => st = READY
  | _ => True       (* I_Awake: notified (UPDATING) or woken spuriously (still READY): nothing is claimed *)
  end.

(* o = Some (io pc) iff the visit in progress is on this buffer *)
Definition BufInv (n : nat) (o : option ipc) (i : nat) (b : buf) (w : wpc) (x : S) : Prop :=
  match o with
  | Some (I_Cmp as p) | Some (I_Export as p) | Some (I_Load as p) | Some (I_SetReady _ as p) => OwnInv n i p b w x
  | _ => IdleInv n i b w x /\ pre_ok o (b_st b)
  end.

(* ---- global ---- *)
Definition post_fin (p : ipc) : bool := match p with I_Turn | I_Join _ | I_Done => true | _ => false end.
(* visit number V = q*T + r is in progress (or, at I_Turn / I_Join / I_Done, just completed) on buffer r *)
Definition nvis (q r : nat) (p : ipc) (i : nat) : nat :=
  if (i <? r) || ((i =? r) && post_fin p) then Datatypes.S q else q.
Definition iot (r : nat) (p : ipc) (i : nat) : option ipc :=
  if (i =? r) && negb (post_fin p) then Some p else None.
Definition loads_done (V : nat) (p : ipc) : nat :=
  match p with I_SetReady _ | I_Turn | I_Join _ | I_Done => Nat.min (V + 1) m | _ => Nat.min V m end.
(* load_buffer calls made so far, counting the NODATA ones (not clipped at m) *)
Definition attempts (V : nat) (p : ipc) : nat :=
  match p with I_SetReady _ | I_Turn | I_Join _ | I_Done => V + 1 | _ => V end.
Definition exports_done (V : nat) (p : ipc) : nat :=
  match p with I_WaitUpdate | I_Asleep | I_Awake | I_Cmp | I_Export => V - T | _ => V + 1 - T end.
Definition visits_done (V : nat) (p : ipc) : nat := if post_fin p then V + 1 else V.
Definition io_extra (V : nat) (p : ipc) : Prop :=
  match p with
  | I_SetReady x => x = (if m <=? V then 2 else if ld_final (chunk V) then 1 else 0)
  | I_Join k => k < T /\ V + 1 = m + T
  | I_Done => V + 1 = m + T
  | _ => True
  end.
Definition IoInvC (V : nat) (p : ipc) (inp : list load) (ov : bool) (lv : nat) (out : list (list N)) (cr : option nat) : Prop :=
  V < m + T /\
  inp = skipn (loads_done V p) ls /\
((ov = true -> m <= loads_done V p) /\ (m < attempts V p -> ov = true)) /\
  lv = T - (visits_done V p - m) /\
  io_extra V p /\
  (all_ok (outs m) -> out = ok_bytes (outs (exports_done V p)) /\ cr = None).
Definition IoInv (V : nat) (s : state) : Prop :=
  IoInvC V (io S s) (input S s) (over S s) (live S s) (output S s) (crashed S s).

Definition InvQR (q r : nat) (s : state) : Prop :=
  length (bufs S s) = T /\ length (wpcs S s) = T /\ length (wsts S s) = T /\
  r < T /\ turn S s = r /\ IoInv (q * T + r) s /\
  forall i, i < T ->
    BufInv (nvis q r (io S s) i) (iot r (io S s) i) i (getb s i) (getw s i) (nth i (wsts S s) dS).

Definition Inv (s : state) : Prop := exists q r, InvQR q r s.

(* ================= the reference, chunk by chunk ================= *)
Hypothesis HT : 1 <= T.
Hypothesis Hsig : length sigma0 = T.
Hypothesis Hwf : wf_loads ls.

Lemma wf_chunk j : j < m -> 1 <= ld_total (chunk j) /\ length (blk j) = ld_total (chunk j).
Proof.
  intros Hj. destruct Hwf as (Hall & _). rewrite Forall_forall in Hall.
  apply (Hall (chunk j)). unfold chunk. apply nth_In. exact Hj.
Qed.

Lemma final_chunk j : j < m -> ld_final (chunk j) = true -> Datatypes.S j = m.
Proof. intros Hj. destruct Hwf as (_ & Hf). apply (Hf j Hj). Qed.

Lemma mod_nTi n i : i < T -> (n * T + i) mod T = i.
Proof. intros Hi. rewrite Nat.add_comm, Nat.mod_add by lia. apply Nat.mod_small. exact Hi. Qed.

Lemma firstn_snoc_nth {A} (d : A) : forall l j, j < length l -> firstn (Datatypes.S j) l = firstn j l ++ [nth j l d].
Proof.
  induction l as [|y l IH]; intros [|j] Hj; cbn [length] in Hj; try lia.
  - reflexivity.
  - cbn [firstn nth app]. f_equal. apply IH. lia.
Qed.

Lemma G_0 : G 0 = sigma0.
Proof. reflexivity. Qed.

Lemma G_length j : length (G j) = T.
Proof. unfold G. rewrite seq_chunks_length. exact Hsig. Qed.

Lemma G_ge j : m <= j -> G j = G m.
Proof. intros Hj. unfold G. rewrite !firstn_all2; [reflexivity| |]; fold m; lia. Qed.
Lemma outs_ge j : m <= j -> outs j = outs m.
Proof. intros Hj. unfold outs. rewrite !firstn_all2; [reflexivity| |]; fold m; lia. Qed.

Lemma GO_S j : j < m ->
  G (Datatypes.S j) = set_nth (j mod T) (fst (R (j mod T) j)) (G j) /\
  outs (Datatypes.S j) = outs j ++ [exp_of c ispadding (chunk j) (snd (R (j mod T) j))].
Proof.
  intros Hj. unfold G, outs, R, blk.
  rewrite (firstn_snoc_nth dl) by exact Hj. fold (chunk j).
  rewrite (seq_chunks_snoc S tr c ispadding T dS HT (firstn j ls) sigma0 0 (chunk j) Hsig).
  cbn zeta. rewrite firstn_length_le by (fold m; lia). cbn [fst snd Nat.add]. split; reflexivity.
Qed.

Lemma G_S_same j i : j < m -> i < T -> j mod T = i -> nth i (G (Datatypes.S j)) dS = fst (R i j).
Proof.
  intros Hj Hi Hm. destruct (GO_S j Hj) as [E _]. rewrite E, Hm.
  apply nth_set_nth_eq. rewrite G_length. exact Hi.
Qed.

Lemma G_S_other j i : (j mod T <> i \/ m <= j) -> nth i (G (Datatypes.S j)) dS = nth i (G j) dS.
Proof.
  intros [Hne|Hge].
  - destruct (Nat.lt_ge_cases j m) as [Hj|Hj].
    + destruct (GO_S j Hj) as [E _]. rewrite E. apply nth_set_nth_neq. exact Hne.
    + rewrite (G_ge j), (G_ge (Datatypes.S j)) by lia. reflexivity.
  - rewrite (G_ge j), (G_ge (Datatypes.S j)) by lia. reflexivity.
Qed.

Lemma G_stable i j : forall d, (forall k, j <= k < j + d -> k mod T <> i) -> nth i (G (j + d)) dS = nth i (G j) dS.
Proof.
  induction d as [|d IH]; intros Hk.
  - rewrite Nat.add_0_r. reflexivity.
  - replace (j + Datatypes.S d) with (Datatypes.S (j + d)) by lia.
    rewrite G_S_other by (left; apply Hk; lia). apply IH. intros k Hk'. apply Hk. lia.
Qed.

(* never visited: stream state is the initial one *)
Lemma G_fresh i : i < T -> nth i (G i) dS = nth i sigma0 dS.
Proof.
  intros Hi. rewrite <- G_0. apply (G_stable i 0 i). intros k Hk.
  rewrite Nat.mod_small by lia. lia.
Qed.

(* between two visits of buffer i *)
Lemma G_round n i : i < T -> nth i (G (Datatypes.S n * T + i)) dS = nth i (G (Datatypes.S (n * T + i))) dS.
Proof.
  intros Hi. replace (Datatypes.S n * T + i) with (Datatypes.S (n * T + i) + (T - 1)) by lia.
  apply G_stable. intros k Hk.
  destruct (Nat.lt_ge_cases k (Datatypes.S n * T)) as [Hlt|Hge].
  - replace k with (n * T + (k - n * T)) by lia. rewrite mod_nTi by lia. lia.
  - replace k with (Datatypes.S n * T + (k - Datatypes.S n * T)) by lia. rewrite mod_nTi by lia. lia.
Qed.

(* ================= local steps of worker i on (buffer, pc, stream state) ================= *)
Definition wait_pc (b : buf) (f : bool) : wpc :=
  if ready_or_inv (b_st b) then (if f then W_Get else W_Cmp) else W_Asleep f.
Definition take_x (b : buf) (x : S) : S := fst (tr x (nth (b_now b) (b_data b) [])).
Definition take_b (b : buf) (x : S) : buf :=
  {| b_st := b_st b; b_total := b_total b; b_now := Datatypes.S (b_now b); b_final := b_final b;
     b_data := set_nth (b_now b) (snd (tr x (nth (b_now b) (b_data b) []))) (b_data b) |}.

Lemma take_entry_some b x i : b_now b < b_total b ->
  take_entry S tr tr_event b x i = Some (take_b b x, take_x b x, tr_event i x).
Proof.
  intros H. unfold take_entry, take_b, take_x. apply Nat.ltb_lt in H. rewrite H.
  destruct (tr x (nth (b_now b) (b_data b) [])) as [x' blk']. reflexivity.
Qed.
Lemma take_entry_none b x i : ~ b_now b < b_total b -> take_entry S tr tr_event b x i = None.
Proof. intros H. unfold take_entry. apply Nat.ltb_nlt in H. rewrite H. reflexivity. Qed.

(* result: new buffer, new pc, new stream state, "notify the I/O thread" *)
Definition wlocal (b : buf) (w : wpc) (x : S) : option (buf * wpc * S * bool) :=
  match w with
  | W_New => Some (b, W_Start, x, false)
  | W_Start => Some (b, wait_pc b true, x, false)
  | W_WaitReady => Some (b, wait_pc b false, x, false)
  | W_Awake f => Some (b, wait_pc b f, x, false)
  | W_Asleep _ | W_Done => None
  | W_Get => if b_now b <? b_total b then Some (take_b b x, W_Get, take_x b x, false)
             else Some (b, W_SetUpdate, x, false)
  | W_SetUpdate => match b_st b with
                   | READY => Some (with_st b UPDATING, W_WaitReady, x, true)
                   | _ => Some (b, W_WaitReady, x, false)
                   end
  | W_Cmp => match b_st b with
             | READY => if b_now b <? b_total b then Some (take_b b x, W_Get, take_x b x, false)
                        else Some (b, W_Done, x, false)
             | _ => Some (b, W_Done, x, false)
             end
  end.
Definition wake_o (o : option ipc) : option ipc := match o with Some I_Asleep => Some I_Awake | _ => o end.

Lemma holds_take i j b x : holds i j b x -> b_now b < b_total b -> holds i j (take_b b x) (take_x b x).
Proof.
  intros (Ht & Hf & Hl & Hn & H1 & H2) Hlt. unfold holds, take_b, take_x.
  cbn [b_total b_final b_data b_now].
  set (p := b_now b) in *. set (d := b_data b) in *.
  assert (Hp : p < length d) by lia.
  rewrite (skipn_nth_cons (@nil N) p d Hp) in H1, H2. rewrite tr_blocks_cons in H1, H2. cbn [fst snd] in H1, H2.
  rewrite set_nth_length, skipn_S_set_nth, firstn_S_set_nth by exact Hp.
  repeat split; try assumption; try lia.
  rewrite <- app_assoc. exact H2.
Qed.

Definition st_move (b b' : buf) (wk : bool) : Prop :=
  (wk = false /\ b_st b' = b_st b) \/ (wk = true /\ b_st b = READY /\ b_st b' = UPDATING).

Lemma Fresh_wlocal i b w x b' w' x' wk :
  Fresh i b w x -> wlocal b w x = Some (b', w', x', wk) -> Fresh i b' w' x' /\ st_move b b' wk.
Proof.
  intros (Hs & Hn & Ht & Hf & Hw & Hx) H. unfold Fresh, st_move.
  destruct w as [| | | | |[]|[]| |]; cbn in Hw; try contradiction; cbn [wlocal] in H.
  - injection H as <- <- <- <-. cbn. tauto.
  - unfold wait_pc in H. rewrite Hs in H. cbn in H. injection H as <- <- <- <-. cbn. tauto.
  - discriminate.
  - unfold wait_pc in H. rewrite Hs in H. cbn in H. injection H as <- <- <- <-. cbn. tauto.
Qed.

Lemma Dead_wlocal i b w x b' w' x' wk :
  Dead i b w x -> wlocal b w x = Some (b', w', x', wk) -> Dead i b' w' x' /\ st_move b b' wk.
Proof.
  intros (Hs & Hn & Hw & Hx) H. unfold Dead, st_move.
  assert (Hlt : (b_now b <? b_total b) = false) by (apply Nat.ltb_nlt; lia).
  destruct w as [| | | | |f|f| |]; cbn in Hw; try contradiction; cbn [wlocal] in H;
    unfold wait_pc in H; rewrite ?Hs, ?Hlt in H; cbn in H; try discriminate;
    injection H as <- <- <- <-; cbn; try tauto.
  all: destruct f; cbn; tauto.
Qed.

Lemma Hold_wlocal i j b w x b' w' x' wk : j < m ->
  Hold i j b w x -> wlocal b w x = Some (b', w', x', wk) -> Hold i j b' w' x' /\ st_move b b' wk.
Proof.
  intros Hj [Hh Hc] H. unfold Hold.
  assert (Htot : 1 <= b_total b) by (destruct Hh as (Ht & _); rewrite Ht; apply wf_chunk; exact Hj).
  assert (Hle : b_now b <= b_total b) by (destruct Hh as (_ & _ & _ & Hle & _); exact Hle).
  unfold hold_ctl in Hc. destruct (b_st b) eqn:Est; try contradiction.
  - (* UPDATING *)
    destruct Hc as [Hw Hn].
    destruct w as [| | | | |[]|[]| |]; cbn in Hw; try contradiction; cbn [wlocal] in H.
    + unfold wait_pc in H. rewrite Est in H. cbn in H. injection H as <- <- <- <-.
      split; [split; [exact Hh|]|left; split; reflexivity].
      unfold hold_ctl. rewrite Est. cbn. tauto.
    + discriminate.
    + (* spuriously awake: back to sleep *)
      unfold wait_pc in H. rewrite Est in H. cbn in H. injection H as <- <- <- <-.
      split; [split; [exact Hh|]|left; split; reflexivity].
      unfold hold_ctl. rewrite Est. cbn. tauto.
  - (* READY *)
    destruct w as [| | | | |f|f| |]; try contradiction; cbn [wlocal] in H;
      unfold wait_pc in H; rewrite ?Est in H; cbn [ready_or_inv] in H.
    + (* New *) injection H as <- <- <- <-. split; [split; [exact Hh|]|left; split; reflexivity].
      unfold hold_ctl. rewrite Est. exact Hc.
    + (* Start *) injection H as <- <- <- <-. split; [split; [exact Hh|]|left; split; reflexivity].
      unfold hold_ctl. rewrite Est. exact I.
    + (* Get *)
      destruct (b_now b <? b_total b) eqn:Elt.
      * apply Nat.ltb_lt in Elt. injection H as <- <- <- <-.
        split; [split; [apply holds_take; assumption|]|left; split; reflexivity].
        unfold hold_ctl. cbn [take_b b_st]. rewrite Est. exact I.
      * apply Nat.ltb_nlt in Elt. injection H as <- <- <- <-.
        split; [split; [exact Hh|]|left; split; reflexivity].
        unfold hold_ctl. rewrite Est. lia.
    + (* SetUpdate *) injection H as <- <- <- <-.
      split; [split; [exact Hh|]|right; split; [reflexivity|split; [exact Est|reflexivity]]].
      unfold hold_ctl. cbn [with_st b_st b_now b_total w_upd]. tauto.
    + (* WaitReady *) injection H as <- <- <- <-. split; [split; [exact Hh|]|left; split; reflexivity].
      unfold hold_ctl. rewrite Est. exact Hc.
    + (* Awake *) injection H as <- <- <- <-. split; [split; [exact Hh|]|left; split; reflexivity].
      unfold hold_ctl. rewrite Est. destruct f; [exact I|exact Hc].
    + (* Cmp *)
      destruct (b_now b <? b_total b) eqn:Elt.
      * apply Nat.ltb_lt in Elt. injection H as <- <- <- <-.
        split; [split; [apply holds_take; assumption|]|left; split; reflexivity].
        unfold hold_ctl. cbn [take_b b_st]. rewrite Est. exact I.
      * apply Nat.ltb_nlt in Elt. lia.
Qed.

Lemma Idle_wlocal n i b w x b' w' x' wk :
  IdleInv n i b w x -> wlocal b w x = Some (b', w', x', wk) -> IdleInv n i b' w' x' /\ st_move b b' wk.
Proof.
  unfold IdleInv. destruct n as [|n'].
  - apply Fresh_wlocal.
  - destruct (n' * T + i <? m) eqn:E.
    + apply Nat.ltb_lt in E. apply Hold_wlocal. exact E.
    + apply Dead_wlocal.
Qed.

Lemma Own_wlocal n i p b w x b' w' x' wk :
  OwnInv n i p b w x -> wlocal b w x = Some (b', w', x', wk) ->
  OwnInv n i p b' w' x' /\ wk = false /\ b_st b' = b_st b.
Proof.
  intros (Hx & Hc & Hp) H.
  assert (E : b' = b /\ x' = x /\ wk = false /\ own_ctl n b w').
  { unfold own_ctl in *. destruct n as [|n']; destruct Hc as [Hs Hw];
      destruct w as [| | | | |[]|[]| |]; cbn in Hw; try contradiction; cbn [wlocal] in H;
      unfold wait_pc in H; rewrite ?Hs in H; cbn in H; try discriminate;
      injection H as <- <- <- <-; cbn; tauto. }
  destruct E as (-> & -> & -> & Hc'). repeat split; try assumption.
Qed.

Definition is_own (o : option ipc) : bool :=
  match o with Some I_Cmp | Some I_Export | Some I_Load | Some (I_SetReady _) => true | _ => false end.

Lemma BufInv_own n o i b w x : is_own o = true ->
  BufInv n o i b w x <-> exists p, o = Some p /\ OwnInv n i p b w x.
Proof.
  intros H. destruct o as [[]|]; cbn in H; try discriminate; unfold BufInv; split;
    try (intros Hb; eexists; split; [reflexivity|exact Hb]);
    intros (p & E & Hb); injection E as <-; exact Hb.
Qed.
Lemma BufInv_idle n o i b w x : is_own o = false ->
  BufInv n o i b w x <-> IdleInv n i b w x /\ pre_ok o (b_st b).
Proof. intros H. destruct o as [[]|]; cbn in H; try discriminate; unfold BufInv; reflexivity. Qed.

Lemma is_own_wake o : is_own (wake_o o) = is_own o.
Proof. destruct o as [[]|]; reflexivity. Qed.

Lemma BufInv_wlocal n o i b w x b' w' x' wk :
  BufInv n o i b w x -> wlocal b w x = Some (b', w', x', wk) ->
  BufInv n (if wk then wake_o o else o) i b' w' x' /\ st_move b b' wk.
Proof.
  intros Hb H. destruct (is_own o) eqn:Eo.
  - apply BufInv_own in Hb; [|exact Eo]. destruct Hb as (p & -> & Hb).
    destruct (Own_wlocal _ _ _ _ _ _ _ _ _ _ Hb H) as (Hb' & -> & Hs).
    split; [|left; split; [reflexivity|exact Hs]].
    apply BufInv_own; [exact Eo|]. exists p. split; [reflexivity|exact Hb'].
  - apply BufInv_idle in Hb; [|exact Eo]. destruct Hb as [Hb Hpre].
    destruct (Idle_wlocal _ _ _ _ _ _ _ _ _ Hb H) as (Hb' & Hmv). split; [|exact Hmv].
    apply BufInv_idle; [destruct wk; rewrite ?is_own_wake; exact Eo|].
    split; [exact Hb'|].
    destruct Hmv as [[-> Hs]|(-> & Hs & Hs')].
    + rewrite Hs. exact Hpre.
    + rewrite Hs' . rewrite Hs in Hpre. destruct o as [[]|]; cbn in *; try exact I; try tauto.
Qed.

(* ================= the worker step, globally ================= *)
Definition wframe (s s' : state) (i : nat) : Prop :=
  length (bufs S s') = length (bufs S s) /\ length (wpcs S s') = length (wpcs S s) /\
  length (wsts S s') = length (wsts S s) /\
  turn S s' = turn S s /\ over S s' = over S s /\ live S s' = live S s /\ input S s' = input S s /\
  output S s' = output S s /\ crashed S s' = crashed S s /\
  forall k, k <> i -> getb s' k = getb s k /\ getw s' k = getw s k /\ nth k (wsts S s') dS = nth k (wsts S s) dS.

Definition wake_p (p : ipc) (t i : nat) : ipc :=
  match p with I_Asleep => if t =? i then I_Awake else I_Asleep | _ => p end.

Lemma step_worker_spec s i s' evs :
  i < length (bufs S s) -> i < length (wpcs S s) -> i < length (wsts S s) ->
  step_worker S tr tr_event s i = Some (s', evs) ->
  exists b' w' x' wk,
    wlocal (getb s i) (getw s i) (nth i (wsts S s) dS) = Some (b', w', x', wk) /\
    getb s' i = b' /\ getw s' i = w' /\ nth i (wsts S s') dS = x' /\
    io S s' = (if wk then wake_p (io S s) (turn S s) i else io S s) /\
    wframe s s' i.
Proof.
  destruct s as [bs ws xs p t ov lv inp out cr]. unfold step_worker, w_wait. unfold wframe, PipeConc.getb, PipeConc.getw.
  cbn [bufs wpcs wsts io turn over live input output crashed PipeConc.getb PipeConc.getw].
  intros Hb Hw Hx H.
  rewrite (nth_error_some_nth dS xs i Hx) in H.
  set (b := nth i bs empty_buf) in *. set (x := nth i xs dS) in *.
  assert (Fw : forall q, nth i (set_nth i q ws) W_Done = q) by (intros; apply nth_set_nth_eq; exact Hw).
  assert (Fb : forall q, nth i (set_nth i q bs) empty_buf = q) by (intros; apply nth_set_nth_eq; exact Hb).
  assert (Fx : forall q, nth i (set_nth i q xs) dS = q) by (intros; apply nth_set_nth_eq; exact Hx).
  assert (Nw : forall q k, k <> i -> nth k (set_nth i q ws) W_Done = nth k ws W_Done)
    by (intros; apply nth_set_nth_neq; congruence).
  assert (Nb : forall q k, k <> i -> nth k (set_nth i q bs) empty_buf = nth k bs empty_buf)
    by (intros; apply nth_set_nth_neq; congruence).
  assert (Nx : forall q k, k <> i -> nth k (set_nth i q xs) dS = nth k xs dS)
    by (intros; apply nth_set_nth_neq; congruence).
  unfold wlocal.
  destruct (nth i ws W_Done) eqn:Ew; try discriminate.
  - (* New *) injection H as <- <-. exists b, W_Start, x, false.
    cbn. rewrite ?set_nth_length. repeat split; auto.
  - (* Start *) injection H as H.
    exists b, (wait_pc b true), x, false.
    assert (E : s' = set_wpc S {| bufs := bs; wpcs := ws; wsts := xs; io := p; turn := t; over := ov; live := lv;
                                 input := inp; output := out; crashed := cr |} i (wait_pc b true)).
    { unfold wait_pc. cbn [PipeConc.getb bufs] in H. fold b in H.
      destruct (ready_or_inv (b_st b)); injection H as <- _; reflexivity. }
    subst s'. cbn. rewrite ?set_nth_length. repeat split; auto.
  - (* Get *)
    destruct (b_now b <? b_total b) eqn:Elt.
    + apply Nat.ltb_lt in Elt. rewrite take_entry_some in H by exact Elt. injection H as <- <-.
      exists (take_b b x), W_Get, (take_x b x), false.
      cbn. rewrite ?set_nth_length. repeat split; auto.
    + apply Nat.ltb_nlt in Elt. rewrite take_entry_none in H by exact Elt. injection H as <- <-.
      exists b, W_SetUpdate, x, false.
      cbn. rewrite ?set_nth_length. repeat split; auto.
  - (* SetUpdate *)
    injection H as H _.
    destruct (b_st b) eqn:Est; subst s'.
    3:{ (* READY *)
      exists (with_st b UPDATING), W_WaitReady, x, true.
      unfold wake_io, wake_p. cbn [set_buf io turn].
      destruct p; cbn; try destruct (t =? i); cbn; rewrite ?set_nth_length; repeat split; auto. }
    all: exists b, W_WaitReady, x, false; cbn; rewrite ?set_nth_length; repeat split; auto.
  - (* WaitReady *) injection H as H.
    exists b, (wait_pc b false), x, false.
    assert (E : s' = set_wpc S {| bufs := bs; wpcs := ws; wsts := xs; io := p; turn := t; over := ov; live := lv;
                                 input := inp; output := out; crashed := cr |} i (wait_pc b false)).
    { unfold wait_pc. cbn [PipeConc.getb bufs] in H. fold b in H.
      destruct (ready_or_inv (b_st b)); injection H as <- _; reflexivity. }
    subst s'. cbn. rewrite ?set_nth_length. repeat split; auto.
  - (* Awake *) injection H as H.
    exists b, (wait_pc b from_start), x, false.
    assert (E : s' = set_wpc S {| bufs := bs; wpcs := ws; wsts := xs; io := p; turn := t; over := ov; live := lv;
                                 input := inp; output := out; crashed := cr |} i (wait_pc b from_start)).
    { unfold wait_pc. cbn [PipeConc.getb bufs] in H. fold b in H.
      destruct (ready_or_inv (b_st b)); injection H as <- _; reflexivity. }
    subst s'. cbn. rewrite ?set_nth_length. repeat split; auto.
  - (* Cmp *)
    destruct (b_st b) eqn:Est.
    3:{ destruct (b_now b <? b_total b) eqn:Elt.
        + apply Nat.ltb_lt in Elt. rewrite take_entry_some in H by exact Elt. injection H as <- <-.
          exists (take_b b x), W_Get, (take_x b x), false.
          cbn. rewrite ?set_nth_length. repeat split; auto.
        + apply Nat.ltb_nlt in Elt. rewrite take_entry_none in H by exact Elt. injection H as <- <-.
          exists b, W_Done, x, false.
          cbn. rewrite ?set_nth_length. repeat split; auto. }
    all: injection H as <- <-; exists b, W_Done, x, false; cbn; rewrite ?set_nth_length; repeat split; auto.
Qed.

Lemma nvis_iot_wake q r (p : ipc) i k (wk : bool) :
  let p' := if wk then wake_p p r i else p in
  nvis q r p' k = nvis q r p k /\
  iot r p' k = if k =? i then (if wk then wake_o (iot r p k) else iot r p k) else iot r p k.
Proof.
  cbn zeta. destruct wk; [|split; [reflexivity|destruct (k =? i); reflexivity]].
  unfold nvis, iot, wake_p.
  destruct p; cbn [post_fin negb andb]; rewrite ?Bool.andb_false_r, ?Bool.andb_true_r;
    try (split; [reflexivity|destruct (k =? i); destruct (k =? r); reflexivity]).
  destruct (r =? i) eqn:E1; destruct (k =? i) eqn:E2; destruct (k =? r) eqn:E3; cbn; split; try reflexivity;
    exfalso; rewrite ?Nat.eqb_eq, ?Nat.eqb_neq in *; lia.
Qed.

Lemma IoInvC_wake V p t i (wk : bool) inp ov lv out cr :
  IoInvC V p inp ov lv out cr -> IoInvC V (if wk then wake_p p t i else p) inp ov lv out cr.
Proof.
  destruct wk; [|trivial]. unfold wake_p. destruct p; trivial. destruct (t =? i); trivial.
Qed.

Lemma inv_worker q r s i s' evs :
  InvQR q r s -> i < T -> step_worker S tr tr_event s i = Some (s', evs) -> InvQR q r s'.
Proof.
  intros (Lb & Lw & Lx & Hr & Ht & Hio & Hbuf) Hi H.
  destruct (step_worker_spec s i s' evs) as (b' & w' & x' & wk & Hloc & Eb & Ew & Ex & Eio & Hfr); try lia; [exact H|].
  destruct Hfr as (Lb' & Lw' & Lx' & Et & Eo & El & Ei & Eout & Ec & Hoth).
  unfold InvQR. rewrite Lb', Lw', Lx', Et.
  repeat (split; [assumption|]).
  split.
  - unfold IoInv in *. rewrite Eio, Ei, Eo, El, Eout, Ec. apply IoInvC_wake. exact Hio.
  - intros k Hk. rewrite Eio, Ht.
    destruct (nvis_iot_wake q r (io S s) i k wk) as [E1 E2]. cbn zeta in E1, E2. rewrite E1, E2.
    destruct (Nat.eqb_spec k i) as [->|Hne].
    + rewrite Eb, Ew, Ex.
      apply (BufInv_wlocal _ _ _ _ _ _ _ _ _ _ (Hbuf i Hi) Hloc).
    + destruct (Hoth k Hne) as (-> & -> & ->). apply Hbuf. exact Hk.
Qed.

(* ================= local steps of the I/O thread on the buffer it visits ================= *)
Lemma holds_done i j b x : holds i j b x -> b_now b = b_total b -> x = fst (R i j) /\ b_data b = snd (R i j).
Proof.
  intros (Ht & Hf & Hl & Hn & H1 & H2) E.
  rewrite skipn_all_nil in H1, H2 by lia. rewrite firstn_all2 in H2 by lia.
  cbn in H1, H2. rewrite app_nil_r in H2. split; assumption.
Qed.

Lemma Idle_to_Own n i b w x : i < T ->
  IdleInv n i b w x -> upd_or_empty (b_st b) = true -> OwnInv n i I_Cmp b w x.
Proof.
  intros Hi Hb Hu. unfold IdleInv in Hb. destruct n as [|n'].
  - destruct Hb as (Hs & Hn & Ht & Hf & Hw & Hx). unfold OwnInv, own_ctl, own_old.
    change (0 * T + i) with i. rewrite G_fresh by exact Hi. repeat split; try assumption; try congruence.
  - destruct (n' * T + i <? m) eqn:E.
    + apply Nat.ltb_lt in E. destruct Hb as [Hh Hc]. unfold hold_ctl in Hc.
      destruct (b_st b) eqn:Est; try contradiction; try discriminate. destruct Hc as [Hw Hn].
      destruct (holds_done _ _ _ _ Hh Hn) as [Hx Hd]. destruct Hh as (Ht & Hf & _).
      unfold OwnInv, own_ctl, own_old. rewrite G_round by exact Hi.
      rewrite (G_S_same (n' * T + i) i E Hi (mod_nTi n' i Hi)).
      repeat split; try assumption.
      intros Hlt. rewrite Hf. destruct (ld_final (chunk (n' * T + i))) eqn:Efin; [|reflexivity].
      apply (final_chunk _ E) in Efin. lia.
    + destruct Hb as (Hs & _). rewrite Hs in Hu. discriminate.
Qed.

Lemma Idle_asleep n i b w x :
  IdleInv n i b w x -> upd_or_empty (b_st b) = false -> n * T + i < m + T -> b_st b = READY.
Proof.
  intros Hb Hu HV. unfold IdleInv in Hb. destruct n as [|n'].
  - destruct Hb as (Hs & _). rewrite Hs in Hu. discriminate.
  - destruct (n' * T + i <? m) eqn:E.
    + destruct Hb as [_ Hc]. unfold hold_ctl in Hc. destruct (b_st b); try contradiction; try discriminate. reflexivity.
    + apply Nat.ltb_ge in E. lia.
Qed.

Lemma Own_cmp_export n i b w x : OwnInv n i I_Cmp b w x -> b_st b = UPDATING -> OwnInv n i I_Export b w x.
Proof.
  intros (Hx & Hc & Hp) Hs. unfold OwnInv. repeat split; try assumption; try tauto.
  unfold own_ctl in Hc. destruct n; [destruct Hc; congruence|lia].
Qed.
Lemma Own_cmp_load n i b w x : OwnInv n i I_Cmp b w x -> b_st b <> UPDATING -> OwnInv n i I_Load b w x /\ n = 0.
Proof.
  intros (Hx & Hc & Hp) Hs. unfold OwnInv. repeat split; try assumption; try tauto.
  unfold own_ctl in Hc. destruct n; [reflexivity|destruct Hc; congruence].
Qed.
Lemma Own_export_load n i b w x : OwnInv n i I_Export b w x -> OwnInv n i I_Load b w x.
Proof. intros (Hx & Hc & Hp). unfold OwnInv. repeat split; try assumption; try tauto. Qed.
Lemma Own_load_nodata n i b w x xx : OwnInv n i I_Load b w x -> m <= n * T + i -> OwnInv n i (I_SetReady xx) b w x.
Proof.
  intros (Hx & Hc & Hp) Hge. unfold OwnInv. repeat split; try assumption.
  apply Nat.ltb_ge in Hge. rewrite Hge. tauto.
Qed.
Definition load_b (b : buf) (l : load) : buf :=
  {| b_st := b_st b; b_total := ld_total l; b_now := 0; b_final := b_final b || ld_final l;
     b_data := blocks16_of (ld_data l) |}.
Lemma Own_load_data n i b w x xx : OwnInv n i I_Load b w x -> n * T + i < m ->
  OwnInv n i (I_SetReady xx) (load_b b (chunk (n * T + i))) w x.
Proof.
  intros (Hx & Hc & Hp & Hf) Hlt. unfold OwnInv. split; [exact Hx|]. split.
  - unfold own_ctl in *. destruct n; exact Hc.
  - apply Nat.ltb_lt in Hlt. rewrite Hlt. apply Nat.ltb_lt in Hlt. unfold load_b; cbn.
    rewrite (Hf Hlt). repeat split; reflexivity.
Qed.

Definition wake_w (w : wpc) : wpc := match w with W_Asleep f => W_Awake f | _ => w end.
Lemma Own_setready n i b w x xx : i < T -> OwnInv n i (I_SetReady xx) b w x ->
  IdleInv (Datatypes.S n) i (with_st b (if n * T + i <? m then READY else INV)) (wake_w w) x.
Proof.
  intros Hi (Hx & Hc & Hp). unfold IdleInv. destruct (n * T + i <? m) eqn:E.
  - apply Nat.ltb_lt in E. destruct Hp as (Hn & Ht & Hf & Hd).
    destruct (wf_chunk _ E) as [Hpos Hlen].
    split.
    + unfold holds. cbn [with_st b_total b_final b_data b_now]. rewrite Hn, Hd, Ht. cbn [skipn firstn app].
      unfold R. rewrite <- Hx. repeat split; try reflexivity; try assumption; lia.
    + unfold hold_ctl. cbn [with_st b_st b_now].
      unfold own_ctl in Hc. destruct n; destruct Hc as [_ Hw];
        destruct w as [| | | | |[]|[]| |]; cbn in Hw; try contradiction; cbn; exact Hn.
  - apply Nat.ltb_ge in E. unfold Dead. cbn [with_st b_st b_now b_total].
    rewrite <- (G_ge _ E), <- Hx. repeat split; try assumption.
    destruct w; cbn; exact I.
Qed.

(* ================= the I/O step, globally ================= *)
Lemma nvis_other q r p k : k <> r -> nvis q r p k = if k <? r then Datatypes.S q else q.
Proof. intros H. unfold nvis. apply Nat.eqb_neq in H. rewrite H. cbn. rewrite Bool.orb_false_r. reflexivity. Qed.
Lemma iot_other r p k : k <> r -> iot r p k = None.
Proof. intros H. unfold iot. apply Nat.eqb_neq in H. rewrite H. reflexivity. Qed.
Lemma nvis_self q r p : nvis q r p r = if post_fin p then Datatypes.S q else q.
Proof. unfold nvis. rewrite Nat.ltb_irrefl, Nat.eqb_refl. reflexivity. Qed.
Lemma iot_self r p : iot r p r = if post_fin p then None else Some p.
Proof. unfold iot. rewrite Nat.eqb_refl. destruct (post_fin p); reflexivity. Qed.

Lemma inv_io_glue q r s s' :
  InvQR q r s ->
  length (bufs S s') = T -> length (wpcs S s') = T -> wsts S s' = wsts S s -> turn S s' = r ->
  (forall k, k <> r -> getb s' k = getb s k /\ getw s' k = getw s k) ->
  IoInv (q * T + r) s' ->
  BufInv (nvis q r (io S s') r) (iot r (io S s') r) r (getb s' r) (getw s' r) (nth r (wsts S s) dS) ->
  InvQR q r s'.
Proof.
  intros (Lb & Lw & Lx & Hr & Ht & Hio & Hbuf) Lb' Lw' Ex Et Hoth Hio' Hb'.
  unfold InvQR. rewrite Ex. repeat (split; [assumption|]).
  intros k Hk. destruct (Nat.eq_dec k r) as [->|Hne]; [exact Hb'|].
  destruct (Hoth k Hne) as [-> ->]. rewrite nvis_other, iot_other by exact Hne.
  specialize (Hbuf k Hk). rewrite nvis_other, iot_other in Hbuf by exact Hne. exact Hbuf.
Qed.

Lemma all_ok_outs j : j <= m -> all_ok (outs m) -> all_ok (outs j).
Proof.
  intros Hj Hok. remember (m - j) as d eqn:Ed. revert j Hj Ed.
  induction d as [|d IH]; intros j Hj Ed.
  - replace j with m by lia. exact Hok.
  - assert (H : all_ok (outs (Datatypes.S j))) by (apply IH; lia).
    destruct (GO_S j) as [_ E]; [lia|]. rewrite E in H. unfold all_ok in *.
    apply Forall_app in H. apply H.
Qed.

(* the export performed by visit V >= T is that of chunk V - T *)
Lemma IoInvC_export V inp ov lv out cr res out' cr' :
  IoInvC V I_Export inp ov lv out cr -> T <= V ->
  res = exp_of c ispadding (chunk (V - T)) (snd (R ((V - T) mod T) (V - T))) ->
  match res with
  | Ok bytes => out' = out ++ [bytes] /\ cr' = cr
  | Crash w => out' = out /\ cr' = Some w
  | _ => out' = out /\ cr' = cr
  end ->
  IoInvC V I_Load inp ov lv out' cr'.
Proof.
  intros (HV & Hin & Hov & Hlv & Hex & Hout) HTV Hres Hm.
  unfold IoInvC. repeat (split; [assumption|]).
  intros Hok. destruct (Hout Hok) as [-> ->].
  unfold exports_done in *. replace (V + 1 - T) with (Datatypes.S (V - T)) by lia.
  assert (Hlt : V - T < m) by lia.
  pose proof (all_ok_outs (Datatypes.S (V - T)) Hlt Hok) as Hok'.
  destruct (GO_S (V - T) Hlt) as [_ E]. rewrite E in Hok' |- *. rewrite <- Hres in Hok' |- *.
  unfold all_ok in Hok'. apply Forall_app in Hok'. destruct Hok' as [_ Hlast].
  inversion Hlast as [|? ? [bytes Hb] _]. subst res. rewrite Hb in Hm. destruct Hm as [-> ->].
  unfold ok_bytes. rewrite map_app. cbn [map]. rewrite Hb. split; reflexivity.
Qed.

Lemma join_from_extra s k V : length (wpcs S s) = T -> k <= T -> V + 1 = m + T ->
  io_extra V (join_from S s k) /\ post_fin (join_from S s k) = true.
Proof.
  intros Lw Hk HV. unfold join_from.
  destruct (first_unfinished (skipn k (wpcs S s)) k) as [k'|] eqn:E.
  - apply first_unfinished_bound in E. rewrite skipn_length, Lw in E. cbn. split; [lia|reflexivity].
  - cbn. split; [exact HV|reflexivity].
Qed.

Lemma inv_post_setio q r s p' :
  InvQR q r s -> post_fin (io S s) = true -> post_fin p' = true -> io_extra (q * T + r) p' ->
  InvQR q r (set_io S s p').
Proof.
  intros (Lb & Lw & Lx & Hr & Ht & Hio & Hbuf) Hp Hp' Hex.
  unfold InvQR. cbn [set_io bufs wpcs wsts turn io]. repeat (split; [assumption|]). split.
  - unfold IoInv in *. cbn [set_io io input over live output crashed].
    destruct Hio as (HV & Hin & Hov & Hlv & _ & Hout). unfold IoInvC.
    assert (E1 : loads_done (q * T + r) p' = loads_done (q * T + r) (io S s))
      by (destruct p'; try discriminate; destruct (io S s); try discriminate; reflexivity).
    assert (E2 : visits_done (q * T + r) p' = visits_done (q * T + r) (io S s))
      by (unfold visits_done; rewrite Hp, Hp'; reflexivity).
    assert (E3 : exports_done (q * T + r) p' = exports_done (q * T + r) (io S s))
      by (destruct p'; try discriminate; destruct (io S s); try discriminate; reflexivity).
    assert (E4 : attempts (q * T + r) p' = attempts (q * T + r) (io S s))
      by (destruct p'; try discriminate; destruct (io S s); try discriminate; reflexivity).
    rewrite E1, E2, E3, E4. repeat (split; [assumption|]). exact Hout.
  - intros k Hk. specialize (Hbuf k Hk). unfold nvis, iot in *. rewrite Hp in Hbuf. rewrite Hp'.
    cbn [negb] in *. rewrite Bool.andb_false_r in *. exact Hbuf.
Qed.

(* at the end every buffer is retired *)
Lemma fin_all_dead q r s k : InvQR q r s -> post_fin (io S s) = true -> q * T + r + 1 = m + T -> k < T ->
  Dead k (getb s k) (getw s k) (nth k (wsts S s) dS).
Proof.
  intros (Lb & Lw & Lx & Hr & Ht & Hio & Hbuf) Hp HV Hk. specialize (Hbuf k Hk).
  assert (Eo : iot r (io S s) k = None) by (unfold iot; rewrite Hp, Bool.andb_false_r; reflexivity).
  rewrite Eo in Hbuf. destruct Hbuf as [Hb _]. unfold nvis in Hb. rewrite Hp, Bool.andb_true_r in Hb.
  destruct ((k <? r) || (k =? r)) eqn:E.
  - unfold IdleInv in Hb. destruct (q * T + k <? m) eqn:E'; [|exact Hb].
    apply Nat.ltb_lt in E'. apply Bool.orb_true_iff in E. rewrite Nat.ltb_lt, Nat.eqb_eq in E. lia.
  - apply Bool.orb_false_iff in E. rewrite Nat.ltb_ge, Nat.eqb_neq in E.
    destruct q as [|n']; [lia|]. unfold IdleInv in Hb. destruct (n' * T + k <? m) eqn:E'; [|exact Hb].
    apply Nat.ltb_lt in E'. lia.
Qed.

Lemma wake_worker_spec s t : t < length (wpcs S s) ->
  bufs S (wake_worker S s t) = bufs S s /\ length (wpcs S (wake_worker S s t)) = length (wpcs S s) /\
  wsts S (wake_worker S s t) = wsts S s /\ io S (wake_worker S s t) = io S s /\
  turn S (wake_worker S s t) = turn S s /\ over S (wake_worker S s t) = over S s /\
  live S (wake_worker S s t) = live S s /\ input S (wake_worker S s t) = input S s /\
  output S (wake_worker S s t) = output S s /\ crashed S (wake_worker S s t) = crashed S s /\
  getw (wake_worker S s t) t = wake_w (getw s t) /\
  forall k, k <> t -> getw (wake_worker S s t) k = getw s k.
Proof.
  intros Ht. unfold wake_worker, wake_w. destruct (getw s t) eqn:E;
    try solve [repeat split; try reflexivity; try exact E; intros; reflexivity].
  cbn [set_wpc bufs wpcs wsts io turn over live input output crashed].
  rewrite set_nth_length. repeat split; try reflexivity.
  - apply getw_set_wpc_eq. exact Ht.
  - intros k Hk. apply getw_set_wpc_neq. congruence.
Qed.

Lemma setready_code V x : x = (if m <=? V then 2 else if ld_final (chunk V) then 1 else 0) ->
  (x =? 2) = (m <=? V) /\ (if x =? 2 then INV else READY) = (if V <? m then READY else INV).
Proof.
  intros ->. destruct (m <=? V) eqn:E1.
  - apply Nat.leb_le in E1. assert (E2 : (V <? m) = false) by (apply Nat.ltb_ge; lia). rewrite E2. split; reflexivity.
  - apply Nat.leb_gt in E1. assert (E2 : (V <? m) = true) by (apply Nat.ltb_lt; lia). rewrite E2.
    destruct (ld_final (chunk V)); split; reflexivity.
Qed.

Lemma not_dead_not_inv n i b w x : IdleInv n i b w x -> n * T + i < m + T -> b_st b <> INV.
Proof.
  intros Hb HV. unfold IdleInv in Hb. destruct n as [|n'].
  - destruct Hb as (Hs & _). congruence.
  - destruct (n' * T + i <? m) eqn:E.
    + destruct Hb as [_ Hc]. unfold hold_ctl in Hc. intros E'. rewrite E' in Hc. exact Hc.
    + apply Nat.ltb_ge in E. lia.
Qed.

Lemma next_turn_first s fuel t : 1 <= fuel -> b_st (getb s ((t + 1) mod nT S s)) <> INV ->
  next_turn S s fuel t = (t + 1) mod nT S s.
Proof.
  intros Hf Hn. destruct fuel as [|f]; [lia|]. cbn [next_turn].
  destruct (b_st (getb s ((t + 1) mod nT S s))); try reflexivity. congruence.
Qed.

Lemma inv_io q r s s' evs :
  InvQR q r s -> step_io S c ispadding s = Some (s', evs) -> exists q' r', InvQR q' r' s'.
Proof.
  intros Hinv H. pose proof Hinv as (Lb & Lw & Lx & Hr & Ht & Hio & Hbuf).
  pose proof (Hbuf r Hr) as Hbr. rewrite nvis_self, iot_self in Hbr.
  unfold step_io in H. unfold IoInv in Hio. rewrite Ht in H.
  destruct (io S s) eqn:Eio; cbn [post_fin] in Hbr; try discriminate.
  - (* I_WaitUpdate *)
    apply BufInv_idle in Hbr; [|reflexivity]. destruct Hbr as [Hidle _].
    unfold i_wait in H. rewrite Ht in H.
    destruct (upd_or_empty (b_st (getb s r))) eqn:Eu; injection H as <- _; exists q, r;
      (apply (inv_io_glue q r s); [exact Hinv|exact Lb|exact Lw|reflexivity|exact Ht|intros; split; reflexivity| |]).
    + unfold IoInv. cbn [set_io io input over live output crashed]. exact Hio.
    + cbn [set_io io]. rewrite nvis_self, iot_self. cbn [post_fin]. rewrite getb_set_io, getw_set_io.
      unfold BufInv. apply Idle_to_Own; assumption.
    + unfold IoInv. cbn [set_io io input over live output crashed]. exact Hio.
    + cbn [set_io io]. rewrite nvis_self, iot_self. cbn [post_fin]. rewrite getb_set_io, getw_set_io.
      apply BufInv_idle; [reflexivity|]. split; [exact Hidle|]. cbn [pre_ok].
      apply (Idle_asleep _ _ _ _ _ Hidle Eu). destruct Hio as (HV & _). exact HV.
  - (* I_Awake *)
    apply BufInv_idle in Hbr; [|reflexivity]. destruct Hbr as [Hidle _].
    unfold i_wait in H. rewrite Ht in H.
    destruct (upd_or_empty (b_st (getb s r))) eqn:Eu; injection H as <- _; exists q, r;
      (apply (inv_io_glue q r s); [exact Hinv|exact Lb|exact Lw|reflexivity|exact Ht|intros; split; reflexivity| |]).
    + unfold IoInv. cbn [set_io io input over live output crashed]. exact Hio.
    + cbn [set_io io]. rewrite nvis_self, iot_self. cbn [post_fin]. rewrite getb_set_io, getw_set_io.
      unfold BufInv. apply Idle_to_Own; assumption.
    + unfold IoInv. cbn [set_io io input over live output crashed]. exact Hio.
    + cbn [set_io io]. rewrite nvis_self, iot_self. cbn [post_fin]. rewrite getb_set_io, getw_set_io.
      apply BufInv_idle; [reflexivity|]. split; [exact Hidle|]. cbn [pre_ok].
      apply (Idle_asleep _ _ _ _ _ Hidle Eu). destruct Hio as (HV & _). exact HV.
  - (* I_Cmp *)
    unfold BufInv in Hbr. exists q, r.
    assert (Hcase : b_st (getb s r) = UPDATING \/ b_st (getb s r) <> UPDATING)
      by (destruct (b_st (getb s r)); (left; reflexivity) || (right; discriminate)).
    destruct Hcase as [Est|Est].
    + rewrite Est in H. injection H as <- _.
      apply (inv_io_glue q r s); [exact Hinv|exact Lb|exact Lw|reflexivity|exact Ht|intros; split; reflexivity| |].
      * unfold IoInv; cbn [set_io io input over live output crashed]; exact Hio.
      * cbn [set_io io]; rewrite nvis_self, iot_self; cbn [post_fin]; rewrite getb_set_io, getw_set_io; unfold BufInv.
        apply Own_cmp_export; assumption.
    + assert (Es' : s' = set_io S s I_Load)
        by (destruct (b_st (getb s r)); try congruence; injection H as <- _; reflexivity).
      subst s'. destruct (Own_cmp_load _ _ _ _ _ Hbr Est) as [Hld Hq]. subst q.
      apply (inv_io_glue 0 r s); [exact Hinv|exact Lb|exact Lw|reflexivity|exact Ht|intros; split; reflexivity| |].
      * unfold IoInv; cbn [set_io io input over live output crashed].
        destruct Hio as (HV & Hin & Hov & Hlv & Hex & Hout); unfold IoInvC; repeat (split; [assumption|]).
        intros Hok; destruct (Hout Hok) as [-> ->]; unfold exports_done; cbn [Nat.mul Nat.add].
        replace (r + 1 - T) with (r - T) by lia; split; reflexivity.
      * cbn [set_io io]; rewrite nvis_self, iot_self; cbn [post_fin]; rewrite getb_set_io, getw_set_io; unfold BufInv.
        exact Hld.
  - (* I_Export *)
    unfold BufInv in Hbr. exists q, r. injection H as <- _.
    pose proof Hbr as (Hx & Hc & Hq & Hn & Hf & Hold).
    destruct q as [|n']; [lia|]. destruct Hold as (Htot & Hfin & Hdat).
    assert (Hres : export c ispadding {| ld_data := []; ld_total := b_now (getb s r); ld_final := b_final (getb s r) |}
                     (concat (b_data (getb s r))) =
                   exp_of c ispadding (chunk (Datatypes.S n' * T + r - T))
                     (snd (R ((Datatypes.S n' * T + r - T) mod T) (Datatypes.S n' * T + r - T)))).
    { replace (Datatypes.S n' * T + r - T) with (n' * T + r) by lia. rewrite mod_nTi by exact Hr.
      unfold exp_of. rewrite Hn, Htot, Hfin, Hdat. reflexivity. }
    destruct (export c ispadding {| ld_data := []; ld_total := b_now (getb s r); ld_final := b_final (getb s r) |}
                (concat (b_data (getb s r)))) as [bytes|code|why|] eqn:Eexp;
      (apply (inv_io_glue (Datatypes.S n') r s); [exact Hinv|exact Lb|exact Lw|reflexivity|first [reflexivity|exact Ht]|intros; split; reflexivity| |]);
      try (unfold IoInv; cbn [set_io io input over live output crashed];
           apply (IoInvC_export _ _ _ _ _ _ _ _ _ Hio ltac:(lia) Hres); split; reflexivity);
      cbn [set_io io]; rewrite nvis_self, iot_self; cbn [post_fin];
      (change (BufInv (Datatypes.S n') (Some I_Load) r (getb s r) (getw s r) (nth r (wsts S s) dS)));
      unfold BufInv; apply Own_export_load; exact Hbr.
  - (* I_Load *)
    unfold BufInv in Hbr. exists q, r.
    destruct Hio as (HV & Hin & Hov & Hlv & Hex & Hout). unfold loads_done in Hin, Hov.
    destruct (Nat.lt_ge_cases (q * T + r) m) as [HVm|HmV].
    2:{ (* nothing left to load: over already set, or the NODATA load sets it now *)
      assert (Hinp : input S s = []).
      { rewrite Hin, Nat.min_r by lia. apply skipn_all2. fold m. lia. }
      assert (Es' : s' = {| bufs := bufs S s; wpcs := wpcs S s; wsts := wsts S s; io := I_SetReady 2; turn := r;
                            over := true; live := live S s; input := []; output := output S s; crashed := crashed S s |}).
      { destruct (over S s) eqn:Eov.
        - injection H as <- _. unfold set_io. rewrite Eov, Hinp, Ht. reflexivity.
        - rewrite Hinp in H. injection H as <- _. reflexivity. }
      subst s'.
      apply (inv_io_glue q r s); [exact Hinv|exact Lb|exact Lw|reflexivity|reflexivity|intros; split; reflexivity| |].
      * unfold IoInv, IoInvC. cbn [io input over live output crashed loads_done visits_done post_fin exports_done io_extra].
        rewrite !Nat.min_r by lia. split; [exact HV|]. split; [symmetry; apply skipn_all2; fold m; lia|].
        split; [split; [intros _; lia|intros _; reflexivity]|]. split; [exact Hlv|]. split; [|exact Hout].
        assert (E : (m <=? q * T + r) = true) by (apply Nat.leb_le; lia). rewrite E. reflexivity.
      * cbn [io]. rewrite nvis_self, iot_self. cbn [post_fin].
        change (BufInv q (Some (I_SetReady 2)) r (getb s r) (getw s r) (nth r (wsts S s) dS)).
        unfold BufInv. apply Own_load_nodata; assumption. }
    + assert (Eov : over S s = false).
      { destruct (over S s); [|reflexivity]. destruct Hov as [Hov _]. specialize (Hov eq_refl). lia. }
      rewrite Eov in H.
      rewrite Nat.min_l in Hin by lia. rewrite (skipn_nth_cons dl) in Hin by (fold m; lia).
      fold (chunk (q * T + r)) in Hin. rewrite Hin in H. injection H as <- _.
      apply (inv_io_glue q r s); [exact Hinv| | exact Lw|reflexivity|reflexivity| | |].
      * cbn [bufs]. rewrite set_nth_length. exact Lb.
      * intros k Hk. split; [|reflexivity]. unfold PipeConc.getb. cbn [bufs]. apply nth_set_nth_neq. congruence.
      * unfold IoInv, IoInvC. cbn [io input over live output crashed loads_done visits_done post_fin exports_done io_extra].
        rewrite Nat.min_l by lia.
        split; [exact HV|]. split; [replace (q * T + r + 1) with (Datatypes.S (q * T + r)) by lia; reflexivity|].
        split; [split; [intro Efin; apply (final_chunk _ HVm) in Efin; lia|cbn [attempts]; intro Hlt; lia]|].
        split; [exact Hlv|]. split; [|exact Hout].
        assert (E : (m <=? q * T + r) = false) by (apply Nat.leb_gt; lia). rewrite E. reflexivity.
      * cbn [io]. rewrite nvis_self, iot_self. cbn [post_fin].
        match goal with |- BufInv _ _ _ (PipeConc.getb S ?st r) _ _ =>
          replace (PipeConc.getb S st r) with (load_b (getb s r) (chunk (q * T + r)))
            by (symmetry; unfold PipeConc.getb at 1; cbn [bufs]; apply nth_set_nth_eq; lia) end.
        unfold BufInv. apply Own_load_data; assumption.
  - (* I_SetReady *)
    unfold BufInv in Hbr. exists q, r.
    destruct Hio as (HV & Hin & Hov & Hlv & Hex & Hout). cbn [io_extra] in Hex.
    destruct (setready_code _ _ Hex) as [E2 Est]. rewrite Est in H. rewrite E2 in H.
    injection H as <- _.
    match goal with |- InvQR q r (wake_worker S ?st r) => set (s2 := st) end.
    assert (Hr2 : r < length (wpcs S s2)) by (unfold s2; cbn [wpcs set_buf]; lia).
    destruct (wake_worker_spec s2 r Hr2) as (Wb & Wlw & Wx & Wio & Wt & Wov & Wlv & Win & Wout & Wcr & Wgw & Wog).
    apply (inv_io_glue q r s); [exact Hinv| | | | | | |].
    + rewrite Wb. unfold s2. cbn [bufs set_buf]. rewrite set_nth_length. exact Lb.
    + rewrite Wlw. exact Lw.
    + rewrite Wx. reflexivity.
    + rewrite Wt. reflexivity.
    + intros k Hk. split.
      * unfold PipeConc.getb. rewrite Wb. unfold s2. cbn [bufs set_buf]. apply nth_set_nth_neq. congruence.
      * rewrite Wog by exact Hk. reflexivity.
    + unfold IoInv. rewrite Wio, Win, Wov, Wlv, Wout, Wcr. unfold s2.
      cbn [io input over live output crashed set_buf]. unfold IoInvC.
      cbn [loads_done visits_done post_fin exports_done io_extra].
      repeat (split; [assumption|]). split; [|split; [exact I|exact Hout]].
      rewrite Hlv. cbn [visits_done post_fin]. destruct (m <=? q * T + r) eqn:E; [apply Nat.leb_le in E|apply Nat.leb_gt in E]; lia.
    + rewrite Wio. unfold s2 at 1 2. cbn [io]. rewrite nvis_self, iot_self. cbn [post_fin].
      rewrite Wgw. unfold PipeConc.getb. rewrite Wb. unfold s2. cbn [bufs set_buf wpcs PipeConc.getw].
      rewrite nth_set_nth_eq by lia. fold (getb s r). fold (getw s r).
      apply BufInv_idle; [reflexivity|]. split; [|exact I].
      apply (Own_setready _ _ _ _ _ _ Hr Hbr).
  - (* I_Turn *)
    apply BufInv_idle in Hbr; [|reflexivity]. destruct Hbr as [Hidle _].
    destruct Hio as (HV & Hin & Hov & Hlv & Hex & Hout). cbn [visits_done post_fin] in Hlv.
    destruct (live S s =? 0) eqn:El.
    + apply Nat.eqb_eq in El. injection H as <- _. exists q, r.
      assert (HVe : q * T + r + 1 = m + T) by lia.
      destruct (join_from_extra s 0 (q * T + r) Lw ltac:(lia) HVe) as [Hje Hjp].
      apply inv_post_setio; [exact Hinv|rewrite Eio; reflexivity|exact Hjp|exact Hje].
    + apply Nat.eqb_neq in El. assert (HV1 : q * T + r + 1 < m + T) by lia.
      (* the next buffer is not INV *)
      assert (Hnext : next_turn S s (nT S s) r = (r + 1) mod T).
      { assert (EnT : nT S s = T) by exact Lb.
        rewrite next_turn_first; rewrite EnT; [reflexivity|lia|].
        assert (Hlt : (r + 1) mod T < T) by (apply Nat.mod_upper_bound; lia).
        pose proof (Hbuf _ Hlt) as Hb'.
        assert (Eo : iot r I_Turn ((r + 1) mod T) = None) by (unfold iot; cbn [post_fin negb]; rewrite Bool.andb_false_r; reflexivity).
        rewrite Eo in Hb'. destruct Hb' as [Hb' _].
        assert (Hni : b_st (getb s ((r + 1) mod T)) <> INV).
        { apply (not_dead_not_inv _ _ _ _ _ Hb'). unfold nvis. cbn [post_fin]. rewrite Bool.andb_true_r.
          destruct (Nat.eq_dec (r + 1) T) as [E|E].
          - rewrite E, Nat.mod_same by lia.
            assert (E' : ((0 <? r) || (0 =? r)) = true) by (destruct r; reflexivity). rewrite E'. lia.
          - rewrite Nat.mod_small by lia.
            assert (E' : ((r + 1 <? r) || (r + 1 =? r)) = false).
            { apply Bool.orb_false_iff. split; [apply Nat.ltb_ge|apply Nat.eqb_neq]; lia. }
            rewrite E'. lia. }
        exact Hni. }
      rewrite Hnext in H. injection H as <- _.
      destruct (Nat.eq_dec (r + 1) T) as [E|E].
      * exists (Datatypes.S q), 0. rewrite E, Nat.mod_same by lia.
        unfold InvQR. cbn [bufs wpcs wsts turn io]. repeat (split; [assumption || lia|]). split.
        -- unfold IoInv, IoInvC. cbn [io input over live output crashed loads_done visits_done post_fin exports_done io_extra].
           cbn [loads_done exports_done] in Hin, Hov, Hout.
           replace (Datatypes.S q * T + 0) with (q * T + r + 1) by lia.
           repeat (split; [assumption || lia|]). exact Hout.
        -- intros k Hk. specialize (Hbuf k Hk).
           assert (E1 : nvis q r I_Turn k = Datatypes.S q).
           { unfold nvis. cbn [post_fin]. rewrite Bool.andb_true_r.
             assert (E' : ((k <? r) || (k =? r)) = true).
             { apply Bool.orb_true_iff. rewrite Nat.ltb_lt, Nat.eqb_eq. lia. }
             rewrite E'. reflexivity. }
           assert (E2 : nvis (Datatypes.S q) 0 I_WaitUpdate k = Datatypes.S q).
           { unfold nvis. cbn [post_fin]. rewrite Bool.andb_false_r. cbn. reflexivity. }
           assert (E3 : iot r I_Turn k = None) by (unfold iot; cbn [post_fin negb]; rewrite Bool.andb_false_r; reflexivity).
           rewrite E1, E3 in Hbuf. rewrite E2. destruct Hbuf as [Hb _].
           unfold iot. cbn [post_fin negb]. rewrite Bool.andb_true_r.
           destruct (k =? 0); split; try exact Hb; exact I.
      * exists q, (r + 1). rewrite Nat.mod_small by lia.
        unfold InvQR. cbn [bufs wpcs wsts turn io]. repeat (split; [assumption || lia|]). split.
        -- unfold IoInv, IoInvC. cbn [io input over live output crashed loads_done visits_done post_fin exports_done io_extra].
           cbn [loads_done exports_done] in Hin, Hov, Hout.
           replace (q * T + (r + 1)) with (q * T + r + 1) by lia.
           repeat (split; [assumption || lia|]). exact Hout.
        -- intros k Hk. specialize (Hbuf k Hk).
           assert (E1 : nvis q (r + 1) I_WaitUpdate k = nvis q r I_Turn k).
           { unfold nvis. cbn [post_fin]. rewrite Bool.andb_true_r, Bool.andb_false_r, Bool.orb_false_r.
             destruct (Nat.ltb_spec k (r + 1)); destruct (Nat.ltb_spec k r); destruct (Nat.eqb_spec k r); cbn; try reflexivity; lia. }
           assert (E3 : iot r I_Turn k = None) by (unfold iot; cbn [post_fin negb]; rewrite Bool.andb_false_r; reflexivity).
           rewrite E3 in Hbuf. rewrite E1. destruct Hbuf as [Hb _].
           unfold iot. cbn [post_fin negb]. rewrite Bool.andb_true_r.
           destruct (k =? r + 1); split; try exact Hb; exact I.
  - (* I_Join *)
    destruct Hio as (HV & Hin & Hov & Hlv & Hex & Hout). cbn [io_extra] in Hex. destruct Hex as [Hk HVe].
    destruct (getw s k) eqn:Ew; try discriminate. injection H as <- _. exists q, r.
    destruct (join_from_extra s k (q * T + r) Lw ltac:(lia) HVe) as [Hje Hjp].
    apply inv_post_setio; [exact Hinv|rewrite Eio; reflexivity|exact Hjp|exact Hje].
Qed.

(* ================= initial state, runs ================= *)

Lemma inv_init : InvQR 0 0 (init S T sigma0 ls).
Proof.
  unfold InvQR, init. cbn [bufs wpcs wsts turn io]. rewrite !repeat_length.
  repeat (split; [reflexivity || assumption || lia|]). split.
  - unfold IoInv, IoInvC. cbn [io input over live output crashed loads_done visits_done exports_done post_fin io_extra].
    cbn [Nat.mul Nat.add Nat.sub Nat.min skipn]. split; [lia|]. split; [reflexivity|].
    split; [split; [discriminate|cbn [attempts]; lia]|]. split; [lia|]. split; [exact I|]. intros _. split; reflexivity.
  - intros i Hi. unfold PipeConc.getb, PipeConc.getw. cbn [bufs wpcs].
    rewrite !nth_repeat_lt by exact Hi.
    assert (E : nvis 0 0 I_WaitUpdate i = 0) by (unfold nvis; cbn [post_fin]; rewrite Bool.andb_false_r; reflexivity).
    rewrite E. apply BufInv_idle.
    + unfold iot. destruct ((i =? 0) && negb (post_fin I_WaitUpdate)); reflexivity.
    + split.
      * unfold IdleInv, Fresh, empty_buf. cbn. repeat split; reflexivity.
      * unfold iot. destruct ((i =? 0) && negb (post_fin I_WaitUpdate)); exact I.
Qed.

(* ================= spurious wake-ups ================= *)
(* a sleeping worker that wakes up without a notification: nothing the invariant says about its buffer
   depends on the difference (it will find its predicate false and go back to sleep) *)
Lemma BufInv_spur n o i b f x : BufInv n o i b (W_Asleep f) x -> BufInv n o i b (W_Awake f) x.
Proof.
  intros Hb. destruct (is_own o) eqn:Eo.
  - apply BufInv_own in Hb; [|exact Eo]. destruct Hb as (p & -> & Hx & Hc & Hp).
    apply BufInv_own; [exact Eo|]. exists p. split; [reflexivity|]. split; [exact Hx|]. split; [|exact Hp].
    unfold own_ctl in *. destruct n; destruct Hc as [Hs Hw]; (split; [exact Hs|]); destruct f; exact Hw.
  - apply BufInv_idle in Hb; [|exact Eo]. destruct Hb as [Hb Hpre].
    apply BufInv_idle; [exact Eo|]. split; [|exact Hpre].
    unfold IdleInv in *. destruct n as [|n'].
    + destruct Hb as (Hs & Hn & Ht & Hf & Hw & Hx). unfold Fresh. do 4 (split; [assumption|]).
      split; [destruct f; exact Hw|exact Hx].
    + destruct (n' * T + i <? m).
      * destruct Hb as [Hh Hc]. split; [exact Hh|]. unfold hold_ctl in *.
        destruct (b_st b); try contradiction. destruct Hc as [Hw Hn]. split; [|exact Hn]. destruct f; exact Hw.
      * destruct Hb as (_ & _ & Hw & _). contradiction.
Qed.

Lemma inv_spurious q r s j s' evs :
  InvQR q r s -> spurious S s j = Some (s', evs) -> InvQR q r s'.
Proof.
  intros (Lb & Lw & Lx & Hr & Ht & Hio & Hbuf) H. unfold spurious in H. destruct j as [|i].
  - (* the I/O thread *)
    destruct (io S s) eqn:Eio; try discriminate. injection H as <- _.
    unfold InvQR. cbn [set_io bufs wpcs wsts turn io]. do 5 (split; [assumption|]). split.
    + unfold IoInv in *. cbn [set_io io input over live output crashed]. rewrite Eio in Hio. exact Hio.
    + intros k Hk. specialize (Hbuf k Hk). rewrite getb_set_io, getw_set_io.
      unfold nvis, iot in *. cbn [post_fin negb] in *. rewrite Bool.andb_true_r in *.
      destruct (k =? r); [|exact Hbuf].
      apply BufInv_idle in Hbuf; [|reflexivity]. apply BufInv_idle; [reflexivity|].
      destruct Hbuf as [Hb _]. split; [exact Hb|exact I].
  - (* worker i *)
    destruct (i <? nT S s) eqn:Ei; [|discriminate]. apply Nat.ltb_lt in Ei. unfold nT in Ei.
    destruct (getw s i) eqn:Ew; try discriminate. injection H as <- _.
    unfold InvQR. cbn [set_wpc bufs wpcs wsts turn io]. rewrite set_nth_length.
    do 5 (split; [assumption|]). split.
    + unfold IoInv in *. cbn [set_wpc io input over live output crashed]. exact Hio.
    + intros k Hk. specialize (Hbuf k Hk). rewrite getb_set_wpc.
      change (nth k (wsts S s) dS) with (nth k (wsts S (set_wpc S s i (W_Awake from_start))) dS).
      cbn [set_wpc wsts].
      destruct (Nat.eq_dec i k) as [<-|Hne].
      * rewrite getw_set_wpc_eq by lia. rewrite Ew in Hbuf. apply BufInv_spur. exact Hbuf.
      * rewrite getw_set_wpc_neq by exact Hne. exact Hbuf.
Qed.

Lemma inv_step_real s tid s' evs :
  Inv s -> step_real S tr tr_event c ispadding s tid = Some (s', evs) -> Inv s'.
Proof.
  intros (q & r & Hinv) H. unfold step_real in H. destruct tid as [|i].
  - apply (inv_io q r s s' evs Hinv H).
  - destruct (i <? nT S s) eqn:E; [|discriminate]. apply Nat.ltb_lt in E.
    exists q, r. apply (inv_worker q r s i s' evs Hinv); [|exact H].
    destruct Hinv as (Lb & _). unfold nT in E. lia.
Qed.

Lemma inv_step s tid s' evs :
  Inv s -> step S tr tr_event c ispadding s tid = Some (s', evs) -> Inv s'.
Proof.
  intros Hinv H. unfold step in H. destruct (tid <=? nT S s).
  - apply (inv_step_real s tid s' evs Hinv H).
  - destruct Hinv as (q & r & Hinv). exists q, r. apply (inv_spurious q r s _ s' evs Hinv H).
Qed.

Lemma inv_run : forall sched s s', Inv s -> run S tr tr_event c ispadding s sched = Some s' -> Inv s'.
Proof.
  induction sched as [|t sched IH]; intros s s' Hinv H; cbn [run] in H.
  - injection H as <-. exact Hinv.
  - destruct (step S tr tr_event c ispadding s t) as [[s1 evs]|] eqn:E; [|discriminate].
    apply (IH s1 s'); [|exact H]. apply (inv_step s t s1 evs Hinv E).
Qed.

Lemma inv_reachable s : reachable S tr tr_event c ispadding T sigma0 ls s -> Inv s.
Proof. intros [sched H]. apply (inv_run sched (init S T sigma0 ls) s); [|exact H]. exists 0, 0. exact inv_init. Qed.

(* ================= read-offs ================= *)
Lemma BufInv_touch n o i b w x : BufInv n o i b w x -> w = W_Get \/ (w = W_Cmp /\ b_st b = READY) ->
  is_own o = false /\ (b_st b = READY \/ (b_st b = INV /\ b_now b = b_total b)).
Proof.
  intros Hb Hw. destruct (is_own o) eqn:Eo.
  - apply BufInv_own in Hb; [|exact Eo]. destruct Hb as (p & _ & _ & Hc & _). exfalso.
    unfold own_ctl in Hc. destruct n; destruct Hc as [_ Hc]; destruct Hw as [->|[-> _]]; exact Hc.
  - split; [reflexivity|]. apply BufInv_idle in Hb; [|exact Eo]. destruct Hb as [Hb _].
    unfold IdleInv in Hb. destruct n as [|n'].
    + destruct Hb as (_ & _ & _ & _ & Hf & _). exfalso. destruct Hw as [->|[-> _]]; exact Hf.
    + destruct (n' * T + i <? m).
      * destruct Hb as [_ Hc]. unfold hold_ctl in Hc. destruct (b_st b); try contradiction.
        -- exfalso. destruct Hc as [Hc _]. destruct Hw as [->|[-> _]]; exact Hc.
        -- left. reflexivity.
      * destruct Hb as (Hs & Hn & _). right. split; assumption.
Qed.

Lemma BufInv_own_st n o i b w x : BufInv n o i b w x -> is_own o = true -> b_st b = EMPTY \/ b_st b = UPDATING.
Proof.
  intros Hb Eo. apply BufInv_own in Hb; [|exact Eo]. destruct Hb as (p & _ & _ & Hc & _).
  unfold own_ctl in Hc. destruct n; destruct Hc as [Hc _]; [left|right]; exact Hc.
Qed.

Lemma BufInv_asleep n o i b f x : BufInv n o i b (W_Asleep f) x -> b_st b = EMPTY \/ b_st b = UPDATING.
Proof.
  intros Hb. destruct (is_own o) eqn:Eo; [exact (BufInv_own_st _ _ _ _ _ _ Hb Eo)|].
  apply BufInv_idle in Hb; [|exact Eo]. destruct Hb as [Hb _].
  unfold IdleInv in Hb. destruct n as [|n'].
  - destruct Hb as (Hs & _). left. exact Hs.
  - destruct (n' * T + i <? m).
    + destruct Hb as [_ Hc]. unfold hold_ctl in Hc. destruct (b_st b); try contradiction. right. reflexivity.
    + destruct Hb as (_ & _ & Hw & _). contradiction.
Qed.

Lemma BufInv_done n o i b x : BufInv n o i b W_Done x -> b_st b = INV.
Proof.
  intros Hb. destruct (is_own o) eqn:Eo.
  - apply BufInv_own in Hb; [|exact Eo]. destruct Hb as (p & _ & _ & Hc & _). exfalso.
    unfold own_ctl in Hc. destruct n; destruct Hc as [_ Hc]; exact Hc.
  - apply BufInv_idle in Hb; [|exact Eo]. destruct Hb as [Hb _].
    unfold IdleInv in Hb. destruct n as [|n'].
    + destruct Hb as (_ & _ & _ & _ & Hf & _). contradiction.
    + destruct (n' * T + i <? m).
      * destruct Hb as [_ Hc]. unfold hold_ctl in Hc. destruct (b_st b); try contradiction. destruct Hc as [Hc _]. contradiction.
      * destruct Hb as (Hs & _). exact Hs.
Qed.
End Inv.
