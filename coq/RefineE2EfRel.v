(* Layer R, definitions: the simulation relation (Prop) between PipeConc states and machine states, and its basic properties. *)
From Coq Require Import ZArith NArith List String Bool Lia Arith.
From Wencry Require Import Bytes FileModel ModesProofs FileProofsDec PipeConc PipeProps PipeLemmas MiniC MiniCLemmas MiniCConc SrcRun.
From Wencry Require Import RefineConcPipe RefineE2EfPipe.
From Wencry Require Import RefineE2EfLay RefineE2EfMach RefineE2EfMem RefineE2EfTac RefineE2EfStepW RefineE2EfStepW2.
Import ListNotations.
Local Open Scope list_scope.

Lemma In_skipn' : forall (A : Type) n (l : list A) x, In x (skipn n l) -> In x l.
Proof. intros A n. induction n as [|n IH]; intros [|a l] x H; cbn [skipn] in H; auto. right. apply IH. exact H. Qed.
Lemma bskip : forall n l, bytesb l = true -> bytesb (skipn n l) = true.
Proof. intros n l H. unfold bytesb in *. rewrite forallb_forall in *. intros x Hx. apply H. eapply In_skipn'. exact Hx. Qed.

Notation St := LS.
Notation pstep := (PipeConc.step LS Ltr Lev).

Section Rel.
Context {LY : Layout} {LO : LayoutOk}.
Variables (c T : nat) (pad : bool) (input0 : list N).
Notation reach := (reach c T pad (skipn Lpos0 input0) LS Ltr Lev (Lsig0 T)).

Definition byteZ (z : Z) : Prop := (0 <= z < 256)%Z.
(* buffer i of the model against buffer i of the machine; ret: the I/O thread has retired it *)
Definition brel (ret : bool) (b : buf) (mb : mbuf) : Prop :=
  mb_st mb = bst_code (b_st b) /\ mb_fin mb = b_final b /\ List.length (mb_cells mb) = (16 * c)%nat /\ Forall byteZ (mb_cells mb) /\
  ((mb_tot mb = Z.of_nat (b_total b) /\ mb_now mb = Z.of_nat (b_now b) /\ (b_total b <= c)%nat /\ (b_now b <= b_total b)%nat /\
    List.length (b_data b) = b_total b /\ Forall (fun blk => List.length blk = 16%nat) (b_data b) /\
    map Z.to_N (firstn (16 * b_total b) (mb_cells mb)) = concat (b_data b))
   \/ (ret = true /\ (0 <= mb_tot mb <= mb_now mb)%Z /\ (mb_now mb < 2 ^ 32)%Z /\ (mb_tot mb <= Z.of_nat c)%Z /\ (b_total b <= b_now b)%nat)).

Definition retired (s : pstate) (i : nat) : bool :=
  bst_eqb (b_st (getb _ s i)) INV || (match io _ s with I_SetReady 2 => true | _ => false end && Nat.eqb (turn _ s) i).

Definition drel (s : pstate) (d : mdata) : Prop :=
  List.length (bufs _ s) = T /\ List.length (wpcs _ s) = T /\ List.length (wsts _ s) = T /\
  List.length (d_bufs d) = T /\ Forall byteZ (d_out d) /\
  d_turn d = turn _ s /\ (turn _ s < T)%nat /\ d_over d = over _ s /\ d_live d = live _ s /\ (live _ s <= T)%nat /\
  crashed _ s = None /\ d_out d = (Lout0 ++ map Z.of_N (concat (output _ s)))%list /\
  (forall i, (i < T)%nat -> brel (retired s i) (getb _ s i) (nth i (d_bufs d) mb0)) /\
  (forall i, (i < T)%nat -> srep T i (nth i (wsts _ s) LdS) (d_sm d)) /\
  (over _ s = false -> d_eof d = false /\ True /\ input _ s = loads_of c pad (skipn (d_pos d) input0)).

(* the thread ghost *)
Definition wl_ok (i : nat) (p : wpc) (wl : locs) : Prop :=
  match p with
  | W_New => wl = wl0 i
  | W_Start | W_Asleep true | W_Awake true => wl = wl1 i
  | W_Done => True
  | _ => wl_rbe i wl
  end.
Definition rb_ok (rb : locs) : Prop := rb = [] \/ rb = [("$t1"%string, VInt 1); ("$t2"%string, VInt 1)].
Definition bu_ok (p : ipc) (bu : locs) : Prop :=
  match p with
  | I_Cmp => bu = [("loadstate"%string, VInt 2)]
  | I_Export => bu = [("loadstate"%string, VInt 2); ("$t1"%string, VInt 1); ("$t2"%string, VInt 1)]
  | I_Load => exists x y, bu = [("loadstate"%string, VInt 2); ("$t1"%string, x); ("$t2"%string, y)]
  | _ => True
  end.
Definition tg_ok (s : pstate) (g : tghost) : Prop :=
  List.length (g_wl g) = T /\ rb_ok (g_rb g) /\ bu_ok (io _ s) (g_bu g) /\
  forall i, (i < T)%nat -> wl_ok i (getw _ s i) (nth i (g_wl g) []).

Definition sim (s : pstate) (cs : cstate) : Prop :=
  exists d g, cs = cstate_md c T pad input0 (io _ s) (wpcs _ s) d g /\ drel s d /\ tg_ok s g /\ reach s.

(* ---- the ranges of the machine data follow ---- *)
Hypothesis Hc : (1 <= c)%nat.
Hypothesis Hc32 : (16 * Z.of_nat c < 2 ^ 32)%Z.
Hypothesis HT : (1 <= T <= 16)%nat.

Lemma brel_bwf : forall ret b mb, brel ret b mb -> bwf c mb.
Proof.
  intros ret b mb (Hst & Hfin & Hlen & Hby & Hd). unfold bwf.
  split; [rewrite Hst; destruct (b_st b); cbn; lia|].
  destruct Hd as [(Ht & Hn & Htc & Hnt & _)|(_ & H1 & H2 & H3 & _)].
  - repeat split; try lia; try assumption.
  - repeat split; try lia; try assumption.
Qed.
Lemma drel_dwf : forall s d, drel s d -> dwf c T d.
Proof.
  intros s d (Lb & Lw & Lx & Ldb & Ldn & Htu & HtT & Hov & Hlv & HlT & Hcr & Hout & Hbuf & Hws & Hin).
  unfold dwf. split; [exact Ldb|]. split; [exact I|]. split; [lia|]. split; [lia|]. split; [lia|]. split; [lia|]. split; [exact Hc32|]. split.
  - intros i Hi. eapply brel_bwf. apply Hbuf. exact Hi.
  - intros i Hi. eexists. apply (Hws i Hi).
Qed.
End Rel.
