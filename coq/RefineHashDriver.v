(* Refinement of the generic hash driver: Hashmaster::getStringHash / getFileHash (hashmaster.cpp)
   and filebuffer64 (hashbuffer.cpp), translated to MiniC (Gen/Src_hashmaster.v, Gen/Src_hashbuffer.v),
   against HashModel.v's string_loop / file_loop / fb_new / fb_read -- for ANY hasher class that
   satisfies the contract [class_spec] of RefineHashDefs.v.

   Main results (F = the per-method fuel of the class; contract VERSION 2 of RefineHashDefs.v):
   - getStringHash_refines : Hashmaster::getStringHash/3, fuel >= F + |msg|/64 + 5; the message and output objects
                             are [passable] (static, or heap objects older than the call)
   - fb_ctor_refines       : filebuffer64::filebuffer64/3 establishes fb_rep fpn (fb_new ..), fuel >= 12; the extra block
                             may live in any object outside "buf." (so also in a heap object)
   - fb_read_refines       : filebuffer64::read_buffer64/2 copies fst (fb_read b) to the destination, returns its
                             length and re-establishes fb_rep / fb_wf for snd (fb_read b), fuel >= 16
   - getFileHash_refines   : Hashmaster::getFileHash/3 follows file_loop; fuel >= F + n + 23 where n is the
                             model's own fuel (|stream|/64 + 3 in getFileHash; that this is enough for the
                             model is HashProofs.getFileHash_string); output object static or an old heap object
   The stream the buffer reads is the Section variable fpn (member pointer "buf.fp" |-> VPtr fpn 0).
   Heap: every lemma concludes that heap objects older than the call are unchanged -- [heap_kept s s'], or
   [heap_kept_but o s s'] when the object o written on purpose may itself be a heap object
   (heap_kept_but_kept / not_owned_not_heap turn it into heap_kept when o is not a heap object).
   heap_kept_trans, passable_mono, old_heap_mono: composition across calls (fresh only grows).
   With the fuel |input|/64 + 2000 of SrcRun's entry points, F + 26 <= 2000 suffices (RefineHash.v). *)
From Coq Require Import ZArith NArith List String Bool Lia PeanoNat.
From Wencry Require Import Bytes HashModel HashProofs MiniC MiniCRun MiniCLemmas SrcRun RefineHashDefs.
From Wencry.Gen Require Src_hashmaster Src_hashbuffer.
Import ListNotations.
Local Open Scope string_scope.
Local Open Scope list_scope.
Local Open Scope Z_scope.

(* ------------------------------------------------------------------------------------ *)
(** * 1. Generic MiniC facts: sequencing, virtual calls, loops with an invariant          *)
(* ------------------------------------------------------------------------------------ *)
Section ExecFacts.
Variable prog : program.
Variable vt : list (string * string).

Lemma exec_seq_normal : forall fuel a b s s1 r,
  exec prog vt fuel a s = Ok (Normal, s1) -> exec prog vt fuel b s1 = r ->
  exec prog vt (S fuel) (SSeq a b) s = r.
Proof. intros fuel a b s s1 r Ha Hb. rewrite exec_seq, Ha. exact Hb. Qed.

Lemma exec_seq_abrupt : forall fuel a b s s1 o,
  exec prog vt fuel a s = Ok (o, s1) -> o <> Normal ->
  exec prog vt (S fuel) (SSeq a b) s = Ok (o, s1).
Proof. intros fuel a b s s1 o Ha Ho. rewrite exec_seq, Ha. cbn [bind]. destruct o; congruence. Qed.

(* a virtual call is a [call] of the method of the dynamic class *)
Lemma exec_callvirt : forall fuel ret m this args s vs pfx cls rv s' s2,
  eval_list s args = Ok vs -> this_prefix s this = Ok pfx -> lget vt pfx = Some cls ->
  call prog vt fuel (cls ++ "::" ++ m) pfx vs s = Ok (rv, s') ->
  set_ret s' ret rv = Ok s2 ->
  exec prog vt (S fuel) (SCallVirt ret m this args) s = Ok (Normal, s2).
Proof.
  intros fuel ret m this args s vs pfx cls rv s' s2 Hvs Hpfx Hvt Hcall Hret.
  cbn [exec]. rewrite Hvs. cbn [bind]. rewrite Hpfx. cbn [bind]. rewrite Hvt.
  unfold call in Hcall. destruct (lget prog (cls ++ "::" ++ m)) as [f|]; [|discriminate].
  destruct (bind_params (f_params f) vs) as [l| |]; cbn [bind] in Hcall |- *; try discriminate.
  destruct (exec prog vt fuel (f_body f) _) as [[o s1]| |]; cbn [bind] in Hcall |- *; try discriminate.
  injection Hcall as <- <-. rewrite Hret. reflexivity.
Qed.

(* counted loop with an invariant on the states at the loop head *)
Lemma loop_inv : forall c body step (Inv : nat -> state -> Prop) (n Fi : nat),
  (forall k s, (k < n)%nat -> Inv k s ->
     exists x, eval s c = Ok (VInt x) /\ x <> 0 /\
     exists s1 s2, exec prog vt Fi body s = Ok (Normal, s1) /\ exec prog vt Fi step s1 = Ok (Normal, s2) /\ Inv (S k) s2) ->
  (forall s, Inv n s -> eval s c = Ok (VInt 0)) ->
  forall k s, (k <= n)%nat -> Inv k s ->
  exists s', exec prog vt (S (Fi + (n - k))) (SLoop c body step) s = Ok (Normal, s') /\ Inv n s'.
Proof.
  intros c body step Inv n Fi Hit Hend k s Hk.
  remember (n - k)%nat as d eqn:Hd. revert k s Hk Hd.
  induction d as [|d IH]; intros k s Hk Hd HI.
  - assert (k = n) by lia. subst k. exists s. split; [|exact HI]. rewrite exec_loop, (Hend s HI). reflexivity.
  - destruct (Hit k s ltac:(lia) HI) as [x [Hc [Hx [s1 [s2 [Hb [Hs HI2]]]]]]].
    destruct (IH (S k) s2 ltac:(lia) ltac:(lia) HI2) as [s' [He HI']].
    exists s'. split; [|exact HI'].
    rewrite exec_loop, Hc. cbn [bind as_int].
    destruct (x =? 0)%Z eqn:E; [apply Z.eqb_eq in E; contradiction|].
    rewrite (exec_mono _ _ _ _ _ _ Hb (Fi + S d)%nat ltac:(lia)). cbn [bind].
    rewrite (exec_mono _ _ _ _ _ _ Hs (Fi + S d)%nat ltac:(lia)). cbn [bind].
    replace (Fi + S d)%nat with (S (Fi + d)) by lia. exact He.
Qed.
End ExecFacts.

(* ------------------------------------------------------------------------------------ *)
(** * 2. Lists, bytes_at, frames                                                         *)
(* ------------------------------------------------------------------------------------ *)
Lemma bytesb_firstn : forall n l, bytesb l = true -> bytesb (firstn n l) = true.
Proof.
  unfold bytesb. induction n as [|n IH]; intros [|x l] H; cbn [firstn forallb] in *; try reflexivity.
  apply andb_true_iff in H. destruct H as [Hx Hl]. rewrite Hx. cbn [andb]. apply IH, Hl.
Qed.
Lemma bytesb_skipn : forall n l, bytesb l = true -> bytesb (skipn n l) = true.
Proof.
  unfold bytesb. induction n as [|n IH]; intros [|x l] H; cbn [skipn forallb] in *; try reflexivity; try exact H.
  apply andb_true_iff in H. destruct H as [Hx Hl]. apply IH, Hl.
Qed.

(* a sub-range of a byte range *)
Lemma bytes_at_sub : forall m o off bs i n,
  bytes_at m o off bs -> (i + n <= List.length bs)%nat ->
  bytes_at m o (off + Z.of_nat i) (firstn n (skipn i bs)).
Proof.
  intros m o off bs i n (ob & Hget & Hty & Hoff & Hcells & Hlen) Hin.
  exists ob. repeat split; try assumption; try lia.
  - rewrite firstn_length, skipn_length. rewrite Nat.min_l by lia.
    rewrite Z2Nat.inj_add by lia. rewrite Nat2Z.id.
    rewrite <- firstn_map, <- skipn_map, <- Hcells.
    rewrite skipn_firstn_comm. rewrite firstn_firstn. rewrite Nat.min_l by lia.
    rewrite <- skipn_add. rewrite (Nat.add_comm i). reflexivity.
  - rewrite firstn_length, skipn_length. rewrite Z2Nat.inj_add by lia. rewrite Nat2Z.id. lia.
Qed.

Lemma bytes_at_frame : forall owned m m' o off bs,
  frame owned m m' -> owned o = false -> bytes_at m o off bs -> bytes_at m' o off bs.
Proof.
  intros owned m m' o off bs Hf Ho (ob & Hget & Hrest). exists ob. split; [|exact Hrest].
  rewrite (Hf o Ho). exact Hget.
Qed.

(* object o is a byte array with room for n bytes at offset off (contents arbitrary) *)
Definition room (m : memory) (o : string) (off : Z) (n : nat) : Prop :=
  exists ob, mget m o = Some ob /\ o_ty ob = U8 /\ 0 <= off /\ (Z.to_nat off + n <= List.length (o_cells ob))%nat.
Lemma room_frame : forall owned m m' o off n, frame owned m m' -> owned o = false -> room m o off n -> room m' o off n.
Proof.
  intros owned m m' o off n Hf Ho (ob & Hget & Hrest). exists ob. split; [|exact Hrest].
  rewrite (Hf o Ho). exact Hget.
Qed.
Lemma bytes_at_room : forall m o off bs, bytes_at m o off bs -> room m o off (List.length bs).
Proof. intros m o off bs (ob & Hget & Hty & Hoff & _ & Hlen). exists ob. auto. Qed.

(* ---- contract v2: heap objects older than a call may be passed to it and are kept by it ---- *)
Definition passable_at (fr : nat) (k : string) : Prop :=
  hash_owned k = false \/ exists n, (n < fr)%nat /\ k = heap_name n.   (* passable s k = passable_at (fresh s) k *)
(* what a hasher method call leaves alone, seen from a state whose heap counter is fr *)
Definition kept (fr : nat) (m m' : memory) : Prop := forall k, passable_at fr k -> mget m' k = mget m k.
(* old heap objects are unchanged, except possibly the object o written on purpose *)
Definition heap_kept_but (o : string) (s s' : state) : Prop :=
  forall n, (n < fresh s)%nat -> heap_name n <> o -> mget (mem s') (heap_name n) = mget (mem s) (heap_name n).

Lemma passable_at_mono : forall fr fr' k, passable_at fr k -> (fr <= fr')%nat -> passable_at fr' k.
Proof. intros fr fr' k [Hk|(n & Hn & ->)] Hle; [left; exact Hk|right; exists n; split; [lia|reflexivity]]. Qed.
Lemma passable_mono : forall s s' k, passable s k -> (fresh s <= fresh s')%nat -> passable s' k.
Proof. intros s s' k Hk Hle. exact (passable_at_mono (fresh s) (fresh s') k Hk Hle). Qed.
Lemma old_heap_mono : forall s s' k, old_heap s k -> (fresh s <= fresh s')%nat -> old_heap s' k.
Proof. intros s s' k (n & Hn & ->) Hle. exists n. split; [lia|reflexivity]. Qed.
Lemma heap_kept_refl : forall s, heap_kept s s.
Proof. intros s n _. reflexivity. Qed.
Lemma heap_kept_trans : forall s1 s2 s3, heap_kept s1 s2 -> heap_kept s2 s3 -> (fresh s1 <= fresh s2)%nat -> heap_kept s1 s3.
Proof. intros s1 s2 s3 H12 H23 Hle n Hn. rewrite (H23 n ltac:(lia)). apply H12, Hn. Qed.

Lemma hash_owned_heap : forall n, hash_owned (heap_name n) = true.
Proof. intro n. unfold heap_name. generalize (nat_string n). intro x. unfold hash_owned, is_prefix. cbn. destruct x; reflexivity. Qed.
Lemma not_owned_not_heap : forall o n, hash_owned o = false -> heap_name n <> o.
Proof. intros o n Ho <-. rewrite hash_owned_heap in Ho. discriminate. Qed.
Lemma heap_kept_but_kept : forall o s s', (forall n, heap_name n <> o) -> heap_kept_but o s s' -> heap_kept s s'.
Proof. intros o s s' Ho Hk n Hn. apply Hk; [exact Hn|apply Ho]. Qed.

Lemma kept_intro : forall fr m m', frame hash_owned m m' ->
  (forall n, (n < fr)%nat -> mget m' (heap_name n) = mget m (heap_name n)) -> kept fr m m'.
Proof. intros fr m m' Hf Hh k [Hk|(n & Hn & ->)]; [apply Hf, Hk|apply Hh, Hn]. Qed.
Lemma kept_frame : forall fr m m', kept fr m m' -> frame hash_owned m m'.
Proof. intros fr m m' Hk k Hno. apply Hk. left. exact Hno. Qed.
Lemma kept_heap : forall fr m m' n, kept fr m m' -> (n < fr)%nat -> mget m' (heap_name n) = mget m (heap_name n).
Proof. intros fr m m' n Hk Hn. apply Hk. right. exists n. auto. Qed.
Lemma kept_refl : forall fr m, kept fr m m.
Proof. intros fr m k _. reflexivity. Qed.
Lemma kept_trans : forall fr fr' m1 m2 m3, kept fr m1 m2 -> kept fr' m2 m3 -> (fr <= fr')%nat -> kept fr m1 m3.
Proof.
  intros fr fr' m1 m2 m3 H12 H23 Hle k Hk. rewrite (H23 k (passable_at_mono _ _ _ Hk Hle)). apply H12, Hk.
Qed.
Lemma bytes_at_kept : forall fr m m' o off bs, kept fr m m' -> passable_at fr o -> bytes_at m o off bs -> bytes_at m' o off bs.
Proof.
  intros fr m m' o off bs Hk Ho (ob & Hget & Hrest). exists ob. split; [|exact Hrest]. rewrite (Hk o Ho). exact Hget.
Qed.

Lemma frame_refl : forall owned m, frame owned m m.
Proof. intros owned m k _. reflexivity. Qed.
Lemma frame_trans : forall owned m1 m2 m3, frame owned m1 m2 -> frame owned m2 m3 -> frame owned m1 m3.
Proof. intros owned m1 m2 m3 H12 H23 k Hk. rewrite (H23 k Hk). apply H12, Hk. Qed.

(* ------------------------------------------------------------------------------------ *)
(** * 3. The model's string loop, block by block                                         *)
(* ------------------------------------------------------------------------------------ *)
(* hasher state after the first k full blocks of msg *)
Fixpoint blocks_state (a : halg) (st0 : hstate) (msg : list N) (k : nat) : hstate :=
  match k with
  | O => st0
  | S k' => getHash_block a (blocks_state a st0 msg k') (firstn 64 (skipn (64 * k') msg))
  end.

Lemma string_loop_blocks : forall a st0 msg n j k,
  n = (List.length msg / 64)%nat -> (j + k = n)%nat ->
  string_loop a (S j) (blocks_state a st0 msg k) (skipn (64 * k) msg) =
  getHash_final a (blocks_state a st0 msg n) (skipn (64 * n) msg).
Proof.
  intros a st0 msg n j. induction j as [|j IH]; intros k Hn Hjk.
  - assert (k = n) by lia. subst k. cbn [string_loop].
    pose proof (div64_bounds (List.length msg)) as [D _]. rewrite <- Hn in D.
    destruct (Nat.leb_spec 64 (List.length (skipn (64 * n) msg))) as [H|H]; [|reflexivity].
    rewrite skipn_length in H. lia.
  - remember (S j) as j1. cbn [string_loop]. subst j1.
    pose proof (div64_bounds (List.length msg)) as [D _]. rewrite <- Hn in D.
    destruct (Nat.leb_spec 64 (List.length (skipn (64 * k) msg))) as [H|H].
    + rewrite <- skipn_add. replace (64 + 64 * k)%nat with (64 * S k)%nat by lia.
      change (getHash_block a (blocks_state a st0 msg k) (firstn 64 (skipn (64 * k) msg)))
        with (blocks_state a st0 msg (S k)).
      apply IH; [exact Hn|lia].
    + rewrite skipn_length in H. lia.
Qed.

Lemma getStringHash_blocks : forall a msg,
  getStringHash a msg =
  ha_out a (hs_h (getHash_final a (blocks_state a (reset a) msg (List.length msg / 64))
                                (skipn (64 * (List.length msg / 64)) msg))).
Proof.
  intros a msg. unfold getStringHash.
  rewrite <- (string_loop_blocks a (reset a) msg (List.length msg / 64) (List.length msg / 64) 0 eq_refl ltac:(lia)).
  reflexivity.
Qed.

(* ------------------------------------------------------------------------------------ *)
(** * 4. Lookups in the program                                                          *)
(* ------------------------------------------------------------------------------------ *)
Lemma prog_getStringHash : lget hash_prog "Hashmaster::getStringHash/3" = Some Src_hashmaster.f_Hashmaster_getStringHash_3.
Proof. reflexivity. Qed.
Lemma prog_getFileHash : lget hash_prog "Hashmaster::getFileHash/3" = Some Src_hashmaster.f_Hashmaster_getFileHash_3.
Proof. reflexivity. Qed.
Lemma prog_fb_ctor : lget hash_prog "filebuffer64::filebuffer64/3" = Some Src_hashbuffer.f_filebuffer64_filebuffer64_3.
Proof. reflexivity. Qed.
Lemma prog_fb_read : lget hash_prog "filebuffer64::read_buffer64/2" = Some Src_hashbuffer.f_filebuffer64_read_buffer64_2.
Proof. reflexivity. Qed.

(* state s with new memory and heap counter (what a hasher method call changes) *)
Definition upd (s : state) (m : memory) (fr : nat) : state :=
  {| mem := m; loc := loc s; pre := pre s; files := files s; ptrs := ptrs s; fresh := fr |}.

Section Driver.
Variable cls : string.
Variable a : halg.
Variable objs : list (string * ity * Z).
Variable globs : memory.
Variable vt : list (string * string).
Variable F : nat.
Hypothesis H : class_spec cls a objs globs vt F.

Let hok := hasher_ok a objs globs.
Let P := hash_prog.

Lemma same_io_upd : forall s s', same_io s s' -> s' = upd s (mem s') (fresh s') /\ (fresh s <= fresh s')%nat.
Proof.
  intros s s' (Hl & Hp & Hf & Hpt & Hfr). split; [|exact Hfr].
  destruct s'; unfold upd; cbn in *; subst; reflexivity.
Qed.

(* ---- the four virtual method calls, as statements of a Hashmaster method (this = None, prefix "") ---- *)
Lemma vcall_reset : forall fuel s st, (F <= fuel)%nat -> pre s = "" -> hok st (mem s) ->
  exists m' fr', exec P vt (S fuel) (SCallVirt None "reset/0" None []) s = Ok (Normal, upd s m' fr') /\
    hok (reset a) m' /\ kept (fresh s) (mem s) m' /\ (fresh s <= fr')%nat.
Proof.
  intros fuel s st Hf Hp Hok.
  destruct (cs_reset _ _ _ _ _ _ H s st fuel Hf Hp Hok) as (s' & Hc & Hok' & Hfr & Hhk & Hio).
  apply same_io_upd in Hio. destruct Hio as [Es Hfresh].
  exists (mem s'), (fresh s'). rewrite <- Es. split; [|split; [exact Hok'|split; [apply kept_intro; assumption|exact Hfresh]]].
  eapply exec_callvirt with (vs := []) (pfx := "") (cls := cls) (rv := None) (s' := s').
  - reflexivity.
  - cbn [this_prefix]. rewrite Hp. reflexivity.
  - exact (cs_vt _ _ _ _ _ _ H).
  - exact Hc.
  - reflexivity.
Qed.

Lemma vcall_block : forall fuel s st e o off blk, (F <= fuel)%nat -> pre s = "" -> hok st (mem s) ->
  eval s e = Ok (VPtr o off) ->
  passable s o -> bytes_at (mem s) o off blk -> List.length blk = 64%nat -> bytesb blk = true ->
  exists m' fr', exec P vt (S fuel) (SCallVirt None "getHash/1" None [e]) s = Ok (Normal, upd s m' fr') /\
    hok (getHash_block a st blk) m' /\ kept (fresh s) (mem s) m' /\ (fresh s <= fr')%nat.
Proof.
  intros fuel s st e o off blk Hf Hp Hok He Ho Hb Hl Hby.
  destruct (cs_block _ _ _ _ _ _ H s st fuel o off blk Hf Hp Hok Ho Hb Hl Hby) as (s' & Hc & Hok' & Hfr & Hhk & Hio).
  apply same_io_upd in Hio. destruct Hio as [Es Hfresh].
  exists (mem s'), (fresh s'). rewrite <- Es. split; [|split; [exact Hok'|split; [apply kept_intro; assumption|exact Hfresh]]].
  eapply exec_callvirt with (vs := [VPtr o off]) (pfx := "") (cls := cls) (rv := None) (s' := s').
  - cbn [eval_list]. rewrite He. reflexivity.
  - cbn [this_prefix]. rewrite Hp. reflexivity.
  - exact (cs_vt _ _ _ _ _ _ H).
  - exact Hc.
  - reflexivity.
Qed.

Lemma vcall_final : forall fuel s st e1 e2 o off inp, (F <= fuel)%nat -> pre s = "" -> hok st (mem s) ->
  eval s e1 = Ok (VPtr o off) -> eval s e2 = Ok (VInt (Z.of_nat (List.length inp))) ->
  passable s o -> bytes_at (mem s) o off inp -> (List.length inp < 64)%nat -> bytesb inp = true ->
  exists m' fr', exec P vt (S fuel) (SCallVirt None "getHash/2" None [e1; e2]) s = Ok (Normal, upd s m' fr') /\
    hok (getHash_final a st inp) m' /\ kept (fresh s) (mem s) m' /\ (fresh s <= fr')%nat.
Proof.
  intros fuel s st e1 e2 o off inp Hf Hp Hok He1 He2 Ho Hb Hl Hby.
  destruct (cs_final _ _ _ _ _ _ H s st fuel o off inp Hf Hp Hok Ho Hb Hl Hby) as (s' & Hc & Hok' & Hfr & Hhk & Hio).
  apply same_io_upd in Hio. destruct Hio as [Es Hfresh].
  exists (mem s'), (fresh s'). rewrite <- Es. split; [|split; [exact Hok'|split; [apply kept_intro; assumption|exact Hfresh]]].
  eapply exec_callvirt with (vs := [VPtr o off; VInt (Z.of_nat (List.length inp))]) (pfx := "") (cls := cls) (rv := None) (s' := s').
  - cbn [eval_list]. rewrite He1, He2. reflexivity.
  - cbn [this_prefix]. rewrite Hp. reflexivity.
  - exact (cs_vt _ _ _ _ _ _ H).
  - exact Hc.
  - reflexivity.
Qed.

(* what getres leaves of the output object *)
Definition out_kept (m m' : memory) (o : string) (off : Z) (n : nat) : Prop :=
  forall ob ob', mget m o = Some ob -> mget m' o = Some ob' ->
    o_ty ob' = o_ty ob /\ List.length (o_cells ob') = List.length (o_cells ob) /\
    forall i, (i < Z.to_nat off \/ Z.to_nat off + n <= i)%nat -> nth i (o_cells ob') 0%Z = nth i (o_cells ob) 0%Z.

Lemma vcall_getres : forall fuel s st e o off old, (F <= fuel)%nat -> pre s = "" -> hok st (mem s) ->
  eval s e = Ok (VPtr o off) ->
  passable s o -> bytes_at (mem s) o off old -> List.length old = ha_hlen a ->
  exists m' fr', exec P vt (S fuel) (SCallVirt None "getres/1" None [e]) s = Ok (Normal, upd s m' fr') /\
    bytes_at m' o off (ha_out a (hs_h st)) /\ hok st m' /\
    (forall k, k <> o -> mget m' k = mget (mem s) k) /\ out_kept (mem s) m' o off (ha_hlen a) /\ (fresh s <= fr')%nat.
Proof.
  intros fuel s st e o off old Hf Hp Hok He Ho Hb Hl.
  destruct (cs_getres _ _ _ _ _ _ H s st fuel o off old Hf Hp Hok Ho Hb Hl) as (s' & Hc & Hby & Hok' & Hoth & Hkept & Hio).
  apply same_io_upd in Hio. destruct Hio as [Es Hfresh].
  exists (mem s'), (fresh s'). rewrite <- Es. split; [|auto 6].
  eapply exec_callvirt with (vs := [VPtr o off]) (pfx := "") (cls := cls) (rv := None) (s' := s').
  - cbn [eval_list]. rewrite He. reflexivity.
  - cbn [this_prefix]. rewrite Hp. reflexivity.
  - exact (cs_vt _ _ _ _ _ _ H).
  - exact Hc.
  - reflexivity.
Qed.

(* ------------------------------------------------------------------------------------ *)
(** * 5. Hashmaster::getStringHash                                                       *)
(* ------------------------------------------------------------------------------------ *)
Definition sloc (o : string) (off len : Z) (oo : string) (ooff nn : Z) : list (string * value) :=
  [("string", VPtr o off); ("length", VInt len); ("hashres", VPtr oo ooff); ("nnow", VInt nn)].
Definition e_sptr : expr := EPtrAdd (EVar "string") 1 (EBin U32 Sub (EVar "length") (EVar "nnow")).
Definition e_scond : expr := EBin TBool Ge (EVar "nnow") (ECast U32 (EConst 64)).
Definition e_sstep : expr := EBin U32 Sub (EVar "nnow") (ECast U32 (EConst 64)).

Lemma eval_sptr : forall s o off len oo ooff nn, loc s = sloc o off len oo ooff nn ->
  eval s e_sptr = Ok (VPtr o (off + ((len - nn) mod 2 ^ 32) * 1)).
Proof. intros s o off len oo ooff nn Hl. unfold e_sptr. cbn [eval]. rewrite Hl. reflexivity. Qed.
Lemma eval_scond : forall s o off len oo ooff nn, loc s = sloc o off len oo ooff nn ->
  eval s e_scond = Ok (VInt (if 64 <=? nn then 1 else 0)).
Proof. intros s o off len oo ooff nn Hl. unfold e_scond. cbn [eval]. rewrite Hl. reflexivity. Qed.
Lemma eval_sstep : forall s o off len oo ooff nn, loc s = sloc o off len oo ooff nn ->
  eval s e_sstep = Ok (VInt ((nn - 64) mod 2 ^ 32)).
Proof. intros s o off len oo ooff nn Hl. unfold e_sstep. cbn [eval]. rewrite Hl. reflexivity. Qed.

Lemma bytes_at_skipn : forall m o off bs i, bytes_at m o off bs -> (i <= List.length bs)%nat ->
  bytes_at m o (off + Z.of_nat i) (skipn i bs).
Proof.
  intros m o off bs i Hb Hi.
  rewrite <- (firstn_all2 (n := (List.length bs - i)%nat) (skipn i bs)) by (rewrite skipn_length; lia).
  apply bytes_at_sub; [exact Hb|lia].
Qed.

Lemma getStringHash_refines : forall s st0 fuel o off msg oo ooff old,
  (F + List.length msg / 64 + 5 <= fuel)%nat -> pre s = "" -> hok st0 (mem s) ->
  passable s o -> bytes_at (mem s) o off msg -> bytesb msg = true -> Z.of_nat (List.length msg) < 2 ^ 32 ->
  passable s oo -> bytes_at (mem s) oo ooff old -> List.length old = ha_hlen a ->
  exists s' stf,
    call P vt fuel "Hashmaster::getStringHash/3" "" [VPtr o off; VInt (Z.of_nat (List.length msg)); VPtr oo ooff] s = Ok (None, s') /\
    ha_out a (hs_h stf) = getStringHash a msg /\ hok stf (mem s') /\
    bytes_at (mem s') oo ooff (getStringHash a msg) /\
    (forall k, hash_owned k = false -> k <> oo -> mget (mem s') k = mget (mem s) k) /\
    heap_kept_but oo s s' /\
    out_kept (mem s) (mem s') oo ooff (ha_hlen a) /\ same_io s s'.
Proof.
  intros s st0 fuel o off msg oo ooff old Hfuel Hpre Hok0 Ho Hmsg Hbytes Hlen Hoo Hout Hold.
  change (passable_at (fresh s) o) in Ho. change (passable_at (fresh s) oo) in Hoo.
  remember (List.length msg / 64)%nat as n eqn:Hn.
  set (len := Z.of_nat (List.length msg)) in *.
  pose proof (div64_bounds (List.length msg)) as [D _]. rewrite <- Hn in D.
  pose (st_at := fun (m : memory) (fr : nat) (nn : Z) =>
     {| mem := m; loc := sloc o off len oo ooff nn; pre := ""; files := files s; ptrs := ptrs s; fresh := fr |}).
  unfold call. fold P. unfold P at 1. rewrite prog_getStringHash.
  cbn [f_params f_body Src_hashmaster.f_Hashmaster_getStringHash_3 bind_params bind].
  set (s0 := {| mem := mem s; loc := [("string", VPtr o off); ("length", VInt len); ("hashres", VPtr oo ooff)];
                pre := ""; files := files s; ptrs := ptrs s; fresh := fresh s |}).
  do 5 (destruct fuel as [|fuel]; [lia|]).
  (* reset *)
  destruct (vcall_reset (S (S (S fuel))) s0 st0 ltac:(lia) eq_refl Hok0) as (m1 & fr1 & E1 & Hok1 & Hf1 & Hfr1).
  rewrite exec_seq, E1. cbn [bind]. clear E1.
  (* nnow = length *)
  rewrite exec_seq.
  change (exec P vt (S (S (S fuel))) (SSet "nnow" (EVar "length")) (upd s0 m1 fr1)) with (Ok (Normal, st_at m1 fr1 len) : res (outcome * state)).
  cbn [bind].
  (* the loop *)
  rewrite exec_seq.
  pose (Inv := fun (k : nat) (s' : state) => exists m fr, s' = st_at m fr (len - 64 * Z.of_nat k) /\
      hok (blocks_state a (reset a) msg k) m /\ kept (fresh s) (mem s) m /\ (fresh s <= fr)%nat).
  destruct (loop_inv P vt e_scond (SCallVirt None "getHash/1" None [e_sptr]) (SSet "nnow" e_sstep) Inv n (S F)) with (k := 0%nat) (s := st_at m1 fr1 len)
    as (sL & EL & (m2 & fr2 & -> & Hok2 & Hf2 & Hfr2)).
  { (* one iteration *)
    intros k sk Hk (m & fr & -> & Hokk & Hfk & Hfrk).
    set (nn := len - 64 * Z.of_nat k).
    exists (if 64 <=? nn then 1 else 0). split; [apply (eval_scond (st_at m fr nn) o off len oo ooff nn); reflexivity|].
    assert (Hnn : 64 <= nn) by (unfold nn, len; lia).
    split; [destruct (Z.leb_spec 64 nn); lia|].
    destruct (vcall_block F (st_at m fr nn) _ e_sptr o (off + Z.of_nat (64 * k)) (firstn 64 (skipn (64 * k) msg))
                ltac:(lia) eq_refl Hokk) as (m' & fr' & Eb & Hok' & Hf' & Hfr').
    - rewrite (eval_sptr (st_at m fr nn) o off len oo ooff nn eq_refl). do 3 f_equal.
      unfold nn, len. rewrite Z.mod_small by lia. lia.
    - exact (passable_at_mono _ _ _ Ho Hfrk).
    - apply bytes_at_sub; [|lia]. apply (bytes_at_kept (fresh s) (mem s)); assumption.
    - rewrite firstn_length, skipn_length. lia.
    - apply bytesb_firstn, bytesb_skipn, Hbytes.
    - exists (upd (st_at m fr nn) m' fr'), (st_at m' fr' (len - 64 * Z.of_nat (S k))). split; [exact Eb|]. split.
      + rewrite exec_set. change (upd (st_at m fr nn) m' fr') with (st_at m' fr' nn).
        rewrite (eval_sstep (st_at m' fr' nn) o off len oo ooff nn eq_refl). cbn [bind].
        replace ((nn - 64) mod 2 ^ 32) with (len - 64 * Z.of_nat (S k)) by (unfold nn, len; rewrite Z.mod_small; lia).
        reflexivity.
      + exists m', fr'. split; [reflexivity|]. split; [exact Hok'|]. cbn [fresh mem st_at] in Hfr', Hf'. split; [|lia].
        eapply kept_trans; [exact Hfk|exact Hf'|exact Hfrk]. }
  { (* exit *)
    intros sk (m & fr & -> & _).
    rewrite (eval_scond (st_at m fr (len - 64 * Z.of_nat n)) o off len oo ooff (len - 64 * Z.of_nat n) eq_refl).
    destruct (Z.leb_spec 64 (len - 64 * Z.of_nat n)); [unfold len in *; lia|reflexivity]. }
  { lia. }
  { exists m1, fr1. split; [f_equal; lia|]. split; [exact Hok1|]. split; [exact Hf1|exact Hfr1]. }
  apply exec_mono with (fuel' := S (S fuel)) in EL; [|lia].
  unfold e_scond, e_sptr, e_sstep in EL. rewrite EL. cbn [bind]. clear EL.
  (* the final partial block *)
  set (nn := len - 64 * Z.of_nat n) in *.
  set (stn := blocks_state a (reset a) msg n) in *.
  rewrite exec_seq.
  destruct (vcall_final fuel (st_at m2 fr2 nn) stn e_sptr (EVar "nnow") o (off + Z.of_nat (64 * n)) (skipn (64 * n) msg)
              ltac:(lia) eq_refl Hok2) as (m3 & fr3 & E3 & Hok3 & Hf3 & Hfr3).
  { rewrite (eval_sptr (st_at m2 fr2 nn) o off len oo ooff nn eq_refl). do 3 f_equal.
    unfold nn, len. rewrite Z.mod_small by lia. lia. }
  { rewrite skipn_length. cbn [eval st_at loc sloc lget]. cbn. do 3 f_equal. unfold nn, len. lia. }
  { exact (passable_at_mono _ _ _ Ho Hfr2). }
  { apply bytes_at_skipn; [|lia]. apply (bytes_at_kept (fresh s) (mem s)); assumption. }
  { rewrite skipn_length. lia. }
  { apply bytesb_skipn, Hbytes. }
  change (SCallVirt None "getHash/2" None
           [EPtrAdd (EVar "string") 1 (EBin U32 Sub (EVar "length") (EVar "nnow")); EVar "nnow"])
    with (SCallVirt None "getHash/2" None [e_sptr; EVar "nnow"]).
  rewrite E3. cbn [bind]. clear E3.
  change (upd (st_at m2 fr2 nn) m3 fr3) with (st_at m3 fr3 nn).
  (* getres *)
  set (stf := getHash_final a stn (skipn (64 * n) msg)) in *.
  cbn [fresh mem st_at] in Hfr3, Hf3.
  assert (Hf03 : kept (fresh s) (mem s) m3) by (eapply kept_trans; [exact Hf2|exact Hf3|exact Hfr2]).
  destruct (vcall_getres fuel (st_at m3 fr3 nn) stf (EVar "hashres") oo ooff old ltac:(lia) eq_refl Hok3 eq_refl)
    as (m4 & fr4 & E4 & Hby4 & Hok4 & Hoth4 & Hkept4 & Hfr4).
  { apply (passable_at_mono _ _ _ Hoo). cbn [fresh st_at]. lia. }
  { apply (bytes_at_kept (fresh s) (mem s)); assumption. }
  { exact Hold. }
  rewrite E4. cbn [bind upd mem loc pre files ptrs fresh st_at].
  assert (Hd : ha_out a (hs_h stf) = getStringHash a msg)
    by (unfold stf, stn; rewrite Hn; symmetry; apply getStringHash_blocks).
  eexists. exists stf. split; [reflexivity|]. cbn [mem].
  split; [exact Hd|]. split; [exact Hok4|]. split; [rewrite <- Hd; exact Hby4|].
  split; [|split; [|split]].
  - intros k Hk Hne. rewrite (Hoth4 k Hne). apply Hf03. left. exact Hk.
  - intros k Hk Hne. cbn [mem]. rewrite (Hoth4 _ Hne). apply (kept_heap _ _ _ _ Hf03 Hk).
  - intros ob ob' Hg Hg'. apply Hkept4; [|exact Hg']. cbn [mem st_at]. rewrite (Hf03 oo Hoo). exact Hg.
  - unfold same_io. cbn [loc pre files ptrs fresh]. repeat split; try reflexivity.
    cbn [fresh st_at] in *. lia.
Qed.
End Driver.

(* ------------------------------------------------------------------------------------ *)
(** * 6. Byte-array primitives: memcpy, fread, ranges                                    *)
(* ------------------------------------------------------------------------------------ *)
Lemma upd_range_split : forall (vs l : list Z) (off : nat),
  (off + List.length vs <= List.length l)%nat ->
  upd_range off vs l = firstn off l ++ vs ++ skipn (off + List.length vs) l.
Proof.
  intros vs l off Hle.
  rewrite <- (firstn_skipn off l) at 1.
  assert (Hpre : List.length (firstn off l) = off) by (apply firstn_length_le; lia).
  rewrite <- Hpre at 1. rewrite upd_range_app by (rewrite skipn_length; lia).
  rewrite <- skipn_add. rewrite (Nat.add_comm (List.length vs)). reflexivity.
Qed.

Lemma upd_range_read : forall (vs l : list Z) (off : nat),
  (off + List.length vs <= List.length l)%nat ->
  firstn (List.length vs) (skipn off (upd_range off vs l)) = vs.
Proof.
  intros vs l off Hle. rewrite upd_range_split by exact Hle.
  assert (Hpre : List.length (firstn off l) = off) by (apply firstn_length_le; lia).
  rewrite skipn_app, Hpre, Nat.sub_diag. rewrite (skipn_all2 (firstn off l)) by lia.
  cbn [skipn app]. rewrite firstn_app, Nat.sub_diag. cbn [firstn]. rewrite app_nil_r. apply firstn_all.
Qed.

Lemma upd_range_nth_other : forall (vs l : list Z) (off i : nat),
  (off + List.length vs <= List.length l)%nat -> (i < off \/ off + List.length vs <= i)%nat ->
  nth i (upd_range off vs l) 0 = nth i l 0.
Proof.
  intros vs l off i Hle Hi. rewrite upd_range_split by exact Hle.
  assert (Hpre : List.length (firstn off l) = off) by (apply firstn_length_le; lia).
  transitivity (nth i (firstn off l ++ skipn off l) 0); [|now rewrite firstn_skipn].
  destruct Hi as [Hi|Hi].
  - rewrite !app_nth1 by lia. reflexivity.
  - rewrite (app_nth2 (firstn off l)) by lia. rewrite (app_nth2 (firstn off l)) by lia. rewrite Hpre.
    rewrite app_nth2 by lia.
    transitivity (nth (i - off) (firstn (List.length vs) (skipn off l) ++ skipn (List.length vs) (skipn off l)) 0);
      [|now rewrite firstn_skipn].
    rewrite app_nth2 by (rewrite firstn_length, skipn_length; lia).
    rewrite firstn_length, skipn_length. rewrite Nat.min_l by lia.
    rewrite <- skipn_add. rewrite (Nat.add_comm (List.length vs)). reflexivity.
Qed.

(* memcpy between byte arrays *)
Lemma memcpy_u8 : forall s od offd os offs n bd bs,
  mget (mem s) od = Some bd -> mget (mem s) os = Some bs -> o_ty bd = U8 -> o_ty bs = U8 ->
  0 <= n -> 0 <= offd -> 0 <= offs ->
  offs + n <= Z.of_nat (List.length (o_cells bs)) -> offd + n <= Z.of_nat (List.length (o_cells bd)) ->
  do_memcpy s (VPtr od offd) (VPtr os offs) n =
  Ok (with_mem s (mset (mem s) od {| o_ty := U8;
        o_cells := upd_range (Z.to_nat offd) (firstn (Z.to_nat n) (skipn (Z.to_nat offs) (o_cells bs))) (o_cells bd) |})).
Proof.
  intros s od offd os offs n bd bs Hd Hs Htd Hts Hn Hod Hos Hbs Hbd.
  unfold do_memcpy. rewrite Hd, Hs, Htd, Hts.
  change (ity_bytes U8) with 1. rewrite !Z.mod_1_r, !Z.div_1_r.
  change (negb (1 =? 1)) with false. cbv iota.
  change (negb (0 =? 0)) with false.
  destruct (n <? 0) eqn:E1; [apply Z.ltb_lt in E1; lia|].
  destruct (offd <? 0) eqn:E2; [apply Z.ltb_lt in E2; lia|].
  destruct (offs <? 0) eqn:E3; [apply Z.ltb_lt in E3; lia|].
  cbn [orb].
  destruct (Z.of_nat (List.length (o_cells bs)) <? offs + n) eqn:E4; [apply Z.ltb_lt in E4; lia|].
  destruct (Z.of_nat (List.length (o_cells bd)) <? offd + n) eqn:E5; [apply Z.ltb_lt in E5; lia|].
  reflexivity.
Qed.

(* fread into a byte array: delivers the first n bytes of what is left of the stream *)
Lemma fread_u8 : forall s od offd n fname poff f bd,
  lget (files s) fname = Some f -> mget (mem s) od = Some bd -> o_ty bd = U8 -> 0 <= n -> 0 <= offd ->
  let got := firstn (Z.to_nat n) (skipn (cf_pos f) (cf_data f)) in
  offd + Z.of_nat (List.length got) <= Z.of_nat (List.length (o_cells bd)) ->
  exists eof,
  do_prim s "fread" [VPtr od offd; VInt 1; VInt n; VPtr fname poff] =
  Ok (Some (VInt (Z.of_nat (List.length got))),
      with_files (with_mem s (mset (mem s) od {| o_ty := U8; o_cells := upd_range (Z.to_nat offd) got (o_cells bd) |}))
                 (lset (files s) fname {| cf_data := cf_data f; cf_pos := cf_pos f + List.length got; cf_eof := eof |})).
Proof.
  intros s od offd n fname poff f bd Hf Hd Hty Hn Hod got Hfit.
  unfold do_prim. change (String.eqb "fread" "fread") with true. cbv iota.
  cbn [stream_of bind]. rewrite Hf, Hd, Hty.
  change (negb (ity_bytes U8 =? 1)) with false. cbv iota.
  destruct (n <? 0) eqn:E1; [apply Z.ltb_lt in E1; lia|].
  destruct (offd <? 0) eqn:E2; [apply Z.ltb_lt in E2; lia|].
  cbn [orb].
  set (l := skipn (cf_pos f) (cf_data f)) in *.
  assert (Hgot : firstn (Z.to_nat (Z.min n (Z.of_nat (List.length (cf_data f)) - Z.of_nat (cf_pos f)))) l = got).
  { unfold got. assert (Hl : List.length l = (List.length (cf_data f) - cf_pos f)%nat) by apply skipn_length.
    destruct (Z.le_ge_cases n (Z.of_nat (List.length (cf_data f)) - Z.of_nat (cf_pos f))) as [Hc|Hc].
    - rewrite Z.min_l by lia. reflexivity.
    - rewrite Z.min_r by lia. rewrite !firstn_all2 by lia. reflexivity. }
  rewrite Hgot.
  destruct (Z.of_nat (List.length (o_cells bd)) <? offd + Z.of_nat (List.length got)) eqn:E3; [apply Z.ltb_lt in E3; lia|].
  eexists. reflexivity.
Qed.

(* ------------------------------------------------------------------------------------ *)
(** * 7. filebuffer64: representation of the model's [fbuf] in the MiniC state            *)
(* ------------------------------------------------------------------------------------ *)
Definition cell1 (t : ity) (x : Z) : object := {| o_ty := t; o_cells := [x] |}.

(* well-formed buffer states (all states the constructor and read_buffer64 produce) *)
Record fb_wf (hbuf : nat) (b : fbuf) : Prop := {
  wf_len : (List.length (fb_b b) <= 64 * hbuf)%nat;
  wf_total : fb_total b = (List.length (fb_b b) / 64)%nat;
  wf_now : (fb_now b <= hbuf)%nat;
  wf_tail : fb_tail b = 0%nat \/ (fb_tail b = (List.length (fb_b b) mod 64)%nat /\ (fb_now b <= fb_total b)%nat);
  wf_bytes_b : bytesb (fb_b b) = true;
  wf_bytes_rest : bytesb (fb_rest b) = true;
  wf_extra : forall e, fb_extra b = Some e -> List.length e = 64%nat /\ bytesb e = true }.

(* the buffer object at prefix "buf." (+ the constant HBUF_SZ) holds b *)
Record fb_mem (hbuf : nat) (b : fbuf) (m : memory) : Prop := {
  fm_hbuf : mget m "HBUF_SZ" = Some (cell1 U32 (Z.of_nat hbuf));
  fm_b : exists cells, mget m "buf.b" = Some {| o_ty := U8; o_cells := cells |} /\
           List.length cells = (64 * hbuf)%nat /\ firstn (List.length (fb_b b)) cells = map Z.of_N (fb_b b);
  fm_extra : exists cells, mget m "buf.extra_entry" = Some {| o_ty := U8; o_cells := cells |} /\
           List.length cells = 64%nat /\ forall e, fb_extra b = Some e -> cells = map Z.of_N e;
  fm_has : mget m "buf.has_extra" = Some (cell1 TBool (if fb_extra b then 1 else 0));
  fm_total : mget m "buf.total" = Some (cell1 U32 (Z.of_nat (fb_total b)));
  fm_now : mget m "buf.now" = Some (cell1 U32 (Z.of_nat (fb_now b)));
  fm_tail : mget m "buf.tail" = Some (cell1 U8 (Z.of_nat (fb_tail b))) }.

(* the stream fpn is positioned at the model's unread rest; the member fp points to it *)
Definition fb_io (fpn : string) (b : fbuf) (fs : list (string * cfile)) (ps : list (string * value)) : Prop :=
  lget ps "buf.fp" = Some (VPtr fpn 0) /\
  exists f, lget fs fpn = Some f /\ skipn (cf_pos f) (cf_data f) = map Z.of_N (fb_rest b).

Definition fb_rep (fpn : string) (hbuf : nat) (b : fbuf) (s : state) : Prop :=
  fb_mem hbuf b (mem s) /\ fb_io fpn b (files s) (ptrs s).

(* the objects exist with the declared shapes (before the constructor ran) *)
Record fb_shape (hbuf : nat) (m : memory) : Prop := {
  sh_hbuf : mget m "HBUF_SZ" = Some (cell1 U32 (Z.of_nat hbuf));
  sh_b : exists cells, mget m "buf.b" = Some {| o_ty := U8; o_cells := cells |} /\ List.length cells = (64 * hbuf)%nat;
  sh_extra : exists cells, mget m "buf.extra_entry" = Some {| o_ty := U8; o_cells := cells |} /\ List.length cells = 64%nat;
  sh_has : exists x, mget m "buf.has_extra" = Some (cell1 TBool x);
  sh_total : exists x, mget m "buf.total" = Some (cell1 U32 x);
  sh_now : exists x, mget m "buf.now" = Some (cell1 U32 x);
  sh_tail : exists x, mget m "buf.tail" = Some (cell1 U8 x) }.

(* what the buffer methods may change: the members of "buf." and the destination object *)
Definition fb_owned (o : string) (k : string) : bool := is_prefix "buf." k || String.eqb k o.
(* every object keeps its type and size *)
Definition shapes (m m' : memory) : Prop :=
  forall k ob, mget m k = Some ob -> exists ob', mget m' k = Some ob' /\ o_ty ob' = o_ty ob /\
                                       List.length (o_cells ob') = List.length (o_cells ob).

Lemma shapes_refl : forall m, shapes m m.
Proof. intros m k ob Hk. exists ob. auto. Qed.
Lemma shapes_trans : forall m1 m2 m3, shapes m1 m2 -> shapes m2 m3 -> shapes m1 m3.
Proof.
  intros m1 m2 m3 H12 H23 k ob Hk. destruct (H12 k ob Hk) as (ob2 & Hk2 & Ht2 & Hl2).
  destruct (H23 k ob2 Hk2) as (ob3 & Hk3 & Ht3 & Hl3). exists ob3. repeat split; congruence.
Qed.
Lemma shapes_mset : forall m k ob ob', mget m k = Some ob -> o_ty ob' = o_ty ob ->
  List.length (o_cells ob') = List.length (o_cells ob) -> shapes m (mset m k ob').
Proof.
  intros m k ob ob' Hk Ht Hl k' ob0 Hk'. destruct (String.eqb_spec k k') as [<-|Hne].
  - rewrite mget_mset_same. exists ob'. rewrite Hk in Hk'. injection Hk' as <-. auto.
  - rewrite mget_mset_other by exact Hne. exists ob0. auto.
Qed.
Lemma frame_mset : forall owned m k ob, owned k = true -> frame owned m (mset m k ob).
Proof.
  intros owned m k ob Hk k' Hk'. apply mget_mset_other. intros ->. congruence.
Qed.

Lemma buf_prefix : forall x, is_prefix "buf." ("buf." ++ x) = true.
Proof. intro x. unfold is_prefix. cbn. destruct x; reflexivity. Qed.
Lemma not_buf : forall k x, is_prefix "buf." k = false -> k <> ("buf." ++ x)%string.
Proof. intros k x Hk ->. rewrite buf_prefix in Hk. discriminate. Qed.

Lemma buf_not_heap : forall n, is_prefix "buf." (heap_name n) = false.
Proof. intro n. unfold heap_name. generalize (nat_string n). intro x. reflexivity. Qed.
(* the buffer methods leave the heap alone (except the destination, if that is a heap object) *)
Lemma frame_buf_heap : forall s s', frame (is_prefix "buf.") (mem s) (mem s') -> heap_kept s s'.
Proof. intros s s' Hf n _. apply Hf, buf_not_heap. Qed.
Lemma frame_fb_heap : forall o s s', frame (fb_owned o) (mem s) (mem s') -> heap_kept_but o s s'.
Proof.
  intros o s s' Hf n _ Hne. apply Hf. unfold fb_owned. rewrite buf_not_heap. cbn [orb]. apply String.eqb_neq. exact Hne.
Qed.

Lemma of_nat_div64 : forall n, Z.of_nat (n / 64) = Z.of_nat n / 64.
Proof. intro n. apply (Nat2Z.inj_div n 64). Qed.
Lemma of_nat_mod64 : forall n, Z.of_nat (n mod 64) = Z.of_nat n mod 64.
Proof. intro n. apply (Nat2Z.inj_mod n 64). Qed.
Lemma land63 : forall z, 0 <= z -> Z.land z 63 = z mod 64.
Proof. intros z Hz. change 63 with (Z.ones 6). rewrite Z.land_ones by lia. reflexivity. Qed.
Lemma shiftr6 : forall z, Z.shiftr z 6 = z / 64.
Proof. intro z. rewrite Z.shiftr_div_pow2 by lia. reflexivity. Qed.
Lemma shiftl6 : forall z, Z.shiftl z 6 = z * 64.
Proof. intro z. rewrite Z.shiftl_mul_pow2 by lia. reflexivity. Qed.

Section FileBuffer.
Variable vt : list (string * string).
Variable fpn : string.                      (* name of the stream the buffer reads *)
Variable hbuf : nat.
Hypothesis Hh1 : (1 <= hbuf)%nat.
Hypothesis Hh2 : Z.of_nat (64 * hbuf) < 2 ^ 32.
Let P := hash_prog.

Local Notation St m l fs ps fr := {| mem := m; loc := l; pre := "buf."; files := fs; ptrs := ps; fresh := fr |}.

Lemma load_cell1 : forall t x, load_obj (cell1 t x) t 0 = Ok (wrap t x).
Proof. destruct t; reflexivity. Qed.

Lemma exec_store_cell1 : forall fuel s t f e v x,
  eval s e = Ok (VInt v) -> mget (mem s) (pre s ++ f) = Some (cell1 t x) ->
  exec P vt (S fuel) (SStore t (EField f) e) s = Ok (Normal, with_mem s (mset (mem s) (pre s ++ f) (cell1 t (wrap t v)))).
Proof.
  intros fuel s t f e v x He Hm. cbn [exec eval bind]. rewrite He. cbn [bind as_int]. rewrite Hm.
  destruct t; reflexivity.
Qed.

Lemma exec_prim : forall fuel ret name args s,
  exec P vt (S fuel) (SPrim ret name args) s =
  (do vs <- eval_list s args; do r <- do_prim s name vs; let '(v, s1) := r in do s2 <- set_ret s1 ret v; Ok (Normal, s2)).
Proof. reflexivity. Qed.
Lemma exec_memcpy : forall fuel d sr n s,
  exec P vt (S fuel) (SMemcpy d sr n) s =
  (do dv <- eval s d; do sv <- eval s sr; do nv <- eval s n; do k <- as_int nv; do s' <- do_memcpy s dv sv k; Ok (Normal, s')).
Proof. reflexivity. Qed.
Lemma exec_return : forall fuel e s,
  exec P vt (S fuel) (SReturn (Some e)) s = (do v <- eval s e; Ok (Returned (Some v), s)).
Proof. reflexivity. Qed.

(* ---- expressions of the two functions ---- *)
Definition E_size : expr := ECast U64 (EBin U32 Shl (ELoad U32 (EGlobal "HBUF_SZ")) (EConst 6)).
Definition E_tailv : expr := ECast U8 (EBin U32 BAnd (EVar "sum") (ECast U32 (EConst 63))).
Definition E_totalv : expr := EBin U32 Shr (EVar "sum") (EConst 6).

Lemma eval_size : forall s, mget (mem s) "HBUF_SZ" = Some (cell1 U32 (Z.of_nat hbuf)) ->
  eval s E_size = Ok (VInt (Z.of_nat (64 * hbuf))).
Proof.
  intros s Hm. unfold E_size. cbn [eval bind]. rewrite Hm.
  transitivity (Ok (VInt (wrap U64 (Z.shiftl (wrap U32 (Z.of_nat hbuf)) 6 mod 2 ^ 32))) : res value); [reflexivity|].
  do 2 f_equal. rewrite wrap_U32_small by lia. rewrite shiftl6. rewrite Z.mod_small by lia.
  rewrite wrap_U64_small by lia. lia.
Qed.
Lemma eval_tailv : forall s sm, lget (loc s) "sum" = Some (VInt sm) -> 0 <= sm < 2 ^ 32 ->
  eval s E_tailv = Ok (VInt (sm mod 64)).
Proof.
  intros s sm Hl Hs. unfold E_tailv. cbn [eval bind]. rewrite Hl.
  transitivity (Ok (VInt (wrap U8 (wrap U32 (Z.land sm 63)))) : res value); [reflexivity|].
  do 2 f_equal. rewrite land63 by lia.
  pose proof (Z.mod_pos_bound sm 64 ltac:(lia)).
  rewrite wrap_U32_small by lia. rewrite wrap_U8_small by lia. reflexivity.
Qed.
Lemma eval_totalv : forall s sm, lget (loc s) "sum" = Some (VInt sm) ->
  eval s E_totalv = Ok (VInt (sm / 64)).
Proof.
  intros s sm Hl. unfold E_totalv. cbn [eval bind]. rewrite Hl.
  transitivity (Ok (VInt (Z.shiftr sm 6)) : res value); [reflexivity|]. now rewrite shiftr6.
Qed.

(* fread(b, 1, HBUF_SZ << 6, fp); sum = ...; tail = sum & 0x3f; then [last] *)
Definition S_fill (efp : expr) (last : stmt) : stmt :=
  SSeq (SPrim (Some "$t1") "fread" [EField "b"; ECast U64 (EConst 1); E_size; efp])
  (SSeq (SSet "sum" (ECast U32 (EVar "$t1")))
  (SSeq (SStore U8 (EField "tail") E_tailv) last)).

Lemma fill_exec : forall fuel last m l fs ps fr efp f cells tl,
  eval (St m l fs ps fr) efp = Ok (VPtr fpn 0) ->
  mget m "HBUF_SZ" = Some (cell1 U32 (Z.of_nat hbuf)) ->
  mget m "buf.b" = Some {| o_ty := U8; o_cells := cells |} -> List.length cells = (64 * hbuf)%nat ->
  mget m "buf.tail" = Some (cell1 U8 tl) ->
  lget fs fpn = Some f ->
  let got := firstn (64 * hbuf) (skipn (cf_pos f) (cf_data f)) in
  let k := Z.of_nat (List.length got) in
  exists eof,
  exec P vt (S (S (S (S fuel)))) (S_fill efp last) (St m l fs ps fr) =
  exec P vt (S fuel) last
    (St (mset (mset m "buf.b" {| o_ty := U8; o_cells := got ++ skipn (List.length got) cells |}) "buf.tail" (cell1 U8 (k mod 64)))
        (lset (lset l "$t1" (VInt k)) "sum" (VInt k))
        (lset fs fpn {| cf_data := cf_data f; cf_pos := cf_pos f + List.length got; cf_eof := eof |}) ps fr).
Proof.
  intros fuel last m l fs ps fr efp f cells tl Hefp Hhb Hb Hcells Htl Hf got k.
  assert (Hgl : (List.length got <= 64 * hbuf)%nat) by (unfold got; apply firstn_le_length).
  destruct (fread_u8 (St m l fs ps fr) "buf.b" 0 (Z.of_nat (64 * hbuf)) fpn 0 f {| o_ty := U8; o_cells := cells |}
              Hf Hb eq_refl ltac:(lia) ltac:(lia)) as [eof Hfr].
  { rewrite Nat2Z.id. fold got. cbn [o_cells]. lia. }
  rewrite Nat2Z.id in Hfr. fold got in Hfr. cbn [o_cells] in Hfr.
  exists eof. unfold S_fill.
  rewrite exec_seq, exec_prim.
  assert (Hargs : eval_list (St m l fs ps fr) [EField "b"; ECast U64 (EConst 1); E_size; efp] =
                  Ok [VPtr "buf.b" 0; VInt 1; VInt (Z.of_nat (64 * hbuf)); VPtr fpn 0]).
  { cbn [eval_list]. rewrite (eval_size (St m l fs ps fr) Hhb), Hefp. reflexivity. }
  rewrite Hargs. cbn [bind]. rewrite Hfr. cbn [bind set_ret].
  change (Z.to_nat 0) with 0%nat.
  rewrite (upd_range_split got cells 0) by lia. cbn [firstn app Nat.add].
  unfold with_files, with_mem, with_loc. cbn [mem loc pre files ptrs fresh].
  rewrite exec_seq, exec_set.
  assert (Hk : 0 <= k < 2 ^ 32) by (unfold k; lia).
  cbn [eval bind loc]. rewrite lget_lset_same. cbn [bind as_int]. rewrite wrap_U32_small by exact Hk.
  unfold with_loc. cbn [bind mem loc pre files ptrs fresh]. fold k.
  rewrite exec_seq.
  rewrite (exec_store_cell1 _ _ U8 "tail" E_tailv (k mod 64) tl).
  - unfold with_mem. cbn [bind mem loc pre files ptrs fresh append].
    pose proof (Z.mod_pos_bound k 64 ltac:(lia)).
    rewrite wrap_U8_small by lia. reflexivity.
  - apply eval_tailv; [|exact Hk]. cbn [loc]. apply lget_lset_same.
  - cbn [mem pre append]. rewrite mget_mset_other by discriminate. exact Htl.
Qed.

Lemma exec_setptr : forall fuel p e s,
  exec P vt (S fuel) (SSetPtr p e) s =
  (do pv <- eval s p; do ev <- eval s e;
   match pv with VPtr o _ => Ok (Normal, with_ptrs s (lset (ptrs s) o ev)) | _ => UB "pointer member of a non-object" end).
Proof. reflexivity. Qed.

Lemma skipn_min_length : forall A (l : list A) n, skipn (Nat.min n (List.length l)) l = skipn n l.
Proof.
  intros A l n. destruct (Nat.le_ge_cases n (List.length l)) as [Hc|Hc].
  - rewrite Nat.min_l by exact Hc. reflexivity.
  - rewrite Nat.min_r by exact Hc. rewrite !skipn_all2 by lia. reflexivity.
Qed.

(* the model's refill is well-formed *)
Lemma fb_fill_wf : forall extra rest, bytesb rest = true ->
  (forall e, extra = Some e -> List.length e = 64%nat /\ bytesb e = true) ->
  fb_wf hbuf (fb_fill hbuf extra rest).
Proof.
  intros extra rest Hr He. unfold fb_fill. cbv zeta.
  constructor; cbn [fb_extra fb_b fb_total fb_now fb_tail fb_rest].
  - rewrite firstn_length. lia.
  - reflexivity.
  - lia.
  - right. split; [reflexivity|lia].
  - apply bytesb_firstn, Hr.
  - apply bytesb_skipn, Hr.
  - exact He.
Qed.

(* memory after a refill holds the model's refilled buffer *)
Lemma fb_mem_fill : forall m' extra rest cells,
  let got := map Z.of_N (firstn (hbuf * 64) rest) in
  let k := Z.of_nat (List.length got) in
  mget m' "HBUF_SZ" = Some (cell1 U32 (Z.of_nat hbuf)) ->
  mget m' "buf.b" = Some {| o_ty := U8; o_cells := got ++ skipn (List.length got) cells |} ->
  List.length cells = (64 * hbuf)%nat ->
  (exists ec, mget m' "buf.extra_entry" = Some {| o_ty := U8; o_cells := ec |} /\ List.length ec = 64%nat /\
              forall e, extra = Some e -> ec = map Z.of_N e) ->
  mget m' "buf.has_extra" = Some (cell1 TBool (if extra then 1 else 0)) ->
  mget m' "buf.total" = Some (cell1 U32 (wrap U32 (k / 64))) ->
  mget m' "buf.now" = Some (cell1 U32 0) ->
  mget m' "buf.tail" = Some (cell1 U8 (k mod 64)) ->
  fb_mem hbuf (fb_fill hbuf extra rest) m'.
Proof.
  intros m' extra rest cells got k Hhb Hb Hcells Hex Hhas Htot Hnow Htail.
  assert (Hgl : List.length got = List.length (firstn (hbuf * 64) rest)) by (unfold got; apply map_length).
  assert (Hgle : (List.length got <= 64 * hbuf)%nat) by (rewrite Hgl, firstn_length; lia).
  unfold fb_fill. cbv zeta.
  constructor; cbn [fb_extra fb_b fb_total fb_now fb_tail fb_rest].
  - exact Hhb.
  - eexists. split; [exact Hb|]. split.
    + rewrite app_length, skipn_length. lia.
    + rewrite <- Hgl. rewrite firstn_app, Nat.sub_diag. cbn [firstn]. rewrite app_nil_r. apply firstn_all.
  - exact Hex.
  - exact Hhas.
  - rewrite Htot. do 2 f_equal. rewrite <- Hgl. rewrite of_nat_div64. fold k.
    apply wrap_U32_small. unfold k. split; [apply Z.div_pos; lia|]. apply Z.div_lt_upper_bound; lia.
  - exact Hnow.
  - rewrite Htail. do 2 f_equal. rewrite <- Hgl. rewrite of_nat_mod64. reflexivity.
Qed.

(* the stream after a refill *)
Lemma fb_io_fill : forall extra rest fs ps f eof,
  lget ps "buf.fp" = Some (VPtr fpn 0) -> skipn (cf_pos f) (cf_data f) = map Z.of_N rest ->
  let got := firstn (64 * hbuf) (skipn (cf_pos f) (cf_data f)) in
  fb_io fpn (fb_fill hbuf extra rest) (lset fs fpn {| cf_data := cf_data f; cf_pos := cf_pos f + List.length got; cf_eof := eof |}) ps.
Proof.
  intros extra rest fs ps f eof Hp Hrest got. split; [exact Hp|].
  eexists. split; [apply lget_lset_same|]. cbn [cf_pos cf_data fb_fill fb_rest].
  rewrite Nat.add_comm, skipn_add. unfold got. rewrite Hrest. rewrite firstn_length, map_length.
  rewrite <- (map_length Z.of_N rest) at 1. rewrite skipn_min_length. rewrite skipn_map.
  rewrite (Nat.mul_comm 64). reflexivity.
Qed.

Lemma some_inj : forall A (x y : A), Some x = Some y -> x = y.
Proof. intros A x y E. apply (f_equal (fun o => match o with Some z => z | None => x end)) in E. exact E. Qed.

(* the constructor's block argument: NULL, or a pointer to (at least) 64 bytes outside the buffer *)
Definition blk_arg (m : memory) (bv : value) (block : option (list N)) : Prop :=
  match block with
  | None => bv = VNull
  | Some blk => exists ob boff, bv = VPtr ob boff /\ is_prefix "buf." ob = false /\
                  bytes_at m ob boff blk /\ (64 <= List.length blk)%nat /\ bytesb blk = true
  end.

Ltac nb := first [discriminate | apply not_eq_sym; eapply not_buf; eassumption | eapply not_buf; eassumption | congruence].
Ltac mg := repeat (rewrite mget_mset_other by nb); try rewrite mget_mset_same.

Lemma fb_ctor_core : forall fuel s bv block stream f,
  (12 <= fuel)%nat -> fb_shape hbuf (mem s) ->
  lget (files s) fpn = Some f -> skipn (cf_pos f) (cf_data f) = map Z.of_N stream -> bytesb stream = true ->
  blk_arg (mem s) bv block ->
  exists s', call P vt fuel "filebuffer64::filebuffer64/3" "buf." [VPtr fpn 0; bv] s = Ok (None, s') /\
    fb_wf hbuf (fb_new hbuf block stream) /\ fb_rep fpn hbuf (fb_new hbuf block stream) s' /\
    frame (is_prefix "buf.") (mem s) (mem s') /\ shapes (mem s) (mem s') /\
    loc s' = loc s /\ pre s' = pre s /\ fresh s' = fresh s /\
    (forall k, k <> fpn -> lget (files s') k = lget (files s) k) /\
    (forall k, k <> "buf.fp" -> lget (ptrs s') k = lget (ptrs s) k).
Proof.
  intros fuel s bv block stream f Hfuel Hsh Hf Hrest Hbytes Hblk.
  destruct Hsh as [Hhb (cells & Hb & Hcells) (ec & Hec & Hecl) (xh & Hhas) (xt & Htot) (xn & Hnow) (xl & Htail)].
  unfold call. fold P. unfold P at 1. rewrite prog_fb_ctor.
  cbn [f_params f_body Src_hashbuffer.f_filebuffer64_filebuffer64_3 bind_params bind].
  set (m := mem s) in *. set (fs := files s) in *. set (ps := ptrs s). set (fr := fresh s).
  set (l := [("fp", VPtr fpn 0); ("block", bv)]).
  do 12 (destruct fuel as [|fuel]; [lia|]).
  (* has_extra = (block != NULL) *)
  rewrite exec_seq.
  rewrite (exec_store_cell1 _ (St m l fs ps fr) TBool "has_extra" _ (if block then 1 else 0) xh);
    [| unfold l; destruct block as [blk|]; [destruct Hblk as (ob & boff & -> & _)|rewrite Hblk]; reflexivity | exact Hhas].
  replace (wrap TBool (if block then 1 else 0)) with (if block then 1 else 0) by (destruct block; reflexivity).
  unfold with_mem. cbn [bind mem loc pre files ptrs fresh append].
  (* now = 0 *)
  rewrite exec_seq.
  rewrite (exec_store_cell1 _ _ U32 "now" _ 0 xn); [| reflexivity | cbn [mem pre append]; mg; exact Hnow].
  unfold with_mem. cbn [bind mem loc pre files ptrs fresh append]. change (wrap U32 0) with 0.
  (* fp = fp *)
  rewrite exec_seq, exec_setptr.
  cbn [eval bind loc pre lget String.eqb Ascii.eqb Bool.eqb append l]. unfold with_ptrs.
  cbn [bind mem loc pre files ptrs fresh].
  (* memcpy(extra_entry, block, 64) *)
  rewrite exec_seq.
  set (m2 := mset (mset m "buf.has_extra" (cell1 TBool (if block then 1 else 0))) "buf.now" (cell1 U32 0)).
  set (ps' := lset ps "buf.fp" (VPtr fpn 0)).
  assert (Hcopy : exists ec', List.length ec' = 64%nat /\
            (forall e, option_map (firstn 64) block = Some e -> ec' = map Z.of_N e) /\
            exec P vt (S (S (S (S (S (S (S (S fuel))))))))
              (SIf (EUn TBool LNot (EIsNull (EVar "block")))
                 (SMemcpy (EField "extra_entry") (EVar "block") (ECast U64 (EConst 64))) SSkip) (St m2 l fs ps' fr) =
            Ok (Normal, St (mset m2 "buf.extra_entry" {| o_ty := U8; o_cells := ec' |}) l fs ps' fr)).
  { destruct block as [blk|]; cbn [blk_arg option_map] in Hblk |- *.
    - destruct Hblk as (ob & boff & Ebv & Hob & Hat & Hl64 & Hbb).
      destruct Hat as (obj & Hobj & Hoty & Hboff & Hocells & Holen).
      exists (firstn 64 (skipn (Z.to_nat boff) (o_cells obj))). split; [|split].
      + rewrite firstn_length, skipn_length. lia.
      + intros e He. apply some_inj in He. subst e. rewrite <- firstn_map, <- Hocells.
        rewrite firstn_firstn. rewrite Nat.min_l by lia. reflexivity.
      + rewrite exec_if. subst l. rewrite Ebv. cbn [eval bind loc lget String.eqb Ascii.eqb Bool.eqb as_int eval_un].
        change (0 =? 0) with true. cbv iota. change (1 =? 0) with false. cbv iota.
        rewrite exec_memcpy. cbn [eval bind loc pre lget String.eqb Ascii.eqb Bool.eqb as_int append].
        change (wrap U64 64) with 64.
        rewrite (memcpy_u8 _ "buf.extra_entry" 0 ob boff 64 {| o_ty := U8; o_cells := ec |} obj); cbn [mem o_ty o_cells]; try lia; try assumption; try reflexivity.
        * cbn [bind]. unfold with_mem. cbn [mem loc pre files ptrs fresh].
          change (Z.to_nat 0) with 0%nat. change (Z.to_nat 64) with 64%nat.
          assert (Hsl : List.length (firstn 64 (skipn (Z.to_nat boff) (o_cells obj))) = 64%nat)
            by (rewrite firstn_length, skipn_length; lia).
          rewrite (upd_range_split (firstn 64 (skipn (Z.to_nat boff) (o_cells obj))) ec 0) by lia.
          rewrite Hsl. cbn [firstn app Nat.add]. rewrite (skipn_all2 ec) by lia.
          rewrite app_nil_r. reflexivity.
        * unfold m2. mg. exact Hec.
        * unfold m2. mg. exact Hobj.
    - exists ec. split; [exact Hecl|]. split; [discriminate|].
      rewrite exec_if. subst l. rewrite Hblk. cbn [eval bind loc lget String.eqb Ascii.eqb Bool.eqb as_int eval_un].
      change (1 =? 0) with false. cbv iota. change (0 =? 0) with true. cbv iota.
      rewrite exec_skip.
      assert (Hx : forall mm k o, mget mm k = Some o -> mset mm k o = mm).
      { induction mm as [|[k' o'] r IH]; intros k o Hk; cbn in Hk |- *; [discriminate|].
        destruct (String.eqb_spec k k') as [->|Hne]; [apply some_inj in Hk; subst o'; reflexivity|]. f_equal. apply IH, Hk. }
      rewrite (Hx m2 "buf.extra_entry" {| o_ty := U8; o_cells := ec |}); [reflexivity|].
      unfold m2. mg. exact Hec. }
  destruct Hcopy as (ec' & Hecl' & Hece & Hcopy). rewrite Hcopy. cbn [bind]. clear Hcopy.
  (* the first fill *)
  set (m3 := mset m2 "buf.extra_entry" {| o_ty := U8; o_cells := ec' |}).
  change (exec P vt (S (S (S (S (S (S (S (S fuel)))))))) _ (St m3 l fs ps' fr))
    with (exec P vt (S (S (S (S (S (S (S (S fuel)))))))) (S_fill (EVar "fp") (SStore U32 (EField "total") E_totalv)) (St m3 l fs ps' fr)).
  destruct (fill_exec (S (S (S (S fuel)))) (SStore U32 (EField "total") E_totalv) m3 l fs ps' fr (EVar "fp") f cells xl)
    as [eof Hfill]; try assumption; try reflexivity.
  { unfold m3, m2. mg. exact Hhb. }
  { unfold m3, m2. mg. exact Hb. }
  { unfold m3, m2. mg. exact Htail. }
  rewrite Hfill. clear Hfill.
  set (got := firstn (64 * hbuf) (skipn (cf_pos f) (cf_data f))) in *.
  set (k := Z.of_nat (List.length got)).
  rewrite (exec_store_cell1 _ _ U32 "total" E_totalv (k / 64) xt);
    [| apply eval_totalv; cbn [loc]; apply lget_lset_same | cbn [mem pre append]; unfold m3, m2; mg; exact Htot].
  unfold with_mem. cbn [bind mem loc pre files ptrs fresh append].
  eexists. split; [reflexivity|]. unfold fb_rep. cbn [mem loc pre files ptrs fresh].
  assert (Hgot : got = map Z.of_N (firstn (hbuf * 64) stream)).
  { unfold got. rewrite Hrest, firstn_map, (Nat.mul_comm 64). reflexivity. }
  assert (Hextra : forall e, option_map (firstn 64) block = Some e -> List.length e = 64%nat /\ bytesb e = true).
  { intros e He. destruct block as [blk|]; [|discriminate]. apply some_inj in He. subst e.
    destruct Hblk as (ob & boff & _ & _ & _ & Hl64 & Hbb). split; [apply firstn_length_le, Hl64|apply bytesb_firstn, Hbb]. }
  unfold fb_new. split; [apply fb_fill_wf; assumption|]. split; [split|].
  - apply fb_mem_fill with (cells := cells); fold k; rewrite <- ?Hgot; fold k; unfold m3, m2; mg; try assumption; try reflexivity.
    + eexists. split; [reflexivity|]. split; assumption.
    + destruct block; reflexivity.
  - cbn [files ptrs]. apply fb_io_fill; [apply lget_lset_same|exact Hrest].
  - repeat split; try reflexivity.
    + unfold m3, m2. intros k0 Hk0. mg. reflexivity.
    + unfold m3, m2. intros k0 ob0 Hk0.
      assert (Hs : forall mm kk o1 o2, mget mm kk = Some o1 -> o_ty o2 = o_ty o1 -> List.length (o_cells o2) = List.length (o_cells o1) ->
                   forall mm0, shapes mm0 mm -> shapes mm0 (mset mm kk o2)).
      { intros mm kk o1 o2 Hg Ht Hl mm0 Hs0. eapply shapes_trans; [exact Hs0|]. eapply shapes_mset; eassumption. }
      revert k0 ob0 Hk0. fold (shapes m (mset (mset (mset (mset (mset (mset m "buf.has_extra" (cell1 TBool (if block then 1 else 0))) "buf.now" (cell1 U32 0))
          "buf.extra_entry" {| o_ty := U8; o_cells := ec' |}) "buf.b" {| o_ty := U8; o_cells := got ++ skipn (List.length got) cells |})
          "buf.tail" (cell1 U8 (k mod 64))) "buf.total" (cell1 U32 (wrap U32 (k / 64))))).
      assert (Hgle : (List.length got <= 64 * hbuf)%nat) by (unfold got; apply firstn_le_length).
      eapply Hs; [mg; exact Htot|reflexivity|reflexivity|].
      eapply Hs; [mg; exact Htail|reflexivity|reflexivity|].
      eapply Hs; [mg; exact Hb|reflexivity|cbn [o_cells]; rewrite app_length, skipn_length; lia|].
      eapply Hs; [mg; exact Hec|reflexivity|cbn [o_cells]; lia|].
      eapply Hs; [mg; exact Hnow|reflexivity|reflexivity|].
      eapply Hs; [exact Hhas|reflexivity|reflexivity|]. apply shapes_refl.
    + intros k0 Hk0. cbn [files]. apply lget_lset_other. congruence.
    + intros k0 Hk0. cbn [ptrs]. apply lget_lset_other. congruence.
Qed.

(* the constructor; the block argument may live in any object outside "buf." (static, or a heap object) *)
Lemma fb_ctor_refines : forall fuel s bv block stream f,
  (12 <= fuel)%nat -> fb_shape hbuf (mem s) ->
  lget (files s) fpn = Some f -> skipn (cf_pos f) (cf_data f) = map Z.of_N stream -> bytesb stream = true ->
  blk_arg (mem s) bv block ->
  exists s', call P vt fuel "filebuffer64::filebuffer64/3" "buf." [VPtr fpn 0; bv] s = Ok (None, s') /\
    fb_wf hbuf (fb_new hbuf block stream) /\ fb_rep fpn hbuf (fb_new hbuf block stream) s' /\
    frame (is_prefix "buf.") (mem s) (mem s') /\ heap_kept s s' /\ shapes (mem s) (mem s') /\
    loc s' = loc s /\ pre s' = pre s /\ fresh s' = fresh s /\
    (forall k, k <> fpn -> lget (files s') k = lget (files s) k) /\
    (forall k, k <> "buf.fp" -> lget (ptrs s') k = lget (ptrs s) k).
Proof.
  intros fuel s bv block stream f Hfuel Hsh Hf Hrest Hbytes Hblk.
  destruct (fb_ctor_core fuel s bv block stream f Hfuel Hsh Hf Hrest Hbytes Hblk)
    as (s' & Ec & Hwf & Hrep & Hfr & Hshp & Hl & Hp & Hfresh & Hfiles & Hptrs).
  exists s'. split; [exact Ec|]. split; [exact Hwf|]. split; [exact Hrep|]. split; [exact Hfr|].
  split; [apply frame_buf_heap, Hfr|]. auto 10.
Qed.

(* ---- read_buffer64 ---- *)
Definition E_refillc : expr := EBin TBool Eq (ELoad U32 (EField "now")) (ELoad U32 (EGlobal "HBUF_SZ")).
Definition E_ls : expr :=
  ECast U32 (ECond (EBin TBool Ge (ELoad U32 (EField "now")) (ELoad U32 (EField "total")))
                   (ECast I32 (ELoad U8 (EField "tail"))) (EConst 64)).
Definition E_nt : expr := EBin TBool Eq (ELoad U32 (EField "now")) (ELoad U32 (EField "total")).
Definition E_now1 : expr := EBin U32 Add (ELoad U32 (EField "now")) (EConst 1).
Definition E_src : expr := EPtrAdd (EField "b") 64 (EVar "$t2").

Definition S_refill : stmt :=
  SIf E_refillc (S_fill (EPtrVar (EField "fp")) (SSeq (SStore U32 (EField "total") E_totalv) (SStore U32 (EField "now") (ECast U32 (EConst 0))))) SSkip.
Definition S_core : stmt :=
  SSeq (SSet "load_size" E_ls)
  (SSeq (SIf E_nt (SStore U8 (EField "tail") (ECast U8 (EConst 0))) SSkip)
  (SSeq (SSet "$t2" (ELoad U32 (EField "now")))
  (SSeq (SStore U32 (EField "now") E_now1)
  (SSeq (SMemcpy (EVar "block") E_src (ECast U64 (EVar "load_size")))
        (SReturn (Some (EVar "load_size"))))))).

Lemma eval_refillc : forall m l fs ps fr n,
  mget m "buf.now" = Some (cell1 U32 (Z.of_nat n)) -> mget m "HBUF_SZ" = Some (cell1 U32 (Z.of_nat hbuf)) -> (n <= hbuf)%nat ->
  eval (St m l fs ps fr) E_refillc = Ok (VInt (if (n =? hbuf)%nat then 1 else 0)).
Proof.
  intros m l fs ps fr n Hn Hh Hle. unfold E_refillc. cbn [eval bind pre append mem]. rewrite Hn, Hh. cbn [bind].
  rewrite !load_cell1. cbn [bind as_int eval_bin]. rewrite !wrap_U32_small by lia.
  destruct (Nat.eqb_spec n hbuf) as [E|E]; destruct (Z.eqb_spec (Z.of_nat n) (Z.of_nat hbuf)) as [E'|E']; try lia; reflexivity.
Qed.

Lemma eval_nt : forall m l fs ps fr n t,
  mget m "buf.now" = Some (cell1 U32 (Z.of_nat n)) -> mget m "buf.total" = Some (cell1 U32 (Z.of_nat t)) ->
  (n <= hbuf)%nat -> (t <= hbuf)%nat ->
  eval (St m l fs ps fr) E_nt = Ok (VInt (if (n =? t)%nat then 1 else 0)).
Proof.
  intros m l fs ps fr n t Hn Ht Hnle Htle. unfold E_nt. cbn [eval bind pre append mem]. rewrite Hn, Ht. cbn [bind].
  rewrite !load_cell1. cbn [bind as_int eval_bin]. rewrite !wrap_U32_small by lia.
  destruct (Nat.eqb_spec n t) as [E|E]; destruct (Z.eqb_spec (Z.of_nat n) (Z.of_nat t)) as [E'|E']; try lia; reflexivity.
Qed.

Lemma eval_ls : forall m l fs ps fr n t tl,
  mget m "buf.now" = Some (cell1 U32 (Z.of_nat n)) -> mget m "buf.total" = Some (cell1 U32 (Z.of_nat t)) ->
  mget m "buf.tail" = Some (cell1 U8 (Z.of_nat tl)) ->
  (n <= hbuf)%nat -> (t <= hbuf)%nat -> (tl < 64)%nat ->
  eval (St m l fs ps fr) E_ls = Ok (VInt (Z.of_nat (if (t <=? n)%nat then tl else 64%nat))).
Proof.
  intros m l fs ps fr n t tl Hn Ht Htl Hnle Htle Htl64. unfold E_ls. cbn [eval bind pre append mem]. rewrite Hn, Ht, Htl. cbn [bind].
  rewrite !load_cell1. cbn [bind as_int eval_bin]. rewrite !wrap_U32_small by lia.
  destruct (Nat.leb_spec t n) as [E|E]; destruct (Z.leb_spec (Z.of_nat t) (Z.of_nat n)) as [E'|E']; try lia.
  - change (1 =? 0) with false. cbv iota. cbn [bind as_int]. rewrite wrap_U8_small by lia. rewrite wrap_I32_small by lia.
    rewrite wrap_U32_small by lia. reflexivity.
  - change (0 =? 0) with true. cbv iota. reflexivity.
Qed.

Lemma eval_now1 : forall m l fs ps fr n,
  mget m "buf.now" = Some (cell1 U32 (Z.of_nat n)) -> (n <= hbuf)%nat ->
  eval (St m l fs ps fr) E_now1 = Ok (VInt (Z.of_nat (S n))).
Proof.
  intros m l fs ps fr n Hn Hle. unfold E_now1. cbn [eval bind pre append mem]. rewrite Hn. cbn [bind].
  rewrite !load_cell1. cbn [bind as_int eval_bin]. rewrite !wrap_U32_small by lia.
  rewrite arith_U32. rewrite Z.mod_small by (clear - Hh1 Hh2 Hle; lia). cbn [bind]. do 2 f_equal. lia.
Qed.

Lemma eval_load_now : forall m l fs ps fr n,
  mget m "buf.now" = Some (cell1 U32 (Z.of_nat n)) -> (n <= hbuf)%nat ->
  eval (St m l fs ps fr) (ELoad U32 (EField "now")) = Ok (VInt (Z.of_nat n)).
Proof.
  intros m l fs ps fr n Hn Hle. cbn [eval bind pre append mem]. rewrite Hn. cbn [bind].
  rewrite load_cell1. rewrite wrap_U32_small by lia. reflexivity.
Qed.

(* the refill test and the refill *)
Lemma refill_exec : forall fuel m l fs ps fr b,
  fb_wf hbuf b -> fb_mem hbuf b m -> fb_io fpn b fs ps -> fb_extra b = None ->
  exists m' l' fs',
    exec P vt (S (S (S (S (S (S (S fuel))))))) S_refill (St m l fs ps fr) = Ok (Normal, St m' l' fs' ps fr) /\
    fb_wf hbuf (refill hbuf b) /\ fb_mem hbuf (refill hbuf b) m' /\ fb_io fpn (refill hbuf b) fs' ps /\
    frame (is_prefix "buf.") m m' /\ shapes m m' /\
    (forall x, x <> "$t1" -> x <> "sum" -> lget l' x = lget l x) /\
    (forall k, k <> fpn -> lget fs' k = lget fs k).
Proof.
  intros fuel m l fs ps fr b Hwf Hm Hio Hex.
  destruct Hm as [Hhb (cells & Hb & Hcells & Hbc) Hextra Hhas Htot Hnow Htail].
  destruct Hio as (Hfp & f & Hf & Hrest).
  pose proof (wf_now _ _ Hwf) as Hnle.
  unfold S_refill. rewrite exec_if. rewrite (eval_refillc m l fs ps fr _ Hnow Hhb Hnle). cbn [bind as_int].
  unfold refill.
  destruct (Nat.eqb_spec (fb_now b) hbuf) as [E|E].
  - change (1 =? 0) with false. cbv iota.
    destruct (fill_exec (S (S fuel)) (SSeq (SStore U32 (EField "total") E_totalv) (SStore U32 (EField "now") (ECast U32 (EConst 0))))
                m l fs ps fr (EPtrVar (EField "fp")) f cells (Z.of_nat (fb_tail b))) as [eof Hfill]; try assumption.
    { cbn [eval bind pre append ptrs]. rewrite Hfp. reflexivity. }
    rewrite Hfill. clear Hfill.
    set (got := firstn (64 * hbuf) (skipn (cf_pos f) (cf_data f))) in *.
    set (k := Z.of_nat (List.length got)).
    rewrite exec_seq.
    rewrite (exec_store_cell1 _ _ U32 "total" E_totalv (k / 64) (Z.of_nat (fb_total b)));
      [| apply eval_totalv; cbn [loc]; apply lget_lset_same | cbn [mem pre append]; mg; exact Htot].
    unfold with_mem. cbn [bind mem loc pre files ptrs fresh append].
    rewrite (exec_store_cell1 _ _ U32 "now" _ 0 (Z.of_nat (fb_now b))); [| reflexivity | cbn [mem pre append]; mg; exact Hnow].
    unfold with_mem. cbn [bind mem loc pre files ptrs fresh append]. change (wrap U32 0) with 0.
    do 3 eexists. split; [reflexivity|].
    assert (Hgot : got = map Z.of_N (firstn (hbuf * 64) (fb_rest b))).
    { unfold got. rewrite Hrest, firstn_map, (Nat.mul_comm 64). reflexivity. }
    assert (Hgle : (List.length got <= 64 * hbuf)%nat) by (unfold got; apply firstn_le_length).
    split; [apply fb_fill_wf; [apply (wf_bytes_rest _ _ Hwf)|discriminate]|].
    split; [|split; [|split; [|split; [|split]]]].
    + apply fb_mem_fill with (cells := cells); fold k; rewrite <- ?Hgot; fold k; mg; try assumption; try reflexivity.
      * destruct Hextra as (ec & Hec & Hecl & _). exists ec. split; [exact Hec|]. split; [exact Hecl|discriminate].
      * rewrite Hex in Hhas. exact Hhas.
    + apply fb_io_fill; assumption.
    + intros k0 Hk0. mg. reflexivity.
    + assert (Hs : forall mm kk o1 o2, mget mm kk = Some o1 -> o_ty o2 = o_ty o1 -> List.length (o_cells o2) = List.length (o_cells o1) ->
                   forall mm0, shapes mm0 mm -> shapes mm0 (mset mm kk o2)).
      { intros mm kk o1 o2 Hg Ht Hl mm0 Hs0. eapply shapes_trans; [exact Hs0|]. eapply shapes_mset; eassumption. }
      eapply Hs; [mg; exact Hnow|reflexivity|reflexivity|].
      eapply Hs; [mg; exact Htot|reflexivity|reflexivity|].
      eapply Hs; [mg; exact Htail|reflexivity|reflexivity|].
      eapply Hs; [exact Hb|reflexivity|cbn [o_cells]; rewrite app_length, skipn_length; lia|]. apply shapes_refl.
    + intros x Hx1 Hx2. rewrite !lget_lset_other by congruence. reflexivity.
    + intros k0 Hk0. apply lget_lset_other. congruence.
  - change (0 =? 0) with true. cbv iota. rewrite exec_skip.
    do 3 eexists. split; [reflexivity|]. split; [exact Hwf|]. split.
    { constructor; try assumption. exists cells. auto. }
    split; [split; [exact Hfp|exists f; auto]|].
    split; [apply frame_refl|]. split; [apply shapes_refl|]. split; auto.
Qed.

(* the sub-range of the buffer a read hands out *)
Lemma buf_range : forall cells bs i n,
  firstn (List.length bs) cells = map Z.of_N bs -> (List.length bs <= List.length cells)%nat ->
  (n = 0 \/ i + n <= List.length bs)%nat ->
  firstn n (skipn i cells) = map Z.of_N (firstn n (skipn i bs)) /\ List.length (firstn n (skipn i bs)) = n.
Proof.
  intros cells bs i n Hc Hl [->|Hin]; [split; reflexivity|].
  split.
  - rewrite <- firstn_map, <- skipn_map, <- Hc.
    rewrite skipn_firstn_comm, firstn_firstn. rewrite Nat.min_l by lia. reflexivity.
  - rewrite firstn_length, skipn_length. lia.
Qed.

Lemma core_exec : forall fuel m l fs ps fr b o off,
  fb_wf hbuf b -> fb_mem hbuf b m -> fb_extra b = None -> (fb_now b < hbuf)%nat ->
  lget l "block" = Some (VPtr o off) -> is_prefix "buf." o = false ->
  room m o off 64 ->
  exists m' l',
    exec P vt (S (S (S (S (S (S (S fuel))))))) S_core (St m l fs ps fr) =
      Ok (Returned (Some (VInt (Z.of_nat (List.length (fst (read_core b)))))), St m' l' fs ps fr) /\
    fb_wf hbuf (snd (read_core b)) /\ fb_mem hbuf (snd (read_core b)) m' /\
    bytes_at m' o off (fst (read_core b)) /\ bytesb (fst (read_core b)) = true /\
    (List.length (fst (read_core b)) <= 64)%nat /\
    frame (fb_owned o) m m' /\ shapes m m'.
Proof.
  intros fuel m l fs ps fr b o off Hwf Hm Hex Hnow_lt Hblock Ho Hold.
  destruct Hm as [Hhb (cells & Hb & Hcells & Hbc) Hextra Hhas Htot Hnow Htail].
  destruct Hwf as [Wlen Wtot Wnow Wtail Wbb Wbr Wex].
  pose proof (div64_bounds (List.length (fb_b b))) as [D M].
  assert (Htle : (fb_total b <= hbuf)%nat) by (rewrite Wtot; clear - D Wlen; lia).
  assert (Htl64 : (fb_tail b < 64)%nat) by (clear - Wtail M D; lia).
  set (now := fb_now b) in *. set (total := fb_total b) in *. set (tail := fb_tail b) in *.
  set (ls := if (total <=? now)%nat then tail else 64%nat).
  set (tail' := if (now =? total)%nat then 0%nat else tail).
  assert (Hls64 : (ls <= 64)%nat) by (unfold ls; destruct (total <=? now)%nat; lia).
  assert (Hcase : (ls = 0 \/ 64 * now + ls <= List.length (fb_b b))%nat).
  { unfold ls. destruct (Nat.leb_spec total now) as [E|E].
    - destruct Wtail as [Wt|[Wt Wn]]; [left; exact Wt|right]. fold tail in Wt. fold now total in Wn. rewrite Wt.
      clear - E Wn Wtot D M. lia.
    - right. clear - E Wtot D. lia. }
  destruct (buf_range cells (fb_b b) (64 * now) ls Hbc ltac:(lia) Hcase) as [Hsrc Hblen].
  unfold read_core. cbv zeta. cbn [fst snd]. fold now total tail. fold ls tail'.
  set (blk := firstn ls (skipn (64 * now) (fb_b b))) in *.
  destruct Hold as (ob & Hob & Hoty & Hoff & Holen).
  assert (Hone : o <> "HBUF_SZ").
  { intros ->. rewrite Hhb in Hob. apply some_inj in Hob. subst ob. discriminate. }
  unfold S_core.
  (* load_size *)
  rewrite exec_seq, exec_set. rewrite (eval_ls m l fs ps fr now total tail Hnow Htot Htail ltac:(lia) Htle Htl64). fold ls.
  unfold with_loc. cbn [bind mem loc pre files ptrs fresh].
  set (l1 := lset l "load_size" (VInt (Z.of_nat ls))).
  (* if (now == total) tail = 0 *)
  rewrite exec_seq.
  assert (Htl : exists m1, exec P vt (S (S (S (S (S fuel))))) (SIf E_nt (SStore U8 (EField "tail") (ECast U8 (EConst 0))) SSkip) (St m l1 fs ps fr)
                  = Ok (Normal, St m1 l1 fs ps fr) /\
                  mget m1 "buf.tail" = Some (cell1 U8 (Z.of_nat tail')) /\ (forall k, k <> "buf.tail" -> mget m1 k = mget m k) /\ shapes m m1).
  { rewrite exec_if. rewrite (eval_nt m l1 fs ps fr now total Hnow Htot ltac:(lia) Htle). cbn [bind as_int].
    unfold tail'. destruct (Nat.eqb_spec now total) as [E|E].
    - change (1 =? 0) with false. cbv iota.
      rewrite (exec_store_cell1 _ _ U8 "tail" _ 0 (Z.of_nat tail)); [| reflexivity | exact Htail].
      unfold with_mem. cbn [mem loc pre files ptrs fresh append]. change (wrap U8 0) with 0.
      eexists. split; [reflexivity|]. split; [apply mget_mset_same|]. split.
      + intros k Hk. apply mget_mset_other. congruence.
      + eapply shapes_mset; [exact Htail|reflexivity|reflexivity].
    - change (0 =? 0) with true. cbv iota. rewrite exec_skip. exists m. split; [reflexivity|]. split; [exact Htail|].
      split; [reflexivity|apply shapes_refl]. }
  destruct Htl as (m1 & E1 & Htail1 & Hoth1 & Hsh1). rewrite E1. cbn [bind]. clear E1.
  (* $t2 = now *)
  rewrite exec_seq, exec_set.
  assert (Hnow1 : mget m1 "buf.now" = Some (cell1 U32 (Z.of_nat now))) by (rewrite Hoth1 by discriminate; exact Hnow).
  rewrite (eval_load_now m1 l1 fs ps fr now Hnow1 ltac:(lia)).
  unfold with_loc. cbn [bind mem loc pre files ptrs fresh].
  set (l2 := lset l1 "$t2" (VInt (Z.of_nat now))).
  (* now = now + 1 *)
  rewrite exec_seq.
  rewrite (exec_store_cell1 _ _ U32 "now" E_now1 (Z.of_nat (S now)) (Z.of_nat now));
    [| apply eval_now1; [exact Hnow1|lia] | exact Hnow1].
  unfold with_mem. cbn [bind mem loc pre files ptrs fresh append].
  rewrite wrap_U32_small by (clear - Hh1 Hh2 Hnow_lt; lia).
  set (m2 := mset m1 "buf.now" (cell1 U32 (Z.of_nat (S now)))).
  (* memcpy(block, b[now], load_size) *)
  rewrite exec_seq, exec_memcpy.
  assert (Hb2 : mget m2 "buf.b" = Some {| o_ty := U8; o_cells := cells |}).
  { unfold m2. mg. rewrite Hoth1 by discriminate. exact Hb. }
  assert (Hob2 : mget m2 o = Some ob).
  { unfold m2. mg. rewrite Hoth1 by nb. exact Hob. }
  assert (Ev1 : eval (St m2 l2 fs ps fr) (EVar "block") = Ok (VPtr o off)).
  { cbn [eval loc]. unfold l2, l1. rewrite !lget_lset_other by discriminate. rewrite Hblock. reflexivity. }
  assert (Ev2 : eval (St m2 l2 fs ps fr) E_src = Ok (VPtr "buf.b" (Z.of_nat (64 * now)))).
  { unfold E_src. cbn [eval bind loc pre append]. unfold l2. rewrite lget_lset_same. cbn [bind as_int].
    do 2 f_equal. lia. }
  assert (Ev3 : eval (St m2 l2 fs ps fr) (ECast U64 (EVar "load_size")) = Ok (VInt (Z.of_nat ls))).
  { cbn [eval bind loc]. unfold l2, l1. rewrite lget_lset_other by discriminate. rewrite lget_lset_same. cbn [bind as_int].
    rewrite wrap_U64_small by lia. reflexivity. }
  rewrite Ev1, Ev2, Ev3. cbn [bind as_int].
  rewrite (memcpy_u8 _ o off "buf.b" (Z.of_nat (64 * now)) (Z.of_nat ls) ob {| o_ty := U8; o_cells := cells |});
    cbn [mem o_ty o_cells]; try assumption; try reflexivity; try lia.
  rewrite !Nat2Z.id. rewrite Hsrc.
  unfold with_mem. cbn [bind mem loc pre files ptrs fresh].
  set (m3 := mset m2 o {| o_ty := U8; o_cells := upd_range (Z.to_nat off) (map Z.of_N blk) (o_cells ob) |}).
  (* return load_size *)
  rewrite exec_return.
  assert (Ev4 : eval (St m3 l2 fs ps fr) (EVar "load_size") = Ok (VInt (Z.of_nat ls))).
  { cbn [eval loc]. unfold l2, l1. rewrite lget_lset_other by discriminate. rewrite lget_lset_same. reflexivity. }
  rewrite Ev4. cbn [bind]. rewrite Hblen.
  exists m3, l2. split; [reflexivity|].
  assert (Hfit : (Z.to_nat off + List.length (map Z.of_N blk) <= List.length (o_cells ob))%nat) by (rewrite map_length, Hblen; lia).
  split; [|split; [|split; [|split; [|split; [|split]]]]].
  - constructor; cbn [fb_extra fb_b fb_total fb_now fb_tail fb_rest]; try assumption.
    + unfold tail'. destruct (Nat.eqb_spec now total) as [E|E]; [left; reflexivity|].
      destruct Wtail as [Wt|[Wt Wn]]; [left; exact Wt|right]. split; [exact Wt|]. fold now total in Wn. clear - Wn E. lia.
    + discriminate.
  - constructor; cbn [fb_extra fb_b fb_total fb_now fb_tail fb_rest]; unfold m3, m2; mg; rewrite ?Hoth1 by discriminate; try assumption.
    + exists cells. split; [|split; assumption]. mg. rewrite ?Hoth1 by discriminate. exact Hb.
    + destruct Hextra as (ec & Hec & Hecl & Hece). exists ec. split; [|split; [exact Hecl|discriminate]]. mg. rewrite ?Hoth1 by discriminate. exact Hec.
    + rewrite Hex in Hhas. exact Hhas.
    + reflexivity.
  - exists {| o_ty := U8; o_cells := upd_range (Z.to_nat off) (map Z.of_N blk) (o_cells ob) |}.
    split; [unfold m3; apply mget_mset_same|]. split; [reflexivity|]. split; [exact Hoff|]. cbn [o_cells]. split.
    + rewrite <- (map_length Z.of_N blk). apply upd_range_read. exact Hfit.
    + rewrite upd_range_length. rewrite map_length in Hfit. exact Hfit.
  - unfold blk. apply bytesb_firstn, bytesb_skipn, Wbb.
  - rewrite ?Hblen. exact Hls64.
  - intros k Hk. unfold fb_owned in Hk. apply orb_false_iff in Hk. destruct Hk as [Hk1 Hk2].
    apply String.eqb_neq in Hk2. unfold m3, m2. mg. apply Hoth1. nb.
  - apply (shapes_trans m m1 m3 Hsh1). apply (shapes_trans m1 m2 m3).
    + unfold m2. eapply shapes_mset; [exact Hnow1|reflexivity|reflexivity].
    + unfold m3. eapply shapes_mset; [exact Hob2|cbn [o_ty]; congruence|cbn [o_cells]; apply upd_range_length].
Qed.

Lemma refill_facts : forall b, fb_wf hbuf b -> fb_extra b = None ->
  fb_extra (refill hbuf b) = None /\ (fb_now (refill hbuf b) < hbuf)%nat.
Proof.
  intros b Hwf Hex. pose proof (wf_now _ _ Hwf) as Hn. unfold refill.
  destruct (Nat.eqb_spec (fb_now b) hbuf) as [E|E].
  - unfold fb_fill. cbn [fb_extra fb_now]. split; [reflexivity|clear - Hh1; lia].
  - split; [exact Hex|clear - Hn E; lia].
Qed.

(* read_buffer64(block): copies what the model's fb_read returns into the destination, returns its length *)
Lemma fb_read_core : forall fuel s b o off,
  (16 <= fuel)%nat -> fb_wf hbuf b -> fb_rep fpn hbuf b s ->
  is_prefix "buf." o = false -> room (mem s) o off 64 ->
  exists s',
    call P vt fuel "filebuffer64::read_buffer64/2" "buf." [VPtr o off] s =
      Ok (Some (VInt (Z.of_nat (List.length (fst (fb_read hbuf b))))), s') /\
    fb_wf hbuf (snd (fb_read hbuf b)) /\ fb_rep fpn hbuf (snd (fb_read hbuf b)) s' /\
    bytes_at (mem s') o off (fst (fb_read hbuf b)) /\ bytesb (fst (fb_read hbuf b)) = true /\
    (List.length (fst (fb_read hbuf b)) <= 64)%nat /\
    frame (fb_owned o) (mem s) (mem s') /\ shapes (mem s) (mem s') /\
    loc s' = loc s /\ pre s' = pre s /\ fresh s' = fresh s /\ ptrs s' = ptrs s /\
    (forall k, k <> fpn -> lget (files s') k = lget (files s) k).
Proof.
  intros fuel s b o off Hfuel Hwf [Hm Hio] Ho Hold.
  unfold call. fold P. unfold P at 1. rewrite prog_fb_read.
  cbn [f_params f_body Src_hashbuffer.f_filebuffer64_read_buffer64_2 bind_params bind].
  set (m := mem s) in *. set (fs := files s) in *. set (ps := ptrs s) in *. set (fr := fresh s).
  set (l := [("block", VPtr o off)]).
  do 16 (destruct fuel as [|fuel]; [lia|]).
  rewrite exec_seq, exec_if.
  pose proof (fm_has _ _ _ Hm) as Hhas.
  assert (Ehas : eval (St m l fs ps fr) (ELoad TBool (EField "has_extra")) = Ok (VInt (if fb_extra b then 1 else 0))).
  { cbn [eval bind pre append mem]. rewrite Hhas. cbn [bind]. rewrite load_cell1. destruct (fb_extra b); reflexivity. }
  rewrite Ehas. cbn [bind as_int].
  destruct (fb_extra b) as [e|] eqn:Hex.
  - (* the prepended block *)
    change (1 =? 0) with false. cbv iota.
    destruct (wf_extra _ _ Hwf e Hex) as [He64 Heb].
    destruct (fm_extra _ _ _ Hm) as (ec & Hec & Hecl & Hece). specialize (Hece e Hex). subst ec.
    destruct Hold as (ob & Hob & Hoty & Hoff & Holen).
    rewrite exec_seq.
    rewrite (exec_store_cell1 _ _ TBool "has_extra" (EConst 0) 0 1); [| reflexivity | exact Hhas].
    unfold with_mem. cbn [bind mem loc pre files ptrs fresh append]. change (wrap TBool 0) with 0.
    set (m1 := mset m "buf.has_extra" (cell1 TBool 0)).
    rewrite exec_seq, exec_memcpy.
    cbn [eval bind loc pre lget String.eqb Ascii.eqb Bool.eqb as_int append l]. change (wrap U64 64) with 64.
    rewrite (memcpy_u8 _ o off "buf.extra_entry" 0 64 ob {| o_ty := U8; o_cells := map Z.of_N e |});
      cbn [mem o_ty o_cells]; try assumption; try reflexivity; try lia;
      [| unfold m1; mg; exact Hob | unfold m1; mg; exact Hec].
    unfold with_mem. cbn [bind mem loc pre files ptrs fresh].
    change (Z.to_nat 0) with 0%nat. change (Z.to_nat 64) with 64%nat. cbn [skipn].
    rewrite (firstn_all2 (n := 64) (map Z.of_N e)) by lia.
    rewrite exec_return. cbn [eval bind]. change (wrap U32 64) with 64.
    assert (Hfr : fb_read hbuf b = (e, {| fb_extra := None; fb_b := fb_b b; fb_total := fb_total b; fb_now := fb_now b;
                                          fb_tail := fb_tail b; fb_rest := fb_rest b |})).
    { unfold fb_read. rewrite Hex. reflexivity. }
    rewrite Hfr. cbn [fst snd]. rewrite He64.
    set (m2 := mset m1 o {| o_ty := U8; o_cells := upd_range (Z.to_nat off) (map Z.of_N e) (o_cells ob) |}).
    assert (Hfit : (Z.to_nat off + List.length (map Z.of_N e) <= List.length (o_cells ob))%nat) by (rewrite map_length; lia).
    eexists. split; [reflexivity|]. unfold fb_rep. cbn [mem loc pre files ptrs fresh].
    split; [|split; [split|split; [|split; [|split; [|split; [|split]]]]]].
    + destruct Hwf as [Wlen Wtot Wnow Wtail Wbb Wbr Wex].
      constructor; cbn [fb_extra fb_b fb_total fb_now fb_tail fb_rest]; try assumption. discriminate.
    + destruct Hm as [Hhb (cells & Hb & Hcells & Hbc) _ _ Htot Hnow Htail].
      assert (Hone : o <> "HBUF_SZ").
      { intros ->. rewrite Hhb in Hob. apply some_inj in Hob. subst ob. discriminate. }
      constructor; cbn [fb_extra fb_b fb_total fb_now fb_tail fb_rest]; unfold m2, m1; mg; try assumption.
      * exists cells. split; [|split; assumption]. mg. exact Hb.
      * exists (map Z.of_N e). split; [|split; [rewrite map_length; exact He64|discriminate]]. mg. exact Hec.
      * reflexivity.
    + exact Hio.
    + exists {| o_ty := U8; o_cells := upd_range (Z.to_nat off) (map Z.of_N e) (o_cells ob) |}.
      split; [unfold m2; apply mget_mset_same|]. split; [reflexivity|]. split; [exact Hoff|]. cbn [o_cells]. split.
      * rewrite <- (map_length Z.of_N e). apply upd_range_read. exact Hfit.
      * rewrite upd_range_length. rewrite map_length in Hfit. exact Hfit.
    + exact Heb.
    + lia.
    + intros k Hk. unfold fb_owned in Hk. apply orb_false_iff in Hk. destruct Hk as [Hk1 Hk2].
      apply String.eqb_neq in Hk2. unfold m2, m1. mg. reflexivity.
    + apply (shapes_trans m m1 m2).
      * unfold m1. eapply shapes_mset; [exact Hhas|reflexivity|reflexivity].
      * unfold m2. eapply shapes_mset; [unfold m1; mg; exact Hob|cbn [o_ty]; congruence|cbn [o_cells]; apply upd_range_length].
    + repeat split; reflexivity.
  - (* from the buffer *)
    change (0 =? 0) with true. cbv iota. rewrite exec_skip. cbn [bind].
    rewrite exec_seq.
    change (exec P vt (S (S (S (S (S (S (S (S (S (S (S (S (S (S fuel)))))))))))))) _ (St m l fs ps fr))
      with (exec P vt (S (S (S (S (S (S (S (S (S (S (S (S (S (S fuel)))))))))))))) S_refill (St m l fs ps fr)).
    destruct (refill_exec (S (S (S (S (S (S (S fuel))))))) m l fs ps fr b Hwf Hm Hio Hex)
      as (m1 & l1 & fs1 & E1 & Hwf1 & Hm1 & Hio1 & Hfr1 & Hsh1 & Hl1 & Hfs1).
    rewrite E1. cbn [bind]. clear E1.
    destruct (refill_facts b Hwf Hex) as [Hex1 Hnow1].
    destruct (core_exec (S (S (S (S (S (S (S fuel))))))) m1 l1 fs1 ps fr (refill hbuf b) o off Hwf1 Hm1) as
      (m2 & l2 & E2 & Hwf2 & Hm2 & Hby2 & Hbb2 & Hlen2 & Hfr2 & Hsh2); try assumption.
    { rewrite Hl1 by discriminate. reflexivity. }
    { apply (room_frame (is_prefix "buf.") m); assumption. }
    change (exec P vt (S (S (S (S (S (S (S (S (S (S (S (S (S (S fuel)))))))))))))) _ (St m1 l1 fs1 ps fr))
      with (exec P vt (S (S (S (S (S (S (S (S (S (S (S (S (S (S fuel)))))))))))))) S_core (St m1 l1 fs1 ps fr)).
    rewrite E2. cbn [bind]. clear E2.
    rewrite (fb_read_core hbuf b Hex).
    eexists. split; [reflexivity|]. unfold fb_rep. cbn [mem loc pre files ptrs fresh].
    split; [exact Hwf2|]. split; [split; [exact Hm2|]|].
    { destruct Hio1 as (Hp1 & f1 & Hf1 & Hr1). split; [exact Hp1|]. exists f1. split; [exact Hf1|].
      rewrite Hr1. unfold read_core. reflexivity. }
    split; [exact Hby2|]. split; [exact Hbb2|]. split; [exact Hlen2|].
    split.
    { intros k Hk. rewrite (Hfr2 k Hk). apply Hfr1. unfold fb_owned in Hk. apply orb_false_iff in Hk. apply Hk. }
    split; [apply (shapes_trans m m1 m2); assumption|].
    repeat split; try reflexivity. exact Hfs1.
Qed.
Lemma fb_read_refines : forall fuel s b o off,
  (16 <= fuel)%nat -> fb_wf hbuf b -> fb_rep fpn hbuf b s ->
  is_prefix "buf." o = false -> room (mem s) o off 64 ->
  exists s',
    call P vt fuel "filebuffer64::read_buffer64/2" "buf." [VPtr o off] s =
      Ok (Some (VInt (Z.of_nat (List.length (fst (fb_read hbuf b))))), s') /\
    fb_wf hbuf (snd (fb_read hbuf b)) /\ fb_rep fpn hbuf (snd (fb_read hbuf b)) s' /\
    bytes_at (mem s') o off (fst (fb_read hbuf b)) /\ bytesb (fst (fb_read hbuf b)) = true /\
    (List.length (fst (fb_read hbuf b)) <= 64)%nat /\
    frame (fb_owned o) (mem s) (mem s') /\ heap_kept_but o s s' /\ shapes (mem s) (mem s') /\
    loc s' = loc s /\ pre s' = pre s /\ fresh s' = fresh s /\ ptrs s' = ptrs s /\
    (forall k, k <> fpn -> lget (files s') k = lget (files s) k).
Proof.
  intros fuel s b o off Hfuel Hwf Hrep Ho Hroom.
  destruct (fb_read_core fuel s b o off Hfuel Hwf Hrep Ho Hroom)
    as (s' & Ec & Hwf' & Hrep' & Hby & Hbb & Hlen & Hfr & Hshp & Hrest).
  exists s'. split; [exact Ec|]. split; [exact Hwf'|]. split; [exact Hrep'|]. split; [exact Hby|]. split; [exact Hbb|].
  split; [exact Hlen|]. split; [exact Hfr|]. split; [apply frame_fb_heap, Hfr|]. split; [exact Hshp|exact Hrest].
Qed.
End FileBuffer.

(* ------------------------------------------------------------------------------------ *)
(** * 8. Hashmaster::getFileHash                                                         *)
(* ------------------------------------------------------------------------------------ *)
(* everything getFileHash may change: the hasher's own objects, the buffer's, and hashblock *)
Definition file_owned (k : string) : bool := hash_owned k || is_prefix "buf." k || String.eqb k "hashblock".

Lemma fb_mem_frame : forall hbuf b m m', fb_mem hbuf b m -> frame hash_owned m m' -> fb_mem hbuf b m'.
Proof.
  intros hbuf b m m' [Hhb (cells & Hb & Hc) (ec & Hec & He) Hhas Htot Hnow Htail] Hf.
  constructor.
  - rewrite (Hf "HBUF_SZ" eq_refl). exact Hhb.
  - exists cells. rewrite (Hf "buf.b" eq_refl). auto.
  - exists ec. rewrite (Hf "buf.extra_entry" eq_refl). auto.
  - rewrite (Hf "buf.has_extra" eq_refl). exact Hhas.
  - rewrite (Hf "buf.total" eq_refl). exact Htot.
  - rewrite (Hf "buf.now" eq_refl). exact Hnow.
  - rewrite (Hf "buf.tail" eq_refl). exact Htail.
Qed.

Section FileDriver.
Variable cls : string.
Variable a : halg.
Variable objs : list (string * ity * Z).
Variable globs : memory.
Variable vt : list (string * string).
Variable F : nat.
Hypothesis H : class_spec cls a objs globs vt F.
Variable fpn : string.                      (* name of the stream the buffer reads *)
Variable hbuf : nat.
Hypothesis Hh1 : (1 <= hbuf)%nat.
Hypothesis Hh2 : Z.of_nat (64 * hbuf) < 2 ^ 32.
(* the buffer object "buf." is a filebuffer64 *)
Hypothesis Hvtb : lget vt "buf." = Some "filebuffer64".
(* the class has the 64-byte member hashblock of Hashmaster, and no constant table is called hashblock or buf.* *)
Hypothesis Hblock : In ("hashblock", U8, 64) objs.
Hypothesis Hglobs : forall k o, mget globs k = Some o -> is_prefix "buf." k = false /\ k <> "hashblock".

Let hok := hasher_ok a objs globs.
Let P := hash_prog.

Lemma hok_room : forall st m, hok st m -> room m "hashblock" 0 64.
Proof.
  intros st m (_ & Hsc & _). destruct (Hsc _ _ _ Hblock) as (ob & Hget & Hty & Hlen).
  exists ob. split; [exact Hget|]. split; [exact Hty|]. split; [lia|]. change (Z.to_nat 0) with 0%nat. lia.
Qed.

(* a read into hashblock leaves the hasher alone *)
Lemma hok_read : forall st m m', hok st m -> frame (fb_owned "hashblock") m m' -> shapes m m' -> hok st m'.
Proof.
  intros st m m' ((Hh & Ht) & Hsc & Hgl & Hrest) Hf Hsh. split; [split|split; [|split]].
  - rewrite (Hf "h" eq_refl). exact Hh.
  - rewrite (Hf "totalsize" eq_refl). exact Ht.
  - intros name t n Hin. destruct (Hsc name t n Hin) as (ob & Hget & Hty & Hlen).
    destruct (Hsh name ob Hget) as (ob' & Hget' & Hty' & Hlen'). exists ob'. split; [exact Hget'|].
    split; [congruence|]. rewrite Hlen'. exact Hlen.
  - intros k o Hk. destruct (Hglobs k o Hk) as [Hk1 Hk2]. rewrite Hf; [apply Hgl, Hk|].
    unfold fb_owned. rewrite Hk1. cbn [orb]. apply String.eqb_neq, Hk2.
  - exact Hrest.
Qed.

Definition B_file : stmt :=
  SSeq (SCallVirt (Some "$t1") "read_buffer64/2" (Some (EVar "buffer")) [EField "hashblock"])
  (SSeq (SSet "sum" (ECast U64 (EVar "$t1")))
  (SSeq (SIf (EBin TBool Ne (EVar "sum") (ECast U64 (EConst 64)))
             (SSeq (SCallVirt None "getHash/2" None [EField "hashblock"; ECast U32 (EVar "sum")]) SBreak) SSkip)
        (SCallVirt None "getHash/1" None [EField "hashblock"]))).

(* what one iteration / the loop preserves *)
Definition file_step (s s' : state) : Prop :=
  pre s' = pre s /\ (forall x, x <> "$t1" -> x <> "sum" -> lget (loc s') x = lget (loc s) x) /\
  frame file_owned (mem s) (mem s') /\ heap_kept s s' /\ ptrs s' = ptrs s /\ (fresh s <= fresh s')%nat /\
  (forall k, k <> fpn -> lget (files s') k = lget (files s) k).

Lemma file_step_trans : forall s1 s2 s3, file_step s1 s2 -> file_step s2 s3 -> file_step s1 s3.
Proof.
  intros s1 s2 s3 (A1 & A2 & A3 & Ah & A4 & A5 & A6) (B1 & B2 & B3 & Bh & B4 & B5 & B6).
  split; [congruence|]. split; [intros x Hx1 Hx2; rewrite B2, A2 by assumption; reflexivity|].
  split; [eapply frame_trans; eassumption|]. split; [eapply heap_kept_trans; eassumption|].
  split; [congruence|]. split; [lia|].
  intros k Hk. rewrite B6, A6 by assumption. reflexivity.
Qed.

Lemma file_owned_hash : forall m m', frame hash_owned m m' -> frame file_owned m m'.
Proof.
  intros m m' Hf k Hk. apply Hf. unfold file_owned in Hk. apply orb_false_iff in Hk. destruct Hk as [Hk _].
  apply orb_false_iff in Hk. apply Hk.
Qed.
Lemma file_owned_fb : forall m m', frame (fb_owned "hashblock") m m' -> frame file_owned m m'.
Proof.
  intros m m' Hf k Hk. apply Hf. unfold file_owned in Hk. apply orb_false_iff in Hk. destruct Hk as [Hk Hk2].
  apply orb_false_iff in Hk. destruct Hk as [_ Hk1]. unfold fb_owned. rewrite Hk1, Hk2. reflexivity.
Qed.
Lemma file_owned_hash_owned : forall k, file_owned k = false -> hash_owned k = false.
Proof. intros k Hk. unfold file_owned in Hk. apply orb_false_iff in Hk. destruct Hk as [Hk _]. apply orb_false_iff in Hk. apply Hk. Qed.

(* a hasher method call as a step *)
Lemma file_step_upd : forall s m' fr', kept (fresh s) (mem s) m' -> (fresh s <= fr')%nat -> file_step s (upd s m' fr').
Proof.
  intros s m' fr' Hk Hfr. unfold file_step, upd. cbn [pre loc mem ptrs fresh files].
  split; [reflexivity|]. split; [reflexivity|]. split; [apply file_owned_hash, (kept_frame _ _ _ Hk)|].
  split; [intros n Hn; cbn [mem]; apply (kept_heap _ _ _ _ Hk Hn)|]. auto.
Qed.

Lemma file_iter : forall fuel s st b,
  (F + 20 <= fuel)%nat -> pre s = "" -> lget (loc s) "buffer" = Some (VPtr "buf." 0) ->
  fb_wf hbuf b -> fb_rep fpn hbuf b s -> hok st (mem s) ->
  exists s',
    exec P vt fuel B_file s =
      Ok ((if (List.length (fst (fb_read hbuf b)) =? 64)%nat then Normal else Broke), s') /\
    file_step s s' /\ fb_wf hbuf (snd (fb_read hbuf b)) /\ fb_rep fpn hbuf (snd (fb_read hbuf b)) s' /\
    hok (if (List.length (fst (fb_read hbuf b)) =? 64)%nat then getHash_block a st (fst (fb_read hbuf b))
         else getHash_final a st (fst (fb_read hbuf b))) (mem s').
Proof.
  intros fuel s st b Hfuel Hpre Hbuf Hwf Hrep Hok. unfold P.
  do 6 (destruct fuel as [|fuel]; [lia|]).
  destruct (fb_read_refines vt fpn hbuf Hh1 Hh2 (S (S (S (S fuel)))) s b "hashblock" 0 ltac:(lia) Hwf Hrep eq_refl (hok_room _ _ Hok))
    as (s1 & Ecall & Hwf1 & Hrep1 & Hby1 & Hbb1 & Hlen1 & Hfr1 & Hhk1 & Hsh1 & Hloc1 & Hpre1 & Hfresh1 & Hptrs1 & Hfiles1).
  set (blk := fst (fb_read hbuf b)) in *. set (b' := snd (fb_read hbuf b)) in *.
  set (n := Z.of_nat (List.length blk)) in *.
  assert (Hok1 : hok st (mem s1)) by (eapply hok_read; eassumption).
  unfold B_file.
  (* sum = buffer->read_buffer64(hashblock) *)
  set (s2 := with_loc s1 (lset (loc s1) "$t1" (VInt n))).
  assert (E1 : exec hash_prog vt (S (S (S (S (S fuel))))) (SCallVirt (Some "$t1") "read_buffer64/2" (Some (EVar "buffer")) [EField "hashblock"]) s
               = Ok (Normal, s2)).
  { eapply exec_callvirt with (vs := [VPtr "hashblock" 0]) (pfx := "buf.") (cls := "filebuffer64") (rv := Some (VInt n)) (s' := s1).
    - cbn [eval_list eval bind]. rewrite Hpre. reflexivity.
    - cbn [this_prefix eval bind]. rewrite Hbuf. reflexivity.
    - exact Hvtb.
    - exact Ecall.
    - reflexivity. }
  rewrite exec_seq, E1. cbn [bind]. clear E1.
  set (s3 := with_loc s2 (lset (loc s2) "sum" (VInt n))).
  assert (Hn : 0 <= n <= 64) by (unfold n; lia).
  rewrite exec_seq, exec_set.
  assert (Ev : eval s2 (ECast U64 (EVar "$t1")) = Ok (VInt n)).
  { cbn [eval bind]. unfold s2, with_loc. cbn [loc]. rewrite lget_lset_same. cbn [bind as_int].
    rewrite wrap_U64_small by lia. reflexivity. }
  rewrite Ev. cbn [bind]. fold s3. clear Ev.
  assert (Hpre3 : pre s3 = "") by (unfold s3, s2, with_loc; cbn [pre]; congruence).
  assert (Hmem3 : mem s3 = mem s1) by reflexivity.
  assert (Hfresh3 : fresh s3 = fresh s) by exact Hfresh1.
  assert (Hsum3 : lget (loc s3) "sum" = Some (VInt n)) by (unfold s3, with_loc; cbn [loc]; apply lget_lset_same).
  assert (Hstep13 : file_step s s3).
  { unfold file_step, s3, s2, with_loc. cbn [pre loc mem ptrs fresh files].
    split; [congruence|]. split; [intros x Hx1 Hx2; rewrite !lget_lset_other by congruence; congruence|].
    split; [apply file_owned_fb, Hfr1|].
    split; [apply (heap_kept_but_kept "hashblock" s s1); [intro k; apply not_owned_not_heap; reflexivity|exact Hhk1]|].
    split; [exact Hptrs1|]. split; [lia|exact Hfiles1]. }
  assert (Ehb : eval s3 (EField "hashblock") = Ok (VPtr "hashblock" 0)) by (cbn [eval]; rewrite Hpre3; reflexivity).
  assert (Hrep3 : fb_rep fpn hbuf b' s3) by exact Hrep1.
  assert (Hpass : passable s3 "hashblock") by (left; reflexivity).
  rewrite exec_seq, exec_if.
  assert (Ec : eval s3 (EBin TBool Ne (EVar "sum") (ECast U64 (EConst 64))) = Ok (VInt (if n =? 64 then 0 else 1))).
  { cbn [eval bind]. rewrite Hsum3. reflexivity. }
  rewrite Ec. cbn [bind as_int]. clear Ec.
  destruct (Nat.eqb_spec (List.length blk) 64) as [E64|E64].
  - (* a full block *)
    assert (En : n = 64) by (unfold n; lia). rewrite En. change (64 =? 64) with true. cbv iota.
    change (0 =? 0) with true. cbv iota. rewrite exec_skip. cbn [bind].
    destruct (vcall_block cls a objs globs vt F H (S (S fuel)) s3 st (EField "hashblock") "hashblock" 0 blk ltac:(lia) Hpre3)
      as (m' & fr' & Eb & Hok' & Hf' & Hfr'); try assumption; try reflexivity; try (rewrite Hmem3; assumption).
    rewrite Eb. eexists. split; [reflexivity|].
    split; [|split; [exact Hwf1|split; [|exact Hok']]].
    + eapply file_step_trans; [exact Hstep13|]. apply file_step_upd; assumption.
    + destruct Hrep3 as [Hm3 Hio3]. split; [eapply fb_mem_frame; [exact Hm3|exact (kept_frame _ _ _ Hf')]|exact Hio3].
  - (* the final partial block *)
    assert (En : n <> 64) by (unfold n; lia).
    destruct (Z.eqb_spec n 64) as [|_]; [contradiction|].
    change (1 =? 0) with false. cbv iota.
    destruct (vcall_final cls a objs globs vt F H fuel s3 st (EField "hashblock") (ECast U32 (EVar "sum")) "hashblock" 0 blk ltac:(lia) Hpre3)
      as (m' & fr' & Eb & Hok' & Hf' & Hfr'); try assumption; try reflexivity; try (rewrite Hmem3; assumption).
    { cbn [eval bind]. rewrite Hsum3. cbn [bind as_int]. rewrite wrap_U32_small by lia. reflexivity. }
    { lia. }
    rewrite exec_seq, Eb. cbn [bind].
    change (exec hash_prog vt (S fuel) SBreak (upd s3 m' fr')) with (Ok (Broke, upd s3 m' fr') : res (outcome * state)).
    cbn [bind]. eexists. split; [reflexivity|].
    split; [|split; [exact Hwf1|split; [|exact Hok']]].
    + eapply file_step_trans; [exact Hstep13|]. apply file_step_upd; assumption.
    + destruct Hrep3 as [Hm3 Hio3]. split; [eapply fb_mem_frame; [exact Hm3|exact (kept_frame _ _ _ Hf')]|exact Hio3].
Qed.

Lemma file_step_refl : forall s, file_step s s.
Proof. intro s. unfold file_step. repeat split; try reflexivity; try apply frame_refl; try apply heap_kept_refl; try lia. Qed.

(* the while(true) loop follows the model's file_loop; n is the model's fuel *)
Lemma file_loop_refines : forall n st b s st',
  file_loop hbuf a n st b = Some st' ->
  pre s = "" -> lget (loc s) "buffer" = Some (VPtr "buf." 0) ->
  fb_wf hbuf b -> fb_rep fpn hbuf b s -> hok st (mem s) ->
  exists s', exec P vt (S (F + 20 + n)) (SLoop (EConst 1) B_file SSkip) s = Ok (Normal, s') /\
             file_step s s' /\ hok st' (mem s').
Proof.
  induction n as [|n IH]; intros st b s st' Hfl Hpre Hbuf Hwf Hrep Hok; [discriminate|].
  cbn [file_loop] in Hfl.
  destruct (file_iter (F + 20 + S n) s st b ltac:(lia) Hpre Hbuf Hwf Hrep Hok) as (s1 & E1 & Hstep1 & Hwf1 & Hrep1 & Hok1).
  destruct (fb_read hbuf b) as [blk b'] eqn:Hrd. cbn [fst snd] in *.
  rewrite exec_loop. cbn [eval bind as_int]. change (1 =? 0) with false. cbv iota.
  rewrite E1. cbn [bind].
  destruct (Nat.eqb_spec (List.length blk) 64) as [E64|E64].
  - replace (F + 20 + S n)%nat with (S (F + 20 + n)) by lia. rewrite exec_skip. cbn [bind].
    pose proof Hstep1 as (A1 & A2 & _).
    destruct (IH _ b' s1 st' Hfl) as (s2 & E2 & Hstep2 & Hok2); try assumption.
    + congruence.
    + rewrite A2 by discriminate. exact Hbuf.
    + exists s2. split; [exact E2|]. split; [|exact Hok2].
      eapply file_step_trans; [exact Hstep1|exact Hstep2].
  - apply some_inj in Hfl. subst st'. exists s1. auto.
Qed.

(* Hashmaster::getFileHash(buffer, hashres): n is the fuel of the model's file_loop;
   the output object may be a static object or a heap object older than the call *)
Lemma getFileHash_refines : forall s st0 fuel b n st' oo ooff old,
  (F + n + 23 <= fuel)%nat -> pre s = "" -> hok st0 (mem s) ->
  fb_wf hbuf b -> fb_rep fpn hbuf b s ->
  file_loop hbuf a n (reset a) b = Some st' ->
  (file_owned oo = false \/ old_heap s oo) -> bytes_at (mem s) oo ooff old -> List.length old = ha_hlen a ->
  exists s',
    call P vt fuel "Hashmaster::getFileHash/3" "" [VPtr "buf." 0; VPtr oo ooff] s = Ok (None, s') /\
    hok st' (mem s') /\ bytes_at (mem s') oo ooff (ha_out a (hs_h st')) /\
    (forall k, file_owned k = false -> k <> oo -> mget (mem s') k = mget (mem s) k) /\
    heap_kept_but oo s s' /\
    out_kept (mem s) (mem s') oo ooff (ha_hlen a) /\
    loc s' = loc s /\ pre s' = pre s /\ ptrs s' = ptrs s /\ (fresh s <= fresh s')%nat /\
    (forall k, k <> fpn -> lget (files s') k = lget (files s) k).
Proof.
  intros s st0 fuel b n st' oo ooff old Hfuel Hpre Hok0 Hwf Hrep Hfl Hoo Hout Hold.
  unfold call. fold P. unfold P at 1. rewrite prog_getFileHash.
  cbn [f_params f_body Src_hashmaster.f_Hashmaster_getFileHash_3 bind_params bind].
  set (s0 := {| mem := mem s; loc := [("buffer", VPtr "buf." 0); ("hashres", VPtr oo ooff)];
                pre := ""; files := files s; ptrs := ptrs s; fresh := fresh s |}).
  do 3 (destruct fuel as [|fuel]; [lia|]).
  (* reset *)
  unfold P.
  destruct (vcall_reset cls a objs globs vt F H (S fuel) s0 st0 ltac:(lia) eq_refl Hok0) as (m1 & fr1 & E1 & Hok1 & Hf1 & Hfr1).
  rewrite exec_seq, E1. cbn [bind]. clear E1.
  cbn [fresh mem s0] in Hf1, Hfr1.
  (* the loop *)
  rewrite exec_seq.
  destruct (file_loop_refines n (reset a) b (upd s0 m1 fr1) st' Hfl eq_refl eq_refl Hwf) as (s2 & E2 & Hstep2 & Hok2).
  { destruct Hrep as [Hm Hio]. split; [eapply fb_mem_frame; [exact Hm|exact (kept_frame _ _ _ Hf1)]|exact Hio]. }
  { exact Hok1. }
  change (exec hash_prog vt (S fuel) _ (upd s0 m1 fr1)) with (exec hash_prog vt (S fuel) (SLoop (EConst 1) B_file SSkip) (upd s0 m1 fr1)).
  unfold P in E2. rewrite (exec_mono _ _ _ _ _ _ E2 (S fuel) ltac:(lia)). cbn [bind]. clear E2.
  destruct Hstep2 as (A1 & A2 & A3 & Ah & A4 & A5 & A6). cbn [upd pre loc mem ptrs fresh files s0] in A1, A2, A3, A4, A5, A6.
  (* what is unchanged so far *)
  assert (Hsame : forall k, file_owned k = false \/ old_heap s k -> mget (mem s2) k = mget (mem s) k).
  { intros k [Hk|(i & Hi & ->)].
    - rewrite (A3 k Hk). apply Hf1. left. apply file_owned_hash_owned, Hk.
    - rewrite (Ah i); [|cbn [fresh upd]; lia]. cbn [mem upd]. apply (kept_heap _ _ _ _ Hf1 Hi). }
  (* getres *)
  destruct (vcall_getres cls a objs globs vt F H fuel s2 st' (EVar "hashres") oo ooff old ltac:(lia) A1 Hok2)
    as (m3 & fr3 & E3 & Hby3 & Hok3 & Hoth3 & Hkept3 & Hfr3); try assumption.
  { cbn [eval]. rewrite A2 by discriminate. reflexivity. }
  { destruct Hoo as [Hk|(i & Hi & ->)]; [left; apply file_owned_hash_owned, Hk|right; exists i; split; [lia|reflexivity]]. }
  { destruct Hout as (ob & Hget & Hrest). exists ob. split; [|exact Hrest]. rewrite (Hsame oo Hoo). exact Hget. }
  rewrite E3. cbn [bind upd mem loc pre files ptrs fresh].
  eexists. split; [reflexivity|]. unfold heap_kept_but. cbn [mem loc pre files ptrs fresh].
  split; [exact Hok3|]. split; [exact Hby3|]. split; [|split; [|split]].
  - intros k Hk Hne. rewrite (Hoth3 k Hne). apply Hsame. left. exact Hk.
  - intros i Hi Hne. rewrite (Hoth3 _ Hne). apply Hsame. right. exists i. auto.
  - intros ob ob' Hg Hg'. apply Hkept3; [|exact Hg']. rewrite (Hsame oo Hoo). exact Hg.
  - repeat split; try reflexivity; try assumption.
    clear - Hfr1 A5 Hfr3. lia.
Qed.
End FileDriver.
