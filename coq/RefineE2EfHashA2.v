(* (A) of PARALLEL2, part 2: runcrypt::prepare_IV(r_buf) in the whole-program world on the memory of the constructors WITHOUT "#0" and
   "sizeof:iobuffer.b" (every remaining name is a name of the simulation RefineE2EfXSim, whose class of ordinary names contains
   "seed", "st.ctype", ...; the two names left out come back through RefineE2EfHashMono.call_more in part 3). *)
From Coq Require Import ZArith NArith List String Bool Lia PeanoNat Ascii.
From Wencry Require Import Bytes HashModel HashProofs HmacProofs FileModel FileProps MiniC MiniCRun MiniCLemmas SrcRun SrcRun2 SrcRun5
     RefineHashDefs RefineHashDriver RefineSha1 RefineHash RefineFileBase RefineFileHmac RefineFileHmac2 RefineFileHmac3 RefineFileVerify RefineFileHeader
     RefineE2EFrame RefineE2EWhole RefineE2EBridge.
From Wencry Require Import RefineE2EfEncDefs RefineE2EfHashSpec RefineE2EfHashB2 RefineE2EfHashA1.
From Wencry Require Import RefineE2EfXNames RefineE2EfXRel RefineE2EfXEval RefineE2EfXAlloc RefineE2EfXSim.
From Wencry.Gen Require Layout Src_sha1 Src_fheader Src_cry.
Import ListNotations.
Local Open Scope list_scope.
Local Open Scope string_scope.
Local Open Scope Z_scope.

(* ---------------- the world with nothing planned (over RefineE2EfXNames) ---------------- *)
Definition XWf (f : nat) : world := {| wa := None; wb := None; wf := f |}.
Lemma tau_XWf : forall f k, tau (XWf f) k = k.
Proof.
  intros f k. unfold tau. destruct k as [|ch k]; [reflexivity|]. unfold hp, bp. cbn [wa wb XWf].
  destruct (inb (String ch k) RefineE2EfXNames.five); [reflexivity|].
  destruct (strip "buf." (String ch k)) as [r|] eqn:E1; [symmetry; apply strip_Some, E1|].
  destruct (strip "class:" (String ch k)) as [r|] eqn:E2; [|reflexivity].
  apply strip_Some in E2. rewrite E2. f_equal. unfold t1, hp, bp. cbn [wa wb XWf].
  destruct (String.eqb_spec r "") as [->|]; [reflexivity|]. destruct (String.eqb_spec r "buf.") as [->|]; reflexivity.
Qed.
Lemma rv_XWf : forall f v, rv (XWf f) v = v.
Proof. intros f [z|o off|]; cbn [rv]; [reflexivity| |reflexivity]. now rewrite tau_XWf. Qed.
Lemma lmap_XWf : forall f l, lmap (XWf f) l = l.
Proof. intros f. induction l as [|[k v] r IH]; [reflexivity|]. unfold lmap in *. cbn [map fst snd]. now rewrite rv_XWf, IH. Qed.
Lemma map_rv_XWf : forall f vs, map (rv (XWf f)) vs = vs.
Proof. intros f. induction vs as [|v vs IH]; [reflexivity|]. cbn [map]. now rewrite rv_XWf, IH. Qed.
Lemma wf_XWf : forall f, wfW (XWf f).
Proof. intro f. unfold wfW, XWf. cbn. repeat split; intros; discriminate. Qed.

(* call_sim, keeping the relation between the final states (as RefineE2EfHashB1.call_simR, over RefineE2EfXSim) *)
Section SimR.
Variable prog prog' : program.
Variable cls0 : string.
Variable E : list string.
Variable OKL UL : list string.
Hypothesis HE : forall e, In e E -> exists r, e = "sizeof:" ++ r.
Hypothesis Hcls0 : In cls0 hashcls.
Hypothesis HOK : forall g, In g OKL -> exists fn, lget prog g = Some fn /\ lget prog' g = Some fn /\ oks prog E OKL UL (inb g UL) (f_body fn) = true.

Lemma call_simRX : forall fuel g pfx vs s S W v s',
  In g OKL -> preok W pfx -> (pfx = "" -> inb g UL = true) -> Forall (gv W) vs -> Rel cls0 E W s S ->
  call prog (vt0 cls0) fuel g pfx vs s = Ok (v, s') ->
  exists W' S' s1 S1, ext W W' /\ call prog' [] fuel g (tau W pfx) (map (rv W) vs) S = Ok (option_map (rv W') v, S') /\
    Rel cls0 E W' s1 S1 /\
    mem s1 = mem s' /\ ptrs s1 = ptrs s' /\ files s1 = files s' /\ fresh s1 = fresh s' /\
    mem S1 = mem S' /\ ptrs S1 = ptrs S' /\ files S1 = files S' /\ fresh S1 = fresh S'.
Proof.
  intros fuel g pfx vs s S W v s' Hg Hp Hpu Gvs R H. unfold call in *.
  destruct (HOK g Hg) as (fn & L1 & L2 & Kf). rewrite L1 in H. rewrite L2.
  bo H as l El. destruct (bind_params_sim W _ _ _ El Gvs) as [El' Gl]. rewrite El'. cbn [bind].
  bo H as r1 E1. destruct r1 as [o1 s1]. injection H as <- <-.
  destruct (exec_sim prog prog' cls0 E OKL UL HE Hcls0 HOK fuel (f_body fn) (inb g UL)
              {| mem := mem s; loc := l; pre := pfx; files := files s; ptrs := ptrs s; fresh := fresh s |}
              {| mem := mem S; loc := lmap W l; pre := tau W pfx; files := files S; ptrs := ptrs S; fresh := fresh S |}
              W o1 s1 Kf Hpu (rel_enter cls0 E W s S pfx l R Hp Gl) E1) as (W1 & S1 & X1 & Ex1 & R1 & G1 & P1).
  exists W1. eexists. exists s1, S1. split; [exact X1|]. rewrite Ex1. cbn [bind].
  split; [destruct o1 as [| |[w|]]; reflexivity|]. split; [exact R1|]. cbn [mem ptrs files fresh]. repeat split; reflexivity.
Qed.
End SimR.

(* ---------------- the checked functions: those of RefineE2EBridge and the three of prepare_IV ---------------- *)
Definition OKLX : list string := OKL0 ++ ["runcrypt::prepare_IV/1"; "FileHeader::getIV/2@u8_t"; "FileHeader::getFileHeader/1"].
Lemma HOKX : forall g, In g OKLX -> exists fn, lget file_prog g = Some fn /\ lget whole_prog g = Some fn /\
  oks file_prog E0 OKLX UL0 (inb g UL0) (f_body fn) = true.
Proof.
  assert (C : forallb (fun g => match lget file_prog g with Some fn => oks file_prog E0 OKLX UL0 (inb g UL0) (f_body fn) | None => false end) OKLX = true)
    by (vm_compute; reflexivity).
  intros g Hg. rewrite forallb_forall in C. specialize (C g Hg). destruct (lget file_prog g) as [fn|] eqn:L; [|discriminate C].
  exists fn. split; [reflexivity|]. split; [apply lget_W, L|exact C].
Qed.

(* ---------------- the memory ---------------- *)
Lemma mget_filter : forall (f : string -> bool) (m : memory) k, mget (filter (fun kv : string * object => f (fst kv)) m) k = if f k then mget m k else None.
Proof.
  intros f. induction m as [|[k' o] r IH]; intro k; cbn [filter fst mget]; [destruct (f k); reflexivity|].
  destruct (f k') eqn:Ek'.
  - cbn [mget]. destruct (String.eqb_spec k k') as [->|Hne]; [rewrite Ek'; reflexivity|apply IH].
  - rewrite IH. destruct (String.eqb_spec k k') as [->|Hne]; [rewrite Ek'; reflexivity|reflexivity].
Qed.
Definition keepA (k : string) : bool := negb (String.eqb k "#0") && negb (String.eqb k "sizeof:iobuffer.b").
Definition KEYS1 : list string := (KEYSA ++ ["live_num"; "#0"])%list.
Definition nmbX (k : string) : bool := ordb k || is_prefix "sizeof:" k.

Section MemS.
Variables (c hbuf T : nat) (key seed : list N) (cm hm : Z).
Notation m1 := (M1e c hbuf T key seed cm hm).
Definition Msm : memory := filter (fun kv : string * object => keepA (fst kv)) m1.
Definition Jmm : memory := filter (fun kv : string * object => negb (keepA (fst kv))) m1.

Lemma keys1 : map fst m1 = KEYS1.
Proof. vm_compute. reflexivity. Qed.
Lemma keys1_all : forall (Pk : string -> bool) k o, forallb Pk KEYS1 = true -> mget m1 k = Some o -> Pk k = true.
Proof. intros Pk k o HP H. rewrite forallb_forall in HP. apply HP. rewrite <- keys1. eapply mget_in, H. Qed.
Lemma mget_Msm : forall k, mget Msm k = if keepA k then mget m1 k else None.
Proof. intro k. apply mget_filter. Qed.
Lemma mget_Jmm : forall k, mget Jmm k = if keepA k then None else mget m1 k.
Proof. intro k. unfold Jmm. rewrite (mget_filter (fun k => negb (keepA k))). destruct (keepA k); reflexivity. Qed.
Lemma Msm_all : forall (Pk : string -> bool) k o, forallb (fun k => negb (keepA k) || Pk k) KEYS1 = true -> mget Msm k = Some o -> Pk k = true.
Proof.
  intros Pk k o HP H. rewrite mget_Msm in H. destruct (keepA k) eqn:Ek; [|discriminate H].
  pose proof (keys1_all _ _ _ HP H) as X. cbn beta in X. rewrite Ek in X. exact X.
Qed.

Lemma relX : forall l pfx fs, ordb pfx = true -> gl (XWf 1) l -> (forall k fl, lget fs k = Some fl -> ordb k = true) ->
  Rel "sha1hash" E0 (XWf 1) (St Msm l pfx fs (pss "sha1hash" ++ PS1) 1%nat) (St Msm l pfx fs PS1 1%nat).
Proof.
  intros l pfx fs Hp Hl Hfs. constructor; cbn [mem loc pre files ptrs fresh].
  - reflexivity.
  - reflexivity.
  - apply wf_XWf.
  - now rewrite tau_XWf.
  - left. exact Hp.
  - now rewrite lmap_XWf.
  - exact Hl.
  - reflexivity.
  - exact Hfs.
  - intros k Hn HnE. now rewrite tau_XWf.
  - intros e [<-|[]]. rewrite mget_Msm. reflexivity.
  - intros k o H. pose proof (Msm_all nmbX k o eq_refl H) as X. unfold nmbX in X. apply orb_prop in X. destruct X as [X|X].
    + left. exact X.
    + right. left. apply prefix_sz, X.
  - intros n y Hn. destruct (mget Msm (hobj n ++ y)) as [o|] eqn:Eo; [|reflexivity]. exfalso. rewrite hobj_app in Eo.
    pose proof (Msm_all (fun k => match k with String "#"%char _ => false | _ => true end) _ _ eq_refl Eo) as X. discriminate X.
  - intros k Hn. rewrite tau_XWf.
    assert (E1 : lget (pss "sha1hash" ++ PS1) k = lget PS1 k).
    { unfold pss. cbn [app lget]. destruct (String.eqb_spec k ("alloc:" ++ "sha1hash")) as [->|_]; [exfalso; eapply nm_not_alloc; [exact Hn|reflexivity]|].
      destruct (String.eqb_spec k "alloc:filebuffer64") as [->|_]; [exfalso; eapply (nm_not_alloc (XWf 1) _ "filebuffer64"); [exact Hn|reflexivity]|]. reflexivity. }
    rewrite E1. destruct (lget PS1 k) as [v|]; [cbn [option_map]; now rewrite rv_XWf|reflexivity].
  - intros r _. rewrite tau_XWf. unfold pss. cbn [app lget].
    destruct (String.eqb_spec ("class:" ++ r) ("alloc:" ++ "sha1hash")) as [E|_]; [discriminate E|].
    destruct (String.eqb_spec ("class:" ++ r) "alloc:filebuffer64") as [E|_]; [discriminate E|]. reflexivity.
  - intros k v H. apply lget_In in H. unfold pss in H. cbn [app In PS1] in H.
    repeat (destruct H as [H|H]; [injection H as <- <-|]); try (left; split; [left; reflexivity|]; cbn [gv]; try exact I; left; reflexivity).
    + right. right. left. auto.
    + right. right. right. auto.
    + left. split; [left; reflexivity|]. cbn [gv]. right. right. left. exists 0%nat. reflexivity.
    + destruct H.
  - intro c0. reflexivity.
  - intros n y Hn. rewrite hobj_app. split; reflexivity.
  - intro Ha. exfalso. apply Ha. reflexivity.
  - intro Hb. exfalso. apply Hb. reflexivity.
Qed.
End MemS.

(* ---------------- the call on the small state ---------------- *)
Lemma hdr_len : forall cm hm seed T, (1 <= T <= 16)%nat -> List.length (file_header cm hm (iv_chain seed T) T) = (48 + 20 * T)%nat.
Proof.
  intros cm hm seed T HT. unfold file_header. rewrite !app_length. change (List.length magic_bytes) with 8%nat. cbn [List.length].
  unfold zeros. rewrite repeat_length. change (N.to_nat Layout.PADDING) with 38%nat.
  rewrite firstn_length, iv_chain_chain, chain_len by lia. lia.
Qed.

Section Small.
Variables (c hbuf T : nat) (P key seed : list N) (cm hm : N).
Hypothesis HT : (1 <= T <= 16)%nat.
Hypothesis Hcm : (cm <= 4)%N.
Hypothesis Hhm : (hm <= 2)%N.
Hypothesis Hs : seed_ok seed.
Hypothesis Hsl : (N.of_nat (List.length seed) < 2 ^ 32)%N.
Notation m1 := (M1e c hbuf T key seed (Z.of_N cm) (Z.of_N hm)).
Notation msm := (Msm c hbuf T key seed (Z.of_N cm) (Z.of_N hm)).
Notation hdr := (file_header cm hm (iv_chain seed T) T).

Lemma prep_small :
  exists fuel W' S' M',
    call whole_prog [] fuel "runcrypt::prepare_IV/1" "rc." [VPtr "seed" 0] (St msm [] "rc." (FS0 P) PS1 1%nat) = Ok (Some (VPtr (heap_name 1) 0), S') /\
    (forall c0, lget (ptrs S') ("alloc:" ++ c0) = None) /\
    files S' = [("fin", stream P 0); ("fout", {| cf_data := map Z.of_N hdr; cf_pos := List.length hdr; cf_eof := false |})] /\
    (2 <= fresh S')%nat /\
    (forall k, nmbX k = true \/ (exists n, k = heap_name n) -> ~ In k E0 -> mget (mem S') k = mget M' k) /\
    mget M' (heap_name 1) = Some (ivobj seed T) /\ (forall k, file_owned k = false -> mget M' k = mget msm k) /\
    (forall k v, lget PS1 k = Some v -> lget (ptrs S') k = Some v) /\
    wa W' <> None.
Proof.
  set (fuel := (3000 + List.length seed / 64)%nat).
  assert (HTm : mget msm "THREAD_MAX" = Some (cell1 U8 16)) by (rewrite mget_Msm; reflexivity).
  assert (Hseed : mget msm "seed" = Some (bytes_object (seed ++ [0%N]))) by (rewrite mget_Msm; reflexivity).
  assert (Hnum : mget msm "rc.header.num" = Some (u8cell (Z.of_nat T))).
  { rewrite mget_Msm. cbn [keepA String.eqb Ascii.eqb Bool.eqb negb andb]. unfold M1e. cbn [app mget String.eqb Ascii.eqb Bool.eqb].
    rewrite wrap_U8_small by lia. reflexivity. }
  assert (Hmg : mget msm "Magic_Num" = Some (cell1 U64 MAGIC)) by (rewrite mget_Msm; reflexivity).
  assert (Hct : mget msm "rc.header.ctype" = Some (u8cell (Z.of_N cm))).
  { rewrite mget_Msm. cbn [keepA String.eqb Ascii.eqb Bool.eqb negb andb]. unfold M1e. cbn [app mget String.eqb Ascii.eqb Bool.eqb].
    rewrite wrap_U8_small by lia. reflexivity. }
  assert (Hht : mget msm "rc.header.htype" = Some (u8cell (Z.of_N hm))).
  { rewrite mget_Msm. cbn [keepA String.eqb Ascii.eqb Bool.eqb negb andb]. unfold M1e. cbn [app mget String.eqb Ascii.eqb Bool.eqb].
    rewrite wrap_U8_small by lia. reflexivity. }
  assert (Hsz : no_sizeof msm).
  { intros k Hk Hne. destruct (mget msm k) as [o|] eqn:Eo; [|reflexivity]. exfalso.
    pose proof (Msm_all c hbuf T key seed (Z.of_N cm) (Z.of_N hm) (fun k => negb (is_prefix "sizeof:" k) || String.eqb k "sizeof:filebuffer64.b") _ _ eq_refl Eo) as X.
    cbn beta in X. rewrite Hk in X. cbn [negb orb] in X. apply String.eqb_eq in X. contradiction. }
  assert (Habs : forall name, In name RefineFileHmac3.five -> mget msm name = None).
  { intros name Hin. cbn [RefineFileHmac3.five In] in Hin. repeat (destruct Hin as [<-|Hin]; [rewrite mget_Msm; reflexivity|]). destruct Hin. }
  destruct (prepIV_plan (vt0 "sha1hash") eq_refl fuel msm [] "rc." (stream P 0) false (pss "sha1hash" ++ PS1) 1%nat seed T cm hm
              (le_n _) HT ltac:(lia) ltac:(lia) Hs ltac:(lia) HTm Hseed Hnum Hmg Hct Hht eq_refl eq_refl Hsz Habs)
    as (M' & fr' & Ec & Hiv & Hoth & Hfr).
  assert (R : Rel "sha1hash" E0 (XWf 1) (St msm [] "rc." (FS0 P) (pss "sha1hash" ++ PS1) 1%nat) (St msm [] "rc." (FS0 P) PS1 1%nat)).
  { apply relX; [reflexivity|constructor|].
    intros k fl H. unfold FS0 in H. cbn [lget] in H. destruct (String.eqb_spec k "fin") as [->|_]; [reflexivity|].
    destruct (String.eqb_spec k "fout") as [->|_]; [reflexivity|discriminate]. }
  assert (Hg : In "runcrypt::prepare_IV/1" OKLX) by (unfold OKLX; apply in_or_app; right; left; reflexivity).
  assert (Hp : preok (XWf 1) "rc.") by (left; reflexivity).
  assert (Hpu : "rc." = "" -> inb "runcrypt::prepare_IV/1" UL0 = true) by discriminate.
  assert (Gvs : Forall (gv (XWf 1)) [VPtr "seed" 0]) by (repeat constructor; cbn [gv]; left; reflexivity).
  assert (Hcls : In "sha1hash" hashcls) by (left; reflexivity).
  change (FS0 P) with [("fin", stream P 0); ("fout", {| cf_data := []; cf_pos := 0%nat; cf_eof := false |})] in R.
  destruct (call_simRX file_prog whole_prog "sha1hash" E0 OKLX UL0 HE0 Hcls HOKX fuel "runcrypt::prepare_IV/1" "rc."
              _ _ _ (XWf 1) _ _ Hg Hp Hpu Gvs R Ec) as (W' & S' & s1 & S1 & X1 & EcW & R1 & M1 & P1 & F1 & FR1 & M2 & P2 & F2 & FR2).
  rewrite tau_XWf, map_rv_XWf in EcW. cbn [option_map rv] in EcW. rewrite tau_heap in EcW.
  cbn [mem ptrs files fresh] in M1, P1, F1, FR1.
  exists fuel, W', S', M'.
  split; [exact EcW|].
  split; [intro c0; rewrite <- P2; apply (r_noalloc _ _ _ _ _ R1)|].
  split; [rewrite <- F2, (r_files _ _ _ _ _ R1), F1, hdr_len by exact HT; reflexivity|].
  split; [rewrite <- FR2, (r_freshS _ _ _ _ _ R1), <- (r_fresh _ _ _ _ _ R1), FR1; exact Hfr|].
  split.
  { intros k Hk HnE. rewrite <- M2, <- M1.
    assert (Hn : nm W' k /\ tau W' k = k).
    { destruct Hk as [Hk|[n ->]].
      - unfold nmbX in Hk. apply orb_prop in Hk. destruct Hk as [Hk|Hk].
        + split; [left; exact Hk|apply tau_ord, Hk].
        + apply prefix_sz in Hk. destruct Hk as [r ->]. split; [right; left; eauto|reflexivity].
      - split; [right; right; left; eauto|apply tau_heap]. }
    destruct Hn as [Hn Ht]. rewrite <- Ht at 1. apply (r_mem _ _ _ _ _ R1 k Hn HnE). }
  split; [exact Hiv|]. split; [exact Hoth|].
  split.
  { intros k v H. rewrite <- P2.
    assert (Q : ordb k = true /\ rv W' v = v /\ lget (ptrs s1) k = Some v).
    { rewrite P1. apply lget_In in H. cbn [PS1 In] in H.
      repeat (destruct H as [H|H]; [injection H as <- <-; split; [reflexivity|]; split; [cbn [rv]; rewrite ?tau_heap, ?(tau_ord W' "fin"), ?(tau_ord W' "fout"), ?(tau_ord W' "key") by reflexivity; reflexivity|reflexivity]|]).
      destruct H. }
    destruct Q as (Q1 & Q2 & Q3).
    pose proof (r_ptrs _ _ _ _ _ R1 k (or_introl Q1)) as Q. rewrite (tau_ord W' k Q1), Q3 in Q. cbn [option_map] in Q. rewrite Q2 in Q. exact Q. }
  (* the hasher exists in the final world: its class entry is in the plan run *)
  intro Ea.
  assert (Hc : lget (ptrs s1) "class:" = Some (VPtr "sha1hash" 0)) by (rewrite P1; apply lget_lset_same).
  destruct (r_ptrsnm _ _ _ _ _ R1 _ _ Hc) as [[G _]|[(r & c0 & Ek & Cl & _)|[[Ek _]|[Ek _]]]]; try discriminate Ek.
  - eapply nm_not_class; [exact G|reflexivity].
  - change "class:" with ("class:" ++ "") in Ek. apply append_inj_l in Ek. subst r.
    destruct Cl as [[Ha _]|[[_ Er]|(n & Er & _)]]; [exact (Ha Ea)|discriminate Er|unfold hobj, heap_name in Er; discriminate Er].
Qed.
End Small.
