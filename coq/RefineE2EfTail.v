(* Stage 5: what follows run_multicry in execute_encrypt / execute_decrypt: the call of buffergroup::del_instance up to its lock
   (wdone_ok for a calling frame of that shape). *)
From Coq Require Import ZArith NArith List String Bool Lia Ascii Arith.
From Wencry Require Import Bytes AesModel ModesModel FileModel PipeConc MiniC MiniCLemmas MiniCRun MiniCConc SrcRun SrcRun2 SrcRun5 PipeLemmas.
From Wencry Require Import RefineSeqDefs RefineSeqA RefineSeqB.
From Wencry Require Import RefineE2EfLay RefineE2EfMach RefineE2EfMem RefineE2EfWNames RefineE2EfWLay RefineE2EfWStream RefineE2EfWOk.
From Wencry.Gen Require Src_conc.
Import ListNotations.
Local Open Scope list_scope.
Local Open Scope string_scope.

Definition di_body : stmt := f_body Src_conc.f_buffergroup_del_instance_0.
Definition di_then : stmt := match di_body with SIf _ a _ => a | _ => SSkip end.
Definition di_rest : stmt := match di_then with SSeq _ b => b | _ => SSkip end.
(* the frame that called run_multicry continues with del_instance(); R under K1 *)
Definition kbot_of (R : stmt) (K1 : kont) : kont := KSeq (SSeq (SCall None "buffergroup::del_instance/0" None []) R) K1.
Definition tdone_of (R : stmt) (K1 : kont) (blocs : locs) (pb : string) : cthread :=
  RefineE2EfLay.mk (SPrim None "lock" [EGlobal "mtx"]) (KSeq di_rest (KCall None blocs pb (KSeq R K1))) [] pb TRun.

Lemma wdone_of : forall (P : wpar) (R : nat -> bool -> stmt) (K1 : nat -> bool -> kont),
  wpar_ok P ->
  (forall T pad, wp_kb P T pad = kbot_of (R T pad) (K1 T pad)) ->
  (forall T pad, wp_tdone P T pad = tdone_of (R T pad) (K1 T pad) (wp_blocs P T pad) (wp_bpre P)) ->
  wdone_ok P.
Proof.
  intros P R K1 OK Ekb Etd. constructor.
  - intros T pad. rewrite Etd. reflexivity.
  - intros T pad. rewrite Etd. reflexivity.
  - intros c T pad input0 d thr evs R0 HR. exists 6%nat. rewrite Ekb. unfold kbot_of, RefineE2EfLay.mk.
    eapply r_none; [discriminate | right; reflexivity | apply m_skip | cbn [cont_conf next_of]].
    eapply r_none; [discriminate | right; reflexivity | apply m_seq | ].
    eapply r_none; [discriminate | right; reflexivity | | ].
    { eapply (m_call _ _ _ _ _ None "buffergroup::del_instance/0" None [] [] (wp_bpre P) Src_conc.f_buffergroup_del_instance_0 []); reflexivity. }
    cbn [f_body Src_conc.f_buffergroup_del_instance_0].
    eapply r_none; [discriminate | right; reflexivity | | ].
    { eapply (m_if _ _ _ _ _ _ _ _ 1%Z). cbn [eval tst ptrs sh_of bind]. change (ptrs_of T) with (w_ptrs_of P T).
      rewrite (w_lget_instance P OK). reflexivity. }
    cbn [Z.eqb].
    eapply r_none; [discriminate | right; reflexivity | apply m_seq | ].
    eapply r_stop; [discriminate | reflexivity | ].
    rewrite HR. rewrite Etd. reflexivity.
Qed.

(* ================= the last step of the main thread of execute_decrypt ================= *)
From Wencry Require Import RefineE2EfTac RefineE2EfStepW RefineE2EfStepW2 RefineE2EfRel RefineE2EfRun RefineE2EfDec.
From Wencry.Gen Require Src_whole.

Definition release_call : stmt := SCall None "runcrypt::release/2" None [EVar "iv"; EVar "mode"].
Definition dec_K1 : kont :=
  KSeq (SSeq (SCall None "runcrypt::over/0" None []) (SReturn (Some (EBin TBool Eq (EVar "res") (EConst 0))))) (KCall (Some "result") [] "" KStop).
Definition rel_loop : stmt := match f_body Src_whole.f_runcrypt_release_2 with SSeq _ (SSeq _ (SSeq l _)) => l | _ => SSkip end.
Definition rel_last : stmt := match f_body Src_whole.f_runcrypt_release_2 with SSeq _ (SSeq _ (SSeq _ l)) => l | _ => SSkip end.

Lemma lset_lset_same : forall (l : locs) k v w, lset (lset l k v) k w = lset l k w.
Proof.
  induction l as [|[a b] l IH]; intros k v w; cbn [lset].
  - rewrite String.eqb_refl. reflexivity.
  - destruct (String.eqb k a) eqn:E; cbn [lset]; [rewrite String.eqb_refl; reflexivity|]. rewrite E. f_equal. apply IH.
Qed.

Lemma workers_done_g : forall (LY : Layout) T (ws : list wpc) (g : tghost), List.length ws = T -> (forall j, (j < T)%nat -> nth j ws W_Done = W_Done) ->
  forall t, In t (map (fun i => @worker_thread LY i (nth i ws W_Done) (nth i (g_wl g) [])) (seq 0 T)) -> ct_st t = TDone.
Proof.
  intros LY T ws g Lw Hd t Ht. apply in_map_iff in Ht. destruct Ht as (i & <- & Hi). apply in_seq in Hi.
  rewrite Hd by lia. reflexivity.
Qed.

(* the shared state after del_instance *)
Definition sh_fin_w (P : wpar) (c T : nat) (pad : bool) (input0 : list N) (d : mdata) : state :=
  {| mem := w_mem_of P c T pad d; loc := []; pre := ""; files := @files_of input0 d;
     ptrs := lset (w_ptrs_of P T) "instance" VNull; fresh := (wp_h P + 4 + T)%nat |}.

(* ================= release / over on an arbitrary shared state (used after writeFileHmac) ================= *)
Section RelGen.
Variable P : wpar.
Local Instance LYG : Layout := wlayout P.
Variables (sh : state) (T : nat).
Hypothesis Hsh : shared_of sh = sh.
Hypothesis HT : (T <= 255)%nat.
Hypothesis Hth : mget (mem sh) "rc.threads_num" = Some (cell U8 (Z.of_nat T)).
Hypothesis Hcell : forall i, (i < T)%nat -> exists v, lget (ptrs sh) (ptr_key (wMA P) (8 * Z.of_nat i)) = Some v.
Hypothesis Hf : lget (ptrs sh) "rc.fin" = Some (VPtr "fin" 0).
Hypothesis Ho : lget (ptrs sh) "rc.out" = Some (VPtr "fout" 0).

Lemma g_rd_tnum : forall l, eval (tst sh l "rc.") (ELoad U8 (EField "threads_num")) = Ok (VInt (Z.of_nat T)).
Proof. intros l. cbn [eval tst pre mem bind append]. rewrite Hth. rewrite load_cell. rewrite wrap_U8_small by lia. reflexivity. Qed.
Lemma tst_shared : forall l p, shared_of (tst sh l p) = sh.
Proof. intros. rewrite <- Hsh at 2. reflexivity. Qed.

Lemma g_rel_loop_leads : forall thr mx evs K l0 n k,
  (k + n = T)%nat -> lget l0 "mode" = Some (VPtr (wMA P) 0) ->
  exists N, leads 0 N
    (RefineSeqB.mk rel_loop K (lset l0 "i" (VInt (Z.of_nat k))) "rc." TRun) (C sh thr mx) evs
    (cont_conf K (lset l0 "i" (VInt (Z.of_nat T))) "rc." TRun) (C sh thr mx) evs.
Proof.
  intros thr mx evs K l0 n. induction n as [|n IH]; intros k Hk Hm.
  - assert (k = T) by lia. subst k. exists 1%nat. intros B R H.
    unfold rel_loop. cbn [f_body Src_whole.f_runcrypt_release_2].
    eapply r_none; [discriminate | right; reflexivity | | exact H].
    eapply m_loop_exit.
    eapply ev_bin; [cbn [eval tst loc]; rewrite lget_lset_same; reflexivity | eapply ev_cast; apply g_rd_tnum | ].
    cbn [eval_bin]. rewrite wrap_I32_small by (change (2 ^ 31)%Z with 2147483648%Z; lia). rewrite Z.ltb_irrefl. reflexivity.
  - assert (HkT : (k < T)%nat) by lia.
    destruct (IH (S k) ltac:(lia) Hm) as [N HN]. exists (3 + N)%nat. intros B R H.
    unfold rel_loop in *. cbn [f_body Src_whole.f_runcrypt_release_2] in *. cbn [Nat.add].
    eapply r_none; [discriminate | right; reflexivity | | ].
    { eapply m_loop_enter.
      - eapply ev_bin; [cbn [eval tst loc]; rewrite lget_lset_same; reflexivity | eapply ev_cast; apply g_rd_tnum | ].
        cbn [eval_bin]. rewrite wrap_I32_small by (change (2 ^ 31)%Z with 2147483648%Z; lia).
        replace (Z.of_nat k <? Z.of_nat T)%Z with true by (symmetry; apply Z.ltb_lt; lia). reflexivity.
      - reflexivity. }
    destruct (Hcell k HkT) as [vk Hvk].
    eapply r_none; [discriminate | right; reflexivity | | ].
    { eapply (m_atomic _ _ _ _ _ (SDelete _) Normal); [reflexivity|].
      cbn [exec]. erewrite ev_ptrcell.
      - cbn [bind]. reflexivity.
      - eapply ev_ptradd; [cbn [eval tst loc]; rewrite lget_lset_other by discriminate; rewrite Hm; reflexivity | cbn [eval tst loc]; rewrite lget_lset_same; reflexivity].
      - cbn [tst ptrs]. replace (0 + Z.of_nat k * 8)%Z with (8 * Z.of_nat k)%Z by lia. exact Hvk. }
    cbn [cont_conf next_of loc]. rewrite tst_shared.
    eapply r_none; [discriminate | right; reflexivity | | ].
    { eapply m_set; [exact Hsh|]. eapply ev_bin; [cbn [eval tst loc]; rewrite lget_lset_same; reflexivity | reflexivity | ].
      cbn [eval_bin]. apply arith_I32_small. lia. }
    cbn [cont_conf next_of loc tst]. rewrite lset_lset_same. replace (Z.of_nat k + 1)%Z with (Z.of_nat (S k)) by lia.
    apply HN. exact H.
Qed.

(* release(iv, mode) *)
Lemma g_release_leads : forall thr mx evs K blocs viv,
  lget blocs "iv" = Some viv -> lget blocs "mode" = Some (VPtr (wMA P) 0) ->
  exists N, leads 0 N (RefineSeqB.mk release_call K blocs "rc." TRun) (C sh thr mx) evs
                      (RefineSeqB.mk SSkip K blocs "rc." TRun) (C sh thr mx) evs.
Proof.
  intros thr mx evs K blocs viv Hviv Hm.
  destruct (g_rel_loop_leads thr mx evs (KSeq rel_last (KCall None blocs "rc." K)) [("iv", viv); ("mode", VPtr (wMA P) 0)] T 0 ltac:(lia) eq_refl) as [N HN].
  exists (10 + N)%nat. intros B R H. unfold release_call. cbn [Nat.add].
  eapply r_none; [discriminate | right; reflexivity | | ].
  { eapply (m_call _ _ _ _ _ None "runcrypt::release/2" None [EVar "iv"; EVar "mode"] [viv; VPtr (wMA P) 0] "rc." Src_whole.f_runcrypt_release_2 [("iv", viv); ("mode", VPtr (wMA P) 0)]); try reflexivity.
    cbn [eval_list eval tst loc]. rewrite Hviv, Hm. reflexivity. }
  cbn [f_body Src_whole.f_runcrypt_release_2].
  eapply r_none; [discriminate | right; reflexivity | apply m_seq | ].
  eapply r_none; [discriminate | right; reflexivity | | ].
  { eapply (m_atomic _ _ _ _ _ (SDelete _) Normal); [reflexivity|]. cbn [exec eval tst loc lget String.eqb Ascii.eqb Bool.eqb bind]. reflexivity. }
  cbn [cont_conf next_of loc]. rewrite tst_shared.
  eapply r_none; [discriminate | right; reflexivity | apply m_seq | ].
  eapply r_none; [discriminate | right; reflexivity | eapply m_set; [exact Hsh|reflexivity] | cbn [cont_conf next_of]].
  eapply r_none; [discriminate | right; reflexivity | apply m_seq | ].
  eapply exr_weaken; [eapply (HN (4 + B)%nat) | lia].
  cbn [cont_conf next_of]. unfold rel_last. cbn [f_body Src_whole.f_runcrypt_release_2].
  eapply r_none; [discriminate | right; reflexivity | | ].
  { eapply (m_atomic _ _ _ _ _ (SDelete _) Normal); [reflexivity|]. cbn [exec eval tst loc bind]. rewrite lget_lset_other by discriminate. cbn [lget String.eqb Ascii.eqb Bool.eqb bind]. reflexivity. }
  cbn [cont_conf next_of loc]. rewrite tst_shared.
  eapply exr_weaken; [exact H | lia].
Qed.

(* over() *)
Lemma g_over_leads : forall thr mx evs K blocs,
  leads 0 8 (RefineSeqB.mk (SCall None "runcrypt::over/0" None []) K blocs "rc." TRun) (C sh thr mx) evs
            (RefineSeqB.mk SSkip K blocs "rc." TRun) (C sh thr mx) evs.
Proof.
  intros thr mx evs K blocs B R H. cbn [Nat.add].
  assert (Efin : forall l, eval (tst sh l "rc.") (EUn TBool LNot (EIsNull (EPtrVar (EField "fin")))) = Ok (VInt 1)).
  { intros l. cbn [eval tst pre ptrs append bind]. rewrite Hf. reflexivity. }
  assert (Eout : forall l, eval (tst sh l "rc.") (EUn TBool LNot (EIsNull (EPtrVar (EField "out")))) = Ok (VInt 1)).
  { intros l. cbn [eval tst pre ptrs append bind]. rewrite Ho. reflexivity. }
  eapply r_none; [discriminate | right; reflexivity | | ].
  { eapply (m_call _ _ _ _ _ None "runcrypt::over/0" None [] [] "rc." Src_whole.f_runcrypt_over_0 []); reflexivity. }
  cbn [f_body Src_whole.f_runcrypt_over_0].
  eapply r_none; [discriminate | right; reflexivity | apply m_seq | ].
  eapply r_none; [discriminate | right; reflexivity | eapply m_if; apply Efin | cbn [Z.eqb]].
  eapply r_none; [discriminate | right; reflexivity | apply m_skip | cbn [cont_conf next_of]].
  eapply r_none; [discriminate | right; reflexivity | eapply m_if; apply Eout | cbn [Z.eqb]].
  eapply r_none; [discriminate | right; reflexivity | apply m_skip | cbn [cont_conf next_of]].
  eapply exr_weaken; [exact H | lia].
Qed.
End RelGen.

Section DecTail.
Variable P : wpar.
Hypothesis OK : wpar_ok P.
Hypothesis Ekb : forall T pad, wp_kb P T pad = kbot_of release_call dec_K1.
Hypothesis Etd : forall T pad, wp_tdone P T pad = tdone_of release_call dec_K1 (wp_blocs P T pad) (wp_bpre P).
Hypothesis Ebp : wp_bpre P = "rc.".
Hypothesis Ecp : wp_cp P = "rc.crym.".
Hypothesis Hiv : forall T pad, exists v, lget (wp_blocs P T pad) "iv" = Some v.
Hypothesis Hmode : forall T pad, lget (wp_blocs P T pad) "mode" = Some (VPtr (wMA P) 0).
Hypothesis Hres : forall T pad, lget (wp_blocs P T pad) "res" = Some (VInt 0).
Hypothesis Hthr : forall c T, mget (wp_memA P c T) "rc.threads_num" = Some (cell U8 (Z.of_nat T)).
Hypothesis Hfin : forall T, lget (wp_pA P T) "rc.fin" = Some (VPtr "fin" 0).
Hypothesis Hfout : forall T, lget (wp_pA P T) "rc.out" = Some (VPtr "fout" 0).
Hypothesis Hout0 : wp_out0 P = [].

Local Instance LYT : Layout := wlayout P.
Definition DKT : wdone_ok P := wdone_of P (fun _ _ => release_call) (fun _ _ => dec_K1) OK Ekb Etd.
Local Instance LOT : LayoutOk := wlayout_ok P OK DKT.

Notation sh_fin := (sh_fin_w P).

Lemma rd_tnum : forall c T pad input0 d l, (T <= 255)%nat ->
  eval (tst (sh_fin c T pad input0 d) l "rc.") (ELoad U8 (EField "threads_num")) = Ok (VInt (Z.of_nat T)).
Proof.
  intros c T pad input0 d l HT. cbn [eval tst sh_fin pre mem bind append]. change (mem_of c T pad d) with (w_mem_of P c T pad d).
  rewrite (mget_plain P) by (try reflexivity; try discriminate; rewrite Hthr; discriminate).
  rewrite Hthr. rewrite load_cell. rewrite wrap_U8_small by lia. reflexivity.
Qed.
Lemma lget_lset_other' : forall (l : locs) k k' v, k <> k' -> lget (lset l k' v) k = lget l k.
Proof.
  induction l as [|[a b] l IH]; intros k k' v N; cbn [lset lget].
  - destruct (String.eqb_spec k k'); [contradiction|reflexivity].
  - destruct (String.eqb_spec k' a) as [->|N2]; cbn [lget].
    + destruct (String.eqb_spec k a); [contradiction|reflexivity].
    + destruct (String.eqb k a); [reflexivity|apply IH; exact N].
Qed.
Lemma fin_mode_cell : forall T i, (i < T)%nat -> lget (lset (w_ptrs_of P T) "instance" VNull) (ptr_key (wMA P) (8 * Z.of_nat i)) = Some (VPtr (wmp P i) 0).
Proof.
  intros T i Hi. rewrite lget_lset_other'.
  - apply (w_lget_mode_cell P OK). exact Hi.
  - intros E. pose proof (hnum_MAkey P (8 * Z.of_nat i) ltac:(lia)) as H. rewrite E in H. discriminate H.
Qed.
Lemma fin_frame_ptr : forall T k v, lget (wp_pA P T) k = Some v -> k <> "instance" -> lget (lset (w_ptrs_of P T) "instance" VNull) k = Some v.
Proof.
  intros T k v H N. rewrite lget_lset_other' by exact N. unfold w_ptrs_of.
  rewrite RefineConcMem.lget_app, H. reflexivity.
Qed.

(* the loop of release: i = k .. T *)
Lemma rel_loop_leads : forall c T pad input0 d thr mx evs K l0 n k,
  (T <= 255)%nat -> (k + n = T)%nat -> lget l0 "mode" = Some (VPtr (wMA P) 0) ->
  exists N, leads 0 N
    (RefineSeqB.mk rel_loop K (lset l0 "i" (VInt (Z.of_nat k))) "rc." TRun) (C (sh_fin c T pad input0 d) thr mx) evs
    (cont_conf K (lset l0 "i" (VInt (Z.of_nat T))) "rc." TRun) (C (sh_fin c T pad input0 d) thr mx) evs.
Proof.
  intros c T pad input0 d thr mx evs K l0 n. induction n as [|n IH]; intros k HT Hk Hm.
  - assert (k = T) by lia. subst k. exists 1%nat. intros B R H.
    unfold rel_loop. cbn [f_body Src_whole.f_runcrypt_release_2].
    eapply r_none; [discriminate | right; reflexivity | | exact H].
    eapply m_loop_exit. 
    eapply ev_bin; [cbn [eval tst loc]; rewrite lget_lset_same; reflexivity | eapply ev_cast; apply (rd_tnum c T pad input0 d _ HT) | ].
    cbn [eval_bin]. rewrite wrap_I32_small by (change (2 ^ 31)%Z with 2147483648%Z; lia). rewrite Z.ltb_irrefl. reflexivity.
  - assert (HkT : (k < T)%nat) by lia.
    destruct (IH (S k) HT ltac:(lia) Hm) as [N HN]. exists (3 + N)%nat. intros B R H.
    unfold rel_loop in *. cbn [f_body Src_whole.f_runcrypt_release_2] in *. cbn [Nat.add].
    eapply r_none; [discriminate | right; reflexivity | | ].
    { eapply m_loop_enter.
      - eapply ev_bin; [cbn [eval tst loc]; rewrite lget_lset_same; reflexivity | eapply ev_cast; apply (rd_tnum c T pad input0 d _ HT) | ].
        cbn [eval_bin]. rewrite wrap_I32_small by (change (2 ^ 31)%Z with 2147483648%Z; lia).
        replace (Z.of_nat k <? Z.of_nat T)%Z with true by (symmetry; apply Z.ltb_lt; lia). reflexivity.
      - reflexivity. }
    eapply r_none; [discriminate | right; reflexivity | | ].
    { eapply (m_atomic _ _ _ _ _ (SDelete _) Normal); [reflexivity|].
      cbn [exec]. erewrite ev_ptrcell.
      - cbn [bind]. reflexivity.
      - eapply ev_ptradd; [cbn [eval tst loc]; rewrite lget_lset_other by discriminate; rewrite Hm; reflexivity | cbn [eval tst loc]; rewrite lget_lset_same; reflexivity].
      - cbn [tst ptrs sh_fin]. replace (0 + Z.of_nat k * 8)%Z with (8 * Z.of_nat k)%Z by lia. apply fin_mode_cell. exact HkT. }
    cbn [cont_conf next_of loc tst shared_of mem files ptrs fresh sh_fin].
    eapply r_none; [discriminate | right; reflexivity | | ].
    { eapply m_set; [reflexivity|]. eapply ev_bin; [cbn [eval tst loc]; rewrite lget_lset_same; reflexivity | reflexivity | ].
      cbn [eval_bin]. apply arith_I32_small. lia. }
    cbn [cont_conf next_of]. rewrite lset_lset_same. replace (Z.of_nat k + 1)%Z with (Z.of_nat (S k)) by lia.
    apply HN. exact H.
Qed.

Definition t_fin : cthread := RefineE2EfLay.mk SSkip KStop [("result", VInt 1)] "" TDone.

Lemma dec_last_exr : forall c T F ws d g, (1 <= T <= 255)%nat ->
  exists n, cstep prog vt n (cstate_md c T false F I_Done ws d g) 0 =
    Ok (put 0 t_fin (C (sh_fin c T false F d) (threads_of T false I_Done ws (d_turn d) g) []), [(14, 0, 0)]%Z).
Proof.
  intros c T F ws d g HT.
  destruct (Hiv T false) as [viv Hviv]. pose proof (Hmode T false) as Hm. pose proof (Hres T false) as Hr.
  destruct (rel_loop_leads c T false F d (threads_of T false I_Done ws (d_turn d) g) [] []
              (KSeq rel_last (KCall None (wp_blocs P T false) "rc." dec_K1)) [("iv", viv); ("mode", VPtr (wMA P) 0)] T 0 ltac:(lia) ltac:(lia) eq_refl) as [N HN].
  unfold cstate_md.
  eapply cstep_run_u; [apply nth_thread_io | cbn [io_thread]; apply Tdone_st | | ].
  { cbn [io_thread]. change (Tdone T false) with (wp_tdone P T false). rewrite Etd. reflexivity. }
  exists (100 + N)%nat. cbn [io_thread]. change (Tdone T false) with (wp_tdone P T false). rewrite Etd, Ebp.
  unfold tdone_of, RefineE2EfLay.mk. cbn [Nat.add].
  eapply r_lock; [discriminate | left; reflexivity | eapply m_lock; reflexivity | reflexivity | cbn [cont_conf next_of]].
  cbv [di_rest di_then di_body f_body Src_conc.f_buffergroup_del_instance_0].
  mstep. mstep. mstep.
  eapply r_none; [discriminate | right; reflexivity | | ].
  { eapply (m_atomic _ _ _ _ _ (SDelete _) Normal); [reflexivity|]. cbn [exec]. erewrite ev_ptrvar; [cbn [bind]; reflexivity | reflexivity | apply lget_instance]. }
  cbn [cont_conf next_of loc tst shared_of mem files ptrs fresh sh_of].
  eapply r_none; [discriminate | right; reflexivity | | ].
  { eapply (m_atomic _ _ _ _ _ (SSetPtr _ _) Normal); [reflexivity|]. cbn [exec eval bind]. reflexivity. }
  cbn [cont_conf next_of loc tst shared_of with_ptrs mem files ptrs fresh sh_of].
  mstep.
  change (shared_of (with_ptrs (tst (shared_of (tst (sh_of c T false F d) [] "rc.")) [] "rc.") (lset (ptrs_of T) "instance" VNull))) with (sh_fin c T false F d).
  mstep. unfold release_call.
  eapply r_none; [discriminate | right; reflexivity | | ].
  { eapply (m_call _ _ _ _ _ None "runcrypt::release/2" None [EVar "iv"; EVar "mode"] [viv; VPtr (wMA P) 0] "rc." Src_whole.f_runcrypt_release_2 [("iv", viv); ("mode", VPtr (wMA P) 0)]); try reflexivity.
    cbn [eval_list eval tst loc]. rewrite Hviv, Hm. reflexivity. }
  cbn [f_body Src_whole.f_runcrypt_release_2].
  mstep.
  eapply r_none; [discriminate | right; reflexivity | | ].
  { eapply (m_atomic _ _ _ _ _ (SDelete _) Normal); [reflexivity|]. cbn [exec eval tst loc lget String.eqb Ascii.eqb Bool.eqb bind]. reflexivity. }
  cbn [cont_conf next_of loc tst shared_of mem files ptrs fresh sh_fin].
  mstep.
  eapply r_none; [discriminate | right; reflexivity | eapply m_set; [reflexivity|reflexivity] | cbn [cont_conf next_of]].
  mstep.
  change (shared_of (tst (sh_fin c T false F d) [("iv", viv); ("mode", VPtr (wMA P) 0)] "rc.")) with (sh_fin c T false F d).
  eapply exr_weaken; [eapply (HN 50%nat) | lia].
  cbn [cont_conf next_of]. unfold rel_last. cbn [f_body Src_whole.f_runcrypt_release_2].
  eapply r_none; [discriminate | right; reflexivity | | ].
  { eapply (m_atomic _ _ _ _ _ (SDelete _) Normal); [reflexivity|]. cbn [exec eval tst loc bind]. rewrite lget_lset_other by discriminate. cbn [lget String.eqb Ascii.eqb Bool.eqb bind]. reflexivity. }
  cbn [cont_conf next_of loc tst shared_of mem files ptrs fresh sh_fin].
  unfold dec_K1. mstep. mstep.
  eapply r_none; [discriminate | right; reflexivity | | ].
  { eapply (m_call _ _ _ _ _ None "runcrypt::over/0" None [] [] "rc." Src_whole.f_runcrypt_over_0 []); reflexivity. }
  cbn [f_body Src_whole.f_runcrypt_over_0].
  mstep.
  change (shared_of (tst (sh_fin c T false F d) (lset [("iv", viv); ("mode", VPtr (wMA P) 0)] "i" (VInt (Z.of_nat T))) "rc.")) with (sh_fin c T false F d).
  assert (Efin : forall l, eval (tst (sh_fin c T false F d) l "rc.") (EUn TBool LNot (EIsNull (EPtrVar (EField "fin")))) = Ok (VInt 1)).
  { intros l. cbn [eval tst pre ptrs sh_fin append bind]. rewrite (fin_frame_ptr T "rc.fin" _ (Hfin T)) by discriminate. reflexivity. }
  assert (Eout : forall l, eval (tst (sh_fin c T false F d) l "rc.") (EUn TBool LNot (EIsNull (EPtrVar (EField "out")))) = Ok (VInt 1)).
  { intros l. cbn [eval tst pre ptrs sh_fin append bind]. rewrite (fin_frame_ptr T "rc.out" _ (Hfout T)) by discriminate. reflexivity. }
  eapply r_none; [discriminate | right; reflexivity | eapply m_if; apply Efin | cbn [Z.eqb]].
  mstep.
  eapply r_none; [discriminate | right; reflexivity | eapply m_if; apply Eout | cbn [Z.eqb]].
  mstep. mstep.
  eapply r_none; [discriminate | right; reflexivity | | ].
  { eapply m_return with (v := VInt 1); [ | reflexivity | reflexivity].
    cbn [eval tst loc]. rewrite Hr. reflexivity. }
  cbn [loc with_loc tst lset].
  eapply r_none; [discriminate | right; reflexivity | apply m_skip | cbn [cont_conf next_of]].
  eapply r_done; [reflexivity | reflexivity].
Qed.


Lemma map_to_of_N : forall l : list N, map Z.to_N (map Z.of_N l) = l.
Proof. intros l. rewrite map_map. rewrite <- (map_id l) at 2. apply map_ext. intros a. apply N2Z.id. Qed.

Lemma workers_done : forall T (ws : list wpc) (g : tghost), List.length ws = T -> (forall j, (j < T)%nat -> nth j ws W_Done = W_Done) ->
  forall t, In t (map (fun i => worker_thread i (nth i ws W_Done) (nth i (g_wl g) [])) (seq 0 T)) -> ct_st t = TDone.
Proof.
  intros T ws g Lw Hd t Ht. apply in_map_iff in Ht. destruct Ht as (i & <- & Hi). apply in_seq in Hi.
  rewrite Hd by lia. reflexivity.
Qed.

Lemma dec_last_step : forall c T F, (1 <= T <= 16)%nat ->
  forall s cs, sim c T false F s cs -> terminal LS s = true -> forall fuel,
  cstep whole_prog [] fuel cs 0 = NoFuel \/
  exists cs' evs, cstep whole_prog [] fuel cs 0 = Ok (cs', evs) /\ QfinD F P s cs' /\ enabled_list cs' = [] /\ all_tdone cs' = true.
Proof.
  intros c T F HT s cs (d & g & -> & Hdr & Htg & Hre) Hterm fuel.
  pose proof Hdr as (Lb & Lw & Lx & Ldb & Ldn & Htu & HtT & Hov & Hlv & HlT & Hcr & Hout & _).
  unfold terminal in Hterm. destruct (io _ s) eqn:Eio; try discriminate Hterm.
  assert (Hd : forall j, (j < T)%nat -> nth j (wpcs _ s) W_Done = W_Done).
  { intros j Hj. assert (In (nth j (wpcs _ s) W_Done) (wpcs _ s)) by (apply nth_In; lia).
    pose proof (proj1 (forallb_forall _ _) Hterm _ H) as Q. destruct (nth j (wpcs _ s) W_Done); try discriminate Q; reflexivity. }
  destruct (dec_last_exr c T F (wpcs _ s) d g ltac:(lia)) as [n Hn].
  destruct (cstep_total n _ 0 _ Hn fuel) as [E|E]; [left; exact E|right].
  eexists. eexists. split; [exact E|].
  unfold put, C. cbn [cs_sh cs_thr cs_mx threads_of set_nth_t].
  split; [|split].
  - unfold QfinD, out_bytes, in_bytes, main_result. cbn [cs_sh cs_thr sh_fin files files_of lget String.eqb Ascii.eqb Bool.eqb cf_data nth_error t_fin RefineE2EfLay.mk ct_loc].
    split; [|split; [reflexivity|apply map_to_of_N]].
    rewrite Hout. change Lout0 with (wp_out0 P). rewrite Hout0. cbn [app]. apply map_to_of_N.
  - unfold enabled_list. cbn [cs_thr List.length]. rewrite map_length, seq_length. cbn [seq filter].
    assert (E0 : enabled {| cs_sh := sh_fin c T false F d; cs_thr := t_fin :: map (fun i => worker_thread i (nth i (wpcs _ s) W_Done) (nth i (g_wl g) [])) (seq 0 T); cs_mx := [] |} 0 = false) by reflexivity.
    rewrite E0.
    assert (G : forall l, (forall i, In i l -> (1 <= i <= T)%nat) ->
              filter (enabled {| cs_sh := sh_fin c T false F d; cs_thr := t_fin :: map (fun i => worker_thread i (nth i (wpcs _ s) W_Done) (nth i (g_wl g) [])) (seq 0 T); cs_mx := [] |}) l = []).
    { induction l as [|i l IH]; intros H; [reflexivity|]. cbn [filter].
      assert (Hi : (1 <= i <= T)%nat) by (apply H; left; reflexivity). destruct i as [|i]; [lia|].
      unfold enabled at 1, nth_thread. cbn [cs_thr nth_error]. rewrite nth_error_map_seq by lia. cbn [Nat.add]. rewrite Hd by lia.
      cbn [worker_thread RefineE2EfLay.mk ct_st]. apply IH. intros j Hj. apply H. right. exact Hj. }
    apply G. intros i Hi. apply in_seq in Hi. lia.
  - unfold all_tdone. cbn [cs_thr forallb t_fin RefineE2EfLay.mk ct_st]. apply forallb_forall. intros t Ht.
    rewrite (workers_done T (wpcs _ s) g Lw Hd t Ht). reflexivity.
Qed.
End DecTail.

(* ================= the last step of the main thread of execute_encrypt, given writeFileHmac ================= *)
From Wencry Require Import HashModel RefineSeq RefineE2EfEnc.
From Wencry Require RefineAesLib.

Definition get_htype_call : stmt := SCall (Some "$t5") "Settings::get_htype/0" (Some (EField "settings.")) [].
Definition wfh_call : stmt :=
  SCall None "hmac::writeFileHmac/6" (Some (EField "hmachandle."))
        [ECast U8 (EVar "$t5"); EPtrVar (EField "out"); EPtrVar (EField "key"); ECast U8 (EConst 48); ECast U8 (EConst 10); EVar "fsize"].
Definition over_call : stmt := SCall None "runcrypt::over/0" None [].
Definition enc_R : stmt := SSeq get_htype_call (SSeq wfh_call (SSeq release_call (SSeq over_call (SReturn (Some (EConst 1)))))).
Definition enc_K1 : kont := KCall (Some "result") [] "" KStop.
Lemma wfh_wf : wf_ok whole_prog 40 wfh_call = true.
Proof. vm_compute. reflexivity. Qed.

(* THE NAMED PREMISE about hmac::writeFileHmac on the state after the concurrent phase (heap hash objects): it computes the model's tag of
   everything from offset 48 of the output stream, patches it in at offset 10, leaves the input stream alone, and keeps what the rest of
   execute_encrypt still reads (threads_num, the cells of the mode array, the stream pointers). *)
(* what the state after the concurrent phase gives about the memory of the stream objects (RefineE2EfWLay.sm_names_ok, part of
   w_srep): no name of a heap object from the next fresh number on, no "sizeof:" override -- the allocations of the hash objects
   need both (without them the premise below would be false: counterexamples of agent proof-hash) *)
Definition sm_ok (P : wpar) (T : nat) (d : mdata) : Prop := sm_names_ok P T (d_sm d).

Definition writeFileHmac_spec (P : wpar) (c hbuf T : nat) (hm : N) (key : list N) : Prop :=
  forall (input0 : list N) (d : mdata) (l : locs) (fsize : Z),
    Forall (fun z => 0 <= z < 256)%Z (d_out d) -> sm_ok P T d ->
    (exists body, d_out d = (wp_out0 P ++ body)%list) ->
    let s := tst (sh_fin_w P c T true input0 d) l "rc." in
    let DN := map Z.to_N (d_out d) in
    exists fuel tag s' fo,
      hmac_model hbuf hm key (skipn iv_mark DN) = Some tag /\
      call whole_prog [] fuel "hmac::writeFileHmac/6" "rc.hmachandle."
           [VInt (Z.of_N hm); VPtr "fout" 0; VPtr "key" 0; VInt 48; VInt 10; VInt fsize] s = Ok (None, s') /\
      files s' = [("fin", {| cf_data := map Z.of_N input0; cf_pos := d_pos d; cf_eof := d_eof d |}); ("fout", fo)] /\
      cf_data fo = map Z.of_N (patch DN hmac_mark tag) /\
      mget (mem s') "rc.threads_num" = mget (mem s) "rc.threads_num" /\
      (forall i, (i < T)%nat -> lget (ptrs s') (ptr_key (wMA P) (8 * Z.of_nat i)) = lget (ptrs s) (ptr_key (wMA P) (8 * Z.of_nat i))) /\
      lget (ptrs s') "rc.fin" = lget (ptrs s) "rc.fin" /\ lget (ptrs s') "rc.out" = lget (ptrs s) "rc.out".

Section EncTail.
Variable P : wpar.
Hypothesis OK : wpar_ok P.
Variables (c hbuf T : nat) (Pl key seed : list N) (cm hm : N).
Hypothesis Hhm : (hm <= 2)%N.
Hypothesis HTT : (1 <= T <= 16)%nat.
Hypothesis Ekb : forall T pad, wp_kb P T pad = kbot_of enc_R enc_K1.
Hypothesis Etd : forall T pad, wp_tdone P T pad = tdone_of enc_R enc_K1 (wp_blocs P T pad) (wp_bpre P).
Hypothesis Ebp : wp_bpre P = "rc.".
Hypothesis Hiv : forall T pad, exists v, lget (wp_blocs P T pad) "iv" = Some v.
Hypothesis Hmode : forall T pad, lget (wp_blocs P T pad) "mode" = Some (VPtr (wMA P) 0).
Hypothesis Hfs : forall T pad, exists z, lget (wp_blocs P T pad) "fsize" = Some (VInt z).
Hypothesis Hthr : forall c T, mget (wp_memA P c T) "rc.threads_num" = Some (cell U8 (Z.of_nat T)).
Hypothesis Hht : forall c T, mget (wp_memA P c T) "rc.settings.htype" = Some (cell I8 (Z.of_N hm)).
Hypothesis Hfin : forall T, lget (wp_pA P T) "rc.fin" = Some (VPtr "fin" 0).
Hypothesis Hfout : forall T, lget (wp_pA P T) "rc.out" = Some (VPtr "fout" 0).
Hypothesis Hkey : forall T, lget (wp_pA P T) "rc.key" = Some (VPtr "key" 0).
Hypothesis Hout0 : wp_out0 P = map Z.of_N (file_header cm hm (iv_chain seed T) T).
Hypothesis WFH : writeFileHmac_spec P c hbuf T hm key.

Local Instance LYU : Layout := wlayout P.
Definition DKU : wdone_ok P := wdone_of P (fun _ _ => enc_R) (fun _ _ => enc_K1) OK Ekb Etd.
Local Instance LOU : LayoutOk := wlayout_ok P OK DKU.
Notation sh_fin := (sh_fin_w P).

Lemma e_frame_ptr : forall k v, lget (wp_pA P T) k = Some v -> k <> "instance" -> lget (lset (w_ptrs_of P T) "instance" VNull) k = Some v.
Proof. intros k v H N. rewrite lget_lset_other' by exact N. unfold w_ptrs_of. rewrite RefineConcMem.lget_app, H. reflexivity. Qed.
Lemma e_mode_cell : forall i, (i < T)%nat -> lget (lset (w_ptrs_of P T) "instance" VNull) (ptr_key (wMA P) (8 * Z.of_nat i)) = Some (VPtr (wmp P i) 0).
Proof.
  intros i Hi. rewrite lget_lset_other'.
  - apply (w_lget_mode_cell P OK). exact Hi.
  - intros E. pose proof (hnum_MAkey P (8 * Z.of_nat i) ltac:(lia)) as H. rewrite E in H. discriminate H.
Qed.

Lemma enc_last_exr : forall ws d g, Forall (fun z => 0 <= z < 256)%Z (d_out d) -> sm_ok P T d ->
  (exists body, d_out d = (wp_out0 P ++ body)%list) ->
  exists tag sh2 fo,
    hmac_model hbuf hm key (skipn iv_mark (map Z.to_N (d_out d))) = Some tag /\
    files sh2 = [("fin", {| cf_data := map Z.of_N Pl; cf_pos := d_pos d; cf_eof := d_eof d |}); ("fout", fo)] /\
    cf_data fo = map Z.of_N (patch (map Z.to_N (d_out d)) hmac_mark tag) /\
    exists n, cstep prog vt n (cstate_md c T true Pl I_Done ws d g) 0 =
      Ok (put 0 t_fin (C sh2 (threads_of T true I_Done ws (d_turn d) g) []), [(14, 0, 0)]%Z).
Proof.
  intros ws d g Hbytes Hsmok Hhd.
  destruct (Hiv T true) as [viv Hviv]. pose proof (Hmode T true) as Hm. destruct (Hfs T true) as [fsz Hfsz].
  set (blocs := wp_blocs P T true) in *.
  set (blocs5 := lset blocs "$t5" (VInt (Z.of_N hm))).
  destruct (WFH Pl d blocs5 fsz Hbytes Hsmok Hhd) as (fuel & tag & s' & fo & Htag & Hcall & Hfiles & Hfo & Hmt & Hcells & Hpf & Hpo).
  set (s0 := tst (sh_fin c T true Pl d) blocs5 "rc.") in *.
  (* the call statement in big steps, then as machine steps *)
  assert (Els : loc s' = blocs5 /\ pre s' = "rc.").
  { unfold call in Hcall. destruct (lget whole_prog "hmac::writeFileHmac/6") as [fn|]; [|discriminate Hcall].
    destruct (bind_params (f_params fn) _) as [l1| |]; cbn [bind] in Hcall; try discriminate Hcall.
    destruct (exec whole_prog [] fuel (f_body fn) _) as [[o1 s1]| |]; cbn [bind] in Hcall; try discriminate Hcall.
    injection Hcall as _ <-. split; reflexivity. }
  destruct Els as [Eloc Epre].
  set (s2 := s').
  assert (Eex : exec whole_prog [] (S fuel) wfh_call s0 = Ok (Normal, s2)).
  { unfold wfh_call. eapply (RefineAesLib.x_call whole_prog [] fuel None "hmac::writeFileHmac/6" (Some (EField "hmachandle.")) _ s0
                               [VInt (Z.of_N hm); VPtr "fout" 0; VPtr "key" 0; VInt 48; VInt 10; VInt fsz] "rc.hmachandle." None s' s2).
    - cbn [eval_list eval s0 tst loc pre ptrs sh_fin_w append bind].
      replace (lget blocs5 "$t5") with (Some (VInt (Z.of_N hm))) by (unfold blocs5; symmetry; apply lget_lset_same).
      replace (lget blocs5 "fsize") with (Some (VInt fsz)) by (unfold blocs5; rewrite lget_lset_other by discriminate; symmetry; exact Hfsz).
      rewrite (e_frame_ptr "rc.out" _ (Hfout T)) by discriminate. rewrite (e_frame_ptr "rc.key" _ (Hkey T)) by discriminate.
      cbn [bind as_int]. rewrite (wrap_U8_small (Z.of_N hm)) by lia. reflexivity.
    - reflexivity.
    - exact Hcall.
    - reflexivity. }
  set (sh2 := shared_of s2).
  assert (Hsh2 : shared_of sh2 = sh2) by reflexivity.
  assert (Hth2 : mget (mem sh2) "rc.threads_num" = Some (cell U8 (Z.of_nat T))).
  { unfold sh2, s2. cbn [shared_of mem]. rewrite Hmt. unfold s0. cbn [mem tst sh_fin_w].
    rewrite (mget_plain P) by (try reflexivity; try discriminate; rewrite Hthr; discriminate). apply Hthr. }
  assert (Hcell2 : forall i, (i < T)%nat -> exists v, lget (ptrs sh2) (ptr_key (wMA P) (8 * Z.of_nat i)) = Some v).
  { intros i Hi. unfold sh2, s2. cbn [shared_of ptrs]. rewrite (Hcells i Hi). unfold s0. cbn [ptrs tst sh_fin_w]. eexists. apply e_mode_cell. exact Hi. }
  assert (Hf2 : lget (ptrs sh2) "rc.fin" = Some (VPtr "fin" 0)).
  { unfold sh2, s2. cbn [shared_of ptrs]. rewrite Hpf. unfold s0. cbn [ptrs tst sh_fin_w]. apply (e_frame_ptr _ _ (Hfin T)). discriminate. }
  assert (Ho2 : lget (ptrs sh2) "rc.out" = Some (VPtr "fout" 0)).
  { unfold sh2, s2. cbn [shared_of ptrs]. rewrite Hpo. unfold s0. cbn [ptrs tst sh_fin_w]. apply (e_frame_ptr _ _ (Hfout T)). discriminate. }
  set (thr := threads_of T true I_Done ws (d_turn d) g).
  set (Krel := KSeq (SSeq over_call (SReturn (Some (EConst 1)))) (KCall (Some "result") [] "" KStop)).
  destruct (g_release_leads P sh2 T Hsh2 ltac:(lia) Hth2 Hcell2 thr [] [] Krel blocs5 viv
              ltac:(unfold blocs5; rewrite lget_lset_other by discriminate; exact Hviv)
              ltac:(unfold blocs5; rewrite lget_lset_other by discriminate; exact Hm)) as [Nr HNr].
  destruct (RefineSeq.sim whole_prog [] _ _ _ _ _ _ wfh_wf Eex (KSeq (SSeq release_call (SSeq over_call (SReturn (Some (EConst 1))))) (KCall (Some "result") [] "" KStop)) TRun ltac:(discriminate)) as [nw MS].
  exists tag, sh2, fo. split; [exact Htag|]. split; [unfold sh2, s2; cbn [shared_of files]; exact Hfiles|]. split; [exact Hfo|].
  unfold cstate_md.
  eapply cstep_run_u; [apply nth_thread_io | cbn [io_thread]; apply Tdone_st | | ].
  { cbn [io_thread]. change (Tdone T true) with (wp_tdone P T true). rewrite Etd. reflexivity. }
  exists (100 + nw + Nr)%nat. cbn [io_thread]. change (Tdone T true) with (wp_tdone P T true). rewrite Etd, Ebp.
  unfold tdone_of, RefineE2EfLay.mk. fold blocs.
  replace (100 + nw + Nr)%nat with (20 + (80 + nw + Nr))%nat by lia. cbn [Nat.add].
  eapply r_lock; [discriminate | left; reflexivity | eapply m_lock; reflexivity | reflexivity | cbn [cont_conf next_of]].
  cbv [di_rest di_then di_body f_body Src_conc.f_buffergroup_del_instance_0].
  mstep. mstep. mstep.
  eapply r_none; [discriminate | right; reflexivity | | ].
  { eapply (m_atomic _ _ _ _ _ (SDelete _) Normal); [reflexivity|]. cbn [exec]. erewrite ev_ptrvar; [cbn [bind]; reflexivity | reflexivity | apply lget_instance]. }
  cbn [cont_conf next_of loc tst shared_of mem files ptrs fresh sh_of].
  eapply r_none; [discriminate | right; reflexivity | | ].
  { eapply (m_atomic _ _ _ _ _ (SSetPtr _ _) Normal); [reflexivity|]. cbn [exec eval bind]. reflexivity. }
  cbn [cont_conf next_of loc tst shared_of with_ptrs mem files ptrs fresh sh_of].
  mstep.
  change (shared_of (with_ptrs (tst (shared_of (tst (sh_of c T true Pl d) [] "rc.")) [] "rc.") (lset (ptrs_of T) "instance" VNull))) with (sh_fin c T true Pl d).
  mstep. unfold enc_R. mstep. unfold get_htype_call.
  eapply r_none; [discriminate | right; reflexivity | | ].
  { eapply (m_call _ _ _ _ _ (Some "$t5") "Settings::get_htype/0" (Some (EField "settings.")) [] [] "rc.settings." Src_whole.f_Settings_get_htype_0 []); reflexivity. }
  cbn [f_body Src_whole.f_Settings_get_htype_0].
  eapply r_none; [discriminate | right; reflexivity | | ].
  { eapply m_return with (v := VInt (Z.of_N hm)); [ | reflexivity | reflexivity].
    cbn [eval tst pre mem sh_fin_w append bind].
    rewrite (mget_plain P) by (try reflexivity; try discriminate; rewrite Hht; discriminate). rewrite Hht. rewrite load_cell.
    replace (wrap I8 (Z.of_N hm)) with (Z.of_N hm); [reflexivity|].
    unfold wrap. cbn [ity_bits ity_signed]. change (2 ^ 8)%Z with 256%Z. change (256 / 2)%Z with 128%Z. rewrite Z.mod_small by lia. lia. }
  cbn [loc with_loc tst]. fold blocs5.
  mstep. mstep.
  change (shared_of (tst (sh_fin c T true Pl d) [] "rc.settings.")) with (sh_fin c T true Pl d).
  unfold enc_K1.
  eapply exr_weaken; [eapply (@leads_mstar LYU 0 _ _ _ _ _ (threads_of T true I_Done ws (d_turn d) g) [] [] MS (40 + Nr)%nat) | cbn [Nat.add]; lia].
  cbn [cont_conf next_of]. unfold s2. rewrite Eloc. cbn [pre s0 tst]. fold sh2. fold thr.
  eapply r_none; [discriminate | right; reflexivity | apply m_seq | ].
  eapply exr_weaken; [eapply (HNr 30%nat) | lia].
  eapply r_none; [discriminate | right; reflexivity | apply m_skip | cbn [cont_conf next_of]].
  eapply r_none; [discriminate | right; reflexivity | apply m_seq | ].
  eapply exr_weaken; [eapply (g_over_leads P sh2 T ltac:(lia) Hcell2 Hf2 Ho2 thr [] [] _ blocs5 15%nat) | lia].
  eapply r_none; [discriminate | right; reflexivity | apply m_skip | cbn [cont_conf next_of]].
  eapply r_none; [discriminate | right; reflexivity | | ].
  { eapply m_return with (v := VInt 1); reflexivity. }
  cbn [loc with_loc tst lset].
  eapply r_none; [discriminate | right; reflexivity | apply m_skip | cbn [cont_conf next_of]].
  eapply r_done; [reflexivity | reflexivity].
Qed.


Lemma enc_last_step : forall s cs, RefineE2EfRel.sim c T true Pl s cs -> terminal LS s = true -> forall fuel,
  cstep whole_prog [] fuel cs 0 = NoFuel \/
  exists cs' evs, cstep whole_prog [] fuel cs 0 = Ok (cs', evs) /\ Qfin hbuf T Pl key seed cm hm P s cs' /\ enabled_list cs' = [] /\ all_tdone cs' = true.
Proof.
  intros s cs (d & g & -> & Hdr & Htg & Hre) Hterm fuel.
  pose proof Hdr as (Lb & Lw & Lx & Ldb & Ldn & Htu & HtT & Hov & Hlv & HlT & Hcr & Hout & _ & Hsr & _).
  assert (Hsmok : sm_ok P T d).
  { specialize (Hsr 0%nat ltac:(lia)). change (w_srep P T 0 (nth 0 (wsts _ s) LdS) (d_sm d)) in Hsr. exact (proj2 (proj2 (proj2 (proj2 Hsr)))). }
  assert (Hhd : exists body, d_out d = (wp_out0 P ++ body)%list) by (eexists; exact Hout).
  unfold terminal in Hterm. destruct (io _ s) eqn:Eio; try discriminate Hterm.
  assert (Hd : forall j, (j < T)%nat -> nth j (wpcs _ s) W_Done = W_Done).
  { intros j Hj. assert (In (nth j (wpcs _ s) W_Done) (wpcs _ s)) by (apply nth_In; lia).
    pose proof (proj1 (forallb_forall _ _) Hterm _ H) as Q. destruct (nth j (wpcs _ s) W_Done); try discriminate Q; reflexivity. }
  destruct (enc_last_exr (wpcs _ s) d g Ldn Hsmok Hhd) as (tag & sh2 & fo & Htag & Hfiles & Hfo & n & Hn).
  destruct (cstep_total n _ 0 _ Hn fuel) as [E|E]; [left; exact E|right].
  eexists. eexists. split; [exact E|].
  assert (EDN : map Z.to_N (d_out d) = (file_header cm hm (iv_chain seed T) T ++ concat (output _ s))%list).
  { rewrite Hout. change Lout0 with (wp_out0 P). rewrite Hout0. rewrite <- map_app. apply map_to_of_N. }
  unfold put, C. cbn [cs_sh cs_thr cs_mx threads_of set_nth_t].
  split; [|split].
  - unfold Qfin. exists tag. rewrite <- EDN. split; [exact Htag|].
    unfold out_bytes, in_bytes, main_result. cbn [cs_sh cs_thr nth_error t_fin RefineE2EfLay.mk ct_loc]. rewrite Hfiles.
    cbn [lget String.eqb Ascii.eqb Bool.eqb cf_data]. rewrite Hfo.
    split; [apply map_to_of_N|]. split; [reflexivity|apply map_to_of_N].
  - unfold enabled_list. cbn [cs_thr List.length]. rewrite map_length, seq_length. cbn [seq filter].
    assert (E0 : enabled {| cs_sh := sh2; cs_thr := t_fin :: map (fun i => worker_thread i (nth i (wpcs _ s) W_Done) (nth i (g_wl g) [])) (seq 0 T); cs_mx := [] |} 0 = false) by reflexivity.
    rewrite E0.
    assert (G : forall l, (forall i, In i l -> (1 <= i <= T)%nat) ->
              filter (enabled {| cs_sh := sh2; cs_thr := t_fin :: map (fun i => worker_thread i (nth i (wpcs _ s) W_Done) (nth i (g_wl g) [])) (seq 0 T); cs_mx := [] |}) l = []).
    { induction l as [|i l IH]; intros H; [reflexivity|]. cbn [filter].
      assert (Hi : (1 <= i <= T)%nat) by (apply H; left; reflexivity). destruct i as [|i]; [lia|].
      unfold enabled at 1, nth_thread. cbn [cs_thr nth_error]. rewrite nth_error_map_seq by lia. cbn [Nat.add]. rewrite Hd by lia.
      cbn [worker_thread RefineE2EfLay.mk ct_st]. apply IH. intros j Hj. apply H. right. exact Hj. }
    apply G. intros i Hi. apply in_seq in Hi. lia.
  - unfold all_tdone. cbn [cs_thr forallb t_fin RefineE2EfLay.mk ct_st]. apply forallb_forall. intros t Ht.
    rewrite (workers_done_g LYU T (wpcs _ s) g Lw Hd t Ht). reflexivity.
Qed.
End EncTail.
