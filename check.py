#!/usr/bin/env python3
"""usage: check.py <property id> [quick|thorough]   |   check.py --setup"""
import importlib, os, sys, traceback
sys.path.insert(0, os.path.dirname(os.path.abspath(__file__)))
sys.path.insert(0, os.path.join(os.path.dirname(os.path.abspath(__file__)), "tools"))
import wv


def setup():
    ok, out = wv.run_gen()
    print(out)
    ok2, out2 = wv.coq_make([f[:-2] + ".vo" for f in wv.coq_files()])
    print(out2[-3000:])
    if not ok2:
        # a theorem file that does not build makes ITS check report a violation; setup itself only needs the tool chain
        print("setup: some .vo files were not produced (reported by the corresponding checks)")
    ok3 = os.path.exists(os.path.join(wv.COQ, "Extract.vo"))
    wv.build_model_driver()
    import os as _os
    for kw in ({}, {"buf": 4, "hbuf": 4}, {"buf": 4, "hbuf": 4, "extra_flags": ["-include", _os.path.join(wv.HARNESS, "shim.h")]}, {"kind": "cli"}):
        exe, err = wv.build_impl(**kw)
        if exe is None:
            print(err)
            ok3 = False
    return 0 if ok and ok3 else 1


def main():
    if len(sys.argv) >= 2 and sys.argv[1] == "--setup":
        return setup()
    pid = sys.argv[1]
    tier = sys.argv[2] if len(sys.argv) > 2 else os.environ.get("VERIF_TIER", "quick")
    mod = importlib.import_module("props." + pid)
    ck = wv.Check(pid, tier)
    try:
        return mod.run(ck)
    except wv.BuildError as e:
        print("BUILD-ERROR: the implementation no longer builds with the harness:\n" + str(e))
        ck.violation("the driver no longer builds against /repo: the property is no longer shown to hold", {"class": None, "broken": "build of harness against /repo", "output": str(e)[-3000:]}, found_input=False)
        ck.cov["evaluations"] = max(1, ck.cov["evaluations"])
        return ck.finish(level="proof", rule="build failed")


if __name__ == "__main__":
    sys.exit(main())
