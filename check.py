#!/usr/bin/env python3
"""usage: check.py <property id> [quick|thorough]   |   check.py --setup"""
import importlib, os, sys, traceback
sys.path.insert(0, os.path.dirname(os.path.abspath(__file__)))
sys.path.insert(0, os.path.join(os.path.dirname(os.path.abspath(__file__)), "tools"))
import wv


def setup():
    ok, out = wv.run_gen()
    print(out)
    ok2, out2 = wv.coq_make([f[:-2] + ".vo" for f in wv.coq_files()], timeout=3000, per_file=1200)
    print(out2[-3000:])
    if not ok2:
        # compiled files left over from another state of the sources (copied sandboxes keep build output): rebuild from scratch once
        import glob
        for pat in ("*.vo", "*.vok", "*.vos", "*.glob", "Gen/*.vo", "Gen/*.vok", "Gen/*.vos", "Gen/*.glob", ".*.aux", "Gen/.*.aux", "Makefile", "Makefile.conf", ".Makefile.d"):
            for f in glob.glob(os.path.join(wv.COQ, pat)):
                os.remove(f)
        print("setup: rebuilding the Coq development from scratch")
        ok2, out2 = wv.coq_make([f[:-2] + ".vo" for f in wv.coq_files()], timeout=3000, per_file=1200)
        print(out2[-3000:])
    if not ok2:
        # a theorem file that does not build makes ITS check report a violation; setup itself only needs the tool chain
        print("setup: some .vo files were not produced (reported by the corresponding checks)")
    ok3 = os.path.exists(os.path.join(wv.COQ, "Extract.vo"))
    wv.build_model_driver()
    import os as _os
    for kw in ({}, {"buf": 4, "hbuf": 4}, {"buf": 4, "hbuf": 4, "extra_flags": ["-include", _os.path.join(wv.HARNESS, "shim.h")]}, {"kind": "cli"}):
        exe, err = wv.build_impl(**kw)
        if exe is None:
            print(err)
            ok3 = False
    return 0 if ok and ok3 else 1


def replay(pid, path):
    """re-runs the failing case of a replay file on the current /repo tree and shows implementation / model / spec"""
    import json, subprocess
    d = json.load(open(path))
    print("property %s: %s" % (d.get("property"), d.get("what")))
    flags = d.get("driver_flags", "") or ""
    kw = {}
    if "BUF_SZ=4" in flags:
        kw.update(buf=4, hbuf=4)
    if "shim.h" in flags:
        kw["extra_flags"] = ["-include", os.path.join(wv.HARNESS, "shim.h")]
    env = {"WV_SCRATCH": "/tmp", "WV_BUF": "4" if "BUF_SZ=4" in flags else "1048576", "WV_HBUF": "4" if "BUF_SZ=4" in flags else "524288"}
    lines = []
    if "argv" in d:
        exe, err = wv.build_impl(kind="cli")
        print("argv:", d["argv"], "\n(run it in a directory laid out as:", d.get("cwd_layout"), ")")
        return 0
    if "sched_seed" in d:
        lines.append("x @WV_SCHED_SEED=%s,WV_YIELD_IN_CS=%s,WV_SCHED_POLICY=%s pipe %s %d %s" % (d["sched_seed"], d.get("yield_in_cs", 0), d.get("policy", 0) % 10, d["T"], 1 if d.get("ispadding") else 0, d["input_hex"] or "-"))
    elif "input_file_hex" in d:
        lines.append("d dec %s %s %s" % (d["T"], d["key"], d["input_file_hex"] or "-"))
        lines.append("v ver %s %s %s" % (d["T"], d["key"], d["input_file_hex"] or "-"))
    elif "case" in d:
        lines.append("x " + d["case"])
    elif "history" in d:
        print("history:", d["history"])
        return 0
    else:
        print(json.dumps(d, indent=1)[:3000])
        return 0
    exe, err = wv.build_impl(**kw)
    if exe is None:
        print(err)
        return 2
    impl = wv.run_lines([exe], lines, shards=1, env=env)
    mdrv = wv.build_model_driver()
    plain = [l for l in lines if "@" not in l.split()[1]]
    model = wv.run_lines([mdrv], plain, shards=1, env=env)
    spec = wv.run_lines([mdrv, "spec"], plain, shards=1, env=env)
    for l in lines:
        i = l.split()[0]
        print("case   :", l[:300])
        print("  implementation now :", impl.get(i, "")[:300])
        if i in model:
            print("  model              :", model.get(i, "")[:300])
            print("  spec               :", spec.get(i, "")[:300])
        for k in ("implementation", "expected", "spec", "decrypt", "verify", "expected_decrypt"):
            if k in d:
                print("  recorded %-10s:" % k, str(d[k])[:300])
    return 0


def main():
    if len(sys.argv) >= 2 and sys.argv[1] == "--setup":
        return setup()
    pid = sys.argv[1]
    if len(sys.argv) > 3 and sys.argv[2] == "--replay":
        return replay(pid, sys.argv[3])
    tier = sys.argv[2] if len(sys.argv) > 2 else os.environ.get("VERIF_TIER", "quick")
    mod = importlib.import_module("props." + pid)
    ck = wv.Check(pid, tier)
    try:
        return mod.run(ck)
    except wv.BuildError as e:
        print("BUILD-ERROR: the implementation no longer builds with the harness:\n" + str(e))
        ck.violation("the driver no longer builds against /repo: the property is no longer shown to hold", {"class": None, "broken": "build of harness against /repo", "output": str(e)[-3000:]}, found_input=False)
        ck.cov["evaluations"] = max(1, ck.cov["evaluations"])
        return ck.finish(level="proof", rule="build failed")


if __name__ == "__main__":
    sys.exit(main())
