"""C13: an interrupted encryption never leaves a file that verifies."""
from props.suite import *

THEOREMS = ["C13_interrupted_encryption_never_verifies", "C13_complete_and_short_states", "C13_tag_field_zero_until_the_end"]


def run(ck):
    ck.prove(["Properties_C13", "SrcRun5"], THEOREMS)   # SrcRun5: the translated encryption whose write order is observed
    exe = small_driver(ck)
    env = small_env(ck)
    mdrv = ck.model_driver()
    big = ck.tier == "thorough"
    r = ck.rng
    cases = enc_cases(ck, 24 if big else 10, maxchunks=3)
    lines = []
    for i, c in enumerate(cases):
        lines.append("b%d %s" % (i, c.line()))              # stdio-buffered output stream
        lines.append("u%d %s nobuf" % (i, c.line()))        # unbuffered: every fwrite reaches the stream separately
    impl = wv.run_lines([exe], lines, env=env)
    mw = wv.run_lines([mdrv], ["w%d encw %s" % (i, c.line()[4:]) for i, c in enumerate(cases)], env=env)
    items = []
    shape_breaks = []
    dist = ck.cov.setdefault("case_classes", {})
    for i, c in enumerate(cases):
        for tag in ("b", "u"):
            head, kv = split_impl(impl.get("%s%d" % (tag, i), "(no output)"))
            rep = {"class": None, "case": c.line(), "stream": "buffered" if tag == "b" else "unbuffered", "driver_flags": ck.impl_flags, "implementation": head[:200], "wlog": kv.get("wlog")}
            if not head.startswith("OK ") or "wlog" not in kv:
                ck.violation("encryption failed: " + head[:40], rep)
                continue
            final = bytes.fromhex(head.split()[1])
            wl = [tuple(int(v) for v in w.split(":")) for w in kv["wlog"].split(",")]
            data = bytes.fromhex(kv.get("wdata", "")) if kv.get("wdata", "-") != "-" else b""
            hl = HL[c.hm]
            # the recorded sequence must be an instance of the model's family: contiguous appends from 0, then hlen bytes at 10, last
            pos, ok_shape = 0, True
            for (off, ln) in wl[:-1]:
                ok_shape &= (off == pos)
                pos += ln
            ok_shape &= wl[-1] == (10, hl) and pos == len(final)
            mfam = mw.get("w%d" % i, "")
            if not ok_shape:
                # not an instance of the model's family: the correspondence is broken; the states are still reconstructed and
                # judged by the property itself below
                shape_breaks.append((rep, kv["wlog"][:200], hl))
            # reconstruct intermediate states: after every write, and byte prefixes inside each write
            state = bytearray()
            dpos = 0
            states = []
            for wi, (off, ln) in enumerate(wl):
                chunk = data[dpos:dpos + ln]
                dpos += ln
                cuts = range(1, ln + 1) if (big or ln <= 24) else sorted(set([1, 2, ln // 2, ln - 1, ln] + [r.randrange(1, ln + 1) for _ in range(4)] + [k - off for k in (8, 9, 10, 10 + hl, 48, 73, 74, 75, 48 + 20 * c.T) if off < k <= off + ln]))
                base = bytes(state)
                for k in cuts:
                    s = bytearray(base)
                    if len(s) < off + k:
                        s.extend(bytes(off + k - len(s)))
                    s[off:off + k] = chunk[:k]
                    states.append((bytes(s), wi, k, ln))
                if len(state) < off + ln:
                    state.extend(bytes(off + ln - len(state)))
                state[off:off + ln] = chunk
            if bytes(state) != final:
                ck.violation("replaying the recorded writes does not give the final file", rep)
                continue
            states.append((b"", 0, 0, 0))
            for (s, wi, k, ln) in states:
                complete = (s == final)
                items.append((c.T, c.key, s, {"case": c, "complete": complete, "cls": ("final" if complete else "during-tag-write" if wi == len(wl) - 1 else "during-body"), "where": "write %d/%d, %d of %d bytes, %s stream" % (wi + 1, len(wl), k, ln, "buffered" if tag == "b" else "unbuffered")}))
    res = run_inputs(ck, exe, env, items)
    distinct, corr, last = set(), 0, None
    for x in res:
        m = x["meta"]
        ck.cov["evaluations"] += 1
        dist[m["cls"]] = dist.get(m["cls"], 0) + 1
        distinct.add(x["data"])
        bad = None
        if m["complete"]:
            if not x["ver"].startswith("OK"):
                bad = "the completely written file does not verify"
        elif x["ver"].startswith("OK") or x["dec"].startswith("OK"):
            bad = "a partially written output file (%s) is accepted: verify %s decrypt %s" % (m["where"], x["ver"][:8], x["dec"][:16])
        elif not (x["ver"].startswith("FAIL") and x["dec"].startswith("FAIL")):
            bad = "verify/decrypt of a partially written file did not fail cleanly: %s / %s" % (x["ver"][:20], x["dec"][:20])
        if bad:
            ck.violation(bad, replay_of(ck, x, {"state": m["where"], "case": m["case"].line()[:300]}))
            continue
        if not corr_ok(x):
            corr += 1
            last = replay_of(ck, x, {"state": m["where"]})
        if len(ck.cov["samples"]) < 8 and (m["cls"], len(x["data"]) < 74) not in [(s.get("class"), s.get("short")) for s in ck.cov["samples"]]:
            ck.cov["samples"].append({"class": m["cls"], "short": len(x["data"]) < 74, "state": m["where"], "state_len": len(x["data"]), "verify": x["ver"], "decrypt": x["dec"][:20]})
    # the ORDER of the writes as the translated source performs them (SrcRun5.src_encrypt_snapshots: the output stream after every
    # machine step of the translated execute_encrypt that changed it, under a seeded scheduler): every snapshot must be a moment
    # of the model's family -- a prefix of the file with an all-zero tag field, or the finished file (reached last)
    sl = ["n%d @S=%d encsnap %s" % (i, r.randrange(1 << 30), c.line()[4:]) for i, c in enumerate(cases)]
    snaps = wv.run_lines([mdrv, "src"], sl, shards=wv.NCPU, env=env, timeout=1200)
    snapbad = []
    for i, c in enumerate(cases):
        got = snaps.get("n%d" % i)
        head, _ = split_impl(impl.get("u%d" % i, ""))
        if got is None or not head.startswith("OK "):
            continue
        final = bytes.fromhex(head.split()[1])
        zt = bytearray(final)
        zt[10:10 + HL[c.hm]] = bytes(HL[c.hm])
        why = None
        if not got.startswith("OK "):
            why = got[:80]
        else:
            ss = [bytes.fromhex(x) if x != "-" else b"" for x in got[3:].split(",")]
            ck.cov["snapshots_of_translated_encryption"] = ck.cov.get("snapshots_of_translated_encryption", 0) + len(ss)
            for j, sn in enumerate(ss):
                if sn != final and sn != bytes(zt[:len(sn)]):
                    why = "snapshot %d of %d (%d bytes) is neither a prefix of the file with a zero tag field nor the finished file" % (j + 1, len(ss), len(sn))
                    break
                if sn == final and j != len(ss) - 1:
                    why = "the finished file is reached before the last change of the output stream"
                    break
            if why is None and (not ss or ss[-1] != final):
                why = "the last snapshot is not the file the implementation wrote"
        if why:
            snapbad.append({"class": None, "case": c.line()[:2000], "difference": why, "broken": "correspondence: order of the writes of the translated encryption vs the model's family"})
    ck.cov["disagreements_source_vs_impl"] = ck.cov.get("disagreements_source_vs_impl", 0) + len(snapbad)
    if snapbad and not ck.violations:
        ck.violation("the output stream of the translated encryption passes through a state outside the family the theorem is about (%s) but no crash state of the implementation verified" % snapbad[0]["difference"][:120], snapbad[0], found_input=False)
    if shape_breaks and not ck.violations:
        rep, wl, hl = shape_breaks[0]
        rep["broken"] = "correspondence: recorded write sequence is not an instance of the model's family (sequential appends, then %d tag bytes at offset 10 as the last write)" % hl
        ck.violation("the write sequence reaching the output (%s) is not the one the theorem is about, but no intermediate state verified" % wl, rep, found_input=False)
    ck.cov["distinct_nontrivial"] = len(distinct)
    ck.cov["encryptions"] = len(cases) * 2
    ck.cov["disagreements_model_vs_impl"] = corr
    if corr and not ck.violations:
        last["broken"] = "correspondence dec/ver model vs implementation on crash states"
        ck.violation("correspondence model/implementation no longer checks on %d crash states, no property violation found" % corr, last, found_input=False)
    return finish_proof(ck, rule="%d encryptions (each with a stdio-buffered and an unbuffered output stream, writes recorded below stdio by a custom FILE cookie); the recorded write sequence must be an instance of the model's family (contiguous appends, then hlen bytes at offset 10, last); every state after a write and byte prefixes inside each write (thorough: every byte prefix) is reconstructed and given to the real verify and decrypt. distinct = distinct reconstructed states" % len(cases),
                        assumptions=["the OS applies the bytes of successive writes in order (a crash leaves a byte prefix of the write stream)", "a zero-tag crash state verifies only if HMAC(key, bytes from 48) is all zero: explicit residual event in the theorem, probability 2^-8hlen under the PRF assumption"])
