"""C13: an interrupted encryption never leaves a file that verifies."""
from props.suite import *

THEOREMS = ["C13_interrupted_encryption_never_verifies", "C13_complete_and_short_states", "C13_tag_field_zero_until_the_end"]


def run(ck):
    ck.prove(["Properties_C13", "SrcRun5"], THEOREMS)   # SrcRun5: the translated encryption whose write order is observed
    exe = small_driver(ck)
    env = small_env(ck)
    mdrv = ck.model_driver()
    big = ck.tier == "thorough"
    r = ck.rng
    cases = enc_cases(ck, 24 if big else 10, maxchunks=3)
    lines = []
    for i, c in enumerate(cases):
        lines.append("b%d %s" % (i, c.line()))              # stdio-buffered output stream
        lines.append("u%d %s nobuf" % (i, c.line()))        # unbuffered: every fwrite reaches the stream separately
    impl = wv.run_lines([exe], lines, env=env)
    mw = wv.run_lines([mdrv], ["w%d encw %s" % (i, c.line()[4:]) for i, c in enumerate(cases)], env=env)
    items = []
    shape_breaks = []
    dist = ck.cov.setdefault("case_classes", {})
    for i, c in enumerate(cases):
        for tag in ("b", "u"):
            head, kv = split_impl(impl.get("%s%d" % (tag, i), "(no output)"))
            rep = {"class": None, "case": c.line(), "stream": "buffered" if tag == "b" else "unbuffered", "driver_flags": ck.impl_flags, "implementation": head[:200], "wlog": kv.get("wlog")}
            if not head.startswith("OK ") or "wlog" not in kv:
                ck.violation("encryption failed: " + head[:40], rep)
                continue
            final = bytes.fromhex(head.split()[1])
            wl = [tuple(int(v) for v in w.split(":")) for w in kv["wlog"].split(",")]
            data = bytes.fromhex(kv.get("wdata", "")) if kv.get("wdata", "-") != "-" else b""
            hl = HL[c.hm]
            # the recorded sequence must be an instance of the model's family: contiguous appends from 0, then hlen bytes at 10, last
            pos, ok_shape = 0, True
            for (off, ln) in wl[:-1]:
                ok_shape &= (off == pos)
                pos += ln
            ok_shape &= wl[-1] == (10, hl) and pos == len(final)
            mfam = mw.get("w%d" % i, "")
            if not ok_shape:
                # not an instance of the model's family: the correspondence is broken; the states are still reconstructed and
                # judged by the property itself below
                shape_breaks.append((rep, kv["wlog"][:200], hl))
            # reconstruct intermediate states: after every write, and byte prefixes inside each write
            state = bytearray()
            dpos = 0
            states = []
            for wi, (off, ln) in enumerate(wl):
                chunk = data[dpos:dpos + ln]
                dpos += ln
                cuts = range(1, ln + 1) if (big or ln <= 24) else sorted(set([1, 2, ln // 2, ln - 1, ln] + [r.randrange(1, ln + 1) for _ in range(4)] + [k - off for k in (8, 9, 10, 10 + hl, 48, 73, 74, 75, 48 + 20 * c.T) if off < k <= off + ln]))
                base = bytes(state)
                for k in cuts:
                    s = bytearray(base)
                    if len(s) < off + k:
                        s.extend(bytes(off + k - len(s)))
                    s[off:off + k] = chunk[:k]
                    states.append((bytes(s), wi, k, ln))
                if len(state) < off + ln:
                    state.extend(bytes(off + ln - len(state)))
                state[off:off + ln] = chunk
            if bytes(state) != final:
                ck.violation("replaying the recorded writes does not give the final file", rep)
                continue
            states.append((b"", 0, 0, 0))
            for (s, wi, k, ln) in states:
                complete = (s == final)
                items.append((c.T, c.key, s, {"case": c, "complete": complete, "cls": ("final" if complete else "during-tag-write" if wi == len(wl) - 1 else "during-body"), "where": "write %d/%d, %d of %d bytes, %s stream" % (wi + 1, len(wl), k, ln, "buffered" if tag == "b" else "unbuffered")}))
    res = run_inputs(ck, exe, env, items)
    distinct, corr, last = set(), 0, None
    for x in res:
        m = x["meta"]
        ck.cov["evaluations"] += 1
        dist[m["cls"]] = dist.get(m["cls"], 0) + 1
        distinct.add(x["data"])
        bad = None
        if m["complete"]:
            if not x["ver"].startswith("OK"):
                bad = "the completely written file does not verify"
        elif x["ver"].startswith("OK") or x["dec"].startswith("OK"):
            bad = "a partially written output file (%s) is accepted: verify %s decrypt %s" % (m["where"], x["ver"][:8], x["dec"][:16])
        elif not (x["ver"].startswith("FAIL") and x["dec"].startswith("FAIL")):
            bad = "verify/decrypt of a partially written file did not fail cleanly: %s / %s" % (x["ver"][:20], x["dec"][:20])
        if bad:
            ck.violation(bad, replay_of(ck, x, {"state": m["where"], "case": m["case"].line()[:300]}))
            continue
        if not corr_ok(x):
            corr += 1
            last = replay_of(ck, x, {"state": m["where"]})
        if len(ck.cov["samples"]) < 8 and (m["cls"], len(x["data"]) < 74) not in [(s.get("class"), s.get("short")) for s in ck.cov["samples"]]:
            ck.cov["samples"].append({"class": m["cls"], "short": len(x["data"]) < 74, "state": m["where"], "state_len": len(x["data"]), "verify": x["ver"], "decrypt": x["dec"][:20]})
    # the ORDER of the writes as the translated source performs them (SrcRun5.src_encrypt_snapshots: the output stream after every
    # machine step of the translated execute_encrypt that changed it, under a seeded scheduler): every snapshot must be a moment
    # of the model's family -- a prefix of the file with an all-zero tag field, or the finished file (reached last)
    sl = ["n%d @S=%d encsnap %s" % (i, r.randrange(1 << 30), c.line()[4:]) for i, c in enumerate(cases)]
    snaps = wv.run_lines([mdrv, "src"], sl, shards=wv.NCPU, env=env, timeout=1200)
    snapbad = []
    for i, c in enumerate(cases):
        got = snaps.get("n%d" % i)
        head, _ = split_impl(impl.get("u%d" % i, ""))
        if got is None or not head.startswith("OK "):
            continue
        final = bytes.fromhex(head.split()[1])
        zt = bytearray(final)
        zt[10:10 + HL[c.hm]] = bytes(HL[c.hm])
        why = None
        if not got.startswith("OK "):
            why = got[:80]
        else:
            ss = [bytes.fromhex(x) if x != "-" else b"" for x in got[3:].split(",")]
            ck.cov["snapshots_of_translated_encryption"] = ck.cov.get("snapshots_of_translated_encryption", 0) + len(ss)
            for j, sn in enumerate(ss):
                if sn != final and sn != bytes(zt[:len(sn)]):
                    why = "snapshot %d of %d (%d bytes) is neither a prefix of the file with a zero tag field nor the finished file" % (j + 1, len(ss), len(sn))
                    break
                if sn == final and j != len(ss) - 1:
                    why = "the finished file is reached before the last change of the output stream"
                    break
            if why is None and (not ss or ss[-1] != final):
                why = "the last snapshot is not the file the implementation wrote"
        if why:
            snapbad.append({"class": None, "case": c.line()[:2000], "difference": why, "broken": "correspondence: order of the writes of the translated encryption vs the model's family"})
    ck.cov["disagreements_source_vs_impl"] = ck.cov.get("disagreements_source_vs_impl", 0) + len(snapbad)
    if snapbad and not ck.violations:
        ck.violation("the output stream of the translated encryption passes through a state outside the family the theorem is about (%s) but no crash state of the implementation verified" % snapbad[0]["difference"][:120], snapbad[0], found_input=False)
    if shape_breaks and not ck.violations:
        rep, wl, hl = shape_breaks[0]
        rep["broken"] = "correspondence: recorded write sequence is not an instance of the model's family (sequential appends, then %d tag bytes at offset 10 as the last write)" % hl
        ck.violation("the write sequence reaching the output (%s) is not the one the theorem is about, but no intermediate state verified" % wl, rep, found_input=False)
    os_level_states(ck, exe, env, cases)
    ck.cov["distinct_nontrivial"] = len(distinct)
    ck.cov["encryptions"] = len(cases) * 2
    ck.cov["disagreements_model_vs_impl"] = corr
    if corr and not ck.violations:
        last["broken"] = "correspondence dec/ver model vs implementation on crash states"
        ck.violation("correspondence model/implementation no longer checks on %d crash states, no property violation found" % corr, last, found_input=False)
    return finish_proof(ck, rule="%d encryptions (each with a stdio-buffered and an unbuffered output stream, writes recorded below stdio by a custom FILE cookie); the recorded write sequence must be an instance of the model's family (contiguous appends, then hlen bytes at offset 10, last); every state after a write and byte prefixes inside each write (thorough: every byte prefix) is reconstructed and given to the real verify and decrypt. distinct = distinct reconstructed states" % len(cases),
                        assumptions=["the OS applies the bytes of successive writes in order (a crash leaves a byte prefix of the write stream)", "a zero-tag crash state verifies only if HMAC(key, bytes from 48) is all zero: explicit residual event in the theorem, probability 2^-8hlen under the PRF assumption"])


def os_level_states(ck, exe, env, cases):
    """The same question asked of the OPERATING SYSTEM: encryption to a REAL file (a descriptor exists, unlike the recording
    streams above, so code that works on the descriptor - pre-allocation, truncation, positioned writes, a temporary file renamed
    into place - runs) under strace; the file image after every system call that modifies the output is rebuilt from the trace
    and every image that is not the finished file must be rejected by verify and decrypt.  The size announced to execute_encrypt
    is also varied (exact, 0, too large, too small): it is documented as progress information only."""
    import os, re, shutil, subprocess
    if not shutil.which("strace"):
        ck.cov["os_level_runs"] = "skipped (no strace)"
        return
    try:        # tracing may be forbidden where the check runs (ptrace restrictions): then this part is skipped, not failed
        if subprocess.run(["strace", "-f", "-o", os.devnull, "true"], capture_output=True, timeout=30).returncode != 0:
            ck.cov["os_level_runs"] = "skipped (strace cannot trace here)"
            return
    except Exception:
        ck.cov["os_level_runs"] = "skipped (strace cannot trace here)"
        return
    big = ck.tier == "thorough"
    r = ck.rng
    picks = [c for c in cases if c.n > 0][: 10 if big else 3]
    runs = []
    for c in picks:
        for ann in ([None, 0, c.n + 4000, max(0, c.n - 40), c.n + 16] if big else [None, c.n + 4000, r.choice([0, max(0, c.n - 40)])]):
            runs.append((c, ann))
    items = []
    nsys = 0
    for j, (c, ann) in enumerate(runs):
        d = os.path.join(ck.scratch, "os%d" % j)
        os.makedirs(d)
        pin, pout, plog = os.path.join(d, "in.bin"), os.path.join(d, "out.wenc"), os.path.join(d, "trace")
        open(pin, "wb").write(c.plain)
        line = "x encp %d %d %d %s %s %s %s%s\n" % (c.cm, c.hm, c.T, c.key.hex(), (c.seed or b"s").hex(), pin, pout, "" if ann is None else " %d" % ann)
        e = dict(os.environ)
        e.update(env)
        try:
            p = subprocess.run(["strace", "-f", "-y", "-xx", "-s", "1000000", "-o", plog, "-e", "trace=read,readv,write,pwrite64,writev,pwritev,ftruncate,truncate,fallocate,lseek,rename,renameat,renameat2,unlink,unlinkat,openat,open,creat,mmap,copy_file_range,sendfile",
                                exe], input=line, capture_output=True, text=True, timeout=120, env=e)
        except Exception as ex:
            ck.cov["os_level_runs"] = "skipped (strace failed: %s)" % str(ex)[:60]
            return
        if "x OK" not in p.stdout or not os.path.exists(pout):
            p2 = subprocess.run([exe], input=line, capture_output=True, text=True, timeout=120, env=e)
            if "x OK" in p2.stdout:      # fine without the tracer: a tracing problem, not the program's
                ck.cov.setdefault("os_level_unreconstructed", []).append("announced=%s: the traced run failed (%s) but the untraced run succeeded" % (ann, p.stdout[-60:].strip()))
                continue
            ck.violation("encryption to a real file did not report success (announced size %s)" % ann, {"class": None, "case": c.line()[:2000], "announced_size": ann, "driver_output": p.stdout[-200:], "driver_flags": ck.impl_flags})
            continue
        final = open(pout, "rb").read()
        # rebuild the images of every file under the scratch directory from the trace
        img, pos, names = {}, {}, {}     # path -> bytearray ; (pid-agnostic) fd -> offset ; current name of an inode we follow
        states = []

        def snap(why):
            cur = bytes(img.get(pout, b""))
            if not states or states[-1][0] != cur:
                states.append((cur, why))
        fdre = re.compile(r"^(\d+)<([^>]*)>")
        for l in open(plog, errors="replace"):
            m = re.match(r"^\d+\s+(\w+)\((.*)\)\s+=\s+(-?\d+|0x[0-9a-f]+)", l.strip())
            if not m:
                continue
            call, args, ret = m.group(1), m.group(2), m.group(3)
            if ret.startswith("-"):
                continue
            retv = int(ret, 16) if ret.startswith("0x") else int(ret)
            if call in ("openat", "open", "creat"):
                pm = re.search(r'"((?:\\x[0-9a-f]{2})*)"', args)
                if not pm:
                    continue
                path = bytes.fromhex(pm.group(1).replace("\\x", "")).decode("utf-8", "replace")
                if not path.startswith(d):
                    continue
                if "O_TRUNC" in args or "O_CREAT" in args and path not in img:
                    if "O_TRUNC" in args or path not in img:
                        img[path] = bytearray(open(pin, "rb").read() if path == pin else b"")
                pos[retv] = 0
                names[retv] = path
                if path == pout:
                    snap(call)
                continue
            fm = fdre.match(args)
            if call in ("rename", "renameat", "renameat2"):
                ps = [bytes.fromhex(x.replace("\\x", "")).decode("utf-8", "replace") for x in re.findall(r'"((?:\\x[0-9a-f]{2})*)"', args)]
                if len(ps) >= 2 and ps[0] in img:
                    img[ps[-1]] = img.pop(ps[0])
                    for k, v in list(names.items()):
                        if v == ps[0]:
                            names[k] = ps[-1]
                    nsys += 1
                    snap(call)
                continue
            if not fm:
                continue
            fd = int(fm.group(1))
            path = names.get(fd)
            if path is None or not path.startswith(d) or path == pin:
                continue
            b = img.setdefault(path, bytearray())
            rest = args[fm.end():]
            if call == "lseek":
                pos[fd] = retv
            elif call in ("read", "readv"):
                pos[fd] = pos.get(fd, 0) + retv
            elif call in ("write", "pwrite64"):
                dm = re.search(r'"((?:\\x[0-9a-f]{2})*)"', rest)
                data = bytes.fromhex(dm.group(1).replace("\\x", ""))[:retv] if dm else bytes(retv)
                off = pos.get(fd, 0)
                if call == "pwrite64":
                    off = int(rest.rsplit(",", 1)[1].strip())
                if len(b) < off + len(data):
                    b.extend(bytes(off + len(data) - len(b)))
                b[off:off + len(data)] = data
                if call == "write":
                    pos[fd] = off + len(data)
                nsys += 1
                if path == pout:
                    snap("%s of %d bytes at %d" % (call, len(data), off))
            elif call in ("ftruncate", "truncate"):
                n = int(rest.split(",")[1].strip())
                if len(b) > n:
                    del b[n:]
                else:
                    b.extend(bytes(n - len(b)))
                nsys += 1
                if path == pout:
                    snap("%s to %d" % (call, n))
            elif call == "fallocate":
                f = [x.strip() for x in rest.split(",")]
                try:
                    off, ln = int(f[2]), int(f[3])
                    if f[1] in ("0", "") and len(b) < off + ln:
                        b.extend(bytes(off + ln - len(b)))
                        nsys += 1
                        if path == pout:
                            snap("fallocate to %d" % (off + ln))
                except (ValueError, IndexError):
                    pass
            elif call in ("writev", "pwritev", "mmap", "copy_file_range", "sendfile"):
                if call != "mmap" or "PROT_WRITE" in rest and "MAP_SHARED" in rest:
                    ck.notes.append("os-level trace uses %s on the output: not reconstructed" % call)
        if bytes(img.get(pout, b"")) != final:
            ck.cov.setdefault("os_level_unreconstructed", []).append("announced=%s: replaying the trace gives %d bytes, the file has %d" % (ann, len(img.get(pout, b"")), len(final)))
            continue
        for (s_, why) in states:
            if s_ != final:
                items.append((c.T, c.key, s_, {"case": c, "where": "after system call: %s (announced size %s, real size %d)" % (why, ann, c.n), "final_len": len(final)}))
        # the finished file itself must verify
        items.append((c.T, c.key, final, {"case": c, "where": "finished", "final": True, "final_len": len(final)}))
        shutil.rmtree(d, ignore_errors=True)
    res = run_inputs(ck, exe, env, items) if items else []
    for x in res:
        m = x["meta"]
        ck.cov["evaluations"] += 1
        if m.get("final"):
            continue        # a finished file made with a wrong announced size is a separate question (C01/C02)
        if x["ver"].startswith("OK") or x["dec"].startswith("OK"):
            ck.violation("the output FILE as the operating system holds it %s is accepted although the encryption was not finished: verify %s decrypt %s" % (m["where"], x["ver"][:8], x["dec"][:12]),
                         replay_of(ck, x, {"state": m["where"], "case": m["case"].line()[:300], "how": "strace -f -y -xx of harness/drv.cpp 'encp cm hm T key seed in out [announced]'; file image rebuilt after every modifying system call"}))
            break
    ck.cov["os_level_runs"] = len(runs)
    ck.cov["os_level_states"] = len(items)
    ck.cov["os_level_syscalls_replayed"] = nsys
    ck.cov.setdefault("case_classes", {})["os-level/real-file-under-strace"] = len(items)
