"""Systematic mutation of encrypted files (C05 / C11 / C12 / C06)."""
from props.filegen import *

HL = {0: 20, 1: 16, 2: 32}


class Mut:
    __slots__ = ("data", "cls", "lo", "hi", "desc")

    def __init__(self, data, cls, lo, hi, desc):
        self.data, self.cls, self.lo, self.hi, self.desc = data, cls, lo, hi, desc


def region(off, c):
    hl = HL[c.hm]
    tm = 48 + 20 * c.T
    if off < 8:
        return "magic"
    if off == 8:
        return "cmode-byte"
    if off == 9:
        return "hmode-byte"
    if off < 10 + hl:
        return "tag"
    if off < 48:
        return "tag-padding"
    if off < 68:
        return "iv0"
    if off < tm:
        return "iv-other"
    return "body"


def mutations(f, c, r, exhaustive=False, per_region=2):
    """f: bytes of a valid file produced for EncCase c. Yields Mut objects."""
    n = len(f)
    tm = 48 + 20 * c.T
    hl = HL[c.hm]
    out = []
    # single-byte changes
    offs = range(n) if exhaustive else None
    if offs is None:
        picks = set([0, 7, 8, 9, 10, 10 + hl - 1, 10 + hl, 47, 48, 63, 64, 67, tm - 1, tm, tm + 15, tm + 16, n - 17, n - 16, n - 2, n - 1])
        for _ in range(10):
            picks.add(r.randrange(n))
        offs = sorted(o for o in picks if 0 <= o < n)
    for o in offs:
        vals = [f[o] ^ 1, f[o] ^ 0x80, (f[o] + 1) % 256] if exhaustive else [f[o] ^ (1 << r.randrange(8))]
        if o in (8, 9):
            vals = sorted(set(v for v in list(range(0, 8)) + [127, 128, 200, 255] if v != f[o]))
        for v in vals:
            g = bytearray(f)
            g[o] = v
            out.append(Mut(bytes(g), "flip/" + region(o, c) + ("/in-range" if o in (8, 9) and v <= (4 if o == 8 else 2) else "/out-of-range" if o in (8, 9) else ""), o, o + 1, "byte %d: %02x -> %02x" % (o, f[o], v)))
    # the reserved bytes just before the IV area set to small numbers (a count or a flag a later format revision might keep there)
    for o in (42, 46, 47):
        for v in (1, 2, 3, 5, 16):
            if f[o] != v:
                g = bytearray(f)
                g[o] = v
                out.append(Mut(bytes(g), "flip/" + region(o, c) + "/small-number", o, o + 1, "byte %d: %02x -> %02x" % (o, f[o], v)))
    # truncations at every header boundary and around block/chunk boundaries
    cuts = set([0, 1, 7, 8, 9, 10, 10 + hl, 47, 48, 49, 67, 68, 73, 74, 75, tm - 1, tm, tm + 1, tm + 15, tm + 16, tm + 17, n - 17, n - 16, n - 15, n - 1])
    if exhaustive:
        cuts = set(range(n))
    for k in sorted(x for x in cuts if 0 <= x < n):
        out.append(Mut(f[:k], "truncate/" + ("header" if k < tm else "body"), k, n, "truncated to %d bytes" % k))
    # extensions
    for extra in (1, 15, 16, 17, CH):
        out.append(Mut(f + rnd_bytes(r, extra), "extend", n, n + extra, "extended by %d bytes" % extra))
    # length-extension shape: the padding a Merkle-Damgard hash itself would append to the authenticated region (0x80, zeros,
    # 64-bit bit length of key block + region, big-endian for SHA-1/SHA-256, little-endian for MD5), so that the extended region is
    # a whole number of 64-byte blocks whose chaining value equals the authentic file's finished inner hash
    R = n - 48
    if R % 64 != 0:
        z = (55 - R) % 64
        bits = 8 * (64 + R)
        out.append(Mut(f + b"\x80" + bytes(z) + bits.to_bytes(8, "little" if c.hm == 1 else "big"), "extend/hash-padding-of-the-authenticated-region", n, n + 9 + z, "extended by the hash's own padding of [48, EOF)"))
        out.append(Mut(f + b"\x80" + bytes((63 - R) % 64), "extend/hash-padding-without-length", n, n + 1 + (63 - R) % 64, "extended by 0x80 and zeros up to a 64-byte boundary of [48, EOF)"))
    # insert / delete
    for _ in range(4 if not exhaustive else 12):
        o = r.randrange(n + 1)
        out.append(Mut(f[:o] + rnd_bytes(r, 1) + f[o:], "insert/" + region(min(o, n - 1), c), o, n + 1, "inserted 1 byte at %d" % o))
        o = r.randrange(n)
        out.append(Mut(f[:o] + f[o + 1:], "delete/" + region(o, c), o, n, "deleted byte %d" % o))
    # swap two body blocks / two chunks
    body = f[tm:]
    nb = len(body) // 16
    if nb >= 2:
        i, j = 0, nb - 1
        b = bytearray(body)
        b[16 * i:16 * i + 16], b[16 * j:16 * j + 16] = body[16 * j:16 * j + 16], body[16 * i:16 * i + 16]
        if bytes(b) != body:
            out.append(Mut(f[:tm] + bytes(b), "swap-blocks", tm, n, "swapped body blocks %d and %d" % (i, j)))
    if len(body) >= 2 * CH:
        b = body[CH:2 * CH] + body[:CH] + body[2 * CH:]
        if b != body:
            out.append(Mut(f[:tm] + b, "swap-chunks", tm, n, "swapped chunks 0 and 1"))
    # overwrite whole regions
    out.append(Mut(f[:10] + bytes(hl) + f[10 + hl:], "zero-tag", 10, 10 + hl, "tag zeroed"))
    out.append(Mut(f[:10 + hl] + rnd_bytes(r, 38 - hl) + f[48:], "overwrite/tag-padding", 10 + hl, 48, "bytes between tag and offset 48 overwritten"))
    out.append(Mut(f[:48] + rnd_bytes(r, 20) + f[68:], "overwrite/iv0", 48, 68, "first IV overwritten"))
    if c.T >= 2:
        out.append(Mut(f[:68] + rnd_bytes(r, 20) + f[88:], "overwrite/iv-other", 68, 88, "second IV overwritten"))
    # tag containing a 0x00 byte before its end: everything after that byte replaced
    tag = f[10:10 + hl]
    if 0 in tag[:-1]:
        j = tag.index(0)
        g = bytearray(f)
        for q in range(10 + j + 1, 10 + hl):
            g[q] ^= 0xA5
        out.append(Mut(bytes(g), "tag-after-zero-byte", 10 + j + 1, 10 + hl, "tag bytes after its first 0x00 byte (index %d) changed" % j))
    # two tag bytes changed by 0x80 each (byte-wise differences cancel in an 8-bit sum)
    g = bytearray(f)
    g[10] ^= 0x80
    g[10 + hl - 1] ^= 0x80
    out.append(Mut(bytes(g), "tag-two-bytes-0x80", 10, 10 + hl, "tag bytes 0 and %d both xor 0x80" % (hl - 1)))
    return [m for m in out if m.data != f]


def garbage(r, count):
    """inputs that are not derived from a valid file"""
    MAGIC = bytes.fromhex("c3a5c3a5c3a5c3a5")
    res = [b"", b"\x00", MAGIC[:7], MAGIC, MAGIC + b"\x01", MAGIC + b"\x01\x00", MAGIC + bytes(65), MAGIC + bytes(66), MAGIC + bytes(67)]
    for _ in range(count):
        k = r.randrange(6)
        n = r.choice([0, 5, 8, 9, 10, 47, 48, 73, 74, 75, 100, 128, 129, 200, 400])
        if k == 0:
            res.append(rnd_bytes(r, n))
        elif k == 1:
            res.append((MAGIC + rnd_bytes(r, n))[:max(n, 8)])
        elif k == 2:
            res.append(MAGIC + bytes([r.randrange(5), r.randrange(3)]) + rnd_bytes(r, n))
        elif k == 3:
            res.append(MAGIC + bytes([r.choice([5, 6, 100, 255]), r.randrange(3)]) + rnd_bytes(r, 64 + n))
        elif k == 4:
            res.append(MAGIC + bytes([r.randrange(5), r.choice([3, 4, 77, 255])]) + rnd_bytes(r, 64 + n))
        else:
            res.append(MAGIC + bytes([r.randrange(5), r.randrange(3)]) + bytes(38) + rnd_bytes(r, n))
    return res


def produce_files(ck, exe, env, count, maxchunks=3, want_zero_tag_byte=2):
    """encrypt `count` structured cases with the implementation; returns [(EncCase, file bytes)].
    A few extra files are selected (from a larger pool of encryptions) for having a 0x00 byte inside their tag."""
    cases = enc_cases(ck, count + (40 * want_zero_tag_byte if want_zero_tag_byte else 0), maxchunks=maxchunks)
    # the smallest valid files (one body block) and an exact chunk multiple are always among them
    r = ck.rng
    for j, n in enumerate((0, 15, 16, CH - 1)):
        if j < count:
            c = cases[j]
            cases[j] = EncCase(n, c.cm, c.hm, [4, 1, 2, 16][j], c.key, c.seed, rnd_bytes(r, n), "len=%s" % lencls(n))
    lines = ["e%d %s" % (i, c.line()) for i, c in enumerate(cases)]
    impl = wv.run_lines([exe], lines, env=env)
    res, extra = [], []
    for i, c in enumerate(cases):
        head, kv = split_impl(impl.get("e%d" % i, ""))
        if head.startswith("OK "):
            f = bytes.fromhex(head.split()[1])
            if i < count:
                res.append((c, f))
            elif 0 in f[10:10 + HL[c.hm] - 1] and len(extra) < want_zero_tag_byte:
                extra.append((c, f))
    return res + extra


def forged(r, count):
    """AUTHENTIC files that encryption never produces: header + IV area + arbitrary body with the RFC 2104 tag computed here
    under a key we choose (python hmac = the standard the tag is proven equal to).  Their last decrypted byte is an
    arbitrary pad length, the body may be empty, not a multiple of 16, or shorter than the IV area of the thread count
    used for decryption.  Returns [(T, key, file bytes, class)]."""
    import hmac as _hmac, hashlib
    H = [hashlib.sha1, hashlib.md5, hashlib.sha256]
    MAGIC = bytes.fromhex("c3a5c3a5c3a5c3a5")
    res = []
    shapes = [("empty-body", 0), ("one-block", 16), ("one-block", 16), ("two-blocks", 32), ("chunk", CH), ("chunk-plus-block", CH + 16),
              ("two-chunks", 2 * CH), ("ragged", 17), ("ragged", CH + 5), ("ragged", 7)]
    for i in range(count):
        name, nb = shapes[i % len(shapes)]
        cm, hm = r.randrange(5), r.randrange(3)
        Tenc = r.choice([1, 1, 2, 3])
        key = rnd_key(r)
        rest = rnd_bytes(r, 20 * Tenc) + rnd_bytes(r, nb)
        tag = _hmac.new(key, rest, H[hm]).digest()
        f = MAGIC + bytes([cm, hm]) + tag + bytes(38 - len(tag)) + rest
        Tdec = Tenc if i % 4 else r.choice([1, 2, 4, 16])      # a quarter decrypted with another thread count
        cls = "forged/" + name + ("" if Tdec == Tenc else "/other-T")
        if len(f) >= 74:
            res.append((Tdec, key, f, cls))
    return res
