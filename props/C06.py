"""C06: a wrong key is always rejected and yields no plaintext."""
from props.suite import *

THEOREMS = ["C06_wrong_key_acceptance_is_a_tag_collision", "C06_rejected_means_no_output", "C06_all_key_bytes_enter_the_mac"]


def run(ck):
    ck.prove(["Properties_C06", "Properties_Src2", "Properties_SrcE2Ed", "SrcRun5"], THEOREMS + ["SRC_verify", "SRC_execute_decrypt_rejects_what_verify_rejects"])   # SrcRun5: the translated whole-file runs (a stale translation concerns this property)
    exe = small_driver(ck)
    env = small_env(ck)
    big = ck.tier == "thorough"
    r = ck.rng
    files = produce_files(ck, exe, env, 30 if big else 15)
    items = []
    for c, f in files:
        bits = range(128) if big else sorted(set([0, 7, 8, 63, 64, 120, 127] + [r.randrange(128) for _ in range(9)]))
        for b in bits:                                   # single-bit neighbours of k
            k2 = bytearray(c.key); k2[b // 8] ^= 1 << (b % 8)
            items.append((c.T, bytes(k2), f, {"case": c, "cls": "one-bit-neighbour/byte%d" % (b // 8)}))
        for _ in range(3):
            items.append((c.T, rnd_bytes(r, 16), f, {"case": c, "cls": "random-key"}))
        k2 = bytearray(c.key); k2[15] = (k2[15] + 1) % 256
        items.append((c.T, bytes(k2), f, {"case": c, "cls": "last-byte-differs"}))
        items.append((c.T, bytes(16), f, {"case": c, "cls": "zero-key"}))
        items.append((c.T, c.key, f, {"case": c, "cls": "right-key"}))
    # bulk stream: an acceptance rule that lets a wrong key through with probability 2^-8 (e.g. a tag comparison that
    # sums byte differences in a u8) needs well over a thousand wrong-key trials to show up; smallest files, all 3 hashes
    small = sorted(files, key=lambda cf: len(cf[1]))
    bulk = [next((cf for cf in small if cf[0].hm == hm), small[0]) for hm in range(3)]
    for j in range(6000 if big else 1800):
        c, f = bulk[j % 3]
        items.append((c.T, rnd_bytes(r, 16), f, {"case": c, "cls": "bulk-random-key"}))
    res = run_inputs(ck, exe, env, items)
    dist = ck.cov.setdefault("case_classes", {})
    distinct, corr, last = set(), 0, None
    for x in res:
        c, cls = x["meta"]["case"], x["meta"]["cls"]
        ck.cov["evaluations"] += 1
        dist[cls.split("/")[0]] = dist.get(cls.split("/")[0], 0) + 1
        distinct.add((x["key"], c.n, c.cm, c.hm, c.T))
        bad = None
        if cls == "right-key":
            if not x["dec"].startswith("OK ") or not x["ver"].startswith("OK"):
                bad = "the right key was rejected"
        elif x["key"] != c.key:
            if not x["ver"].startswith("FAIL") or not x["dec"].startswith("FAIL"):
                bad = "a wrong key (%s) was not rejected: verify %s, decrypt %s" % (cls, x["ver"][:10], x["dec"][:24])
            elif x["dec_kv"].get("outlen") != "0" or x["dec_kv"].get("nwrites") != "0":
                bad = "decryption with a wrong key wrote %s bytes to the output" % x["dec_kv"].get("outlen")
            elif x["dec_kv"].get("code") != "2" or x["ver_kv"].get("code") != "2":
                bad = "a wrong key was rejected without the 'Wrong key or File not complete' result (code %s)" % x["dec_kv"].get("code")
        if bad:
            ck.violation(bad, replay_of(ck, x, {"key_class": cls, "right_key": c.key.hex()}))
            continue
        if not corr_ok(x):
            corr += 1
            last = replay_of(ck, x, {"key_class": cls})
        if len(ck.cov["samples"]) < 8 and cls.split("/")[0] not in [s.get("class") for s in ck.cov["samples"]]:
            ck.cov["samples"].append({"class": cls.split("/")[0], "right_key": c.key.hex(), "tried_key": x["key"].hex(), "verify": x["ver"], "decrypt": x["dec"][:20], "info": x["dec_kv"]})
    # memory exhaustion at every allocation made inside verify / decrypt (driver: WV_FAIL_ALLOC=k makes the k-th operator new of the
    # library call fail): the operation may die, it must not ACCEPT a wrong key or write plaintext
    fl = []
    for j, (c, f) in enumerate(small[:6 if big else 3]):
        k2 = bytearray(c.key); k2[r.randrange(16)] ^= 1 << r.randrange(8)
        for k in range(1, 50):
            fl.append("fd%d_%d @WV_FAIL_ALLOC=%d dec %d %s %s" % (j, k, k, c.T, bytes(k2).hex(), f.hex()))
            if k <= 24:
                fl.append("fv%d_%d @WV_FAIL_ALLOC=%d ver %d %s %s" % (j, k, k, c.T, bytes(k2).hex(), f.hex()))
    fo = wv.run_lines([exe], fl, env=env)
    for l in fl:
        cid = l.split()[0]
        got = fo.get(cid, "(no output)")
        ck.cov["evaluations"] += 1
        head, kv = split_impl(got)
        if head.startswith("OK") or (kv.get("outlen", "0") != "0"):
            ck.violation("a wrong key was accepted (or output written) when allocation %s inside the operation failed: %s" % (l.split()[1].split("=")[1], head[:30]),
                         {"class": None, "case": l[:3000], "implementation": got[:300], "driver_flags": ck.impl_flags, "replay": "echo '<case>' | harness/drv.cpp built with the flags above against /repo"})
            break
    dist["allocation-failure-inside-the-operation"] = len(fl)
    # ONE process, ONE file on disk (same path, same inode, unchanged), first the right key, then wrong keys: a verdict remembered
    # for "this file" must not outlive the key it was reached with (path-based driver ops verp / decp inside a history)
    import os
    hl, hwant = [], {}
    for j, (c, f) in enumerate(small[:8 if big else 4]):
        pth = os.path.join(ck.scratch, "same_%d.wenc" % j)
        open(pth, "wb").write(f)
        ops, exp = [["verp", str(c.T), c.key.hex(), pth]], ["OK -"]
        if j % 2:
            ops.append(["decp", str(c.T), c.key.hex(), pth, pth + ".out0"])
            exp.append("OK -")
        for b in sorted(set([0, 63, 64, 127] + [r.randrange(128) for _ in range(6)])):
            k2 = bytearray(c.key); k2[b // 8] ^= 1 << (b % 8)
            ops.append(["verp", str(c.T), bytes(k2).hex(), pth])
            exp.append("FAIL")
            ops.append(["decp", str(c.T), bytes(k2).hex(), pth, pth + ".out%d" % b])
            exp.append("FAIL")
        hl.append("sq%d hist %s" % (j, ";".join(",".join(o) for o in ops)))
        hwant["sq%d" % j] = (ops, exp, pth)
    ho = wv.run_lines([exe], hl, env=dict(env, WV_TIMEOUT_MS="60000"))
    for cid, (ops, exp, pth) in hwant.items():
        parts = ho.get(cid, "(no output)").split(" ; ")
        for q, e in enumerate(exp):
            ck.cov["evaluations"] += 1
            g = parts[q].split(" | ")[0] if q < len(parts) else "(missing)"
            outp = ops[q][4] if ops[q][0] == "decp" else None
            wrote = outp is not None and e == "FAIL" and os.path.exists(outp) and os.path.getsize(outp) > 0
            if g != e or wrote:
                ck.violation("operation %d of a sequence on ONE unchanged file in one process: %s (%s with %s key)" % (q, "plaintext written after a rejection" if g == e else "got '%s', expected '%s'" % (g[:20], e), ops[q][0], "the right" if e.startswith("OK") else "a WRONG"),
                             {"class": None, "history": [" ".join(o) for o in ops], "position": q, "implementation": g, "expected": e, "driver_flags": ck.impl_flags,
                              "replay": "write the file, then echo 'x hist <ops joined by ; with , between fields>' | harness/drv.cpp built with the flags above against /repo"})
                break
    dist["sequence-on-one-unchanged-file"] = len(hl)
    # the encrypted file arrives through a PIPE (not seekable: positioning fails): whatever the operation then does, it must not accept
    # a wrong key or write plaintext (even the right key may be refused there; that is not this property's business)
    pl = []
    for j, (c, f) in enumerate(small[:6 if big else 3]):
        for b in (0, 64, 127, r.randrange(128)):
            k2 = bytearray(c.key); k2[b // 8] ^= 1 << (b % 8)
            pl.append("pv%d_%d ver %d %s %s pipe" % (j, b, c.T, bytes(k2).hex(), f.hex()))
            pl.append("pd%d_%d dec %d %s %s pipe" % (j, b, c.T, bytes(k2).hex(), f.hex()))
    po = wv.run_lines([exe], pl, env=env)
    for l in pl:
        cid = l.split()[0]
        head, kv = split_impl(po.get(cid, "(no output)"))
        ck.cov["evaluations"] += 1
        if head.startswith("OK") or kv.get("outlen", "0") != "0":
            ck.violation("a wrong key was accepted (or output written) when the encrypted file arrives through a pipe: %s" % head[:30],
                         {"class": None, "case": l[:3000], "implementation": po.get(cid, "")[:300], "driver_flags": ck.impl_flags, "replay": "echo '<case>' | harness/drv.cpp built with the flags above against /repo"})
            break
    dist["input-through-a-pipe"] = len(pl)
    # tag comparisons under the right key and under wrong keys AT THE SAME TIME from several threads of one process: a wrong key
    # must be refused whatever another thread is computing (key material kept in storage shared between calls)
    import hmac as pyhmac, hashlib
    PYH = {0: hashlib.sha1, 1: hashlib.md5, 2: hashlib.sha256}
    pl = []
    for i in range(24):
        hm = i // 4 % 3
        k = rnd_bytes(r, 16)
        m = rnd_bytes(r, r.choice([10, 64, 100, 200]))
        tag = pyhmac.new(k, m, PYH[hm]).digest()
        k2 = bytearray(k); k2[r.randrange(16)] ^= 1 << r.randrange(8)
        pl.append("cmph %d %d %s %s %s" % (HBUF, hm, (k if i % 2 == 0 else bytes(k2)).hex(), m.hex(), tag.hex()))
    parallel_purity(ck, exe, pl, "tag comparisons under right and wrong keys", iters=200, env=env)
    ck.cov["distinct_nontrivial"] = len(distinct)
    ck.cov["files"] = len(files)
    ck.cov["disagreements_model_vs_impl"] = corr
    if corr and not ck.violations:
        last["broken"] = "correspondence dec/ver model vs implementation under wrong keys"
        ck.violation("correspondence model/implementation no longer checks on %d inputs, no property violation found" % corr, last, found_input=False)
    return finish_proof(ck, rule="%d files x (single-bit neighbours of the key: all 128 in the thorough tier, 16 incl. bits 0,7,8,63,64,120,127 in quick; 3 random keys; 1800 (thorough 6000) random keys on the three smallest files; key differing only in byte 15; zero key; the right key) through verify and decrypt; output size and write count after a failure must be 0. distinct = distinct (key, n, cmode, hmode, T)" % len(files),
                        assumptions=["acceptance of a wrong key = HMAC tag collision between two keys (explicit event in the theorem; negligible under the PRF assumption)"])
