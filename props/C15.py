"""C15: operations repeated in one process behave as in a fresh process."""
import base64, os
from props.filegen import *

THEOREMS = ["C15_every_operation_restores_the_process_state", "C15_history_independence", "C15_scanner_is_reinitialised", "C15_pipeline_leaves_counter_zero"]


def b64(k):
    return base64.b64encode(k).decode()


def run(ck):
    ck.prove(["Properties_C15", "SrcRun5"], THEOREMS)   # SrcRun5: the translated whole-file runs (a stale translation concerns this property)
    exe = small_driver(ck)
    env = small_env(ck)
    big = ck.tier == "thorough"
    r = ck.rng
    nhist = 80 if big else 24
    lines = []
    hist_ops = {}
    # valid multi-chunk files for library-level decrypt/verify inside histories (one per history, fixed T per history so that
    # anything cached between runs for "the same configuration" is exercised)
    pre_lines, pre_meta = [], {}
    for h in range(nhist):
        Th = r.choice([1, 2, 3, 4])
        kh = rnd_key(r)
        ph = rnd_bytes(r, CH * r.randrange(2, 6) - r.randrange(0, 17))
        pre_meta[h] = (Th, kh, ph, r.randrange(5), r.randrange(3))
        pre_lines.append("p%d enc %d %d %d %s %s %s" % (h, pre_meta[h][3], pre_meta[h][4], Th, kh.hex(), rnd_seed(r).hex(), wv.hexs(ph)))
    # short authentic files written with ONE thread (their IV table has one slot): the thread count is an argument of every
    # operation, not a field of the file, so a later decrypt / verify may name more threads than the table has slots
    short_meta = {}
    for h in range(0, nhist, 3):
        ks = rnd_key(r)
        short_meta[h] = (ks, r.choice([0, 1, 5, 15, 16, 31]))
        pre_lines.append("q%d enc %d %d 1 %s %s %s" % (h, r.randrange(5), r.randrange(3), ks.hex(), rnd_seed(r).hex(), wv.hexs(rnd_bytes(r, short_meta[h][1]))))
    pre = wv.run_lines([exe], pre_lines, env=env)
    shortf = {}
    for h in short_meta:
        head, _ = split_impl(pre.get("q%d" % h, ""))
        if head.startswith("OK "):
            shortf[h] = head.split()[1]
    valid = {}
    for h in range(nhist):
        head, _ = split_impl(pre.get("p%d" % h, ""))
        if head.startswith("OK "):
            valid[h] = head.split()[1]
    for h in range(nhist):
        dirs = {}
        for which in ("hist", "alone"):
            d = os.path.join(ck.scratch, "h%d_%s" % (h, which))
            os.makedirs(d)
            dirs[which] = d
        files = {}
        nops = r.randrange(4, 11)
        ops = []       # (template fields with {D} for the directory, kind)
        # material: plaintext files and one valid encrypted file per history
        key = rnd_bytes(r, 16)
        # a second key RELATED to the first (anything remembered per key - an expanded schedule, a verdict - and looked up by a
        # comparison that is not over all 16 bytes shows only then): equal up to and including a 0x00 byte, or all but one byte equal
        kk = bytearray(key)
        rel = h % 3
        if rel == 0:
            j = r.choice([0, 1, 3, 7, 14])
            kk[j] = 0
            key = bytes(kk)
            key2 = key[:j + 1] + rnd_bytes(r, 15 - j)
        elif rel == 1:
            kk[r.choice([0, 15, r.randrange(16)])] ^= 1 << r.randrange(8)
            key2 = bytes(kk)
        else:
            key2 = rnd_bytes(r, 16)
        plain = rnd_bytes(r, r.choice([0, 5, 16, 50, 63, 64, 100, 130, 200]))
        hseed = rnd_seed(r)
        for d in dirs.values():
            open(os.path.join(d, "p.bin"), "wb").write(plain)
        for i in range(nops):
            k = r.randrange(15)
            cm, hm, T = r.randrange(5), r.randrange(3), r.choice([1, 2, 3, 4, 5, 16])
            if h in valid and r.random() < 0.6:
                T = pre_meta[h][0]
            if k == 0 and i % 2 == 0:
                # the SAME key and seed values as another operation of this history: the driver hands them to the library in the same
                # buffers again (a caller keeping one key / seed buffer), with whatever the earlier operation left in them
                ops.append((["enc", str(cm), str(hm), str(T), key.hex(), hseed.hex(), wv.hexs(rnd_bytes(r, r.choice([0, 10, 64, 150])))], "api-enc-same-key-and-seed-buffers"))
            elif k == 0:
                ops.append((["enc", str(cm), str(hm), str(T), key.hex(), rnd_seed(r).hex(), wv.hexs(rnd_bytes(r, r.choice([0, 10, 64, 150])))], "api-enc"))
            elif k in (9, 10):
                ops.append((["enc", str(cm), str(hm), str(T), (key2 if i % 2 else key).hex(), rnd_seed(r).hex(), wv.hexs(rnd_bytes(r, r.choice([10, 64, 150])))], "api-enc-related-key"))
            elif k == 1:
                ops.append((["cli", "{D}/c%d.wenc" % i, "-e", "-i", "{D}/p.bin", "-k", b64(key), "-o", "{D}/c%d.wenc" % i, "--cmode", str(cm), "--hmode", str(hm)] + (["-n"] if r.random() < 0.5 else []), "cli-enc"))
                files[i] = "c%d.wenc" % i
            elif k == 2 and files:
                j = r.choice(list(files))
                ops.append((["cli", "{D}/d%d.out" % i, "-d", "-i", "{D}/" + files[j], "-o", "{D}/d%d.out" % i, "-k", b64(key)], "cli-dec"))
            elif k == 3 and files:
                j = r.choice(list(files))
                wrong = bytearray(key); wrong[r.randrange(16)] ^= 1
                ops.append((["cli", "{D}/d%d.out" % i, "-d", "-i", "{D}/" + files[j], "-o", "{D}/d%d.out" % i, "-k", b64(bytes(wrong))], "cli-dec-wrong-key"))
            elif k == 4 and files:
                j = r.choice(list(files))
                ops.append((["cli", "-", "-v", "-i", "{D}/" + files[j], "-k", b64(key)], "cli-verify"))
            elif k == 5:
                ops.append((r.choice([["cli", "-", "-edi", "x"], ["cli", "-", "-en", "-q"], ["cli", "-", "-evi", "{D}/p.bin"], ["cli", "-", "-dnk"]]), "parse-aborted-in-cluster"))
            elif k == 6:
                ops.append((r.choice([["cli", "-", "-q"], ["cli", "-", "-e"], ["cli", "-", "-e", "-d", "-i", "{D}/p.bin"], ["cli", "-", "-e", "-i", "{D}/missing"], ["cli", "-", "-e", "-i", "{D}/p.bin", "-k", "notakey"], ["cli", "-", "--input"], ["cli", "-", "-V"], ["cli", "-", "-h"],
                                     ["cli", "-", "-e", "-i", "{D}/p.bin", "--cmode", "99999999999999999999"], ["cli", "-", "-e", "-i", "{D}/p.bin", "--hmode", "-99999999999999999999"]]), "parse-fails-or-info"))
            elif k == 7:
                ops.append((["dec", str(T), key.hex(), wv.hexs(rnd_bytes(r, r.choice([0, 7, 30, 74, 100])))], "api-dec-garbage"))
            elif k == 8:
                ops.append((["ver", str(T), key.hex(), "c3a5c3a5c3a5c3a5" + rnd_bytes(r, 80).hex()], "api-ver-bad-tag"))
            elif k == 11 and h in valid and h % 2 == 0:
                # the output stops taking data part-way (device full): the operation returns; whatever it leaves behind in the
                # process must not change later operations
                wf = r.choice([0, 1, CH - 1, CH, CH + 5])
                ops.append((["decf", str(pre_meta[h][0]), pre_meta[h][1].hex(), valid[h], str(1 << 60), str(wf)] + (["nobuf"] if r.random() < 0.5 else []), "api-dec-output-full"))
            elif k == 11:
                wf = r.choice([0, 10, 48 + 20 * T, 48 + 20 * T + CH, 48 + 20 * T + CH + 7])
                ops.append((["encf", str(cm), str(hm), str(T), key.hex(), rnd_seed(r).hex(), wv.hexs(rnd_bytes(r, CH * r.randrange(1, 4) + 3)), str(1 << 60), str(wf)] + (["nobuf"] if r.random() < 0.5 else []), "api-enc-output-full"))
            elif k in (12, 13) and h in valid:
                ops.append((["dec", str(pre_meta[h][0]), pre_meta[h][1].hex(), valid[h]], "api-dec-valid-multichunk"))
            elif k == 14 and h in valid:
                ops.append((["ver", str(pre_meta[h][0]), pre_meta[h][1].hex(), valid[h]], "api-ver-valid"))
            else:
                ops.append((["enc", str(cm), str(hm), str(T), key.hex(), rnd_seed(r).hex(), wv.hexs(rnd_bytes(r, r.choice([10, CH - 20, CH * r.randrange(1, 4) - r.randrange(0, 17)])))], "api-enc-multichunk"))
        # after (and before) a successful verify/decrypt of a file: the same operations on a copy of that file, same key, same
        # length, same header and IV area, whose body was changed -- anything remembered from the successful run ("already
        # verified", recycled buffers) must not carry over
        if h in valid and r.random() < 0.7:
            Tv, kv, _, _, _ = pre_meta[h]
            good = valid[h]
            gb = bytearray(bytes.fromhex(good))
            tm = 48 + 20 * Tv
            pos = r.choice([74 if 74 < len(gb) else len(gb) - 1, tm, len(gb) - 1, r.randrange(min(74, len(gb) - 1), len(gb))])
            gb[pos] ^= 1 << r.randrange(8)
            bad = bytes(gb).hex()
            block = [(["ver", str(Tv), kv.hex(), bad], "api-ver-tampered-copy"), (["ver", str(Tv), kv.hex(), good], "api-ver-valid"),
                     (["ver", str(Tv), kv.hex(), bad], "api-ver-tampered-copy"), (["dec", str(Tv), kv.hex(), bad], "api-dec-tampered-copy"),
                     (["dec", str(Tv), kv.hex(), good], "api-dec-valid-multichunk"), (["dec", str(Tv), kv.hex(), bad], "api-dec-tampered-copy")]
            start = r.randrange(0, 3)
            at = r.randrange(0, len(ops) + 1)
            ops[at:at] = block[start:]
        if h % 3 == 1:
            for _ in range(2):
                ops.insert(r.randrange(0, len(ops) + 1), (["enc", str(r.randrange(1, 5)), str(r.randrange(3)), str(r.choice([2, 3, 4])), key.hex(), hseed.hex(), wv.hexs(rnd_bytes(r, 2 * CH + 5))], "api-enc-same-key-and-seed-buffers"))
        if h % 4 == 2:
            # a rejected command line whose number overflows (leaves errno = ERANGE behind), later a valid option-driven encryption
            ops.insert(0, (["cli", "-", "-e", "-i", "{D}/p.bin", r.choice(["--cmode", "--hmode"]), "99999999999999999999"], "parse-fails-or-info"))
            ops.append((["cli", "{D}/z%d.wenc" % h, "-e", "-i", "{D}/p.bin", "-k", b64(key), "-o", "{D}/z%d.wenc" % h, "--cmode", str(r.randrange(5)), "--hmode", str(r.randrange(3)), "-n"], "cli-enc"))
        if h in shortf:
            T2 = r.choice([2, 3, 4, 16])
            at = r.randrange(0, len(ops) + 1)
            ops[at:at] = [([r.choice(["dec", "ver", "dec"]), str(T2), short_meta[h][0].hex(), shortf[h]], "api-short-file-more-threads-than-iv-slots"),
                          (["enc", str(r.randrange(5)), str(r.randrange(3)), str(r.choice([1, 2, 4])), key.hex(), rnd_seed(r).hex(), wv.hexs(rnd_bytes(r, CH + 9))], "api-enc-multichunk")]
        hist_ops[h] = ops
        lines.append("h%d hist %s" % (h, ";".join(",".join(f.replace("{D}", dirs["hist"]) for f in fields) for fields, _ in ops)))
        for i, (fields, _) in enumerate(ops):
            lines.append("a%d_%d %s" % (h, i, " ".join(f.replace("{D}", dirs["alone"]) for f in fields)))
    # one driver process handles a history and then its single operations in order (each in a freshly forked child)
    groups = {}
    for l in lines:
        h = l.split()[0][1:].split("_")[0]
        groups.setdefault(h, []).append(l)
    out = {}
    from concurrent.futures import ThreadPoolExecutor
    env = dict(env, WV_COUNT_FDS="1")

    def one(g):
        return wv.run_lines([exe], g, shards=1, env=env)
    with ThreadPoolExecutor(max_workers=wv.NCPU) as ex:
        for res in ex.map(one, groups.values()):
            out.update(res)
    dist = ck.cov.setdefault("case_classes", {})
    distinct = set()
    def canon(s, kind):
        head = s.split(" | ")[0]
        if kind == "cli-enc":       # the CLI draws its IV seed from rand(): compare status and length only
            w = head.split()
            return " ".join(x for x in w if not x.startswith("out="))
        return head
    for h, ops in hist_ops.items():
        got = out.get("h%d" % h, "(no output)")
        parts = got.split(" ; ")
        for i, (fields, kind) in enumerate(ops):
            ck.cov["evaluations"] += 1
            dist[kind] = dist.get(kind, 0) + 1
            distinct.add((kind, i, tuple(f for f in fields if "{D}" not in f and len(f) < 40)))
            alone = out.get("a%d_%d" % (h, i), "(no output)")
            inhist = parts[i] if i < len(parts) else "(missing: the history died: %s)" % got[:60]
            fa, fh = split_impl(alone)[1].get("fds"), split_impl(inhist)[1].get("fds")
            if canon(inhist, kind) == canon(alone, kind) and fa is not None and fh is not None and fa != fh:
                ck.violation("after operation %d (%s) of a history %s descriptors are open, after the same operation alone in a fresh process %s: an earlier operation left a file handle open (a long enough history runs out of descriptors)" % (i, kind, fh, fa),
                             {"class": None, "history": [" ".join(f) for f, _ in ops], "position": i, "kind": kind, "open_descriptors_in_history": fh, "open_descriptors_alone": fa, "driver_flags": ck.impl_flags,
                              "replay": "WV_COUNT_FDS=1; feed 'h hist op;op;...' and each op alone to harness/drv.cpp built against /repo: compare the fds= fields"})
                break
            if canon(inhist, kind) != canon(alone, kind):
                ck.violation("operation %d (%s) of a history gives a different result than alone in a fresh process: in history '%s', alone '%s'" % (i, kind, canon(inhist, kind)[:60], canon(alone, kind)[:60]),
                             {"class": None, "history": [" ".join(f) for f, _ in ops], "position": i, "kind": kind, "in_history": inhist[:500], "alone": alone[:500], "driver_flags": ck.impl_flags,
                              "replay": "feed 'h hist op;op;...' (fields joined by ',') and each op alone to harness/drv.cpp built against /repo; {D} = a scratch directory holding p.bin"})
                break
        if len(ck.cov["samples"]) < 4:
            ck.cov["samples"].append({"history": [k for _, k in ops], "results": [p[:30] for p in parts]})
    # the library-level operations of the histories, in the same order in ONE process image of the TRANSLATED SOURCE (SrcRun5.src_history:
    # the statics and the heap are carried from one operation to the next); each result must be what the implementation gives for
    # the operation alone
    hl, hmeta = [], {}
    for h, ops in hist_ops.items():
        api = [(i, f) for i, (f, kind) in enumerate(ops) if f[0] in ("enc", "dec", "ver") and sum(len(x) for x in f) < 3000]
        if len(api) >= 2:
            hl.append("s%d @S=%d hist %s" % (h, r.randrange(1 << 30), ";".join(",".join(f) for _, f in api[:8])))
            hmeta[h] = api[:8]
    hl = hl[:40 if big else 14]
    sres = wv.run_lines([ck.model_driver(), "src"], hl, shards=wv.NCPU, env=env, timeout=1800) if hl else {}
    sdiff = []
    for h, api in hmeta.items():
        got = sres.get("s%d" % h)
        if got is None:
            continue
        parts = got.split(" ; ")
        for j, (i, f) in enumerate(api):
            alone = out.get("a%d_%d" % (h, i), "(no output)").split(" | ")[0]
            mine = parts[j].strip() if j < len(parts) else "(history ended)"
            ck.cov["operations_in_translated_histories"] = ck.cov.get("operations_in_translated_histories", 0) + 1
            if mine != alone:
                sdiff.append({"class": None, "history": [" ".join(x) for _, x in api], "position": j, "translated_source_in_history": mine[:400], "implementation_alone": alone[:400],
                              "broken": "correspondence translated whole-file history vs implementation"})
                break
    ck.cov["disagreements_source_vs_impl"] = ck.cov.get("disagreements_source_vs_impl", 0) + len(sdiff)
    if sdiff and not ck.violations:
        ck.violation("an operation inside a history run on the translated source gives another result than the implementation alone (%d histories) but no failing history of the implementation was found" % len(sdiff), sdiff[0], found_input=False)
    ck.cov["distinct_nontrivial"] = len(distinct)
    ck.cov["histories"] = nhist
    return finish_proof(ck, rule="%d random histories of 3..8 operations in ONE process (library-level encrypt incl. multi-chunk and T up to 16, decrypt of garbage, verify with a bad tag, verify/decrypt of a valid file interleaved with verify/decrypt of a same-length copy whose body was changed; option-driven encrypt / decrypt / decrypt with wrong key / verify through get_v_opt; parses aborted inside a clustered option, failing parses, -V/-h) against the same operation alone in a freshly forked process; results and output bytes compared (option-driven encryption: status and length only, its IV seed is random). distinct = distinct (kind, position, short arguments)" % nhist,
                        assumptions=["glibc getopt_long: optind = 0 reinitialises the scanner (documented glibc behaviour)"])
