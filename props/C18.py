"""C18: each cipher stream in a file starts from its own seed-dependent IV (known finding K2 for 'own')."""
import hashlib
from props.filegen import *

THEOREMS = ["C18_stored_ivs_are_the_sha1_chain", "C18_distinct_stream_ivs_refuted"]
K2 = "K2-all-streams-start-from-iv-slot-0"


def xor(a, b):
    return bytes(x ^ y for x, y in zip(a, b))


def run(ck):
    ck.prove(["Properties_C18", "Properties_Src2"], THEOREMS + ["SRC_header"])
    exe = small_driver(ck)
    env = small_env(ck)
    big = ck.tier == "thorough"
    r = ck.rng
    cases = []
    for i in range(60 if big else 24):
        T = [2, 3, 4, 5, 16][i % 5]
        cm = [1, 2, 3, 4][i % 4]
        nch = r.randrange(2, 6)
        n = nch * CH - r.randrange(0, 20)
        plain = rnd_bytes(r, n)
        if i % 3 == 0:            # equal plaintext chunks: chunk 0 == chunk 1
            plain = plain[:CH] + plain[:CH] + plain[2 * CH:]
        cases.append(EncCase(len(plain), cm, i % 3, T, rnd_bytes(r, 16), rnd_seed(r), plain, "equal-chunks" if i % 3 == 0 else "random-chunks"))
    # seeds longer than any 8- or 16-bit length: every byte up to the terminating NUL must count
    for j, sl in enumerate([255, 256, 65535, 65536, 65539] + ([100000, 131072, 200001] if big else [])):
        plain = rnd_bytes(r, 2 * CH - 3)
        seed = bytes(r.randrange(1, 256) for _ in range(sl))
        cases.append(EncCase(len(plain), [2, 1, 3, 4][j % 4], j % 3, [2, 4][j % 2], rnd_bytes(r, 16), seed, plain, "long-seed"))
    lines = ["e%d %s" % (i, c.line()) for i, c in enumerate(cases)]
    # same parameters, different seed
    l2 = []
    for i, c in enumerate(cases):
        # the second seed shares everything but its LAST byte with the first when the seed is long (every byte must count)
        s2 = (c.seed[:-1] + bytes([(c.seed[-1] % 255) + 1])) if len(c.seed) >= 8 and i % 2 == 0 else bytes((b % 255) + 1 for b in hashlib.md5(c.seed).digest())
        if s2 == c.seed:
            s2 = c.seed + b"x"
        l2.append("f%d enc %d %d %d %s %s %s" % (i, c.cm, c.hm, c.T, c.key.hex(), s2.hex(), wv.hexs(c.plain)))
    impl = wv.run_lines([exe], lines + l2, env=env)
    dist = ck.cov.setdefault("case_classes", {})
    distinct = set()
    for i, c in enumerate(cases):
        ck.cov["evaluations"] += 1
        dist["cmode%d/%s" % (c.cm, c.cls)] = dist.get("cmode%d/%s" % (c.cm, c.cls), 0) + 1
        distinct.add((c.n, c.cm, c.T, c.cls))
        h1, _ = split_impl(impl.get("e%d" % i, "(no output)"))
        h2, _ = split_impl(impl.get("f%d" % i, "(no output)"))
        rep = {"class": None, "case": c.line()[:3000], "cmode": c.cm, "T": c.T, "n": c.n, "chunk_bytes": CH, "driver_flags": ck.impl_flags}
        if not h1.startswith("OK ") or not h2.startswith("OK "):
            ck.violation("encryption failed", rep)
            continue
        f1, f2 = bytes.fromhex(h1.split()[1]), bytes.fromhex(h2.split()[1])
        tm = 48 + 20 * c.T
        ivs = [f1[48 + 20 * k:68 + 20 * k] for k in range(c.T)]
        # seed dependence and the stored chain
        chain = [hashlib.sha1(c.seed).digest()]
        for k in range(1, c.T):
            chain.append(hashlib.sha1(chain[-1]).digest())
        if ivs != chain:
            ck.violation("the stored IVs are not the chained SHA-1 of the seed", rep)
            continue
        if len(set(ivs)) != c.T:
            ck.violation("two stored IV slots are equal", rep)
            continue
        if f1[48:tm] == f2[48:tm] or f1[tm:] == f2[tm:]:
            ck.violation("IVs or ciphertext do not depend on the seed", rep)
            continue
        # which IV does stream 1 really use?  chunk 0 -> stream 0, chunk 1 -> stream 1
        b0, b1 = f1[tm:tm + CH], f1[tm + CH:tm + 2 * CH]
        p0, p1 = c.plain[:CH], c.plain[CH:2 * CH]
        shared = False
        if c.cm in (2, 4):
            shared = xor(b0, b1)[:len(p1)] == xor(p0, p1)[:len(p1)]
        elif c.cls == "equal-chunks":
            shared = b0 == b1
        else:
            shared = None   # not observable from this file
        if shared:
            rep["class"] = K2
            rep["observation"] = "ciphertext chunk0 xor chunk1 == plaintext chunk0 xor chunk1 (keystream reuse)" if c.cm in (2, 4) else "equal plaintext chunks 0 and 1 gave equal ciphertext chunks"
            ck.violation("streams 0 and 1 of one file were started from the same IV (cmode %d, T=%d)" % (c.cm, c.T), rep)
        if len(ck.cov["samples"]) < 6:
            ck.cov["samples"].append({"cmode": c.cm, "T": c.T, "n": c.n, "class": c.cls, "iv_slots_distinct": True, "streams_0_1_share_iv": shared})
    # a stream is CONTINUOUS across its chunks: in CBC / CFB the first block of chunk k (k >= T) chains on the last ciphertext block of
    # chunk k-T, the previous chunk of the same stream - whatever IV the stream started from (independent of finding K2)
    mdrv = ck.model_driver()
    cl, cmeta = [], {}
    for j in range(12 if big else 6):
        T, cm = [1, 2, 2, 3][j % 4], [1, 3][j % 2]
        nch = T * r.randrange(2, 4) + r.randrange(0, T)
        plain = rnd_bytes(r, nch * CH + r.randrange(0, 30))
        if j % 3 == 0:        # equal plaintext chunks within one stream
            plain = (plain[:CH] * nch) + plain[nch * CH:]
        c = EncCase(len(plain), cm, j % 3, T, rnd_bytes(r, 16), rnd_seed(r), plain, "continuity")
        cl.append("k%d %s" % (j, c.line()))
        cmeta[j] = c
    co = wv.run_lines([exe], cl, env=env)
    sl, smeta = [], {}
    for j, c in cmeta.items():
        head = split_impl(co.get("k%d" % j, ""))[0]
        if not head.startswith("OK "):
            continue
        f = bytes.fromhex(head.split()[1])
        body = f[48 + 20 * c.T:]
        nfull = c.n // CH
        for k in range(c.T, nfull):
            prev = body[(k - c.T) * CH:(k - c.T + 1) * CH]
            sid = "s%d_%d" % (j, k)
            sl.append("%s mode e %d %s %s %s" % (sid, c.cm, c.key.hex(), (prev[-16:] + b"\0\0\0\0").hex(), c.plain[k * CH:(k + 1) * CH].hex()))
            smeta[sid] = (c, k, body[k * CH:(k + 1) * CH])
    so = wv.run_lines([mdrv, "spec"], sl)
    for sid, (c, k, got) in smeta.items():
        ck.cov["evaluations"] += 1
        if so.get(sid) != got.hex():
            ck.violation("chunk %d of a %s file does not continue the stream of chunk %d (same worker): its first block does not chain on that chunk's last ciphertext block (T=%d)" % (k, "CBC" if c.cm == 1 else "CFB", k - c.T, c.T),
                         {"class": None, "case": c.line()[:3000], "chunk": k, "T": c.T, "cmode": c.cm, "implementation_chunk": got.hex(), "expected_chunk": so.get(sid), "chunk_bytes": CH, "driver_flags": ck.impl_flags})
            break
    dist["stream-continuity-across-chunks"] = len(smeta)
    # a caller that keeps ONE seed buffer and encrypts several files with it in one process (the driver hands equal seed values to the
    # library in the same buffer): every file's IV slots must still be the chain of THAT seed
    hl, hmeta = [], {}
    for h in range(12 if big else 5):
        seed, key = rnd_seed(r), rnd_bytes(r, 16)
        ops = []
        for j in range(r.randrange(2, 4)):
            ops.append((r.randrange(1, 5), r.randrange(3), r.choice([2, 3, 4]), rnd_bytes(r, CH + r.randrange(1, 2 * CH))))
        hl.append("h%d hist %s" % (h, ";".join("enc,%d,%d,%d,%s,%s,%s" % (cm, hm, T, key.hex(), seed.hex(), wv.hexs(p)) for cm, hm, T, p in ops)))
        hmeta[h] = (seed, ops)
    ho = wv.run_lines([exe], hl, env=env)
    for h, (seed, ops) in hmeta.items():
        parts = ho.get("h%d" % h, "(no output)").split(" ; ")
        for j, (cm, hm, T, p) in enumerate(ops):
            ck.cov["evaluations"] += 1
            head = split_impl(parts[j])[0] if j < len(parts) else "(missing)"
            chain = [hashlib.sha1(seed).digest()]
            for k in range(1, T):
                chain.append(hashlib.sha1(chain[-1]).digest())
            ok = head.startswith("OK ") and bytes.fromhex(head.split()[1])[48:48 + 20 * T] == b"".join(chain)
            if not ok:
                ck.violation("encryption %d of %d in one process with the caller's seed buffer reused: the stored IVs are not the chained SHA-1 of the seed" % (j + 1, len(ops)),
                             {"class": None, "history": hl[h][:3000], "position": j, "seed": seed.hex(), "implementation": head[:400], "expected_iv_area": b"".join(chain).hex(), "driver_flags": ck.impl_flags,
                              "replay": "echo '<history>' | harness/drv.cpp built with the flags above against /repo (equal seed values of one history share one buffer)"})
                break
    dist["seed-buffer-reused-in-one-process"] = len(hl)
    ck.cov["distinct_nontrivial"] = len(distinct)
    return finish_proof(ck, rule="multi-chunk plaintexts (2..5 chunks of 64 bytes), non-ECB modes, T in {2,3,4,5,16}, every third case with equal plaintext chunks 0 and 1; each encrypted under two seeds. Checked: stored IV slots = chained SHA-1 of the seed and pairwise distinct, IVs and body change with the seed, and whether streams 0 and 1 share their IV (xor of ciphertext chunks vs xor of plaintext chunks in CTR/OFB; equal chunks in CBC/CFB). distinct = distinct (n, cmode, T, class)",
                        assumptions=["known finding K2: all streams start from IV slot 0 (format fixed by C02)"])
