"""C18: each cipher stream in a file starts from its own seed-dependent IV (known finding K2 for 'own')."""
import hashlib
from props.filegen import *

THEOREMS = ["C18_stored_ivs_are_the_sha1_chain", "C18_distinct_stream_ivs_refuted"]
K2 = "K2-all-streams-start-from-iv-slot-0"


def xor(a, b):
    return bytes(x ^ y for x, y in zip(a, b))


def prompt_mode_seed(ck):
    """The interactive front end (no arguments: get_v_mod1) is the other caller that hands a seed to the library: the characters the
    user types at "Please input some random characters." must be what the IV chain is computed from.  The real binary is run with the
    answers on stdin, in several LAYOUTS of the answers before the seed (trailing blanks / tabs after the numeric answers, empty
    lines); for the plain layout the stored chain must be the chained SHA-1 of the typed word, for every layout two runs that differ
    ONLY in the typed seed must store different IVs (a seed the front end drops or replaces by left-over input is not the caller's)."""
    import base64, os, subprocess
    try:
        exe = ck.impl_driver(kind="cli")
    except wv.BuildError as e:
        ck.notes.append("CLI build failed: " + str(e)[-200:])
        return
    r = ck.rng
    d = os.path.join(ck.scratch, "ui18")
    os.makedirs(d, exist_ok=True)
    key = rnd_bytes(r, 16)
    K = base64.b64encode(key).decode()
    open(os.path.join(d, "note.txt"), "wb").write(rnd_bytes(r, 300))
    alphabet = "abcdefghijklmnopqrstuvwxyzABCDEFGHIJKLMNOPQRSTUVWXYZ0123456789!#%+-=_.,:;@"
    layouts = [("plain", "%d\n", "%d\n", ""), ("blank-after-hash-answer", "%d\n", "%d \n", ""), ("tab-after-cipher-answer", "%d\t\n", "%d\n", ""),
               ("blanks-after-both-answers", "%d  \n", "%d \t \n", ""), ("empty-lines-before-seed", "%d\n", "%d\n", "\n\n"), ("blank-before-seed", "%d\n", "%d\n", " ")]
    n = 0
    for li, (lname, cfmt, hfmt, pre) in enumerate(layouts):
        for cm in ([1, 2, 3, 4] if ck.tier == "thorough" else [[2, 1], [4, 3], [1, 2], [3, 4], [2, 3], [4, 1]][li]):
            hm = r.randrange(3)
            seeds = ["".join(r.choice(alphabet) for _ in range(r.randrange(1, 40))) for _ in range(2)]
            if seeds[0] == seeds[1]:
                seeds[1] += "x"
            iv = []
            for sd in seeds:
                stdin = ("e\nnote.txt\nn\n%s\n" % K) + (cfmt % cm) + (hfmt % hm) + pre + sd + "\n"
                try:
                    os.remove(os.path.join(d, "note.txt.wenc"))
                except OSError:
                    pass
                try:
                    p = subprocess.run([exe], cwd=d, input=stdin.encode(), stdout=subprocess.PIPE, stderr=subprocess.STDOUT, timeout=60)
                    st = ("CRASH %d" % -p.returncode) if p.returncode < 0 else ("EXIT %d" % p.returncode)
                    out = p.stdout.decode("utf-8", "replace")[-300:]
                except subprocess.TimeoutExpired:
                    st, out = "HANG", ""
                f = open(os.path.join(d, "note.txt.wenc"), "rb").read() if os.path.isfile(os.path.join(d, "note.txt.wenc")) else b""
                ck.cov["evaluations"] += 1
                n += 1
                rep = {"class": None, "front_end": "interactive prompts (no arguments)", "layout": lname, "stdin": stdin, "typed_seed": sd, "cmode": cm, "hmode": hm, "status": st, "output_tail": out,
                       "stored_first_iv": f[48:68].hex(), "cwd_layout": "a directory with note.txt (300 random bytes)",
                       "replay": "run the Wencry binary built from /repo (no arguments) in that directory with the recorded stdin; the IV area starts at byte 48 of note.txt.wenc"}
                if st != "EXIT 0" or len(f) < 68:
                    ck.violation("encryption through the interactive prompts did not succeed (%s, layout %s)" % (st, lname), rep)
                    return
                if lname == "plain" and f[48:68] != hashlib.sha1(sd.encode()).digest():
                    rep["expected_first_iv"] = hashlib.sha1(sd.encode()).hexdigest()
                    ck.violation("interactive encryption: the stored IV chain does not start with SHA-1 of the characters the user typed as the random seed", rep)
                    return
                iv.append((f[48:68], stdin))
            if iv[0][0] == iv[1][0]:
                rep["other_stdin"], rep["other_typed_seed"] = iv[0][1], seeds[0]
                ck.violation("interactive encryption: two runs that differ only in the typed random characters stored the SAME IVs - the IVs do not depend on the caller's seed (answers laid out as: %s)" % lname, rep)
                return
    ck.cov.setdefault("case_classes", {})["real-binary/prompt-mode-seed-layouts"] = n


def run(ck):
    ck.prove(["Properties_C18", "Properties_Src2"], THEOREMS + ["SRC_header"])
    exe = small_driver(ck)
    env = small_env(ck)
    big = ck.tier == "thorough"
    r = ck.rng
    cases = []
    for i in range(60 if big else 24):
        T = [2, 3, 4, 5, 16][i % 5]
        cm = [1, 2, 3, 4][i % 4]
        nch = r.randrange(2, 6)
        n = nch * CH - r.randrange(0, 20)
        plain = rnd_bytes(r, n)
        if i % 3 == 0:            # equal plaintext chunks: chunk 0 == chunk 1
            plain = plain[:CH] + plain[:CH] + plain[2 * CH:]
        cases.append(EncCase(len(plain), cm, i % 3, T, rnd_bytes(r, 16), rnd_seed(r), plain, "equal-chunks" if i % 3 == 0 else "random-chunks"))
    # seeds longer than any 8- or 16-bit length: every byte up to the terminating NUL must count
    for j, sl in enumerate([255, 256, 65535, 65536, 65539] + ([100000, 131072, 200001] if big else [])):
        plain = rnd_bytes(r, 2 * CH - 3)
        seed = bytes(r.randrange(1, 256) for _ in range(sl))
        cases.append(EncCase(len(plain), [2, 1, 3, 4][j % 4], j % 3, [2, 4][j % 2], rnd_bytes(r, 16), seed, plain, "long-seed"))
    lines = ["e%d %s" % (i, c.line()) for i, c in enumerate(cases)]
    # same parameters, different seed
    l2 = []
    for i, c in enumerate(cases):
        # the second seed shares everything but its LAST byte with the first when the seed is long (every byte must count)
        s2 = (c.seed[:-1] + bytes([(c.seed[-1] % 255) + 1])) if len(c.seed) >= 8 and i % 2 == 0 else bytes((b % 255) + 1 for b in hashlib.md5(c.seed).digest())
        if s2 == c.seed:
            s2 = c.seed + b"x"
        l2.append("f%d enc %d %d %d %s %s %s" % (i, c.cm, c.hm, c.T, c.key.hex(), s2.hex(), wv.hexs(c.plain)))
    impl = wv.run_lines([exe], lines + l2, env=env)
    dist = ck.cov.setdefault("case_classes", {})
    distinct = set()
    for i, c in enumerate(cases):
        ck.cov["evaluations"] += 1
        dist["cmode%d/%s" % (c.cm, c.cls)] = dist.get("cmode%d/%s" % (c.cm, c.cls), 0) + 1
        distinct.add((c.n, c.cm, c.T, c.cls))
        h1, _ = split_impl(impl.get("e%d" % i, "(no output)"))
        h2, _ = split_impl(impl.get("f%d" % i, "(no output)"))
        rep = {"class": None, "case": c.line()[:3000], "cmode": c.cm, "T": c.T, "n": c.n, "chunk_bytes": CH, "driver_flags": ck.impl_flags}
        if not h1.startswith("OK ") or not h2.startswith("OK "):
            ck.violation("encryption failed", rep)
            continue
        f1, f2 = bytes.fromhex(h1.split()[1]), bytes.fromhex(h2.split()[1])
        tm = 48 + 20 * c.T
        ivs = [f1[48 + 20 * k:68 + 20 * k] for k in range(c.T)]
        # seed dependence and the stored chain
        chain = [hashlib.sha1(c.seed).digest()]
        for k in range(1, c.T):
            chain.append(hashlib.sha1(chain[-1]).digest())
        if ivs != chain:
            ck.violation("the stored IVs are not the chained SHA-1 of the seed", rep)
            continue
        if len(set(ivs)) != c.T:
            ck.violation("two stored IV slots are equal", rep)
            continue
        if f1[48:tm] == f2[48:tm] or f1[tm:] == f2[tm:]:
            ck.violation("IVs or ciphertext do not depend on the seed", rep)
            continue
        # which IV does stream 1 really use?  chunk 0 -> stream 0, chunk 1 -> stream 1
        b0, b1 = f1[tm:tm + CH], f1[tm + CH:tm + 2 * CH]
        p0, p1 = c.plain[:CH], c.plain[CH:2 * CH]
        shared = False
        if c.cm in (2, 4):
            shared = xor(b0, b1)[:len(p1)] == xor(p0, p1)[:len(p1)]
        elif c.cls == "equal-chunks":
            shared = b0 == b1
        else:
            shared = None   # not observable from this file
        if shared:
            rep["class"] = K2
            rep["observation"] = "ciphertext chunk0 xor chunk1 == plaintext chunk0 xor chunk1 (keystream reuse)" if c.cm in (2, 4) else "equal plaintext chunks 0 and 1 gave equal ciphertext chunks"
            ck.violation("streams 0 and 1 of one file were started from the same IV (cmode %d, T=%d)" % (c.cm, c.T), rep)
        if len(ck.cov["samples"]) < 6:
            ck.cov["samples"].append({"cmode": c.cm, "T": c.T, "n": c.n, "class": c.cls, "iv_slots_distinct": True, "streams_0_1_share_iv": shared})
    # a stream is CONTINUOUS across its chunks: in CBC / CFB the first block of chunk k (k >= T) chains on the last ciphertext block of
    # chunk k-T, the previous chunk of the same stream - whatever IV the stream started from (independent of finding K2)
    mdrv = ck.model_driver()
    cl, cmeta = [], {}
    for j in range(12 if big else 6):
        T, cm = [1, 2, 2, 3][j % 4], [1, 3][j % 2]
        nch = T * r.randrange(2, 4) + r.randrange(0, T)
        plain = rnd_bytes(r, nch * CH + r.randrange(0, 30))
        if j % 3 == 0:        # equal plaintext chunks within one stream
            plain = (plain[:CH] * nch) + plain[nch * CH:]
        c = EncCase(len(plain), cm, j % 3, T, rnd_bytes(r, 16), rnd_seed(r), plain, "continuity")
        cl.append("k%d %s" % (j, c.line()))
        cmeta[j] = c
    co = wv.run_lines([exe], cl, env=env)
    sl, smeta = [], {}
    for j, c in cmeta.items():
        head = split_impl(co.get("k%d" % j, ""))[0]
        if not head.startswith("OK "):
            continue
        f = bytes.fromhex(head.split()[1])
        body = f[48 + 20 * c.T:]
        nfull = c.n // CH
        for k in range(c.T, nfull):
            prev = body[(k - c.T) * CH:(k - c.T + 1) * CH]
            sid = "s%d_%d" % (j, k)
            sl.append("%s mode e %d %s %s %s" % (sid, c.cm, c.key.hex(), (prev[-16:] + b"\0\0\0\0").hex(), c.plain[k * CH:(k + 1) * CH].hex()))
            smeta[sid] = (c, k, body[k * CH:(k + 1) * CH])
    so = wv.run_lines([mdrv, "spec"], sl)
    for sid, (c, k, got) in smeta.items():
        ck.cov["evaluations"] += 1
        if so.get(sid) != got.hex():
            ck.violation("chunk %d of a %s file does not continue the stream of chunk %d (same worker): its first block does not chain on that chunk's last ciphertext block (T=%d)" % (k, "CBC" if c.cm == 1 else "CFB", k - c.T, c.T),
                         {"class": None, "case": c.line()[:3000], "chunk": k, "T": c.T, "cmode": c.cm, "implementation_chunk": got.hex(), "expected_chunk": so.get(sid), "chunk_bytes": CH, "driver_flags": ck.impl_flags})
            break
    dist["stream-continuity-across-chunks"] = len(smeta)
    # a caller that keeps ONE seed buffer and encrypts several files with it in one process (the driver hands equal seed values to the
    # library in the same buffer): every file's IV slots must still be the chain of THAT seed
    hl, hmeta = [], {}
    for h in range(12 if big else 5):
        seed, key = rnd_seed(r), rnd_bytes(r, 16)
        ops = []
        for j in range(r.randrange(2, 4)):
            ops.append((r.randrange(1, 5), r.randrange(3), r.choice([2, 3, 4]), rnd_bytes(r, CH + r.randrange(1, 2 * CH))))
        hl.append("h%d hist %s" % (h, ";".join("enc,%d,%d,%d,%s,%s,%s" % (cm, hm, T, key.hex(), seed.hex(), wv.hexs(p)) for cm, hm, T, p in ops)))
        hmeta[h] = (seed, ops)
    ho = wv.run_lines([exe], hl, env=env)
    for h, (seed, ops) in hmeta.items():
        parts = ho.get("h%d" % h, "(no output)").split(" ; ")
        for j, (cm, hm, T, p) in enumerate(ops):
            ck.cov["evaluations"] += 1
            head = split_impl(parts[j])[0] if j < len(parts) else "(missing)"
            chain = [hashlib.sha1(seed).digest()]
            for k in range(1, T):
                chain.append(hashlib.sha1(chain[-1]).digest())
            ok = head.startswith("OK ") and bytes.fromhex(head.split()[1])[48:48 + 20 * T] == b"".join(chain)
            if not ok:
                ck.violation("encryption %d of %d in one process with the caller's seed buffer reused: the stored IVs are not the chained SHA-1 of the seed" % (j + 1, len(ops)),
                             {"class": None, "history": hl[h][:3000], "position": j, "seed": seed.hex(), "implementation": head[:400], "expected_iv_area": b"".join(chain).hex(), "driver_flags": ck.impl_flags,
                              "replay": "echo '<history>' | harness/drv.cpp built with the flags above against /repo (equal seed values of one history share one buffer)"})
                break
    dist["seed-buffer-reused-in-one-process"] = len(hl)
    prompt_mode_seed(ck)
    ck.cov["distinct_nontrivial"] = len(distinct)
    return finish_proof(ck, rule="multi-chunk plaintexts (2..5 chunks of 64 bytes), non-ECB modes, T in {2,3,4,5,16}, every third case with equal plaintext chunks 0 and 1; each encrypted under two seeds. Checked: stored IV slots = chained SHA-1 of the seed and pairwise distinct, IVs and body change with the seed, and whether streams 0 and 1 share their IV (xor of ciphertext chunks vs xor of plaintext chunks in CTR/OFB; equal chunks in CBC/CFB). distinct = distinct (n, cmode, T, class)",
                        assumptions=["known finding K2: all streams start from IV slot 0 (format fixed by C02)"])
