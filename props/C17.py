"""C17: command line: no crash on any option vector; exit 0 iff the operation succeeded."""
import base64, os, re, subprocess, shutil
from concurrent.futures import ThreadPoolExecutor
from props.filegen import *

THEOREMS = ["C17_never_crashes", "C17_exit_zero_iff_success", "C17_failure_is_diagnosed", "C17_success_requirements", "C17_documented_failures", "C17_defaults"]
DIAG = re.compile(r"Error|Wrong key|too short|Wrong magic|not match|Invalid crypt type|Invalid hash type|Invalid values|Unknown res")


def b64(k):
    return base64.b64encode(k).decode()


def run_bin(exe, argv, cwd, timeout=30):
    try:
        p = subprocess.run([exe] + argv, cwd=cwd, stdin=subprocess.DEVNULL, stdout=subprocess.PIPE, stderr=subprocess.STDOUT, timeout=timeout)
        out = p.stdout.decode("utf-8", "replace")
        if p.returncode < 0:
            return "CRASH", -p.returncode, out
        return "EXIT", p.returncode, out
    except subprocess.TimeoutExpired:
        return "HANG", 0, ""


class World:
    """files the option values refer to"""

    def __init__(self, ck, exe):
        self.d = os.path.join(ck.scratch, "cli")
        os.makedirs(self.d)
        r = ck.rng
        self.plain = rnd_bytes(r, 150)
        self.K = {1: rnd_bytes(r, 16), 2: rnd_bytes(r, 16)}
        open(os.path.join(self.d, "p.bin"), "wb").write(self.plain)
        for k in (1, 2):
            kind, rc, out = run_bin(exe, ["-e", "-i", "p.bin", "-k", b64(self.K[k]), "-o", "w%d.wenc" % k, "-n"], self.d)
            if (kind, rc) != ("EXIT", 0):
                raise RuntimeError("cannot prepare encrypted file: %s %s %s" % (kind, rc, out[-300:]))
        longdir = os.path.join(self.d, "L" * 60, "M" * 60)
        os.makedirs(longdir)
        self.longrel = os.path.join("L" * 60, "M" * 60)
        for name in ("p.bin", "w1.wenc", "w2.wenc"):
            shutil.copy(os.path.join(self.d, name), os.path.join(longdir, name))
        # inputs whose default output <input>.wenc cannot be opened (it is a directory)
        os.makedirs(os.path.join(self.d, "blk"))
        for name in ("p.bin", "w1.wenc", "w2.wenc"):
            shutil.copy(os.path.join(self.d, name), os.path.join(self.d, "blk", name))
            os.makedirs(os.path.join(self.d, "blk", name + ".wenc"))
        # names of exact length: strlen + 5 >= 128 is "too long for the default output name"
        for k in (121, 122, 123, 124):
            shutil.copy(os.path.join(self.d, "p.bin"), os.path.join(self.d, "n" * k))
        os.makedirs(os.path.join(self.d, "adir"))
        try:
            os.symlink("loop", os.path.join(self.d, "loop"))       # a symbolic link to itself: every access fails with ELOOP
        except OSError:
            pass
        self.n = 0

    def in_path(self, long, dflt, f):
        if isinstance(f, tuple):      # ("N", k): plain file whose name has exactly k characters; ("S", path): special file
            return "n" * f[1] if f[0] == "N" else f[1]      # ("X", path): a path that cannot be opened for a reason other than 'no such file'
        name = {"M": "missing.bin", "P": "p.bin", "W1": "w1.wenc", "W2": "w2.wenc"}[f]
        if long:
            return os.path.join(self.longrel, name)
        if not dflt and f != "M":
            return os.path.join("blk", name)
        return name

    def out_path(self, ok):
        self.n += 1
        return ("out_%d.bin" % self.n) if ok else "/nonexistent_dir_wv/out.bin"


def gen_vectors(ck, w, count):
    """list of (model tokens, argv)"""
    r = ck.rng
    res = []
    modes = ["e", "d", "v", "V", "h"]
    longf = {"e": "--encode", "d": "--decode", "v": "--verify", "V": "--version", "h": "--help", "n": "--no_echo"}

    def render(tokens):
        argv = []
        for t in tokens:
            k = t[0]
            if k in "edvVhn":
                argv.append(r.choice(["-" + k, longf[k]]))
            elif k == "i":
                _, long, dflt, f = t
                pth = w.in_path(long, dflt, f)
                form = r.randrange(3)
                argv += [["-i", pth], ["--input", pth], ["--input=" + pth]][form]
            elif k == "o":
                pth = w.out_path(t[1])
                argv += r.choice([["-o", pth], ["--output", pth]])
            elif k == "k":
                hi = bytearray(b64(w.K[1]).encode())     # a valid key text with one symbol's top bit set: not a base64 text
                hi[r.randrange(22)] |= 0x80
                txt = {"I": r.choice(["notakey", "A" * 24, "A" * 23 + "=", "", "A" * 21 + "=A=", bytes(hi).decode("utf-8", "surrogateescape"), b64(w.K[1])[:21] + "A===", b64(w.K[1]) + "A",
                                      b64(w.K[1])[:22] + "A" * r.randrange(1, 4) + "=="]),
                       "V1": b64(w.K[1]), "V2": b64(w.K[2])}[t[1]]
                argv += r.choice([["-k", txt], ["--key", txt], ["--key=" + txt]])
            elif k == "c":
                argv += ["--cmode", str(t[2]) if len(t) > 2 else str(t[1])]
            elif k == "m":
                argv += ["--hmode", str(t[2]) if len(t) > 2 else str(t[1])]
            elif k == "x":
                argv += [r.choice([["-q"], ["--bogus"], ["-m", "3"], ["-z"]])][0]
        return argv

    def tok_text(t):
        k = t[0]
        if k in "edvVhnx":
            return k
        if k == "i":
            return "i:%d:%d:%s" % (1 if t[1] else 0, 1 if t[2] else 0, ("M" if t[3][0] == "X" else "P") if isinstance(t[3], tuple) else t[3])
        if k == "o":
            return "o:%d" % (1 if t[1] else 0)
        if k == "k":
            return "k:" + t[1]
        return "%s:%d" % (k, t[1])

    def rnd_in(cls=None):
        f = cls or r.choice(["P", "W1", "W2", "M"])
        long = r.random() < 0.15
        dflt = r.random() < 0.85
        return ("i", long, dflt if not long else True, f)

    base = [
        [("e",), ("i", False, True, "P")], [("e",), ("i", True, True, "P")], [("e",), ("i", False, False, "P")],
        [("d",), ("i", False, True, "W1")], [("d",), ("i", False, True, "W1"), ("k", "V1")], [("d",), ("i", False, True, "W1"), ("o", True)],
        [("d",), ("i", False, True, "W1"), ("o", True), ("k", "V1")], [("d",), ("i", False, True, "W1"), ("o", True), ("k", "V2")],
        [("v",), ("i", False, True, "W1")], [("v",), ("i", False, True, "W1"), ("k", "V1")], [("v",), ("k", "V1")], [("v",), ("i", False, True, "W2"), ("k", "V1"), ("n",)],
        [("d",), ("k", "V1"), ("o", True)], [("e",)], [("n",)], [("e",), ("d",), ("i", False, True, "P")], [("V",)], [("h",)], [("V",), ("c", 9)],
        [("e",), ("i", False, True, "P"), ("k", "I")], [("d",), ("i", True, True, "W1"), ("o", True), ("k", "V1")], [("d",), ("i", False, True, "P"), ("o", True), ("k", "V1")],
        [("e",), ("i", False, True, "P"), ("o", False)], [("x",)], [("e",), ("i", False, True, "M")],
    ]
    for cval in (0, 1, 4, 5, 7, 127, 128, 200, 255, 256, 257, 300, -1, -5):
        base.append([("e",), ("i", False, True, "P"), ("o", True), ("c", cval)])
        base.append([("e",), ("i", False, True, "P"), ("o", True), ("m", cval)])
        base.append([("d",), ("i", False, True, "W1"), ("o", True), ("k", "V1"), ("c", cval)])
    base.append([("e",), ("i", False, True, "P"), ("o", True), ("c", 1), ("c", 2)])
    # text that is not a whole decimal number in range: delivered to the model as -1 (rejected)
    for txt in ("abc", "4294967296", "1x", "", "99999999999999999999", "0x1", "2.0", " "):
        base.append([("e",), ("i", False, True, "P"), ("o", True), ("c", -1, txt)])
        base.append([("e",), ("i", False, True, "P"), ("o", True), ("m", -1, txt)])
    for txt in ("+2", " 1", "02"):          # strtol accepts these spellings of an in-range number
        base.append([("e",), ("i", False, True, "P"), ("o", True), ("c", int(txt), txt)])
    # default output name at the boundary of fout[128]
    for k in (121, 122, 123, 124):
        base.append([("e",), ("i", k + 5 >= 128, True, ("N", k))])
        base.append([("e",), ("i", k + 5 >= 128, True, ("N", k)), ("o", True)])
    # inputs that open but are not regular files behave like an empty plain file (no crash)
    for sp in ("adir", "/dev/null"):
        base.append([("e",), ("i", False, True, ("S", sp)), ("o", True)])
        base.append([("d",), ("i", False, True, ("S", sp)), ("o", True), ("k", "V1")])
        base.append([("v",), ("i", False, True, ("S", sp)), ("k", "V1")])
    # an option given twice: the later value wins, whatever became of the earlier one (good then bad, bad then good, both good)
    for a, b in (("P", "M"), ("M", "P"), ("P", "P"), ("W1", "P"), ("P", ("N", 124))):
        base.append([("e",), ("i", False, True, a), ("i", isinstance(b, tuple), True, b), ("o", True)])
        base.append([("e",), ("i", False, True, a), ("o", True), ("i", isinstance(b, tuple), True, b)])
    for a, b in (("W1", "M"), ("M", "W1"), ("W1", "W2"), ("W2", "W1")):
        base.append([("d",), ("i", False, True, a), ("i", False, True, b), ("o", True), ("k", "V1")])
        base.append([("v",), ("i", False, True, a), ("k", "V1"), ("i", False, True, b)])
    for a, b in ((True, False), (False, True), (True, True)):
        base.append([("e",), ("i", False, True, "P"), ("o", a), ("o", b)])
        base.append([("d",), ("i", False, True, "W1"), ("o", a), ("k", "V1"), ("o", b)])
    for a, b in (("V1", "I"), ("I", "V1"), ("V2", "V1"), ("V1", "V2")):
        base.append([("d",), ("i", False, True, "W1"), ("o", True), ("k", a), ("k", b)])
        base.append([("v",), ("i", False, True, "W1"), ("k", a), ("k", b)])
    # inputs that cannot be opened for reasons other than 'no such file': a path component longer than NAME_MAX, a path longer
    # than PATH_MAX, a symbolic link to itself, a file below a regular file: 'Could not open file', exit 1 - never a crash
    for xp in ("c" * 300, "adir/" + "d" * 256, "./" * 2100 + "p.bin", "loop", "loop/x", "p.bin/x"):
        base.append([("e",), ("i", False, True, ("X", xp)), ("o", True)])
        base.append([("d",), ("i", False, True, ("X", xp)), ("o", True), ("k", "V1")])
        base.append([("v",), ("k", "V1"), ("i", False, True, ("X", xp))])
    for toks in base:
        t2 = list(toks)
        res.append(t2)
    while len(res) < count:
        toks = []
        nm = r.choice([0, 1, 1, 1, 1, 1, 1, 2])
        for _ in range(nm):
            toks.append((r.choice(modes),))
        if r.random() < 0.85:
            toks.append(rnd_in())
        if r.random() < 0.6:
            toks.append(("o", r.random() < 0.85))
        if r.random() < 0.6:
            toks.append(("k", r.choice(["V1", "V1", "V2", "I"])))
        if r.random() < 0.3:
            toks.append(("c", r.choice([0, 1, 2, 3, 4, 5, 100, 128, 256, -1])))
        if r.random() < 0.3:
            toks.append(("m", r.choice([0, 1, 2, 3, 99, 255, 258, -2])))
        if r.random() < 0.3:
            toks.append(("n",))
        if r.random() < 0.08:
            toks.append(("x",))
        if r.random() < 0.12:
            toks.append(rnd_in())
        if r.random() < 0.08:
            toks.append(("o", r.random() < 0.7))
        if r.random() < 0.08:
            toks.append(("k", r.choice(["V1", "V2", "I"])))
        r.shuffle(toks)
        if toks:        # no argument at all = interactive prompt mode, excluded by the property
            res.append(toks)
    out = []
    for toks in res:
        argv = render(toks)
        out.append((" ".join(tok_text(t) for t in toks), argv, toks))
    return out


LONG = {"--encode": 101, "--decode": 100, "--verify": 118, "--version": 86, "--help": 104, "--no_echo": 110}
SHORT = {"-e": 101, "-d": 100, "-v": 118, "-V": 86, "-h": 104, "-n": 110}
WITHARG = {"-i": 105, "--input": 105, "-o": 111, "--output": 111, "-k": 107, "--key": 107, "--cmode": 1, "--hmode": 2}


def concrete_options(argv):
    """what getopt_long delivers for the argument shapes gen_vectors renders (None = a shape not handled here)"""
    opts, i = [], 0
    while i < len(argv):
        a = argv[i]
        if a in LONG or a in SHORT:
            opts.append((LONG.get(a) or SHORT.get(a), None))
        elif a in WITHARG:
            if i + 1 >= len(argv):
                return None
            opts.append((WITHARG[a], argv[i + 1]))
            i += 1
        elif a.startswith("--") and "=" in a and a.split("=", 1)[0] in WITHARG:
            opts.append((WITHARG[a.split("=", 1)[0]], a.split("=", 1)[1]))
        elif a in ("-q", "--bogus", "-z"):
            opts.append((63, None))
        else:
            return None
        i += 1
    return opts


def whole_program_runs(ck, w, vecs, real, mdrv):
    """the same argument vectors on the WHOLE PROGRAM from translated source (SrcRun6.src_main: get_v_opt, then the operation, with
    threads, under MiniCConc): exit status, and for a successful decryption the output bytes, against the real binary.  The
    environment is explicit: what getopt_long delivers and, per fopen in call order, success + content.  One 256-byte chunk
    (WV_BUF=16) holds the 150-byte test files as the production 16 MiB chunk does."""
    lines, meta = [], {}
    for i, (t, argv, toks) in enumerate(vecs):
        opts = concrete_options(argv)
        if opts is None or any(isinstance(x[3], tuple) for x in toks if x[0] == "i") or any(x[0] == "i" and x[1] for x in toks):
            continue            # special files / very long names: their fopen behaviour is the OS's
        fop, outidx, last_dflt, k = [], None, False, 0
        oi = iter([a for c, a in opts if c in (105, 111)])
        for x in toks:
            if x[0] == "i":
                pth = os.path.join(w.d, next(oi))
                last_dflt = x[2]
                if x[3] == "M" or not os.path.isfile(pth):
                    fop.append("-")
                else:
                    fop.append("=" + open(pth, "rb").read().hex())
                k += 1
            elif x[0] == "o":
                outpath = next(oi)
                fop.append("=" if x[1] else "-")
                if x[1]:
                    outidx, outp = k, outpath
                k += 1
        fop.append("=" if last_dflt else "-")
        ol = ",".join("%d:%s" % (c, "-" if a is None else (os.fsencode(a).hex() or "")) for c, a in opts)
        if any(a == "" for c, a in opts if a is not None):
            continue            # an empty option argument: the hex field would be empty
        lines.append("m%d @S=%d main %s %s" % (i, ck.rng.randrange(1 << 30), ol or "-", ",".join(fop)))
        meta[i] = (outidx, toks)
    out = wv.run_lines([mdrv, "src"], lines, shards=wv.NCPU, env={"WV_BUF": "16", "WV_HBUF": "4"}, timeout=1800) if lines else {}
    bad = []
    for i, (outidx, toks) in meta.items():
        got = out.get("m%d" % i)
        if got is None:
            continue
        kind, rc, txt = real[i]
        ck.cov["whole_program_runs_on_translated_source"] = ck.cov.get("whole_program_runs_on_translated_source", 0) + 1
        m = re.match(r"RC (\d+) streams=(.*)", got)
        why = None
        if kind != "EXIT" or not m:
            why = "status"
        elif int(m.group(1)) != rc % 256:
            why = "exit status %s vs %d" % (m.group(1), rc)
        elif rc == 0 and outidx is not None and any(x[0] == "d" for x in toks) and not any(x[0] in "evVh" for x in toks):
            streams = m.group(2).split("|")
            mine = streams[outidx] if outidx < len(streams) else "?"
            if mine == "-":
                mine = ""
            argv = vecs[i][1]
            op = [a for c, a in concrete_options(argv) if c == 111][-1]
            try:
                theirs = open(os.path.join(w.d, op), "rb").read().hex()
            except OSError:
                theirs = "(no file)"
            if mine != theirs:
                why = "decrypted output differs"
        if why:
            bad.append({"class": None, "argv": vecs[i][1], "real": "%s %d" % (kind, rc), "translated_program": got[:300], "difference": why,
                        "broken": "correspondence whole program (translated main + operation) vs real binary"})
    ck.cov["disagreements_source_vs_impl"] = ck.cov.get("disagreements_source_vs_impl", 0) + len(bad)
    if bad and not ck.violations:
        ck.violation("the whole program run from translated source disagrees with the real binary on %d argument vectors (%s) but no vector violating the property was found" % (len(bad), bad[0]["difference"]), bad[0], found_input=False)


def kid_fix(text):
    """model key identities: W1/V1 -> 1, W2/V2 -> 2"""
    return text


def run(ck):
    ck.prove(["Properties_C17", "Properties_SrcCli", "SrcRun6"], THEOREMS + ["SRC_cli_parse"])   # SrcRun6: the translated whole program the vectors are also run on
    exe = ck.impl_driver(kind="cli")
    ck.impl_flags = "-DWENCRY_VERIF -DOPT_ON (main.cpp + valget + kernel of /repo, production constants)"
    mdrv = ck.model_driver()
    big = ck.tier == "thorough"
    w = World(ck, exe)
    vecs = gen_vectors(ck, w, 1700 if big else 520)
    model = wv.run_lines([mdrv], ["c%d cli %s" % (i, t) for i, (t, argv, toks) in enumerate(vecs)])
    # the option loop and the checks after it as the TRANSLATED SOURCE performs them (get_v_opt, parseOpts, parseModeNumber,
    # getArgsKey, check_ctype/htype, base64 under MiniC, in the environment CliConc.conc builds from the tokens) vs CliModel
    plines = ["c%d clip %s" % (i, t) for i, (t, argv, toks) in enumerate(vecs)]
    pm = wv.run_lines([mdrv], plines)
    ps = wv.run_lines([mdrv, "src"], plines, shards=wv.NCPU)
    srcbad = [(vecs[int(k[1:])][0], pm.get(k), ps.get(k)) for k in pm if pm.get(k) != ps.get(k)]
    ck.cov["src_evaluations"] = len(ps)
    ck.cov["disagreements_source_vs_model"] = len(srcbad)

    def one(i):
        return run_bin(exe, vecs[i][1], w.d)
    with ThreadPoolExecutor(max_workers=wv.NCPU) as ex:
        real = list(ex.map(one, range(len(vecs))))
    dist = ck.cov.setdefault("case_classes", {})
    distinct, corr, last = set(), 0, None
    for i, (t, argv, toks) in enumerate(vecs):
        ck.cov["evaluations"] += 1
        kind, rc, out = real[i]
        m = model.get("c%d" % i, "(no output)")
        cls = "modes=%d" % sum(1 for x in toks if x[0] in "edvVh") + ("/" + "".join(sorted(set(x[0] for x in toks if x[0] in "edvVh"))) if toks else "")
        dist[cls] = dist.get(cls, 0) + 1
        distinct.add(t)
        diag = bool(DIAG.search(out))
        rep = {"class": None, "argv": argv, "tokens": t, "status": "%s %d" % (kind, rc), "output_tail": out[-600:], "model": m, "cwd_layout": "p.bin plain; w1.wenc/w2.wenc encrypted under key 1/2; L*60/M*60/... long paths; blk/<f> inputs whose <f>.wenc is a directory",
               "replay": "run the Wencry binary built from /repo with this argv in a directory prepared as described"}
        silenced = any(x[0] == "n" for x in toks)
        if kind != "EXIT":
            ck.violation("the program %s on an option vector (%s)" % ("crashed with signal %d" % rc if kind == "CRASH" else "hung", " ".join(argv)[:120]), rep)
            continue
        mm = re.match(r"EXIT (-?\d+) diag=(\d) op=(\S+)", m)
        if rc != 0 and not diag and not silenced:
            ck.violation("non-zero exit status %d without any diagnostic (%s)" % (rc, " ".join(argv)[:120]), rep)
            continue
        if rc != 0 and not diag and silenced and front_end_failure(toks):
            # -n / --no_echo asks for silence about the OPERATION (its result line); a command line the option front end refuses
            # (no mode, two modes, missing or unopenable file, malformed key, number out of range ...) is still diagnosed
            ck.violation("a command line refused by the option front end exits %d without any diagnostic because it contains -n (%s)" % (rc, " ".join(argv)[:120]), rep)
            continue
        # semantic oracle independent of the model for the common shapes
        want0 = expected_success(toks)
        if want0 is not None and (rc == 0) != want0:
            ck.violation("exit status %d but the requested operation %s (%s)" % (rc, "should have succeeded" if want0 else "cannot have succeeded", " ".join(argv)[:160]), rep)
            continue
        if rc == 0 and want0:
            bad = check_effect(w, toks, argv)
            if bad:
                ck.violation(bad + " (" + " ".join(argv)[:120] + ")", rep)
                continue
        if not mm or int(mm.group(1)) != rc or (rc != 0 and (mm.group(2) == "1") != diag):
            corr += 1
            last = rep
        if len(ck.cov["samples"]) < 10 and cls not in [s.get("class") for s in ck.cov["samples"]]:
            ck.cov["samples"].append({"class": cls, "argv": argv, "status": "%s %d" % (kind, rc), "diagnostic": diag, "model": m})
    # defaults: -e -i F writes F.wenc and prints a key with which -d restores F
    for j in range(6 if big else 2):
        d = os.path.join(ck.scratch, "dflt%d" % j)
        os.makedirs(d)
        data = rnd_bytes(ck.rng, ck.rng.choice([0, 1, 100, 5000]))
        open(os.path.join(d, "F"), "wb").write(data)
        kind, rc, out = run_bin(exe, ["-e", "-i", "F"], d)
        ck.cov["evaluations"] += 1
        mk = re.search(r"Key is:\s*(\S+)", out)
        rep = {"class": None, "argv": ["-e", "-i", "F"], "status": "%s %d" % (kind, rc), "output_tail": out[-400:]}
        if (kind, rc) != ("EXIT", 0) or not mk or not os.path.exists(os.path.join(d, "F.wenc")):
            ck.violation("`-e -i F` with defaults did not write F.wenc / print a key / exit 0", rep)
            continue
        kind, rc, out = run_bin(exe, ["-d", "-i", "F.wenc", "-o", "G", "-k", mk.group(1)], d)
        if (kind, rc) != ("EXIT", 0) or open(os.path.join(d, "G"), "rb").read() != data:
            rep.update({"argv2": ["-d", "-i", "F.wenc", "-o", "G", "-k", mk.group(1)], "status2": "%s %d" % (kind, rc)})
            ck.violation("`-d -i F.wenc -o G -k K` with the printed key did not restore F", rep)
    whole_program_runs(ck, w, vecs, real, mdrv)
    ck.cov["distinct_nontrivial"] = len(distinct)
    ck.cov["disagreements_model_vs_impl"] = corr
    if srcbad and not ck.violations:
        ck.violation("correspondence translated option front end (MiniC) vs CliModel no longer checks on %d token lists, no property violation found" % len(srcbad),
                     {"class": None, "broken": "correspondence translated get_v_opt vs CliModel.parse_all/post_checks", "tokens": srcbad[0][0], "model": srcbad[0][1], "translated_source": srcbad[0][2]}, found_input=False)
    if corr and not ck.violations:
        last["broken"] = "correspondence cli model vs the Wencry binary (exit status / diagnostic)"
        ck.violation("correspondence model/implementation no longer checks on %d option vectors, no property violation found" % corr, last, found_input=False)
    return finish_proof(ck, rule="%d option vectors for the real Wencry binary: a fixed list (every mode alone, missing input/key/output for each mode, two modes, no mode, invalid key texts, unopenable output, long path, unopenable default output, -V/-h, unknown option, --cmode/--hmode in {0,1,4,5,7,127,128,200,255,256,257,300,-1,-5} for -e and -d) plus random subsets in random order with short/long/= forms; exit status, terminating signal, diagnostics and effects (file created, decrypted output equals the plaintext) compared with the model and with an independent expectation for the common shapes; plus the defaults round trip. distinct = distinct token lists" % len(vecs),
                        assumptions=["glibc getopt_long tokenisation (clusters, --opt=value, abbreviations, permutation) is environment: the harness renders tokens into argv forms it understands", "interactive prompt mode (no arguments) is excluded by the property"])


def front_end_failure(toks):
    """True when the documentation settles that the option front end itself refuses the command line (independent of -n)"""
    modes = [x[0] for x in toks if x[0] in "edvVh"]
    if len(modes) != 1:
        return True
    if any(x[0] == "x" or (x[0] == "k" and x[1] == "I") or (x[0] == "o" and not x[1]) or (x[0] == "i" and (x[3] == "M" or (isinstance(x[3], tuple) and x[3][0] == "X"))) for x in toks):
        return True
    if any(x[0] == "i" and isinstance(x[3], tuple) and x[3][0] == "S" for x in toks):
        return False
    m = modes[0]
    cm = [x[1] for x in toks if x[0] == "c"]
    hm = [x[1] for x in toks if x[0] == "m"]
    if len(cm) > 1 or len(hm) > 1:
        return False        # a repeated mode option: not settled here
    if m in "Vh":
        return any(not (0 <= v <= 127) for v in cm + hm)
    if any(not (0 <= v <= 4) for v in cm) or any(not (0 <= v <= 2) for v in hm):
        return True
    ins = [x for x in toks if x[0] == "i"]
    if not ins:
        return True
    if m == "e":
        return not [x for x in toks if x[0] == "o"] and (ins[-1][1] or not ins[-1][2])
    if not [x for x in toks if x[0] == "k"]:
        return True
    return m == "d" and not [x for x in toks if x[0] == "o"]


def expected_success(toks):
    """independent expectation for vectors the documentation settles; None = leave it to the model"""
    modes = [x[0] for x in toks if x[0] in "edvVh"]
    if len(modes) != 1:
        return False
    if any(x[0] == "x" or (x[0] == "k" and x[1] == "I") or (x[0] == "o" and not x[1]) or (x[0] == "i" and (x[3] == "M" or (isinstance(x[3], tuple) and x[3][0] == "X"))) for x in toks):
        return False
    if sum(1 for x in toks if x[0] == "c") > 1 or sum(1 for x in toks if x[0] == "m") > 1:
        return False
    if any(x[0] == "i" and isinstance(x[3], tuple) and x[3][0] == "S" for x in toks):
        return None     # a directory / device as input: the documentation does not say; accepting it (as an empty file) and refusing it with a diagnostic are both fine
    m = modes[0]
    ins = [x for x in toks if x[0] == "i"]
    keys = [x[1] for x in toks if x[0] == "k"]
    outs = [x for x in toks if x[0] == "o"]
    cm = [x[1] for x in toks if x[0] == "c"]
    hm = [x[1] for x in toks if x[0] == "m"]
    if m in "Vh":
        if any(not (0 <= v <= 127) for v in cm + hm):
            return False
        return True
    if any(not (0 <= v <= 4) for v in cm) or any(not (0 <= v <= 2) for v in hm):
        return False
    if not ins:
        return False
    last_in = ins[-1]
    if m == "e":
        if not outs and (last_in[1] or not last_in[2]):
            return False
        return True
    if not keys:
        return False
    if m == "d" and not outs:
        return False
    right = {"W1": "V1", "W2": "V2"}.get(last_in[3] if not isinstance(last_in[3], tuple) else None)
    return right is not None and keys[-1] == right


def check_effect(w, toks, argv):
    m = [x[0] for x in toks if x[0] in "edv"]
    if not m:
        return None
    outs = [a for a, b in zip(argv[1:], argv[:-1]) if b in ("-o", "--output")]
    if m[0] == "d" and outs:
        p = os.path.join(w.d, outs[-1])
        if not os.path.exists(p) or open(p, "rb").read() != w.plain:
            return "decryption exited 0 but the output file does not hold the original plaintext"
    if m[0] == "e" and not outs:
        ins = [x for x in toks if x[0] == "i"]
        if ins:
            ip = w.in_path(ins[-1][1], ins[-1][2], ins[-1][3])
            p = os.path.join(w.d, ip + ".wenc")
            if not os.path.isfile(p) or os.path.getsize(p) < 48 + 80 + 16:
                return "encryption with the default output exited 0 but %s.wenc was not written" % ip[-30:]
    if m[0] == "e" and outs:
        p = os.path.join(w.d, outs[-1])
        if not os.path.exists(p) or os.path.getsize(p) < 48 + 80 + 16:
            return "encryption exited 0 but the output file was not written"
    return None
