"""Shared differential runner: implementation vs extracted model (correspondence) and
implementation vs extracted spec (the property's own oracle)."""
import json, os, sys
sys.path.insert(0, os.path.join(os.path.dirname(os.path.abspath(__file__)), "..", "tools"))
import wv


class Case:
    __slots__ = ("line", "kind", "cls", "nontrivial", "key")

    def __init__(self, line, kind, cls="", nontrivial=True, key=None):
        self.line, self.kind, self.cls, self.nontrivial = line, kind, cls, nontrivial
        self.key = key if key is not None else line


def pick_for_src(cases_with_ids, budget=2500, long_ones=12):
    """subset of the cases that is also run on the translated source under the MiniC interpreter (it is ~10^3 times slower
    than the implementation): every case up to the budget (measured in hex characters of input, a proxy for the number
    of blocks), shortest first within each case class so that all classes stay represented, plus a few long ones"""
    by_cls = {}
    for cid, c in cases_with_ids:
        by_cls.setdefault(c.cls, []).append((len(c.line), cid))
    chosen, cost = set(), 0
    for cls in sorted(by_cls):
        by_cls[cls].sort()
    progress = True
    idx = 0
    while progress and cost < budget * 128:
        progress = False
        for cls in sorted(by_cls):
            l = by_cls[cls]
            if idx < len(l):
                n, cid = l[idx]
                if cost + n <= budget * 128 or idx == 0:
                    chosen.add(cid)
                    cost += n
                progress = True
        idx += 1
    longest = sorted(((len(c.line), cid) for cid, c in cases_with_ids), reverse=True)[:long_ones]
    for n, cid in longest:
        if n < 40000:
            chosen.add(cid)
    return chosen


def differential(ck, impl_exe, cases, oracle, corr_exempt=None, env=None, need_spec=True, replay_cmd=None, label="", src=False, src_norm=None):
    """cases: list of Case. oracle(case, impl, spec, model) -> None if the property holds on this
    case, else a string describing the violation (optionally (string, class))."""
    mdrv = ck.model_driver()
    ids = {}
    lines = []
    for i, c in enumerate(cases):
        cid = "%s%d" % (label or "c", i)
        ids[cid] = c
        lines.append(cid + " " + c.line)
    e = ck.env()
    if env:
        e.update(env)
    impl = wv.run_lines([impl_exe], lines, env=e)
    model = wv.run_lines([mdrv], lines)
    spec = wv.run_lines([mdrv, "spec"], lines) if need_spec else {}
    srcres = {}
    if src:
        pick = pick_for_src(list(ids.items()))
        srcres = wv.run_lines([mdrv, "src"], [l for l in lines if l.split(" ", 1)[0] in pick], shards=wv.NCPU, env=e)
        ck.cov["src_evaluations"] = ck.cov.get("src_evaluations", 0) + len(srcres)
    src_diffs = []
    corr_diffs = []
    nviol = 0
    dist = ck.cov.setdefault("case_classes", {})
    distinct = ck.cov.setdefault("_distinct", set())
    for cid, c in ids.items():
        ck.cov["evaluations"] += 1
        dist[c.cls] = dist.get(c.cls, 0) + 1
        if c.nontrivial and c.key not in distinct:
            distinct.add(c.key)
        ri, rm, rs = impl.get(cid, "(no output)"), model.get(cid, "(no output)"), spec.get(cid, "(no output)")
        v = oracle(c, ri, rs, rm)
        if v is not None:
            what, cls = (v if isinstance(v, tuple) else (v, None))
            nviol += 1
            ck.violation(what, {"class": cls, "case": c.line, "case_class": c.cls, "implementation": ri[:4000], "spec": rs[:4000],
                                "model": rm[:4000], "driver_flags": getattr(ck, "impl_flags", ""),
                                "replay": replay_cmd or "echo 'x %s' | <driver built by check.py from /repo>" % c.line[:2000]})
        elif ri != rm and not (corr_exempt and corr_exempt(c, ri, rm)):
            corr_diffs.append((c, ri, rm))
        if cid in srcres:
            rsrc = srcres[cid]
            a, b = (src_norm(c, ri, rsrc) if src_norm else (ri, rsrc))
            if a != b:
                src_diffs.append((c, ri, rsrc))
        if len(ck.cov["samples"]) < 12 and (len(ck.cov["samples"]) < 4 or c.cls not in [s.get("class") for s in ck.cov["samples"]]):
            ck.cov["samples"].append({"class": c.cls, "case": c.line[:300], "implementation": ri[:200], "model": rm[:200], "spec": rs[:200]})
    ck.cov["distinct_nontrivial"] = len(distinct)
    ck.cov["disagreements_model_vs_impl"] = ck.cov.get("disagreements_model_vs_impl", 0) + len(corr_diffs)
    if corr_diffs and nviol == 0:
        c, ri, rm = corr_diffs[0]
        ck.violation("correspondence model/implementation no longer checks (%d cases differ) but no input violating the property was found" % len(corr_diffs),
                     {"class": None, "broken": "correspondence " + label, "case": c.line, "implementation": ri[:4000], "model": rm[:4000]}, found_input=False)
    ck.cov["disagreements_source_vs_impl"] = ck.cov.get("disagreements_source_vs_impl", 0) + len(src_diffs)
    if src_diffs and nviol == 0 and not corr_diffs:
        c, ri, rsrc = src_diffs[0]
        ck.violation("correspondence translated-source(MiniC)/implementation no longer checks (%d cases differ) but no input violating the property was found" % len(src_diffs),
                     {"class": None, "broken": "correspondence translated source vs implementation " + label, "case": c.line, "implementation": ri[:4000], "translated_source": rsrc[:4000]}, found_input=False)
    return impl, model, spec


def finish_proof(ck, rule, assumptions=()):
    """adds the 'proof broken but nothing found' violation if needed and writes evidence"""
    kf = wv.known_findings()
    def known(rep):
        return any(k["property"] == ck.pid and rep.get("class") is not None and k.get("class") == rep.get("class") for k in kf.get("findings", []))
    real = [v for v in ck.violations if not known(v[1])]
    if not ck.proof_ok and not any(f for (_, _, f) in real):
        ck.violations = [v for v in ck.violations if known(v[1])]   # a missing proof outranks 'correspondence differs'
        ck.violation("the property is no longer shown to hold: " + str(ck.broken), {"class": None, "broken": ck.broken, "make_output_tail": getattr(ck, "make_tail", "")[-1500:]}, found_input=False)
    ck.cov.pop("_distinct", None)
    ck.cov["trusted_base"] = wv.TRUSTED_BASE
    return ck.finish(level="proof", assumptions=assumptions, rule=rule)


def xorb(a, b):
    return bytes(x ^ y for x, y in zip(a, b))


def feedback_streams(ck, specs, nblocks):
    """Streams whose blocks are RELATED to what the same stream object saw or produced before (state kept across blocks - a cache
    of the last block, a remembered key schedule, a shortcut for repeated input - only shows on such data; for unrelated data
    the relation has probability 2^-128).  specs: list of (direction 'e'|'d', mode number, key16, iv20); every stream is built
    block by block with the extracted SPEC (SP 800-38A / FIPS-197 in Coq): block j is chosen among: the previous output
    block, the previous input block, output j-2, the zero block, the IV, and xor combinations of those (so that the block-cipher
    INPUT inside a chained mode repeats, too).  Returns [(input bytes, spec output bytes, [relation names])]"""
    r = ck.rng
    mdrv = ck.model_driver()
    ins = [b"" for _ in specs]
    outs = [b"" for _ in specs]
    rel = [[] for _ in specs]
    for j in range(nblocks):
        for s, (d, m, k, iv) in enumerate(specs):
            blk = lambda x, t: x[16 * (j - t):16 * (j - t + 1)]
            if j == 0:
                b, nm = r.choice([(bytes(r.randrange(256) for _ in range(16)), "random"), (iv[:16], "iv"), (bytes(16), "zero")])
            else:
                pool = {"zero": bytes(16), "iv": iv[:16], "in-1": blk(ins[s], 1), "out-1": blk(outs[s], 1)}
                if j >= 2:
                    pool["in-2"] = blk(ins[s], 2)
                    pool["out-2"] = blk(outs[s], 2)
                c = r.randrange(8)
                if c <= 1:
                    nm = "out-1"
                elif c == 2:
                    nm = "in-1"
                elif c == 3 and j >= 2:
                    nm = r.choice(["out-2", "in-2"])
                elif c == 4:
                    nm = "zero"
                else:
                    nm = "^".join(sorted(r.sample(sorted(pool), r.choice([2, 2, 3]))))
                b = bytes(16)
                for part in nm.split("^"):
                    b = xorb(b, pool[part])
            ins[s] += b
            rel[s].append(nm)
        out = wv.run_lines([mdrv, "spec"], ["f%d mode %s %d %s %s %s" % (s, d, m, k.hex(), iv.hex(), ins[s].hex()) for s, (d, m, k, iv) in enumerate(specs)])
        for s in range(len(specs)):
            o = out.get("f%d" % s, "")
            outs[s] = bytes.fromhex(o) if len(o) == 32 * (j + 1) else outs[s] + bytes(16)
    return [(ins[s], outs[s], rel[s]) for s in range(len(specs))]


def parallel_purity(ck, exe, oplines, what, iters=400, group=4, env=None):
    """The pure entry points used from several REAL threads of one process at the same time (driver op `par`): every op of a group
    runs `iters` times in its own thread, all threads at once; each must give the spec's answer every time.  State shared between
    calls (a static scratch block, a memoised schedule) shows only then.  oplines: list of 'aes ...' / 'mode ...' / 'hstr ...' lines."""
    mdrv = ck.model_driver()
    want = wv.run_lines([mdrv, "spec"], ["w%d %s" % (i, l) for i, l in enumerate(oplines)])
    groups = [list(range(i, min(i + group, len(oplines)))) for i in range(0, len(oplines), group)]
    lines = ["g%d par %d %s" % (gi, iters, ";".join(oplines[i].replace(" ", ",") for i in g)) for gi, g in enumerate(groups)]
    got = wv.run_lines([exe], lines, shards=max(1, min(4, len(lines))), env=env or ck.env())
    for gi, g in enumerate(groups):
        parts = got.get("g%d" % gi, "").split(" ")
        for j, i in enumerate(g):
            ck.cov["evaluations"] += 1
            p = parts[j] if j < len(parts) else "(no output):0"
            first, _, diff = p.rpartition(":")
            if first != want.get("w%d" % i) or diff != "0":
                ck.violation("%s used from %d threads at once gives a wrong or varying answer" % (what, len(g)),
                             {"class": None, "ops_run_concurrently": [oplines[k] for k in g], "iterations": iters, "failing_op": oplines[i], "first_result": first,
                              "iterations_differing_from_first": diff, "spec": want.get("w%d" % i),
                              "replay": "echo 'x par %d <ops joined by ; with , for spaces>' | harness/drv.cpp built against /repo (real threads: repeat if it does not show at once)" % iters})
                return
    ck.cov.setdefault("case_classes", {})["concurrent-use/" + what] = len(oplines)
    # the same groups once more under ThreadSanitizer (a test): a race on state shared between calls - a lazily built table, a
    # static scratch block - is reported even when this run's timing happened to give the right answers
    import os, subprocess
    try:
        texe = ck.impl_driver(buf=4, hbuf=4, extra_flags=["-fsanitize=thread"])
    except wv.BuildError as e:
        ck.notes.append("TSan build failed: " + str(e)[-200:])
        return
    e = dict(os.environ)
    e.update(env or ck.env())
    e["TSAN_OPTIONS"] = "halt_on_error=1 exitcode=66 suppressions=" + os.path.join(wv.HARNESS, "tsan.supp")
    tl = ["t%d par 12 %s" % (gi, ";".join(oplines[i].replace(" ", ",") for i in g)) for gi, g in enumerate(groups)]
    # every group in a process of its own: the FIRST use of a lazily initialised object happens once per process
    def one(l):
        try:
            return subprocess.run([texe], input=l + "\n", capture_output=True, text=True, timeout=300, env=e)
        except subprocess.TimeoutExpired:
            return None
    from concurrent.futures import ThreadPoolExecutor
    with ThreadPoolExecutor(max_workers=8) as ex:
        outs = list(ex.map(one, tl))
    ck.cov["tsan_concurrent_use_groups"] = ck.cov.get("tsan_concurrent_use_groups", 0) + len(tl)
    for l, p in zip(tl, outs):
        if p is not None and p.returncode == 66 and "ThreadSanitizer: data race" in p.stderr:
            rep = p.stderr[p.stderr.find("WARNING: ThreadSanitizer"):][:1800]
            ck.violation("%s used from several threads at once: ThreadSanitizer reports a data race on state shared between the calls" % what,
                         {"class": None, "case": l[:2000], "thread_sanitizer_report": rep, "replay": "build harness/drv.cpp against /repo with -fsanitize=thread; echo '<case>' | ./drv"})
            return


def unoptimised_build_runs(ck, oplines, what):
    """The same pure operations in a driver built WITHOUT optimisation (-O0, as the repository's Debug configuration does): no function is
    inlined there, so two same-named `inline` helpers with different bodies in two translation units collapse into one (the linker keeps
    one body per name) - every optimised build, and therefore every other run of this check, is blind to that."""
    mdrv = ck.model_driver()
    lines = ["u%d %s" % (i, l) for i, l in enumerate(oplines)]
    want = wv.run_lines([mdrv, "spec"], lines)
    # both link orders of the library's objects: which of two same-named bodies the linker keeps depends on the order
    for rev in (False, True):
        try:
            exe0 = ck.impl_driver(extra_flags=["-O0"], reverse_link_order=rev)
        except wv.BuildError as e:
            ck.notes.append("-O0 build failed: " + str(e)[-200:])
            return
        got = wv.run_lines([exe0], lines, env=ck.env())
        for l in lines:
            cid = l.split()[0]
            ck.cov["evaluations"] += 1
            if got.get(cid) != want.get(cid):
                ck.violation("%s differs from the standard in an UNOPTIMISED build of the same sources (-O0, library objects linked in %s order)" % (what, "reverse" if rev else "source-list"),
                             {"class": None, "case": l.split(" ", 1)[1][:2000], "implementation_O0": got.get(cid), "spec": want.get(cid),
                              "replay": "build harness/drv.cpp against /repo with -O0 (tools/wv.py build_impl extra_flags=['-O0'], reverse_link_order=%s); echo 'x <case>' | ./drv" % rev})
                return
    ck.cov.setdefault("case_classes", {})["unoptimised-build/" + what] = len(lines)
