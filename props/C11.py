"""C11: any byte string as input file is handled cleanly: failure, no crash, no output."""
from props.suite import *

THEOREMS = ["C11_verify_total", "C11_unauthentic_input_fails_cleanly", "C11_structural_rejections", "C11_output_bounded_by_body", "C11_decrypt_total"]


def run(ck):
    ck.prove(["Properties_C11", "Properties_SrcIO", "Properties_Src2", "Properties_SrcSeq", "Properties_SrcE2E", "Properties_SrcE2Ed", "SrcRun5"], THEOREMS + ["SRC_loads", "SRC_export", "SRC_verify", "SRC_verify_file_is_sequential", "SRC_execute_verify_is_model", "SRC_execute_decrypt_rejects_what_verify_rejects"])
    exe = small_driver(ck)
    env = small_env(ck)
    big = ck.tier == "thorough"
    san = None
    if big:
        ck.impl_flags_san = ck.impl_flags + " -fsanitize=address,undefined -fno-sanitize-recover=all"
        san = ck.impl_driver(buf=BUF, hbuf=HBUF, extra_flags=["-fsanitize=address,undefined", "-fno-sanitize-recover=all"])
    files, items = tampered_items(ck, exe, env, 10 if big else 8, exhaustive=False)
    r = ck.rng
    for g in garbage(r, 400 if big else 120):
        items.append((r.choice([1, 2, 4, 16]), rnd_bytes(r, 16), g, {"garbage": True}))
    # valid files are in the domain too
    for c, f in files:
        items.append((c.T, c.key, f, {"case": c, "orig": f, "valid": True}))
        # the same authentic file presented to runs with OTHER worker counts (the count is not stored in the file): the body then starts
        # elsewhere and need not be a whole number of blocks; whatever is decrypted, it is bounded by what was read
        for T2 in [t for t in range(1, 17) if t != c.T]:
            items.append((T2, c.key, f, {"case": c, "orig": f, "valid": True, "forged": "authentic/other-worker-count"}))
    for T, key, f, cls in forged(r, 120 if big else 50):
        items.append((T, key, f, {"forged": cls, "valid": True}))
    res = run_inputs(ck, exe, env, items, san_exe=san)
    dist = ck.cov.setdefault("case_classes", {})
    distinct, corr, last = set(), 0, None
    for x in res:
        meta = x["meta"]
        cls = meta["forged"] if meta.get("forged") else "garbage" if meta.get("garbage") else "valid" if meta.get("valid") else meta["mut"].cls
        if cls == "flip/cmode-byte/in-range":
            continue   # carries a valid tag but was not produced by encryption: outside the property's domain (see C05 / K1)
        ck.cov["evaluations"] += 1
        dist[cls] = dist.get(cls, 0) + 1
        distinct.add((cls, len(x["data"]), x["data"][:12]))
        bad = None
        for op in ("dec", "ver"):
            h, kv = x[op], x[op + "_kv"]
            if not (h.startswith("OK ") or h.startswith("FAIL ")):
                bad = "%s did not terminate normally: %s" % (op, h[:40])
            elif h.startswith("FAIL") and (kv.get("outlen") != "0" or kv.get("nwrites") != "0"):
                bad = "%s failed but wrote %s bytes (%s writes) to its output" % (op, kv.get("outlen"), kv.get("nwrites"))
            elif h.startswith("FAIL") and kv.get("code") not in ("1", "2", "3", "4"):
                bad = "%s failed without a failure result text (code %s)" % (op, kv.get("code"))
            elif op == "dec" and h.startswith("OK ") and int(kv.get("outlen", "0")) > max(0, len(x["data"]) - (48 + 20 * x["T"])):
                bad = "successful decryption wrote more bytes (%s) than the ciphertext body holds" % kv.get("outlen")
            elif h.startswith("OK ") and not meta.get("valid") and not (meta.get("mut") and meta["mut"].lo >= 10 + HL[meta["case"].hm] and meta["mut"].hi <= 48):
                bad = "%s accepted an input that is not authentic" % op
            s = x.get("s" + op)
            if bad is None and s is not None and not (s.startswith("OK ") or s.startswith("FAIL ")):
                bad = "%s under AddressSanitizer/UBSan did not terminate normally (memory error or undefined behaviour): %s" % (op, s[:60])
            if bad:
                break
        if bad:
            ck.violation(bad, replay_of(ck, x, {"input_class": cls}))
            continue
        if not corr_ok(x):
            corr += 1
            last = replay_of(ck, x, {"input_class": cls})
        if len(ck.cov["samples"]) < 10 and cls not in [s.get("class") for s in ck.cov["samples"]]:
            ck.cov["samples"].append({"class": cls, "len": len(x["data"]), "prefix": x["data"][:12].hex(), "decrypt": x["dec"][:30], "verify": x["ver"], "info": x["dec_kv"]})
    if not big:
        # quick tier: the part of the malformed stream that reaches code BEHIND the magic-number test (mode bytes of every class, short
        # headers, garbage with the right magic) once more under AddressSanitizer + UBSan: an overflow of a byte or two on the stack or
        # in the heap slack does not change any answer and shows only there
        try:
            sanq = ck.impl_driver(buf=BUF, hbuf=HBUF, extra_flags=["-fsanitize=address,undefined", "-fno-sanitize-recover=all"])
        except wv.BuildError as e:
            sanq = None
            ck.notes.append("ASan build failed: " + str(e)[-200:])
        if sanq:
            MAGIC = bytes.fromhex("c3a5c3a5c3a5c3a5")
            sub = [x for x in res if x["data"][:8] == MAGIC and not x["meta"].get("valid")
                   and (x["meta"].get("garbage") or (x["meta"].get("mut") and ("mode-byte" in x["meta"]["mut"].cls or "ctype" in x["meta"]["mut"].cls or "htype" in x["meta"]["mut"].cls or x["meta"]["mut"].lo in (8, 9))))][:160]
            for v in (10, 11, 40, 99, 250):        # two-digit and three-digit mode numbers
                for off in (8, 9):
                    if files:
                        g = bytearray(files[0][1]); g[off] = v
                        sub.append({"T": files[0][0].T, "key": files[0][0].key, "data": bytes(g), "meta": {}})
            sl = []
            for i, x in enumerate(sub):
                sl.append("sd%d dec %d %s %s" % (i, x["T"], x["key"].hex(), wv.hexs(x["data"])))
                sl.append("sv%d ver %d %s %s" % (i, x["T"], x["key"].hex(), wv.hexs(x["data"])))
            so = wv.run_lines([sanq], sl, env=dict(env, ASAN_OPTIONS="detect_leaks=0:abort_on_error=1:new_delete_type_mismatch=0", UBSAN_OPTIONS="halt_on_error=1"))
            for l in sl:
                cid = l.split()[0]
                h = split_impl(so.get(cid, "(no output)"))[0]
                ck.cov["evaluations"] += 1
                if not (h.startswith("OK") or h.startswith("FAIL ")):
                    ck.violation("%s under AddressSanitizer/UBSan did not terminate normally on a malformed input (memory error or undefined behaviour): %s" % (l.split()[1], h[:60]),
                                 {"class": None, "case": l[:3000], "implementation_asan": so.get(cid, "")[:300], "driver_flags": ck.impl_flags + " -fsanitize=address,undefined",
                                  "replay": "build harness/drv.cpp against /repo with -fsanitize=address,undefined; echo '<case>' | ASAN_OPTIONS=detect_leaks=0:new_delete_type_mismatch=0 ./drv"})
                    break
            dist["asan-subset-behind-the-magic-test"] = len(sl)
    ck.cov["distinct_nontrivial"] = len(distinct)
    ck.cov["sanitizers"] = "ASan+UBSan build used for every input" if san else "quick tier: ASan+UBSan on the subset that gets behind the magic-number test"
    ck.cov["disagreements_model_vs_impl"] = corr
    if corr and not ck.violations:
        last["broken"] = "correspondence dec/ver model vs implementation on malformed input"
        ck.violation("correspondence model/implementation no longer checks on %d malformed inputs (e.g. result codes), no property violation found" % corr, last, found_input=False)
    if ck.tier == "thorough":
        production_scale(ck)     # 40 MiB and > 4 GiB with the production constants (props/filegen.py)
    return finish_proof(ck, rule="malformed stream: empty, shorter than magic/header at every boundary, right magic with random rest, in-range and out-of-range mode bytes with >= 74 bytes, random garbage of many lengths; plus every mutation class of C05 on %d valid files (mode-byte-in-range excluded: outside the domain), plus the valid files, plus authentic files built outside the program (arbitrary body incl. empty / ragged / any pad byte, right tag); decrypt and verify, T in {1,2,4,16}; thorough tier repeats everything under ASan+UBSan. distinct = distinct (class, length, first 12 bytes)" % len(files),
                        assumptions=["memory safety of the C++ is observed (sanitizers in the thorough tier), not proved: the model carries every index/size computation and maps undefined behaviour to Crash",
                                     "ASan's new-delete-type-mismatch report is switched off: Hashmaster/buffer64/Aesmode objects are deleted through base pointers without virtual destructors on EVERY operation (formally undefined, no access outside a buffer; noted in DESIGN Part C as an observation, not a finding of C11)", "leak detection off (hmac::getres leaks h1/h2 by design of its comma-delete)"])
