"""C12: verify accepts exactly what decrypt accepts; verify writes nothing; inputs stay intact."""
from props.suite import *

THEOREMS = ["C12_decrypt_accepts_only_what_verify_accepts", "C12_verdicts_coincide_on_domain", "C12_verdicts_coincide"]
K1 = "K1-cipher-mode-byte-unauthenticated"


def run(ck):
    ck.prove(["Properties_C12", "Properties_Src2", "Properties_SrcSeq", "Properties_SrcE2E", "Properties_SrcE2Ed", "Properties_SrcE2Ef", "Properties_SrcE2Ef_cor", "SrcRun5"], THEOREMS + ["SRC_verify", "SRC_seq_machine_agrees", "SRC_seq_machine_agrees_any", "SRC_verify_is_seq_ok", "SRC_verify_file_is_sequential", "SRC_verify_file_seed_independent", "SRC_execute_verify_is_model", "SRC_execute_decrypt_rejects_what_verify_rejects", "SRC_execute_decrypt_is_model_on_accepted_files", "SRC_verdicts_coincide"])   # SrcRun5: the translated whole-file runs (a stale translation concerns this property)
    exe = small_driver(ck)
    env = small_env(ck)
    big = ck.tier == "thorough"
    files, items = tampered_items(ck, exe, env, 10 if big else 8, exhaustive=False)
    r = ck.rng
    for g in garbage(r, 300 if big else 80):
        items.append((r.choice([1, 2, 4, 16]), rnd_bytes(r, 16), g, {"garbage": True}))
    for c, f in files:
        items.append((c.T, c.key, f, {"case": c, "orig": f, "valid": True}))
        k2 = bytearray(c.key); k2[r.randrange(16)] ^= 1 << r.randrange(8)
        items.append((c.T, bytes(k2), f, {"case": c, "orig": f, "wrongkey": True}))
        # the thread count is not stored in the file: the same authentic file presented to runs with OTHER thread counts (the IV area
        # they skip differs, decrypted bytes are then not the plaintext, but both entry points must still give the same verdict)
        for T2 in sorted(set([1, 2, 4, 16, max(1, c.T - 1), min(16, c.T + 1)]) - {c.T})[:4]:
            items.append((T2, c.key, f, {"case": c, "orig": f, "otherT": True}))
    for T, key, f, cls in forged(r, 120 if big else 50):
        items.append((T, key, f, {"forged": cls}))
    res = run_inputs(ck, exe, env, items)
    dist = ck.cov.setdefault("case_classes", {})
    distinct, corr, last = set(), 0, None
    for x in res:
        meta = x["meta"]
        cls = meta["forged"] if meta.get("forged") else "garbage" if meta.get("garbage") else "valid" if meta.get("valid") else "other-thread-count" if meta.get("otherT") else "wrong-key" if meta.get("wrongkey") else meta["mut"].cls
        ck.cov["evaluations"] += 1
        dist[cls] = dist.get(cls, 0) + 1
        distinct.add((cls, len(x["data"]), x["data"][:12]))
        dacc, vacc = x["dec"].startswith("OK "), x["ver"].startswith("OK")
        bad = None
        if dacc != vacc:
            bad = "verify %s but decrypt %s on the same file and key" % (x["ver"][:12], x["dec"][:24])
        elif x["ver_kv"].get("nwrites") != "0" or x["ver_kv"].get("outlen") != "0":
            bad = "verification wrote to its output (%s writes, %s bytes)" % (x["ver_kv"].get("nwrites"), x["ver_kv"].get("outlen"))
        elif x["ver_kv"].get("inmod") != "0" or x["dec_kv"].get("inmod") != "0":
            bad = "an operation modified its input file"
        elif meta.get("valid") and not dacc:
            bad = "a freshly encrypted file was rejected"
        elif meta.get("forged") and not vacc:
            bad = "a file carrying the right RFC 2104 tag for its content was rejected by verification"
        if bad:
            rep = replay_of(ck, x, {"input_class": cls})
            if cls == "flip/cmode-byte/in-range":
                rep["class"] = K1
            ck.violation(bad, rep)
            continue
        if not corr_ok(x):
            corr += 1
            last = replay_of(ck, x, {"input_class": cls})
        if len(ck.cov["samples"]) < 10 and cls not in [s.get("class") for s in ck.cov["samples"]]:
            ck.cov["samples"].append({"class": cls, "len": len(x["data"]), "decrypt": x["dec"][:24], "verify": x["ver"], "verify_info": x["ver_kv"]})
    # the two verdicts on the same file inside ONE process, after the other operation succeeded on a look-alike:
    # verify(good); decrypt(bad); verify(bad); decrypt(good); verify(bad)  -- bad = good with one body bit changed
    hl = []
    for i, (c, f) in enumerate(files):
        if len(f) <= 75:
            continue
        gb = bytearray(f)
        gb[r.randrange(74, len(f))] ^= 1 << r.randrange(8)
        good, badf, k, T = f.hex(), bytes(gb).hex(), c.key.hex(), str(c.T)
        seq = [("ver", good), ("dec", badf), ("ver", badf), ("dec", good), ("ver", badf)]
        hl.append("q%d hist %s" % (i, ";".join(",".join([op, T, k, x]) for op, x in seq)))
    hres = wv.run_lines([exe], hl, env=env)
    for cid, got in hres.items():
        parts = [p.split(" | ")[0] for p in got.split(" ; ")]
        ck.cov["evaluations"] += 1
        dist["in-process-sequence"] = dist.get("in-process-sequence", 0) + 1
        if len(parts) == 5:
            acc = [p.startswith("OK") for p in parts]
            if not (acc[0] and acc[3]) or acc[1] != acc[2] or acc[2] != acc[4]:
                ck.violation("inside one process verify and decrypt disagree on the same file after the other operation had accepted a look-alike: verify(good) %s; decrypt(bad) %s; verify(bad) %s; decrypt(good) %s; verify(bad) %s" % tuple(p[:8] for p in parts),
                             {"class": None, "history": hl[int(cid[1:])][:6000] if int(cid[1:]) < len(hl) else "", "results": parts, "driver_flags": ck.impl_flags,
                              "replay": "feed the 'hist' line to harness/drv.cpp built against /repo"})
    real_binary_paths(ck)
    ck.cov["distinct_nontrivial"] = len(distinct)
    ck.cov["disagreements_model_vs_impl"] = corr
    if corr and not [v for v in ck.violations if v[1].get("class") != K1]:
        last["broken"] = "correspondence dec/ver model vs implementation"
        ck.violation("correspondence model/implementation no longer checks on %d inputs, no property violation found" % corr, last, found_input=False)
    if ck.tier == "thorough":
        production_scale(ck)     # 40 MiB and > 4 GiB with the production constants (props/filegen.py)
    return finish_proof(ck, rule="every file goes through BOTH entry points with the same key: valid files, the same files under a one-bit-different key, every mutation class of C05, the malformed stream of C11, authentic files built outside the program (arbitrary body incl. empty / ragged / any pad byte, tag computed with python hmac, also decrypted with another thread count); verify runs with an output stream that records any write; input bytes compared before/after each operation. distinct = distinct (class, length, first 12 bytes)")


def real_binary_paths(ck):
    """The REAL program (main.cpp + valget + kernel) on real files, through both of its front ends - options and the interactive
    prompts (answers on stdin) - : verify and decrypt of the same file must agree, and every input file must hold the same bytes
    afterwards (names with and without the .wenc suffix, default output names; input and output on DIFFERENT file systems whose
    inode numbers were made equal, where a "same file?" test that looks at the inode number alone goes wrong)."""
    import base64, os, shutil, subprocess, hashlib
    try:
        exe = ck.impl_driver(kind="cli")
    except wv.BuildError as e:
        ck.notes.append("CLI build failed: " + str(e)[-200:])
        return
    r = ck.rng
    d = os.path.join(ck.scratch, "ui")
    os.makedirs(d)
    key = rnd_bytes(r, 16)
    K = base64.b64encode(key).decode()
    plain = rnd_bytes(r, 5000)
    open(os.path.join(d, "docs.txt"), "wb").write(plain)

    def run(argv, stdin=None, cwd=d):
        try:
            p = subprocess.run([exe] + argv, cwd=cwd, input=stdin, stdout=subprocess.PIPE, stderr=subprocess.STDOUT, timeout=60)
            return ("CRASH %d" % -p.returncode) if p.returncode < 0 else ("EXIT %d" % p.returncode), p.stdout.decode("utf-8", "replace")[-300:]
        except subprocess.TimeoutExpired:
            return "HANG", ""

    def digest(names):
        return {n: hashlib.sha256(open(os.path.join(d, n), "rb").read()).hexdigest() if os.path.isfile(os.path.join(d, n)) else None for n in names}
    steps = []
    st, out = run(["-e", "-i", "docs.txt", "-k", K, "-o", "backup.enc", "-n"])
    st2, _ = run(["-e", "-i", "docs.txt", "-k", K, "-n", "--cmode", "2", "--hmode", "2"])
    if st != "EXIT 0" or st2 != "EXIT 0":
        ck.violation("option-driven encryption of a real file failed: %s / %s" % (st, st2), {"class": None, "output_tail": out})
        return
    inputs = ["docs.txt", "backup.enc", "docs.txt.wenc"]
    before = digest(inputs)
    runs = [("options: verify", ["-v", "-i", "backup.enc", "-k", K], None, None),
            ("options: decrypt", ["-d", "-i", "backup.enc", "-k", K, "-o", "o1.bin"], None, "o1.bin"),
            ("prompts: verify", [], ("v\nbackup.enc\n%s\n" % K).encode(), None),
            ("prompts: decrypt, default output name, input name without .wenc", [], ("d\nbackup.enc\nn\n%s\n" % K).encode(), "backup.enc.wdec"),
            ("prompts: decrypt, default output name, input name with .wenc", [], ("d\ndocs.txt.wenc\nn\n%s\n" % K).encode(), "docs.txt.wenc.wdec"),
            ("prompts: decrypt, new output name", [], ("d\ndocs.txt.wenc\ny\no2.bin\n%s\n" % K).encode(), "o2.bin"),
            ("prompts: verify again", [], ("v\ndocs.txt.wenc\n%s\n" % K).encode(), None)]
    for name, argv, stdin, outname in runs:
        st, out = run(argv, stdin)
        ck.cov["evaluations"] += 1
        after = digest(inputs)
        rep = {"class": None, "front_end_and_operation": name, "argv": argv, "stdin": (stdin or b"").decode(), "status": st, "output_tail": out, "files_before": before, "files_after": after,
               "replay": "in a directory with docs.txt (5000 random bytes), backup.enc and docs.txt.wenc (encrypted with -k K): run the Wencry binary built from /repo with this argv / stdin"}
        if after != before:
            ck.violation("an operation modified one of its input files (%s): %s" % (name, ", ".join(n for n in inputs if after[n] != before[n])), rep)
            return
        if st != "EXIT 0":
            ck.violation("verify / decrypt of an authentic file through the real program did not succeed (%s): %s" % (name, st), rep)
            return
        if outname and (not os.path.isfile(os.path.join(d, outname)) or open(os.path.join(d, outname), "rb").read() != plain):
            ck.violation("decryption through the real program reported success but %s does not hold the plaintext (%s)" % (outname, name), rep)
            return
    # explicit --cmode / --hmode on -v and -d of the same authentic file (values equal to and different from the header's): the two
    # verdicts must agree, whatever they are
    for extra in (["--cmode", "2"], ["--hmode", "1"], ["--cmode", "1", "--hmode", "0"], ["--cmode", "0", "--hmode", "2"]):
        stv, outv = run(["-v", "-i", "backup.enc", "-k", K] + extra)
        std, outd = run(["-d", "-i", "backup.enc", "-k", K, "-o", "o3.bin"] + extra)
        ck.cov["evaluations"] += 1
        if (stv == "EXIT 0") != (std == "EXIT 0") or stv.startswith(("CRASH", "HANG")) or std.startswith(("CRASH", "HANG")):
            ck.violation("verify %s but decrypt %s on the same authentic file and key with explicit %s" % (stv, std, " ".join(extra)),
                         {"class": None, "argv_verify": ["-v", "-i", "backup.enc", "-k", K] + extra, "argv_decrypt": ["-d", "-i", "backup.enc", "-k", K, "-o", "o3.bin"] + extra, "verify_output": outv, "decrypt_output": outd})
            return
    # a REFUSED decryption (wrong key) whose -o name is longer than any fixed name buffer and starts with the input's own name:
    # neither the input nor anything else but the named output may be touched
    longname = "q" * 127
    shutil.copy(os.path.join(d, "backup.enc"), os.path.join(d, longname))
    wrongK = base64.b64encode(bytes([key[0] ^ 1]) + key[1:]).decode()
    before2 = digest(inputs + [longname])
    for oname in (longname + ".dec", longname + "x" * 10, "short.out"):
        st, out = run(["-d", "-i", longname, "-k", wrongK, "-o", oname])
        ck.cov["evaluations"] += 1
        after2 = digest(inputs + [longname])
        if after2 != before2 or st == "EXIT 0":
            ck.violation("a refused decryption (wrong key, -o %s...) %s" % (oname[:12], "reported success" if st == "EXIT 0" else "changed or removed one of its input files: " + ", ".join(n[:20] for n in after2 if after2[n] != before2[n])),
                         {"class": None, "argv": ["-d", "-i", longname, "-k", wrongK, "-o", oname], "status": st, "output_tail": out, "files_before": before2, "files_after": after2})
            return
    # input and output on different file systems with EQUAL inode numbers
    dirs = []
    for cand in ("/dev/shm", "/dev", "/run", "/tmp", "/var/tmp", d):
        try:
            if os.path.isdir(cand) and os.access(cand, os.W_OK) and os.stat(cand).st_dev not in [x[1] for x in dirs]:
                dirs.append((cand, os.stat(cand).st_dev))
        except OSError:
            pass
    twin = None
    made = []
    allmade = set()
    try:
        # memory file systems hand out increasing inode numbers: create files on the side that is behind until the numbers meet
        for ai in range(len(dirs)):
            for bi in range(ai + 1, len(dirs)):
                if twin:
                    break
                da, db = dirs[ai][0], dirs[bi][0]
                pa, pb, ia, ib = None, None, -1, -2
                for k in range(1500):
                    try:
                        if pa is None or ia < ib:
                            pa = os.path.join(da, "wv_twin_%d_a%d.wenc" % (os.getpid(), k))
                            shutil.copy(os.path.join(d, "backup.enc"), pa)
                            made.append(pa)
                            allmade.add(pa)
                            ia = os.stat(pa).st_ino
                        elif pb is None or ib < ia:
                            pb = os.path.join(db, "wv_twin_%d_b%d.out" % (os.getpid(), k))
                            open(pb, "wb").close()
                            made.append(pb)
                            allmade.add(pb)
                            ib = os.stat(pb).st_ino
                    except OSError:
                        break
                    if pa and pb and ia == ib:
                        twin = (pa, pb)
                        break
                    if abs(ia - ib) > 5000 and pa and pb:
                        break
                    for old in made[:-2]:        # keep only the two current candidates
                        if old not in (pa, pb):
                            try:
                                os.remove(old)
                            except OSError:
                                pass
                    made = [m for m in made if m in (pa, pb)]
        if twin:
            st, out = run(["-v", "-i", twin[0], "-k", K])
            st2, out2 = run(["-d", "-i", twin[0], "-k", K, "-o", twin[1]])
            ck.cov["evaluations"] += 1
            ck.cov["inode_twin_run"] = "input %s and output %s: different file systems, same inode number" % twin
            if (st == "EXIT 0") != (st2 == "EXIT 0"):
                ck.violation("verify %s but decrypt %s on the same authentic file when input and output lie on different file systems and happen to have the same inode number" % (st, st2),
                             {"class": None, "input": twin[0], "output": twin[1], "verify_output": out, "decrypt_output": out2})
        else:
            ck.cov["inode_twin_run"] = "no pair of writable file systems with matching inode numbers here (skipped)"
    finally:
        for p_ in allmade:
            try:
                os.remove(p_)
            except OSError:
                pass
    ck.cov.setdefault("case_classes", {})["real-binary/options-and-prompts"] = len(runs)
