"""C12: verify accepts exactly what decrypt accepts; verify writes nothing; inputs stay intact."""
from props.suite import *

THEOREMS = ["C12_decrypt_accepts_only_what_verify_accepts", "C12_verdicts_coincide_on_domain"]
K1 = "K1-cipher-mode-byte-unauthenticated"


def run(ck):
    ck.prove("Properties_C12", THEOREMS)
    exe = small_driver(ck)
    env = small_env(ck)
    big = ck.tier == "thorough"
    files, items = tampered_items(ck, exe, env, 10 if big else 8, exhaustive=False)
    r = ck.rng
    for g in garbage(r, 300 if big else 80):
        items.append((r.choice([1, 2, 4, 16]), rnd_bytes(r, 16), g, {"garbage": True}))
    for c, f in files:
        items.append((c.T, c.key, f, {"case": c, "orig": f, "valid": True}))
        k2 = bytearray(c.key); k2[r.randrange(16)] ^= 1 << r.randrange(8)
        items.append((c.T, bytes(k2), f, {"case": c, "orig": f, "wrongkey": True}))
    res = run_inputs(ck, exe, env, items)
    dist = ck.cov.setdefault("case_classes", {})
    distinct, corr, last = set(), 0, None
    for x in res:
        meta = x["meta"]
        cls = "garbage" if meta.get("garbage") else "valid" if meta.get("valid") else "wrong-key" if meta.get("wrongkey") else meta["mut"].cls
        ck.cov["evaluations"] += 1
        dist[cls] = dist.get(cls, 0) + 1
        distinct.add((cls, len(x["data"]), x["data"][:12]))
        dacc, vacc = x["dec"].startswith("OK "), x["ver"].startswith("OK")
        bad = None
        if dacc != vacc:
            bad = "verify %s but decrypt %s on the same file and key" % (x["ver"][:12], x["dec"][:24])
        elif x["ver_kv"].get("nwrites") != "0" or x["ver_kv"].get("outlen") != "0":
            bad = "verification wrote to its output (%s writes, %s bytes)" % (x["ver_kv"].get("nwrites"), x["ver_kv"].get("outlen"))
        elif x["ver_kv"].get("inmod") != "0" or x["dec_kv"].get("inmod") != "0":
            bad = "an operation modified its input file"
        elif meta.get("valid") and not dacc:
            bad = "a freshly encrypted file was rejected"
        if bad:
            rep = replay_of(ck, x, {"input_class": cls})
            if cls == "flip/cmode-byte/in-range":
                rep["class"] = K1
            ck.violation(bad, rep)
            continue
        if not corr_ok(x):
            corr += 1
            last = replay_of(ck, x, {"input_class": cls})
        if len(ck.cov["samples"]) < 10 and cls not in [s.get("class") for s in ck.cov["samples"]]:
            ck.cov["samples"].append({"class": cls, "len": len(x["data"]), "decrypt": x["dec"][:24], "verify": x["ver"], "verify_info": x["ver_kv"]})
    ck.cov["distinct_nontrivial"] = len(distinct)
    ck.cov["disagreements_model_vs_impl"] = corr
    if corr and not [v for v in ck.violations if v[1].get("class") != K1]:
        last["broken"] = "correspondence dec/ver model vs implementation"
        ck.violation("correspondence model/implementation no longer checks on %d inputs, no property violation found" % corr, last, found_input=False)
    return finish_proof(ck, rule="every file goes through BOTH entry points with the same key: valid files, the same files under a one-bit-different key, every mutation class of C05, the malformed stream of C11; verify runs with an output stream that records any write; input bytes compared before/after each operation. distinct = distinct (class, length, first 12 bytes)")
