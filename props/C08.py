"""C08: the tag is RFC 2104 HMAC over [48,EOF), stored at offset 10, rest of the field zero; comparison covers every byte."""
import hmac as pyhmac, hashlib
from props.filegen import *

THEOREMS_A = ["C08_tag_is_rfc2104_hmac", "C08_tag_length", "C08_compare_all_bytes", "C08_unknown_hash_has_no_tag"]
THEOREMS_B = ["C08_file_tag_is_hmac_of_body", "C08_tag_field_zero_filled"]
PY = {0: "sha1", 1: "md5", 2: "sha256"}
HL = {0: 20, 1: 16, 2: 32}


def gen_cases(ck):
    r = ck.rng
    big = ck.tier == "thorough"
    cases = []
    lens = list(range(0, 140 if not big else 400)) + [64 * HBUF * k + d for k in (1, 2, 3) for d in (-65, -64, -9, -8, -1, 0, 1, 55, 56, 63, 64)]
    for n in sorted(set(l for l in lens if l >= 0)):
        for hm in (0, 1, 2):
            if not (big or n < 70 or n % 64 in (0, 1, 54, 55, 56, 57, 63) or (n + hm) % 3 == 0):
                continue
            k, m = rnd_bytes(r, 16), rnd_bytes(r, n)
            cases.append(Case("hmac %d %d %s %s" % (HBUF, hm, k.hex(), wv.hexs(m)), "hmac", "tag/inner-len%%64=%s" % ("<56" if n % 64 < 56 else ">=56")))
    # comparison: equal / one bit different in byte i / last byte different / shorter match
    for hm in (0, 1, 2):
        for _ in range(6 if big else 2):
            k, m = rnd_bytes(r, 16), rnd_bytes(r, r.randrange(0, 200))
            t = pyhmac.new(k, m, PY[hm]).digest()
            stored = t + bytes(64 - len(t))
            cases.append(Case("cmph %d %d %s %s %s" % (HBUF, hm, k.hex(), wv.hexs(m), stored.hex()), "cmph", "compare/equal"))
            for i in range(len(t)):
                if big or i in (0, 1, len(t) // 2, len(t) - 2, len(t) - 1):
                    bad = bytearray(stored)
                    bad[i] ^= 1 << r.randrange(8)
                    cases.append(Case("cmph %d %d %s %s %s" % (HBUF, hm, k.hex(), wv.hexs(m), bytes(bad).hex()), "cmph", "compare/byte-%s-differs" % ("last" if i == len(t) - 1 else "first" if i == 0 else "mid")))
            # differences whose byte-wise xor values sum to 0 mod 256, or cancel under xor
            for pat in ([0x80, 0x80], [0x40, 0x40, 0x40, 0x40], [0xFF, 0x01], [0x55, 0x55]):
                bad = bytearray(stored)
                pos = r.sample(range(len(t)), len(pat))
                for q, v in zip(pos, pat):
                    bad[q] ^= v
                cases.append(Case("cmph %d %d %s %s %s" % (HBUF, hm, k.hex(), wv.hexs(m), bytes(bad).hex()), "cmph", "compare/multi-byte-difference"))
            junk = bytearray(stored)
            junk[len(t)] ^= 0xFF            # bytes after the tag do not matter
            cases.append(Case("cmph %d %d %s %s %s" % (HBUF, hm, k.hex(), wv.hexs(m), bytes(junk).hex()), "cmph", "compare/junk-after-tag"))
    # computed tag containing a 0x00 byte: a stored tag equal up to and including it, different afterwards
    found = 0
    tries = 0
    while found < (12 if big else 5) and tries < 4000:
        tries += 1
        hm = tries % 3
        k, m = rnd_key(r), rnd_bytes(r, r.randrange(0, 100))
        t = pyhmac.new(k, m, PY[hm]).digest()
        if 0 in t[:-1]:
            j = t.index(0)
            bad = bytearray(t + bytes(64 - len(t)))
            for q in range(j + 1, len(t)):
                bad[q] ^= 0xA5
            cases.append(Case("cmph %d %d %s %s %s" % (HBUF, hm, k.hex(), wv.hexs(m), bytes(bad).hex()), "cmph", "compare/equal-up-to-a-zero-byte"))
            found += 1
    # keys with boundary bytes
    for hm in (0, 1, 2):
        for k in (bytes(16), b"\x00" + rnd_bytes(r, 15), rnd_bytes(r, 5) + b"\x00" + rnd_bytes(r, 10), rnd_bytes(r, 15) + b"\x00", b"\xff" * 16):
            m = rnd_bytes(r, r.randrange(0, 80))
            cases.append(Case("hmac %d %d %s %s" % (HBUF, hm, k.hex(), wv.hexs(m)), "hmac", "tag/key-with-zero-or-ff-bytes"))
    return cases


def make_oracle(ck):
    def oracle(c, impl, spec, model):
        w = c.line.split()
        hm, k, m = int(w[2]), bytes.fromhex(w[3]), bytes.fromhex("" if w[4] == "-" else w[4])
        ref = pyhmac.new(k, m, PY[hm]).digest()
        if c.kind == "hmac":
            if spec != ref.hex():
                ck.notes.append("SPEC-MISMATCH with Python hmac")
                return "the Coq spec disagrees with Python's hmac (spec error)"
            return None if impl == spec else "tag differs from RFC 2104 HMAC"
        want = "1" if bytes.fromhex(w[5])[:len(ref)] == ref else "0"
        return None if impl == want == spec else "tag comparison verdict wrong (want %s, implementation %s)" % (want, impl)
    return oracle


def run(ck):
    ck.prove(["Properties_C08", "Properties_C08b", "Properties_Src2", "Properties_Src2b"], THEOREMS_A + THEOREMS_B + ["SRC_hmac", "SRC_cmphmac", "SRC_hmac_is_rfc2104", "SRC_cmphmac_accepts_iff_tag_matches"])
    exe = small_driver(ck)
    differential(ck, exe, gen_cases(ck), make_oracle(ck), env=small_env(ck), src=True)
    # tag field of real encrypted files
    cases = enc_cases(ck, 400 if ck.tier == "thorough" else 80)
    lines = ["e%d %s" % (i, c.line()) for i, c in enumerate(cases)]
    impl = wv.run_lines([exe], lines, env=small_env(ck))
    for i, c in enumerate(cases):
        ck.cov["evaluations"] += 1
        head, kv = split_impl(impl.get("e%d" % i, "(no output)"))
        rep = {"class": None, "case": c.line(), "driver_flags": ck.impl_flags, "implementation": head[:300]}
        if not head.startswith("OK "):
            ck.violation("encryption failed: " + head[:40], rep)
            continue
        f = bytes.fromhex(head.split()[1])
        ref = pyhmac.new(c.key, f[48:], PY[c.hm]).digest()
        if f[10:10 + len(ref)] != ref:
            ck.violation("tag at offset 10 is not HMAC(key, bytes[48..EOF)) (hmode %d)" % c.hm, rep)
        elif any(f[10 + len(ref):48]):
            ck.violation("bytes between the tag and offset 48 are not all zero", rep)
    object_reuse(ck, exe)
    # the stream GREW after its size was measured: cmphmac is told the old size (progress information only) and given the tag of the
    # old content - the tag of the stream as it is now differs, the comparison must fail
    r = ck.rng
    gl = []
    for j in range(30 if ck.tier == "thorough" else 12):
        hm = j % 3
        k = rnd_bytes(r, 16)
        old_ = rnd_bytes(r, r.choice([1, 40, 64, 100, 256, 300]))
        grown = old_ + rnd_bytes(r, r.choice([1, 16, 64, 200]))
        gl.append("g%d cmph %d %d %s %s %s %d" % (j, HBUF, hm, k.hex(), grown.hex(), pyhmac.new(k, old_, PY[hm]).hexdigest(), len(old_)))
    go = wv.run_lines([exe], gl, env=small_env(ck))
    for l in gl:
        cid = l.split()[0]
        ck.cov["evaluations"] += 1
        if go.get(cid) != "0":
            ck.violation("the tag of the OLD content was accepted for a stream that grew after its size was measured (cmphmac told the old size): verdict %s" % go.get(cid),
                         {"class": None, "case": l[:3000], "implementation": go.get(cid), "expected": "0", "driver_flags": ck.impl_flags, "replay": "echo 'x <case>' | harness/drv.cpp built with the flags above against /repo"})
            break
    ck.cov.setdefault("case_classes", {})["compare/stream-grew-after-size-was-measured"] = len(gl)
    parallel_purity(ck, exe, ["hmac %d %d %s %s" % (HBUF, i % 3, rnd_bytes(r, 16).hex(), wv.hexs(rnd_bytes(r, r.choice([1, 20, 55, 64, 100, 300, 64 * HBUF * 3 + 70, 64 * HBUF * 6 + 1])))) for i in range(24)],
                    "HMAC tags under different keys", iters=150, env=small_env(ck))
    if ck.tier == "thorough":
        production_scale(ck)     # 40 MiB and > 4 GiB with the production constants (props/filegen.py)
    return finish_proof(ck, rule="hmac: message lengths 0..139 (thorough 0..399) and around refill multiples x 3 hashes, random 16-byte keys; cmphmac: equal tag, one flipped bit in first/middle/last byte (thorough: every byte), junk after the tag; file level: tag field [10,48) of %d encrypted files vs Python hmac over [48,EOF). distinct = distinct case lines" % len(cases))


def object_reuse(ck, exe):
    """ONE hmac object used for a sequence of operations with changing hash modes (driver op hmseq): tags, verdicts, and - after
    writeFileHmac on a file whose tag field is zero - the field [10,48) must be the tag followed by zeros, whatever the object
    computed before (a longer digest left in a reused buffer shows only in such a sequence)"""
    r = ck.rng
    lines, want = [], {}
    for s in range(60 if ck.tier == "thorough" else 18):
        key = rnd_bytes(r, 16)
        ops, exp = [], []
        hms = [r.randrange(3) for _ in range(r.randrange(2, 6))]
        if s % 3 == 0:
            hms = sorted(hms, reverse=True) + [r.choice([0, 1])]      # longer digests first (2 = SHA-256, 0 = SHA-1, 1 = MD5)
            hms[0] = 2
        for j, hm in enumerate(hms):
            kind = "w" if j == len(hms) - 1 else r.choice("gcw")
            if kind == "g":
                m = rnd_bytes(r, r.randrange(0, 150))
                ops.append("g,%d,%s" % (hm, wv.hexs(m)))
                exp.append(pyhmac.new(key, m, PY[hm]).hexdigest())
            elif kind == "c":
                m = rnd_bytes(r, r.randrange(0, 150))
                t = bytearray(pyhmac.new(key, m, PY[hm]).digest())
                good = r.random() < 0.5
                if not good:
                    t[r.randrange(len(t))] ^= 1 << r.randrange(8)
                ops.append("c,%d,%s,%s" % (hm, wv.hexs(m), bytes(t).hex()))
                exp.append("1" if good else "0")
            else:
                f = bytearray(rnd_bytes(r, 48 + r.randrange(0, 200)))
                f[10:48] = bytes(38)
                tag = pyhmac.new(key, bytes(f[48:]), PY[hm]).digest()
                ops.append("w,%d,%s" % (hm, bytes(f).hex()))
                exp.append((bytes(f[:10]) + tag + bytes(38 - len(tag))).hex())
        lines.append("q%d hmseq %s %s" % (s, key.hex(), ";".join(ops)))
        want["q%d" % s] = " ".join(exp)
    got = wv.run_lines([exe], lines, env=small_env(ck))
    for l in lines:
        cid = l.split()[0]
        ck.cov["evaluations"] += 1
        if got.get(cid) != want[cid]:
            g, w = (got.get(cid) or "(no output)").split(" "), want[cid].split(" ")
            k = next((i for i in range(len(w)) if i >= len(g) or g[i] != w[i]), 0)
            ck.violation("operation %d of a sequence on one hmac object gives a wrong tag / verdict / tag field (offsets 0..47 after writeFileHmac)" % k,
                         {"class": None, "case": l[:3000], "operation_index": k, "implementation": g[k] if k < len(g) else "(missing)", "expected": w[k], "driver_flags": ck.impl_flags,
                          "replay": "echo 'x <case>' | harness/drv.cpp built against /repo"})
    ck.cov.setdefault("case_classes", {})["hmac-object-reused"] = len(lines)
