"""C04: the pipeline terminates under every schedule and input (no deadlock, lost wake-up)."""
from props import C03
from props.conc import *

THEOREMS = ["C04_no_lost_wakeup", "C04_deadlock_free", "C04_bounded_steps", "C04_bounded_steps_without_spurious", "C04_protocol_text_is_the_modelled_one"]


def fault_cases(ck, count):
    """inputs whose reads start FAILING (EIO: a read error, not end of file) part-way: at offset 0 (e.g. a directory opened as
    input), inside a chunk, exactly on a chunk boundary; for decryption after the verification pass has read the file cleanly.
    Real threads, small chunks; the operation must return (the driver's watchdog reports HANG otherwise)."""
    from props.filegen import small_driver, small_env, rnd_bytes, rnd_key, rnd_seed, CH, split_impl
    import tools.wv as wv_
    exe = small_driver(ck)
    env = small_env(ck)
    r = ck.rng
    lines, meta = [], {}
    # valid files to decrypt
    pre = []
    for i in range(count // 2):
        T = r.choice([1, 2, 4])
        key = rnd_key(r)
        n = r.choice([10, CH - 1, CH, CH + 5, 2 * CH, 3 * CH + 7, 5 * CH])
        pre.append((T, key, n))
    enc = wv_.run_lines([exe], ["p%d enc %d %d %d %s %s %s" % (i, r.randrange(5), r.randrange(3), T, key.hex(), rnd_seed(r).hex(), wv_.hexs(rnd_bytes(r, n))) for i, (T, key, n) in enumerate(pre)], env=env)
    for i, (T, key, n) in enumerate(pre):
        head, _ = split_impl(enc.get("p%d" % i, ""))
        if not head.startswith("OK "):
            continue
        f = head.split()[1]
        flen = len(f) // 2
        body0 = 48 + 20 * T
        # the verification pass delivers (flen - 48) bytes after header reads; fail somewhere in the second (pipeline) pass
        for fa in (2 * flen, flen + body0, flen + body0 + CH, flen + body0 + CH + 3, 2 * flen - 5):
            cid = "f%d_%d" % (i, fa)
            lines.append("%s decf %d %s %s %d" % (cid, T, key.hex(), f, max(0, fa)))
            meta[cid] = "read-error/decrypt/in-the-pipeline-pass"
    for i in range(count // 2):
        T = r.choice([1, 2, 4, 16])
        n = r.choice([0, 10, CH, CH + 5, 3 * CH, 4 * CH + 9])
        fa = r.choice([0, 0, 1, CH - 1, CH, CH + 1, 2 * CH, n])
        cid = "g%d" % i
        lines.append("%s encf %d %d %d %s %s %s %d" % (cid, r.randrange(5), r.randrange(3), T, rnd_key(r).hex(), rnd_seed(r).hex(), wv_.hexs(rnd_bytes(r, n)), fa))
        meta[cid] = "read-error/encrypt/at-%s" % ("0" if fa == 0 else "chunk-boundary" if fa % CH == 0 else "inside-chunk")
    # the OUTPUT stops taking data (ENOSPC) after w bytes: in the header, on / inside a chunk, in the last chunk, at the tag
    NOFAIL = 1 << 60
    for i, (T, key, n) in enumerate(pre):
        head, _ = split_impl(enc.get("p%d" % i, ""))
        if not head.startswith("OK "):
            continue
        f = head.split()[1]
        for w in sorted(set([0, 1, CH - 1, CH, CH + 1, 2 * CH, max(0, n - 20), n])):
            cid = "wd%d_%d" % (i, w)
            nb = w % 2 == 0 or w == n
            lines.append("%s decf %d %s %s %d %d%s" % (cid, T, key.hex(), f, NOFAIL, w, " nobuf" if nb else ""))
            meta[cid] = "write-error/decrypt" + ("/unbuffered-output" if nb else "")
    for i in range(count // 2):
        T = r.choice([1, 2, 3, 4, 16])
        n = r.choice([0, 10, CH, CH + 5, 3 * CH, 4 * CH + 9, 7 * CH + 1])
        body0 = 48 + 20 * T
        w = r.choice([0, 10, 48, body0 - 1, body0, body0 + CH - 1, body0 + CH, body0 + CH + 1, body0 + 2 * CH, body0 + n, body0 + n + 16])
        cid = "we%d" % i
        nb = i % 3 != 0
        lines.append("%s encf %d %d %d %s %s %s %d %d%s" % (cid, r.randrange(5), r.randrange(3), T, rnd_key(r).hex(), rnd_seed(r).hex(), wv_.hexs(rnd_bytes(r, n)), NOFAIL, w, " nobuf" if nb else ""))
        meta[cid] = "write-error/encrypt" + ("/unbuffered-output" if nb else "")
    res = wv_.run_lines([exe], lines, env=dict(env, WV_TIMEOUT_MS="8000"))
    # the write-error cases again under the deterministic scheduler (seeded schedules): with real threads and 64-byte chunks a
    # worker is never in the middle of a chunk when the write fails; under the shim every interleaving of that moment is reachable
    shim = shim_driver(ck)
    slines = []
    for l in [l for l in lines if meta[l.split()[0]].startswith("write-error")][:: 1 if ck.tier == "thorough" else 3]:
        cid, rest = l.split(" ", 1)
        for k in range(3):
            sid = "%s_s%d" % (cid, k)
            slines.append("%s @WV_SCHED_SEED=%d,WV_SCHED_POLICY=%d %s" % (sid, r.randrange(1 << 30), k % 2, rest))
            meta[sid] = meta[cid] + "/seeded-schedule"
    res.update(wv_.run_lines([shim], slines, env=dict(env, WV_TIMEOUT_MS="20000")))
    lines = lines + slines
    dist = ck.cov.setdefault("case_classes", {})
    for l in lines:
        cid = l.split()[0]
        got = res.get(cid, "(no output)")
        ck.cov["evaluations"] += 1
        dist[meta[cid]] = dist.get(meta[cid], 0) + 1
        if not got.startswith("RETURNED"):
            ck.violation("the operation did not return when reads of its input / writes to its output started failing (%s): %s" % (meta[cid], got[:40]),
                         {"class": None, "case": l[:4000], "case_class": meta[cid], "implementation": got[:300], "driver_flags": ck.impl_flags,
                          "replay": "feed the line to harness/drv.cpp built against /repo (encf/decf: last field = number of bytes delivered before reads fail with EIO)"})


def hash_boundary_runs(ck):
    """termination is also a matter of the sequential passes (header, HMAC): plaintext lengths for which the authenticated region
    [48, EOF) = 20T + padded body is an EXACT multiple of the hash refill buffer (256 bytes in this build), and neighbours; encrypt, then
    verify and decrypt of the result, real threads; each must return"""
    from props.filegen import small_driver, small_env, rnd_bytes, rnd_key, rnd_seed, split_impl
    import tools.wv as wv_
    exe = small_driver(ck)
    env = small_env(ck)
    r = ck.rng
    R = 64 * 4
    lines, meta = [], {}
    for T in (1, 2, 3, 4, 8, 16):
        for m in (1, 2, 3):
            body = R * m - 20 * T
            if body < 16 or body % 16:
                continue
            for n in (body - 16, body - 1, body - 17, body):           # padded length = 16 * (n // 16 + 1)
                if n < 0:
                    continue
                cid = "hb%d_%d_%d" % (T, m, n)
                lines.append("%s enc %d %d %d %s %s %s" % (cid, r.randrange(5), r.randrange(3), T, rnd_key(r).hex(), rnd_seed(r).hex(), wv_.hexs(rnd_bytes(r, n))))
                meta[cid] = (T, n, 16 * (n // 16 + 1) + 20 * T)
    out = wv_.run_lines([exe], lines, env=dict(env, WV_TIMEOUT_MS="10000"))
    l2 = []
    for l in lines:
        cid = l.split()[0]
        head = split_impl(out.get(cid, "(no output)"))[0]
        ck.cov["evaluations"] += 1
        if not head.startswith("OK "):
            ck.violation("encryption did not return normally for a plaintext whose authenticated region is %d bytes (hash refill buffer: %d): %s" % (meta[cid][2], R, head[:30]),
                         {"class": None, "case": l[:3000], "authenticated_region_bytes": meta[cid][2], "hash_refill_bytes": R, "implementation": head[:200], "driver_flags": ck.impl_flags,
                          "replay": "echo '<case>' | harness/drv.cpp built with the flags above against /repo"})
            return
        w = l.split()
        l2.append("%s_v ver %s %s %s" % (cid, w[4], w[5], head.split()[1]))
        l2.append("%s_d dec %s %s %s" % (cid, w[4], w[5], head.split()[1]))
    out2 = wv_.run_lines([exe], l2, env=dict(env, WV_TIMEOUT_MS="10000"))
    for l in l2:
        cid = l.split()[0]
        head = split_impl(out2.get(cid, "(no output)"))[0]
        ck.cov["evaluations"] += 1
        if not head.startswith("OK"):
            ck.violation("verify / decrypt of a freshly encrypted file did not return success (authenticated region an exact multiple of the hash refill buffer or next to one): %s" % head[:30],
                         {"class": None, "case": l[:3000], "implementation": head[:200], "driver_flags": ck.impl_flags})
            return
    ck.cov.setdefault("case_classes", {})["authenticated-region-at-hash-refill-boundary"] = len(lines)


def run(ck):
    ck.prove(["Properties_C04", "SrcRun4", "RefineConcSimEx", "Properties_SrcConc", "Properties_SrcConc2"], THEOREMS + ["SRC_protocol_follows_PipeConc", "SRC_protocol_never_stuck", "SRC_protocol_machine_is_followed_by_PipeConc"])
    exe = shim_driver(ck)
    big = ck.tier == "thorough"
    r = ck.rng
    cfg = []
    # inputs that end exactly on a chunk boundary, empty inputs, more workers than chunks
    shapes = [(1, 0), (4, 0), (16, 0), (1, 64), (2, 64), (3, 128), (16, 64), (5, 16), (2, 63), (3, 48), (4, 64 * 4), (16, 64 * 3 + 1)]
    n = 3000 if big else 400
    for i in range(n):
        T, ln = shapes[i % len(shapes)]
        pad = (i // len(shapes)) % 2 == 0
        cfg.append((T, pad, pipe_input(r, ln, pad), r.randrange(1 << 30), 1 if i % 4 == 3 else 0, 1 if i % 3 == 1 else 0))
    # a tenth of the runs with injected spurious wake-ups (policy code 10*percent + policy): schedulable actions of the Coq model
    # since the second round (tid T+1+j), so these traces are validated against the model like the others
    cfg = [(T, pad, inp, seed, ycs, pol + (200 if k % 10 == 9 else 0)) for k, (T, pad, inp, seed, ycs, pol) in enumerate(cfg)]
    res = run_schedules(ck, exe, cfg)
    C03.analyse(ck, res, want=("deadlock", "trace", "output"))
    ck.cov["max_steps_seen"] = max([len(x["steps"]) for x in res] or [0])
    C03.end_to_end(ck, exe, 120 if big else 30)
    fault_cases(ck, 150 if big else 40)
    hash_boundary_runs(ck)
    if big:
        from props.filegen import production_scale
        production_scale(ck)     # 40 MiB and > 4 GiB with the production constants: an operation that does not return there is this property's
    return finish_proof(ck, rule="termination under seeded schedules of the real pipeline (scheduler shim reports 'no enabled thread while a thread is unfinished' as DEADLOCK and > 2*10^6 steps as LIVELOCK): empty inputs, inputs ending exactly on a chunk boundary, more workers than chunks (T up to 16), both directions, uniform and priority schedulers, extra yields inside critical sections in a quarter of the runs; every trace replayed on the Coq transition system (incl. the number of enabled threads at every step); whole encrypt/decrypt/verify under random schedules; encrypt/decrypt on input streams whose reads start failing (EIO) at offset 0, inside a chunk, on a chunk boundary, and during decryption's second pass (real threads; must return). distinct = distinct (T, direction, length, schedule)",
                        assumptions=C03.ASSUME + ["proved: no lost wake-up, deadlock freedom for every reachable state, and length sched <= B + 2 * (number of spurious wake-ups in sched) for every schedule: every execution with finitely many spurious wake-ups is finite and every maximal one ends in the terminal state"])
