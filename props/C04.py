"""C04: the pipeline terminates under every schedule and input (no deadlock, lost wake-up)."""
from props import C03
from props.conc import *

THEOREMS = ["C04_no_lost_wakeup", "C04_deadlock_free", "C04_bounded_steps"]


def run(ck):
    ck.prove("Properties_C04", THEOREMS)
    exe = shim_driver(ck)
    big = ck.tier == "thorough"
    r = ck.rng
    cfg = []
    # inputs that end exactly on a chunk boundary, empty inputs, more workers than chunks
    shapes = [(1, 0), (4, 0), (16, 0), (1, 64), (2, 64), (3, 128), (16, 64), (5, 16), (2, 63), (3, 48), (4, 64 * 4), (16, 64 * 3 + 1)]
    n = 3000 if big else 400
    for i in range(n):
        T, ln = shapes[i % len(shapes)]
        pad = (i // len(shapes)) % 2 == 0
        cfg.append((T, pad, pipe_input(r, ln, pad), r.randrange(1 << 30), 1 if i % 4 == 3 else 0, 1 if i % 3 == 1 else 0))
    # a tenth of the runs with injected spurious wake-ups (policy code 10*percent + policy): outside the Coq model, which
    # assumes none; the while-loops around cv.wait must make the code robust to them
    cfg = [(T, pad, inp, seed, ycs, pol + (200 if k % 10 == 9 else 0)) for k, (T, pad, inp, seed, ycs, pol) in enumerate(cfg)]
    res = run_schedules(ck, exe, cfg)
    C03.analyse(ck, res, want=("deadlock", "trace", "output"))
    ck.cov["max_steps_seen"] = max([len(x["steps"]) for x in res] or [0])
    C03.end_to_end(ck, exe, 120 if big else 30)
    return finish_proof(ck, rule="termination under seeded schedules of the real pipeline (scheduler shim reports 'no enabled thread while a thread is unfinished' as DEADLOCK and > 2*10^6 steps as LIVELOCK): empty inputs, inputs ending exactly on a chunk boundary, more workers than chunks (T up to 16), both directions, uniform and priority schedulers, extra yields inside critical sections in a quarter of the runs; every trace replayed on the Coq transition system (incl. the number of enabled threads at every step); whole encrypt/decrypt/verify under random schedules. distinct = distinct (T, direction, length, schedule)",
                        assumptions=C03.ASSUME + ["proved: no lost wake-up, deadlock freedom for every reachable state, and a bound on the length of every schedule (strictly decreasing potential): every maximal execution ends in the terminal state"])
