"""Generation of file-level cases shared by C01/C02/C05/C06/C08/C11/C12/C13/C18."""
from props.common import *

BUF = 4    # blocks per chunk in the small-chunk build (64-byte chunks)
HBUF = 4   # 64-byte units per hash-buffer refill (256 bytes)
CH = 16 * BUF


def small_env(ck):
    e = ck.env()
    e.update({"WV_BUF": str(BUF), "WV_HBUF": str(HBUF)})
    return e


def small_driver(ck, **kw):
    ck.impl_flags = "-DWENCRY_VERIF -DWENCRY_VERIF_BUF_SZ=%d -DWENCRY_VERIF_HBUF_SZ=%d" % (BUF, HBUF)
    return ck.impl_driver(buf=BUF, hbuf=HBUF, **kw)


def rnd_bytes(r, n):
    return bytes(r.randrange(256) for _ in range(n))


def rnd_key(r):
    """16-byte key; a fifth of them with boundary bytes (0x00 / 0xFF at chosen positions, repeated bytes)"""
    k = bytearray(rnd_bytes(r, 16))
    c = r.randrange(10)
    if c == 0:
        k[r.choice([0, 5, 15])] = 0
    elif c == 1:
        k[r.randrange(16)] = 0
        k[r.randrange(16)] = 0xFF
    elif c == 2 and r.random() < 0.3:
        k = bytearray([r.choice([0, 0xFF, 0x80])] * 16)
    return bytes(k)


def rnd_seed(r):
    n = r.choice([1, 3, 8, 20, 55, 56, 57, 63, 64, 65, 119, 120, 200, 255, 256, 257, 300, 512, 1000])
    return bytes(r.randrange(1, 256) for _ in range(n))


def boundary_lengths(maxchunks):
    ls = set([0, 1, 15, 16, 17, 31, 32, 33])
    for k in range(1, maxchunks + 1):
        for d in range(-17, 2):
            if k * CH + d >= 0:
                ls.add(k * CH + d)
    return sorted(ls)


class EncCase:
    def __init__(self, n, cm, hm, T, key, seed, plain, cls):
        self.n, self.cm, self.hm, self.T, self.key, self.seed, self.plain, self.cls = n, cm, hm, T, key, seed, plain, cls

    def line(self):
        return "enc %d %d %d %s %s %s" % (self.cm, self.hm, self.T, wv.hexs(self.key), wv.hexs(self.seed), wv.hexs(self.plain))


def enc_cases(ck, count, maxchunks=5, exhaustive_lengths=False):
    """structured encryption cases: lengths aimed at chunk/block boundaries, all (cm,hm), T incl. T > #chunks"""
    r = ck.rng
    res = []
    lens = boundary_lengths(maxchunks)
    Ts = [1, 2, 3, 4, 5, 16]
    combos = [(cm, hm) for cm in range(5) for hm in range(3)]
    if exhaustive_lengths:
        i = 0
        for n in range(0, maxchunks * CH + 2):
            cm, hm = combos[i % 15]
            T = Ts[(i // 15) % len(Ts)] if n % 3 else r.choice(Ts)
            i += 1
            res.append(EncCase(n, cm, hm, T, rnd_key(r), rnd_seed(r), rnd_bytes(r, n), "len=%s" % lencls(n)))
        return res + related_block_cases(ck, 45) + counter_carry_cases(ck) + constant_chunk_cases(ck) + structured_state_cases(ck)
    i = 0
    while len(res) < count:
        n = lens[(i * 7) % len(lens)] if r.random() < 0.45 else r.randrange(0, maxchunks * CH + 40)
        cm, hm = combos[(i * 7 + i // 15) % 15]
        T = Ts[(i // 3) % len(Ts)]
        i += 1
        res.append(EncCase(n, cm, hm, T, rnd_key(r), rnd_seed(r), rnd_bytes(r, n), "len=%s" % lencls(n)))
    return res + related_block_cases(ck, max(4, count // 12)) + counter_carry_cases(ck) + constant_chunk_cases(ck) + structured_state_cases(ck)


# seeds whose first IV (SHA-1 of the seed, bytes 0..15) ends in FF FF FF Ex: a CTR stream started from it carries out of its low
# 32-bit word after 32 / 23 / 24 blocks (found once by search over 2^27 candidates; random seeds reach this with probability 2^-25)
CARRY_SEEDS = [(b"wv-carry-seed-1829833", 32), (b"wv-carry-seed-56442943", 23), (b"wv-carry-seed-128457789", 24)]


def counter_carry_cases(ck):
    r = ck.rng
    res = []
    for j, (seed, nb) in enumerate(CARRY_SEEDS):
        T = [1, 2, 1][j]
        n = 16 * (nb + 6) * T + r.randrange(1, 16)        # every stream runs past the carry
        res.append(EncCase(n, 2, j % 3, T, rnd_key(r), seed, rnd_bytes(r, n), "ctr-counter-carries-out-of-32-bits"))
    return res


def constant_chunk_cases(ck):
    """plaintexts containing whole chunks of one byte value (zeros, 0xFF, the pad values): first, middle and LAST chunk, with lengths that
    are exact chunk multiples and not - what a sparse-file shortcut, a run-length idea or a 'skip empty buffers' optimisation keys on"""
    r = ck.rng
    res = []
    shapes = [("zero-last-chunk", [None, 0], 0), ("zero-last-chunk-exact-multiple", [None, None, 0], 0), ("zero-middle-chunk", [None, 0, None], 5),
              ("all-zero", [0, 0, 0], 0), ("all-zero-ragged", [0, 0], 7), ("ff-last-chunk", [None, 0xFF], 0), ("pad16-last-chunk", [None, 0x10], 0),
              ("zero-first-chunk", [0, None], 3), ("pad01-all", [1, 1], 0)]
    for j, (name, chunks, extra) in enumerate(shapes):
        plain = b"".join(rnd_bytes(r, CH) if v is None else bytes([v]) * CH for v in chunks) + rnd_bytes(r, extra)
        res.append(EncCase(len(plain), j % 5, j % 3, [1, 2, 3, 4][j % 4], rnd_key(r), rnd_seed(r), plain, "constant-chunks/" + name))
    return res


def structured_state_cases(ck):
    """ECB / CBC files whose blocks drive the AES state, in some round, into a shape a table shortcut may special-case (an all-zero
    column or row entering (Inv)MixColumns, zero bytes, a uniform state): the plaintext blocks are computed backwards with the
    extracted SPEC (mdrv aesprobe) for the file's own key; decryption of the resulting ciphertext passes through the same states"""
    r = ck.rng
    mdrv = ck.model_driver()
    res = []
    for j in range(3):
        key = rnd_key(r)
        probes = []
        for rnd in r.sample(range(1, 10), 6):
            t = bytearray(rnd_bytes(r, 16))
            kind = r.randrange(4)
            if kind == 0:
                col = r.randrange(4)
                t[4 * col:4 * col + 4] = bytes(4)
            elif kind == 1:
                row = r.randrange(4)
                for col in range(4):
                    t[4 * col + row] = 0
            elif kind == 2:
                col = r.randrange(3)
                t[4 * col:4 * col + 4] = bytes(4)          # a zero column FOLLOWED by a non-zero one
                t[4 * col + 4] |= 1
            else:
                t = bytearray([r.randrange(256)] * 16)
            probes.append((bytes(t), rnd))
        out = wv.run_lines([mdrv], ["q%d aesprobe %s %s %d" % (i, key.hex(), t.hex(), rnd) for i, (t, rnd) in enumerate(probes)], shards=1)
        blocks = [bytes.fromhex(out["q%d" % i]) for i in range(len(probes)) if len(out.get("q%d" % i, "")) == 32]
        plain = rnd_bytes(r, 16 * r.randrange(0, 3)) + b"".join(blocks) + rnd_bytes(r, r.randrange(1, 40))
        res.append(EncCase(len(plain), 0 if j < 2 else 1, j % 3, [1, 2, 3][j], key, rnd_seed(r), plain, "aes-structured-states"))
    return res


def related_block_cases(ck, count):
    """plaintexts in which, inside every worker's stream, a block is related to what that stream's cipher object saw or produced
    just before (common.feedback_streams; encryption side: plaintext block = previous ciphertext block etc.; decryption side: the
    CIPHERTEXT block equals the previous plaintext block etc.) - state remembered from one block to the next only shows on these"""
    import hashlib
    r = ck.rng
    plan = []
    for i in range(count):
        T = r.choice([1, 1, 2, 3])
        k = r.choice([1, 2])
        cm, d = (0, "ed"[i % 2]) if i % 3 == 0 else (r.randrange(5), r.choice("ed"))
        plan.append((T, k, cm, d, rnd_key(r), rnd_seed(r), i % 3))
    specs = []
    for (T, k, cm, d, key, seed, hm) in plan:
        iv = hashlib.sha1(seed).digest()
        for s in range(T):
            specs.append((d, cm, key, iv))
    streams = feedback_streams(ck, specs, BUF * 2)
    res, q = [], 0
    for (T, k, cm, d, key, seed, hm) in plan:
        mine = streams[q:q + T]
        q += T
        per = [(x if d == "e" else y)[:16 * BUF * k] for (x, y, _) in mine]
        plain = b"".join(per[j % T][CH * (j // T):CH * (j // T + 1)] for j in range(T * k))
        cut = r.choice([0, 0, 1, 16])
        plain = plain[:len(plain) - cut] if cut else plain
        res.append(EncCase(len(plain), cm, hm, T, key, seed, plain, "related-blocks/%s-side" % ("encrypt" if d == "e" else "decrypt")))
    return res


def lencls(n):
    k, d = divmod(n, CH)
    pad = 16 - n % 16
    if (n + pad) % CH == 0:
        return "padded-is-chunk-multiple"
    if n % 16 == 0:
        return "block-multiple"
    if n < CH:
        return "single-chunk"
    return "multi-chunk"


def split_impl(s):
    """'OK hex | k=v ...' -> (head, {k: v})"""
    if " | " in s:
        head, tail = s.split(" | ", 1)
        kv = dict(x.split("=", 1) for x in tail.split() if "=" in x)
        return head, kv
    return s, {}


def whole_source_runs(ck, lines, impl, limit=None, label="whole-file"):
    """The same enc / dec / ver lines on the TRANSLATED SOURCE ONLY (coq/SrcRun5.v: runcrypt::execute_* with the translated protocol,
    worker threads, cipher modes, header, HMAC and hashes under the thread semantics MiniCConc, a different seed of the scheduler
    function for every line).  lines: ["<id> enc ..." | "<id> dec T key file" | "<id> ver T key file"]; impl: id -> implementation
    output.  A subset is run (the interpreter is ~10^3 x slower): short lines first, plus evenly spaced longer ones.
    Returns the list of (id, line, implementation head, translated-source result) that differ."""
    if limit is None:
        limit = 320 if ck.tier == "thorough" else 56
    cand = [l for l in lines if l.split(" ", 2)[1] in ("enc", "dec", "ver") and len(l) < 6000]
    cand.sort(key=len)
    nshort = limit * 3 // 4
    pick = cand[:nshort]
    rest = cand[nshort:]
    if rest:
        stepk = max(1, len(rest) // max(1, limit - nshort))
        pick += rest[::stepk][:limit - nshort]
    r = ck.rng
    sl = []
    for l in pick:
        cid, op, tail = l.split(" ", 2)
        sl.append("%s @S=%d %s %s" % (cid, r.randrange(1 << 30) if r.random() < 0.8 else 0, "verw" if op == "ver" else op, tail))
    out = wv.run_lines([ck.model_driver(), "src"], sl, shards=wv.NCPU, env=small_env(ck), timeout=1200) if sl else {}
    diffs = []
    for l in pick:
        cid = l.split(" ", 1)[0]
        if cid not in out:
            continue
        head, _ = split_impl(impl.get(cid, "(no output)"))
        if head != out[cid]:
            diffs.append((cid, l, head, out[cid]))
    ck.cov["whole_file_runs_on_translated_source"] = ck.cov.get("whole_file_runs_on_translated_source", 0) + len(out)
    ck.cov["disagreements_source_vs_impl"] = ck.cov.get("disagreements_source_vs_impl", 0) + len(diffs)
    return diffs


def report_whole_source(ck, diffs, label=""):
    """a difference between the implementation and the translated whole-file run is a broken correspondence (no failing input of the
    property by itself): reported when nothing else was found"""
    if diffs and not ck.violations:
        cid, l, head, s = diffs[0]
        ck.violation("correspondence translated-source(whole-file run under MiniCConc)/implementation no longer checks (%d cases differ) but no input violating the property was found" % len(diffs),
                     {"class": None, "broken": "correspondence translated whole-file run vs implementation " + label, "case": l[:3000], "implementation": head[:2000], "translated_source": s[:2000]}, found_input=False)


# ------------------------------------------------------------------ production-scale runs (thorough tier)
def production_scale_findings(ck):
    """Runs with the PRODUCTION constants (16 MiB chunks, 32 MiB hash buffer) at sizes where 32-bit byte counts, the refill of the
    hash buffer at offset != 0 and multi-GiB offsets matter -- sizes the 64-byte-chunk builds cannot reach:
      (1) 40 MiB random plaintext (CBC, SHA-1, T=4): tag against Python's hmac over [48, EOF); four alterations behind the first
          32 MiB (bit flip, truncation, extension, two 1 MiB pieces swapped) must all be rejected by verify and decrypt;
      (2) 4 GiB + 1 MiB + 5 bytes of zeros (sparse input; ECB, MD5, T=16): length, every body block = AES_K(0) (last = padding
          block), tag = HMAC-MD5 over [48, EOF); verify accepts; one bit flipped at 3 GiB: verify must reject; decrypt of the
          authentic file restores exactly the zeros.
    The outcome is cached per /repo source hash (build/production_scale_<hash>.json) so that the thorough tiers of C02, C05, C08,
    C11, C12 pay once.  Returns a list of {"property": [...], "what": ..., "replay": {...}}.  ~6-8 min, ~9 GB scratch, removed."""
    import hashlib, hmac as pyhmac, json, shutil
    cache = os.path.join(wv.BUILD, "production_scale_%s.json" % wv.repo_source_hash()[:16])
    with wv.Lock("production_scale"):
        if os.path.exists(cache):
            return json.load(open(cache))
        exe = ck.impl_driver()
        mdrv = ck.model_driver()
        env = dict(ck.env(), WV_TIMEOUT_MS="1800000")
        d = os.path.join(wv.BUILD, "production_scale_tmp")
        shutil.rmtree(d, ignore_errors=True)
        os.makedirs(d)
        found = []
        r = ck.rng

        def run(line, t=2400):
            return wv.run_lines([exe], ["x " + line], shards=1, env=env, timeout=t).get("x", "(no output)")

        def add(props, what, **rep):
            rep.update({"class": None, "production_constants": True, "replay": "harness/drv.cpp built from /repo WITHOUT size overrides; encp cm hm T key seed in out / verp T key file / decp T key file out"})
            found.append({"property": props, "what": what, "replay": rep})
        try:
            # ---- (1) 40 MiB, alterations behind the first refill of the hash buffer
            key, seed = rnd_key(r), rnd_seed(r)
            pin, penc, pbad, pout = [os.path.join(d, n) for n in ("a.in", "a.wenc", "a.bad", "a.out")]
            n = 40 << 20
            with open(pin, "wb") as f:
                for _ in range(40):
                    f.write(os.urandom(1 << 20))
            e = run("encp 1 0 4 %s %s %s %s" % (key.hex(), seed.hex(), pin, penc))
            if e != "OK -":
                add(["C01", "C02"] + (["C04"] if e in ("HANG", "DEADLOCK", "LIVELOCK") else []), "encryption of 40 MiB with production constants did not succeed: " + e, n=n)
            else:
                F = open(penc, "rb").read()
                tag = pyhmac.new(key, F[48:], "sha1").digest()
                if F[10:30] != tag or any(F[30:48]):
                    add(["C02", "C08"], "40 MiB file: the tag at offset 10 is not HMAC-SHA1 over [48, EOF) (hash buffer refilled from a non-zero file offset)", n=n, cmode=1, hmode=0, T=4, key=key.hex())
                M32 = 32 << 20
                alts = {"bit flip at 32 MiB + 77": F[:M32 + 77] + bytes([F[M32 + 77] ^ 4]) + F[M32 + 78:],
                        "truncated to 35 MiB": F[:35 << 20],
                        "last 16 bytes appended again": F + F[-16:],
                        "1 MiB pieces at 33 MiB and 37 MiB swapped": F[:33 << 20] + F[37 << 20:38 << 20] + F[34 << 20:37 << 20] + F[33 << 20:34 << 20] + F[38 << 20:]}
                for name, data in alts.items():
                    open(pbad, "wb").write(data)
                    v = run("verp 4 %s %s" % (key.hex(), pbad))
                    dd = run("decp 4 %s %s %s" % (key.hex(), pbad, pout))
                    if v != "FAIL" or dd != "FAIL":
                        add(["C05", "C08", "C11", "C12"], "40 MiB file altered behind its first 32 MiB (%s): verify says %s, decrypt says %s" % (name, v, dd), alteration=name, key=key.hex(), n=n, cmode=1, hmode=0, T=4)
                    elif os.path.exists(pout) and os.path.getsize(pout) != 0:
                        add(["C11"], "failed decryption of the altered 40 MiB file left %d output bytes" % os.path.getsize(pout), alteration=name)
            for p in (pin, penc, pbad, pout):
                if os.path.exists(p):
                    os.remove(p)
            # ---- (2) beyond 4 GiB
            key = rnd_key(r)
            n = (4 << 30) + (1 << 20) + 5
            with open(pin, "wb") as f:
                f.truncate(n)                       # sparse: all zeros
            e = run("encp 0 1 16 %s %s %s %s" % (key.hex(), b"seed".hex(), pin, penc))
            want_len = 48 + 20 * 16 + 16 * (n // 16 + 1)
            if e != "OK -":
                add(["C01", "C02"] + (["C04"] if e in ("HANG", "DEADLOCK", "LIVELOCK") else []), "encryption of 4 GiB + 1 MiB + 5 bytes did not succeed: " + e, n=n, T=16)
            elif os.path.getsize(penc) != want_len:
                add(["C02"], "file of a %d-byte plaintext has length %d, documented %d (a 32-bit offset / length wrapped?)" % (n, os.path.getsize(penc), want_len), n=n, T=16, cmode=0, hmode=1, key=key.hex())
            else:
                spec = wv.run_lines([mdrv, "spec"], ["z aes e %s %s" % (key.hex(), "00" * 16), "p aes e %s %s" % (key.hex(), "00" * 5 + "0b" * 11)], shards=1)
                zb, pb = bytes.fromhex(spec["z"]), bytes.fromhex(spec["p"])
                h = pyhmac.new(key, digestmod="md5")
                badblock = None
                with open(penc, "rb") as f:
                    head = f.read(48 + 320)
                    h.update(head[48:])
                    pat = zb * (1 << 18)              # 4 MiB of the expected block
                    off = 0
                    body_len = want_len - 368
                    while off < body_len:
                        chunk = f.read(min(len(pat), body_len - off))
                        h.update(chunk)
                        exp = pat[:len(chunk)]
                        if off + len(chunk) == body_len:
                            exp = exp[:-16] + pb
                        if chunk != exp and badblock is None:
                            k = next(i for i in range(0, len(chunk), 16) if chunk[i:i + 16] != exp[i:i + 16])
                            badblock = (off + k) // 16
                        off += len(chunk)
                if badblock is not None:
                    add(["C02"], "4 GiB file: body block %d is not AES_K of the (zero / padding) plaintext block" % badblock, n=n, T=16, cmode=0, hmode=1, key=key.hex())
                if head[10:26] != h.digest() or any(head[26:48]):
                    add(["C02", "C08"], "4 GiB file: the tag at offset 10 is not HMAC-MD5 over [48, EOF) (a 32-bit byte count in the hashing path?)", n=n, T=16, hmode=1, key=key.hex())
                v = run("verp 16 %s %s" % (key.hex(), penc))
                if v != "OK -":
                    add(["C01"], "verification of the freshly encrypted 4 GiB file failed: " + v, n=n)
                dd = run("decp 16 %s %s %s" % (key.hex(), penc, pout))
                if dd != "OK -" or os.path.getsize(pout) != n:
                    add(["C01"] + (["C04"] if dd in ("HANG", "DEADLOCK", "LIVELOCK") else []), "decryption of the 4 GiB file: %s, %d bytes (expected %d)" % (dd, os.path.getsize(pout) if os.path.exists(pout) else -1, n), n=n)
                else:
                    nz = False
                    with open(pout, "rb") as f:
                        z = bytes(1 << 22)
                        while True:
                            c = f.read(1 << 22)
                            if not c:
                                break
                            if c != z[:len(c)]:
                                nz = True
                                break
                    if nz:
                        add(["C01"], "decrypt(encrypt(P)) != P for the 4 GiB + 1 MiB + 5 byte plaintext", n=n)
                if os.path.exists(pout):
                    os.remove(pout)
                with open(penc, "r+b") as f:
                    f.seek(3 << 30)
                    b = f.read(1)
                    f.seek(3 << 30)
                    f.write(bytes([b[0] ^ 1]))
                v = run("verp 16 %s %s" % (key.hex(), penc))
                if v != "FAIL":
                    add(["C05", "C08", "C11", "C12"], "4 GiB file with one bit flipped at offset 3 GiB: verify says " + v, n=n, T=16, hmode=1, key=key.hex(), alteration="bit 0 of the byte at offset 3 GiB")
        finally:
            shutil.rmtree(d, ignore_errors=True)
        json.dump(found, open(cache, "w"), indent=1)
        return found


def production_scale(ck):
    """thorough tier: report what the production-scale runs found for this property"""
    res = production_scale_findings(ck)
    ck.cov["production_scale_runs"] = "40 MiB (4 alterations behind 32 MiB) + 4 GiB+1 MiB+5 (format, tag, verify, decrypt, bit flip at 3 GiB); findings for all properties: %d" % len(res)
    for f in res:
        if ck.pid in f["property"]:
            ck.violation(f["what"], dict(f["replay"]))
