"""Generation of file-level cases shared by C01/C02/C05/C06/C08/C11/C12/C13/C18."""
from props.common import *

BUF = 4    # blocks per chunk in the small-chunk build (64-byte chunks)
HBUF = 4   # 64-byte units per hash-buffer refill (256 bytes)
CH = 16 * BUF


def small_env(ck):
    e = ck.env()
    e.update({"WV_BUF": str(BUF), "WV_HBUF": str(HBUF)})
    return e


def small_driver(ck, **kw):
    ck.impl_flags = "-DWENCRY_VERIF -DWENCRY_VERIF_BUF_SZ=%d -DWENCRY_VERIF_HBUF_SZ=%d" % (BUF, HBUF)
    return ck.impl_driver(buf=BUF, hbuf=HBUF, **kw)


def rnd_bytes(r, n):
    return bytes(r.randrange(256) for _ in range(n))


def rnd_key(r):
    """16-byte key; a fifth of them with boundary bytes (0x00 / 0xFF at chosen positions, repeated bytes)"""
    k = bytearray(rnd_bytes(r, 16))
    c = r.randrange(10)
    if c == 0:
        k[r.choice([0, 5, 15])] = 0
    elif c == 1:
        k[r.randrange(16)] = 0
        k[r.randrange(16)] = 0xFF
    elif c == 2 and r.random() < 0.3:
        k = bytearray([r.choice([0, 0xFF, 0x80])] * 16)
    return bytes(k)


def rnd_seed(r):
    n = r.choice([1, 3, 8, 20, 55, 56, 57, 63, 64, 65, 119, 120, 200, 255, 256, 257, 300, 512, 1000])
    return bytes(r.randrange(1, 256) for _ in range(n))


def boundary_lengths(maxchunks):
    ls = set([0, 1, 15, 16, 17, 31, 32, 33])
    for k in range(1, maxchunks + 1):
        for d in range(-17, 2):
            if k * CH + d >= 0:
                ls.add(k * CH + d)
    return sorted(ls)


class EncCase:
    def __init__(self, n, cm, hm, T, key, seed, plain, cls):
        self.n, self.cm, self.hm, self.T, self.key, self.seed, self.plain, self.cls = n, cm, hm, T, key, seed, plain, cls

    def line(self):
        return "enc %d %d %d %s %s %s" % (self.cm, self.hm, self.T, wv.hexs(self.key), wv.hexs(self.seed), wv.hexs(self.plain))


def enc_cases(ck, count, maxchunks=5, exhaustive_lengths=False):
    """structured encryption cases: lengths aimed at chunk/block boundaries, all (cm,hm), T incl. T > #chunks"""
    r = ck.rng
    res = []
    lens = boundary_lengths(maxchunks)
    Ts = [1, 2, 3, 4, 5, 16]
    combos = [(cm, hm) for cm in range(5) for hm in range(3)]
    if exhaustive_lengths:
        i = 0
        for n in range(0, maxchunks * CH + 2):
            cm, hm = combos[i % 15]
            T = Ts[(i // 15) % len(Ts)] if n % 3 else r.choice(Ts)
            i += 1
            res.append(EncCase(n, cm, hm, T, rnd_key(r), rnd_seed(r), rnd_bytes(r, n), "len=%s" % lencls(n)))
        return res
    i = 0
    while len(res) < count:
        n = lens[(i * 7) % len(lens)] if r.random() < 0.45 else r.randrange(0, maxchunks * CH + 40)
        cm, hm = combos[(i * 7 + i // 15) % 15]
        T = Ts[(i // 3) % len(Ts)]
        i += 1
        res.append(EncCase(n, cm, hm, T, rnd_key(r), rnd_seed(r), rnd_bytes(r, n), "len=%s" % lencls(n)))
    return res


def lencls(n):
    k, d = divmod(n, CH)
    pad = 16 - n % 16
    if (n + pad) % CH == 0:
        return "padded-is-chunk-multiple"
    if n % 16 == 0:
        return "block-multiple"
    if n < CH:
        return "single-chunk"
    return "multi-chunk"


def split_impl(s):
    """'OK hex | k=v ...' -> (head, {k: v})"""
    if " | " in s:
        head, tail = s.split(" | ", 1)
        kv = dict(x.split("=", 1) for x in tail.split() if "=" in x)
        return head, kv
    return s, {}


def whole_source_runs(ck, lines, impl, limit=None, label="whole-file"):
    """The same enc / dec / ver lines on the TRANSLATED SOURCE ONLY (coq/SrcRun5.v: runcrypt::execute_* with the translated protocol,
    worker threads, cipher modes, header, HMAC and hashes under the thread semantics MiniCConc, a different seed of the scheduler
    function for every line).  lines: ["<id> enc ..." | "<id> dec T key file" | "<id> ver T key file"]; impl: id -> implementation
    output.  A subset is run (the interpreter is ~10^3 x slower): short lines first, plus evenly spaced longer ones.
    Returns the list of (id, line, implementation head, translated-source result) that differ."""
    if limit is None:
        limit = 320 if ck.tier == "thorough" else 56
    cand = [l for l in lines if l.split(" ", 2)[1] in ("enc", "dec", "ver") and len(l) < 6000]
    cand.sort(key=len)
    nshort = limit * 3 // 4
    pick = cand[:nshort]
    rest = cand[nshort:]
    if rest:
        stepk = max(1, len(rest) // max(1, limit - nshort))
        pick += rest[::stepk][:limit - nshort]
    r = ck.rng
    sl = []
    for l in pick:
        cid, op, tail = l.split(" ", 2)
        sl.append("%s @S=%d %s %s" % (cid, r.randrange(1 << 30) if r.random() < 0.8 else 0, "verw" if op == "ver" else op, tail))
    out = wv.run_lines([ck.model_driver(), "src"], sl, shards=wv.NCPU, env=small_env(ck), timeout=1200) if sl else {}
    diffs = []
    for l in pick:
        cid = l.split(" ", 1)[0]
        if cid not in out:
            continue
        head, _ = split_impl(impl.get(cid, "(no output)"))
        if head != out[cid]:
            diffs.append((cid, l, head, out[cid]))
    ck.cov["whole_file_runs_on_translated_source"] = ck.cov.get("whole_file_runs_on_translated_source", 0) + len(out)
    ck.cov["disagreements_source_vs_impl"] = ck.cov.get("disagreements_source_vs_impl", 0) + len(diffs)
    return diffs


def report_whole_source(ck, diffs, label=""):
    """a difference between the implementation and the translated whole-file run is a broken correspondence (no failing input of the
    property by itself): reported when nothing else was found"""
    if diffs and not ck.violations:
        cid, l, head, s = diffs[0]
        ck.violation("correspondence translated-source(whole-file run under MiniCConc)/implementation no longer checks (%d cases differ) but no input violating the property was found" % len(diffs),
                     {"class": None, "broken": "correspondence translated whole-file run vs implementation " + label, "case": l[:3000], "implementation": head[:2000], "translated_source": s[:2000]}, found_input=False)
