"""C09: single-block AES-128 equals FIPS-197 for every key/block; decryption inverts it."""
from props.common import *

THEOREMS = ["C09_encrypt_is_fips197", "C09_decrypt_is_fips197", "C09_decrypt_inverts_encrypt",
            "C09_encrypt_inverts_decrypt", "C09_outputs_are_blocks", "C09_tables_are_fips197"]


def gen_cases(ck):
    r = ck.rng
    big = ck.tier == "thorough"
    cases = []
    Z = bytes(16)

    def add(k, b, cls):
        cases.append(Case("aes e %s %s" % (k.hex(), b.hex()), "aes", "enc/" + cls))
        cases.append(Case("aes d %s %s" % (k.hex(), b.hex()), "aes", "dec/" + cls))
    # FIPS-197 / AESAVS families
    add(bytes.fromhex("2b7e151628aed2a6abf7158809cf4f3c"), bytes.fromhex("3243f6a8885a308d313198a2e0370734"), "fips197-B")
    add(bytes(range(16)), bytes.fromhex("00112233445566778899aabbccddeeff"), "fips197-C1")
    for i in range(0, 128, 1 if big else 5):          # VarTxt / VarKey: leading-ones patterns
        v = ((1 << 128) - 1) ^ ((1 << (127 - i)) - 1)
        add(Z, v.to_bytes(16, "big"), "VarTxt")
        add(v.to_bytes(16, "big"), Z, "VarKey")
    # every S-box / log-table index: all 256 values in every byte position of block and key
    for v in range(256):
        pos = v % 16
        b = bytearray(rnd16(r)); b[pos] = v
        k = bytearray(rnd16(r)); k[(pos * 5 + 3) % 16] = v
        add(bytes(k), bytes(b), "byte-sweep")
        if big:
            add(bytes([v]) * 16, bytes([v ^ 0xFF]) * 16, "byte-sweep-uniform")
    for _ in range(2000 if big else 250):
        add(rnd16(r), rnd16(r), "random")
    # keys containing 0x00 bytes (C-string handling) and 0xFF bytes
    for pos in range(16):
        k = bytearray(b"\x01" * 16 if pos % 2 else rnd16(r))
        k[pos] = 0
        add(bytes(k), rnd16(r), "key-with-zero-byte")
    add(bytes(16), bytes(16), "all-zero")
    add(b"\xff" * 16, b"\xff" * 16, "all-ff")
    return cases


def structured_state_cases(ck):
    """blocks constructed (by running the extracted SPEC backwards) so that the state entering MixColumns in round r has
    an all-zero column / a zero byte in chosen positions / equal bytes: the zero operand is a separate branch of the
    table product Gmul(u,v) = v ? Alog[u+Log[v]] : 0.  Their ciphertexts hit the same states on the decryption side."""
    r = ck.rng
    mdrv = ck.model_driver()
    big = ck.tier == "thorough"
    probes = []
    for rnd in range(1, 10):
        for col in range(4):
            for rep in range(3 if big else 1):
                k = rnd16(r)
                t = bytearray(rnd16(r))
                t[4 * col:4 * col + 4] = bytes(4)
                probes.append((k, bytes(t), rnd, "zero-column"))
        for row in range(4):
            # a whole ROW of the state zero (FIPS layout: index 4*column + row): rows are what the source's u32 words g[i] hold
            k = rnd16(r)
            t = bytearray(rnd16(r))
            for col in range(4):
                t[4 * col + row] = 0
            probes.append((k, bytes(t), rnd, "zero-row"))
        k = rnd16(r)
        t = bytearray(rnd16(r))
        for q in r.sample(range(16), 5):
            t[q] = 0
        probes.append((k, bytes(t), rnd, "zero-bytes"))
        probes.append((rnd16(r), bytes(16), rnd, "zero-state"))
        probes.append((rnd16(r), bytes([r.randrange(256)]) * 16, rnd, "uniform-state"))
    out = wv.run_lines([mdrv], ["q%d aesprobe %s %s %d" % (i, k.hex(), t.hex(), rnd) for i, (k, t, rnd, c) in enumerate(probes)])
    cases = []
    for i, (k, t, rnd, c) in enumerate(probes):
        pt = out.get("q%d" % i)
        if pt and len(pt) == 32:
            cases.append((k, bytes.fromhex(pt), "round%d-%s" % (rnd, c)))
    return cases


def rnd16(r):
    return bytes(r.randrange(256) for _ in range(16))


def oracle(c, impl, spec, model):
    return None if impl == spec else "single-block AES differs from FIPS-197 (%s)" % c.line[:5]


def run(ck):
    ck.prove(["Properties_C09", "Properties_SrcAes"], THEOREMS + ['SRC_aes_block', 'SRC_aes_block_is_fips197'])
    exe = ck.impl_driver()
    cases = gen_cases(ck)
    for k, pt, cls in structured_state_cases(ck):
        cases.append(Case("aes e %s %s" % (k.hex(), pt.hex()), "aes", "enc/structured/" + cls.split("-", 1)[1]))
    # decryption of the spec ciphertexts of the structured plaintexts reaches the same states before InvMixColumns
    scases = [c for c in cases if c.cls.startswith("enc/structured")]
    smap = wv.run_lines([ck.model_driver(), "spec"], ["t%d %s" % (i, c.line) for i, c in enumerate(scases)])
    for i, c in enumerate(scases):
        ct = smap.get("t%d" % i)
        if ct and len(ct) == 32:
            cases.append(Case("aes d %s %s" % (c.line.split()[2], ct), "aes", c.cls.replace("enc/", "dec/")))
    impl, model, spec = differential(ck, exe, cases, oracle, src=True)
    # inverse property on the implementation itself: dec(enc(b)) == b and enc(dec(b)) == b
    r = ck.rng
    lines, meta = [], {}
    for i in range(400 if ck.tier == "thorough" else 80):
        k, b = rnd16(r), rnd16(r)
        lines.append("r%d aes e %s %s" % (i, k.hex(), b.hex()))
        lines.append("q%d aes d %s %s" % (i, k.hex(), b.hex()))
        meta[i] = (k, b)
    out = wv.run_lines([exe], lines, env=ck.env())
    l2 = []
    for i, (k, b) in meta.items():
        l2.append("r%d aes d %s %s" % (i, k.hex(), out.get("r%d" % i, "00")))
        l2.append("q%d aes e %s %s" % (i, k.hex(), out.get("q%d" % i, "00")))
    out2 = wv.run_lines([exe], l2, env=ck.env())
    for i, (k, b) in meta.items():
        ck.cov["evaluations"] += 2
        for tag in ("r", "q"):
            if out2.get("%s%d" % (tag, i)) != b.hex():
                ck.violation("single-block decryption is not the inverse of encryption", {"class": None, "key": k.hex(), "block": b.hex(), "direction": tag, "got": out2.get("%s%d" % (tag, i))})
    ck.cov["optional_openssl_crosscheck"] = openssl_crosscheck(ck, cases)
    return finish_proof(ck, rule="FIPS-197 App. B/C.1 vectors, AESAVS VarTxt/VarKey families, every byte value 0..255 placed in block and key positions (touches every S-box / log-table index), random key/block pairs; both directions; plus dec(enc(b))=b / enc(dec(b))=b on the implementation. distinct = distinct case lines",
                        assumptions=["little-endian host (state_t union aliasing of g[]/s[][])"])


def openssl_crosscheck(ck, cases):
    """optional second oracle for the *spec* when an openssl binary exists (skipped otherwise)"""
    import shutil, subprocess
    exe = shutil.which("openssl") or ("/root/miniconda/bin/openssl" if __import__("os").path.exists("/root/miniconda/bin/openssl") else None)
    if not exe:
        return "skipped (no openssl binary)"
    mdrv = ck.model_driver()
    n = bad = 0
    sub = [c for c in cases if c.line.startswith("aes e")][:40]
    spec = wv.run_lines([mdrv, "spec"], ["s%d %s" % (i, c.line) for i, c in enumerate(sub)])
    for i, c in enumerate(sub):
        w = c.line.split()
        try:
            p = subprocess.run([exe, "enc", "-aes-128-ecb", "-nopad", "-K", w[2]], input=bytes.fromhex(w[3]), stdout=subprocess.PIPE, stderr=subprocess.PIPE, timeout=10)
            if p.returncode != 0:
                return "skipped (openssl failed)"
            n += 1
            if p.stdout.hex() != spec.get("s%d" % i):
                bad += 1
        except Exception:
            return "skipped (openssl error)"
    if bad:
        ck.notes.append("SPEC-MISMATCH with openssl on %d/%d single blocks" % (bad, n))
    return "%d blocks, %d mismatches" % (n, bad)
