"""C09: single-block AES-128 equals FIPS-197 for every key/block; decryption inverts it."""
from props.common import *

THEOREMS = ["C09_encrypt_is_fips197", "C09_decrypt_is_fips197", "C09_decrypt_inverts_encrypt",
            "C09_encrypt_inverts_decrypt", "C09_outputs_are_blocks", "C09_tables_are_fips197"]


def gen_cases(ck):
    r = ck.rng
    big = ck.tier == "thorough"
    cases = []
    Z = bytes(16)

    def add(k, b, cls):
        cases.append(Case("aes e %s %s" % (k.hex(), b.hex()), "aes", "enc/" + cls))
        cases.append(Case("aes d %s %s" % (k.hex(), b.hex()), "aes", "dec/" + cls))
    # FIPS-197 / AESAVS families
    add(bytes.fromhex("2b7e151628aed2a6abf7158809cf4f3c"), bytes.fromhex("3243f6a8885a308d313198a2e0370734"), "fips197-B")
    add(bytes(range(16)), bytes.fromhex("00112233445566778899aabbccddeeff"), "fips197-C1")
    for i in range(0, 128, 1 if big else 5):          # VarTxt / VarKey: leading-ones patterns
        v = ((1 << 128) - 1) ^ ((1 << (127 - i)) - 1)
        add(Z, v.to_bytes(16, "big"), "VarTxt")
        add(v.to_bytes(16, "big"), Z, "VarKey")
    # every S-box / log-table index: all 256 values in every byte position of block and key
    for v in range(256):
        pos = v % 16
        b = bytearray(rnd16(r)); b[pos] = v
        k = bytearray(rnd16(r)); k[(pos * 5 + 3) % 16] = v
        add(bytes(k), bytes(b), "byte-sweep")
        if big:
            add(bytes([v]) * 16, bytes([v ^ 0xFF]) * 16, "byte-sweep-uniform")
    for _ in range(2000 if big else 250):
        add(rnd16(r), rnd16(r), "random")
    # keys containing 0x00 bytes (C-string handling) and 0xFF bytes
    for pos in range(16):
        k = bytearray(b"\x01" * 16 if pos % 2 else rnd16(r))
        k[pos] = 0
        add(bytes(k), rnd16(r), "key-with-zero-byte")
    add(bytes(16), bytes(16), "all-zero")
    add(b"\xff" * 16, b"\xff" * 16, "all-ff")
    return cases


def structured_state_cases(ck):
    """blocks constructed (by running the extracted SPEC backwards) so that the state entering MixColumns in round r has
    an all-zero column / a zero byte in chosen positions / equal bytes: the zero operand is a separate branch of the
    table product Gmul(u,v) = v ? Alog[u+Log[v]] : 0.  Their ciphertexts hit the same states on the decryption side."""
    r = ck.rng
    mdrv = ck.model_driver()
    big = ck.tier == "thorough"
    probes = []
    for rnd in range(1, 10):
        for col in range(4):
            for rep in range(3 if big else 1):
                k = rnd16(r)
                t = bytearray(rnd16(r))
                t[4 * col:4 * col + 4] = bytes(4)
                probes.append((k, bytes(t), rnd, "zero-column"))
        for row in range(4):
            # a whole ROW of the state zero (FIPS layout: index 4*column + row): rows are what the source's u32 words g[i] hold
            k = rnd16(r)
            t = bytearray(rnd16(r))
            for col in range(4):
                t[4 * col + row] = 0
            probes.append((k, bytes(t), rnd, "zero-row"))
        k = rnd16(r)
        t = bytearray(rnd16(r))
        for q in r.sample(range(16), 5):
            t[q] = 0
        probes.append((k, bytes(t), rnd, "zero-bytes"))
        probes.append((rnd16(r), bytes(16), rnd, "zero-state"))
        probes.append((rnd16(r), bytes([r.randrange(256)]) * 16, rnd, "uniform-state"))
    out = wv.run_lines([mdrv], ["q%d aesprobe %s %s %d" % (i, k.hex(), t.hex(), rnd) for i, (k, t, rnd, c) in enumerate(probes)])
    cases = []
    for i, (k, t, rnd, c) in enumerate(probes):
        pt = out.get("q%d" % i)
        if pt and len(pt) == 32:
            cases.append((k, bytes.fromhex(pt), "round%d-%s" % (rnd, c)))
    return cases


def rnd16(r):
    return bytes(r.randrange(256) for _ in range(16))


def oracle(c, impl, spec, model):
    return None if impl == spec else "single-block AES differs from FIPS-197 (%s)" % c.line[:5]


def run(ck):
    ck.prove(["Properties_C09", "Properties_SrcAes"], THEOREMS + ['SRC_aes_block', 'SRC_aes_block_is_fips197'])
    exe = ck.impl_driver()
    cases = gen_cases(ck)
    for k, pt, cls in structured_state_cases(ck):
        cases.append(Case("aes e %s %s" % (k.hex(), pt.hex()), "aes", "enc/structured/" + cls.split("-", 1)[1]))
    # decryption of the spec ciphertexts of the structured plaintexts reaches the same states before InvMixColumns
    scases = [c for c in cases if c.cls.startswith("enc/structured")]
    smap = wv.run_lines([ck.model_driver(), "spec"], ["t%d %s" % (i, c.line) for i, c in enumerate(scases)])
    for i, c in enumerate(scases):
        ct = smap.get("t%d" % i)
        if ct and len(ct) == 32:
            cases.append(Case("aes d %s %s" % (c.line.split()[2], ct), "aes", c.cls.replace("enc/", "dec/")))
    impl, model, spec = differential(ck, exe, cases, oracle, src=True)
    # inverse property on the implementation itself: dec(enc(b)) == b and enc(dec(b)) == b
    r = ck.rng
    lines, meta = [], {}
    for i in range(400 if ck.tier == "thorough" else 80):
        k, b = rnd16(r), rnd16(r)
        lines.append("r%d aes e %s %s" % (i, k.hex(), b.hex()))
        lines.append("q%d aes d %s %s" % (i, k.hex(), b.hex()))
        meta[i] = (k, b)
    out = wv.run_lines([exe], lines, env=ck.env())
    l2 = []
    for i, (k, b) in meta.items():
        l2.append("r%d aes d %s %s" % (i, k.hex(), out.get("r%d" % i, "00")))
        l2.append("q%d aes e %s %s" % (i, k.hex(), out.get("q%d" % i, "00")))
    out2 = wv.run_lines([exe], l2, env=ck.env())
    for i, (k, b) in meta.items():
        ck.cov["evaluations"] += 2
        for tag in ("r", "q"):
            if out2.get("%s%d" % (tag, i)) != b.hex():
                ck.violation("single-block decryption is not the inverse of encryption", {"class": None, "key": k.hex(), "block": b.hex(), "direction": tag, "got": out2.get("%s%d" % (tag, i))})
    related_key_sequences(ck, exe)
    unoptimised_build_runs(ck, [c.line for c in cases if c.cls.split("/")[-1] in ("fips197-B", "fips197-C1", "random")][:60]
                           + ["mode %s %d %s %s %s" % ("ed"[i % 2], i % 5, rnd16(r).hex(), (rnd16(r) + b"abcd").hex(), (rnd16(r) * 3).hex()) for i in range(10)], "single-block AES / mode streams")
    early_and_copied_objects(ck, exe)
    parallel_purity(ck, exe, ["aes %s %s %s" % (r.choice("ed"), rnd16(r).hex(), rnd16(r).hex()) for _ in range(24)], "single-block AES objects with different keys", iters=3000)
    ck.cov["optional_openssl_crosscheck"] = openssl_crosscheck(ck, cases)
    return finish_proof(ck, rule="FIPS-197 App. B/C.1 vectors, AESAVS VarTxt/VarKey families, every byte value 0..255 placed in block and key positions (touches every S-box / log-table index), random key/block pairs; both directions; plus dec(enc(b))=b / enc(dec(b))=b on the implementation. distinct = distinct case lines",
                        assumptions=["little-endian host (state_t union aliasing of g[]/s[][])"])


def openssl_crosscheck(ck, cases):
    """optional second oracle for the *spec* when an openssl binary exists (skipped otherwise)"""
    import shutil, subprocess
    exe = shutil.which("openssl") or ("/root/miniconda/bin/openssl" if __import__("os").path.exists("/root/miniconda/bin/openssl") else None)
    if not exe:
        return "skipped (no openssl binary)"
    mdrv = ck.model_driver()
    n = bad = 0
    sub = [c for c in cases if c.line.startswith("aes e")][:40]
    spec = wv.run_lines([mdrv, "spec"], ["s%d %s" % (i, c.line) for i, c in enumerate(sub)])
    for i, c in enumerate(sub):
        w = c.line.split()
        try:
            p = subprocess.run([exe, "enc", "-aes-128-ecb", "-nopad", "-K", w[2]], input=bytes.fromhex(w[3]), stdout=subprocess.PIPE, stderr=subprocess.PIPE, timeout=10)
            if p.returncode != 0:
                return "skipped (openssl failed)"
            n += 1
            if p.stdout.hex() != spec.get("s%d" % i):
                bad += 1
        except Exception:
            return "skipped (openssl error)"
    if bad:
        ck.notes.append("SPEC-MISMATCH with openssl on %d/%d single blocks" % (bad, n))
    return "%d blocks, %d mismatches" % (n, bad)


def related_key_sequences(ck, exe):
    """cipher objects created one after the other IN ONE PROCESS with related keys / blocks: the same key again, a key equal to the
    previous one up to and including a 0x00 byte, keys differing in one byte, the same block under another key, a block equal to
    the previous output.  Anything remembered across objects (a memoised key schedule, a last-block cache) and looked up by an
    incomplete comparison shows only on such sequences; each line alone is an ordinary case."""
    r = ck.rng
    mdrv = ck.model_driver()
    lines = []
    for s in range(60 if ck.tier == "thorough" else 16):
        k = bytearray(rnd16(r))
        b = rnd16(r)
        seq = []
        kind = s % 4
        if kind == 0:
            j = r.choice([0, 1, 5, 14])
            k[j] = 0
            k2 = bytes(k[:j + 1]) + bytes(r.randrange(256) for _ in range(15 - j))
            seq = [("e", bytes(k), b), ("e", k2, b), ("d", k2, b), ("d", bytes(k), b), ("e", k2, rnd16(r))]
        elif kind == 1:
            k2 = bytearray(k); k2[r.choice([0, 15, r.randrange(16)])] ^= 1 << r.randrange(8)
            seq = [("e", bytes(k), b), ("e", bytes(k2), b), ("e", bytes(k), b), ("d", bytes(k2), b), ("d", bytes(k), b)]
        elif kind == 2:
            seq = [("e", bytes(k), b), ("e", rnd16(r), b), ("d", bytes(k), b), ("d", rnd16(r), b), ("e", bytes(k), b)]
        else:
            seq = [("e", bytes(k), b), ("e", bytes(k), b), ("d", bytes(k), b), ("d", bytes(k), b)]
        for d, kk, bb in seq:
            lines.append("s%d aes %s %s %s" % (len(lines), d, kk.hex(), bb.hex()))
    # blocks equal to the previous OUTPUT (second pass needs the spec's outputs)
    want = wv.run_lines([mdrv, "spec"], lines, shards=1)
    extra = []
    for l in lines[:40]:
        w = l.split()
        o = want.get(w[0])
        if o and len(o) == 32:
            extra.append("%s %s %s %s %s" % (w[0], w[1], w[2], w[3], w[4]))
            extra.append("x%s aes %s %s %s" % (w[0], r.choice("ed"), w[3], o))
    want.update(wv.run_lines([mdrv, "spec"], [l for l in extra if l.startswith("x")], shards=1))
    for name, seqlines in (("related-keys", lines), ("block-equals-previous-output", extra)):
        got = wv.run_lines([exe], seqlines, shards=1, env=ck.env())
        for l in seqlines:
            cid = l.split()[0]
            ck.cov["evaluations"] += 1
            if got.get(cid) != want.get(cid):
                ck.violation("single-block AES differs from FIPS-197 inside a sequence of cipher objects in one process (%s)" % name,
                             {"class": None, "sequence": seqlines[:seqlines.index(l) + 1][-12:], "failing_line": l, "implementation": got.get(cid), "spec": want.get(cid),
                              "replay": "feed the listed lines IN THIS ORDER to ONE process of harness/drv.cpp built against /repo"})
                break
    ck.cov.setdefault("case_classes", {})["sequence/related-keys-and-blocks"] = len(lines) + len(extra)


def early_and_copied_objects(ck, exe):
    """(1) the cipher (and the digests) used DURING STATIC INITIALISATION of the caller's translation unit, which is linked before the
    library's objects (driver: StaticInitProbe, op sinit): tables the library prepares in static initialisers of its own are not
    ready then; (2) a cipher object that was COPIED (by value, as into a container), the copy used and destroyed, the heap churned,
    then the original used (driver op aescopy): a copy must not take anything away from the original."""
    import hashlib
    r = ck.rng
    mdrv = ck.model_driver()
    k, b = bytes(range(16)), bytes(i * 0x11 for i in range(16))
    want = wv.run_lines([mdrv, "spec"], ["e aes e %s %s" % (k.hex(), b.hex()), "d aes d %s %s" % (k.hex(), b.hex())], shards=1)
    exp = " ".join([want.get("e", "?"), want.get("d", "?"), hashlib.sha1(b"abc").hexdigest(), hashlib.md5(b"abc").hexdigest(), hashlib.sha256(b"abc").hexdigest()])
    got = wv.run_lines([exe], ["s sinit"], shards=1, env=dict(ck.env(), WV_SINIT="1")).get("s", "(no output)")
    ck.cov["evaluations"] += 1
    if got != exp:
        ck.violation("single-block AES / digests computed during static initialisation of the calling program differ from the standards",
                     {"class": None, "case": "sinit (key 00..0f, block 00 11 .. ff, digests of 'abc')", "implementation": got, "spec": exp,
                      "replay": "harness/drv.cpp: a global object's constructor encrypts / decrypts one block and hashes 'abc'; echo 'x sinit' | drv prints what it got"})
    lines = []
    for i in range(24 if ck.tier == "thorough" else 8):
        lines.append("c%d aescopy %s %s %s%s" % (i, "ed"[i % 2], rnd16(r).hex(), rnd16(r).hex(), " use-copy" if i % 4 >= 2 else ""))
    want = wv.run_lines([mdrv, "spec"], [l.replace(" aescopy ", " aes ").replace(" use-copy", "") for l in lines], shards=1)
    for l in lines:          # one process per line: the op leaves the process
        cid = l.split()[0]
        out = wv.run_lines([exe], [l], shards=1, env=ck.env())
        g = out.get("__aescopy", out.get(cid, "(no output: the process died)"))
        ck.cov["evaluations"] += 1
        if g != want.get(cid):
            ck.violation("a cipher object (or its copy) gives a wrong block after a COPY was made and one of the two was used, destroyed or replaced",
                         {"class": None, "case": l, "implementation": g, "spec": want.get(cid), "replay": "echo 'x <case>' | harness/drv.cpp built against /repo"})
            break
    ck.cov.setdefault("case_classes", {})["static-initialisation-use/copied-object"] = 1 + len(lines)
