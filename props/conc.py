"""Schedule exploration of the real pipeline under the scheduler shim and trace validation
against the extracted Coq transition system (PipeConc.v).  Shared by C03 / C04 / C14."""
import os
from props.filegen import *


def shim_driver(ck):
    ck.impl_flags = "-DWENCRY_VERIF -DWENCRY_VERIF_BUF_SZ=%d -DWENCRY_VERIF_HBUF_SZ=%d -include harness/shim.h" % (BUF, HBUF)
    return ck.impl_driver(buf=BUF, hbuf=HBUF, extra_flags=["-include", os.path.join(wv.HARNESS, "shim.h")])


def parse_log(path):
    """-> (status, events) ; events = list of (tid, kind, obj, val)"""
    status, evs = "?", []
    try:
        for l in open(path):
            w = l.split()
            if not w:
                continue
            if w[0] == "status":
                status = w[1]
            elif w[0] == "ev":
                evs.append((int(w[1]), int(w[2]), int(w[3]), int(w[4])))
    except OSError:
        status = "NOLOG"
    return status, evs


def window(evs, T=None):
    """the part of the log between the harness markers 20 (before thread creation) and 21 (after the joins):
    list of steps (tid, nenabled, [events]); a spurious wake-up of thread j (event kind 30) is the model's action T+1+j"""
    steps, cur, inside = [], None, False
    for (tid, kind, obj, val) in evs:
        if kind == 30 and inside and T is not None:
            steps.append((T + 1 + tid, obj, []))
            cur = None
            continue
        if kind == 30:
            continue
        if kind == 20:
            inside = True
            continue
        if kind == 21:
            break
        if not inside:
            continue
        if kind == 0:
            cur = (tid, obj, [])
            steps.append(cur)
        elif cur is not None:
            cur[2].append((kind, 999 if obj < 0 else obj, val))
    return steps


def model_log(s):
    """parses the 'log=' field printed by mdrv conc"""
    steps = []
    for part in s.split(";"):
        if not part:
            continue
        f = part.split(",")
        tid, nen = f[0][1:].split("/")
        steps.append((int(tid), int(nen), [tuple(int(x) for x in e.split(":")) for e in f[1:]]))
    return steps


def pipe_input(r, n, ispadding):
    """input for the abstract pipeline; for the decrypt direction the stream must be a multiple of 16 and end in a
    pad byte the tagging transformation leaves valid (byte 15 of a block is never touched by the tag transform)"""
    if ispadding:
        return rnd_bytes(r, n)
    n = max(16, n - n % 16)
    b = bytearray(rnd_bytes(r, n))
    b[-1] = r.randrange(1, 17)
    return bytes(b)


def run_schedules(ck, exe, configs, validate=True):
    """configs: list of (T, ispadding, input bytes, seed, yield_in_cs, policy). Runs each under the shim; compares the
    output with the sequential model; validates the trace against PipeConc when yield_in_cs = 0.
    Returns list of dicts."""
    mdrv = ck.model_driver()
    env = small_env(ck)
    lines, logs = [], {}
    for i, (T, pad, inp, seed, ycs, pol) in enumerate(configs):
        lp = os.path.join(ck.scratch, "sched_%d.log" % i)
        logs[i] = lp
        sp = ",WV_SPURIOUS=%d" % (pol // 10) if pol >= 10 else ""
        lines.append("s%d @WV_SCHED_SEED=%d,WV_YIELD_IN_CS=%d,WV_SCHED_POLICY=%d%s,WV_SCHED_LOG=%s pipe %d %d %s" % (i, seed, ycs, pol % 10, sp, lp, T, 1 if pad else 0, wv.hexs(inp)))
    impl = wv.run_lines([exe], lines, env=env)
    res = []
    mlines = []
    for i, (T, pad, inp, seed, ycs, pol) in enumerate(configs):
        status, evs = parse_log(logs[i])
        steps = window(evs, T)
        sched = ",".join(str(t) for (t, _, _) in steps) or "-"
        res.append({"i": i, "T": T, "ispadding": pad, "n": len(inp), "seed": seed, "yield_in_cs": ycs, "policy": pol,
                    "impl": impl.get("s%d" % i, "(no output)"), "status": status, "steps": steps, "sched": sched, "input": inp})
        if validate and ycs == 0:
            mlines.append("m%d conc %d %d %s %s" % (i, T, 1 if pad else 0, wv.hexs(inp), sched))
        try:
            os.remove(logs[i])
        except OSError:
            pass
    model = wv.run_lines([mdrv], mlines, env=env) if mlines else {}
    # the same schedules replayed on the TRANSLATED protocol functions (Gen/Src_conc.v, regenerated from /repo) under the thread
    # semantics MiniCConc: a subset (the interpreter is slow), shortest schedules first plus a few long ones
    by_len = sorted(mlines, key=len)
    pick = by_len[:100 if ck.tier == "thorough" else 60] + by_len[-4:]
    srcm = wv.run_lines([mdrv, "src"], pick, shards=wv.NCPU, env=env) if pick else {}
    # ... and the executable simulation relation (RefineConcSim.simb: PipeConc state <-> machine state of the translated protocol:
    # program points, buffers, counters, stream positions, held mutexes) evaluated after every step of the same schedules
    simr = wv.run_lines([mdrv, "src"], [l.replace(" conc ", " simrun ", 1) for l in pick[:40 if ck.tier == "thorough" else 24]], shards=wv.NCPU, env=env) if pick else {}
    for r in res:
        r["model"] = model.get("m%d" % r["i"])
        r["srcmodel"] = srcm.get("m%d" % r["i"])
        r["sim"] = simr.get("m%d" % r["i"])
    return res


def validate_trace(r, key="model"):
    """None if the implementation's execution is an execution of the model (same events at every step, same number
    of enabled threads, same output, model terminal), else a description.  key = "model": the hand-written transition system
    PipeConc; key = "srcmodel": the TRANSLATED protocol functions under the thread semantics MiniCConc"""
    m = r.get(key)
    if m is None:
        return None
    if m.startswith("BLOCKED"):
        return "the model cannot follow the implementation's schedule (a thread ran that the model says is blocked)"
    f = dict(x.split("=", 1) for x in m.split()[1:] if "=" in x)
    ms = model_log(f.get("log", ""))
    isteps = r["steps"]
    for k, (a, b) in enumerate(zip(isteps, ms)):
        if a[0] != b[0] or list(a[2]) != list(b[2]):
            return "step %d differs: implementation thread %d events %s, model thread %d events %s" % (k, a[0], a[2], b[0], b[2])
        if a[1] != b[1]:
            return "step %d: %d threads enabled in the implementation, %d in the model" % (k, a[1], b[1])
    if len(isteps) != len(ms):
        return "different number of steps (%d vs %d)" % (len(isteps), len(ms))
    if r["impl"].startswith("OK "):
        if not m.startswith("TERMINAL"):
            return "implementation finished but the model state is not terminal"
        if f.get("out") != r["impl"].split()[1]:
            return "output bytes differ between implementation and model at the end of the same schedule"
    return None


def pipe_expected(inp, T, ispadding):
    """sequential reference of the abstract pipeline with the tagging stream objects (drv.cpp TagMode)"""
    data = bytearray(inp)
    if ispadding:
        p = 16 - len(data) % 16
        data += bytes([p]) * p
    else:
        data = data[:len(data) - len(data) % 16]
    cnt = [0] * T
    out = bytearray()
    nchunks = (len(data) + CH - 1) // CH
    for j in range(nchunks):
        ch = bytearray(data[j * CH:(j + 1) * CH])
        s = j % T
        for b in range(0, len(ch), 16):
            for i in range(8):
                ch[b + i] ^= (s + 1) & 255
            ch[b + 8] ^= cnt[s] & 255
            cnt[s] += 1
        out += ch
    if not ispadding and out:
        pad = out[-1]
        out = out[:len(out) - pad] if pad <= len(data) - (nchunks - 1) * CH else out
    return bytes(out)


def ownership_monitor(evs):
    """independent check of C14 on the implementation's event stream: buffer states are tracked from the recorded
    critical sections; every unsynchronised access must be made by the current owner. Returns None or a description."""
    st = {}          # buffer -> state (0 EMPTY 1 UPDATING 2 READY 3 INV)
    turn = 0
    io_window = None  # buffer the I/O thread is flushing/refilling
    seen_chunks = {}
    for k, (tid, kind, obj, val) in enumerate(evs):
        if kind in (3, 4, 5, 6, 7):
            turn = obj
        if kind == 15:          # set_ready by the I/O thread on buffer `turn`
            if st.get(turn, 0) not in (0, 1):
                return "event %d: the I/O thread changed buffer %d from state %d (only EMPTY/UPDATING may be handed over)" % (k, turn, st.get(turn, 0))
            st[turn] = val
            io_window = None
        elif kind == 18:        # set_update by worker tid-1
            b = tid - 1
            if val == 1 and st.get(b, 0) != 2:
                return "event %d: worker %d moved buffer %d to UPDATING from state %d" % (k, b, b, st.get(b, 0))
            if val == 1:
                st[b] = 1
        elif kind in (1, 2):    # worker reads the cursor / takes an entry
            b = obj
            if tid - 1 != b:
                return "event %d: worker %d touched buffer %d" % (k, tid - 1, b)
            s = st.get(b, 0)
            if kind == 1 and s not in (2, 3):
                return "event %d: worker %d looked at buffer %d while it is %s (owned by the I/O thread)" % (k, b, b, ["EMPTY", "UPDATING"][s])
            if val == 1 and s != 2:
                return "event %d: worker %d took an entry of buffer %d in state %d" % (k, b, b, s)
            if io_window == b:
                return "event %d: worker %d touched buffer %d while the I/O thread is flushing/refilling it" % (k, b, b)
        elif kind == 13:        # an (instrumented) stream object is transforming a block: its worker must own the buffer
            b = tid - 1
            if st.get(b, 0) != 2:
                return "event %d: worker %d transforms a block of buffer %d while it is in state %d (not READY: already handed back)" % (k, b, b, st.get(b, 0))
            if io_window == b:
                return "event %d: worker %d transforms a block of buffer %d while the I/O thread is flushing/refilling it" % (k, b, b)
        elif kind in (4, 6):    # export begin / load begin
            if kind == 6 and val == 1:
                continue        # over: no load happens
            if st.get(obj, 0) not in (0, 1):
                return "event %d: the I/O thread %s buffer %d in state %d (owned by its worker)" % (k, "flushes" if kind == 4 else "refills", obj, st.get(obj, 0))
            io_window = obj
    return None
