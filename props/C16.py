"""C16: base64 codec is RFC 4648; key validator accepts exactly the 24-character encodings of 16-byte values."""
from props.common import *

ALPH = b"ABCDEFGHIJKLMNOPQRSTUVWXYZabcdefghijklmnopqrstuvwxyz0123456789+/"
THEOREMS = ["C16_encode_is_rfc4648", "C16_decode_inverts_encode", "C16_validator_exact",
            "C16_accepted_key_fits_buffer", "C16_printed_key_is_accepted"]


SRC_THEOREMS = ["SRC_b64_encode", "SRC_b64_valid", "SRC_b64_decode", "SRC_b64_encode_is_rfc4648", "SRC_b64_validator_exact"]


def gen_cases(ck):
    r = ck.rng
    big = ck.tier == "thorough"
    cases = []
    import base64
    # encoder: every length 0..50 (all residues mod 3), random content; every sextet value in every position
    for n in list(range(0, 51)) + ([r.randrange(51, 400) for _ in range(40 if big else 6)]):
        for _ in range(6 if big else 2):
            b = bytes(r.randrange(256) for _ in range(n))
            cases.append(Case("b64e " + wv.hexs(b), "b64e", "encode/len%%3=%d" % (n % 3), n > 0))
    for v in range(64):
        for pos in range(4):
            bits = v << (6 * (3 - pos))
            b = bytes([(bits >> 16) & 255, (bits >> 8) & 255, bits & 255])
            cases.append(Case("b64e " + wv.hexs(b), "b64e", "encode/sextet-sweep"))
    for b in (b"\xff\xff\xff", b"\x00\x00\x00", b"\xff", b"\xff\xff", b"\x00", b"\xfb\xef\xbe", b"\xfb\xff"):
        cases.append(Case("b64e " + wv.hexs(b), "b64e", "encode/boundary"))
    # decoder on encodings
    for n in list(range(0, 40)) + [r.randrange(40, 300) for _ in range(20 if big else 4)]:
        for _ in range(4 if big else 2):
            b = bytes(r.randrange(256) for _ in range(n))
            cases.append(Case("b64d " + wv.hexs(base64.b64encode(b)), "b64d", "decode-of-encode/len%%3=%d" % (n % 3), n > 0))
    # decoder on arbitrary alphabet strings (correspondence only where the spec rejects)
    for _ in range(200 if big else 40):
        n = r.randrange(0, 30)
        s = bytes(r.choice(ALPH) for _ in range(n)) + b"=" * r.randrange(0, 3)
        cases.append(Case("b64d " + wv.hexs(s), "b64d", "decode/arbitrary-alphabet", n > 0))
    # validator + key decode
    def rnd_alpha(n):
        return bytes(r.choice(ALPH) for _ in range(n))
    for _ in range(60 if big else 15):
        k = bytes(r.randrange(256) for _ in range(16))
        s = base64.b64encode(k)
        cases.append(Case("b64v " + wv.hexs(s), "b64v", "key/valid"))
        cases.append(Case("key " + wv.hexs(s), "key", "key/valid"))
    for npad in range(0, 5):
        for _ in range(30 if big else 8):
            s = rnd_alpha(24 - npad) + b"=" * npad
            cases.append(Case("b64v " + wv.hexs(s), "b64v", "key/24chars-%dpad" % npad))
            cases.append(Case("key " + wv.hexs(s), "key", "key/24chars-%dpad" % npad))
    for L in (0, 4, 8, 16, 20, 23, 25, 28, 32):
        for npad in (0, 1, 2):
            if L >= npad:
                s = rnd_alpha(L - npad) + b"=" * npad
                cases.append(Case("b64v " + wv.hexs(s), "b64v", "key/len%d" % L))
                cases.append(Case("key " + wv.hexs(s), "key", "key/len%d" % L))
    for nb in (13, 14, 15, 17, 18):
        s = base64.b64encode(bytes(r.randrange(256) for _ in range(nb)))
        cases.append(Case("b64v " + wv.hexs(s), "b64v", "key/encoding-of-%d-bytes" % nb))
        cases.append(Case("key " + wv.hexs(s), "key", "key/encoding-of-%d-bytes" % nb))
    for _ in range(80 if big else 20):
        s = bytearray(base64.b64encode(bytes(r.randrange(256) for _ in range(16))))
        kind = r.randrange(4)
        pos = r.randrange(24)
        if kind == 0:
            s[pos] = ord("=")                       # '=' in the middle
        elif kind == 1:
            s[pos] = r.choice([0x20, 0x2d, 0x5f, 0x2e, 0x00 + 1, 0x7f, 0x80, 0xc3, 0xfe, 0xff])
        elif kind == 2:
            s[pos] = r.randrange(1, 256)
        else:
            s[22] = r.choice(ALPH)                  # only one pad
        cases.append(Case("b64v " + wv.hexs(bytes(s)), "b64v", "key/mutated"))
        cases.append(Case("key " + wv.hexs(bytes(s)), "key", "key/mutated"))
    return cases


def oracle(c, impl, spec, model):
    if c.kind == "b64e":
        return None if impl == spec else "encoder output differs from RFC 4648 (+NUL)"
    if c.kind == "b64d":
        if spec.startswith("OK") and c.cls.startswith("decode-of-encode"):
            return None if impl == spec else "decoding does not invert encoding"
        return None
    if c.kind == "b64v":
        return None if impl == spec else "key validator verdict differs from 'is a 24-character encoding of a 16-byte value'"
    if c.kind == "key":
        if impl.startswith("OVERFLOW"):
            return "accepted key decodes to more than 16 bytes (writes past the 16-byte key buffer): " + impl
        if spec.startswith("OK"):
            return None if impl == spec else "valid key text rejected or decoded to a different key"
        return None if impl == "REJECT" else "key text that is not an encoding of 16 bytes was accepted"
    return None


def exempt(c, impl, model):
    # inputs on which the C++ reads outside hex_tab (undefined behaviour) are not compared
    return model == "OOB" or (c.kind == "key" and model == "BAD")


def src_norm(c, impl, src):
    """implementation vs translated source: inputs on which the translated source reports undefined behaviour (reads
    outside hex_tab, writes past the key buffer) are compared only by the fact, not by what the C++ happened to do"""
    if src.startswith("ERR UB") or src.startswith("OVERFLOW"):
        if c.kind == "key":
            return ("OVERFLOW" if impl.startswith("OVERFLOW") else "UB-any", "OVERFLOW" if src.startswith("OVERFLOW") else "UB-any")
        return ("UB", "UB")
    return impl, src


def run(ck):
    ck.prove(["Properties_C16", "Properties_SrcB64"], THEOREMS + SRC_THEOREMS)
    exe = ck.impl_driver()
    cases = gen_cases(ck)
    differential(ck, exe, cases, oracle, corr_exempt=exempt, src=True, src_norm=src_norm)
    locale_runs(ck)
    return finish_proof(ck, rule="encoder: all lengths 0..50 x random content + every sextet value in every symbol position; decoder: encodings of all lengths 0..39 and random alphabet strings; validator/key: 24-char strings with 0..4 pads, other lengths, encodings of 13..18 bytes, mutated valid keys (pad in the middle, non-alphabet bytes incl. >=128). distinct = distinct case lines",
                        assumptions=["isalnum evaluated in the C locale: the program never calls setlocale -- tested by running the real binary under an 8-bit locale (locale_runs)"])


def locale_runs(ck):
    """the key validator classifies characters with isalnum, which follows the process locale: the REAL binary (main.cpp included) is
    started under a synthetic single-byte locale in which 0xC0..0xFE are letters, with 24-character key texts containing such
    bytes; every one must be refused (the program must not depend on the user's LC_CTYPE / LANG)"""
    import os, shutil, subprocess
    if not shutil.which("localedef"):
        ck.notes.append("locale_runs skipped: no localedef")
        return
    try:
        cli = ck.impl_driver(kind="cli")
    except wv.BuildError as e:
        ck.notes.append("locale_runs skipped: CLI build failed: " + str(e)[-200:])
        return
    d = os.path.join(ck.scratch, "loc")
    os.makedirs(d)
    with open(os.path.join(d, "L1.charmap"), "w") as f:
        f.write("<code_set_name> L1\n<comment_char> %\n<escape_char> /\n<mb_cur_min> 1\n<mb_cur_max> 1\nCHARMAP\n")
        for i in range(256):
            f.write("<U%04X> /x%02x\n" % (i, i))
        f.write("END CHARMAP\n")
    up = list(range(0x41, 0x5b)) + [i for i in range(0xC0, 0xDF) if i != 0xD7]
    lo = list(range(0x61, 0x7b)) + [i for i in range(0xE0, 0xFF) if i != 0xF7]
    L = lambda xs: ";".join("<U%04X>" % x for x in xs)
    with open(os.path.join(d, "xx_XX.src"), "w") as f:
        f.write("comment_char %\nescape_char /\nLC_CTYPE\n")
        f.write("upper " + L(up) + "\nlower " + L(lo) + "\n")
        f.write("digit " + L(range(0x30, 0x3a)) + "\n")
        f.write("space " + L([0x20, 9, 10, 11, 12, 13]) + "\n")
        f.write("cntrl " + L(list(range(0, 0x20)) + [0x7f]) + "\n")
        f.write("punct " + L([i for i in range(0x21, 0x7f) if not chr(i).isalnum()]) + "\n")
        f.write("xdigit " + L(list(range(0x30, 0x3a)) + list(range(0x41, 0x47)) + list(range(0x61, 0x67))) + "\n")
        f.write("blank " + L([0x20, 9]) + "\n")
        f.write("toupper " + ";".join("(<U%04X>,<U%04X>)" % (l, u) for l, u in zip(lo, up)) + "\n")
        f.write("tolower " + ";".join("(<U%04X>,<U%04X>)" % (u, l) for l, u in zip(lo, up)) + "\n")
        f.write("END LC_CTYPE\n")
    os.makedirs(os.path.join(d, "lp"))
    subprocess.run(["localedef", "-c", "-f", os.path.join(d, "L1.charmap"), "-i", os.path.join(d, "xx_XX.src"), os.path.join(d, "lp", "xx_XX.L1")], capture_output=True)
    if not os.path.exists(os.path.join(d, "lp", "xx_XX.L1", "LC_CTYPE")):
        ck.notes.append("locale_runs skipped: the test locale could not be built")
        return
    open(os.path.join(d, "plain"), "wb").write(bytes(range(100)))
    good = b"ABEiM0RVZneImaq7zN3u/w=="
    keys = [(good, True)]
    r = ck.rng
    for _ in range(10):
        k = bytearray(good)
        for pos in r.sample(range(22), r.choice([1, 1, 2, 22])):
            k[pos] = r.choice(up[26:] + lo[26:])
        keys.append((bytes(k), False))
    n = 0
    for loc in ("C", "xx_XX.L1"):
        for key, want in keys:
            env = dict(os.environ, LOCPATH=os.path.join(d, "lp"), LC_CTYPE=loc)
            env.pop("LC_ALL", None)
            env.pop("LANG", None)
            try:
                p = subprocess.run([cli, "-e", "-n", "-i", "plain", "-o", "enc.out", "-k", key], cwd=d, env=env, stdin=subprocess.DEVNULL, stdout=subprocess.PIPE, stderr=subprocess.STDOUT, timeout=30)
            except (subprocess.TimeoutExpired, ValueError):
                continue
            n += 1
            ck.cov["evaluations"] += 1
            accepted = p.returncode == 0
            if accepted != want:
                ck.violation("under LC_CTYPE=%s the real binary %s the key text %r (a %s 24-character text)" % (loc, "accepted" if accepted else "refused", key, "well-formed" if want else "non-base64"),
                             {"class": None, "key_text_hex": key.hex(), "LC_CTYPE": loc, "exit": p.returncode, "output_tail": p.stdout.decode("latin-1")[-300:],
                              "replay": "build the Wencry binary from /repo; LOCPATH=<dir with a single-byte locale in which 0xC0..0xFE are letters> LC_CTYPE=xx_XX.L1 ./Wencry -e -n -i plain -o out -k <key text>"})
    ck.cov["runs_under_8bit_locale"] = n
