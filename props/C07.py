"""C07: SHA-1 / MD5 / SHA-256 digests are the standard ones for every message, both entry points."""
import hashlib
from props.common import *

THEOREMS = ["C07_string_digest_is_standard", "C07_file_digest_is_standard", "C07_counter_is_64_bit"]
HBUF = 4  # 64-byte units per refill in the small-buffer build
PY = {0: hashlib.sha1, 1: hashlib.md5, 2: hashlib.sha256}


def gen_cases(ck):
    r = ck.rng
    big = ck.tier == "thorough"
    cases = []
    lens = list(range(0, 200 if not big else 700))
    refill = 64 * HBUF
    for k in range(1, 4):
        lens += [k * refill + d for d in (-65, -64, -9, -8, -1, 0, 1, 55, 56, 63, 64)]
    lens = sorted(set(l for l in lens if l >= 0))
    for n in lens:
        b = bytes(r.randrange(256) for _ in range(n))
        for alg in (0, 1, 2):
            cls = "len%%64=%s" % ("<56" if n % 64 < 56 else ">=56")
            if big or n < 130 or n % 64 in (0, 1, 54, 55, 56, 57, 63) or r.random() < 0.25:
                cases.append(Case("hstr %d %s" % (alg, wv.hexs(b)), "hstr", "string/" + cls, True))
            cases.append(Case("hfile %d %d - %s" % (HBUF, alg, wv.hexs(b)), "hfile", "file/" + cls + ("/refill" if n >= refill else ""), True))
            if n % 7 == 0 or n % 64 in (55, 56, 63, 0):
                pre = bytes(r.randrange(256) for _ in range(64))
                cases.append(Case("hfile %d %d %s %s" % (HBUF, alg, wv.hexs(pre), wv.hexs(b)), "hfile", "file+prefix/" + cls, True))
    # messages whose consecutive 64-byte blocks are RELATED (state kept from one block to the next - a remembered message
    # schedule, a shortcut for repeated blocks - only shows on these): each block is a function of the previous one
    def bswap(b, w):
        return b"".join(b[i:i + w][::-1] for i in range(0, len(b), w))
    fns = {"same": lambda b: b, "bswap32": lambda b: bswap(b, 4), "bswap64": lambda b: bswap(b, 8), "zero": lambda b: bytes(64), "reversed": lambda b: b[::-1],
           "complement": lambda b: bytes(x ^ 0xFF for x in b), "rot4": lambda b: b[4:] + b[:4], "pad-like": lambda b: b"\x80" + bytes(55) + (512 * 1).to_bytes(8, "big")}
    for rep in range(6 if big else 2):
        for names in [[n] * 3 for n in sorted(fns)] + [r.sample(sorted(fns), 3) for _ in range(4)]:
            blk = bytes(r.randrange(256) for _ in range(64))
            msg = blk
            for nm in names:
                blk = fns[nm](blk)
                msg += blk
            tail = r.choice([0, 0, 1, 55, 56, 63])
            msg += blk[:tail]
            for alg in (0, 1, 2):
                if r.random() < 0.5:
                    cases.append(Case("hstr %d %s" % (alg, wv.hexs(msg)), "hstr", "string/related-blocks", True))
                else:
                    cases.append(Case("hfile %d %d - %s" % (HBUF, alg, wv.hexs(msg)), "hfile", "file/related-blocks", True))
    for b in (b"abc", b"", b"a" * 1000, b"\x00" * 56, b"\xff" * 119, b"\x80" * 64):
        for alg in (0, 1, 2):
            cases.append(Case("hstr %d %s" % (alg, wv.hexs(b)), "hstr", "string/fixed-vectors", True))
    return cases


def pyref(c):
    w = c.line.split()
    if w[0] == "hstr":
        return PY[int(w[1])](bytes.fromhex("" if w[2] == "-" else w[2])).hexdigest()
    pre = b"" if w[3] == "-" else bytes.fromhex(w[3])
    return PY[int(w[2])](pre + bytes.fromhex("" if w[4] == "-" else w[4])).hexdigest()


def make_oracle(ck):
    def oracle(c, impl, spec, model):
        ref = pyref(c)
        if spec != ref:
            ck.notes.append("SPEC-MISMATCH with hashlib on %s" % c.line[:80])
            return "the Coq spec disagrees with hashlib (spec error, not an implementation fault): %s vs %s" % (spec, ref)
        return None if impl == spec else "digest differs from the FIPS 180-4 / RFC 1321 value"
    return oracle


def big_message_cases(ck, exe):
    """>= 2^29-byte messages (bit length >= 2^32) streamed from a sparse file, production constants not needed"""
    import os, subprocess
    res = []
    # bit length >= 2^32 (all three), and byte length >= 2^32 (one algorithm: ~40 s) when the proof is broken or VERIF_HUGE=1
    sizes = [((1 << 29) + 3, (0, 1, 2))]
    if not ck.proof_ok or os.environ.get("VERIF_HUGE") == "1":
        sizes.append(((1 << 32) + 100, (1,)))
    for n, algs in sizes:
        path = os.path.join(ck.scratch, "big_%d.bin" % n)
        with open(path, "wb") as f:
            f.truncate(n)
        for alg in algs:
            h = PY[alg]()
            z = b"\x00" * (1 << 22)
            left = n
            while left:
                k = min(left, len(z))
                h.update(z[:k])
                left -= k
            res.append((alg, path, n, h.hexdigest()))
    return res


def run(ck):
    ck.prove(["Properties_C07", "Properties_SrcHash"], THEOREMS + ["SRC_hash_string", "SRC_hash_file", "SRC_hash_string_is_standard", "SRC_hash_file_is_standard"])
    exe = ck.impl_driver(buf=4, hbuf=HBUF)
    ck.impl_flags = "-DWENCRY_VERIF -DWENCRY_VERIF_BUF_SZ=4 -DWENCRY_VERIF_HBUF_SZ=%d" % HBUF
    cases = gen_cases(ck)
    differential(ck, exe, cases, make_oracle(ck), src=True)
    object_reuse(ck, exe)
    # the file entry point reading from a PIPE (not seekable, short reads): every length residue, all three algorithms
    pl, pw = [], {}
    rr = ck.rng
    for j, n in enumerate([0, 1, 37, 63, 64, 65, 100, 255, 256, 257, 64 * HBUF - 1, 64 * HBUF, 64 * HBUF + 1, 3 * 64 * HBUF + 57, 1000]):
        m = bytes(rr.randrange(256) for _ in range(n))
        for alg in (0, 1, 2):
            cid = "p%d_%d" % (j, alg)
            pl.append("%s hpipe %d %s" % (cid, alg, wv.hexs(m)))
            pw[cid] = PY[alg](m).hexdigest()
    po = wv.run_lines([exe], pl, env=ck.env())
    for l in pl:
        cid = l.split()[0]
        ck.cov["evaluations"] += 1
        if po.get(cid) != pw[cid]:
            ck.violation("digest of a message read from a pipe (file entry point, input not seekable) differs from the standard value",
                         {"class": None, "case": l[:3000], "implementation": po.get(cid), "spec": pw[cid], "replay": "echo 'x <case>' | harness/drv.cpp built against /repo"})
            break
    ck.cov.setdefault("case_classes", {})["file-entry-point-from-a-pipe"] = len(pl)
    r = ck.rng
    parallel_purity(ck, exe, ["hstr %d %s" % (i // 4 % 3, bytes(r.randrange(256) for _ in range(r.choice([3, 55, 56, 64, 100, 130]))).hex()) for i in range(24)], "digests (same algorithm, different messages)", iters=1500)
    # the 2^32-bit counter: one message of 2^29+3 zero bytes per algorithm through the file entry point
    # (implementation vs hashlib; the model side is covered by theorem C07_counter_is_64_bit)
    for alg, path, n, ref in (big_message_cases(ck, exe) if (ck.tier == "thorough" or not ck.proof_ok) else []):
        out = wv.run_lines([exe], ["b hfilep %d %s" % (alg, path)], shards=1, env=ck.env())
        got = out.get("b", "(no output)")
        ck.cov["evaluations"] += 1
        if got != ref:
            ck.violation("digest of a %d-byte message (bit length >= 2^32) differs from the standard value" % n,
                         {"class": None, "case": "hfilep %d <sparse file of %d zero bytes>" % (alg, n), "implementation": got, "spec": ref})
    return finish_proof(ck, rule="every length 0..199 (thorough: 0..699) and lengths around multiples of the refill size (256 bytes here), x 3 algorithms x {string, file, file with 64-byte prefix block}; random content from the seeded PRNG; plus one 2^29+3-byte message per algorithm; spec cross-checked against Python hashlib on every case. distinct = distinct case lines",
                        assumptions=["little-endian host (u32 view of the message block)"])


def object_reuse(ck, exe):
    """ONE hasher object digests several messages one after the other (string and file entry points mixed), and digests written
    into the message's own buffer (in place, overlapping its head or tail): each answer must be the standard digest of that message
    alone.  What an earlier digest leaves in the object (a scratch block, a counter) shows only in such a sequence."""
    r = ck.rng
    lines, want = [], {}
    lens = [0, 1, 31, 32, 54, 55, 56, 57, 60, 62, 63, 64, 65, 100, 119, 120, 127, 128, 200, 64 * HBUF - 1, 64 * HBUF, 64 * HBUF + 57]
    for s in range(90 if ck.tier == "thorough" else 30):
        alg = s % 3
        items, exp = [], []
        for j in range(r.randrange(2, 6)):
            n = r.choice(lens) if j else r.choice([5, 40, 64, 100, 300])
            m = bytes(r.randrange(256) for _ in range(n))
            kind = r.choice("ssfi")
            if kind == "i":
                hl = PY[alg]().digest_size
                off = r.choice([0, max(0, n - hl), max(0, n - hl // 2), n // 2, n])
                items.append("i,%s,%d" % (wv.hexs(m) if m else "", off) if m else "s,")
            else:
                items.append("%s,%s" % (kind, wv.hexs(m) if m else ""))
            exp.append(PY[alg](m).hexdigest())
        lines.append("q%d hseq %d %s" % (s, alg, ";".join(items)))
        want["q%d" % s] = " ".join(exp)
    got = wv.run_lines([exe], lines, env=ck.env())
    for l in lines:
        cid = l.split()[0]
        ck.cov["evaluations"] += 1
        if got.get(cid) != want[cid]:
            g, w = (got.get(cid) or "(no output)").split(" "), want[cid].split(" ")
            k = next((i for i in range(len(w)) if i >= len(g) or g[i] != w[i]), 0)
            ck.violation("digest %d of a sequence computed by ONE hasher object (or written into the message's own buffer) differs from the standard digest of that message" % k,
                         {"class": None, "case": l[:3000], "item_index": k, "implementation": g[k] if k < len(g) else "(missing)", "spec": w[k], "replay": "echo 'x <case>' | harness/drv.cpp built against /repo"})
    ck.cov.setdefault("case_classes", {})["hasher-object-reused/in-place-result"] = len(lines)
