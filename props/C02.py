"""C02: the encrypted file equals the documented format built from standard primitives."""
from props.filegen import *

THEOREMS = ["C02_encrypted_file_is_documented_format", "C02_write_sequence"]


def run(ck):
    ck.prove(["Properties_C02", "Properties_Src2", "Properties_SrcE2Ef", "Properties_SrcE2Ef_cor", "SrcRun5"], THEOREMS + ["SRC_header", "SRC_execute_encrypt_is_model", "SRC_encrypted_file_is_documented_format"])   # SrcRun5: the translated whole-file runs (a stale translation concerns this property)
    exe = small_driver(ck)
    env = small_env(ck)
    mdrv = ck.model_driver()
    big = ck.tier == "thorough"
    cases = enc_cases(ck, 0, exhaustive_lengths=True) if big else enc_cases(ck, 140)
    lines = ["e%d %s" % (i, c.line()) for i, c in enumerate(cases)]
    impl = wv.run_lines([exe], lines, env=env)
    impl_again = wv.run_lines([exe], lines[::5], env=env)     # determinism: same (P,key,modes,seed,T) twice
    spec = wv.run_lines([mdrv, "spec"], lines, env=env)
    model = wv.run_lines([mdrv], lines, env=env)
    # the header + IV area as the TRANSLATED SOURCE writes it (FileHeader(...), runcrypt::prepare_IV under MiniC)
    hlines = ["e%d hdr %d %d %d %s %s" % (i, c.T, c.cm, c.hm, c.key.hex(), c.seed.hex()) for i, c in enumerate(cases)]
    srch = wv.run_lines([mdrv, "src"], hlines, shards=wv.NCPU, env=env)
    ck.cov["src_evaluations"] = len(srch)
    srcbad = 0
    dist = ck.cov.setdefault("case_classes", {})
    distinct, corr, last = set(), 0, None
    for i, c in enumerate(cases):
        ck.cov["evaluations"] += 1
        dist[c.cls] = dist.get(c.cls, 0) + 1
        distinct.add((c.n, c.cm, c.hm, c.T))
        head, kv = split_impl(impl.get("e%d" % i, "(no output)"))
        sp = spec.get("e%d" % i, "(no output)")
        rep = {"class": None, "case": c.line(), "case_class": c.cls, "n": c.n, "cmode": c.cm, "hmode": c.hm, "T": c.T, "chunk_bytes": CH,
               "driver_flags": ck.impl_flags, "implementation": head[:600], "spec": sp[:600], "model": model.get("e%d" % i, "")[:600]}
        want_len = 48 + 20 * c.T + 16 * (c.n // 16 + 1)
        if head != sp:
            ck.violation("encrypted file differs from the documented format (independent spec wenc_spec), n=%d cmode=%d hmode=%d T=%d" % (c.n, c.cm, c.hm, c.T), rep)
        elif (len(head.split()[1]) // 2 if head.startswith("OK ") else -1) != want_len:
            ck.violation("encrypted file length is not 48+20T+16(floor(n/16)+1)", rep)
        elif kv.get("inmod") != "0":
            ck.violation("encryption modified its input file", rep)
        elif "e%d" % i in impl_again and split_impl(impl_again["e%d" % i])[0] != head:
            ck.violation("two encryptions with identical (plaintext, key, modes, seed, T) produced different files", rep)
        else:
            if c.n >= 16 and c.cm != 0 and not c.cls.startswith(("related-blocks", "constant-chunks", "aes-structured")):
                # (plaintexts CONSTRUCTED from the cipher's own outputs can legitimately contain a block equal to its ciphertext block -
                #  CBC: P0 = IV gives C0 = E(0), P1 = C0 gives C1 = E(0) = P1 - so the scan is for unrelated data only)
                # structural reading of 'no untransformed plaintext' is the theorem; this scan is a test
                f = bytes.fromhex(head.split()[1])
                body = f[48 + 20 * c.T:]
                if any(c.plain[o:o + 16] == body[o:o + 16] for o in range(0, c.n - 15, 16)):
                    ck.violation("an aligned 16-byte plaintext block appears unchanged in the ciphertext body", rep)
            if head != model.get("e%d" % i):
                corr += 1
                last = rep
            sh = srch.get("e%d" % i)
            if sh is not None and head.startswith("OK "):
                f = head.split()[1]
                hl = 2 * (48 + 20 * c.T)
                want = f[:20] + "00" * 38 + f[96:hl]
                if sh != want:
                    srcbad += 1
                    corr += 1
                    last = dict(rep, translated_source_header=sh[:400], implementation_header_with_zero_tag=want[:400])
        if len(ck.cov["samples"]) < 6:
            ck.cov["samples"].append({"n": c.n, "cmode": c.cm, "hmode": c.hm, "T": c.T, "class": c.cls, "file_prefix": head[:100], "equals_spec": head == sp})
    ck.cov["distinct_nontrivial"] = len(distinct)
    ck.cov["disagreements_model_vs_impl"] = corr
    ck.cov["disagreements_source_vs_impl"] = srcbad
    report_whole_source(ck, whole_source_runs(ck, lines, impl), "C02")
    if corr and not ck.violations:
        last["broken"] = "correspondence enc model vs implementation"
        ck.violation("correspondence model/implementation no longer checks (%d cases) although the output equals the spec" % corr, last, found_input=False)
    # the size ANNOUNCED to execute_encrypt is progress information only (0 = unknown): the file must not depend on it; and a caller may have
    # used the input stream before (size taken with fseek/ftell, a few bytes peeked and rewound): path-based driver op on REAL files
    import os
    al, aw = [], {}
    picks = [c for c in cases if 0 < c.n][:: max(1, len(cases) // (10 if big else 5))][: 10 if big else 5]
    for j, c in enumerate(picks):
        for ann in (0, c.n + 4000, max(0, c.n - 17)):
            cid = "an%d_%d" % (j, ann)
            al.append("%s %s fsize=%d" % (cid, c.line(), ann))
            aw[cid] = (c, ann)
    ao = wv.run_lines([exe], al, env=small_env(ck))
    asp = wv.run_lines([ck.model_driver(), "spec"], ["s%d %s" % (j, c.line()) for j, c in enumerate(picks)], env=small_env(ck))
    for j, c in enumerate(picks):
        pin, pout = os.path.join(ck.scratch, "real%d.in" % j), os.path.join(ck.scratch, "real%d.wenc" % j)
        open(pin, "wb").write(c.plain)
        al.append("rp%d encp %d %d %d %s %s %s %s" % (j, c.cm, c.hm, c.T, c.key.hex(), (c.seed or b"s").hex(), pin, pout))
    ao.update(wv.run_lines([exe], [l for l in al if l.startswith("rp")], env=small_env(ck)))
    for j, c in enumerate(picks):
        want = asp.get("s%d" % j, "(no spec)")
        ck.cov["evaluations"] += 1
        got = "(no file)"
        try:
            got = "OK " + open(os.path.join(ck.scratch, "real%d.wenc" % j), "rb").read().hex()
        except OSError:
            pass
        if c.seed and ao.get("rp%d" % j) == "OK -" and got != want:
            ck.violation("encryption of a REAL file whose stream the caller had used before (size taken with fseek/ftell) differs from the documented format, n=%d cmode=%d T=%d" % (c.n, c.cm, c.T),
                         {"class": None, "case": "encp " + c.line()[4:600], "implementation": got[:600], "spec": want[:600], "driver_flags": ck.impl_flags,
                          "replay": "write the plaintext to a file; harness/drv.cpp: 'x encp cm hm T key seed in out' (the driver measures the size with fseek/ftell on the same stream first)"})
            break
    for cid, (c, ann) in aw.items():
        j = picks.index(c)
        head = split_impl(ao.get(cid, "(no output)"))[0]
        ck.cov["evaluations"] += 1
        if head != asp.get("s%d" % j):
            ck.violation("the encrypted file depends on the size ANNOUNCED to execute_encrypt (announced %d, real %d): it differs from the documented format" % (ann, c.n),
                         {"class": None, "case": c.line()[:2000] + " fsize=%d" % ann, "announced_size": ann, "implementation": head[:600], "spec": asp.get("s%d" % j, "")[:600], "driver_flags": ck.impl_flags,
                          "replay": "echo 'x <case>' | harness/drv.cpp built with the flags above against /repo"})
            break
    dist["announced-size-varied/real-file"] = len(al)
    # the same question under SEEDED SCHEDULES of the real threads (scheduler shim): the file must be the documented one whatever
    # the interleaving of workers and I/O thread (determinism of the format; the all-schedules statement is C03's theorem)
    from props import C03
    from props.conc import shim_driver
    flags = ck.impl_flags
    C03.end_to_end(ck, shim_driver(ck), 60 if big else 24)
    ck.impl_flags = flags
    ck.cov["encryptions_under_seeded_schedules"] = 60 if big else 24
    if ck.tier == "thorough":
        production_scale(ck)     # 40 MiB and > 4 GiB with the production constants (props/filegen.py)
    return finish_proof(ck, rule=("every length 0..%d" % (5 * CH + 1) if big else "140 cases, lengths k*chunk+{-17..1} and block boundaries first") +
                        " with 64-byte chunks, all 15 (cmode,hmode), T in {1,2,3,4,5,16}, seeds of 1..255 bytes (incl. lengths 55/56/63/64/119/120), random keys; output compared byte-for-byte with the extracted independent spec; every 5th case encrypted twice; input file compared before/after. distinct = distinct (n,cmode,hmode,T)",
                        assumptions=["real-thread runs explore one OS schedule each (all schedules: C03)", "the seed is the C string up to the first NUL"])
