"""C14: chunk buffers are handed over exclusively between worker and I/O thread."""
import os
from props import C03
from props.conc import *

THEOREMS = ["C14_exclusive_hand_over", "C14_token_moves", "C14_workers_touch_only_their_buffer", "C14_protocol_text_is_the_modelled_one"]


def run(ck):
    ck.prove(["Properties_C14", "SrcRun4", "RefineConcSimEx", "Properties_SrcConc", "Properties_SrcConc2"], THEOREMS + ["SRC_protocol_follows_PipeConc", "SRC_protocol_machine_is_followed_by_PipeConc"])
    exe = shim_driver(ck)
    big = ck.tier == "thorough"
    env = small_env(ck)
    r = ck.rng
    cfg = C03.configs(ck, 2500 if big else 350)
    # run with event logs kept for the monitor
    lines, logs = [], {}
    for i, (T, pad, inp, seed, ycs, pol) in enumerate(cfg):
        lp = os.path.join(ck.scratch, "mon_%d.log" % i)
        logs[i] = lp
        sp = ",WV_SPURIOUS=%d" % (pol // 10) if pol >= 10 else ""
        lines.append("s%d @WV_SCHED_SEED=%d,WV_YIELD_IN_CS=%d,WV_SCHED_POLICY=%d%s,WV_SCHED_LOG=%s pipe %d %d %s" % (i, seed, ycs, pol % 10, sp, lp, T, 1 if pad else 0, wv.hexs(inp)))
    impl = wv.run_lines([exe], lines, env=env)
    dist = ck.cov.setdefault("case_classes", {})
    distinct = set()
    nev = 0
    for i, (T, pad, inp, seed, ycs, pol) in enumerate(cfg):
        ck.cov["evaluations"] += 1
        status, evs = parse_log(logs[i])
        try:
            os.remove(logs[i])
        except OSError:
            pass
        nev += len(evs)
        cls = "T=%d/%s" % (T, "enc" if pad else "dec")
        dist[cls] = dist.get(cls, 0) + 1
        distinct.add((T, pad, len(inp), tuple(e[0] for e in evs if e[1] == 0)))
        v = ownership_monitor(evs)
        if v:
            ck.violation("ownership monitor: " + v, {"class": None, "T": T, "ispadding": pad, "input_hex": inp.hex(), "sched_seed": seed, "yield_in_cs": ycs, "policy": pol, "implementation": impl.get("s%d" % i, "")[:200],
                                                     "driver_flags": ck.impl_flags, "events_tail": evs[-40:], "replay": "x @WV_SCHED_SEED=%d,WV_YIELD_IN_CS=%d,WV_SCHED_POLICY=%d%s pipe %d %d <input hex> fed to harness/drv.cpp built with -include harness/shim.h" % (seed, ycs, pol % 10, sp, T, 1 if pad else 0)})
        if len(ck.cov["samples"]) < 4:
            ck.cov["samples"].append({"T": T, "direction": "enc" if pad else "dec", "input_len": len(inp), "events": len(evs), "first_events": evs[:12], "monitor": v or "ok"})
    ck.cov["distinct_nontrivial"] = len(distinct)
    ck.cov["events_monitored"] = nev
    # trace validation ties the same executions to the model the theorem is about
    # ... and "every chunk is given to the worker that owns its position, in file order": the tagging stream objects write the
    # worker's id and its running block count into every block, so the output equals the sequential reference exactly when the
    # assignment is right (the long runs at the end of the list wrap narrow chunk / slot counters)
    res = run_schedules(ck, exe, cfg[:150 if not big else 600] + cfg[-3:])
    C03.analyse(ck, res, want=("trace", "output"))
    repeated_pipelines(ck)
    # whole encryptions where the LAST chunk is the padding block alone (plaintext an exact chunk multiple) and more workers than
    # chunks: that chunk belongs to the worker that owns its position - a fresh stream -, not to worker 0's running chain.  Which
    # stream enciphered a chunk shows in the bytes (chaining modes), so the file is compared with the documented format
    sdrv, senv = small_driver(ck), small_env(ck)
    oc = []
    for k in (1, 2, 3):
        for T in (k + 1, k + 2, 16):
            for cm in (1, 3):
                oc.append(EncCase(k * CH, cm, (k + T) % 3, T, rnd_key(r), rnd_seed(r), rnd_bytes(r, k * CH), "exact-multiple/more-workers-than-chunks"))
    ol = ["o%d %s" % (i, c.line()) for i, c in enumerate(oc)]
    oi = wv.run_lines([sdrv], ol, env=senv)
    osp = wv.run_lines([ck.model_driver(), "spec"], ol, env=senv)
    for i, c in enumerate(oc):
        ck.cov["evaluations"] += 1
        head = split_impl(oi.get("o%d" % i, "(no output)"))[0]
        if head != osp.get("o%d" % i):
            ck.violation("the padding-only last chunk of a %d-chunk plaintext was not enciphered by the worker that owns its position (T=%d): the file differs from the documented format" % (c.n // CH, c.T),
                         {"class": None, "case": c.line()[:2000], "implementation": head[:600], "spec": osp.get("o%d" % i, "")[:600], "chunk_bytes": CH})
            break
    ck.cov.setdefault("case_classes", {})["exact-multiple/more-workers-than-chunks"] = len(oc)
    if big:
        tsan(ck)
    return finish_proof(ck, rule="ownership monitor attached to every explored schedule of the real pipeline (events from the guarded hooks: critical-section outcomes with the buffer state, every get_entry / cmpstate / export / load): a worker access requires READY (or INV with nothing left), an I/O access requires EMPTY/UPDATING, a worker touches only its own buffer; the same schedules are replayed on the Coq transition system; thorough tier adds ThreadSanitizer runs on real threads. distinct = distinct (T, direction, length, schedule)",
                        assumptions=C03.ASSUME)


def tsan(ck):
    """ThreadSanitizer on real threads (a test, not part of the proof)"""
    try:
        exe = ck.impl_driver(buf=BUF, hbuf=HBUF, extra_flags=["-fsanitize=thread"])
    except wv.BuildError as e:
        ck.notes.append("TSan build failed: " + str(e)[-200:])
        return
    env = small_env(ck)
    env["TSAN_OPTIONS"] = "halt_on_error=1 exitcode=66 suppressions=" + os.path.join(wv.HARNESS, "tsan.supp")
    cases = enc_cases(ck, 60, maxchunks=4)
    impl = wv.run_lines([exe], ["e%d %s" % (i, c.line()) for i, c in enumerate(cases)], env=env)
    bad = [impl.get("e%d" % i, "") for i in range(len(cases)) if not split_impl(impl.get("e%d" % i, ""))[0].startswith("OK ")]
    ck.cov["tsan_runs"] = len(cases)
    if bad:
        ck.violation("ThreadSanitizer run of the real pipeline did not finish normally: " + bad[0][:60], {"class": None, "note": "data race or crash under -fsanitize=thread", "result": bad[0][:200]})


def repeated_pipelines(ck):
    """several pipeline runs in ONE process (real threads): chunk counts that leave the round-robin cursor / the buffers in every
    possible position, the same and different worker counts, library-level encryptions in between.  The tagging stream objects
    write the worker id and its running block count into every block, so each run's output equals the sequential reference
    exactly when every chunk went to the worker that owns its position, in file order - in every run, not only the first."""
    exe = small_driver(ck)
    env = small_env(ck)
    r = ck.rng
    lines, want = [], {}
    for h in range(60 if ck.tier == "thorough" else 16):
        T = r.choice([2, 3, 4, 5])
        ops, exp = [], []
        for j in range(r.randrange(2, 5)):
            Tj = T if r.random() < 0.75 else r.choice([1, 2, 3, 4, 16])
            if r.random() < 0.25:
                ops.append(["enc", str(r.randrange(5)), str(r.randrange(3)), str(Tj), rnd_key(r).hex(), rnd_seed(r).hex(), wv.hexs(rnd_bytes(r, CH * r.randrange(1, 5) + r.randrange(1, 16)))])
                exp.append(None)
                continue
            pad = r.random() < 0.7
            nch = r.randrange(1, 3 * Tj + 2)
            inp = pipe_input(r, CH * nch - (r.randrange(0, 17) if pad else 0) + (0 if pad else 0), pad)
            ops.append(["pipe", str(Tj), "1" if pad else "0", wv.hexs(inp)])
            exp.append("OK " + wv.hexs(pipe_expected(inp, Tj, pad)))
        lines.append("q%d hist %s" % (h, ";".join(",".join(o) for o in ops)))
        want[h] = (ops, exp)
    got = wv.run_lines([exe], lines, env=env)
    for h, (ops, exp) in want.items():
        parts = got.get("q%d" % h, "(no output)").split(" ; ")
        for j, e in enumerate(exp):
            ck.cov["evaluations"] += 1
            if e is None:
                continue
            mine = split_impl(parts[j])[0] if j < len(parts) else "(missing: %s)" % got.get("q%d" % h, "")[:40]
            if mine != e:
                ck.violation("pipeline run %d of %d in one process: the output differs from the sequential reference (a chunk went to a worker that does not own its position, or out of order)" % (j + 1, len(ops)),
                             {"class": None, "history": [" ".join(o)[:600] for o in ops], "position": j, "implementation": mine[:600], "expected": e[:600], "driver_flags": ck.impl_flags,
                              "replay": "echo 'x hist <ops joined by ; with , between fields>' | harness/drv.cpp built with the flags above against /repo"})
                break
    ck.cov.setdefault("case_classes", {})["repeated-pipelines-in-one-process"] = len(lines)
