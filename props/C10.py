"""C10: the five mode stream objects equal NIST SP 800-38A; decryptors invert encryptors."""
from props.common import *

THEOREMS = ["C10_encryptors_are_sp80038a", "C10_decryptors_are_sp80038a", "C10_decryptor_inverts_encryptor",
            "C10_ctr_counter_is_128_bit", "C10_factory_domain", "C10_stream_is_continuous"]
KEY = "2b7e151628aed2a6abf7158809cf4f3c"
PT = "6bc1bee22e409f96e93d7e117393172aae2d8a571e03ac9c9eb76fac45af8e5130c81c46a35ce411e5fbc1191a0a52eff69f2445df4f9b17ad2b417be66c3710"
NIST = {  # SP 800-38A F.1.1, F.2.1, F.5.1, F.3.13, F.4.1 (first block of each)
    0: ("000102030405060708090a0b0c0d0e0f", "3ad77bb40d7a3660a89ecaf32466ef97"),
    1: ("000102030405060708090a0b0c0d0e0f", "7649abac8119b246cee98e9b12e9197d"),
    2: ("f0f1f2f3f4f5f6f7f8f9fafbfcfdfeff", "874d6191b620e3261bef6864990db6ce"),
    3: ("000102030405060708090a0b0c0d0e0f", "3b3fd92eb72dad20333449f8e83cfb4a"),
    4: ("000102030405060708090a0b0c0d0e0f", "3b3fd92eb72dad20333449f8e83cfb4a"),
}


def rb(r, n):
    return bytes(r.randrange(256) for _ in range(n))


def gen_cases(ck):
    r = ck.rng
    big = ck.tier == "thorough"
    cases = []
    for m, (iv, _) in NIST.items():
        cases.append(Case("mode e %d %s %s00000000 %s" % (m, KEY, iv, PT), "mode", "nist-vector/mode%d" % m))
    for m in range(5):
        for d in "ed":
            # IVs ending in 1..16 bytes 0xFF (counter carries through every byte), then random
            for nff in range(0, 17):
                iv = rb(r, 16 - nff) + b"\xff" * nff
                if nff and iv[15 - nff] == 0xFF:
                    iv = iv[:15 - nff] + b"\x7e" + iv[16 - nff:]
                nb = r.choice([2, 3, 5]) if m == 2 else r.choice([1, 2])
                cases.append(Case("mode %s %d %s %s %s" % (d, m, rb(r, 16).hex(), (iv + rb(r, 4)).hex(), rb(r, 16 * nb).hex()), "mode",
                                  "mode%d/%s/iv-trailing-ff=%d" % (m, d, nff)))
            if m == 2:
                # the counter passes through ..7F FF..FF -> ..80 00..00 and ..FE FF..FF -> ..FF 00..00 at every byte position (a
                # counter kept in wider words carries INTO a word's top bit there), starting 0..2 steps before the boundary
                for nff in range(0, 16):
                    for pre in (0x7F, 0xFE, 0x00, 0x80):
                        iv = bytearray(rb(r, 15 - nff) + bytes([pre]) + b"\xff" * nff)
                        v = (int.from_bytes(iv, "big") - r.choice([0, 1, 2])) % (1 << 128)
                        cases.append(Case("mode %s %d %s %s %s" % (d, m, rb(r, 16).hex(), (v.to_bytes(16, "big") + rb(r, 4)).hex(), rb(r, 16 * 5).hex()), "mode",
                                          "mode%d/%s/counter-through-%02x-then-ff-run" % (m, d, pre)))
            for nb in list(range(0, 12)) + [r.randrange(12, 41) for _ in range(6 if big else 2)]:
                cases.append(Case("mode %s %d %s %s %s" % (d, m, rb(r, 16).hex(), rb(r, 20).hex(), wv.hexs(rb(r, 16 * nb))), "mode",
                                  "mode%d/%s/blocks=%s" % (m, d, nb if nb < 3 else "3+"), nb > 0))
            if big:
                # low counter byte wraps inside a long stream (257+ blocks)
                iv = rb(r, 15) + b"\xf0"
                cases.append(Case("mode %s %d %s %s %s" % (d, m, rb(r, 16).hex(), (iv + rb(r, 4)).hex(), rb(r, 16 * 300).hex()), "mode", "mode%d/%s/long-stream" % (m, d)))
    # the same streams fed through one reused scratch block (the object must not keep pointers into caller memory)
    for m in range(5):
        for d in "ed":
            for nb in (2, 3, 6):
                cases.append(Case("modes %s %d %s %s %s" % (d, m, rb(r, 16).hex(), rb(r, 20).hex(), rb(r, 16 * nb).hex()), "mode", "mode%d/%s/reused-scratch-block" % (m, d)))
    for m in (5, 6, 7, 100, 255):
        for d in "ed":
            cases.append(Case("mode %s %d %s %s %s" % (d, m, rb(r, 16).hex(), rb(r, 20).hex(), rb(r, 32).hex()), "mode", "factory/out-of-range", True))
    # the stream at an address that is not a multiple of 4 (a payload behind a 1..3-byte header): driver op modeu
    for m in range(5):
        for d in "ed":
            for nb in (1, 3):
                cases.append(Case("modeu %s %d %s %s %s" % (d, m, rb(r, 16).hex(), rb(r, 20).hex(), rb(r, 16 * nb).hex()), "mode", "mode%d/%s/misaligned-stream" % (m, d)))
    # streams whose blocks are related to the blocks the same object saw / produced before (common.feedback_streams)
    specs = [(d, m, rb(r, 16), rb(r, 20)) for m in range(5) for d in "ed" for _ in range(8 if big else 2)]
    for (d, m, k, iv), (data, _, rel) in zip(specs, feedback_streams(ck, specs, 7)):
        cases.append(Case("%s %s %d %s %s %s" % (r.choice(["mode", "mode", "modes"]), d, m, k.hex(), iv.hex(), data.hex()), "mode", "mode%d/%s/related-blocks" % (m, d)))
    return cases


def oracle(c, impl, spec, model):
    if c.cls.startswith("nist-vector"):
        m = int(c.cls[-1])
        if not impl.startswith(NIST[m][1]):
            return "SP 800-38A example vector not reproduced (mode %d)" % m
        if not spec.startswith(NIST[m][1]):
            return "the Coq spec does not reproduce the SP 800-38A vector (spec error)"
    return None if impl == spec else "mode output differs from NIST SP 800-38A (%s)" % c.cls


def run(ck):
    ck.prove(["Properties_C10", "Properties_SrcAes", "Properties_SrcAesF"], THEOREMS + ['SRC_mode_stream', 'SRC_mode_stream_is_sp80038a', 'SRC_mode_factory'])
    exe = ck.impl_driver()
    cases = gen_cases(ck)
    impl, model, spec = differential(ck, exe, cases, oracle, src=True)
    # round trip on the implementation: decryptor fed the encryptor's stream restores the input;
    # two objects from one factory used interleaved do not disturb each other (driver makes one object per line)
    r = ck.rng
    l1, meta = [], {}
    for i in range(200 if ck.tier == "thorough" else 50):
        m = i % 5
        k, iv, data = rb(r, 16), rb(r, 12) + b"\xff\xff\xff" + bytes([r.choice([0xfd, 0xfe, 0xff])]) + rb(r, 4), rb(r, 16 * r.randrange(1, 9))
        meta[i] = (m, k, iv, data)
        l1.append("t%d mode e %d %s %s %s" % (i, m, k.hex(), iv.hex(), data.hex()))
    o1 = wv.run_lines([exe], l1, env=ck.env())
    l2 = ["t%d mode d %d %s %s %s" % (i, m, k.hex(), iv.hex(), o1.get("t%d" % i, "00")) for i, (m, k, iv, data) in meta.items()]
    o2 = wv.run_lines([exe], l2, env=ck.env())
    for i, (m, k, iv, data) in meta.items():
        ck.cov["evaluations"] += 1
        if o2.get("t%d" % i) != data.hex():
            ck.violation("mode %d decryptor does not restore the encryptor's input" % m, {"class": None, "mode": m, "key": k.hex(), "iv": iv.hex(), "data": data.hex(), "after_roundtrip": o2.get("t%d" % i)})
    long_streams(ck, exe)
    unoptimised_build_runs(ck, [c.line for c in cases if "nist-vector" in c.cls or "blocks=3+" in c.cls][:40], "mode streams")
    parallel_purity(ck, exe, ["mode %s %d %s %s %s" % (r.choice("ed"), i % 5, rb(r, 16).hex(), rb(r, 20).hex(), rb(r, 16 * 6).hex()) for i in range(20)], "mode stream objects with different keys", iters=600)
    return finish_proof(ck, rule="per mode and direction: IVs with 0..16 trailing 0xFF bytes (counter carry through every byte), stream lengths 0..11 and random up to 40 blocks (thorough: 300-block streams), random keys; NIST SP 800-38A F.1.1/F.2.1/F.3.13/F.4.1/F.5.1 vectors; factory numbers 5,6,7,100,255; plus encrypt->decrypt round trips on the implementation. distinct = distinct case lines")


def long_streams(ck, exe):
    """one CTR stream object driven far: keystream block j must be E_K(IV + j) (128-bit big-endian addition) however long the
    stream runs.  quick: 2^16 + 40 blocks; thorough: 2^28 + 64 blocks (4 GiB through one stream: a 32-bit position or byte count
    inside the stream object wraps there) -- positions around every power of two on the way are sampled"""
    r = ck.rng
    mdrv = ck.model_driver()
    big = ck.tier == "thorough"
    top = 28 if big else 16
    for trial in range(2 if big else 1):
        k = rb(r, 16)
        iv = rb(r, 8) + (b"\xff" * 8 if trial == 0 else rb(r, 8))
        pos = sorted(set([0, 1, 2] + [p for e in range(8, top + 1, 4 if big else 8) for p in ((1 << e) - 1, 1 << e, (1 << e) + 1)] + [(1 << top) + 37]))
        n = pos[-1] + 1
        out = wv.run_lines([exe], ["l modelong e 2 %s %s %d %s" % (k.hex(), iv.hex(), n, ",".join(str(p) for p in pos))], shards=1, env=dict(ck.env(), WV_TIMEOUT_MS="1200000"), timeout=1500).get("l", "")
        got = out.split(",")
        ivn = int.from_bytes(iv, "big")
        want = wv.run_lines([mdrv, "spec"], ["w%d aes e %s %s" % (i, k.hex(), ((ivn + p) % (1 << 128)).to_bytes(16, "big").hex()) for i, p in enumerate(pos)], shards=1)
        for i, p in enumerate(pos):
            ck.cov["evaluations"] += 1
            g = got[i] if i < len(got) else "(missing)"
            if g != want.get("w%d" % i):
                ck.violation("CTR keystream block %d of one stream is not E_K(IV + %d)" % (p, p), {"class": None, "key": k.hex(), "iv": iv.hex(), "block_index": p, "got": g, "expected": want.get("w%d" % i),
                                                                                                "replay": "x modelong e 2 <key> <iv> %d %d  fed to harness/drv.cpp built from /repo" % (p + 1, p)})
                break
    ck.cov["longest_single_stream_blocks"] = (1 << top) + 38
