"""C03: output is independent of thread scheduling; each block transformed exactly once."""
from props.conc import *

THEOREMS = ["C03_output_is_schedule_independent", "C03_each_block_exactly_once_by_its_owner", "C03_protocol_text_is_the_modelled_one"]


def configs(ck, nsched):
    r = ck.rng
    cfg = []
    shapes = [(1, 0), (1, 64), (2, 10), (2, 130), (3, 150), (3, 64 * 3), (4, 64 * 4 - 5), (5, 10), (5, 300), (16, 128), (2, 64 * 5 + 3), (3, 48)]
    i = 0
    while len(cfg) < nsched:
        T, n = shapes[i % len(shapes)]
        pad = (i // len(shapes)) % 2 == 0
        # every seventh run with injected spurious wake-ups (policy code 10*percent + policy): a wait that does not re-test its
        # predicate lets a thread through while the buffer still belongs to the other side
        cfg.append((T, pad, pipe_input(r, n, pad), r.randrange(1 << 30), 1 if i % 5 == 4 else 0, (1 if i % 3 == 2 else 0) + (r.choice([200, 500]) if i % 7 == 3 else 0)))
        i += 1
    # long runs: more than 256 / 512 chunks with worker counts that do not divide a power of two (a chunk or slot counter kept in a
    # narrow integer wraps there and shifts every later chunk to another worker)
    for T, chunks, pad in ((3, 260, True), (7, 530, False), (5, 300, True)):
        cfg.append((T, pad, pipe_input(r, 64 * chunks - 7, pad), r.randrange(1 << 30), 0, 0))
    return cfg


def run(ck, pid="C03", theorems=THEOREMS, module="Properties_C03"):
    ck.prove([module, "SrcRun4", "RefineConcSimEx", "Properties_SrcConc", "Properties_SrcConc2"], theorems + ["SRC_protocol_follows_PipeConc", "SRC_protocol_output_is_schedule_independent", "SRC_protocol_machine_is_followed_by_PipeConc", "SRC_protocol_machine_is_followed_by_PipeConc_while_main_runs"])   # SrcRun4: the translated protocol the traces are replayed on
    exe = shim_driver(ck)
    big = ck.tier == "thorough"
    res = run_schedules(ck, exe, configs(ck, 3000 if big else 400))
    analyse(ck, res, want=("output", "trace", "deadlock", "monitor"))
    # whole encrypt / decrypt under the scheduler: output must equal the spec / the plaintext under every schedule
    end_to_end(ck, exe, 200 if big else 40)
    # several pipeline runs in ONE process: each run's output must be the sequential reference (a buffer, a cursor or a flag left
    # over from the previous run makes a chunk go to the wrong worker or get the wrong length)
    from props.C14 import repeated_pipelines
    flags = ck.impl_flags
    repeated_pipelines(ck)
    ck.impl_flags = flags
    return finish_proof(ck, rule=RULE, assumptions=ASSUME)


RULE = ("seeded schedules of the REAL buffer group + worker threads under the deterministic scheduler shim (uniform random and PCT-style priority schedulers, with and without extra yields inside critical sections), "
        "T in {1,2,3,4,5,16} x inputs of 0..5 chunks incl. exact chunk multiples, both directions, tagging stream objects (stream id + sequence number in every block); for every schedule: output bytes = sequential reference, no deadlock/livelock, "
        "ownership monitor over the event stream, and the whole event trace replayed step by step on the extracted Coq transition system (same events, same number of enabled threads, same output); plus whole encrypt/decrypt runs under random schedules. distinct = distinct (T, direction, length, schedule)")
ASSUME = ["spurious wake-ups of condition variables are part of the model (schedulable actions T+1+j) since the second round: no assumption left about them", "the C++ memory model below the granularity of the recorded scheduling points (torn reads, reordering) is outside the model: data-race freedom at that granularity is C14; TSan runs are a thorough-tier test"]


def analyse(ck, res, want):
    dist = ck.cov.setdefault("case_classes", {})
    distinct = ck.cov.setdefault("_distinct", set())
    validated = 0
    corr = []
    srccorr = []
    for x in res:
        ck.cov["evaluations"] += 1
        cls = "T=%d/%s/%s" % (x["T"], "enc" if x["ispadding"] else "dec", "yield-in-cs" if x["yield_in_cs"] else "atomic-cs")
        dist[cls] = dist.get(cls, 0) + 1
        distinct.add((x["T"], x["ispadding"], x["n"], x["sched"]))
        rep = {"class": None, "T": x["T"], "ispadding": x["ispadding"], "input_hex": x["input"].hex(), "sched_seed": x["seed"], "yield_in_cs": x["yield_in_cs"], "policy": x["policy"],
               "schedule_thread_ids": x["sched"][:6000], "implementation": x["impl"][:600], "driver_flags": ck.impl_flags, "chunk_bytes": CH,
               "replay": "x @WV_SCHED_SEED=<seed>,WV_YIELD_IN_CS=<y>,WV_SCHED_POLICY=<p> pipe T ispadding <input hex>  (or WV_SCHED_REPLAY=<file with the thread ids>) fed to harness/drv.cpp built with -include harness/shim.h"}
        exp = "OK " + wv.hexs(pipe_expected(x["input"], x["T"], x["ispadding"]))
        if x["impl"] in ("DEADLOCK", "LIVELOCK", "HANG") or x["status"] in ("DEADLOCK", "LIVELOCK"):
            if "deadlock" in want:
                ck.violation("the pipeline does not terminate under this schedule: %s (T=%d, %d input bytes)" % (x["impl"] if x["impl"] != "(no output)" else x["status"], x["T"], x["n"]), rep)
            continue
        if not x["impl"].startswith("OK "):
            ck.violation("the pipeline crashed under this schedule: %s" % x["impl"][:40], rep)
            continue
        if "output" in want and x["impl"] != exp:
            rep["expected"] = exp[:600]
            ck.violation("output differs from the sequential reference under this schedule (a chunk exported untransformed, twice, dropped or reordered)", rep)
            continue
        if "monitor" in want:
            pass
        v = validate_trace(x)
        if x.get("model") is not None:
            validated += 1
        if v:
            rep["trace_mismatch"] = v
            corr.append(rep)
        elif x.get("srcmodel") is not None:
            v2 = validate_trace(x, "srcmodel")
            ck.cov["traces_validated_against_translated_protocol"] = ck.cov.get("traces_validated_against_translated_protocol", 0) + 1
            if v2:
                rep["trace_mismatch"] = "translated protocol (MiniC threads): " + v2
                srccorr.append(rep)
            elif x.get("sim") is not None:
                ck.cov["schedules_with_simulation_relation_checked_at_every_step"] = ck.cov.get("schedules_with_simulation_relation_checked_at_every_step", 0) + 1
                if x["sim"] != "SIM ok":
                    rep["trace_mismatch"] = "simulation relation PipeConc ~ translated protocol (RefineConcSim.simb): " + x["sim"]
                    srccorr.append(rep)
        if len(ck.cov["samples"]) < 5:
            ck.cov["samples"].append({"T": x["T"], "direction": "enc" if x["ispadding"] else "dec", "input_len": x["n"], "steps": len(x["steps"]), "schedule_prefix": x["sched"][:80], "output_ok": True, "trace": v or "validated"})
    ck.cov["distinct_nontrivial"] = len(distinct)
    ck.cov["traces_validated_against_model"] = ck.cov.get("traces_validated_against_model", 0) + validated
    ck.cov["disagreements_model_vs_impl"] = ck.cov.get("disagreements_model_vs_impl", 0) + len(corr)
    ck.cov["disagreements_source_vs_impl"] = ck.cov.get("disagreements_source_vs_impl", 0) + len(srccorr)
    if srccorr and not corr and not ck.violations:
        srccorr[0]["broken"] = "correspondence: implementation trace is not an execution of the translated protocol functions under MiniCConc"
        ck.violation("trace validation against the translated protocol (MiniC thread semantics) fails on %d schedules (%s) although outputs are right" % (len(srccorr), srccorr[0]["trace_mismatch"][:150]), srccorr[0], found_input=False)
    if corr and not ck.violations:
        corr[0]["broken"] = "correspondence: implementation trace is not an execution of PipeConc"
        ck.violation("trace validation against the Coq transition system fails on %d schedules (%s) although outputs are right" % (len(corr), corr[0]["trace_mismatch"][:150]), corr[0], found_input=False)


def end_to_end(ck, exe, n):
    r = ck.rng
    env = small_env(ck)
    mdrv = ck.model_driver()
    cases = enc_cases(ck, n, maxchunks=4)
    lines = ["e%d @WV_SCHED_SEED=%d,WV_SCHED_POLICY=%d %s" % (i, r.randrange(1 << 30), i % 2, c.line()) for i, c in enumerate(cases)]
    impl = wv.run_lines([exe], lines, env=env)
    spec = wv.run_lines([mdrv, "spec"], ["e%d %s" % (i, c.line()) for i, c in enumerate(cases)], env=env)
    l2 = []
    for i, c in enumerate(cases):
        head, _ = split_impl(impl.get("e%d" % i, ""))
        if head.startswith("OK "):
            l2.append("d%d @WV_SCHED_SEED=%d,WV_SCHED_POLICY=%d dec %d %s %s" % (i, r.randrange(1 << 30), (i + 1) % 2, c.T, c.key.hex(), head.split()[1]))
    impl2 = wv.run_lines([exe], l2, env=env)
    for i, c in enumerate(cases):
        ck.cov["evaluations"] += 1
        head, _ = split_impl(impl.get("e%d" % i, "(no output)"))
        dhead, _ = split_impl(impl2.get("d%d" % i, "(no output)"))
        rep = {"class": None, "case": c.line()[:3000], "encrypt": head[:300], "decrypt": dhead[:300], "spec": spec.get("e%d" % i, "")[:300], "driver_flags": ck.impl_flags}
        if head in ("DEADLOCK", "LIVELOCK", "HANG") or dhead in ("DEADLOCK", "LIVELOCK", "HANG"):
            ck.violation("encrypt/decrypt under the scheduler does not terminate: %s / %s" % (head[:12], dhead[:12]), rep)
        elif head != spec.get("e%d" % i):
            ck.violation("encryption under a random schedule differs from the documented format", rep)
        elif dhead != "OK " + wv.hexs(c.plain):
            ck.violation("decryption under a random schedule does not restore the plaintext", rep)
