"""C05: a modified encrypted file never decrypts successfully to different plaintext."""
from props.suite import *

THEOREMS = ["C05_tampering_reduces_to_forgery", "C05_padding_bytes_carry_no_information", "C05_success_requires_valid_tag", "C05_mode_byte_refuted"]
K1 = "K1-cipher-mode-byte-unauthenticated"


def run(ck):
    ck.prove(["Properties_C05", "Properties_Src2", "Properties_SrcE2Ed", "SrcRun5"], THEOREMS + ["SRC_verify", "SRC_execute_decrypt_rejects_what_verify_rejects"])   # SrcRun5: the translated whole-file runs (a stale translation concerns this property)
    exe = small_driver(ck)
    env = small_env(ck)
    big = ck.tier == "thorough"
    files, items = tampered_items(ck, exe, env, 15 if big else 12, exhaustive=big)
    res = run_inputs(ck, exe, env, items)
    dist = ck.cov.setdefault("case_classes", {})
    distinct, corr, last = set(), 0, None
    for x in res:
        c, f, m = x["meta"]["case"], x["meta"]["orig"], x["meta"]["mut"]
        ck.cov["evaluations"] += 1
        dist[m.cls] = dist.get(m.cls, 0) + 1
        distinct.add((m.cls, m.lo, len(m.data), c.cm, c.hm, c.T))
        want = "OK " + wv.hexs(c.plain)
        hl = HL[c.hm]
        noinfo = m.lo >= 10 + hl and m.hi <= 48 and len(m.data) == len(f)
        extra = {"mutation": m.desc, "mutation_class": m.cls, "cmode": c.cm, "hmode": c.hm, "n": c.n, "original_file_hex": f.hex()[:20000], "expected_plaintext": wv.hexs(c.plain)[:2000]}
        if noinfo:
            if x["dec"] != want or x["ver"] != "OK -":
                ck.violation("alteration of bytes that carry no information (between tag and offset 48) changed the result: decrypt %s verify %s" % (x["dec"][:30], x["ver"]), replay_of(ck, x, extra))
        else:
            bad = None
            if x["dec"].startswith("OK ") and x["dec"] != want:
                bad = "decryption of an altered file reported success and delivered different plaintext"
            elif not x["dec"].startswith("FAIL"):
                bad = "decryption of an altered file did not report failure: " + x["dec"][:40]
            elif not x["ver"].startswith("FAIL"):
                bad = "verification of an altered file did not report failure: " + x["ver"][:40]
            elif x["dec_kv"].get("outlen") != "0":
                bad = "a decryption that failed wrote %s bytes to its output" % x["dec_kv"].get("outlen")
            if bad:
                rep = replay_of(ck, x, extra)
                if m.cls == "flip/cmode-byte/in-range":
                    rep["class"] = K1
                ck.violation(bad + " (" + m.desc + ")", rep)
                continue
        if not corr_ok(x):
            corr += 1
            last = replay_of(ck, x, extra)
        if len(ck.cov["samples"]) < 10 and m.cls not in [s.get("mutation_class") for s in ck.cov["samples"]]:
            ck.cov["samples"].append({"mutation_class": m.cls, "mutation": m.desc, "cmode": c.cm, "hmode": c.hm, "T": c.T, "n": c.n, "decrypt": x["dec"][:40], "verify": x["ver"]})
    # a long-lived process: the authentic file is verified / decrypted, THEN same-length altered copies with the same key (and the
    # authentic file again in between): anything remembered from the successful run must not let an altered copy through
    r = ck.rng
    hl_, hmeta = [], {}
    for j, (c, f) in enumerate(sorted(files, key=lambda cf: len(cf[1]))[:10 if big else 5]):
        tm = 48 + 20 * c.T
        ops, exp = [], []
        def add(kind, data, ok):
            ops.append([kind, str(c.T), c.key.hex(), data.hex()])
            exp.append(ok)
        add("ver", f, True)
        if j % 2:
            add("dec", f, True)
        for pos in sorted(set([74 if 74 < len(f) else len(f) - 1, tm, len(f) - 1, len(f) - 17, r.randrange(tm, len(f)), r.randrange(48, tm)])):
            g = bytearray(f)
            g[pos] ^= 1 << r.randrange(8)
            add(r.choice(["ver", "dec"]), bytes(g), False)
            if r.random() < 0.3:
                add("ver", f, True)
        hl_.append("lq%d hist %s" % (j, ";".join(",".join(o) for o in ops)))
        hmeta["lq%d" % j] = (ops, exp, c)
    ho = wv.run_lines([exe], hl_, env=env)
    for cid, (ops, exp, c) in hmeta.items():
        parts = ho.get(cid, "(no output)").split(" ; ")
        for q, ok in enumerate(exp):
            ck.cov["evaluations"] += 1
            g = split_impl(parts[q])[0] if q < len(parts) else "(missing)"
            if (ok and not g.startswith("OK")) or (not ok and not g.startswith("FAIL")):
                ck.violation("operation %d of a sequence in one process (%s of %s): %s" % (q, ops[q][0], "the authentic file" if ok else "an ALTERED same-length copy after the authentic file was accepted", g[:30]),
                             {"class": None, "history": [" ".join(o)[:1500] for o in ops], "position": q, "implementation": g[:300], "expected": "OK" if ok else "FAIL", "driver_flags": ck.impl_flags,
                              "replay": "echo 'x hist <ops joined by ; with , between fields>' | harness/drv.cpp built with the flags above against /repo"})
                break
    dist["sequence-in-one-process/altered-copy-after-acceptance"] = len(hl_)
    # the file GREW after its size was measured: verify / decrypt are told the old size (it is documented as progress information
    # only) - the appended bytes are part of the file and must make the tag fail
    sl = []
    for j, (c, f) in enumerate(files):
        for k, ext in enumerate((rnd_bytes(r, 16), f[-16:], rnd_bytes(r, 1), rnd_bytes(r, 64))):
            for op in ("ver", "dec"):
                sl.append("st%d_%d%s %s %d %s %s fsize=%d" % (j, k, op[0], op, c.T, c.key.hex(), (f + ext).hex(), len(f)))
    so = wv.run_lines([exe], sl, env=env)
    for l in sl:
        cid = l.split()[0]
        head, kv = split_impl(so.get(cid, "(no output)"))
        ck.cov["evaluations"] += 1
        if not head.startswith("FAIL") or kv.get("outlen", "0") != "0":
            ck.violation("a file extended after its size was measured (the operation is told the OLD size) was not rejected: %s" % head[:30],
                         {"class": None, "case": l[:4000], "implementation": so.get(cid, "")[:300], "driver_flags": ck.impl_flags, "replay": "echo '<case>' | harness/drv.cpp built with the flags above against /repo"})
            break
    dist["extended-file/stale-announced-size"] = len(sl)
    ck.cov["distinct_nontrivial"] = len(distinct)
    ck.cov["files"] = len(files)
    ck.cov["disagreements_model_vs_impl"] = corr
    if corr and not [v for v in ck.violations if v[1].get("class") != K1]:
        last["broken"] = "correspondence dec/ver model vs implementation on tampered files"
        ck.violation("correspondence model/implementation no longer checks on %d tampered files, no property violation found" % corr, last, found_input=False)
    if ck.tier == "thorough":
        production_scale(ck)     # 40 MiB and > 4 GiB with the production constants (props/filegen.py)
    return finish_proof(ck, rule="%d files produced by the implementation (all modes/hashes, T, lengths around chunk boundaries) x mutations: single-byte changes in every region (magic, mode bytes incl. every in-range and several out-of-range values, tag, tag padding, IV0, other IVs, body first/last block; thorough: every byte x 3 values), truncation at every header/block boundary (thorough: every length), extension, insert/delete, block and chunk swaps, zeroed tag, overwritten regions; each through decrypt and verify with the right key. distinct = distinct (mutation class, offset, length, cmode, hmode, T)" % len(files),
                        assumptions=["HMAC unforgeability turns the Forgery disjunct of the theorem into the plain-language claim (computational assumption, not provable)"])
