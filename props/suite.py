"""Shared execution of tampered / malformed inputs through decrypt and verify (C05, C11, C12)."""
from props.mutate import *


def run_inputs(ck, exe, env, items, san_exe=None):
    """items: list of (T, key bytes, data bytes, meta). Runs dec and ver on implementation and model.
    Returns list of dicts with parsed results."""
    mdrv = ck.model_driver()
    lines = []
    for i, (T, key, data, meta) in enumerate(items):
        lines.append("d%d dec %d %s %s" % (i, T, key.hex(), wv.hexs(data)))
        lines.append("v%d ver %d %s %s" % (i, T, key.hex(), wv.hexs(data)))
    impl = wv.run_lines([exe], lines, env=env)
    model = wv.run_lines([mdrv], lines, env=env)
    # the translated source (runcrypt::verify and everything below it) on a subset of the verify lines
    vlines = [l for l in lines if l.split(" ", 2)[1] == "ver"]
    vlines.sort(key=len)
    pick = vlines[:250] + vlines[-5:]
    srcv = wv.run_lines([mdrv, "src"], pick, shards=wv.NCPU, env=env)
    ck.cov["src_evaluations"] = ck.cov.get("src_evaluations", 0) + len(srcv)
    # whole decryptions on the translated source only (SrcRun5: runcrypt::execute_decrypt with pipeline and threads under MiniCConc)
    wdiffs = whole_source_runs(ck, [l for l in lines if l.split(" ", 2)[1] == "dec"], impl, limit=240 if ck.tier == "thorough" else 40)
    wbad = {d[0]: d[3] for d in wdiffs}
    san = wv.run_lines([san_exe], lines, env=dict(env, ASAN_OPTIONS="detect_leaks=0:abort_on_error=1:new_delete_type_mismatch=0", UBSAN_OPTIONS="halt_on_error=1")) if san_exe else {}
    res = []
    for i, (T, key, data, meta) in enumerate(items):
        dh, dkv = split_impl(impl.get("d%d" % i, "(no output)"))
        vh, vkv = split_impl(impl.get("v%d" % i, "(no output)"))
        res.append({"T": T, "key": key, "data": data, "meta": meta, "dec": dh, "dec_kv": dkv, "ver": vh, "ver_kv": vkv,
                    "mdec": model.get("d%d" % i, "(no output)"), "mver": model.get("v%d" % i, "(no output)"), "tver": srcv.get("v%d" % i), "tdec_differs": wbad.get("d%d" % i),
                    "sdec": split_impl(san.get("d%d" % i, ""))[0] if san_exe else None, "sver": split_impl(san.get("v%d" % i, ""))[0] if san_exe else None})
    return res


def corr_ok(x):
    """implementation vs model on decrypt/verify; the model's Crash stands for undefined behaviour (anything may happen)"""
    if x["mdec"].startswith("CRASH") or x["mdec"] == "HANG":
        dec_ok = True
    else:
        dec_ok = x["dec"] == x["mdec"]
    if x.get("tver") is not None and x["tver"] != x["ver"]:
        return False        # translated source (MiniC) vs implementation
    if x.get("tdec_differs") is not None:
        return False        # translated whole-file decryption vs implementation
    return dec_ok and x["ver"] == x["mver"]


def replay_of(ck, x, extra=None):
    r = {"class": None, "T": x["T"], "key": x["key"].hex(), "input_file_hex": x["data"].hex()[:20000], "input_len": len(x["data"]),
         "decrypt": x["dec"][:300], "decrypt_info": x["dec_kv"], "verify": x["ver"], "verify_info": x["ver_kv"],
         "model_decrypt": x["mdec"][:300], "model_verify": x["mver"], "translated_source_verify": x.get("tver"), "translated_source_whole_decrypt_if_different": x.get("tdec_differs"), "driver_flags": ck.impl_flags,
         "replay": "feed 'x dec T key file' / 'x ver T key file' to harness/drv.cpp built with the flags above against /repo"}
    if extra:
        r.update(extra)
    return r


def tampered_items(ck, exe, env, nfiles, exhaustive=False):
    files = produce_files(ck, exe, env, nfiles)
    items = []
    for c, f in files:
        for m in mutations(f, c, ck.rng, exhaustive=exhaustive):
            items.append((c.T, c.key, m.data, {"case": c, "orig": f, "mut": m}))
    return files, items
