"""C01: decrypt(encrypt(P)) == P for every length, mode, hash, key, seed and thread count."""
from props.filegen import *

THEOREMS = ["C01_roundtrip", "C01_roundtrip_under_every_schedule", "C03_decrypt_of_any_accepted_file_under_every_schedule", "SRC_loads", "SRC_export",
            # end to end on the translated source: encryption and decryption of accepted files both PROVED (DESIGN Part G)
            "SRC_execute_encrypt_is_model", "SRC_execute_decrypt_is_model_on_accepted_files", "SRC_encrypted_file_decrypts_to_the_plaintext", "SRC_roundtrip", "SRC_encrypted_file_verifies", "SRC_execute_encrypt_is_model_any_budget", "SRC_execute_decrypt_is_model_on_accepted_files_any_budget", "SRC_whole_program_layout_ok",
            "SRC_protocol_follows_PipeConc_any_stream", "SRC_scheduler_run_follows_PipeConc_any_stream"]


def run(ck, module=("Properties_C01", "Properties_C01b", "Properties_SrcIO", "Properties_SrcE2Ef_parts", "Properties_SrcE2Ef", "Properties_SrcE2Ef_cor", "Properties_SrcE2Ef_round", "Properties_SrcE2Ef_budget", "SrcRun5"), theorems=THEOREMS, finish=True):
    ck.prove(module, theorems)
    exe = small_driver(ck)
    env = small_env(ck)
    mdrv = ck.model_driver()
    big = ck.tier == "thorough"
    cases = enc_cases(ck, 0, exhaustive_lengths=True) if big else enc_cases(ck, 150)
    # directed family: ciphertext whose byte right after a chunk boundary is 0xFF / 0x00 / 0x1A / 0x0A / 0x0D
    # (values that end-of-file or text-mode handling could confuse); found by search over random 2..3-chunk files
    r = ck.rng
    pool = [EncCase(n, cm, 0, T, rnd_key(r), rnd_seed(r), rnd_bytes(r, n), "boundary-byte-search")
            for (n, cm, T) in [(r.choice([2 * CH - 3, 2 * CH + 5, 3 * CH - 1, 3 * CH + 20]), r.randrange(5), r.choice([1, 2, 3])) for _ in range(4000 if big else 1500)]]
    pimpl = wv.run_lines([exe], ["p%d %s" % (i, c.line()) for i, c in enumerate(pool)], env=env)
    want = {0xFF: 4, 0x00: 2, 0x1A: 1, 0x0A: 1, 0x0D: 1}
    for i, c in enumerate(pool):
        head, _ = split_impl(pimpl.get("p%d" % i, ""))
        if head.startswith("OK "):
            f = bytes.fromhex(head.split()[1])
            body = f[48 + 20 * c.T:]
            for b in range(CH, len(body), CH):
                v = body[b]
                if want.get(v, 0) > 0:
                    want[v] -= 1
                    c.cls = "chunk-starts-with-0x%02x" % v
                    cases.append(c)
                    break
    lines = ["e%d %s" % (i, c.line()) for i, c in enumerate(cases)]
    impl = wv.run_lines([exe], lines, env=env)
    model = wv.run_lines([mdrv], lines, env=env)
    # phase 2: decrypt and verify what the implementation produced
    l2 = []
    for i, c in enumerate(cases):
        head, kv = split_impl(impl.get("e%d" % i, ""))
        if head.startswith("OK "):
            f = head.split()[1]
            l2.append("d%d dec %d %s %s" % (i, c.T, wv.hexs(c.key), f))
            l2.append("v%d ver %d %s %s" % (i, c.T, wv.hexs(c.key), f))
    impl2 = wv.run_lines([exe], l2, env=env)
    model2 = wv.run_lines([mdrv], l2, env=env)
    # the same decryptions in a process CONFINED TO ONE CPU (taskset -c 0): the result must not depend on how many processors the
    # decrypting run may use (a worker count derived from the machine instead of from T changes which stream decrypts which chunk)
    import shutil
    pinned = {}
    if shutil.which("taskset"):
        pinned = wv.run_lines(["taskset", "-c", "0", exe], [l for l in l2 if l.split()[1] == "dec"][:: 1 if big else 2], env=env)
        ck.cov["decryptions_confined_to_one_cpu"] = len(pinned)
    dist = ck.cov.setdefault("case_classes", {})
    distinct = set()
    corr = 0
    for i, c in enumerate(cases):
        ck.cov["evaluations"] += 1
        dist[c.cls] = dist.get(c.cls, 0) + 1
        distinct.add((c.n, c.cm, c.hm, c.T))
        ehead, ekv = split_impl(impl.get("e%d" % i, "(no output)"))
        dhead, dkv = split_impl(impl2.get("d%d" % i, "(no output)"))
        vhead, vkv = split_impl(impl2.get("v%d" % i, "(no output)"))
        want = "OK " + wv.hexs(c.plain)
        rep = {"class": None, "case": c.line(), "case_class": c.cls, "n": c.n, "cmode": c.cm, "hmode": c.hm, "T": c.T,
               "chunk_bytes": CH, "driver_flags": ck.impl_flags, "encrypt": ehead[:200], "decrypt": dhead[:400], "verify": vhead,
               "expected_decrypt": want[:400], "model_decrypt": model2.get("d%d" % i, "")[:400],
               "replay": "build harness/drv.cpp with the flags above against /repo; feed 'x <case>' then 'y dec T key <file>'"}
        if not ehead.startswith("OK "):
            ck.violation("encryption did not report success: " + ehead[:60], rep)
        elif dhead != want:
            ck.violation("decrypt(encrypt(P)) != P or decryption did not report success (n=%d, cmode=%d, hmode=%d, T=%d): %s" % (c.n, c.cm, c.hm, c.T, dhead[:40]), rep)
        elif vhead != "OK -":
            ck.violation("verification of a freshly encrypted file failed", rep)
        elif "d%d" % i in pinned and split_impl(pinned["d%d" % i])[0] != want:
            rep["decrypt_confined_to_one_cpu"] = split_impl(pinned["d%d" % i])[0][:400]
            ck.violation("decrypt(encrypt(P)) != P when the decrypting process is confined to one CPU (taskset -c 0) while the encrypting one was not (n=%d, cmode=%d, T=%d)" % (c.n, c.cm, c.T), rep)
        else:
            if ehead != model.get("e%d" % i) or dhead != model2.get("d%d" % i) or vhead != model2.get("v%d" % i):
                corr += 1
                rep["model_encrypt"] = model.get("e%d" % i, "")[:200]
                last_corr = rep
        if len(ck.cov["samples"]) < 6:
            ck.cov["samples"].append({"n": c.n, "cmode": c.cm, "hmode": c.hm, "T": c.T, "class": c.cls, "encrypt": ehead[:60], "decrypt_ok": dhead == want, "verify": vhead})
    ck.cov["distinct_nontrivial"] = len(distinct)
    ck.cov["disagreements_model_vs_impl"] = corr
    if corr and not ck.violations:
        last_corr["broken"] = "correspondence enc/dec/ver model vs implementation"
        ck.violation("correspondence model/implementation no longer checks (%d cases) but the round trip held on every explored input" % corr, last_corr, found_input=False)
    # the same encryptions, decryptions and verifications on the TRANSLATED SOURCE ONLY, pipeline and threads included
    report_whole_source(ck, whole_source_runs(ck, lines + l2, dict(impl, **impl2)), "C01")
    if big:
        production_runs(ck)
        production_scale(ck)     # 40 MiB and > 4 GiB round trips with the production constants (shared with C02/C05/C08/C11/C12, cached per source hash)
    if not finish:
        return
    return finish_proof(ck, rule=("every length 0..%d" % (5 * CH + 1) if big else "150 cases, lengths k*chunk+{-17..1} and block boundaries first") +
                        " with 64-byte chunks (BUF_SZ=4), cycling all 15 (cmode,hmode) and T in {1,2,3,4,5,16}; random key/seed/content from the seeded PRNG; each case = encrypt, then decrypt and verify the produced file with real threads. distinct = distinct (n,cmode,hmode,T)",
                        assumptions=["real-thread runs explore one OS schedule each (all schedules: C03/C04)", "chunk size is a compile-time constant: 64-byte chunks here; theorem is for every chunk size >= 1 block"])


def production_runs(ck):
    """the real 16 MiB chunk size: lengths around the chunk boundary, round trip + format facts checked with Python
    (the extracted model is too slow at this size; the theorem covers every chunk size)"""
    import hashlib, hmac as pyhmac, os
    exe = ck.impl_driver()
    r = ck.rng
    env = dict(ck.env(), WV_TIMEOUT_MS="600000")
    M = 16 << 20
    sizes = [(M - 16, 4, 1, 0), (M - 1, 4, 2, 1), (M, 1, 3, 2), (2 * M + 3, 4, 4, 0), (M + 17, 2, 0, 1)]
    PY = {0: "sha1", 1: "md5", 2: "sha256"}
    for j, (n, T, cm, hm) in enumerate(sizes):
        key, seed = rnd_key(r), rnd_seed(r)
        pin, penc, pdec = [os.path.join(ck.scratch, "prod%d.%s" % (j, e)) for e in ("in", "wenc", "out")]
        blk = os.urandom(1 << 20)
        with open(pin, "wb") as f:
            left = n
            while left:
                k = min(left, len(blk))
                f.write(blk[:k])
                left -= k
        out = wv.run_lines([exe], ["a encp %d %d %d %s %s %s %s" % (cm, hm, T, key.hex(), seed.hex(), pin, penc)], shards=1, env=env, timeout=900)
        out2 = wv.run_lines([exe], ["b decp %d %s %s %s" % (T, key.hex(), penc, pdec), "c verp %d %s %s" % (T, key.hex(), penc)], shards=1, env=env, timeout=900)
        ck.cov["evaluations"] += 1
        rep = {"class": None, "production_constants": True, "n": n, "T": T, "cmode": cm, "hmode": hm, "key": key.hex(), "seed": seed.hex(), "encrypt": out.get("a"), "decrypt": out2.get("b"), "verify": out2.get("c"),
               "replay": "random content of n bytes; harness/drv.cpp built WITHOUT size overrides: encp cm hm T key seed in out; decp T key out back"}
        ok = out.get("a") == "OK -" and out2.get("b") == "OK -" and out2.get("c") == "OK -"
        if ok:
            a, b = open(pin, "rb").read(), open(pdec, "rb").read()
            f = open(penc, "rb").read()
            chain = [hashlib.sha1(seed).digest()]
            for _ in range(1, T):
                chain.append(hashlib.sha1(chain[-1]).digest())
            tag = pyhmac.new(key, f[48:], PY[hm]).digest()
            if a != b:
                ck.violation("decrypt(encrypt(P)) != P with the production chunk size (n = 16 MiB%+d)" % (n - M), rep)
            elif len(f) != 48 + 20 * T + 16 * (n // 16 + 1) or f[48:48 + 20 * T] != b"".join(chain) or f[10:10 + len(tag)] != tag or any(f[10 + len(tag):48]):
                ck.violation("file produced with the production chunk size does not have the documented length / IV chain / tag", rep)
        else:
            ck.violation("encrypt/decrypt/verify with the production chunk size did not all report success: %s %s %s" % (out.get("a"), out2.get("b"), out2.get("c")), rep)
        for p in (pin, penc, pdec):
            try:
                os.remove(p)
            except OSError:
                pass
    ck.cov["production_constant_runs"] = len(sizes)
