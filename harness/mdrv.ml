(* Model-side driver of the correspondence check: evaluates the extracted Gallina
   model (default) or spec ("spec" as first argument) on the same case lines the C++
   driver reads.  One output line per input line: "<id> <result>". *)
open Model

let rec pos_of_int i = if i = 1 then XH else if i land 1 = 1 then XI (pos_of_int (i lsr 1)) else XO (pos_of_int (i lsr 1))
let n_of_int i = if i = 0 then N0 else Npos (pos_of_int i)
let rec int_of_pos = function XH -> 1 | XO p -> 2 * int_of_pos p | XI p -> 2 * int_of_pos p + 1
let int_of_n = function N0 -> 0 | Npos p -> int_of_pos p
let rec nat_of_int i = if i = 0 then O else S (nat_of_int (i - 1))
let rec int_of_nat = function O -> 0 | S n -> 1 + int_of_nat n

let unhex s =
  if s = "-" then [] else begin
    let n = String.length s / 2 in
    List.init n (fun i -> n_of_int (int_of_string ("0x" ^ String.sub s (2 * i) 2)))
  end
let hex l =
  if l = [] then "-" else String.concat "" (List.map (fun b -> Printf.sprintf "%02x" (int_of_n b)) l)
let rec blocks l = match l with [] -> [] | _ ->
  let rec take k l acc = if k = 0 then (List.rev acc, l) else match l with [] -> (List.rev acc, []) | x :: r -> take (k - 1) r (x :: acc) in
  let (b, r) = take 16 l [] in b :: blocks r

let spec = ref false
let src = ref false      (* "src": run the functions translated from /repo's sources (coq/Gen/Src_*.v) under the MiniC semantics *)
let char_of_ascii (Ascii (b0, b1, b2, b3, b4, b5, b6, b7)) =
  let v b k = if b then 1 lsl k else 0 in
  Char.chr (v b0 0 + v b1 1 + v b2 2 + v b3 3 + v b4 4 + v b5 5 + v b6 6 + v b7 7)
let rec coqstr (s : Model.string) = match s with EmptyString -> "" | String (a, r) -> String.make 1 (char_of_ascii a) ^ coqstr r
let sres_bytes = function SOk b -> hex b | SErr w -> "ERR " ^ coqstr w
let envint name d = try int_of_string (Sys.getenv name) with _ -> d
let buf () = nat_of_int (envint "WV_BUF" 4)
let hbuf () = nat_of_int (envint "WV_HBUF" 4)
(* seed of the scheduler function of the translated whole-file runs: per line ("@S=<n>" before the operation) or WV_SRC_SCHED *)
let line_seed = ref (-1)
let sched_seed () = if !line_seed >= 0 then !line_seed else envint "WV_SRC_SCHED" 0
let res_bytes = function
  | Ok b -> "OK " ^ hex b
  | Fail c -> "FAIL " ^ string_of_int (int_of_n c)
  | Crash w -> "CRASH " ^ string_of_int (int_of_nat w)
  | Hang -> "HANG"

let alg_of i = match Model.get_hasher (n_of_int i) with Some a -> a | None -> failwith "alg"

let rec z_of_int i = if i = 0 then Z0 else if i > 0 then Zpos (pos_of_int i) else Zneg (pos_of_int (-i))
let int_of_z = function Z0 -> 0 | Zpos p -> int_of_pos p | Zneg p -> - (int_of_pos p)

(* the successive load_buffer calls over an input, each followed (as the pipeline does after the worker has consumed
   every block) by export_buffer: "state:total:final:data>exported;..." *)
let loads_src c pad inp =
  let b = Buffer.create 1024 in
  let rec go s k =
    if k > 100000 then Buffer.add_string b "LOOP" else
    match Model.src_load pad s with
    | SErr w -> Buffer.add_string b ("ERR " ^ coqstr w)
    | SOk (((((ls, total), _tail), isfinal), data), s') ->
        let ls = int_of_z ls in
        Buffer.add_string b (Printf.sprintf "%d:%d:%d:%s" ls (int_of_z total) (int_of_z isfinal) (hex data));
        if ls <> 2 then begin
          (match Model.src_export pad total s' with
           | SOk o -> Buffer.add_string b (">" ^ hex o)
           | SErr w -> Buffer.add_string b (">ERR " ^ coqstr w))
        end;
        Buffer.add_char b ';';
        if ls = 0 then go s' (k + 1) in
  go (Model.iob_state c inp) 0;
  Buffer.contents b
let loads_model c pad inp =
  let b = Buffer.create 1024 in
  let ls = Model.loads_of c pad inp in
  List.iter (fun l ->
    let fin = l.Model.ld_final in
    Buffer.add_string b (Printf.sprintf "%d:%d:%d:%s" (if fin then 1 else 0) (int_of_nat l.Model.ld_total) (if fin then 1 else 0) (hex l.Model.ld_data));
    (match Model.export c pad { Model.ld_data = []; Model.ld_total = l.Model.ld_total; Model.ld_final = fin } l.Model.ld_data with
     | Ok o -> Buffer.add_string b (">" ^ hex o)
     | Crash w -> Buffer.add_string b (">CRASH " ^ string_of_int (int_of_nat w))
     | _ -> Buffer.add_string b ">?");
    Buffer.add_char b ';') ls;
  Buffer.contents b

let fk s = if s = "M" then FMissing else if s = "P" then FPlain else FWenc (nat_of_int (int_of_string (String.sub s 1 (String.length s - 1))))
let tok_of_string s =
  match String.split_on_char ':' s with
  | ["e"] -> T_e | ["d"] -> T_d | ["v"] -> T_v | ["V"] -> T_V | ["h"] -> T_h | ["n"] -> T_n
  | ["i"; l; d; f] -> T_i (l = "1", d = "1", fk f)
  | ["o"; b] -> T_o (b = "1")
  | ["k"; "I"] -> T_k KInvalid
  | ["k"; v] -> T_k (KValid (nat_of_int (int_of_string (String.sub v 1 (String.length v - 1)))))
  | ["c"; n] -> T_cmode (z_of_int (int_of_string n))
  | ["m"; n] -> T_hmode (z_of_int (int_of_string n))
  | _ -> T_other
let cpak_string (p : Model.cpak) =
  Printf.sprintf "PAK mode=%d ctype=%d htype=%d fp=%d out=%d key=%s no_echo=%d" (int_of_z p.c_mode) (int_of_z p.c_ctype) (int_of_z p.c_htype)
    (if p.c_fp then 1 else 0) (if p.c_out then 1 else 0) (match p.c_key with Some k -> hex k | None -> "NULL") (if p.c_no_echo then 1 else 0)

let handle_src (w : Stdlib.String.t list) : Stdlib.String.t =
  match w with
  | ["aes"; d; k; b] -> sres_bytes (Model.src_aes (d = "e") (unhex k) (unhex b))
  | [("mode" | "modes" | "modeu"); d; t; k; iv; data] ->
      let iv16 = Model.firstn (nat_of_int 16) (unhex iv) in
      (* through the translated factory and constructor chain (AesFactory::createCryMaster); Model.src_mode is the same
         without the factory and is what SRC_mode_stream is stated for *)
      (match Model.src_mode_factory (d = "e") (n_of_int (int_of_string t)) (unhex k) iv16 (blocks (unhex data)) with
       | SOk r -> hex (List.concat r)
       | SErr w -> let w = coqstr w in if w = "NULL" then "NULL" else "ERR " ^ w)
  | ["hstr"; a; data] -> sres_bytes (Model.src_hash_string (n_of_int (int_of_string a)) (unhex data))
  | ["hfile"; hb; a; pre; data] ->
      let pre = if pre = "-" then None else Some (unhex pre) in
      sres_bytes (Model.src_hash_file (nat_of_int (int_of_string hb)) (n_of_int (int_of_string a)) pre (unhex data))
  | ["b64e"; data] -> sres_bytes (Model.src_b64_encode (unhex data))
  | ["b64d"; s] ->
      let s = unhex s in
      (* the C++ driver decodes into a buffer large enough for any text: 3 bytes per 4 symbols + slack *)
      (* like the C++ driver: decode twice into differently pre-filled buffers, the written prefix is where they agree *)
      let cap = List.length s + 64 in
      (match Model.src_b64_decode (nat_of_int cap) (n_of_int 0xAA) s, Model.src_b64_decode (nat_of_int cap) (n_of_int 0x55) s with
       | SOk (ok, o1), SOk (_, o2) ->
           if not ok then "FALSE" else begin
             let rec pre a b = match a, b with x :: a', y :: b' when x = y -> x :: pre a' b' | _ -> [] in
             "OK " ^ hex (pre o1 o2) end
       | SErr w, _ | _, SErr w -> "ERR " ^ coqstr w)
  | ["b64v"; s] -> (match Model.src_b64_valid (unhex s) with SOk b -> if b then "1" else "0" | SErr w -> "ERR " ^ coqstr w)
  | ["key"; s] ->
      let s = unhex s in
      (match Model.src_b64_valid s with
       | SOk false -> "REJECT"
       | SOk true -> (match Model.src_b64_decode (nat_of_int 16) N0 s with
                      | SOk (true, o) -> "OK " ^ hex o
                      | SOk (false, _) -> "BAD"
                      | SErr w -> "OVERFLOW " ^ coqstr w)
       | SErr w -> "ERR " ^ coqstr w)
  | ["loads"; c; pad; inp] -> loads_src (nat_of_int (int_of_string c)) (pad = "1") (unhex inp)
  | ["hmac"; hb; hm; k; data] ->
      sres_bytes (Model.src_hmac (nat_of_int (int_of_string hb)) (n_of_int (int_of_string hm)) (unhex k) (unhex data) O)
  | ["cmph"; hb; hm; k; data; stored] ->
      (match Model.src_cmphmac (nat_of_int (int_of_string hb)) (n_of_int (int_of_string hm)) (unhex k) (unhex data) O (unhex stored) with
       | SOk b -> if b then "1" else "0" | SErr w -> "ERR " ^ coqstr w)
  (* whole-file operations from translated source only (SrcRun5): the pipeline runs under the thread semantics with a
     seed-driven scheduler (WV_SRC_SCHED; 0 = always the first enabled thread) *)
  | "enc" :: cm :: hm :: t :: k :: seed :: plain :: _ ->
      (match Model.src_encrypt_file (buf ()) (hbuf ()) (nat_of_int (int_of_string t)) (n_of_int (int_of_string cm)) (n_of_int (int_of_string hm))
               (unhex plain) (unhex k) (unhex seed) (n_of_int (sched_seed ())) with
       | SOk (((r, o), i), _) -> (if r then "OK " else "FAILED ") ^ hex o ^ (if i = unhex plain then "" else " INPUT-MODIFIED")
       | SErr w -> "ERR " ^ coqstr w)
  | ["dec"; t; k; f] ->
      (match Model.src_decrypt_file (buf ()) (hbuf ()) (nat_of_int (int_of_string t)) (unhex f) (unhex k) (n_of_int (sched_seed ())) with
       | SOk (((true, o), i), _) -> "OK " ^ hex o ^ (if i = unhex f then "" else " INPUT-MODIFIED")
       | SOk (((false, o), _), _) ->
           (* the result code is printed, not returned: it is the one verify() computes *)
           (match Model.src_verify (hbuf ()) (nat_of_int (int_of_string t)) (unhex f) (unhex k) with
            | SOk c -> "FAIL " ^ string_of_int (int_of_n c) ^ (if o = [] then "" else " OUTPUT " ^ hex o)
            | SErr w -> "ERR " ^ coqstr w)
       | SErr w -> "ERR " ^ coqstr w)
  | ["verw"; t; k; f] ->
      (match Model.src_verify_file (buf ()) (hbuf ()) (nat_of_int (int_of_string t)) (unhex f) (unhex k) (n_of_int (sched_seed ())) with
       | SOk (((true, o), _), _) -> "OK -" ^ (if o = [] then "" else " OUTPUT " ^ hex o)
       | SOk (((false, o), _), _) ->
           (match Model.src_verify (hbuf ()) (nat_of_int (int_of_string t)) (unhex f) (unhex k) with
            | SOk c -> "FAIL " ^ string_of_int (int_of_n c) ^ (if o = [] then "" else " OUTPUT " ^ hex o)
            | SErr w -> "ERR " ^ coqstr w)
       | SErr w -> "ERR " ^ coqstr w)
  | ["main"; opts; fopens] ->
      (* the whole program from translated source (SrcRun6.src_main): opts = code:arghex|- ,... ; fopens (call order) = - | =hex ,... *)
      let opt o = (match String.split_on_char ':' o with
                   | [c; "-"] -> (z_of_int (int_of_string c), None)
                   | [c; a] -> (z_of_int (int_of_string c), Some (unhex a))
                   | _ -> (z_of_int 63, None)) in
      let opts = if opts = "-" then [] else List.map opt (String.split_on_char ',' opts) in
      let fo f = if f = "-" then None else Some (unhex (String.sub f 1 (String.length f - 1))) in
      let fopens = if fopens = "" then [] else List.map fo (String.split_on_char ',' fopens) in
      (match Model.src_main (buf ()) (hbuf ()) opts fopens (n_of_int (sched_seed ())) with
       | SOk (rc, outs) -> Printf.sprintf "RC %d streams=%s" (int_of_z rc) (String.concat "|" (List.map hex outs))
       | SErr w -> "ERR " ^ coqstr w)
  | "encsnap" :: cm :: hm :: t :: k :: seed :: plain :: _ ->
      (* contents of the output stream after every machine step of the translated encryption that changed it *)
      (match Model.src_encrypt_snapshots (buf ()) (hbuf ()) (nat_of_int (int_of_string t)) (n_of_int (int_of_string cm)) (n_of_int (int_of_string hm))
               (unhex plain) (unhex k) (unhex seed) (n_of_int (sched_seed ())) with
       | SOk l -> "OK " ^ String.concat "," (List.map hex l)
       | SErr w -> "ERR " ^ coqstr w)
  | ["hist"; ops] ->
      (* library-level operations one after the other in ONE process image (the process layer of SrcRun5 is carried over):
         enc,CM,HM,T,KEY,SEED,PLAIN ; dec,T,KEY,FILE ; ver,T,KEY,FILE -- results in the format of the single operations *)
      let parse o =
        (match String.split_on_char ',' o with
         | ["enc"; cm; hm; t; k; seed; plain] ->
             Some { Model.h_op = Model.WEnc; h_T = nat_of_int (int_of_string t); h_cm = z_of_int (int_of_string cm); h_hm = z_of_int (int_of_string hm);
                    h_F = unhex plain; h_key = unhex k; h_extra = unhex seed }
         | [("dec" | "ver") as w; t; k; f] ->
             Some { Model.h_op = (if w = "dec" then Model.WDec else Model.WVer); h_T = nat_of_int (int_of_string t); h_cm = z_of_int (-1); h_hm = z_of_int (-1);
                    h_F = unhex f; h_key = unhex k; h_extra = [] }
         | _ -> None) in
      let ops = List.map parse (String.split_on_char ';' ops) in
      if List.mem None ops then "?" else begin
        let ops = List.map (function Some o -> o | None -> assert false) ops in
        let rs = Model.src_history (buf ()) (hbuf ()) ops (n_of_int (sched_seed ())) in
        let show (o, r) =
          (match r with
           | SErr w -> "ERR " ^ coqstr w
           | SOk (((ok, out), _), _) ->
               (match o.Model.h_op with
                | Model.WEnc -> (if ok then "OK " else "FAILED ") ^ hex out
                | w ->
                    let isdec = (w = Model.WDec) in
                    if ok then (if isdec then "OK " ^ hex out else "OK -" ^ (if out = [] then "" else " OUTPUT " ^ hex out))
                    else (match Model.src_verify (hbuf ()) o.Model.h_T o.Model.h_F o.Model.h_key with
                          | SOk c -> "FAIL " ^ string_of_int (int_of_n c) ^ (if out = [] then "" else " OUTPUT " ^ hex out)
                          | SErr w -> "ERR " ^ coqstr w))) in
        let rec zip a b = match a, b with x :: a', y :: b' -> (x, y) :: zip a' b' | _ -> [] in
        String.concat " ; " (List.map show (zip ops rs))
        ^ (if List.length rs < List.length ops then " ; (history ended)" else "")
      end
  | ["ver"; t; k; f] ->
      (match Model.src_verify (hbuf ()) (nat_of_int (int_of_string t)) (unhex f) (unhex k) with
       | SOk c -> if int_of_n c = 0 then "OK -" else "FAIL " ^ string_of_int (int_of_n c)
       | SErr w -> "ERR " ^ coqstr w)
  | ["conc"; t; pad; inp; sched] ->
      (* the TRANSLATED protocol (Gen/Src_conc.v) under the thread semantics MiniCConc, same schedule, same output format *)
      let t = nat_of_int (int_of_string t) and pad = (pad = "1") in
      let sched = if sched = "-" then [] else List.map (fun x -> nat_of_int (int_of_string x)) (String.split_on_char ',' sched) in
      (match Model.conc_src_run (buf ()) t pad (unhex inp) sched with
       | SErr w -> "BLOCKED " ^ coqstr w
       | SOk (cs, log) ->
           let b = Buffer.create 4096 in
           List.iter (fun ((tid, nen), evs) ->
             Buffer.add_string b (Printf.sprintf "C%d/%d" (int_of_nat tid) (int_of_nat nen));
             List.iter (fun ((k, o), v) ->
               let o = int_of_z o in
               (* 20 / 21 are the harness' window markers, not events of a step *)
               if int_of_z k <> 20 && int_of_z k <> 21 then
                 Buffer.add_string b (Printf.sprintf ",%d:%d:%d" (int_of_z k) (if o < 0 then 999 else o) (int_of_z v))) evs;
             Buffer.add_char b ';') log;
           Printf.sprintf "%s enabled=%d crashed=- out=%s log=%s"
             (if Model.all_done cs then "TERMINAL" else "RUNNING") (if Model.all_done cs then 0 else int_of_nat (Model.enabled_count0 cs))
             (hex (Model.conc_output cs)) (Buffer.contents b))
  | ["simrun"; t; pad; inp; sched] ->
      (* the executable simulation relation RefineConcSim.simb between PipeConc and the translated protocol under MiniCConc,
         evaluated initially and after every step of the schedule *)
      let t = nat_of_int (int_of_string t) and pad = (pad = "1") in
      let sched = if sched = "-" then [] else List.map (fun x -> nat_of_int (int_of_string x)) (String.split_on_char ',' sched) in
      (match Model.sim_run_full (buf ()) t pad (unhex inp) sched with
       | Model.RunOk -> "SIM ok"
       | Model.SimFails n -> Printf.sprintf "SIM relation-fails-after-step %d" (int_of_nat n)
       | Model.ModelStuck n -> Printf.sprintf "SIM model-stuck-at %d" (int_of_nat n)
       | Model.MachineStuck n -> Printf.sprintf "SIM machine-stuck-at %d" (int_of_nat n))
  | "clip" :: toks ->
      (match Model.src_cli_parse (List.map tok_of_string (List.filter (fun x -> x <> "") toks)) with
       | SOk None -> "NULL" | SOk (Some p) -> cpak_string p | SErr w -> "ERR " ^ coqstr w)
  | ["hdr"; t; cm; hm; k; seed] ->
      sres_bytes (Model.src_header (hbuf ()) (nat_of_int (int_of_string t)) (n_of_int (int_of_string cm)) (n_of_int (int_of_string hm)) (unhex k) (unhex seed))
  | _ -> "?"

let handle (w : Stdlib.String.t list) : Stdlib.String.t =
  if !src then handle_src w else
  match w with
  | ["loads"; c; pad; inp] -> loads_model (nat_of_int (int_of_string c)) (pad = "1") (unhex inp)
  | ["aesprobe"; k; target; r] ->
      (* plaintext whose state entering MixColumns in round r (1..9) is `target` (FIPS-197 layout), by running the spec backwards *)
      let k = unhex k and t = unhex target and r = int_of_string r in
      let ks = Model.keyExpansion k in
      let s = ref (Model.invSubBytes (Model.invShiftRows t)) in
      for i = r - 1 downto 1 do
        s := Model.invSubBytes (Model.invShiftRows (Model.invMixColumns (Model.addRoundKey !s (Model.rk ks (nat_of_int i)))))
      done;
      hex (Model.addRoundKey !s (Model.rk ks (nat_of_int 0)))
  | ["aes"; d; k; b] ->
      let k = unhex k and b = unhex b in
      hex (if !spec then (if d = "e" then Model.cipher k b else Model.invCipher k b)
           else (if d = "e" then Model.aes_enc k b else Model.aes_dec k b))
  | [("mode" | "modes" | "modeu"); d; t; k; iv; data] ->
      let k = unhex k and iv = unhex iv and bs = blocks (unhex data) in
      let t = n_of_int (int_of_string t) in
      let iv16 = Model.firstn (nat_of_int 16) iv in
      if !spec then begin
        let e = Model.cipher k and dd = Model.invCipher k in
        match (if d = "e" then Model.mode_enc e t iv16 bs else Model.mode_dec e dd t iv16 bs) with
        | Some r -> hex (List.concat r) | None -> "NULL"
      end else begin
        match Model.create (d = "e") t with
        | None -> "NULL"
        | Some kind ->
            let ks = Model.genall k in
            let (_, r) = Model.run (Model.aes_enc_with ks) (Model.aes_dec_with ks) kind iv16 bs in
            hex (List.concat r)
      end
  | ["hstr"; a; data] ->
      let a = int_of_string a and m = unhex data in
      hex (if !spec then Model.hash_spec (n_of_int a) m else Model.getStringHash (alg_of a) m)
  | ["hfile"; hb; a; pre; data] ->
      let a = int_of_string a and m = unhex data in
      let pre = if pre = "-" then None else Some (unhex pre) in
      if !spec then hex (Model.hash_spec (n_of_int a) ((match pre with None -> [] | Some p -> p) @ m))
      else (match Model.getFileHash (nat_of_int (int_of_string hb)) (alg_of a) pre m with
            | Some d -> hex d | None -> "NOFUEL")
  | ["hmac"; hb; hm; k; data] ->
      let hm = int_of_string hm and k = unhex k and m = unhex data in
      if !spec then hex (Model.hmac_spec (Model.hash_spec (n_of_int hm)) k m)
      else (match Model.hmac_model (nat_of_int (int_of_string hb)) (n_of_int hm) k m with
            | Some d -> hex d | None -> "NULL")
  | ["cmph"; hb; hm; k; data; stored] ->
      let hm = int_of_string hm and k = unhex k and m = unhex data and st = unhex stored in
      if !spec then begin
        let t = Model.hmac_spec (Model.hash_spec (n_of_int hm)) k m in
        if Model.list_eqb t (Model.firstn (Model.length t) st) then "1" else "0"
      end else (match Model.hmac_model (nat_of_int (int_of_string hb)) (n_of_int hm) k m with
            | Some d -> if Model.cmphmac d st then "1" else "0" | None -> "NULL")
  | ["b64e"; data] ->
      let m = unhex data in
      hex (if !spec then Model.encode m @ [N0] else Model.hex_to_base64 m)
  | ["b64d"; s] ->
      let s = unhex s in
      if !spec then (match Model.decode s with Some o -> "OK " ^ hex o | None -> "INVALID")
      else (match Model.base64_to_hex s with
            | DecOk o -> "OK " ^ hex o | DecFalse -> "FALSE" | DecOOB -> "OOB")
  | ["b64v"; s] ->
      let s = unhex s in
      if !spec then
        (if List.length s = 24 then
           (match Model.decode s with Some o when List.length o = 16 -> "1" | _ -> "0") else "0")
      else (if Model.is_valid_b64 s then "1" else "0")
  | ["key"; s] ->
      let s = unhex s in
      if !spec then (match Model.decode s with Some o when List.length o = 16 && List.length s = 24 -> "OK " ^ hex o | _ -> "REJECT")
      else if not (Model.is_valid_b64 s) then "REJECT"
      else (match Model.get_key s with
            | KeyOk k -> "OK " ^ hex k
            | KeyOverflow n -> "OVERFLOW " ^ string_of_int (int_of_nat n)
            | KeyBad -> "BAD")
  | "enc" :: cm :: hm :: t :: k :: seed :: plain :: _ ->
      let cm = n_of_int (int_of_string cm) and hm = n_of_int (int_of_string hm) and t = nat_of_int (int_of_string t) in
      let k = unhex k and seed = unhex seed and plain = unhex plain in
      if !spec then (match Model.wenc_spec (buf ()) t plain k cm hm seed with Some f -> "OK " ^ hex f | None -> "NONE")
      else res_bytes (Model.enc (buf ()) (hbuf ()) t plain k cm hm seed)
  | ["encw"; cm; hm; t; k; seed; plain] ->
      let cm = n_of_int (int_of_string cm) and hm = n_of_int (int_of_string hm) and t = nat_of_int (int_of_string t) in
      (match Model.enc_writes (buf ()) (hbuf ()) t (unhex plain) (unhex k) cm hm (unhex seed) with
       | Ok ws -> "OK " ^ String.concat "," (List.map (fun (o, b) -> Printf.sprintf "%d:%s" (int_of_nat o) (hex b)) ws)
       | Fail c -> "FAIL " ^ string_of_int (int_of_n c) | Crash w -> "CRASH " ^ string_of_int (int_of_nat w) | Hang -> "HANG")
  | ["dec"; t; k; f] ->
      res_bytes (Model.dec (buf ()) (hbuf ()) (nat_of_int (int_of_string t)) (unhex f) (unhex k))
  | ["ver"; t; k; f] ->
      (match Model.verify (hbuf ()) (unhex f) (unhex k) with
       | Ok c -> if int_of_n c = 0 then "OK -" else "FAIL " ^ string_of_int (int_of_n c)
       | Fail c -> "FAIL " ^ string_of_int (int_of_n c) | Crash w -> "CRASH " ^ string_of_int (int_of_nat w) | Hang -> "HANG")
  | ["conc"; t; pad; inp; sched] ->
      (* model execution of the abstract pipeline under a given schedule: prints the event log *)
      let t = nat_of_int (int_of_string t) and pad = (pad = "1") in
      let sched = if sched = "-" then [] else List.map (fun x -> nat_of_int (int_of_string x)) (String.split_on_char ',' sched) in
      (match Model.tag_run (buf ()) t pad (unhex inp) sched with
       | None -> "BLOCKED"
       | Some (st, log) ->
           let b = Buffer.create 4096 in
           List.iter (fun ((tid, nen), evs) ->
             Buffer.add_string b (Printf.sprintf "C%d/%d" (int_of_nat tid) (int_of_nat nen));
             List.iter (fun ((k, o), v) -> Buffer.add_string b (Printf.sprintf ",%d:%d:%d" (int_of_nat k) (int_of_nat o) (int_of_nat v))) evs;
             Buffer.add_char b ';') log;
           let out = List.concat (Model.output st) in
           Printf.sprintf "%s enabled=%d crashed=%s out=%s log=%s"
             (if Model.terminal st then "TERMINAL" else "RUNNING") (int_of_nat (Model.enabled_count Model.tag_tr Model.tag_event (buf ()) pad st))
             (match Model.crashed st with None -> "-" | Some w -> string_of_int (int_of_nat w)) (hex out) (Buffer.contents b))
  | "clip" :: toks ->
      (match Model.cli_parse (List.map tok_of_string (List.filter (fun x -> x <> "") toks)) with
       | None -> "NULL" | Some p -> cpak_string (Model.abs_pak p))
  | "cli" :: toks ->
      let fk s = if s = "M" then FMissing else if s = "P" then FPlain else FWenc (nat_of_int (int_of_string (String.sub s 1 (String.length s - 1)))) in
      let tok s =
        match String.split_on_char ':' s with
        | ["e"] -> T_e | ["d"] -> T_d | ["v"] -> T_v | ["V"] -> T_V | ["h"] -> T_h | ["n"] -> T_n
        | ["i"; l; d; f] -> T_i (l = "1", d = "1", fk f)
        | ["o"; b] -> T_o (b = "1")
        | ["k"; "I"] -> T_k KInvalid
        | ["k"; v] -> T_k (KValid (nat_of_int (int_of_string (String.sub v 1 (String.length v - 1)))))
        | ["c"; n] -> T_cmode (z_of_int (int_of_string n))
        | ["m"; n] -> T_hmode (z_of_int (int_of_string n))
        | _ -> T_other in
      (match Model.cli (List.map tok (List.filter (fun x -> x <> "") toks)) with
       | Crash0 -> "CRASH"
       | Exit (c, d, op) ->
           Printf.sprintf "EXIT %d diag=%d op=%s" (int_of_z c) (if d then 1 else 0)
             (match op with None -> "-" | Some (m, ok) -> Printf.sprintf "%d:%d" (int_of_z m) (if ok then 1 else 0)))
  | _ -> "?"

let () =
  if Array.length Sys.argv > 1 && Sys.argv.(1) = "spec" then spec := true;
  if Array.length Sys.argv > 1 && Sys.argv.(1) = "src" then src := true;
  try
    while true do
      let line = input_line stdin in
      match String.split_on_char ' ' (String.trim line) with
      | id :: rest when id <> "" ->
          let rest = (match rest with
                      | t :: r when String.length t > 3 && String.sub t 0 3 = "@S=" ->
                          line_seed := (try int_of_string (String.sub t 3 (String.length t - 3)) with _ -> 0); r
                      | _ -> line_seed := -1; rest) in
          let r = (try handle rest with e -> "EXC " ^ Printexc.to_string e) in
          print_string id; print_char ' '; print_string r; print_newline ()
      | _ -> ()
    done
  with End_of_file -> ()
