// Implementation-side driver of the correspondence check.  Linked against the
// sources of /repo's current working tree.  Reads case lines "<id> <cmd> <args...>"
// on stdin, writes "<id> <result>" on the original stdout (fd 1 is redirected to
// /dev/null because the library prints progress there).
#define _GNU_SOURCE 1
#include "cry.h"
#include "hashbuffer.h"
#include "hashmaster.h"
#include "aesmode.h"
#include "aes.h"
#include "base64.h"
#include "getval.h"
#include <pthread.h>
#include <stdint.h>
#include <stdio.h>
#include <stdlib.h>
#include <string.h>
#include <string>
#include <vector>
#include <sstream>
#include <iostream>
#include <unistd.h>
#include <dirent.h>
#include <errno.h>
#include <fcntl.h>
#include <signal.h>
#include <sys/wait.h>
#include <sys/time.h>
#include <time.h>

typedef std::vector<unsigned char> bytes;
// ---- allocation-failure injection (WV_FAIL_ALLOC=k in the child's environment): the k-th allocation made through operator new
// while armed (= inside the library call of dec / ver) fails: std::bad_alloc, or NULL for the nothrow forms.  Not under sanitizers.
#if !defined(__SANITIZE_ADDRESS__) && !defined(__SANITIZE_THREAD__) && !defined(WENCRY_VERIF_SHIM_H)
#include <new>
static volatile long wv_alloc_fail_at = 0, wv_alloc_count = 0;
static volatile bool wv_alloc_armed = false;
static inline bool wv_alloc_fails()
{
  return wv_alloc_armed && wv_alloc_fail_at > 0 && __sync_add_and_fetch(&wv_alloc_count, 1) == wv_alloc_fail_at;
}
void *operator new(size_t n)
{
  if (wv_alloc_fails())
    throw std::bad_alloc();
  void *p = malloc(n ? n : 1);
  if (!p)
    throw std::bad_alloc();
  return p;
}
void *operator new[](size_t n) { return operator new(n); }
void *operator new(size_t n, const std::nothrow_t &) noexcept { return wv_alloc_fails() ? NULL : malloc(n ? n : 1); }
void *operator new[](size_t n, const std::nothrow_t &) noexcept { return wv_alloc_fails() ? NULL : malloc(n ? n : 1); }
void operator delete(void *p) noexcept { free(p); }
void operator delete[](void *p) noexcept { free(p); }
void operator delete(void *p, size_t) noexcept { free(p); }
void operator delete[](void *p, size_t) noexcept { free(p); }
static void wv_alloc_arm(bool on)
{
  if (on && getenv("WV_FAIL_ALLOC"))
    wv_alloc_fail_at = atol(getenv("WV_FAIL_ALLOC"));
  wv_alloc_armed = on;
}
#else
static void wv_alloc_arm(bool) {}
#endif
static FILE *res = NULL;
static std::string scratch = "/tmp";
static int op_timeout_ms = 5000;

static bytes unhex(const std::string &s)
{
  bytes b;
  if (s == "-")
    return b;
  for (size_t i = 0; i + 1 < s.size(); i += 2)
    b.push_back((unsigned char)strtol(s.substr(i, 2).c_str(), NULL, 16));
  return b;
}
static std::string hex(const unsigned char *p, size_t n)
{
  if (n == 0)
    return "-";
  static const char *d = "0123456789abcdef";
  std::string s;
  s.reserve(2 * n);
  for (size_t i = 0; i < n; ++i)
  {
    s.push_back(d[p[i] >> 4]);
    s.push_back(d[p[i] & 15]);
  }
  return s;
}
static std::string hex(const bytes &b) { return hex(b.data(), b.size()); }

// ---- memory-backed output stream that logs every write reaching it (below stdio) ----
struct memfile
{
  bytes data;
  size_t pos = 0;
  std::vector<std::pair<size_t, size_t>> wlog; // (offset, length)
  bytes wbytes;                                  // concatenation of written bytes
  size_t reads = 0;
  size_t fail_total = (size_t)-1; // after this many bytes have been delivered in total, reads fail with EIO (a read error, not EOF)
  size_t delivered = 0;
  size_t wfail_total = (size_t)-1; // after this many bytes have been accepted in total, writes fail with ENOSPC (device full)
  size_t accepted = 0;
};
static ssize_t mf_read(void *c, char *buf, size_t n)
{
  memfile *m = (memfile *)c;
  size_t avail = m->pos < m->data.size() ? m->data.size() - m->pos : 0;
  if (n > avail)
    n = avail;
  if (m->delivered >= m->fail_total)
  {
    errno = EIO;
    return -1;
  }
  if (m->delivered + n > m->fail_total)
    n = m->fail_total - m->delivered;
  memcpy(buf, m->data.data() + m->pos, n);
  m->pos += n;
  m->delivered += n;
  m->reads++;
  return n;
}
static ssize_t mf_write(void *c, const char *buf, size_t n)
{
  memfile *m = (memfile *)c;
  if (m->accepted >= m->wfail_total)
  {
    errno = ENOSPC;
    return 0;       // a cookie write function reports an error by returning 0
  }
  if (m->accepted + n > m->wfail_total)
    n = m->wfail_total - m->accepted;
  m->accepted += n;
  if (m->pos + n > (64u << 20))
  {
    // a write of more than 64 MiB to the output of a small test file: size underflow in export_buffer
    if (res)
      fflush(res);
    _exit(45);
  }
  if (m->pos + n > m->data.size())
    m->data.resize(m->pos + n, 0);
  memcpy(m->data.data() + m->pos, buf, n);
  m->wlog.push_back(std::make_pair(m->pos, n));
  m->wbytes.insert(m->wbytes.end(), buf, buf + n);
  m->pos += n;
  return n;
}
static int mf_seek(void *c, off64_t *off, int whence)
{
  memfile *m = (memfile *)c;
  off64_t np;
  if (whence == SEEK_SET)
    np = *off;
  else if (whence == SEEK_CUR)
    np = (off64_t)m->pos + *off;
  else
    np = (off64_t)m->data.size() + *off;
  if (np < 0)
    return -1;
  m->pos = np;
  *off = np;
  return 0;
}
static int mf_close(void *) { return 0; }
static FILE *open_mem(memfile *m, const char *mode, bool unbuffered)
{
  cookie_io_functions_t io = {mf_read, mf_write, mf_seek, mf_close};
  FILE *f = fopencookie(m, mode, io);
  if (unbuffered)
    setvbuf(f, NULL, _IONBF, 0);
  return f;
}

// ---- real temporary input file ----
static std::string write_tmp(const bytes &b)
{
  std::string p = scratch + "/wv_in_XXXXXX";
  std::vector<char> t(p.begin(), p.end());
  t.push_back(0);
  int fd = mkstemp(t.data());
  if (fd < 0)
  {
    perror("mkstemp");
    _exit(3);
  }
  size_t off = 0;
  while (off < b.size())
  {
    ssize_t w = write(fd, b.data() + off, b.size() - off);
    if (w <= 0)
      break;
    off += w;
  }
  close(fd);
  return std::string(t.data());
}
static bytes read_file(const std::string &p)
{
  bytes b;
  FILE *f = fopen(p.c_str(), "rb");
  if (!f)
    return b;
  unsigned char buf[65536];
  size_t n;
  while ((n = fread(buf, 1, sizeof buf, f)) > 0)
    b.insert(b.end(), buf, buf + n);
  fclose(f);
  return b;
}

static std::string wlog_str(const memfile &m)
{
  std::ostringstream o;
  if (m.wlog.empty())
    return "-";
  for (size_t i = 0; i < m.wlog.size(); ++i)
    o << (i ? "," : "") << m.wlog[i].first << ":" << m.wlog[i].second;
  return o.str();
}

// ---- capture of what the library prints on fd 1 (result texts) ----
static std::string cap_path;
static void cap_begin()
{
  cap_path = scratch + "/wv_cap_XXXXXX";
  std::vector<char> t(cap_path.begin(), cap_path.end());
  t.push_back(0);
  int fd = mkstemp(t.data());
  cap_path = t.data();
  fflush(stdout);
  dup2(fd, 1);
  close(fd);
}
static std::string cap_end()
{
  fflush(stdout);
  std::cout.flush();
  bytes b = read_file(cap_path);
  unlink(cap_path.c_str());
  int nul = open("/dev/null", O_WRONLY);
  dup2(nul, 1);
  close(nul);
  return std::string(b.begin(), b.end());
}
// the caller's key buffer at every alignment: the key is placed at offset (first key byte & 7) of an aligned store, so that
// random keys exercise all eight residues (code that reads the key in words must not depend on where the caller keeps it)
static u8_t *place_key(const bytes &k)
{
  alignas(16) static thread_local u8_t store[4][96];      // per thread: the op `par` calls this from several threads
  static thread_local int slot = 0;
  u8_t *base = store[slot++ & 3];
  size_t off = k.empty() ? 0 : (k[0] & 7);
  memset(base, 0xA5, 96);
  memcpy(base + off, k.data(), k.size() < 80 ? k.size() : 80);
  return base + off;
}
// A caller may keep ONE buffer for its key / its IV seed and use it for several operations: within one process (= one history)
// the same key or seed value is handed to the library in the same buffer again, with whatever an earlier operation left in it.
#include <map>
static u8_t *persistent_arg(const bytes &v, size_t align_off)
{
  static std::map<std::string, u8_t *> store;
  std::string k = hex(v) + "/" + std::to_string(align_off);
  auto it = store.find(k);
  if (it != store.end())
    return it->second;
  u8_t *base = (u8_t *)malloc(v.size() + 64);
  memset(base, 0xA5, v.size() + 64);
  memcpy(base + align_off, v.data(), v.size());
  store[k] = base + align_off;
  return base + align_off;
}
static int result_code(const std::string &txt)
{
  if (txt.find("Verification passed!") != std::string::npos || txt.find("Decryption is over!") != std::string::npos)
    return 0;
  if (txt.find("Input file is too short.") != std::string::npos)
    return 1;
  if (txt.find("Wrong key or File not complete.") != std::string::npos)
    return 2;
  if (txt.find("Aes / hash mode not match.") != std::string::npos)
    return 3;
  if (txt.find("Wrong magic number.") != std::string::npos)
    return 4;
  return -1;
}

// ---- file-level operations (run inside a forked child) ----
// enc CM HM T KEY SEED PLAIN [nobuf]
static std::string op_enc(const std::vector<std::string> &a)
{
  int cm = atoi(a[1].c_str()), hm = atoi(a[2].c_str()), T = atoi(a[3].c_str());
  bytes key = unhex(a[4]), seed = unhex(a[5]), plain = unhex(a[6]);
  bool nobuf = a.size() > 7 && a[7] == "nobuf";
  size_t announced = plain.size();      // trailing "fsize=N": the size the caller ANNOUNCES (documented as progress information only)
  if (a.back().compare(0, 6, "fsize=") == 0)
    announced = strtoull(a.back().c_str() + 6, NULL, 10);
  seed.push_back(0);
  std::string inpath = write_tmp(plain);
  FILE *fin = fopen(inpath.c_str(), "rb");
  memfile out;
  FILE *fo = open_mem(&out, "w+", nobuf);
  bool r;
  {
    Settings st(cm, hm, true);
    key.resize(16);
    runcrypt rc(fin, fo, persistent_arg(key, key[0] & 7), st, (u8_t)T);
    r = rc.execute_encrypt(announced, persistent_arg(seed, 0));
  }
  bytes after = read_file(inpath);
  unlink(inpath.c_str());
  std::ostringstream o;
  o << (r ? "OK " : "FAILED ") << hex(out.data) << " | wlog=" << wlog_str(out) << " inmod=" << (after == plain ? 0 : 1) << " wdata=" << hex(out.wbytes);
  return o.str();
}
// encf CM HM T KEY SEED PLAIN FAILAT | decf T KEY FILE FAILAT : the same operations on an input stream whose reads start
// failing with EIO once FAILAT bytes have been delivered in total (over all passes); an optional further field WFAILAT makes
// writes to the OUTPUT stream fail (ENOSPC) once that many bytes have been accepted; only termination is of interest
static std::string op_fault(const std::vector<std::string> &a)
{
  bool enc = a[0] == "encf";
  memfile in, out;
  FILE *fo = open_mem(&out, "w+", a.back() == "nobuf");   // unbuffered: a failing write is reported by the fwrite that made it
  bool r;
  if (enc)
  {
    int cm = atoi(a[1].c_str()), hm = atoi(a[2].c_str()), T = atoi(a[3].c_str());
    bytes key = unhex(a[4]), seed = unhex(a[5]);
    in.data = unhex(a[6]);
    in.fail_total = strtoull(a[7].c_str(), NULL, 10);
    if (a.size() > 8 && a[8] != "nobuf")
      out.wfail_total = strtoull(a[8].c_str(), NULL, 10);
    seed.push_back(0);
    FILE *fin = open_mem(&in, "r", false);
    Settings st(cm, hm, true);
    runcrypt rc(fin, fo, place_key(key), st, (u8_t)T);
    r = rc.execute_encrypt(in.data.size(), seed.data());
  }
  else
  {
    int T = atoi(a[1].c_str());
    bytes key = unhex(a[2]);
    in.data = unhex(a[3]);
    in.fail_total = strtoull(a[4].c_str(), NULL, 10);
    if (a.size() > 5 && a[5] != "nobuf")
      out.wfail_total = strtoull(a[5].c_str(), NULL, 10);
    FILE *fin = open_mem(&in, "r", false);
    Settings st(-1, -1, true);
    runcrypt rc(fin, fo, place_key(key), st, (u8_t)T);
    r = rc.execute_decrypt(in.data.size());
  }
  std::ostringstream o;
  o << "RETURNED " << (r ? 1 : 0) << " | outlen=" << out.data.size() << " delivered=" << in.delivered;
  return o.str();
}
// dec T KEY FILE   |  ver T KEY FILE
static std::string op_decver(const std::vector<std::string> &a, bool dec)
{
  int T = atoi(a[1].c_str());
  bytes key = unhex(a[2]), file = unhex(a[3]);
  std::string inpath = write_tmp(file);
  size_t announced = file.size();       // trailing "fsize=N": a stale size (the file grew after it was measured)
  bool through_pipe = false;            // trailing "pipe": the input arrives through a pipe (not seekable)
  for (size_t q = 4; q < a.size(); ++q)
  {
    if (a[q].compare(0, 6, "fsize=") == 0)
      announced = strtoull(a[q].c_str() + 6, NULL, 10);
    if (a[q] == "pipe")
      through_pipe = true;
  }
  FILE *fin;
  pid_t feeder = -1;
  if (through_pipe)
  {
    int pfd[2];
    if (pipe(pfd) != 0)
      return "PIPE-FAILED";
    feeder = fork();
    if (feeder == 0)
    {
      close(pfd[0]);
      size_t off = 0;
      while (off < file.size())
      {
        ssize_t w = write(pfd[1], file.data() + off, file.size() - off);
        if (w <= 0)
          break;
        off += w;
      }
      _exit(0);
    }
    close(pfd[1]);
    fin = fdopen(pfd[0], "rb");
  }
  else
    fin = fopen(inpath.c_str(), "rb");
  memfile out;
  FILE *fo = open_mem(&out, "w+", false);
  bool r;
  cap_begin();
  {
    Settings st(-1, -1, false);
    key.resize(16);
    u8_t *kp = persistent_arg(key, key[0] & 7);
    wv_alloc_arm(true);
    runcrypt rc(fin, fo, kp, st, (u8_t)T);
    r = dec ? rc.execute_decrypt(announced) : rc.execute_verify(announced);
    wv_alloc_arm(false);
  }
  if (feeder > 0)
  {
    kill(feeder, SIGKILL);
    int st;
    waitpid(feeder, &st, 0);
  }
  int code = result_code(cap_end());
  bytes after = read_file(inpath);
  unlink(inpath.c_str());
  std::ostringstream o;
  if (r)
    o << "OK " << (dec ? hex(out.data) : std::string("-"));
  else
    o << "FAIL " << code;
  o << " | flag=" << (r ? 1 : 0) << " code=" << code << " outlen=" << out.data.size() << " nwrites=" << out.wlog.size() << " inmod=" << (after == file ? 0 : 1);
  return o.str();
}

// ---- path-based operations for large files (production constants) ----
// encp CM HM T KEY SEED INPATH OUTPATH [ANNOUNCED-SIZE]   |  decp T KEY INPATH OUTPATH  |  verp T KEY INPATH
static std::string op_paths(const std::vector<std::string> &a)
{
  bool r;
  if (a[0] == "encp")
  {
    bytes key = unhex(a[4]), seed = unhex(a[5]);
    seed.push_back(0);
    FILE *fin = fopen(a[6].c_str(), "rb");
    FILE *fo = fopen(a[7].c_str(), "wb+");
    fseek(fin, 0, SEEK_END);
    size_t sz = ftell(fin);
    fseek(fin, 0, SEEK_SET);
    if (a.size() > 8)       // the size the caller ANNOUNCES (it is documented as progress information only)
      sz = strtoull(a[8].c_str(), NULL, 10);
    Settings st(atoi(a[1].c_str()), atoi(a[2].c_str()), true);
    runcrypt rc(fin, fo, place_key(key), st, (u8_t)atoi(a[3].c_str()));
    r = rc.execute_encrypt(sz, seed.data());
  }
  else
  {
    bool dec = a[0] == "decp";
    bytes key = unhex(a[2]);
    FILE *fin = fopen(a[3].c_str(), "rb");
    FILE *fo = dec ? fopen(a[4].c_str(), "wb+") : NULL;
    fseek(fin, 0, SEEK_END);
    size_t sz = ftell(fin);
    fseek(fin, 0, SEEK_SET);
    Settings st(-1, -1, true);
    runcrypt rc(fin, fo, place_key(key), st, (u8_t)atoi(a[1].c_str()));
    r = dec ? rc.execute_decrypt(sz) : rc.execute_verify(sz);
  }
  return r ? "OK -" : "FAIL";
}

// ---- abstract pipeline: the buffer group and worker threads with tagging stream objects ----
// stream s marks the n-th block it sees: bytes 0..7 ^= s+1, byte 8 ^= n (mod 256)
class TagMode : public Aesmode
{
  int s;
  unsigned n;

public:
  TagMode(const u8_t *iv, int s) : Aesmode(iv), s(s), n(0) {}
  virtual void runcry(u8_t *block) override
  {
#ifdef WENCRY_VERIF_SHIM_H
    vsched::log_event(WV_EV_RUNCRY, s, n);
#endif
    for (int i = 0; i < 8; ++i)
      block[i] ^= (u8_t)(s + 1);
    block[8] ^= (u8_t)n;
    n++;
  }
};
// pipe T ISPADDING INPUT
static std::string op_pipe(const std::vector<std::string> &a)
{
  int T = atoi(a[1].c_str());
  bool ispadding = atoi(a[2].c_str()) != 0;
  bytes input = unhex(a[3]);
  std::string inpath = write_tmp(input);
  FILE *fin = fopen(inpath.c_str(), "rb");
  memfile out;
  FILE *fo = open_mem(&out, "w+", false);
  u8_t iv[16] = {0};
  std::vector<Aesmode *> modes;
  for (int i = 0; i < T; ++i)
    modes.push_back(new TagMode(iv, i));
  buffergroup *g = buffergroup::get_instance();
  g->set_buffergroup(T, fin, fo, ispadding);
  multicry_master crym(T);
#ifdef WENCRY_VERIF_SHIM_H
  vsched::log_event(20, T, 0);
#endif
  crym.run_multicry(modes.data(), [](std::string, size_t) -> void {});
#ifdef WENCRY_VERIF_SHIM_H
  vsched::log_event(21, T, 0);
#endif
  buffergroup::del_instance();
  fflush(fo);
  fclose(fin);
  unlink(inpath.c_str());
  return "OK " + hex(out.data);
}

// ---- the option-driven front end, in process (what main.cpp does after argc > 1) ----
// cli OUTPATH|- ARG ARG ...   -> "RC <exit status> out=<hex of OUTPATH after the call>"
static std::vector<std::string> split(const std::string &s, char sep);
static std::string op_cli(const std::vector<std::string> &a)
{
  std::vector<std::string> args(a.begin() + 2, a.end());
  std::vector<char *> argv;
  std::string prog = "Wencry";
  argv.push_back((char *)prog.c_str());
  for (auto &x : args)
    argv.push_back((char *)x.c_str());
  argv.push_back(NULL);
  int argc = (int)argv.size() - 1;
  int rc;
  unsigned char *vals = get_v_opt(argc, argv.data());
  if (vals == NULL)
    rc = 1;
  else
  {
    vpak_t *v = (vpak_t *)vals;
    if (v->mode == 'V' || v->mode == 'h')
      rc = 0;
    else
    {
      Settings settings(v->ctype, v->htype, v->no_echo);
      bool flag = false;
      runcrypt runner(v->fp, v->out, v->key, settings);
      if (v->mode == 'e' || v->mode == 'E')
        flag = runner.execute_encrypt(v->size, v->r_buf);
      else if (v->mode == 'd' || v->mode == 'D')
        flag = runner.execute_decrypt(v->size);
      else if (v->mode == 'v')
        flag = runner.execute_verify(v->size);
      rc = flag ? 0 : 255;
    }
  }
  std::string r = "RC " + std::to_string(rc);
  if (a[1] != "-")
  {
    bytes o = read_file(a[1]);
    r += " outlen=" + std::to_string(o.size()) + " out=" + hex(o);
  }
  return r;
}

static std::vector<std::string> split(const std::string &s, char sep)
{
  std::vector<std::string> v;
  std::string cur;
  std::istringstream is(s);
  while (std::getline(is, cur, sep))
    if (!cur.empty())
      v.push_back(cur);
  return v;
}

static int count_fds()
{
  int n = 0;
  DIR *d = opendir("/proc/self/fd");
  if (!d)
    return -1;
  while (readdir(d))
    n++;
  closedir(d);
  return n;
}
static std::string run_fileop(const std::vector<std::string> &a)
{
  if (a[0] == "enc")
    return op_enc(a);
  if (a[0] == "encf" || a[0] == "decf")
    return op_fault(a);
  if (a[0] == "dec")
    return op_decver(a, true);
  if (a[0] == "ver")
    return op_decver(a, false);
  if (a[0] == "pipe")
    return op_pipe(a);
  if (a[0] == "cli")
    return op_cli(a);
  if (a[0] == "encp" || a[0] == "decp" || a[0] == "verp")
    return op_paths(a);
  return "?";
}

// runs f in a forked child with a watchdog; the child prints its own result
static std::string child_opts; // "k=v,k=v" environment for the child (scheduler seed/replay/log)
static void isolated(const std::string &id, const std::vector<std::vector<std::string>> &ops)
{
  fflush(res);
  pid_t pid = fork();
  if (pid == 0)
  {
    for (auto &kv : split(child_opts, ','))
    {
      size_t e = kv.find('=');
      if (e != std::string::npos)
        setenv(kv.substr(0, e).c_str(), kv.substr(e + 1).c_str(), 1);
    }
    std::string r;
    for (size_t i = 0; i < ops.size(); ++i)
    {
      std::string one = run_fileop(ops[i]);
      // descriptors open after the operation: a handle an operation leaves open shows up as a count that grows along a history
      if (getenv("WV_COUNT_FDS"))
        one += (one.find(" | ") == std::string::npos ? " | fds=" : " fds=") + std::to_string(count_fds());
      r += (i ? " ; " : "") + one;
    }
    fprintf(res, "%s %s\n", id.c_str(), r.c_str());
    fflush(res);
#ifdef WENCRY_VERIF_SHIM_H
    vsched::finish("OK");
#endif
    _exit(0);
  }
  int status = 0;
  int waited = 0;
  while (true)
  {
    pid_t w = waitpid(pid, &status, WNOHANG);
    if (w == pid)
      break;
    if (waited >= op_timeout_ms)
    {
      kill(pid, SIGKILL);
      waitpid(pid, &status, 0);
      fprintf(res, "%s HANG\n", id.c_str());
      fflush(res);
      return;
    }
    usleep(2000);
    waited += 2;
  }
  if (WIFSIGNALED(status))
    fprintf(res, "%s CRASH sig=%d\n", id.c_str(), WTERMSIG(status));
  else if (WEXITSTATUS(status) == 42)
    fprintf(res, "%s DEADLOCK\n", id.c_str());
  else if (WEXITSTATUS(status) == 43)
    fprintf(res, "%s LIVELOCK\n", id.c_str());
  else if (WEXITSTATUS(status) == 45)
    fprintf(res, "%s CRASH oversize-write\n", id.c_str());
  else if (WEXITSTATUS(status) == 44)
    fprintf(res, "%s REPLAY-DIVERGED\n", id.c_str());
  else if (WEXITSTATUS(status) != 0)
    fprintf(res, "%s EXIT %d\n", id.c_str(), WEXITSTATUS(status));
  fflush(res);
}

// results computed DURING STATIC INITIALISATION of this translation unit (which is linked before the library's objects): a library
// that prepares tables in static initialisers of its own must still give the standard answers to a caller running that early
struct StaticInitProbe
{
  unsigned char enc[16], dec[16], dig[3][32];
  StaticInitProbe()
  {
    // only when asked for (WV_SINIT=1, set by the check for the one `sinit` line): in every other run the library must meet its
    // FIRST use inside the operation under test (a lazily initialised table raced for by two threads shows only then)
    memset(enc, 0, sizeof enc);
    memset(dec, 0, sizeof dec);
    memset(dig, 0, sizeof dig);
    if (!getenv("WV_SINIT"))
      return;
    unsigned char k[16], b[16];
    for (int i = 0; i < 16; ++i)
    {
      k[i] = (unsigned char)i;
      b[i] = (unsigned char)(i * 0x11);
    }
    memcpy(enc, b, 16);
    memcpy(dec, b, 16);
    {
      encryaes e(k);
      e.runaes_128bit(enc);
    }
    {
      decryaes d(k);
      d.runaes_128bit(dec);
    }
    for (int a = 0; a < 3; ++a)
    {
      HashFactory hf;
      Hashmaster *h = hf.getHasher(HashFactory::getType((u8_t)a));
      unsigned char m[3] = {'a', 'b', 'c'};
      memset(dig[a], 0, 32);
      h->getStringHash(m, 3, dig[a]);
      delete h;
    }
  }
};
static StaticInitProbe static_init_probe;
static Hashmaster *hasher(int a)
{
  HashFactory hf;
  return hf.getHasher(HashFactory::getType((u8_t)a));
}

static std::string handle(std::vector<std::string> &a)
{
  const std::string &c = a[0];
  if (c == "aes")
  {
    bytes k = unhex(a[2]), b0 = unhex(a[3]);
    k.resize(16);
    b0.resize(16);
    // the result must not depend on WHERE the block and the key lie: they are placed at byte offsets 0..7 / 0..3 of
    // larger buffers, chosen from the data (so every case line still gives one deterministic result)
    size_t ob = b0[15] & 7, ok = k[15] & 3;
    alignas(16) unsigned char bb[48], kb[32];
    memcpy(bb + ob, b0.data(), 16);
    memcpy(kb + ok, k.data(), 16);
    if (a[1] == "e")
    {
      encryaes e(kb + ok);
      e.runaes_128bit(bb + ob);
    }
    else
    {
      decryaes d(kb + ok);
      d.runaes_128bit(bb + ob);
    }
    return hex(bb + ob, 16);
  }
  if (c == "sinit")
    return hex(static_init_probe.enc, 16) + " " + hex(static_init_probe.dec, 16) + " " + hex(static_init_probe.dig[0], 20) + " " + hex(static_init_probe.dig[1], 16) + " " + hex(static_init_probe.dig[2], 32);
  if (c == "aescopy")
  {
    // aescopy e|d KEY BLOCK : the cipher object is COPIED (passed by value, as into a container), the copy is used and destroyed,
    // the heap is churned, then the ORIGINAL transforms BLOCK: a copy must not take anything away from the original
    bytes k = unhex(a[2]), b0 = unhex(a[3]);
    k.resize(16);
    b0.resize(16);
    unsigned char bb[16], scratch[16];
    memcpy(bb, b0.data(), 16);
    memset(scratch, 0x5A, 16);
    auto churn = []() {
      std::vector<unsigned char *> v;
      for (int i = 0; i < 12; ++i)
      {
        v.push_back(new unsigned char[176]);
        memset(v.back(), 0xC3, 176);
      }
      for (auto p : v)
        delete[] p;
    };
    if (a.size() > 4 && a[4] == "use-copy")
    {
      // the COPY is used after the original went out of scope and its storage was reused for an object with ANOTHER key
      unsigned char other[16];
      for (int i = 0; i < 16; ++i)
        other[i] = (unsigned char)(k[i] ^ 0x5A ^ i);
      std::string r;
      if (a[1] == "e")
      {
        alignas(16) unsigned char slot[sizeof(encryaes)];
        encryaes *orig = new (slot) encryaes(k.data());
        encryaes copy = *orig;
        orig->~encryaes();
        encryaes *second = new (slot) encryaes(other);
        second->runaes_128bit(scratch);
        copy.runaes_128bit(bb);
        r = hex(bb, 16);
      }
      else
      {
        alignas(16) unsigned char slot[sizeof(decryaes)];
        decryaes *orig = new (slot) decryaes(k.data());
        decryaes copy = *orig;
        orig->~decryaes();
        decryaes *second = new (slot) decryaes(other);
        second->runaes_128bit(scratch);
        copy.runaes_128bit(bb);
        r = hex(bb, 16);
      }
      fprintf(res, "%s %s\n", "__aescopy", r.c_str());
      fflush(res);
      _exit(0);
    }
    if (a[1] == "e")
    {
      encryaes e(k.data());
      {
        encryaes copy = e;
        copy.runaes_128bit(scratch);
      }
      churn();
      e.runaes_128bit(bb);
      std::string r = hex(bb, 16);
      fprintf(res, "%s %s\n", "__aescopy", r.c_str());
      fflush(res);
      _exit(0);      // leave without destructors: a shared resource would be released twice at scope end, which is not the question here
    }
    decryaes d(k.data());
    {
      decryaes copy = d;
      copy.runaes_128bit(scratch);
    }
    churn();
    d.runaes_128bit(bb);
    std::string r = hex(bb, 16);
    fprintf(res, "%s %s\n", "__aescopy", r.c_str());
    fflush(res);
    _exit(0);
  }
  if (c == "modeu")
  {
    // like mode, but the stream lies at an address that is NOT a multiple of 4 (offset 1..3 of an aligned buffer, chosen from the data)
    bytes k = unhex(a[3]), iv = unhex(a[4]), data = unhex(a[5]);
    k.resize(16);
    iv.resize(20);
    size_t off = 1 + (iv[0] % 3);
    std::vector<unsigned char> store(data.size() + 32);
    unsigned char *base = store.data();
    base += (16 - ((uintptr_t)base & 15)) & 15;
    memcpy(base + off, data.data(), data.size());
    AesFactory f(k.data());
    f.loadiv(iv.data());
    Aesmode *m = f.createCryMaster(a[1] == "e", (u8_t)atoi(a[2].c_str()));
    if (m == NULL)
      return "NULL";
    for (size_t i = 0; i + 16 <= data.size(); i += 16)
      m->runcry(base + off + i);
    delete m;
    return hex(base + off, data.size());
  }
  if (c == "mode" || c == "modes")
  {
    bytes k = unhex(a[3]), iv = unhex(a[4]), data = unhex(a[5]);
    k.resize(16);
    iv.resize(20);
    AesFactory f(k.data());
    f.loadiv(iv.data());
    Aesmode *m = f.createCryMaster(a[1] == "e", (u8_t)atoi(a[2].c_str()));
    if (m == NULL)
      return "NULL";
    if (c == "modes")
    {
      // every block goes through ONE reused scratch block (callers such as the chunk buffers refill in place)
      u8_t scratch[16];
      for (size_t i = 0; i + 16 <= data.size(); i += 16)
      {
        memcpy(scratch, data.data() + i, 16);
        m->runcry(scratch);
        memcpy(data.data() + i, scratch, 16);
        memset(scratch, 0xEE, 16);
      }
    }
    else
      for (size_t i = 0; i + 16 <= data.size(); i += 16)
        m->runcry(data.data() + i);
    delete m;
    return hex(data);
  }
  if (c == "modelong")
  {
    // modelong e|d TYPE KEY IV NBLOCKS POS,POS,... : one stream object driven through NBLOCKS all-zero blocks; prints the output
    // blocks at the listed positions (a stream that runs for gigabytes: position counters kept in 32 bits wrap there)
    bytes k = unhex(a[3]), iv = unhex(a[4]);
    unsigned long long n = strtoull(a[5].c_str(), NULL, 10);
    std::vector<unsigned long long> pos;
    for (auto &x : split(a[6], ','))
      pos.push_back(strtoull(x.c_str(), NULL, 10));
    iv.resize(20);
    AesFactory f(k.data());
    f.loadiv(iv.data());
    Aesmode *m = f.createCryMaster(a[1] == "e", (u8_t)atoi(a[2].c_str()));
    if (m == NULL)
      return "NULL";
    std::string r;
    size_t pi = 0;
    u8_t blk[16];
    for (unsigned long long j = 0; j < n && pi < pos.size(); ++j)
    {
      memset(blk, 0, 16);
      m->runcry(blk);
      if (j == pos[pi])
      {
        r += (pi ? "," : "") + hex(blk, 16);
        ++pi;
      }
    }
    delete m;
    return r;
  }
  if (c == "hstr")
  {
    bytes m = unhex(a[2]);
    Hashmaster *h = hasher(atoi(a[1].c_str()));
    unsigned char out[64];
    unsigned char dummy = 0;
    h->getStringHash(m.empty() ? &dummy : m.data(), m.size(), out);
    std::string r = hex(out, h->gethlen());
    delete h;
    return r;
  }
  if (c == "hseq")
  {
    // hseq ALG item;item;... : ONE hasher object digests several messages one after the other (fields of an item separated by ','):
    //   s,MSG -> getStringHash ; f,MSG -> getFileHash over a file holding MSG ; i,MSG,OFF -> getStringHash with the RESULT buffer
    //   inside the message buffer at offset OFF (in place / overlapping; the message is consumed before the result is written)
    Hashmaster *h = hasher(atoi(a[1].c_str()));
    std::string r;
    for (auto &o : split(a[2], ';'))
    {
      std::vector<std::string> f = split(o, ',');
      bytes m = unhex(f.size() > 1 ? f[1] : "");
      unsigned char out[64];
      std::string one;
      if (f[0] == "s")
      {
        unsigned char dummy = 0;
        h->getStringHash(m.empty() ? &dummy : m.data(), m.size(), out);
        one = hex(out, h->gethlen());
      }
      else if (f[0] == "i")
      {
        size_t off = strtoul(f[2].c_str(), NULL, 10), n = m.size();
        bytes buf = m;
        buf.resize((off > n ? off : n) + 64, 0xEE);
        h->getStringHash(buf.data(), n, buf.data() + off);
        one = hex(buf.data() + off, h->gethlen());
      }
      else
      {
        std::string p = write_tmp(m);
        FILE *fp = fopen(p.c_str(), "rb");
        buffer64 *buf = new filebuffer64(fp);
        h->getFileHash(buf, out);
        one = hex(out, h->gethlen());
        delete (filebuffer64 *)buf;
        fclose(fp);
        unlink(p.c_str());
      }
      r += (r.empty() ? "" : " ") + one;
    }
    delete h;
    return r;
  }
  if (c == "hfile")
  {
    bytes pre = unhex(a[3]), m = unhex(a[4]);
    Hashmaster *h = hasher(atoi(a[2].c_str()));
    std::string p = write_tmp(m);
    FILE *fp = fopen(p.c_str(), "rb");
    pre.resize(64);
    buffer64 *buf = new filebuffer64(fp, [](std::string, size_t) -> void {}, a[3] == "-" ? NULL : pre.data());
    unsigned char out[64];
    h->getFileHash(buf, out);
    std::string r = hex(out, h->gethlen());
    delete (filebuffer64 *)buf;
    delete h;
    fclose(fp);
    unlink(p.c_str());
    return r;
  }
  if (c == "hpipe")
  {
    // hpipe ALG MSG : the file entry point reading from a PIPE (not seekable; short reads are possible)
    bytes m = unhex(a[2]);
    Hashmaster *h = hasher(atoi(a[1].c_str()));
    int pfd[2];
    if (pipe(pfd) != 0)
      return "PIPE-FAILED";
    pid_t feeder = fork();
    if (feeder == 0)
    {
      close(pfd[0]);
      size_t off = 0;
      while (off < m.size())
      {
        size_t chunk = m.size() - off > 37 ? 37 : m.size() - off;      // odd-sized writes: the reader sees short reads
        ssize_t w = write(pfd[1], m.data() + off, chunk);
        if (w <= 0)
          break;
        off += w;
      }
      _exit(0);
    }
    close(pfd[1]);
    FILE *fp = fdopen(pfd[0], "rb");
    buffer64 *buf = new filebuffer64(fp);
    unsigned char out[64];
    h->getFileHash(buf, out);
    std::string r = hex(out, h->gethlen());
    delete (filebuffer64 *)buf;
    delete h;
    fclose(fp);
    int st;
    waitpid(feeder, &st, 0);
    return r;
  }
  if (c == "hfilep")
  {
    Hashmaster *h = hasher(atoi(a[1].c_str()));
    FILE *fp = fopen(a[2].c_str(), "rb");
    if (!fp)
      return "NOFILE";
    buffer64 *buf = new filebuffer64(fp);
    unsigned char out[64];
    h->getFileHash(buf, out);
    std::string r = hex(out, h->gethlen());
    delete (filebuffer64 *)buf;
    delete h;
    fclose(fp);
    return r;
  }
  if (c == "hmseq")
  {
    // hmseq KEY op;op;...  : a sequence of operations on ONE hmac object (fields of an op separated by ','):
    //   g,HM,MSG -> tag ; c,HM,MSG,TAG -> 0|1 ; w,HM,FILE -> bytes [0,48) of FILE after writeFileHmac(HM, fp, key, 48, 10)
    bytes k = unhex(a[1]);
    k.resize(16);
    hmac h;
    std::string r;
    for (auto &o : split(a[2], ';'))
    {
      std::vector<std::string> f = split(o, ',');
      int hm = atoi(f[1].c_str());
      bytes m = unhex(f[2]);
      std::string p = write_tmp(m);
      FILE *fp = fopen(p.c_str(), "rb+");
      std::string one;
      if (f[0] == "g")
      {
        unsigned char out[64];
        h.gethmac((u8_t)hm, place_key(k), fp, out);
        one = hex(out, h.get_length());
      }
      else if (f[0] == "c")
      {
        bytes st = unhex(f[3]);
        st.resize(64);
        one = h.cmphmac((u8_t)hm, place_key(k), fp, st.data()) ? "1" : "0";
      }
      else
      {
        h.writeFileHmac((u8_t)hm, fp, place_key(k), 48, 10);
        fflush(fp);
        bytes after = read_file(p);
        after.resize(48);
        one = hex(after);
      }
      fclose(fp);
      unlink(p.c_str());
      r += (r.empty() ? "" : " ") + one;
    }
    return r;
  }
  if (c == "hmac" || c == "cmph")
  {
    int hm = atoi(a[2].c_str());
    bytes k = unhex(a[3]), m = unhex(a[4]);
    k.resize(16);
    std::string p = write_tmp(m);
    FILE *fp = fopen(p.c_str(), "rb");
    hmac h;
    std::string r;
    if (c == "hmac")
    {
      unsigned char out[64];
      h.gethmac((u8_t)hm, place_key(k), fp, out);
      r = hex(out, h.get_length());
    }
    else
    {
      bytes st = unhex(a[5]);
      st.resize(64);
      // optional 6th field: the size the caller announces (documented as progress information; the file may have grown since)
      size_t announced = a.size() > 6 ? strtoull(a[6].c_str(), NULL, 10) : 0;
      r = h.cmphmac((u8_t)hm, place_key(k), fp, st.data(), announced) ? "1" : "0";
    }
    fclose(fp);
    unlink(p.c_str());
    return r;
  }
  if (c == "b64e")
  {
    bytes m = unhex(a[1]);
    std::vector<unsigned char> out(m.size() * 2 + 16, 0xEE);
    unsigned char dummy = 0;
    hex_to_base64(m.empty() ? &dummy : m.data(), m.size(), out.data());
    size_t n = 0;
    while (n < out.size() && out[n] != 0)
      n++;
    return hex(out.data(), n + 1);
  }
  if (c == "b64d" || c == "key")
  {
    bytes s = unhex(a[1]);
    if (c == "key")
    {
      bytes z = s;
      if (!is_valid_b64(z.data(), z.size()))
        return "REJECT";
    }
    // decode twice into differently pre-filled buffers: the written prefix is where they agree
    size_t cap = s.size() + 64;
    bytes o1(cap, 0xAA), o2(cap, 0x55);
    bytes s2 = s;
    s2.resize(s.size() + 32, 0);
    int len = (c == "key") ? 24 : (int)s.size();
    bool r1 = base64_to_hex(s2.data(), len, o1.data());
    base64_to_hex(s2.data(), len, o2.data());
    size_t n = 0;
    while (n < cap && o1[n] == o2[n])
      n++;
    if (c == "key")
    {
      if (n > 16)
        return "OVERFLOW " + std::to_string(n);
      bytes k(o1.begin(), o1.begin() + n);
      k.resize(16, 0);
      return "OK " + hex(k);
    }
    if (!r1)
      return "FALSE";
    return "OK " + hex(o1.data(), n);
  }
  if (c == "b64v")
  {
    bytes s = unhex(a[1]);
    unsigned char dummy = 0;
    return is_valid_b64(s.empty() ? &dummy : s.data(), s.size()) ? "1" : "0";
  }
  return "?";
}

// an in-process operation (aes, mode, hstr, hfile, hmac, b64 ...) that does not return: the alarm writes "<id> HANG" and ends the
// driver process (the remaining lines of this shard get no answer, which the checks read as failures, too)
static int wv_res_fd = -1;
static char wv_cur_id[96];
static void wv_on_alarm(int)
{
  char buf[128];
  int n = snprintf(buf, sizeof buf, "%s HANG\n", wv_cur_id);
  if (wv_res_fd >= 0 && n > 0)
    (void)!write(wv_res_fd, buf, (size_t)n);
  _exit(3);
}

int main(int argc, char **argv)
{
  if (getenv("WV_SCRATCH"))
    scratch = getenv("WV_SCRATCH");
  if (getenv("WV_TIMEOUT_MS"))
    op_timeout_ms = atoi(getenv("WV_TIMEOUT_MS"));
  int saved = dup(1);
  int nul = open("/dev/null", O_WRONLY);
  dup2(nul, 1);
  res = fdopen(saved, "w");
  wv_res_fd = saved;
  signal(SIGALRM, wv_on_alarm);
  char *line = NULL;
  size_t cap = 0;
  ssize_t n;
  while ((n = getline(&line, &cap, stdin)) > 0)
  {
    std::string s(line, n);
    while (!s.empty() && (s.back() == '\n' || s.back() == '\r'))
      s.pop_back();
    std::vector<std::string> w = split(s, ' ');
    if (w.size() < 2)
      continue;
    std::string id = w[0];
    std::vector<std::string> a(w.begin() + 1, w.end());
    child_opts.clear();
    if (a[0][0] == '@')
    {
      child_opts = a[0].substr(1);
      a.erase(a.begin());
      if (a.empty())
        continue;
    }
    if (a[0] == "enc" || a[0] == "dec" || a[0] == "ver" || a[0] == "encf" || a[0] == "decf" || a[0] == "pipe" || a[0] == "cli" || a[0] == "encp" || a[0] == "decp" || a[0] == "verp")
    {
      isolated(id, {a});
    }
    else if (a[0] == "hist")
    {
      // hist op;op;...   (fields of an op separated by ',')
      std::vector<std::vector<std::string>> ops;
      for (auto &o : split(a[1], ';'))
        ops.push_back(split(o, ','));
      isolated(id, ops);
    }
    else if (a[0] == "par" && a.size() >= 3)
    {
      // par ITER op;op;...  (fields of an op separated by ','): every op runs ITER times in its own REAL thread, all threads
      // at the same time; prints per op "<first result>:<number of iterations whose result differed from the first>".
      // The pure entry points (aes, mode, hstr) must give the same answers however many threads use them at once.
      struct job { std::vector<std::string> a; int iter; std::string first; int diff; };
      std::vector<job> jobs;
      for (auto &o : split(a[2], ';'))
        jobs.push_back(job{split(o, ','), atoi(a[1].c_str()), "", 0});
      static int go;
      snprintf(wv_cur_id, sizeof wv_cur_id, "%s", id.c_str());
      fflush(res);
      alarm(120);
      __atomic_store_n(&go, 0, __ATOMIC_SEQ_CST);
      std::vector<pthread_t> th(jobs.size());
      for (size_t i = 0; i < jobs.size(); ++i)
        pthread_create(&th[i], NULL, [](void *p) -> void * {
          job *j = (job *)p;
          while (!__atomic_load_n(&go, __ATOMIC_SEQ_CST))
            ;
          for (int k = 0; k < j->iter; ++k)
          {
            std::vector<std::string> c = j->a;
            std::string r = handle(c);
            if (k == 0)
              j->first = r;
            else if (r != j->first)
              j->diff++;
          }
          return NULL; }, &jobs[i]);
      __atomic_store_n(&go, 1, __ATOMIC_SEQ_CST);
      std::string r;
      for (size_t i = 0; i < jobs.size(); ++i)
      {
        pthread_join(th[i], NULL);
        r += (i ? " " : "") + jobs[i].first + ":" + std::to_string(jobs[i].diff);
      }
      alarm(0);
      fprintf(res, "%s %s\n", id.c_str(), r.c_str());
    }
    else
    {
      snprintf(wv_cur_id, sizeof wv_cur_id, "%s", id.c_str());
      fflush(res);
      alarm(op_timeout_ms / 1000 > 30 ? op_timeout_ms / 1000 : 30);
      std::string r = handle(a);
      alarm(0);
      fprintf(res, "%s %s\n", id.c_str(), r.c_str());
    }
  }
  fflush(res);
  return 0;
}
