// Deterministic cooperative scheduler for the wencry pipeline (C03/C04/C14).
// Forced include (g++ -include shim.h): every std header is included first, then
// std::mutex / std::condition_variable / std::thread are redirected by macro to the
// cooperative replacements below.  Exactly one logical thread runs at a time; at every
// scheduling point (start of a critical section, condition wait / wake-up, guarded
// WENCRY_VERIF_YIELD hook before an unsynchronised shared access, thread exit, join) the
// next thread is taken from a replay list or from a seeded PRNG among the enabled threads.
// "No enabled thread while some thread is unfinished" is reported as DEADLOCK (exit 42).
#ifndef WENCRY_VERIF_SHIM_H
#define WENCRY_VERIF_SHIM_H
#include <bits/stdc++.h>
#include <unistd.h>

namespace vsched
{
enum State
{
  RUNNABLE,
  BLOCKED_MUTEX,
  BLOCKED_CV,
  BLOCKED_JOIN,
  FINISHED
};
struct Thr
{
  int id;
  State st = RUNNABLE;
  const void *on = nullptr;
  bool awake_from_cv = false;
  bool timed = false;     // sleeping in wait_for / wait_until: may also be woken by a timeout
  bool timed_out = false; // the last wake-up was a timeout
  std::condition_variable cv;
};
struct Event
{
  int tid, kind, obj;
  long val;
};
struct Sched
{
  std::mutex G;
  std::vector<Thr *> thr;
  int current = 0;
  std::vector<int> choices;    // thread chosen at every scheduling point
  std::vector<int> nenabled;   // number of enabled threads at that point
  std::vector<Event> events;   // what the chosen thread then did
  std::vector<int> replay;
  size_t replay_pos = 0;
  unsigned long long rng = 88172645463325252ULL;
  long steps = 0, max_steps = 2000000;
  bool yield_in_cs = false;
  int spurious = 0; // percent chance per scheduling decision to wake one condition-variable sleeper without a notify
  int policy = 0; // 0 uniform random, 1 PCT-like priorities
  std::vector<int> prio;
  std::vector<long> change_at;
  bool inited = false;
  std::string logpath;
  void init()
  {
    if (inited)
      return;
    inited = true;
    Thr *m = new Thr;
    m->id = 0;
    thr.push_back(m);
    const char *s = getenv("WV_SCHED_SEED");
    if (s)
      rng ^= (unsigned long long)atoll(s) * 0x9E3779B97F4A7C15ULL + 12345;
    for (int i = 0; i < 8; ++i)
      next_rand();
    const char *r = getenv("WV_SCHED_REPLAY");
    if (r)
    {
      std::ifstream f(r);
      int x;
      while (f >> x)
        replay.push_back(x);
    }
    if (getenv("WV_SCHED_LOG"))
      logpath = getenv("WV_SCHED_LOG");
    if (getenv("WV_YIELD_IN_CS"))
      yield_in_cs = atoi(getenv("WV_YIELD_IN_CS")) != 0;
    if (getenv("WV_SPURIOUS"))
      spurious = atoi(getenv("WV_SPURIOUS"));
    if (getenv("WV_SCHED_POLICY"))
      policy = atoi(getenv("WV_SCHED_POLICY"));
    if (getenv("WV_SCHED_MAXSTEPS"))
      max_steps = atol(getenv("WV_SCHED_MAXSTEPS"));
    if (policy == 1)
      for (int i = 0; i < 3; ++i)
        change_at.push_back(next_rand() % 400);
  }
  unsigned long long next_rand()
  {
    rng ^= rng << 13;
    rng ^= rng >> 7;
    rng ^= rng << 17;
    return rng;
  }
  void dump(const char *status)
  {
    if (logpath.empty())
      return;
    FILE *f = fopen(logpath.c_str(), "w");
    if (!f)
      return;
    fprintf(f, "status %s\nsteps %ld\nthreads %zu\nchoices", status, steps, thr.size());
    for (size_t i = 0; i < choices.size(); ++i)
      fprintf(f, " %d", choices[i]);
    fprintf(f, "\nenabled");
    for (size_t i = 0; i < nenabled.size(); ++i)
      fprintf(f, " %d", nenabled[i]);
    fprintf(f, "\n");
    for (size_t i = 0; i < events.size(); ++i)
      fprintf(f, "ev %d %d %d %ld\n", events[i].tid, events[i].kind, events[i].obj, events[i].val);
    for (size_t i = 0; i < thr.size(); ++i)
      fprintf(f, "thr %d state %d\n", thr[i]->id, (int)thr[i]->st);
    fclose(f);
  }
  // choose the next thread to run among the enabled ones; G held
  int choose()
  {
    if (spurious > 0 && (int)(next_rand() % 100) < spurious)
    {
      std::vector<int> sl;
      for (size_t i = 0; i < thr.size(); ++i)
        if (thr[i]->st == BLOCKED_CV)
          sl.push_back((int)i);
      if (!sl.empty())
      {
        int w = sl[next_rand() % sl.size()];
        int nrun = 0;
        for (size_t i = 0; i < thr.size(); ++i)
          nrun += thr[i]->st == RUNNABLE;
        thr[w]->st = RUNNABLE; // spurious wake-up (allowed by the C++ standard)
        Event se = {w, 30, nrun, 0}; // kind 30 = spurious wake-up of thread w; obj = runnable threads before it
        events.push_back(se);
      }
    }
    // timed waits: a timeout may fire at any scheduling decision (5%), and must fire when nothing else can run
    {
      std::vector<int> tw;
      bool any_runnable = false;
      for (size_t i = 0; i < thr.size(); ++i)
      {
        if (thr[i]->st == BLOCKED_CV && thr[i]->timed)
          tw.push_back((int)i);
        any_runnable = any_runnable || thr[i]->st == RUNNABLE;
      }
      if (!tw.empty() && (!any_runnable || next_rand() % 100 < 5))
      {
        Thr *t = thr[tw[next_rand() % tw.size()]];
        t->st = RUNNABLE;
        t->timed_out = true;
      }
    }
    std::vector<int> en;
    for (size_t i = 0; i < thr.size(); ++i)
      if (thr[i]->st == RUNNABLE)
        en.push_back((int)i);
    if (en.empty())
    {
      bool all = true;
      for (size_t i = 0; i < thr.size(); ++i)
        all = all && thr[i]->st == FINISHED;
      if (all)
        return -1;
      dump("DEADLOCK");
      fflush(NULL);
      _exit(42);
    }
    if (++steps > max_steps)
    {
      dump("LIVELOCK");
      fflush(NULL);
      _exit(43);
    }
    int pick = -1;
    if (replay_pos < replay.size())
    {
      int want = replay[replay_pos++];
      for (size_t i = 0; i < en.size(); ++i)
        if (en[i] == want)
          pick = want;
      if (pick < 0)
      {
        dump("REPLAY-DIVERGED");
        fflush(NULL);
        _exit(44);
      }
    }
    else if (policy == 1)
    {
      while (prio.size() < thr.size())
        prio.push_back((int)(next_rand() % 1000) + 1000);
      for (size_t k = 0; k < change_at.size(); ++k)
        if (steps == change_at[k])
          prio[current] = (int)k; // demote the running thread
      int best = -1;
      for (size_t i = 0; i < en.size(); ++i)
        if (best < 0 || prio[en[i]] > prio[best])
          best = en[i];
      pick = best;
    }
    else
      pick = en[next_rand() % en.size()];
    choices.push_back(pick);
    nenabled.push_back((int)en.size());
    Event ce = {pick, 0, (int)en.size(), 0}; // kind 0 = scheduling decision
    events.push_back(ce);
    return pick;
  }
  // hand the processor to the chosen thread and wait until it comes back to self; G held via lk
  void switch_from(Thr *self, std::unique_lock<std::mutex> &lk)
  {
    int pick = choose();
    if (pick < 0)
      return;
    if (pick != self->id)
    {
      current = pick;
      thr[pick]->cv.notify_one();
      if (self->st == FINISHED)
        return;
      self->cv.wait(lk, [&] { return current == self->id; });
    }
  }
};
inline Sched &S()
{
  static Sched *s = new Sched;
  return *s;
}
inline Thr *self()
{
  Sched &s = S();
  return s.thr[s.current];
}
// scheduling point: the calling thread stays enabled
inline void yield_point()
{
  Sched &s = S();
  std::unique_lock<std::mutex> lk(s.G);
  s.init();
  Thr *me = s.thr[s.current];
  me->st = RUNNABLE;
  s.switch_from(me, lk);
}
inline void log_event(int kind, int obj, long val)
{
  Sched &s = S();
  std::unique_lock<std::mutex> lk(s.G);
  s.init();
  Event e = {s.current, kind, obj, val};
  s.events.push_back(e);
}
inline void finish(const char *status)
{
  Sched &s = S();
  std::unique_lock<std::mutex> lk(s.G);
  s.dump(status);
}
} // namespace vsched

// event kinds (also used by the guarded hooks in /repo and by the harness)
enum
{
  WV_EV_GET = 1,      // obj = buffer, val = 1 entry handed out / 0 NULL
  WV_EV_CMPREADY = 2, // obj = buffer, val = result of require_buffer_entry's second part (1 entry, 0 NULL)
  WV_EV_CMPUPD = 3,   // obj = buffer (turn), val unused
  WV_EV_EXPORT_BEGIN = 4,
  WV_EV_EXPORT_END = 5,
  WV_EV_LOAD_BEGIN = 6,
  WV_EV_LOAD_END = 7, // val = loadstate (0 FULL, 1 FINAL, 2 NODATA)
  WV_EV_TURN = 8,     // obj = new turn, val = 1 continue / 0 stop
  WV_EV_CS = 10,      // critical section entered: obj = low bits of mutex address index, val = which (set by wrappers)
  WV_EV_SLEEP = 11,
  WV_EV_WAKE = 12,
  WV_EV_RUNCRY = 13, // obj = stream id, val = block tag (harness objects only)
  WV_EV_EXIT = 14,
  WV_EV_STATE = 15   // obj = buffer, val = new state (after a critical section changed it)
};
#define WENCRY_VERIF_YIELD_IMPL(kind, obj) vsched::yield_point()
#define WENCRY_VERIF_EV_IMPL(kind, obj, val) vsched::log_event((kind), (int)(obj), (long)(val))

namespace std
{
class vsched_mutex
{
public:
  int owner = -1;
  vsched_mutex() {}
  vsched_mutex(const vsched_mutex &) = delete;
  void acquire_blocking()
  {
    vsched::Sched &s = vsched::S();
    std::unique_lock<std::mutex> lk(s.G);
    s.init();
    vsched::Thr *me = s.thr[s.current];
    while (owner != -1)
    {
      me->st = vsched::BLOCKED_MUTEX;
      me->on = this;
      s.switch_from(me, lk);
    }
    owner = me->id;
  }
  void lock()
  {
    vsched::yield_point(); // start of a critical section is a scheduling point
    acquire_blocking();
  }
  bool try_lock()
  {
    vsched::Sched &s = vsched::S();
    std::unique_lock<std::mutex> lk(s.G);
    s.init();
    if (owner != -1)
      return false;
    owner = s.current;
    return true;
  }
  void unlock()
  {
    vsched::Sched &s = vsched::S();
    std::unique_lock<std::mutex> lk(s.G);
    owner = -1;
    for (size_t i = 0; i < s.thr.size(); ++i)
      if (s.thr[i]->st == vsched::BLOCKED_MUTEX && s.thr[i]->on == this)
        s.thr[i]->st = vsched::RUNNABLE;
    bool y = s.yield_in_cs;
    lk.unlock();
    if (y)
      vsched::yield_point(); // between releasing the mutex and whatever follows (e.g. a notify placed after the unlock)
  }
};
class vsched_condition_variable
{
public:
  vsched_condition_variable() {}
  vsched_condition_variable(const vsched_condition_variable &) = delete;
  // returns true when the wake-up was a timeout (only possible for timed waits)
  bool wait_impl(std::unique_lock<vsched_mutex> &l, bool timed)
  {
    vsched::Sched &s = vsched::S();
    vsched_mutex *m = l.mutex();
    bool to = false;
    {
      std::unique_lock<std::mutex> lk(s.G);
      vsched::Thr *me = s.thr[s.current];
      me->timed = timed;
      me->timed_out = false;
      // atomically release the mutex and go to sleep
      m->owner = -1;
      for (size_t i = 0; i < s.thr.size(); ++i)
        if (s.thr[i]->st == vsched::BLOCKED_MUTEX && s.thr[i]->on == m)
          s.thr[i]->st = vsched::RUNNABLE;
      me->st = vsched::BLOCKED_CV;
      me->on = this;
      vsched::Event e = {me->id, WV_EV_SLEEP, 0, 0};
      s.events.push_back(e);
      s.switch_from(me, lk); // returns when notified and scheduled: that is the wake-up step
      vsched::Event e2 = {me->id, WV_EV_WAKE, 0, 0};
      s.events.push_back(e2);
      to = me->timed_out;
      me->timed = false;
      me->timed_out = false;
    }
    m->acquire_blocking();
    return to;
  }
  void wait(std::unique_lock<vsched_mutex> &l) { wait_impl(l, false); }
  template <class P>
  void wait(std::unique_lock<vsched_mutex> &l, P pred)
  {
    while (!pred())
      wait(l);
  }
  template <class R, class Pd>
  std::cv_status wait_for(std::unique_lock<vsched_mutex> &l, const std::chrono::duration<R, Pd> &)
  {
    return wait_impl(l, true) ? std::cv_status::timeout : std::cv_status::no_timeout;
  }
  template <class R, class Pd, class P>
  bool wait_for(std::unique_lock<vsched_mutex> &l, const std::chrono::duration<R, Pd> &, P pred)
  {
    while (!pred())
      if (wait_impl(l, true))
        return pred();
    return true;
  }
  template <class C, class D>
  std::cv_status wait_until(std::unique_lock<vsched_mutex> &l, const std::chrono::time_point<C, D> &)
  {
    return wait_impl(l, true) ? std::cv_status::timeout : std::cv_status::no_timeout;
  }
  template <class C, class D, class P>
  bool wait_until(std::unique_lock<vsched_mutex> &l, const std::chrono::time_point<C, D> &, P pred)
  {
    while (!pred())
      if (wait_impl(l, true))
        return pred();
    return true;
  }
  void notify_all()
  {
    vsched::Sched &s = vsched::S();
    {
      std::unique_lock<std::mutex> lk(s.G);
      s.init();
      for (size_t i = 0; i < s.thr.size(); ++i)
        if (s.thr[i]->st == vsched::BLOCKED_CV && s.thr[i]->on == this)
          s.thr[i]->st = vsched::RUNNABLE;
    }
    if (s.yield_in_cs)
      vsched::yield_point();
  }
  void notify_one()
  {
    vsched::Sched &s = vsched::S();
    std::unique_lock<std::mutex> lk(s.G);
    s.init();
    for (size_t i = 0; i < s.thr.size(); ++i)
      if (s.thr[i]->st == vsched::BLOCKED_CV && s.thr[i]->on == this)
      {
        s.thr[i]->st = vsched::RUNNABLE;
        break;
      }
  }
};
class vsched_thread
{
  std::thread *real = nullptr;
  int id = -1;

public:
  vsched_thread() {}
  vsched_thread(const vsched_thread &) = delete;
  vsched_thread(vsched_thread &&o) : real(o.real), id(o.id)
  {
    o.real = nullptr;
    o.id = -1;
  }
  vsched_thread &operator=(vsched_thread &&o)
  {
    real = o.real;
    id = o.id;
    o.real = nullptr;
    o.id = -1;
    return *this;
  }
  template <class F, class... A>
  explicit vsched_thread(F &&f, A &&...a)
  {
    vsched::Sched &s = vsched::S();
    auto fn = std::bind(std::forward<F>(f), std::forward<A>(a)...);
    {
      std::unique_lock<std::mutex> lk(s.G);
      s.init();
      vsched::Thr *t = new vsched::Thr;
      t->id = (int)s.thr.size();
      id = t->id;
      s.thr.push_back(t);
    }
    int myid = id;
    real = new std::thread([myid, fn]() mutable {
      vsched::Sched &s = vsched::S();
      {
        std::unique_lock<std::mutex> lk(s.G);
        s.thr[myid]->cv.wait(lk, [&] { return s.current == myid; });
      }
      fn();
      {
        std::unique_lock<std::mutex> lk(s.G);
        vsched::Thr *me = s.thr[myid];
        me->st = vsched::FINISHED;
        vsched::Event e = {myid, WV_EV_EXIT, 0, 0};
        s.events.push_back(e);
        for (size_t i = 0; i < s.thr.size(); ++i)
          if (s.thr[i]->st == vsched::BLOCKED_JOIN && s.thr[i]->on == me)
            s.thr[i]->st = vsched::RUNNABLE;
        s.switch_from(me, lk);
      }
    });
  }
  bool joinable() const { return real != nullptr; }
  void join()
  {
    vsched::Sched &s = vsched::S();
    {
      std::unique_lock<std::mutex> lk(s.G);
      vsched::Thr *me = s.thr[s.current];
      vsched::Thr *t = s.thr[id];
      while (t->st != vsched::FINISHED)
      {
        me->st = vsched::BLOCKED_JOIN;
        me->on = t;
        s.switch_from(me, lk);
      }
      me->st = vsched::RUNNABLE;
    }
    real->join();
    delete real;
    real = nullptr;
  }
  ~vsched_thread() {}
};
} // namespace std

#define mutex vsched_mutex
#define condition_variable vsched_condition_variable
#define thread vsched_thread
#endif
